(** * C07, first clause: any sequence of enabled biases can be combined with any of the seven methods.

    On a state satisfying [inv] (Check/Stage.v) whose parameter kind matches the method, evaluating
    the method never fails with a *combination* error (a failed lookup [EMissing], a collision
    [ECollision], a parameter object of the wrong kind [EType], an index out of range [EIndex]).
    The errors that remain possible are documented validations ([EInvalid]) and the harness classes
    ([EOutOfFuel], [EOutOfRandom], [EOutOfOracle]).  Everything is generic over [{N : Num}]; no order
    law is needed.

    [inv] alone is not enough for five of the seven methods; the module [Witnesses] at the end gives,
    for every extra hypothesis, a state with [inv s = true] on which the method fails with a combination
    error.  The extra hypotheses ([side_ok]):
    - weightedSum, owa: none;
    - choquetIntegral: the value keys of every considered alternative are distinct current criteria
      ([exact_values]; an extra or a duplicated value key makes the capacity lookup fail, [EMissing]);
    - electreIII: at least one considered alternative ([EIndex] on the empty credibility matrix);
    - majority / satisfaction: the current choice is a known alternative, or it is empty and there is a
      considered alternative ([current_ok]; otherwise [EMissing] / [EIndex]);
    - majority / aspect / satisfaction with [randomAlternativesOrdering]: the draws of the random stream
      are unit draws ([unit_streams]; a draw above 1 indexes outside the list, [EIndex]); this is a
      condition on the oracle shipped with the case, discharged on [NumQc] for draws [<= 1]
      ([unit_draw_Qc], [unit_streams_Qc]).

    Main results:
    - per method: [utility_evaluate_total], [electre_evaluate_total], [majority_evaluate_total],
      [aspect_evaluate_total], [satisfaction_evaluate_total]; all methods: [evaluate_total];
    - the parameter kind survives the biases: [parse_params_kind], [prepare_kind], [biased_state_kind];
    - end to end: [biased_evaluate_total] (hypothesis of [InvFacts.biased_state_inv]),
      [biased_evaluate_total_gen] (hypothesis of [InvFacts.biased_state_inv_gen]),
      [decide_error_origin(_gen)]: a combination error of [decide] is an error of [biased_state];
    - with every side condition on the request: [biased_evaluate_total_ws_owa],
      [biased_evaluate_total_electre], [biased_evaluate_total_request] (the four validating methods;
      Choquet through [tidy], which [prepare] establishes and every bias preserves: [apply_bias_tidy],
      [process_biases_tidy], [biased_state_tidy]), [decide_error_origin_request],
      [biased_evaluate_total_heuristics];
    - the biases themselves: [apply_fatigue_total] ([inv] only), [apply_omission_total],
      [apply_reversal_total] (need [order_side] and [split_ok]), [apply_anchoring_inline_total]
      (needs [anchors_known]), [apply_bias_total]; concealment, mixing and anchoring with the
      new-criterion applier are not proved total: [Witnesses] (g) shows what else they need. *)
From Coq Require Import ZArith Bool List String Ascii Permutation Lia.
From RDM Require Import Base.Num Base.Util Model.Data Model.Rank Model.Utility Model.Levels Model.Heuristics
  Model.Electre Model.Listeners Model.Biases Model.Anchoring Model.Pipeline Check.Stage
  Proofs.SortFacts Proofs.WfFacts Proofs.LevelFacts Proofs.MapOrderFacts Proofs.InvFacts Proofs.BiasStructFacts.
From RDM Require Proofs.RankFacts.
Import ListNotations.
Local Open Scope string_scope.
Local Open Scope list_scope.

(** ** 0. Combination errors; results that are not combination errors *)
Definition combination_error (e : err_class) : bool :=
  match e with EMissing | ECollision | EType | EIndex => true | _ => false end.

(* [r] is a value or an error that is not a combination error *)
Definition noncomb {A} (r : res A) : Prop :=
  match r with Ok _ => True | Err e => combination_error e = false end.

Lemma noncomb_iff {A} (r : res A) : noncomb r <-> forall e, r = Err e -> combination_error e = false.
Proof.
  split.
  - intros H e ->. exact H.
  - intros H. destruct r as [a|e]; cbn [noncomb]; [exact I|now apply H].
Qed.

(* closes [noncomb (Ok _)] and [noncomb (Err e)] for a concrete non-combination class *)
Ltac ncd := first [exact I | reflexivity].

Lemma noncomb_ok {A} (a : A) : noncomb (Ok a).
Proof. exact I. Qed.

Lemma noncomb_bind {A B} (r : res A) (k : A -> res B) :
  noncomb r -> (forall x, r = Ok x -> noncomb (k x)) -> noncomb (bind r k).
Proof. destruct r as [a|e]; cbn [bind noncomb]; intros H K; [now apply K|exact H]. Qed.

Lemma noncomb_mapM {A B} (f : A -> res B) : forall l,
  (forall x, In x l -> noncomb (f x)) -> noncomb (mapM f l).
Proof.
  induction l as [|x r IH]; intros H; cbn [mapM]; [exact I|].
  apply noncomb_bind; [apply H; now left|]. intros y _.
  apply noncomb_bind; [apply IH; intros z Hz; apply H; now right|]. intros ys _. exact I.
Qed.

(* a fold over results with an invariant on the accumulator *)
Lemma noncomb_fold {S B} (step : S -> B -> res S) (Inv : S -> Prop) : forall l s0,
  Inv s0 ->
  (forall s x, Inv s -> In x l -> noncomb (step s x) /\ (forall s', step s x = Ok s' -> Inv s')) ->
  noncomb (fold_left (fun acc x => do s <- acc; step s x) l (Ok s0)) /\
  (forall fin, fold_left (fun acc x => do s <- acc; step s x) l (Ok s0) = Ok fin -> Inv fin).
Proof.
  induction l as [|x r IH]; intros s0 H0 Hs; cbn [fold_left bind].
  - split; [exact I|]. intros fin E. now injection E as <-.
  - destruct (Hs s0 x H0 (or_introl eq_refl)) as [N1 N2].
    destruct (step s0 x) as [s1|e] eqn:E.
    + apply IH; [now apply N2|]. intros s y Is Hy. apply Hs; [exact Is|now right].
    + rewrite fold_res_err. split; [exact N1|discriminate].
Qed.

Lemma mhas_get {A} k (m : smap A) : mhas k m = true -> exists v, mget k m = Some v.
Proof. unfold mhas. destruct (mget k m) as [v|]; [eauto|discriminate]. Qed.

Lemma in_zip_r {A B} : forall (l1 : list A) (l2 : list B) x y, In (x, y) (zip l1 l2) -> In y l2.
Proof.
  induction l1 as [|a r IH]; intros [|b s] x y H; cbn [zip] in H; try contradiction.
  destruct H as [E|H]; [injection E as _ <-; now left|right; eapply IH; exact H].
Qed.

Lemma nth_opt_some {A} : forall n (l : list A), (n < List.length l)%nat -> exists x, nth_opt n l = Some x.
Proof.
  induction n as [|n IH]; intros [|x l] H; cbn [List.length] in H; try lia; cbn [nth_opt]; [eauto|].
  apply IH. lia.
Qed.

Lemma replace_nth_length {A} (x : A) : forall n l, List.length (replace_nth n x l) = List.length l.
Proof. induction n as [|n IH]; intros [|y l]; cbn [replace_nth List.length]; auto. Qed.

(** ** 1. Side conditions *)
Section Side.
  Context {N : Num}.

  (* the parameter constructor [parse_params] produces for method [m] *)
  Definition kind_matches (m : string) (p : mparams) : bool :=
    if String.eqb m m_ws then match p with PWs _ => true | _ => false end
    else if String.eqb m m_owa then match p with POwa _ => true | _ => false end
    else if String.eqb m m_choquet then match p with PChoquet _ _ => true | _ => false end
    else if String.eqb m m_electre then match p with PElectre _ _ => true | _ => false end
    else if String.eqb m m_majority then match p with PMajority _ _ _ _ _ => true | _ => false end
    else if String.eqb m m_aspect then match p with PAspect _ _ _ _ _ => true | _ => false end
    else if String.eqb m m_satisfaction then match p with PSatisf _ _ _ _ _ => true | _ => false end
    else false.

  (* choquetIntegral: the value keys of every considered alternative are distinct current criteria *)
  Definition exact_values (s : state) : Prop :=
    forall a, In a (st_cons s) ->
      NoDup (mkeys (a_vals a)) /\ incl (mkeys (a_vals a)) (map c_id (st_crits s)).

  (* majority, satisfaction: the current choice can be found *)
  Definition current_ok (s : state) (cur : string) : Prop :=
    if String.eqb cur "" then st_cons s <> [] else In cur (map a_id (all_alts s)).

  (* a draw [d] used by the shuffle as [j := int(d * i)] stays within [0..i] *)
  Definition unit_draw (d : num) : Prop :=
    forall i : nat, (Z.to_nat (ntruncZ (nmul d (nofZ (Z.of_nat i)))) <= i)%nat.
  Definition unit_streams (e : env) : Prop := forall seed, Forall unit_draw (new_rng e seed).

  Definition side_ok (e : env) (s : state) : Prop :=
    match st_params s with
    | PWs _ | POwa _ => True
    | PChoquet _ _ => exact_values s
    | PElectre _ _ => st_cons s <> []
    | PMajority _ cur _ rnd _ => current_ok s cur /\ (rnd = true -> unit_streams e)
    | PAspect _ _ _ _ rnd => rnd = true -> unit_streams e
    | PSatisf _ _ _ cur rnd => current_ok s cur /\ (rnd = true -> unit_streams e)
    end.
End Side.

(** ** 2. Shared pieces: values, weights, ranking, shuffle, search order *)
Section Shared.
  Context {N : Num}.

  Lemma crit_value_ok a c : mhas (c_id c) (a_vals a) = true -> exists v, crit_value a c = Ok v.
  Proof.
    intros H. apply mhas_get in H as (v & E). unfold crit_value, raw_value. rewrite E.
    cbn [of_option bind]. eauto.
  Qed.

  Lemma raw_value_ok a c : mhas (c_id c) (a_vals a) = true -> exists v, raw_value a c = Ok v.
  Proof. intros H. apply mhas_get in H as (v & E). unfold raw_value. rewrite E. cbn. eauto. Qed.

  Lemma noncomb_crit_value a c : mhas (c_id c) (a_vals a) = true -> noncomb (crit_value a c).
  Proof. intros H. destruct (crit_value_ok a c H) as (v & ->). exact I. Qed.

  Lemma noncomb_raw_value a c : mhas (c_id c) (a_vals a) = true -> noncomb (raw_value a c).
  Proof. intros H. destruct (raw_value_ok a c H) as (v & ->). exact I. Qed.

  Lemma noncomb_zip_with_weights cs (w : smap num) :
    covers_weights w cs = true -> noncomb (zip_with_weights cs w).
  Proof.
    unfold covers_weights, zip_with_weights. rewrite forallb_forall. intros H.
    apply noncomb_mapM. intros c Hc. apply H, mhas_get in Hc as (v & E). rewrite E. exact I.
  Qed.

  Lemma noncomb_rank_with (f : alt -> res num) cons :
    (forall a, In a cons -> noncomb (f a)) -> noncomb (rank_with f cons).
  Proof.
    intros H. unfold rank_with. apply noncomb_bind; [|intros; exact I].
    apply noncomb_mapM. intros a Ha. apply noncomb_bind; [now apply H|]. intros; exact I.
  Qed.

  (** *** the shuffle stays inside the list when the draws are unit draws *)
  Lemma draw_unit g d g' : Forall unit_draw g -> draw g = Ok (d, g') -> unit_draw d /\ Forall unit_draw g'.
  Proof.
    intros F H. destruct g as [|x r]; cbn [draw] in H; [discriminate|].
    injection H as <- <-. now inversion F.
  Qed.

  Lemma noncomb_draw g : noncomb (draw g).
  Proof. destruct g; cbn; auto. Qed.

  Lemma noncomb_shuffle_from {A} : forall i (l : list A) g,
    Forall unit_draw g -> (i = 0 \/ i < List.length l)%nat -> noncomb (shuffle_from i l g).
  Proof.
    induction i as [|i IH]; intros l g F Hi; cbn [shuffle_from]; [exact I|].
    destruct Hi as [Hi|Hi]; [discriminate|].
    apply noncomb_bind; [apply noncomb_draw|]. intros [d g'] D. cbn [fst snd].
    destruct (draw_unit _ _ _ F D) as [U F'].
    destruct (nth_opt_some (S i) l Hi) as (xi & ->).
    specialize (U (S i)).
    match goal with |- context [nth_opt ?j l] => assert (Hj : (j < List.length l)%nat) by lia;
      destruct (nth_opt_some j l Hj) as (xj & ->) end.
    apply IH; [exact F'|]. right. rewrite !replace_nth_length. lia.
  Qed.

  Lemma noncomb_shuffle {A} (l : list A) g : Forall unit_draw g -> noncomb (shuffle l g).
  Proof.
    intros F. unfold shuffle. apply noncomb_shuffle_from; [exact F|].
    destruct l as [|x r]; cbn [List.length]; [now left|right; lia].
  Qed.

  Lemma noncomb_order_alternatives e seed rnd (l : list alt) :
    (rnd = true -> unit_streams e) -> noncomb (order_alternatives rnd l (new_rng e seed)).
  Proof.
    intros U. unfold order_alternatives. destruct rnd; [|exact I].
    apply noncomb_shuffle. now apply U.
  Qed.

  Lemma remove_alt_incl l id : incl (remove_alt l id) l.
  Proof.
    induction l as [|b r IH]; cbn [remove_alt]; [apply incl_refl|].
    destruct (String.eqb (a_id b) id); [now apply incl_tl|].
    intros x [<-|Hx]; [now left|right; now apply IH].
  Qed.

  Lemma noncomb_fetch_alt' l id : In id (map a_id l) -> noncomb (fetch_alt' l id).
  Proof.
    induction l as [|b r IH]; cbn [map fetch_alt']; intros H; [contradiction|].
    destruct (String.eqb (a_id b) id) eqn:E; [exact I|].
    apply String.eqb_neq in E. destruct H as [H|H]; [contradiction|now apply IH].
  Qed.

  (* the search order: never a combination error; the alternatives it returns are known ones *)
  Lemma search_order_total e seed s cur rnd :
    current_ok s cur -> (rnd = true -> unit_streams e) ->
    noncomb (search_order s cur rnd (new_rng e seed)) /\
    (forall c rest g', search_order s cur rnd (new_rng e seed) = Ok (c, rest, g') ->
       In c (all_alts s) /\ incl rest (st_cons s)).
  Proof.
    intros C U. unfold search_order, current_ok in *.
    destruct (String.eqb cur "") eqn:Ec; cbn [negb].
    - pose proof (noncomb_order_alternatives e seed rnd (st_cons s) U) as NO.
      destruct (order_alternatives rnd (st_cons s) (new_rng e seed)) as [[l1 g1]|err] eqn:O; cbn [bind fst snd].
      + apply order_alternatives_perm in O.
        destruct l1 as [|x r].
        * exfalso. apply C. apply Permutation_nil. exact O.
        * split; [exact I|]. intros c rest g' H. injection H as <- <- _. split.
          -- unfold all_alts. apply in_or_app. left. apply (Permutation_in _ O). now left.
          -- intros y Hy. apply (Permutation_in _ O). now right.
      + split; [exact NO|discriminate].
    - pose proof (noncomb_fetch_alt' _ _ C) as NF.
      destruct (fetch_alt' (all_alts s) cur) as [choice|err] eqn:F; cbn [bind]; [|split; [exact NF|discriminate]].
      pose proof (noncomb_order_alternatives e seed rnd (remove_alt (st_cons s) (a_id choice)) U) as NO.
      destruct (order_alternatives rnd (remove_alt (st_cons s) (a_id choice)) (new_rng e seed)) as [[l1 g1]|err] eqn:O;
        cbn [bind fst snd]; [|split; [exact NO|discriminate]].
      split; [exact I|]. intros c rest g' H. injection H as <- <- _. split.
      + eapply fetch_alt'_In. exact F.
      + apply order_alternatives_perm in O. intros y Hy.
        apply (remove_alt_incl (st_cons s) (a_id choice)). apply (Permutation_in _ O). exact Hy.
  Qed.
End Shared.

(** ** 3. weightedSum, owa, choquetIntegral *)
Section UtilityTotal.
  Context {N : Num}.

  Lemma cover_id (alts : list alt) cs a id :
    alts_cover alts cs -> In a alts -> In id (map c_id cs) -> mhas id (a_vals a) = true.
  Proof. intros A Ha Hid. apply in_map_iff in Hid as (c & <- & Hc). now apply (A a Ha c Hc). Qed.

  (* pigeonhole: under [inv] every weighted criterion of the parameters is a current criterion *)
  Lemma wc_ids_incl (wc : list wcrit) cs :
    Nat.eqb (List.length wc) (List.length cs)
    && forallb (fun c => existsb (fun x : wcrit => String.eqb (c_id (fst x)) (c_id c)) wc) cs = true ->
    NoDup (map c_id cs) -> incl (map (fun x : wcrit => c_id (fst x)) wc) (map c_id cs).
  Proof.
    intros H D. apply andb_true_iff in H as [L F]. apply Nat.eqb_eq in L. rewrite forallb_forall in F.
    apply NoDup_length_incl; [exact D|rewrite !map_length; lia|].
    intros id Hid. apply in_map_iff in Hid as (c & <- & Hc). apply F in Hc.
    apply existsb_exists in Hc as (x & Hx & E). apply String.eqb_eq in E. rewrite <- E.
    apply in_map_iff. exists x. split; auto.
  Qed.

  Lemma noncomb_ws_value (wc : list wcrit) a :
    (forall x, In x wc -> mhas (c_id (fst x)) (a_vals a) = true) -> noncomb (ws_value wc a).
  Proof.
    intros H. unfold ws_value. apply noncomb_bind; [|intros; exact I].
    apply noncomb_mapM. intros x Hx. apply noncomb_crit_value. now apply H.
  Qed.

  Lemma noncomb_owa_value (wc : list wcrit) a : noncomb (owa_value wc a).
  Proof. unfold owa_value. destruct (negb _); [reflexivity|exact I]. Qed.

  (** *** Choquet: every suffix of the sorted values is (a permutation of) a non-empty subset of the criteria *)
  Lemma power_set_all_perm : forall l names, NoDup names -> incl names l ->
    exists s, In s (power_set_all l) /\ Permutation s names.
  Proof.
    induction l as [|x r IH]; intros names D Inc.
    - destruct names as [|y n]; [exists []; split; [now left|constructor]|].
      exfalso. apply (Inc y). now left.
    - cbn [power_set_all]. destruct (in_dec string_dec x names) as [Hx|Hx].
      + apply in_split in Hx as (l1 & l2 & ->). apply NoDup_remove in D as [D NI].
        destruct (IH (l1 ++ l2) D) as (t & Ht & P).
        { intros y Hy.
          assert (Hy' : In y (l1 ++ x :: l2)).
          { apply in_app_or in Hy as [Hy|Hy]; apply in_or_app; [now left|right; now right]. }
          destruct (Inc y Hy') as [<-|Hr]; [contradiction|exact Hr]. }
        exists (x :: t). split.
        * apply in_flat_map. exists t. split; [exact Ht|right; now left].
        * rewrite P. apply Permutation_middle.
      + destruct (IH names D) as (t & Ht & P).
        { intros y Hy. destruct (Inc y Hy) as [<-|Hr]; [contradiction|exact Hr]. }
        exists t. split; [|exact P]. apply in_flat_map. exists t. split; [exact Ht|now left].
  Qed.

  Lemma cover_union_weight (w : smap num) ids names :
    forallb (fun s => mhas (criterion_key s) w) (power_set ids) = true ->
    NoDup names -> incl names ids -> names <> [] -> noncomb (union_weight names w).
  Proof.
    intros C D Inc NE. destruct (power_set_all_perm ids names D Inc) as (t & Ht & P).
    rewrite forallb_forall in C.
    assert (Hp : In t (power_set ids)).
    { apply power_set_In. split; [exact Ht|]. intros ->. apply Permutation_nil in P. contradiction. }
    apply C in Hp. unfold union_weight. rewrite <- (criterion_key_perm _ _ P).
    apply mhas_get in Hp as (v & ->). exact I.
  Qed.

  Lemma noncomb_choquet_total (w : smap num) ids :
    forallb (fun s => mhas (criterion_key s) w) (power_set ids) = true ->
    forall fuel sorted prev acc comps,
      NoDup (map fst sorted) -> incl (map fst sorted) ids ->
      noncomb (choquet_total fuel sorted w prev acc comps).
  Proof.
    intros C. induction fuel as [|f IH]; intros sorted prev acc comps D Inc; cbn [choquet_total]; [ncd|].
    destruct sorted as [|[c v] rest]; [ncd|]. cbv zeta.
    apply noncomb_bind.
    - apply (cover_union_weight w ids); auto. discriminate.
    - intros mu _. apply IH.
      + rewrite <- skipn_map. apply NoDup_skipn. cbn [map fst] in D. now inversion D.
      + rewrite <- skipn_map. intros y Hy. apply Inc. cbn [map]. right. eapply skipn_incl. exact Hy.
  Qed.

  Lemma noncomb_choquet_value (w : smap num) ids a :
    forallb (fun s => mhas (criterion_key s) w) (power_set ids) = true ->
    NoDup (mkeys (a_vals a)) -> incl (mkeys (a_vals a)) ids -> noncomb (choquet_value w a).
  Proof.
    intros C D Inc. unfold choquet_value, choquet_components. apply noncomb_bind; [|intros; exact I].
    assert (P : Permutation (map fst (isort cw_lt (a_vals a))) (mkeys (a_vals a))).
    { unfold mkeys. apply Permutation_map, isort_perm. }
    apply (noncomb_choquet_total w ids C).
    - eapply Permutation_NoDup; [symmetry; exact P|exact D].
    - intros y Hy. apply Inc. apply (Permutation_in _ P). exact Hy.
  Qed.

  Definition utility_kind (p : mparams) : bool :=
    match p with PWs _ | POwa _ | PChoquet _ _ => true | _ => false end.
  Definition choquet_side (s : state) : Prop :=
    match st_params s with PChoquet _ _ => exact_values s | _ => True end.

  Theorem utility_evaluate_total s :
    inv s = true -> utility_kind (st_params s) = true -> choquet_side s ->
    forall e', utility_evaluate s = Err e' -> combination_error e' = false.
  Proof.
    intros Hinv K Side. apply noncomb_iff. apply inv_iff in Hinv as (A & P & D).
    unfold utility_evaluate, choquet_side in *.
    destruct (st_params s) as [wc|wc|w cs| | | |]; try discriminate K; cbn [params_cover] in P.
    - apply noncomb_rank_with. intros a Ha. apply noncomb_ws_value. intros x Hx.
      apply (cover_id (all_alts s) (st_crits s)); [exact A|unfold all_alts; apply in_or_app; now left|].
      apply (wc_ids_incl wc (st_crits s) P D). apply in_map_iff. exists x. split; auto.
    - apply noncomb_rank_with. intros a _. apply noncomb_owa_value.
    - apply noncomb_rank_with. intros a Ha. destruct (Side a Ha) as [ND Inc].
      exact (noncomb_choquet_value w _ a P ND Inc).
  Qed.
End UtilityTotal.

(** ** 4. electreIII *)
Section ElectreTotal.
  Context {N : Num}.

  Lemma noncomb_credibility a1 a2 cs (ecs : smap ecrit) :
    (forall c, In c cs -> mhas (c_id c) (a_vals a1) = true) ->
    (forall c, In c cs -> mhas (c_id c) (a_vals a2) = true) ->
    (forall c, In c cs -> mhas (c_id c) ecs = true) ->
    noncomb (credibility a1 a2 cs ecs).
  Proof.
    intros H1 H2 H3. unfold credibility. apply noncomb_bind; [|intros rs _; exact I].
    apply noncomb_mapM. intros c Hc.
    destruct (crit_value_ok a1 c (H1 c Hc)) as (v1 & ->).
    destruct (crit_value_ok a2 c (H2 c Hc)) as (v2 & ->).
    destruct (mhas_get _ _ (H3 c Hc)) as (ths & ->). exact I.
  Qed.

  Lemma noncomb_cred_matrix alts cs (ecs : smap ecrit) :
    alts_cover alts cs -> (forall c, In c cs -> mhas (c_id c) ecs = true) ->
    noncomb (cred_matrix alts cs ecs).
  Proof.
    intros A E. unfold cred_matrix. apply noncomb_mapM. intros [i a] Ha. apply in_zip_r in Ha.
    apply noncomb_mapM. intros [j b] Hb. apply in_zip_r in Hb. cbn [fst snd].
    destruct (Nat.eqb i j); [exact I|].
    apply noncomb_credibility; [exact (A a Ha)|exact (A b Hb)|exact E].
  Qed.

  Lemma noncomb_next_class m f asc : forall fuel lambda D, noncomb (next_class fuel m f asc lambda D).
  Proof.
    induction fuel as [|fu IH]; intros lambda D; cbn [next_class]; [ncd|].
    destruct (neqb lambda nzero); [exact I|]. cbv zeta.
    destruct (_ && _); [apply IH|exact I].
  Qed.

  Lemma noncomb_distill m f asc : forall fuel D pos, noncomb (distill fuel m f asc D pos).
  Proof.
    induction fuel as [|fu IH]; intros D pos; cbn [distill]; [ncd|].
    destruct D as [|d D']; [exact I|].
    apply noncomb_bind; [apply noncomb_next_class|]. intros C _. cbv zeta.
    destruct (Nat.eqb _ _); [ncd|].
    apply noncomb_bind; [apply IH|]. intros; exact I.
  Qed.

  Lemma noncomb_rank_ascending (m : list (list num)) f : m <> [] -> noncomb (rank_ascending m f).
  Proof.
    intros NE. unfold rank_ascending. destruct m as [|r m']; [contradiction|]. cbn [List.length Nat.eqb].
    apply noncomb_bind; [apply noncomb_distill|]. intros; exact I.
  Qed.

  Lemma noncomb_rank_descending (m : list (list num)) f : m <> [] -> noncomb (rank_descending m f).
  Proof.
    intros NE. unfold rank_descending. destruct m as [|r m']; [contradiction|]. cbn [List.length Nat.eqb].
    apply noncomb_bind; [apply noncomb_distill|]. intros; exact I.
  Qed.

  Theorem electre_evaluate_total s :
    inv s = true -> (exists ecs f, st_params s = PElectre ecs f) -> st_cons s <> [] ->
    forall e', electre_evaluate s = Err e' -> combination_error e' = false.
  Proof.
    intros Hinv (ecs & f & K) NE. apply noncomb_iff. apply inv_iff in Hinv as (A & P & D).
    unfold electre_evaluate. rewrite K in *. cbn [params_cover] in P. rewrite forallb_forall in P.
    apply noncomb_bind.
    - apply noncomb_cred_matrix; [|exact P].
      eapply alts_cover_incl; [|exact A]. unfold all_alts. intros a Ha. apply in_or_app. now left.
    - intros m Hm. apply cred_matrix_length in Hm.
      assert (NEm : m <> []).
      { intros ->. destruct (st_cons s); [now apply NE|discriminate Hm]. }
      apply noncomb_bind; [now apply noncomb_rank_ascending|]. intros asc _.
      apply noncomb_bind; [now apply noncomb_rank_descending|]. intros; exact I.
  Qed.
End ElectreTotal.

(* apply [noncomb_fold] to a goal [noncomb (fold_left (fun acc x => do s <- acc; step s x) l (Ok s0))] *)
Ltac fold_nc Inv :=
  match goal with
  | |- noncomb (fold_left (fun acc x => bind acc (fun s => @?st s x)) ?l (Ok ?s0)) =>
      refine (proj1 (noncomb_fold st Inv l s0 _ _))
  end.
Ltac fold_inv Inv H :=
  match type of H with
  | fold_left (fun acc x => bind acc (fun s => @?st s x)) ?l (Ok ?s0) = Ok ?fin =>
      refine (proj2 (noncomb_fold st Inv l s0 _ _) fin H)
  end.

(** ** 5. majorityHeuristic *)
Section MajorityTotal.
  Context {N : Num}.

  Definition has_all (cs : list crit) (a : alt) : Prop := forall c, In c cs -> mhas (c_id c) (a_vals a) = true.

  Lemma noncomb_compare_alts (cw : list wcrit) a1 a2 :
    has_all (map fst cw) a1 -> has_all (map fst cw) a2 -> noncomb (compare_alts cw a1 a2).
  Proof.
    intros H1 H2. unfold compare_alts. fold_nc (fun _ : num * num => True); [exact I|].
    intros sc x _ Hx. split; [|auto].
    assert (Hc : In (fst x) (map fst cw)) by (apply in_map; exact Hx).
    destruct (crit_value_ok a1 (fst x) (H1 _ Hc)) as (v1 & ->).
    destruct (crit_value_ok a2 (fst x) (H2 _ Hc)) as (v2 & ->). cbn [bind].
    destruct (floats_are_equal v1 v2 c_eps6); [exact I|]. destruct (nltb v2 v1); exact I.
  Qed.

  Lemma noncomb_take_better policy s1 s2 st another g : noncomb (take_better policy s1 s2 st another g).
  Proof.
    unfold take_better. destruct (floats_are_equal s1 s2 c_eps6).
    - destruct (String.eqb policy draw_allow); [exact I|].
      destruct (String.eqb policy draw_current); [exact I|].
      destruct (String.eqb policy draw_newer); [exact I|].
      apply noncomb_bind; [apply noncomb_draw|]. intros dg _. destruct (nltb (fst dg) c_half); exact I.
    - destruct (nltb s2 s1); exact I.
  Qed.

  Lemma take_better_current policy s1 s2 st another g st' g' :
    take_better policy s1 s2 st another g = Ok (st', g') ->
    ms_current st' = ms_current st \/ ms_current st' = another.
  Proof.
    unfold take_better. intros H. destruct (floats_are_equal s1 s2 c_eps6).
    - destruct (String.eqb policy draw_allow); [injection H as <- _; now left|].
      destruct (String.eqb policy draw_current); [injection H as <- _; now left|].
      destruct (String.eqb policy draw_newer); [injection H as <- _; now right|].
      destruct (draw g) as [dg|]; cbn [bind] in H; [|discriminate].
      destruct (nltb (fst dg) c_half); injection H as <- _; [now left|now right].
    - destruct (nltb s2 s1); injection H as <- _; [now left|now right].
  Qed.

  Theorem majority_evaluate_total e s w cur seed rnd drawp :
    inv s = true -> st_params s = PMajority w cur seed rnd drawp ->
    current_ok s cur -> (rnd = true -> unit_streams e) ->
    forall e', majority_evaluate e s = Err e' -> combination_error e' = false.
  Proof.
    intros Hinv K C U. apply noncomb_iff. apply inv_iff in Hinv as (A & P & D).
    unfold majority_evaluate. rewrite K in *. cbn [params_cover] in P.
    apply noncomb_bind; [now apply noncomb_zip_with_weights|]. intros cw Hcw.
    apply zip_with_weights_fst in Hcw.
    destruct (search_order_total e seed s cur rnd C U) as [NS IS].
    apply noncomb_bind; [exact NS|]. intros [[current considered] g1] Hso.
    destruct (IS _ _ _ Hso) as [Hc Hr]. cbv zeta.
    destruct (negb (valid_policy _)); [ncd|].
    apply noncomb_bind; [|intros; exact I].
    fold_nc (fun sg : mstate * rng => has_all (st_crits s) (ms_current (fst sg))).
    - cbn [fst ms_current]. exact (A current Hc).
    - intros [st g] another Inv Ha. cbn [fst snd] in *.
      assert (Han : has_all (st_crits s) another).
      { refine (A another _). unfold all_alts. apply in_or_app. left. now apply Hr. }
      split.
      + apply noncomb_bind; [apply noncomb_compare_alts; rewrite Hcw; assumption|].
        intros sc _. apply noncomb_take_better.
      + intros [st' g'] H. cbn [fst].
        destruct (compare_alts cw (ms_current st) another) as [sc|]; cbn [bind] in H; [|discriminate].
        apply take_better_current in H as [-> | ->]; assumption.
  Qed.
End MajorityTotal.

(** ** 6. Aspiration levels *)
Section LevelsTotal.
  Context {N : Num}.

  Lemma noncomb_observed_range_from c : forall (l : list alt) mn mx,
    (forall a, In a l -> mhas (c_id c) (a_vals a) = true) -> noncomb (observed_range_from l c mn mx).
  Proof.
    induction l as [|a r IH]; intros mn mx H; cbn [observed_range_from]; [exact I|].
    destruct (raw_value_ok a c (H a (or_introl eq_refl))) as (v & ->). cbn [bind].
    apply IH. intros b Hb. apply H. now right.
  Qed.

  Lemma noncomb_values_range (alts : list alt) c :
    (forall a, In a alts -> mhas (c_id c) (a_vals a) = true) -> noncomb (values_range alts c).
  Proof.
    intros H. unfold values_range. destruct (c_range c); [exact I|].
    destruct alts as [|a r]; [exact I|].
    destruct (raw_value_ok a c (H a (or_introl eq_refl))) as (v & ->). cbn [bind].
    apply noncomb_observed_range_from. intros b Hb. apply H. now right.
  Qed.

  Lemma noncomb_lv_init d fn lp s :
    alts_cover (all_alts s) (st_crits s) ->
    forallb (fun t => covers_weights t (st_crits s)) (lp_ths lp) = true ->
    noncomb (lv_init d fn lp s).
  Proof.
    intros A T. unfold lv_init. destruct (String.eqb fn ""); [ncd|]. cbv zeta.
    assert (Ideal : forall sr,
      noncomb (if negb (validate_coef d lp) then Err EInvalid
               else do crs <- mapM (fun c => do r <- values_range (all_alts s) c; Ok (c, r)) (st_crits s);
                    Ok (LIdeal d sr lp crs (initial_value d lp)))).
    { intros sr. destruct (negb (validate_coef d lp)); [ncd|].
      apply noncomb_bind; [|intros; exact I]. apply noncomb_mapM. intros c Hc.
      apply noncomb_bind; [|intros; exact I]. apply noncomb_values_range. intros a Ha. exact (A a Ha c Hc). }
    destruct (String.eqb fn lv_mul); [apply Ideal|].
    destruct (String.eqb fn _); [apply Ideal|].
    destruct (String.eqb fn lv_thresholds); [|ncd].
    unfold covers_weights in T. rewrite T. exact I.
  Qed.

  (* what a level source guarantees about the levels it produces *)
  Definition src_covers (cs : list crit) (src : lsource) : Prop :=
    match src with
    | LIdeal _ _ _ crs _ => map fst crs = cs
    | LThs rest => forall t, In t rest -> covers_weights t cs = true
    end.

  Lemma level_fold_has (cur : num) k : forall (crs : list (crit * (num * num))) acc,
    mhas k acc = true \/ In k (map (fun cr => c_id (fst cr)) crs) ->
    mhas k (fold_left (fun m cr =>
                 let '(c, r) := cr in
                 let delta := nmul (range_diff r) cur in
                 mset (c_id c) (if is_cost c then nsub (snd r) delta else nadd (fst r) delta) m) crs acc) = true.
  Proof.
    induction crs as [|[c r] rest IH]; intros acc H; cbn [fold_left map fst] in *.
    - destruct H as [H|[]]. exact H.
    - apply IH. destruct H as [H|[H|H]].
      + left. now apply mhas_mset_mono.
      + left. rewrite <- H. apply mhas_mset_same.
      + now right.
  Qed.

  Lemma level_at_covers (crs : list (crit * (num * num))) cur :
    covers_weights (level_at crs cur) (map fst crs) = true.
  Proof.
    unfold covers_weights, level_at. apply forallb_forall. intros c Hc.
    apply level_fold_has. right. apply in_map_iff in Hc as (cr & <- & Hcr).
    apply in_map_iff. exists cr. split; auto.
  Qed.

  Lemma lv_init_covers d fn lp s src : lv_init d fn lp s = Ok src -> src_covers (st_crits s) src.
  Proof.
    unfold lv_init. intros H. destruct (String.eqb fn ""); [discriminate|]. cbv zeta in H.
    assert (Ideal : forall sr,
      (if negb (validate_coef d lp) then Err EInvalid
       else do crs <- mapM (fun c => do r <- values_range (all_alts s) c; Ok (c, r)) (st_crits s);
            Ok (LIdeal d sr lp crs (initial_value d lp))) = Ok src -> src_covers (st_crits s) src).
    { intros sr E. destruct (negb (validate_coef d lp)); [discriminate|].
      destruct (mapM _ (st_crits s)) as [crs|] eqn:M; cbn [bind] in E; [|discriminate].
      injection E as <-. cbn [src_covers].
      assert (Hm : map fst crs = map (fun c : crit => c) (st_crits s)).
      { eapply mapM_map; [|exact M]. intros c y F. cbn beta in F.
        destruct (values_range (all_alts s) c); cbn [bind] in F; [|discriminate].
        now injection F as <-. }
      rewrite Hm. apply map_id. }
    destruct (String.eqb fn lv_mul); [now apply (Ideal SMul)|].
    destruct (String.eqb fn _); [now apply (Ideal SAdd)|].
    destruct (String.eqb fn lv_thresholds); [|discriminate].
    destruct (forallb _ (lp_ths lp)) eqn:F; [|discriminate]. injection H as <-. cbn [src_covers].
    rewrite forallb_forall in F. exact F.
  Qed.

  Lemma lv_next_covers cs src t src' :
    src_covers cs src -> lv_next src = Some (t, src') -> covers_weights t cs = true /\ src_covers cs src'.
  Proof.
    destruct src as [d sr lp crs cur|rest]; cbn [src_covers lv_next]; intros C H.
    - destruct (has_next d lp cur); [|discriminate]. injection H as <- <-. cbn [src_covers].
      split; [|exact C]. rewrite <- C. apply level_at_covers.
    - destruct rest as [|t0 r]; [discriminate|]. injection H as <- <-. cbn [src_covers]. split.
      + apply C. now left.
      + intros t' Ht'. apply C. now right.
  Qed.
End LevelsTotal.

(** ** 7. aspectEliminationHeuristic *)
Section AspectTotal.
  Context {N : Num}.

  Lemma is_below_ok a t c : mhas (c_id c) (a_vals a) = true -> exists b, is_below a t c = Ok b.
  Proof.
    intros H. destruct (crit_value_ok a c H) as (v & E). unfold is_below. rewrite E. cbn [bind]. eauto.
  Qed.

  Lemma aspect_walk_total t c idx : forall todo temp elim,
    (forall a, In a todo -> mhas (c_id c) (a_vals a) = true) ->
    noncomb (aspect_walk todo temp t c idx elim) /\
    (forall temp' elim' stop, aspect_walk todo temp t c idx elim = Ok (temp', elim', stop) -> incl temp' temp).
  Proof.
    induction todo as [|a r IH]; intros temp elim H; cbn [aspect_walk].
    - split; [exact I|]. intros temp' elim' stop E. injection E as <- _ _. apply incl_refl.
    - destruct (is_below_ok a t c (H a (or_introl eq_refl))) as (b & ->). cbn [bind]. cbv zeta.
      assert (Hi : incl (if b then remove_alt temp (a_id a) else temp) temp).
      { destruct b; [apply remove_alt_incl|apply incl_refl]. }
      destruct (Nat.leb _ 1).
      + split; [exact I|]. intros temp' elim' stop E. injection E as <- _ _. exact Hi.
      + destruct (IH (if b then remove_alt temp (a_id a) else temp)
                     (if b then elim ++ [(a, EAspect [(c_id c, match mget (c_id c) t with Some x => x | None => nzero end)] idx)]
                      else elim)) as [N1 N2].
        { intros a' Ha'. apply H. now right. }
        split; [exact N1|]. intros temp' elim' stop E. eapply incl_tran; [eapply N2; exact E|exact Hi].
  Qed.

  Lemma aspect_criteria_total t idx : forall (cs : list wcrit) left elim,
    (forall a, In a left -> has_all (map fst cs) a) ->
    noncomb (aspect_criteria cs left t idx elim) /\
    (forall left' elim' stop, aspect_criteria cs left t idx elim = Ok (left', elim', stop) -> incl left' left).
  Proof.
    induction cs as [|c r IH]; intros left elim H; cbn [aspect_criteria].
    - split; [exact I|]. intros left' elim' stop E. injection E as <- _ _. apply incl_refl.
    - destruct (aspect_walk_total t (fst c) idx left left elim) as [N1 N2].
      { intros a Ha. apply (H a Ha). cbn [map]. now left. }
      destruct (aspect_walk left left t (fst c) idx elim) as [[[left1 elim1] stop1]|err] eqn:W; cbn [bind].
      + specialize (N2 _ _ _ eq_refl). destruct stop1.
        * split; [exact I|]. intros left' elim' stop E. injection E as <- _ _. exact N2.
        * destruct (IH left1 elim1) as [M1 M2].
          { intros a Ha b Hb. apply (H a (N2 a Ha)). cbn [map]. now right. }
          split; [exact M1|]. intros left' elim' stop E. eapply incl_tran; [eapply M2; exact E|exact N2].
      + split; [exact N1|discriminate].
  Qed.

  Lemma noncomb_aspect_levels (cs : list wcrit) : forall fuel src left idx elim,
    (forall a, In a left -> has_all (map fst cs) a) ->
    noncomb (aspect_levels fuel src cs left idx elim).
  Proof.
    induction fuel as [|f IH]; intros src left idx elim H; cbn [aspect_levels]; [ncd|].
    destruct (lv_next src) as [[t src']|]; [|exact I]. cbv zeta.
    destruct (aspect_criteria_total t (idx + 1)%Z cs left elim H) as [N1 N2].
    destruct (aspect_criteria cs left t (idx + 1)%Z elim) as [[[left1 elim1] stop1]|err]; cbn [bind]; [|exact N1].
    specialize (N2 _ _ _ eq_refl). destruct stop1; [exact I|].
    apply IH. intros a Ha. apply H, N2, Ha.
  Qed.

  Theorem aspect_evaluate_total e s fn lp seed w rnd :
    inv s = true -> st_params s = PAspect fn lp seed w rnd -> (rnd = true -> unit_streams e) ->
    forall e', aspect_evaluate e s = Err e' -> combination_error e' = false.
  Proof.
    intros Hinv K U. apply noncomb_iff. apply inv_iff in Hinv as (A & P & D).
    unfold aspect_evaluate. rewrite K in *. cbn [params_cover] in P. apply andb_true_iff in P as [P1 P2].
    apply noncomb_bind; [now apply noncomb_lv_init|]. intros src _.
    apply noncomb_bind; [now apply noncomb_order_alternatives|]. intros [alts g1] O. cbn [fst snd].
    apply order_alternatives_perm in O.
    apply noncomb_bind; [now apply noncomb_zip_with_weights|]. intros cw Hcw.
    apply zip_with_weights_fst in Hcw. cbv zeta.
    apply noncomb_bind; [|intros [[lft elim] idx] _; exact I].
    destruct (Nat.leb (List.length alts) 1); [exact I|].
    apply noncomb_aspect_levels. intros a Ha c Hc.
    refine (A a _ c _).
    - unfold all_alts. apply in_or_app. left. apply (Permutation_in _ O). exact Ha.
    - rewrite <- Hcw. apply (Permutation_in (l := map fst (isort wc_gt cw))); [|exact Hc].
      apply Permutation_map, isort_perm.
  Qed.
End AspectTotal.

(** ** 8. satisfactionHeuristic *)
Section SatisfTotal.
  Context {N : Num}.

  Lemma noncomb_good_enough a (ths : list wcrit) : has_all (map fst ths) a -> noncomb (good_enough a ths).
  Proof.
    intros H. unfold good_enough. fold_nc (fun _ : bool => True); [exact I|].
    intros b x _ Hx. split; [|auto].
    assert (Hc : In (fst x) (map fst ths)) by (apply in_map; exact Hx).
    destruct (crit_value_ok a (fst x) (H _ Hc)) as (v & ->). exact I.
  Qed.

  Lemma satisf_walk_total (ths : list wcrit) t idx : forall todo temp acc,
    (forall a, In a todo -> has_all (map fst ths) a) ->
    noncomb (satisf_walk todo temp ths t idx acc) /\
    (forall temp' acc', satisf_walk todo temp ths t idx acc = Ok (temp', acc') -> incl temp' temp).
  Proof.
    induction todo as [|a r IH]; intros temp acc H; cbn [satisf_walk].
    - split; [exact I|]. intros temp' acc' E. injection E as <- _. apply incl_refl.
    - pose proof (noncomb_good_enough a ths (H a (or_introl eq_refl))) as NG.
      assert (Hr : forall a', In a' r -> has_all (map fst ths) a') by (intros a' Ha'; apply H; now right).
      destruct (good_enough a ths) as [b|err]; cbn [bind]; [|split; [exact NG|discriminate]].
      destruct b.
      + destruct (IH (remove_alt temp (a_id a)) (acc ++ [(a, ESatisf t idx)]) Hr) as [N1 N2].
        split; [exact N1|]. intros temp' acc' E.
        eapply incl_tran; [eapply N2; exact E|apply remove_alt_incl].
      + exact (IH temp acc Hr).
  Qed.

  Lemma noncomb_satisf_levels cs : forall fuel src left idx acc,
    src_covers cs src -> (forall a, In a left -> has_all cs a) ->
    noncomb (satisf_levels fuel src cs left idx acc).
  Proof.
    induction fuel as [|f IH]; intros src left idx acc C H; cbn [satisf_levels]; [ncd|].
    destruct (lv_next src) as [[t src']|] eqn:Nx; [|exact I]. cbv zeta.
    destruct (lv_next_covers _ _ _ _ C Nx) as [Ct C'].
    apply noncomb_bind; [now apply noncomb_zip_with_weights|]. intros ths Hths.
    apply zip_with_weights_fst in Hths.
    destruct (satisf_walk_total ths t (idx + 1)%Z left left acc) as [N1 N2].
    { intros a Ha. rewrite Hths. now apply H. }
    destruct (satisf_walk left left ths t (idx + 1)%Z acc) as [[left1 acc1]|err]; cbn [bind fst snd]; [|exact N1].
    specialize (N2 _ _ eq_refl).
    destruct left1 as [|x r]; [exact I|].
    apply IH; [exact C'|]. intros a Ha. apply H, N2, Ha.
  Qed.

  Lemma noncomb_lowest_thresholds s : alts_cover (all_alts s) (st_crits s) -> noncomb (lowest_thresholds s).
  Proof.
    intros A. unfold lowest_thresholds. fold_nc (fun _ : smap num => True); [exact I|].
    intros m c _ Hc. split; [|auto].
    apply noncomb_bind; [|intros; exact I]. apply noncomb_values_range. intros a Ha. exact (A a Ha c Hc).
  Qed.

  Theorem satisfaction_evaluate_total e s fn lp seed cur rnd :
    inv s = true -> st_params s = PSatisf fn lp seed cur rnd ->
    current_ok s cur -> (rnd = true -> unit_streams e) ->
    forall e', satisfaction_evaluate e s = Err e' -> combination_error e' = false.
  Proof.
    intros Hinv K C U. apply noncomb_iff. apply inv_iff in Hinv as (A & P & D).
    unfold satisfaction_evaluate. rewrite K in *. cbn [params_cover] in P.
    apply noncomb_bind; [now apply noncomb_lv_init|]. intros src Hsrc. apply lv_init_covers in Hsrc.
    destruct (search_order_total e seed s cur rnd C U) as [NS IS].
    apply noncomb_bind; [exact NS|]. intros [[current considered] g1] Hso.
    destruct (IS _ _ _ Hso) as [Hc Hr].
    apply noncomb_bind.
    - apply noncomb_satisf_levels; [exact Hsrc|]. intros a [<-|Ha].
      + exact (A _ Hc).
      + refine (A a _). unfold all_alts. apply in_or_app. left. now apply Hr.
    - intros [[lft acc] idx] _. destruct lft as [|x r]; [exact I|].
      apply noncomb_bind; [now apply noncomb_lowest_thresholds|]. intros; exact I.
  Qed.
End SatisfTotal.

(** ** 9. Any method on any coherent state *)
Section EvaluateTotal.
  Context {N : Num}.

  Theorem evaluate_total m e s :
    inv s = true -> kind_matches m (st_params s) = true -> side_ok e s ->
    forall e', evaluate m e s = Err e' -> combination_error e' = false.
  Proof.
    intros Hinv K Side. unfold evaluate, kind_matches, side_ok in *.
    destruct (String.eqb m m_ws); cbn [orb].
    { destruct (st_params s) eqn:P; try discriminate K.
      apply utility_evaluate_total; [exact Hinv|now rewrite P|unfold choquet_side; now rewrite P]. }
    destruct (String.eqb m m_owa); cbn [orb].
    { destruct (st_params s) eqn:P; try discriminate K.
      apply utility_evaluate_total; [exact Hinv|now rewrite P|unfold choquet_side; now rewrite P]. }
    destruct (String.eqb m m_choquet); cbn [orb].
    { destruct (st_params s) eqn:P; try discriminate K.
      apply utility_evaluate_total; [exact Hinv|now rewrite P|unfold choquet_side; now rewrite P]. }
    destruct (String.eqb m m_electre).
    { destruct (st_params s) eqn:P; try discriminate K.
      apply electre_evaluate_total; [exact Hinv|eauto|exact Side]. }
    destruct (String.eqb m m_majority).
    { destruct (st_params s) eqn:P; try discriminate K. destruct Side as [C U].
      eapply majority_evaluate_total; eassumption. }
    destruct (String.eqb m m_aspect).
    { destruct (st_params s) eqn:P; try discriminate K.
      eapply aspect_evaluate_total; eassumption. }
    destruct (String.eqb m m_satisfaction); [|discriminate K].
    destruct (st_params s) eqn:P; try discriminate K. destruct Side as [C U].
    eapply satisfaction_evaluate_total; eassumption.
  Qed.

  (** *** the parameter kind of the state the method is evaluated on *)
  Lemma kind_matches_kind_of m (p p' : mparams) : kind_of p = kind_of p' -> kind_matches m p = kind_matches m p'.
  Proof. destruct p, p'; cbn [kind_of]; intros H; try discriminate H; reflexivity. Qed.

  Lemma parse_params_kind req p : parse_params req = Ok p -> kind_matches (r_method req) p = true.
  Proof.
    unfold parse_params, kind_matches. intros P.
    destruct (String.eqb (r_method req) m_ws). { unfold ws_parse in P. binv P. binv P. now injection P as <-. }
    destruct (String.eqb (r_method req) m_owa).
    { unfold owa_parse in P. binv P. destruct (negb _); [discriminate|]. binv P. now injection P as <-. }
    destruct (String.eqb (r_method req) m_choquet).
    { unfold choquet_parse in P. binv P. binv P. now injection P as <-. }
    destruct (String.eqb (r_method req) m_electre).
    { unfold electre_parse in P. binv P. binv P. destruct (rp_dist (r_mp req)) as [d|].
      - destruct (nltb (lf_b d) nzero || nltb (nadd (lf_a d) (lf_b d)) nzero); [discriminate|]. now injection P as <-.
      - now injection P as <-. }
    destruct (String.eqb (r_method req) m_majority). { unfold majority_parse in P. now injection P as <-. }
    destruct (String.eqb (r_method req) m_aspect). { unfold aspect_parse in P. now injection P as <-. }
    destruct (String.eqb (r_method req) m_satisfaction); [|discriminate].
    unfold satisfaction_parse in P. now injection P as <-.
  Qed.

  Theorem prepare_kind req st : prepare req = Ok st -> kind_matches (r_method req) (st_params st) = true.
  Proof. intros H. apply prepare_shape in H as (_ & P & _). now apply parse_params_kind. Qed.

  Theorem biased_state_kind e req st echoes :
    biased_state e req = Ok (st, echoes) -> kind_matches (r_method req) (st_params st) = true.
  Proof.
    intros H. apply biased_state_preserves in H as (st0 & P & _ & K & _).
    rewrite (kind_matches_kind_of _ _ _ K). now apply prepare_kind.
  Qed.

  (** *** end to end: the method on the state the biases hand on *)
  Theorem biased_evaluate_total_gen e req st echoes :
    biased_state e req = Ok (st, echoes) ->
    (forall st0, prepare req = Ok st0 -> inv st0 = true /\ sync st0) ->
    side_ok e st ->
    forall e', evaluate (r_method req) e st = Err e' -> combination_error e' = false.
  Proof.
    intros H P Side. apply evaluate_total; [|eapply biased_state_kind; exact H|exact Side].
    exact (proj1 (biased_state_inv_gen e req st echoes H P)).
  Qed.

  (* with the hypothesis of [InvFacts.biased_state_inv]: the four methods whose parser validates *)
  Theorem biased_evaluate_total e req st echoes :
    biased_state e req = Ok (st, echoes) -> validating_method (r_method req) -> side_ok e st ->
    forall e', evaluate (r_method req) e st = Err e' -> combination_error e' = false.
  Proof.
    intros H V Side. apply evaluate_total; [|eapply biased_state_kind; exact H|exact Side].
    exact (InvFacts.biased_state_inv e req st echoes V H).
  Qed.

  (* a combination error of [decide] is an error of [biased_state] (prepare / the biases), never of the method *)
  Corollary decide_error_origin_gen e req :
    (forall st0, prepare req = Ok st0 -> inv st0 = true /\ sync st0) ->
    (forall st echoes, biased_state e req = Ok (st, echoes) -> side_ok e st) ->
    forall e', decide e req = Err e' -> combination_error e' = true -> biased_state e req = Err e'.
  Proof.
    intros P Side e' H CE. unfold decide in H.
    destruct (biased_state e req) as [[st echoes]|eb] eqn:B; cbn [bind fst snd] in H.
    - destruct (evaluate (r_method req) e st) as [r|ee] eqn:Ev; cbn [bind] in H; [discriminate|].
      injection H as <-.
      rewrite (biased_evaluate_total_gen e req st echoes B P (Side _ _ eq_refl) _ Ev) in CE. discriminate.
    - now injection H as <-.
  Qed.

  Corollary decide_error_origin e req :
    validating_method (r_method req) ->
    (forall st echoes, biased_state e req = Ok (st, echoes) -> side_ok e st) ->
    forall e', decide e req = Err e' -> combination_error e' = true -> biased_state e req = Err e'.
  Proof.
    intros V Side e' H CE. unfold decide in H.
    destruct (biased_state e req) as [[st echoes]|eb] eqn:B; cbn [bind fst snd] in H.
    - destruct (evaluate (r_method req) e st) as [r|ee] eqn:Ev; cbn [bind] in H; [discriminate|].
      injection H as <-.
      rewrite (biased_evaluate_total e req st echoes B V (Side _ _ eq_refl) _ Ev) in CE. discriminate.
    - now injection H as <-.
  Qed.

  (** *** the side conditions in terms of the request (what the biases cannot change) *)
  Lemma biased_cons_nonempty e req st echoes :
    biased_state e req = Ok (st, echoes) -> r_chose req <> [] -> st_cons st <> [].
  Proof.
    intros H NE. apply biased_state_preserves in H as (st0 & P & I1 & _).
    apply WfFacts.prepare_inv in P as (C & _). unfold ids_of in I1. rewrite C in I1.
    intros E. rewrite E in I1. cbn [map] in I1. now apply NE.
  Qed.

  (* weightedSum, owa: no side condition at all; electreIII: one chosen alternative *)
  Corollary biased_evaluate_total_ws_owa e req st echoes :
    biased_state e req = Ok (st, echoes) -> r_method req = m_ws \/ r_method req = m_owa ->
    forall e', evaluate (r_method req) e st = Err e' -> combination_error e' = false.
  Proof.
    intros H M. apply (biased_evaluate_total e req st echoes H).
    - unfold validating_method. tauto.
    - pose proof (biased_state_kind _ _ _ _ H) as K. unfold side_ok.
      destruct M as [M|M]; rewrite M in K; cbn in K; destruct (st_params st); try discriminate K; exact I.
  Qed.

  Corollary biased_evaluate_total_electre e req st echoes :
    biased_state e req = Ok (st, echoes) -> r_method req = m_electre -> r_chose req <> [] ->
    forall e', evaluate (r_method req) e st = Err e' -> combination_error e' = false.
  Proof.
    intros H M NE. apply (biased_evaluate_total e req st echoes H).
    - unfold validating_method. tauto.
    - pose proof (biased_state_kind _ _ _ _ H) as K. unfold side_ok.
      rewrite M in K; cbn in K; destruct (st_params st); try discriminate K.
      eapply biased_cons_nonempty; eassumption.
  Qed.
End EvaluateTotal.

(** ** 10. The biases themselves: fatigue, omission, reversal *)
Lemma noncomb_fold_res {S B} (step : S -> B -> res S) (Inv : S -> Prop) l r0 :
  noncomb r0 -> (forall s0, r0 = Ok s0 -> Inv s0) ->
  (forall s x, Inv s -> In x l -> noncomb (step s x) /\ (forall s', step s x = Ok s' -> Inv s')) ->
  noncomb (fold_left (fun acc x => do s <- acc; step s x) l r0) /\
  (forall fin, fold_left (fun acc x => do s <- acc; step s x) l r0 = Ok fin -> Inv fin).
Proof.
  intros N0 I0 Hs. destruct r0 as [s0|err].
  - apply noncomb_fold; [now apply I0|exact Hs].
  - rewrite fold_res_err. split; [exact N0|discriminate].
Qed.

Section FatigueTotal.
  Context {N : Num}.

  Lemma noncomb_blur_values (p : bprops) f a : forall (cs : list (crit * (num * num))) gv gs acc,
    (forall cr, In cr cs -> mhas (c_id (fst cr)) (a_vals a) = true) ->
    noncomb (blur_values cs a p f gv gs acc).
  Proof.
    induction cs as [|[c r] rest IH]; intros gv gs acc H; cbn [blur_values]; [exact I|].
    destruct (raw_value_ok a c (H (c, r) (or_introl eq_refl))) as (v & ->). cbn [bind].
    apply noncomb_bind; [apply noncomb_draw|]. intros dv _.
    apply noncomb_bind; [apply noncomb_draw|]. intros ds _. cbv zeta.
    apply IH. intros cr Hcr. apply H. now right.
  Qed.

  Lemma noncomb_blur_alts (p : bprops) f (cs : list (crit * (num * num))) : forall l gv gs acc,
    (forall a cr, In a l -> In cr cs -> mhas (c_id (fst cr)) (a_vals a) = true) ->
    noncomb (blur_alts cs l p f gv gs acc).
  Proof.
    induction l as [|a rest IH]; intros gv gs acc H; cbn [blur_alts]; [exact I|].
    apply noncomb_bind.
    - apply noncomb_blur_values. intros cr Hcr. apply (H a cr); [now left|exact Hcr].
    - intros [[vals gv'] gs'] _. apply IH. intros b cr Hb. apply H. now right.
  Qed.

  Lemma noncomb_fatigue_ratio e p : noncomb (fatigue_ratio e p).
  Proof.
    unfold fatigue_ratio. destruct (String.eqb _ f_const); [exact I|].
    destruct (String.eqb _ f_exp); [|ncd].
    unfold exp_from_zero, exp_oracle. destruct (lookup_num _ _); cbn; ncd.
  Qed.

  Lemma range_items_cover (alts all : list alt) cs crs :
    mapM (fun c => do r <- values_range all c; Ok (c, r)) cs = Ok crs ->
    alts_cover alts cs -> forall a cr, In a alts -> In cr crs -> mhas (c_id (fst cr)) (a_vals a) = true.
  Proof.
    intros M A a cr Ha Hcr. destruct (mapM_In_inv _ _ _ M _ Hcr) as (c & Hc & F). cbn beta in F.
    destruct (values_range all c); cbn [bind] in F; [|discriminate]. injection F as <-. cbn [fst].
    exact (A a Ha c Hc).
  Qed.

  (** fatigue: [inv] alone is enough *)
  Theorem apply_fatigue_total e cur p :
    inv cur = true -> forall e', apply_fatigue e cur p = Err e' -> combination_error e' = false.
  Proof.
    intros Hinv. apply noncomb_iff. apply inv_iff in Hinv as (A & _ & _).
    apply alts_cover_app in A as [A1 A2]. unfold apply_fatigue.
    apply noncomb_bind; [apply noncomb_fatigue_ratio|]. intros f _.
    destruct (negb (valid_bounding p)); [ncd|].
    apply noncomb_bind.
    { apply noncomb_mapM. intros c Hc. apply noncomb_bind; [|intros; exact I].
      apply noncomb_values_range. intros a Ha. apply in_app_or in Ha as [Ha|Ha]; [exact (A1 a Ha c Hc)|exact (A2 a Ha c Hc)]. }
    intros crs M.
    apply noncomb_bind.
    { apply noncomb_blur_alts. intros a cr. exact (range_items_cover _ _ _ _ M A1 a cr). }
    intros [[consd gv] gs] _.
    apply noncomb_bind; [|intros [[nconsd g1] g2] _; exact I].
    apply noncomb_blur_alts. intros a cr. exact (range_items_cover _ _ _ _ M A2 a cr).
  Qed.
End FatigueTotal.

Section OrderTotal.
  Context {N : Num}.

  Lemma init_has (k : string) : forall (cs : list crit) (acc : smap num),
    mhas k acc = true \/ In k (map c_id cs) ->
    mhas k (fold_left (fun m c => mset (c_id c) nzero m) cs acc) = true.
  Proof.
    induction cs as [|c rest IH]; intros acc H; cbn [fold_left map] in *.
    - destruct H as [H|[]]. exact H.
    - apply IH. destruct H as [H|[H|H]].
      + left. now apply mhas_mset_mono.
      + left. rewrite <- H. apply mhas_mset_same.
      + now right.
  Qed.

  Lemma init_covers (cs : list crit) :
    covers_weights (fold_left (fun m c => mset (c_id c) nzero m) cs ([] : smap num)) cs = true.
  Proof.
    unfold covers_weights. apply forallb_forall. intros c Hc. apply init_has. right. now apply in_map.
  Qed.

  Lemma covers_weights_mset k (v : num) w cs :
    covers_weights w cs = true -> covers_weights (mset k v w) cs = true.
  Proof. exact (covers_mset k v w cs). Qed.

  Lemma covers_weights_id (w : smap num) cs id :
    covers_weights w cs = true -> In id (map c_id cs) -> mhas id w = true.
  Proof.
    unfold covers_weights. rewrite forallb_forall. intros H Hid.
    apply in_map_iff in Hid as (c & <- & Hc). now apply H.
  Qed.

  Lemma find_wc_ok id (wc : list wcrit) :
    existsb (fun x : wcrit => String.eqb (c_id (fst x)) id) wc = true -> exists x, find_wc id wc = Ok x.
  Proof.
    induction wc as [|x r IH]; cbn [existsb find_wc]; [discriminate|].
    destruct (String.eqb (c_id (fst x)) id); [eauto|exact IH].
  Qed.

  (** *** cumulated weights *)
  Definition cw_step (mapper : string -> num -> res num) (m : smap num) (kv : string * num) : res (smap num) :=
    do x <- mapper (fst kv) (snd kv);
    match mget (fst kv) m with
    | Some w => Ok (mset (fst kv) (nadd w x) m)
    | None => Ok (mset (fst kv) x m)
    end.

  Lemma cumulated_fold_total (cs : list crit) (mapper : string -> num -> res num) : forall (l : list alt) r0,
    noncomb r0 -> (forall m, r0 = Ok m -> covers_weights m cs = true) ->
    (forall a kv, In a l -> In kv (a_vals a) -> noncomb (mapper (fst kv) (snd kv))) ->
    noncomb (fold_left (fun acc a => fold_left (fun acc2 kv => do m <- acc2; cw_step mapper m kv) (a_vals a) acc) l r0) /\
    (forall m, fold_left (fun acc a => fold_left (fun acc2 kv => do m <- acc2; cw_step mapper m kv) (a_vals a) acc) l r0 = Ok m ->
               covers_weights m cs = true).
  Proof.
    induction l as [|a rest IH]; intros r0 N0 C0 Hm; cbn [fold_left].
    - split; [exact N0|exact C0].
    - destruct (noncomb_fold_res (cw_step mapper) (fun m => covers_weights m cs = true) (a_vals a) r0 N0 C0) as [N1 C1].
      { intros m kv Cm Hkv. unfold cw_step. split.
        - apply noncomb_bind; [apply (Hm a kv); [now left|exact Hkv]|]. intros x _.
          destruct (mget (fst kv) m); exact I.
        - intros m' E. destruct (mapper (fst kv) (snd kv)); cbn [bind] in E; [|discriminate].
          destruct (mget (fst kv) m); injection E as <-; now apply covers_weights_mset. }
      apply IH; [exact N1|exact C1|]. intros b kv Hb. apply Hm. now right.
  Qed.

  Lemma cumulated_weights_total s (mapper : string -> num -> res num) :
    (forall a kv, In a (st_cons s) -> In kv (a_vals a) -> noncomb (mapper (fst kv) (snd kv))) ->
    noncomb (cumulated_weights s mapper) /\
    (forall w, cumulated_weights s mapper = Ok w -> covers_weights w (st_crits s) = true).
  Proof.
    intros H. unfold cumulated_weights.
    apply (cumulated_fold_total (st_crits s) mapper (st_cons s)); [exact I| |exact H].
    intros m E. injection E as <-. apply init_covers.
  Qed.

  Lemma noncomb_sort_by_weights cs (w : smap num) : covers_weights w cs = true -> noncomb (sort_by_weights cs w).
  Proof.
    intros C. unfold sort_by_weights. apply noncomb_bind; [now apply noncomb_zip_with_weights|]. intros; exact I.
  Qed.

  (** *** Choquet decomposition *)
  Lemma choquet_total_comps (w : smap num) ids : forall fuel sorted prev acc comps r,
    incl (map fst sorted) ids -> (forall comp, In comp comps -> incl (fst comp) ids) ->
    choquet_total fuel sorted w prev acc comps = Ok r -> forall comp, In comp (snd r) -> incl (fst comp) ids.
  Proof.
    induction fuel as [|f IH]; intros sorted prev acc comps r Inc HC H; cbn [choquet_total] in H; [discriminate|].
    destruct sorted as [|[c v] rest].
    - injection H as <-. cbn [snd]. intros comp Hc. apply HC. now apply in_rev.
    - cbv zeta in H. destruct (union_weight (map fst ((c, v) :: rest)) w) as [mu|]; cbn [bind] in H; [|discriminate].
      eapply IH; [| |exact H].
      + rewrite <- skipn_map. intros y Hy. apply Inc. cbn [map]. right. eapply skipn_incl. exact Hy.
      + intros comp [<-|Hc]; [exact Inc|now apply HC].
  Qed.

  Definition cd_step (comp : list string * num) (m3 : smap num) (c : string) : res (smap num) :=
    match mget c m3 with
    | Some x => Ok (mset c (nadd x (snd comp)) m3)
    | None => Err EMissing
    end.

  Lemma cd_comps_total (cs : list crit) : forall (comps : list (list string * num)) r0,
    (forall comp, In comp comps -> incl (fst comp) (map c_id cs)) ->
    noncomb r0 -> (forall m, r0 = Ok m -> covers_weights m cs = true) ->
    noncomb (fold_left (fun acc2 comp => fold_left (fun acc3 c => do m3 <- acc3; cd_step comp m3 c) (fst comp) acc2) comps r0) /\
    (forall m, fold_left (fun acc2 comp => fold_left (fun acc3 c => do m3 <- acc3; cd_step comp m3 c) (fst comp) acc2) comps r0 = Ok m ->
               covers_weights m cs = true).
  Proof.
    induction comps as [|comp rest IH]; intros r0 HC N0 C0; cbn [fold_left].
    - split; [exact N0|exact C0].
    - destruct (noncomb_fold_res (cd_step comp) (fun m => covers_weights m cs = true) (fst comp) r0 N0 C0) as [N1 C1].
      { intros m c Cm Hc. unfold cd_step.
        assert (Hh : mhas c m = true).
        { apply (covers_weights_id m cs); [exact Cm|]. apply (HC comp); [now left|exact Hc]. }
        apply mhas_get in Hh as (x & ->). split; [exact I|].
        intros m' E. injection E as <-. now apply covers_weights_mset. }
      apply IH; [|exact N1|exact C1]. intros comp' Hc'. apply HC. now right.
  Qed.

  Lemma choquet_decompose_total s (w : smap num) :
    forallb (fun t => mhas (criterion_key t) w) (power_set (map c_id (st_crits s))) = true ->
    exact_values s ->
    noncomb (choquet_decompose s w) /\
    (forall d, choquet_decompose s w = Ok d -> covers_weights d (st_crits s) = true).
  Proof.
    intros P X. unfold choquet_decompose.
    match goal with
    | |- noncomb (fold_left (fun acc x => bind acc (fun m0 => @?st m0 x)) ?l (Ok ?s0)) /\ _ =>
        apply (noncomb_fold st (fun m => covers_weights m (st_crits s) = true) l s0)
    end; [apply init_covers|].
    intros m a Cm Ha. destruct (X a Ha) as [ND Inc].
    assert (Perm : Permutation (map fst (isort cw_lt (a_vals a))) (mkeys (a_vals a))).
    { unfold mkeys. apply Permutation_map, isort_perm. }
    assert (Inc' : incl (map fst (isort cw_lt (a_vals a))) (map c_id (st_crits s))).
    { intros y Hy. apply Inc. apply (Permutation_in _ Perm). exact Hy. }
    assert (NC : noncomb (choquet_components w a)).
    { unfold choquet_components. apply (noncomb_choquet_total w _ P); [|exact Inc'].
      eapply Permutation_NoDup; [symmetry; exact Perm|exact ND]. }
    destruct (choquet_components w a) as [comps|err] eqn:CC; cbn [bind]; [|split; [exact NC|discriminate]].
    apply (cd_comps_total (st_crits s) (snd comps) (Ok m)); [|exact I|intros m' E; now injection E as <-].
    unfold choquet_components in CC.
    eapply choquet_total_comps; [exact Inc'| |exact CC]. intros comp [].
  Qed.

  Lemma mget_map_val {A B} (f : A -> B) k : forall m : smap A,
    mget k (map (fun kv => (fst kv, f (snd kv))) m) = option_map f (mget k m).
  Proof.
    induction m as [|[k' v] r IH]; cbn [map mget fst snd]; [reflexivity|].
    destruct (String.eqb k k'); [reflexivity|exact IH].
  Qed.

  (** *** RankCriteriaAscending: on top of [inv], the alternatives of weightedSum and choquetIntegral
      must hold no value outside the current criteria (their listeners look every held value up) *)
  Definition rank_side (s : state) : Prop :=
    match st_params s with PWs _ | PChoquet _ _ => exact_values s | _ => True end.

  Lemma noncomb_rank_criteria s : inv s = true -> rank_side s -> noncomb (rank_criteria s).
  Proof.
    intros Hinv R. apply inv_iff in Hinv as (A & P & D). unfold rank_criteria, rank_side in *.
    destruct (st_params s) as [wc|wc|w cs|ecs f|w cur seed rnd dr|fn lp seed w rnd|fn lp seed cur rnd];
      cbn [params_cover] in P.
    - destruct (cumulated_weights_total s (fun c v => do x <- find_wc c wc; Ok (nmul (snd x) v))) as [N1 C1].
      { intros a kv Ha Hkv. destruct (R a Ha) as [_ Inc].
        assert (Hid : In (fst kv) (map c_id (st_crits s))) by (apply Inc; unfold mkeys; now apply in_map).
        apply in_map_iff in Hid as (c & Ec & Hc).
        apply andb_true_iff in P as [_ F]. rewrite forallb_forall in F. specialize (F c Hc). rewrite Ec in F.
        destruct (find_wc_ok _ _ F) as (x & ->). exact I. }
      apply noncomb_bind; [exact N1|]. intros w Hw. apply noncomb_sort_by_weights. now apply C1.
    - destruct (cumulated_weights_total s (fun _ v => Ok v)) as [N1 C1]; [intros; exact I|].
      apply noncomb_bind; [exact N1|]. intros w Hw. apply noncomb_sort_by_weights. now apply C1.
    - destruct (choquet_decompose_total s w P R) as [N1 C1].
      apply noncomb_bind; [exact N1|]. intros d Hd. apply noncomb_sort_by_weights. now apply C1.
    - apply noncomb_sort_by_weights. unfold covers_weights. rewrite forallb_forall in *.
      intros c Hc. specialize (P c Hc). unfold mhas in *. rewrite mget_map_val.
      destruct (mget (c_id c) ecs); [reflexivity|discriminate].
    - now apply noncomb_sort_by_weights.
    - apply andb_true_iff in P as [P1 _]. now apply noncomb_sort_by_weights.
    - destruct (cumulated_weights_total s (fun _ v => Ok v)) as [N1 C1]; [intros; exact I|].
      apply noncomb_bind; [exact N1|]. intros w Hw. apply noncomb_sort_by_weights. now apply C1.
  Qed.
End OrderTotal.

Section OmissionReversalTotal.
  Context {N : Num}.

  Lemma pick_weighted_bound : forall (l : list wcrit) cur rw i0 i,
    pick_weighted l cur rw i0 = Some i -> (i0 <= i < i0 + List.length l)%nat.
  Proof.
    induction l as [|c r IH]; intros cur rw i0 i H; cbn [pick_weighted] in H; [discriminate|].
    cbv zeta in H. cbn [List.length]. destruct (nleb rw (nadd cur (snd c))).
    - injection H as <-. lia.
    - apply IH in H. lia.
  Qed.

  Lemma remove_nth_length {A} : forall i (l : list A), (i < List.length l)%nat ->
    List.length (remove_nth i l) = (List.length l - 1)%nat.
  Proof.
    induction i as [|i IH]; intros [|x l] H; cbn [List.length] in H; try lia; cbn [remove_nth List.length]; [lia|].
    rewrite IH by lia. lia.
  Qed.

  Lemma removelast_length {A} (l : list A) : List.length (removelast l) = (List.length l - 1)%nat.
  Proof.
    induction l as [|x r IH]; [reflexivity|]. cbn [removelast]. destruct r as [|y r']; [reflexivity|].
    cbn [List.length] in *. rewrite IH. lia.
  Qed.

  Lemma noncomb_wbp_loop : forall fuel n pos (sorted : list wcrit) total g acc,
    List.length sorted = (n - pos)%nat -> (fuel <= n - pos)%nat ->
    noncomb (wbp_loop fuel n pos sorted total g acc).
  Proof.
    induction fuel as [|f IH]; intros n pos sorted total g acc L F; cbn [wbp_loop]; [exact I|].
    apply noncomb_bind; [apply noncomb_draw|]. intros dg _. cbv zeta.
    destruct (pick_weighted sorted nzero (nmul (fst dg) total) 0) as [i|] eqn:PW.
    - apply pick_weighted_bound in PW.
      assert (Hi : (i < List.length sorted)%nat) by lia.
      destruct (nth_opt_some i sorted Hi) as (c & ->).
      apply IH; [rewrite remove_nth_length by exact Hi; lia|lia].
    - assert (Hi : (n - pos - 1 < List.length sorted)%nat) by lia.
      destruct (nth_opt_some _ sorted Hi) as (c & ->).
      apply IH; [rewrite removelast_length; lia|lia].
  Qed.

  Lemma noncomb_weakest_by_probability e s seed :
    inv s = true -> rank_side s -> noncomb (weakest_by_probability e s seed).
  Proof.
    intros Hinv R. unfold weakest_by_probability.
    apply noncomb_bind; [now apply noncomb_rank_criteria|]. intros sorted _.
    destruct sorted as [|first rest]; [exact I|]. cbv zeta.
    apply noncomb_wbp_loop; rewrite Nat.sub_0_r; [now rewrite map_length|apply Nat.le_refl].
  Qed.

  (* the orderings: [rank_side] for those that rank, unit draws for the random one *)
  Definition order_side (e : env) (s : state) (p : bprops) : Prop :=
    if String.eqb (bp_ordering p) o_random then unit_streams e else rank_side s.

  Lemma noncomb_order_criteria e s p : inv s = true -> order_side e s p -> noncomb (order_criteria e s p).
  Proof.
    intros Hinv O. unfold order_criteria, order_side in *. cbv zeta.
    destruct (String.eqb (bp_ordering p) "" || String.eqb (bp_ordering p) o_weakest) eqn:E1.
    { assert (String.eqb (bp_ordering p) o_random = false) as Er.
      { apply orb_true_iff in E1 as [E|E]; apply String.eqb_eq in E; rewrite E; reflexivity. }
      rewrite Er in O. apply noncomb_bind; [now apply noncomb_rank_criteria|]. intros; exact I. }
    destruct (String.eqb (bp_ordering p) o_strongest) eqn:E2.
    { apply String.eqb_eq in E2. rewrite E2 in O. cbn in O.
      apply noncomb_bind; [now apply noncomb_rank_criteria|]. intros; exact I. }
    destruct (String.eqb (bp_ordering p) o_random) eqn:E3.
    { apply noncomb_bind; [|intros; exact I]. apply noncomb_shuffle. apply O. }
    destruct (String.eqb (bp_ordering p) o_weakest_prob); [now apply noncomb_weakest_by_probability|].
    destruct (String.eqb (bp_ordering p) o_strongest_prob); [|ncd].
    apply noncomb_bind; [now apply noncomb_weakest_by_probability|]. intros; exact I.
  Qed.

  (* CriteriaSplitCondition: the pivot must fall inside the list (it is clamped to [min,max] only) *)
  Definition split_ok (n : nat) (p : bprops) : Prop := (0 <= split_pivot n p <= Z.of_nat n)%Z.

  Lemma noncomb_split_criteria (sorted : list crit) p : split_ok (List.length sorted) p -> noncomb (split_criteria sorted p).
  Proof.
    unfold split_ok, split_criteria. intros [H1 H2].
    destruct (negb (is_probability (bp_ratio p))); [ncd|].
    destruct (bp_max p <? bp_min p)%Z; [ncd|]. cbv zeta.
    destruct (split_pivot (List.length sorted) p <? 0)%Z eqn:E1; [apply Z.ltb_lt in E1; lia|].
    destruct (Z.of_nat (List.length sorted) <? split_pivot (List.length sorted) p)%Z eqn:E2; [apply Z.ltb_lt in E2; lia|].
    exact I.
  Qed.

  (** *** OnCriteriaRemoved for a sub-list of the current criteria *)
  Lemma noncomb_preserve_only (w : smap num) left : covers_weights w left = true -> noncomb (preserve_only w left).
  Proof.
    intros C. unfold preserve_only. fold_nc (fun _ : smap num => True); [exact I|].
    intros m c _ Hc. split; [|auto]. unfold covers_weights in C. rewrite forallb_forall in C.
    destruct (mhas_get _ _ (C c Hc)) as (v & ->). exact I.
  Qed.

  Lemma covers_weights_incl (w : smap num) l1 l2 : incl l1 l2 -> covers_weights w l2 = true -> covers_weights w l1 = true.
  Proof. unfold covers_weights. apply forallb_incl. Qed.

  Lemma noncomb_levels_removed d fn lp left cs :
    incl left cs -> forallb (fun t => covers_weights t cs) (lp_ths lp) = true ->
    noncomb (levels_removed d fn lp left).
  Proof.
    intros Inc T. unfold levels_removed. destruct (negb (known_level_source d fn)); [ncd|].
    destruct (String.eqb fn lv_thresholds); [|exact I].
    apply noncomb_bind; [|intros; exact I]. apply noncomb_mapM. intros t Ht.
    apply noncomb_preserve_only. rewrite forallb_forall in T. eapply covers_weights_incl; [exact Inc|now apply T].
  Qed.

  Lemma noncomb_on_criteria_removed left p cs :
    incl left cs -> NoDup (map c_id left) -> params_cover p cs = true ->
    noncomb (on_criteria_removed left p).
  Proof.
    intros Inc ND P.
    destruct p as [wc|wc|w cs'|ecs f|w cur seed rnd dr|fn lp seed w rnd|fn lp seed cur rnd];
      cbn [params_cover on_criteria_removed] in *.
    - apply andb_true_iff in P as [_ F]. rewrite forallb_forall in F.
      apply noncomb_bind; [|intros; exact I]. apply noncomb_mapM. intros c Hc.
      destruct (find_wc_ok _ _ (F c (Inc c Hc))) as (x & ->). exact I.
    - apply andb_true_iff in P as [_ F]. rewrite forallb_forall in F.
      apply noncomb_bind; [|intros; exact I]. apply noncomb_mapM. intros c Hc.
      destruct (find_wc_ok _ _ (F c (Inc c Hc))) as (x & ->). exact I.
    - apply noncomb_bind; [|intros; exact I]. fold_nc (fun _ : smap num => True); [exact I|].
      intros m t _ Ht. split; [|auto]. apply noncomb_bind; [|intros; exact I].
      apply power_set_In in Ht as [Ht NE]. apply power_set_all_sub in Ht as [I1 I2].
      apply (cover_union_weight w (map c_id cs)); [exact P|now apply I2| |exact NE].
      intros y Hy. apply I1 in Hy. apply in_map_iff in Hy as (c & <- & Hc). apply in_map. now apply Inc.
    - rewrite forallb_forall in P.
      apply noncomb_bind; [|intros; exact I]. fold_nc (fun _ : smap ecrit => True); [exact I|].
      intros m c _ Hc. split; [|auto]. destruct (mhas_get _ _ (P c (Inc c Hc))) as (v & ->). exact I.
    - apply noncomb_bind; [|intros; exact I]. apply noncomb_preserve_only.
      eapply covers_weights_incl; eassumption.
    - apply andb_true_iff in P as [P1 P2].
      apply noncomb_bind; [eapply noncomb_levels_removed; eassumption|]. intros lp' _.
      apply noncomb_bind; [|intros; exact I]. apply noncomb_preserve_only.
      eapply covers_weights_incl; eassumption.
    - apply noncomb_bind; [eapply noncomb_levels_removed; eassumption|]. intros; exact I.
  Qed.

  Lemma noncomb_with_criteria_only a cs : has_all cs a -> noncomb (with_criteria_only a cs).
  Proof.
    intros H. unfold with_criteria_only. apply noncomb_bind; [|intros; exact I].
    fold_nc (fun _ : smap num => True); [exact I|].
    intros m c _ Hc. split; [|auto]. destruct (raw_value_ok a c (H c Hc)) as (v & ->). exact I.
  Qed.

  (** criteria omission *)
  Theorem apply_omission_total e cur p :
    inv cur = true -> order_side e cur p -> split_ok (List.length (st_crits cur)) p ->
    forall e', apply_omission e cur p = Err e' -> combination_error e' = false.
  Proof.
    intros Hinv O S. apply noncomb_iff. pose proof Hinv as Hinv'. apply inv_iff in Hinv' as (A & P & D).
    unfold apply_omission. destruct (_ || _); [ncd|].
    apply noncomb_bind; [now apply noncomb_order_criteria|]. intros sorted Hs.
    apply order_criteria_perm in Hs.
    apply noncomb_bind.
    { apply noncomb_split_criteria. now rewrite (Permutation_length Hs). }
    intros [lft rgt] Hsp. apply split_criteria_spec in Hsp as (k & -> & ->).
    assert (Inc : incl (skipn k sorted) (st_crits cur)).
    { intros c Hc. apply (Permutation_in _ Hs). eapply skipn_incl. exact Hc. }
    assert (ND : NoDup (map c_id (skipn k sorted))).
    { rewrite <- skipn_map. apply NoDup_skipn. eapply Permutation_NoDup; [|exact D].
      symmetry. now apply Permutation_map. }
    apply noncomb_bind; [eapply noncomb_on_criteria_removed; eassumption|]. intros params _.
    apply alts_cover_app in A as [A1 A2].
    apply noncomb_bind.
    { apply noncomb_mapM. intros a Ha. apply noncomb_with_criteria_only. intros c Hc. exact (A1 a Ha c (Inc c Hc)). }
    intros consd _. apply noncomb_bind; [|intros; exact I].
    apply noncomb_mapM. intros a Ha. apply noncomb_with_criteria_only. intros c Hc. exact (A2 a Ha c (Inc c Hc)).
  Qed.

  (** preference reversal *)
  Lemma noncomb_update_alts (old new : list alt) :
    incl (map a_id old) (map a_id new) -> noncomb (update_alts old new).
  Proof.
    intros Inc. unfold update_alts. apply noncomb_mapM. intros a Ha.
    apply noncomb_fetch_alt'. apply Inc. now apply in_map.
  Qed.

  Theorem apply_reversal_total e cur p :
    inv cur = true -> order_side e cur p -> split_ok (List.length (st_crits cur)) p ->
    forall e', apply_reversal e cur p = Err e' -> combination_error e' = false.
  Proof.
    intros Hinv O S. apply noncomb_iff. pose proof Hinv as Hinv'. apply inv_iff in Hinv' as (A & P & D).
    unfold apply_reversal. destruct (_ || _); [ncd|].
    apply noncomb_bind; [now apply noncomb_order_criteria|]. intros sorted Hs.
    apply order_criteria_perm in Hs.
    apply noncomb_bind.
    { apply noncomb_split_criteria. now rewrite (Permutation_length Hs). }
    intros [lft rgt] Hsp. apply split_criteria_spec in Hsp as (k & -> & ->). cbn [fst]. cbv zeta.
    assert (Inc : incl (firstn k sorted) (st_crits cur)).
    { intros c Hc. apply (Permutation_in _ Hs). rewrite <- (firstn_skipn k sorted). apply in_or_app. now left. }
    apply noncomb_bind.
    { apply noncomb_mapM. intros c Hc. apply noncomb_bind; [|intros; exact I].
      apply noncomb_values_range. intros a Ha. exact (A a Ha c (Inc c Hc)). }
    intros items Hit.
    apply noncomb_bind.
    { apply noncomb_mapM. intros a Ha. apply noncomb_bind; [|intros; exact I].
      fold_nc (fun m : smap num => forall cr, In cr items -> mhas (c_id (fst cr)) m = true).
      - intros cr Hcr. exact (range_items_cover _ _ _ _ Hit (fun a Ha c Hc => A a Ha c (Inc c Hc)) a cr Ha Hcr).
      - intros m cr Im Hcr. destruct (mhas_get _ _ (Im cr Hcr)) as (v & ->). cbn [of_option bind]. split; [exact I|].
        intros m' E. injection E as <-. intros cr' Hcr'. apply mhas_mset_mono. now apply Im. }
    intros new_all Hn.
    assert (Ids : map a_id new_all = map a_id (all_alts cur)).
    { eapply mapM_map; [|exact Hn]. intros a a' F. cbn beta in F.
      match type of F with bind ?r _ = _ => destruct r; cbn [bind] in F; [|discriminate] end.
      now injection F as <-. }
    apply noncomb_bind.
    { apply noncomb_update_alts. rewrite Ids. unfold all_alts. rewrite map_app. apply incl_appl, incl_refl. }
    intros consd _. apply noncomb_bind; [|intros; exact I].
    apply noncomb_update_alts. rewrite Ids. unfold all_alts. rewrite map_app. apply incl_appr, incl_refl.
  Qed.

  (** the three through [apply_bias] *)
  Theorem apply_bias_total_basic e name cur p :
    name = b_omission \/ name = b_reversal \/ name = b_fatigue ->
    inv cur = true ->
    (name <> b_fatigue -> order_side e cur p /\ split_ok (List.length (st_crits cur)) p) ->
    forall e', apply_bias e name cur p = Err e' -> combination_error e' = false.
  Proof.
    intros [->|[->| ->]] Hinv Side.
    - rewrite apply_bias_omission. destruct Side as [O S]; [discriminate|]. now apply apply_omission_total.
    - rewrite apply_bias_reversal. destruct Side as [O S]; [discriminate|]. now apply apply_reversal_total.
    - rewrite apply_bias_fatigue. now apply apply_fatigue_total.
  Qed.
End OmissionReversalTotal.

(** ** 10b. anchoring with the inline applier *)
Lemma noncomb_fold_nested {S A B} (inner : A -> S -> B -> res S) (items : A -> list B) (Inv : S -> Prop) :
  forall l r0,
  noncomb r0 -> (forall s, r0 = Ok s -> Inv s) ->
  (forall a s x, In a l -> Inv s -> In x (items a) ->
     noncomb (inner a s x) /\ (forall s', inner a s x = Ok s' -> Inv s')) ->
  noncomb (fold_left (fun acc a => fold_left (fun acc2 x => do s <- acc2; inner a s x) (items a) acc) l r0) /\
  (forall fin, fold_left (fun acc a => fold_left (fun acc2 x => do s <- acc2; inner a s x) (items a) acc) l r0 = Ok fin ->
     Inv fin).
Proof.
  induction l as [|a rest IH]; intros r0 N0 I0 Hs; cbn [fold_left].
  - split; [exact N0|exact I0].
  - destruct (noncomb_fold_res (inner a) Inv (items a) r0 N0 I0) as [N1 I1].
    { intros s x Is Hx. apply (Hs a s x); [now left|exact Is|exact Hx]. }
    apply IH; [exact N1|exact I1|]. intros b s x Hb. apply Hs. now right.
Qed.

Section AnchoringInlineTotal.
  Context {N : Num}.

  Definition anchors_known (cur : state) (p : bprops) : Prop :=
    forall aa, In aa (bp_anch_alts p) -> In (aa_id aa) (map a_id (all_alts cur)).

  Lemma noncomb_eval_fun e f x : noncomb (eval_fun e f x).
  Proof.
    unfold eval_fun. destruct (String.eqb (fp_name f) fn_linear); [exact I|].
    destruct (String.eqb (fp_name f) fn_exp); [|ncd].
    unfold exp_from_zero, exp_oracle. destruct (lookup_num _ _); cbn; ncd.
  Qed.

  Lemma mhas_map_val {A B} (f : A -> B) k (m : smap A) :
    mhas k (map (fun kv => (fst kv, f (snd kv))) m) = mhas k m.
  Proof. unfold mhas. rewrite mget_map_val. destruct (mget k m); reflexivity. Qed.

  Lemma reference_point_total nadir cs (alts : list (alt * num)) :
    (forall ak, In ak alts -> has_all cs (fst ak)) ->
    noncomb (reference_point nadir cs alts) /\
    (forall rpv, reference_point nadir cs alts = Ok rpv -> forall c, In c cs -> mhas (c_id c) rpv = true).
  Proof.
    intros H. unfold reference_point. destruct alts as [|[a0 k0] rest]; [split; [ncd|discriminate]|].
    destruct (noncomb_fold_nested
                (fun (ak : alt * num) (m : smap (num * num)) (c : crit) =>
                   do v <- raw_value (fst ak) c;
                   do old <- of_option (mget (c_id c) m) EMissing;
                   if ref_predicate nadir c (fst old) (snd old) v (snd ak) then Ok (mset (c_id c) (v, snd ak) m) else Ok m)
                (fun _ => cs) (fun m => forall c, In c cs -> mhas (c_id c) m = true) rest
                (Ok (map (fun kv => (fst kv, (snd kv, k0))) (a_vals a0)))) as [N1 I1].
    - exact I.
    - intros m E. injection E as <-. intros c Hc.
      rewrite (mhas_map_val (fun v => (v, k0))). exact (H (a0, k0) (or_introl eq_refl) c Hc).
    - intros ak m c Hak Im Hc.
      destruct (raw_value_ok (fst ak) c (H ak (or_intror Hak) c Hc)) as (v & ->). cbn [bind].
      destruct (mhas_get _ _ (Im c Hc)) as (old & ->). cbn [of_option bind].
      destruct (ref_predicate nadir c (fst old) (snd old) v (snd ak)).
      + split; [exact I|]. intros m' E. injection E as <-. intros c' Hc'. apply mhas_mset_mono. now apply Im.
      + split; [exact I|]. intros m' E. injection E as <-. exact Im.
    - match goal with |- noncomb (bind ?r _) /\ _ =>
        assert (N1' : noncomb r) by exact N1;
        assert (I1' : forall fin, r = Ok fin -> forall c, In c cs -> mhas (c_id c) fin = true) by exact I1;
        clear N1 I1; destruct r as [best|err]
      end; cbn [bind].
      + split; [exact I|]. intros rpv E. injection E as <-. intros c Hc.
        rewrite (mhas_map_val fst). exact (I1' best eq_refl c Hc).
      + split; [exact N1'|discriminate].
  Qed.

  Lemma ref_diffs_total e (sc : list (crit * (num * (num * num)))) a r loss gain :
    has_all (map fst sc) a -> has_all (map fst sc) r ->
    noncomb (ref_diffs e sc a r loss gain) /\
    (forall d, ref_diffs e sc a r loss gain = Ok d -> forall cs, In cs sc -> mhas (c_id (fst cs)) d = true).
  Proof.
    intros Ha Hr. unfold ref_diffs. split.
    - fold_nc (fun _ : smap num => True); [exact I|].
      intros m cs _ Hcs. split; [|auto]. cbv zeta.
      assert (Hc : In (fst cs) (map fst sc)) by now apply in_map.
      destruct (crit_value_ok a (fst cs) (Ha _ Hc)) as (va & ->).
      destruct (crit_value_ok r (fst cs) (Hr _ Hc)) as (vr & ->). cbn [bind].
      apply noncomb_bind; [|intros; exact I].
      destruct (nltb nzero _); [apply noncomb_eval_fun|].
      apply noncomb_bind; [apply noncomb_eval_fun|]. intros; exact I.
    - intros d E.
      eapply (fold_keys (fun cs : crit * (num * (num * num)) => c_id (fst cs))) in E; [exact (proj2 E)|].
      intros m0 cs m' F. cbn beta zeta in F. binv F. binv F. binv F. injection F as <-. split.
      + intros k. apply mhas_mset_mono.
      + apply mhas_mset_same.
  Qed.

  Lemma average_single id (d : smap num) :
    exists avg, average [(id, d)] = Ok avg /\ forall k, mhas k avg = mhas k d.
  Proof.
    unfold average. cbn [fold_left bind snd List.length].
    destruct (nltb none _).
    - eexists. split; [reflexivity|]. intros k. apply (mhas_map_val (fun v => ndiv v _)).
    - eexists. split; [reflexivity|]. reflexivity.
  Qed.

  Lemma apply_inline_total cur p (sc : list (crit * (num * (num * num)))) (diffs : list (alt * list (string * smap num))) :
    map (fun ad => a_id (fst ad)) diffs = map a_id (all_alts cur) ->
    (forall ad, In ad diffs ->
       has_all (map fst sc) (fst ad) /\
       exists id d, snd ad = [(id, d)] /\ forall cs, In cs sc -> mhas (c_id (fst cs)) d = true) ->
    noncomb (apply_inline cur p sc diffs).
  Proof.
    intros Ids HD. unfold apply_inline.
    match goal with |- noncomb (bind ?rr _) => assert (NR : noncomb rr); [|destruct rr as [r|err] eqn:ER; cbn [bind]; [|exact NR]] end.
    { apply noncomb_mapM. intros ad Had. cbv zeta.
      destruct (HD ad Had) as (Ha & id & d & Es & Hd). rewrite Es.
      destruct (average_single id d) as (avg & -> & Havg). cbn [bind].
      apply noncomb_bind; [|intros; exact I].
      fold_nc (fun st : smap num * smap num => forall cs, In cs sc -> mhas (c_id (fst cs)) (fst st) = true).
      - cbn [fst]. intros cs Hcs. rewrite Havg. now apply Hd.
      - intros st cs Ist Hcs. cbv zeta.
        destruct (mhas_get _ _ (Ist cs Hcs)) as (dv & ->). cbn [of_option bind].
        assert (Hc : In (fst cs) (map fst sc)) by now apply in_map.
        destruct (mhas_get _ _ (Ha _ Hc)) as (v & ->). cbn [of_option bind]. split; [exact I|].
        intros st' E. injection E as <-. cbn [fst]. intros cs' Hcs'. apply mhas_mset_mono. now apply Ist. }
    cbv zeta.
    assert (IdsR : map (fun y : alt * alt => a_id (fst y)) r = map (fun ad : alt * list (string * smap num) => a_id (fst ad)) diffs
                   /\ map (fun y : alt * alt => a_id (snd y)) r = map (fun ad : alt * list (string * smap num) => a_id (fst ad)) diffs).
    { split; (eapply mapM_map; [|exact ER]); intros ad y F; cbn beta zeta in F; binv F; binv F; now injection F as <-. }
    destruct IdsR as [I1 I2].
    assert (C1 : incl (map a_id (st_cons cur)) (map a_id (all_alts cur))).
    { unfold all_alts. rewrite map_app. apply incl_appl, incl_refl. }
    assert (C2 : incl (map a_id (st_notcons cur)) (map a_id (all_alts cur))).
    { unfold all_alts. rewrite map_app. apply incl_appr, incl_refl. }
    apply noncomb_bind.
    { apply noncomb_update_alts. rewrite map_map, I1, Ids. exact C1. }
    intros consd _. apply noncomb_bind.
    { destruct (bp_anch_not_considered p); [|exact I].
      apply noncomb_update_alts. rewrite map_map, I1, Ids. exact C2. }
    intros nconsd _. apply noncomb_bind; [|intros; exact I].
    destruct (bp_anch_not_considered p); [exact I|].
    apply noncomb_update_alts. rewrite map_map, I2, Ids. exact C1.
  Qed.

  Theorem apply_anchoring_inline_total e cur p :
    inv cur = true -> anchors_known cur p -> String.eqb (bp_anch_applier p) ap_inline = true ->
    forall e', apply_anchoring e cur p = Err e' -> combination_error e' = false.
  Proof.
    intros Hinv AK AP. apply noncomb_iff. apply inv_iff in Hinv as (A & P & D).
    unfold apply_anchoring. destruct (bp_anch_alts p) as [|aa0 aas] eqn:EA; [ncd|]. rewrite <- EA.
    destruct (_ || _); [ncd|]. destruct (negb (_ || _)); [ncd|]. cbv zeta.
    apply noncomb_bind.
    { apply noncomb_mapM. intros aa Haa. apply noncomb_bind; [|intros; exact I].
      apply noncomb_fetch_alt'. now apply AK. }
    intros anch Hanch.
    destruct (negb (_ || _)); [ncd|].
    destruct (reference_point_total (String.eqb (bp_anch_ref p) rp_nadir) (st_crits cur) anch) as [NR IR].
    { intros ak Hak. destruct (mapM_In_inv _ _ _ Hanch _ Hak) as (aa & _ & F). cbn beta in F. binv F.
      injection F as <-. cbn [fst]. apply fetch_alt'_In in E. exact (A _ E). }
    apply noncomb_bind; [exact NR|]. intros rpv Hrpv. specialize (IR rpv Hrpv).
    destruct (negb (valid_bounding p)); [ncd|].
    apply noncomb_bind.
    { unfold criteria_scaling. apply noncomb_mapM. intros c Hc. apply noncomb_bind; [|intros; exact I].
      apply noncomb_values_range. intros a Ha. exact (A a Ha c Hc). }
    intros sc Hsc. apply criteria_scaling_fst in Hsc.
    match goal with |- noncomb (bind ?r _) => assert (ND : noncomb r); [|destruct r as [diffs|err] eqn:EDf; cbn [bind]; [|exact ND]] end.
    { apply noncomb_mapM. intros a Ha. apply noncomb_bind; [|intros; exact I].
      apply noncomb_mapM. intros r [<-|[]]. apply noncomb_bind; [|intros; exact I].
      apply ref_diffs_total; rewrite Hsc; [exact (A a Ha)|exact IR]. }
    apply noncomb_bind; [|intros; exact I]. rewrite AP.
    apply apply_inline_total.
    - eapply mapM_map; [|exact EDf]. intros a ad F. cbn beta in F. binv F. now injection F as <-.
    - intros ad Had. destruct (mapM_In_inv _ _ _ EDf _ Had) as (a & Ha & F). cbn beta in F.
      cbn [mapM bind] in F.
      destruct (ref_diffs e sc a {| a_id := bp_anch_ref p; a_vals := rpv |} (bp_anch_loss p) (bp_anch_gain p))
        as [d|] eqn:ER; cbn [bind] in F; [|discriminate].
      injection F as <-. cbn [fst snd]. split.
      + rewrite Hsc. exact (A a Ha).
      + do 2 eexists. split; [reflexivity|].
        refine (proj2 (ref_diffs_total e sc a _ _ _ _ _) _ ER); rewrite Hsc; [exact (A a Ha)|exact IR].
  Qed.

  (** the four biases proved total, through [apply_bias] *)
  Theorem apply_bias_total e name cur p :
    inv cur = true ->
    (name = b_fatigue) \/
    ((name = b_omission \/ name = b_reversal) /\ order_side e cur p /\ split_ok (List.length (st_crits cur)) p) \/
    (name = b_anchoring /\ anchors_known cur p /\ String.eqb (bp_anch_applier p) ap_inline = true) ->
    forall e', apply_bias e name cur p = Err e' -> combination_error e' = false.
  Proof.
    intros Hinv [->|[([->| ->] & O & S)|(-> & AK & AP)]].
    - rewrite apply_bias_fatigue. now apply apply_fatigue_total.
    - rewrite apply_bias_omission. now apply apply_omission_total.
    - rewrite apply_bias_reversal. now apply apply_reversal_total.
    - rewrite apply_bias_anchoring. now apply apply_anchoring_inline_total.
  Qed.
End AnchoringInlineTotal.

(** ** 10c. The extra condition of choquetIntegral in terms of the request.
    [tidy]: the values of every alternative form a canonical map whose keys are current criteria.
    It holds after [prepare] when the request's alternatives hold no value outside the criteria, and
    every bias preserves it, so [exact_values] holds for the state the method is evaluated on. *)
Lemma fold_res_pres {S B} (step : S -> B -> res S) (Inv : S -> Prop) : forall l s0 fin,
  Inv s0 -> (forall s x s', Inv s -> In x l -> step s x = Ok s' -> Inv s') ->
  fold_left (fun acc x => do s <- acc; step s x) l (Ok s0) = Ok fin -> Inv fin.
Proof.
  induction l as [|x r IH]; intros s0 fin H0 Hs H; cbn [fold_left bind] in H.
  - now injection H as <-.
  - destruct (step s0 x) as [s1|e] eqn:E; [|rewrite fold_res_err in H; discriminate].
    apply (IH s1 fin); [eapply Hs; [exact H0|now left|exact E]| |exact H].
    intros s y s' Is Hy. apply Hs; [exact Is|now right].
Qed.

Lemma msorted_NoDup {A} : forall m : smap A, msorted m = true -> NoDup (mkeys m).
Proof.
  induction m as [|[k v] r IH]; intros S; cbn [mkeys map fst]; [constructor|].
  constructor.
  - intros Hin. pose proof (msorted_head_lt k v r S k Hin) as L. now rewrite RankFacts.sltb_irrefl in L.
  - apply IH. eapply msorted_tail. exact S.
Qed.

Section Tidy.
  Context {N : Num}.

  Definition tidy_vals (ids : list string) (m : smap num) : Prop := msorted m = true /\ incl (mkeys m) ids.
  Definition tidy_alts (ids : list string) (l : list alt) : Prop := forall a, In a l -> tidy_vals ids (a_vals a).
  Definition tidy (s : state) : Prop := tidy_alts (map c_id (st_crits s)) (all_alts s).
  Definition tidy_request (req : request) : Prop := tidy_alts (map c_id (r_crits req)) (r_known req).

  Lemma tidy_exact s : tidy s -> exact_values s.
  Proof.
    intros T a Ha. destruct (T a) as [S Inc]; [unfold all_alts; apply in_or_app; now left|].
    split; [now apply msorted_NoDup|exact Inc].
  Qed.

  Lemma tidy_vals_nil ids : tidy_vals ids [].
  Proof. split; [reflexivity|intros k []]. Qed.

  Lemma tidy_vals_mset ids k v m : tidy_vals ids m -> In k ids -> tidy_vals ids (mset k v m).
  Proof.
    intros [S Inc] Hk. split; [now apply mset_msorted|].
    intros k' Hk'. apply mkeys_mset in Hk' as [->|Hk']; [exact Hk|now apply Inc].
  Qed.

  Lemma tidy_vals_mset_present ids k v m : tidy_vals ids m -> mhas k m = true -> tidy_vals ids (mset k v m).
  Proof.
    intros T H. apply tidy_vals_mset; [exact T|]. apply (proj2 T). apply mkeys_in_iff. now apply mhas_get.
  Qed.

  Lemma tidy_vals_mono ids ids' m : incl ids ids' -> tidy_vals ids m -> tidy_vals ids' m.
  Proof. intros I [S Inc]. split; [exact S|]. intros k Hk. apply I, Inc, Hk. Qed.

  Lemma tidy_alts_app ids l1 l2 : tidy_alts ids (l1 ++ l2) <-> tidy_alts ids l1 /\ tidy_alts ids l2.
  Proof.
    unfold tidy_alts. split.
    - intros H. split; intros a Ha; apply H, in_or_app; auto.
    - intros [H1 H2] a Ha. apply in_app_or in Ha as [Ha|Ha]; auto.
  Qed.

  Lemma tidy_alts_incl ids l l' : incl l l' -> tidy_alts ids l' -> tidy_alts ids l.
  Proof. intros I H a Ha. apply H, I, Ha. Qed.

  (** *** omission *)
  Lemma with_criteria_only_tidy a cs a' : with_criteria_only a cs = Ok a' -> tidy_vals (map c_id cs) (a_vals a').
  Proof.
    unfold with_criteria_only. intros H. binv H. injection H as <-. cbn [a_vals].
    revert E. apply fold_res_pres; [apply tidy_vals_nil|].
    intros m c m' T Hc F. cbn beta in F. binv F. injection F as <-.
    apply tidy_vals_mset; [exact T|now apply in_map].
  Qed.

  Lemma omission_tidy e cur p st rep : apply_omission e cur p = Ok (st, rep) -> tidy st.
  Proof.
    intros H. apply omission_shape in H as (sorted & k & _ & _ & _ & _ & M1 & M2).
    unfold tidy, all_alts. apply tidy_alts_app. split; intros a' Ha'.
    - destruct (mapM_In_inv _ _ _ M1 _ Ha') as (a & _ & W). exact (with_criteria_only_tidy _ _ _ W).
    - destruct (mapM_In_inv _ _ _ M2 _ Ha') as (a & _ & W). exact (with_criteria_only_tidy _ _ _ W).
  Qed.

  (** *** reversal *)
  Lemma rev_vals_tidy ids items a a' : rev_vals items a = Ok a' -> tidy_vals ids (a_vals a) -> tidy_vals ids (a_vals a').
  Proof.
    unfold rev_vals. intros H T. binv H. injection H as <-. cbn [a_vals].
    revert E. apply fold_res_pres; [exact T|].
    intros m cr m' Tm _ F. cbn beta in F.
    destruct (mget (c_id (fst cr)) m) as [v|] eqn:G; cbn [of_option bind] in F; [|discriminate].
    injection F as <-. apply tidy_vals_mset_present; [exact Tm|]. unfold mhas. now rewrite G.
  Qed.

  Lemma reversal_tidy e cur p st rep : tidy cur -> apply_reversal e cur p = Ok (st, rep) -> tidy st.
  Proof.
    intros T H. apply reversal_shape in H as (items & new_all & M & U1 & U2 & C & _).
    assert (NA : tidy_alts (map c_id (st_crits cur)) new_all).
    { intros a' Ha'. destruct (mapM_In_inv _ _ _ M _ Ha') as (a & Ha & R).
      eapply rev_vals_tidy; [exact R|now apply T]. }
    unfold tidy, all_alts. rewrite C. apply tidy_alts_app. split.
    - eapply tidy_alts_incl; [eapply update_alts_incl; exact U1|exact NA].
    - eapply tidy_alts_incl; [eapply update_alts_incl; exact U2|exact NA].
  Qed.

  (** *** fatigue *)
  Lemma blur_values_tidy ids p f : forall (cs : list (crit * (num * num))) a gv gs acc vals gv' gs',
    blur_values cs a p f gv gs acc = Ok (vals, gv', gs') ->
    incl (map (fun cr => c_id (fst cr)) cs) ids -> tidy_vals ids acc -> tidy_vals ids vals.
  Proof.
    induction cs as [|[c r] rest IH]; intros a gv gs acc vals gv' gs' H Inc T; cbn [blur_values] in H.
    - now injection H as <- _ _.
    - binv H. binv H. binv H. eapply IH; [exact H| |].
      + intros k Hk. apply Inc. now right.
      + apply tidy_vals_mset; [exact T|]. apply Inc. now left.
  Qed.

  Lemma blur_alts_tidy ids crs p f : incl (map (fun cr => c_id (fst cr)) crs) ids ->
    forall l gv gs acc res gv' gs',
    blur_alts crs l p f gv gs acc = Ok (res, gv', gs') -> tidy_alts ids acc -> tidy_alts ids res.
  Proof.
    intros Inc. induction l as [|a rest IH]; intros gv gs acc res gv' gs' H T; cbn [blur_alts] in H.
    - now injection H as <- _ _.
    - binv H. destruct x as [[vals gv1] gs1]. eapply IH; [exact H|].
      apply tidy_alts_app. split; [exact T|]. intros a' [<-|[]]. cbn [a_vals].
      eapply blur_values_tidy; [exact E|exact Inc|apply tidy_vals_nil].
  Qed.

  Lemma fatigue_tidy e cur p st rep : apply_fatigue e cur p = Ok (st, rep) -> tidy st.
  Proof.
    intros H. apply fatigue_shape in H as (f & crs & gv & gs & gv1 & gs1 & gv2 & gs2 & R & B1 & B2 & C & _).
    apply range_items_fst in R.
    assert (Inc : incl (map (fun cr : crit * (num * num) => c_id (fst cr)) crs) (map c_id (st_crits cur))).
    { rewrite <- R, map_map. apply incl_refl. }
    unfold tidy, all_alts. rewrite C. apply tidy_alts_app. split.
    - eapply blur_alts_tidy; [exact Inc|exact B1|intros a []].
    - eapply blur_alts_tidy; [exact Inc|exact B2|intros a []].
  Qed.

  (** *** the biases that add a criterion *)
  Lemma added_shape_tidy cur st : tidy cur -> added_shape cur st -> tidy st.
  Proof.
    intros T (newc & ref & g & ag & base & new_all & Pb & F & U1 & U2 & _ & _ & AC).
    apply add_criterion_spec in AC as [AC _].
    assert (NA : tidy_alts (map c_id (st_crits st)) new_all).
    { intros a' Ha'. destruct (Forall2_In_r _ _ _ F _ Ha') as (a0 & Ha0 & v & _ & ->). cbn [a_vals].
      rewrite AC, map_app. cbn [map]. apply tidy_vals_mset.
      - eapply tidy_vals_mono; [|apply T; eapply Permutation_in; eassumption]. apply incl_appl, incl_refl.
      - apply in_or_app. right. now left. }
    unfold tidy, all_alts. apply tidy_alts_app. split.
    - eapply tidy_alts_incl; [eapply update_alts_incl; exact U1|exact NA].
    - eapply tidy_alts_incl; [eapply update_alts_incl; exact U2|exact NA].
  Qed.

  Lemma concealment_tidy e cur p st rep : tidy cur -> apply_concealment e cur p = Ok (st, rep) -> tidy st.
  Proof. intros T H. apply concealment_shape in H. now apply added_shape_tidy in H. Qed.

  Lemma mixing_tidy e cur p st rep : tidy cur -> apply_mixing e cur p = Ok (st, rep) -> tidy st.
  Proof. intros T H. apply mixing_shape in H as [(-> & _)|[H _]]; [exact T|]. now apply added_shape_tidy in H. Qed.

  (** *** anchoring *)
  Lemma ref_diffs_tidy e (sc : list (crit * (num * (num * num)))) a r loss gain d :
    ref_diffs e sc a r loss gain = Ok d -> tidy_vals (map c_id (map fst sc)) d.
  Proof.
    unfold ref_diffs. apply fold_res_pres; [apply tidy_vals_nil|].
    intros m cs m' T Hcs F. cbn beta zeta in F. binv F. binv F. binv F. injection F as <-.
    apply tidy_vals_mset; [exact T|]. apply in_map. now apply in_map.
  Qed.

  Lemma tidy_vals_map_val ids (f : num -> num) (m : smap num) :
    tidy_vals ids m -> tidy_vals ids (map (fun kv => (fst kv, f (snd kv))) m).
  Proof.
    intros [S Inc]. split.
    - clear Inc. induction m as [|[k v] r IH]; [reflexivity|].
      cbn [map fst snd]. rewrite msorted_cons in S |- *. apply andb_true_iff in S as [S1 S2].
      rewrite (IH S2), andb_true_r. destruct r as [|[k2 v2] r']; [reflexivity|exact S1].
    - unfold mkeys in *. rewrite map_map. cbn [fst]. exact Inc.
  Qed.

  (* the refined case analysis of [apply_anchoring]: the differences come from [ref_diffs] *)
  Lemma anchoring_cases_diffs e cur p st rep : apply_anchoring e cur p = Ok (st, rep) ->
    exists sc diffs ar,
      criteria_scaling (st_crits cur) (all_alts cur) = Ok sc /\
      Forall2 (fun a ad => exists id d, ad = (a, [(id, d)]) /\ tidy_vals (map c_id (map fst sc)) d) (all_alts cur) diffs /\
      ((String.eqb (bp_anch_applier p) ap_inline = true /\ apply_inline cur p sc diffs = Ok (st, ar)) \/
       (String.eqb (bp_anch_applier p) ap_inline = false /\ apply_new_criterion e cur p sc diffs = Ok (st, ar))).
  Proof.
    unfold apply_anchoring. intros H.
    destruct (bp_anch_alts p) as [|aa0 aas]; [discriminate|].
    destruct (negb (known_fun (bp_anch_loss p)) || negb (known_fun (bp_anch_gain p))); [discriminate|].
    destruct (negb (String.eqb (bp_anch_applier p) ap_inline || String.eqb (bp_anch_applier p) ap_new)); [discriminate|].
    cbv zeta in H. binv H.
    destruct (negb (String.eqb (bp_anch_ref p) rp_ideal || String.eqb (bp_anch_ref p) rp_nadir)); [discriminate|].
    binv H. destruct (negb (valid_bounding p)); [discriminate|]. binv H. binv H.
    assert (FD : Forall2 (fun a ad => exists id d, ad = (a, [(id, d)]) /\ tidy_vals (map c_id (map fst x1)) d)
                         (all_alts cur) x2).
    { apply mapM_Forall2 in E2. eapply Forall2_imp; [|exact E2].
      intros a ad F. cbn beta in F. cbn [mapM bind] in F.
      match type of F with context [ref_diffs ?e' ?sc' ?a' ?r' ?l' ?g'] =>
        destruct (ref_diffs e' sc' a' r' l' g') as [d|] eqn:ER; cbn [bind] in F; [|discriminate] end.
      injection F as <-. do 2 eexists. split; [reflexivity|]. eapply ref_diffs_tidy. exact ER. }
    destruct (String.eqb (bp_anch_applier p) ap_inline) eqn:AP; binv H; destruct x3 as [st' ar]; cbn [fst snd] in H;
      injection H as <- _; exists x1, x2, ar; (split; [first [exact E1|reflexivity]|]); (split; [exact FD|auto]).
  Qed.

  Lemma inline_tidy cur p sc diffs st ar :
    tidy cur -> map fst sc = st_crits cur ->
    Forall2 (fun a ad => exists id d, ad = (a, [(id, d)]) /\ tidy_vals (map c_id (map fst sc)) d) (all_alts cur) diffs ->
    apply_inline cur p sc diffs = Ok (st, ar) -> tidy st.
  Proof.
    intros T SC FD H. unfold apply_inline in H. binv H. cbv zeta in H.
    assert (NA : tidy_alts (map c_id (st_crits cur)) (map fst x)).
    { intros a' Ha'. apply in_map_iff in Ha' as (y & <- & Hy).
      destruct (mapM_In_inv _ _ _ E _ Hy) as (ad & Had & F). cbn beta zeta in F.
      destruct (Forall2_In_r _ _ _ FD _ Had) as (a & _ & id & d & -> & Td). rewrite SC in Td.
      destruct (average_single id d) as (avg & EA & Havg). cbn [snd] in F. rewrite EA in F. cbn [bind] in F.
      binv F. injection F as <-. cbn [fst a_vals].
      assert (Tavg : tidy_vals (map c_id (st_crits cur)) avg).
      { unfold average in EA. cbn [fold_left bind snd List.length] in EA.
        destruct (nltb none _); injection EA as <-; [|exact Td].
        match goal with |- tidy_vals _ (map (fun kv => (fst kv, ndiv (snd kv) ?n)) _) =>
          exact (tidy_vals_map_val _ (fun v => ndiv v n) d Td) end. }
      revert E0.
      apply (fold_res_pres _ (fun st : smap num * smap num => tidy_vals (map c_id (st_crits cur)) (fst st)));
        [exact Tavg|].
      intros st0 cs st' T0 _ F. cbn beta zeta in F.
      destruct (mget (c_id (fst cs)) (fst st0)) as [dv|] eqn:G; cbn [of_option bind] in F; [|discriminate].
      binv F. injection F as <-. cbn [fst]. apply tidy_vals_mset_present; [exact T0|]. unfold mhas. now rewrite G. }
    unfold tidy in T. unfold all_alts in T. apply tidy_alts_app in T as [T1 T2].
    binv H. binv H. binv H. injection H as <- _. unfold tidy, all_alts. cbn [st_cons st_notcons st_crits].
    apply tidy_alts_app. split.
    - eapply tidy_alts_incl; [eapply update_alts_incl; exact E0|exact NA].
    - destruct (bp_anch_not_considered p).
      + eapply tidy_alts_incl; [eapply update_alts_incl; exact E1|exact NA].
      + injection E1 as <-. exact T2.
  Qed.

  Lemma anchoring_tidy e cur p st rep : tidy cur -> apply_anchoring e cur p = Ok (st, rep) -> tidy st.
  Proof.
    intros T H. apply anchoring_cases_diffs in H as (sc & diffs & ar & SC & FD & [[_ H]|[_ H]]).
    - apply criteria_scaling_fst in SC. eapply inline_tidy; eassumption.
    - assert (FD' : Forall2 (fun a ad => exists x, ad = (a, [x])) (all_alts cur) diffs).
      { eapply Forall2_imp; [|exact FD]. intros a ad (id & d & -> & _). eauto. }
      apply (new_criterion_shape _ _ _ _ _ _ _ FD') in H as [(_ & ES & _)|H].
      + unfold tidy. rewrite ES. intros a [].
      + now apply added_shape_tidy in H.
  Qed.

  (** *** one bias, a sequence, the whole pipeline *)
  Theorem apply_bias_tidy e name cur p st rep : tidy cur -> apply_bias e name cur p = Ok (st, rep) -> tidy st.
  Proof.
    unfold apply_bias. intros T H.
    destruct (String.eqb name b_omission); [eapply omission_tidy; eassumption|].
    destruct (String.eqb name b_reversal); [eapply reversal_tidy; eassumption|].
    destruct (String.eqb name b_fatigue); [eapply fatigue_tidy; eassumption|].
    destruct (String.eqb name b_concealment); [eapply concealment_tidy; eassumption|].
    destruct (String.eqb name b_mixing); [eapply mixing_tidy; eassumption|].
    destruct (String.eqb name b_anchoring); [eapply anchoring_tidy; eassumption|].
    discriminate.
  Qed.

  Theorem process_biases_tidy e : forall bs cur g st echoes,
    tidy cur -> process_biases e bs cur g = Ok (st, echoes) -> tidy st.
  Proof.
    induction bs as [|b rest IH]; intros cur g st echoes T H; cbn [process_biases] in H.
    - now injection H as <- _.
    - binv H. destruct (nltb (fst x) (b_prob b)).
      + binv H. binv H. injection H as <- _. destruct x0 as [st1 rep1]. destruct x1 as [st2 ech2]. cbn [fst] in *.
        eapply IH; [eapply apply_bias_tidy; eassumption|eassumption].
      + binv H. injection H as <- _. destruct x0 as [st2 ech2]. cbn [fst]. eapply IH; eassumption.
  Qed.

  Lemma prepare_tidy req st : tidy_request req -> prepare req = Ok st -> tidy st.
  Proof.
    unfold prepare. intros T H.
    destruct (is_blank (r_method req)); [discriminate|].
    binv H. binv H. destruct (negb (mem_str (r_method req) method_names)); [discriminate|].
    binv H. binv H. injection H as <-. unfold tidy, all_alts. cbn [st_crits st_cons st_notcons].
    apply tidy_alts_app. split; (eapply tidy_alts_incl; [|exact T]).
    - intros a Ha. unfold considered in E1. destruct (mapM_In_inv _ _ _ E1 _ Ha) as (id & _ & Fa).
      eapply fetch_alt_In. exact Fa.
    - intros a Ha. unfold not_considered in Ha. now apply filter_In in Ha.
  Qed.

  Theorem biased_state_tidy e req st echoes :
    tidy_request req -> biased_state e req = Ok (st, echoes) -> tidy st.
  Proof.
    unfold biased_state. intros T H. binv H. pose proof (prepare_tidy _ _ T E) as T0.
    destruct (negb _); [discriminate|].
    destruct (enabled_biases req) as [|b bs] eqn:EB.
    - now injection H as <- _.
    - eapply process_biases_tidy; eassumption.
  Qed.
End Tidy.

Section RequestLevel.
  Context {N : Num}.

  (** the four methods whose parser validates, with every side condition stated on the request *)
  Theorem biased_evaluate_total_request e req st echoes :
    biased_state e req = Ok (st, echoes) -> validating_method (r_method req) ->
    (r_method req = m_choquet -> tidy_request req) ->
    (r_method req = m_electre -> r_chose req <> []) ->
    forall e', evaluate (r_method req) e st = Err e' -> combination_error e' = false.
  Proof.
    intros H V HC HE. apply (biased_evaluate_total e req st echoes H V).
    pose proof (biased_state_kind _ _ _ _ H) as K. unfold side_ok.
    destruct V as [M|[M|[M|M]]]; rewrite M in K; cbn in K; destruct (st_params st); try discriminate K.
    - exact I.
    - exact I.
    - apply tidy_exact. eapply biased_state_tidy; [now apply HC|exact H].
    - eapply biased_cons_nonempty; [exact H|now apply HE].
  Qed.

  Corollary decide_error_origin_request e req :
    validating_method (r_method req) ->
    (r_method req = m_choquet -> tidy_request req) ->
    (r_method req = m_electre -> r_chose req <> []) ->
    forall e', decide e req = Err e' -> combination_error e' = true -> biased_state e req = Err e'.
  Proof.
    intros V HC HE e' H CE. unfold decide in H.
    destruct (biased_state e req) as [[st echoes]|eb] eqn:B; cbn [bind fst snd] in H.
    - destruct (evaluate (r_method req) e st) as [r|ee] eqn:Ev; cbn [bind] in H; [discriminate|].
      injection H as <-.
      rewrite (biased_evaluate_total_request e req st echoes B V HC HE _ Ev) in CE. discriminate.
    - now injection H as <-.
  Qed.

  (** the three heuristics: their parsers validate nothing, so the coherence of the prepared state is a
      hypothesis (as in [InvFacts.biased_state_inv_gen]); the current choice is checked on the request *)
  Definition request_current_ok (req : request) : Prop :=
    if String.eqb (rp_current (r_mp req)) "" then r_chose req <> []
    else In (rp_current (r_mp req)) (map a_id (r_known req)).

  Lemma prepare_split req st0 : prepare req = Ok st0 ->
    st_notcons st0 = not_considered req /\ map a_id (st_cons st0) = r_chose req.
  Proof.
    intros H. split; [|exact (proj1 (WfFacts.prepare_inv req st0 H))].
    unfold prepare in H. destruct (is_blank (r_method req)); [discriminate|].
    binv H. binv H. destruct (negb (mem_str (r_method req) method_names)); [discriminate|].
    binv H. binv H. now injection H as <-.
  Qed.

  Lemma known_id_split req id : In id (map a_id (r_known req)) ->
    In id (r_chose req ++ map a_id (not_considered req)).
  Proof.
    intros H. apply in_or_app. destruct (mem_str id (r_chose req)) eqn:M; [left; now apply mem_str_In|right].
    apply in_map_iff in H as (a & <- & Ha). apply in_map. unfold not_considered. apply filter_In.
    split; [exact Ha|]. now rewrite M.
  Qed.

  Lemma biased_current_ok e req st echoes :
    biased_state e req = Ok (st, echoes) ->
    r_method req = m_majority \/ r_method req = m_satisfaction ->
    request_current_ok req -> current_ok st (current_of (st_params st)).
  Proof.
    intros H M RC. apply BiasStructFacts.biased_state_inv in H as (st0 & P & (I1 & I2 & _ & Cu) & _).
    destruct (prepare_split _ _ P) as [N0 C0]. apply prepare_shape in P as (_ & PP & _).
    assert (Ecur : current_of (st_params st0) = rp_current (r_mp req)).
    { unfold parse_params in PP. destruct M as [M|M]; rewrite M in PP; cbn in PP; injection PP as <-; reflexivity. }
    rewrite Cu, Ecur. unfold current_ok, request_current_ok in *. unfold ids_of in *.
    destruct (String.eqb (rp_current (r_mp req)) "").
    - intros E. rewrite E in I1. cbn [map] in I1. rewrite C0 in I1. now apply RC.
    - unfold all_alts. rewrite map_app, I1, I2, C0, N0. now apply known_id_split.
  Qed.

  Theorem biased_evaluate_total_heuristics e req st echoes :
    biased_state e req = Ok (st, echoes) ->
    r_method req = m_majority \/ r_method req = m_aspect \/ r_method req = m_satisfaction ->
    (forall st0, prepare req = Ok st0 -> inv st0 = true /\ sync st0) ->
    (r_method req <> m_aspect -> request_current_ok req) ->
    unit_streams e ->
    forall e', evaluate (r_method req) e st = Err e' -> combination_error e' = false.
  Proof.
    intros H M P RC U. apply (biased_evaluate_total_gen e req st echoes H P).
    pose proof (biased_state_kind _ _ _ _ H) as K. unfold side_ok.
    destruct M as [M|[M|M]]; rewrite M in K; cbn in K; destruct (st_params st) eqn:EP; try discriminate K.
    - split; [|auto].
      assert (C : current_ok st (current_of (st_params st))).
      { eapply biased_current_ok; [exact H|now left|]. apply RC. rewrite M. discriminate. }
      now rewrite EP in C.
    - auto.
    - split; [|auto].
      assert (C : current_ok st (current_of (st_params st))).
      { eapply biased_current_ok; [exact H|now right|]. apply RC. rewrite M. discriminate. }
      now rewrite EP in C.
  Qed.
End RequestLevel.

(** ** 11. The condition on the random streams, discharged on [NumQc]: draws not above 1 *)
Section UnitQc.
  Import QArith Qcanon NumQc.

  Lemma qc_trunc_le (x : Qc) (i : nat) : (x <= qn i)%Qc -> (Z.to_nat (qc_truncZ x) <= i)%nat.
  Proof.
    intros H. unfold Qcle in H. rewrite this_qn in H. unfold Qle in H. cbn [Qnum Qden inject_Z] in H.
    unfold qc_truncZ.
    assert (B : (Qnum x ÷ Z.pos (Qden x) <= Z.of_nat i)%Z).
    { apply Z.quot_le_upper_bound; lia. }
    lia.
  Qed.

  Theorem unit_draw_Qc (d : Qc) : (d <= 1)%Qc -> @unit_draw NumQc d.
  Proof.
    intros H i. cbn [ntruncZ nmul nofZ NumQc]. apply qc_trunc_le.
    change (qc_ofZ (Z.of_nat i)) with (qn i).
    rewrite <- (Qcmult_1_l (qn i)) at 2. apply Qcmult_le_compat_r; [exact H|apply qn_nonneg].
  Qed.

  Corollary unit_streams_Qc (e : @env NumQc) :
    (forall seed l, lookupZ seed (env_streams e) = Some l -> Forall (fun d : Qc => (d <= 1)%Qc) l) ->
    unit_streams e.
  Proof.
    intros H seed. unfold new_rng. destruct (lookupZ seed (env_streams e)) as [l|] eqn:E; [|constructor].
    eapply Forall_impl; [|exact (H seed l E)]. intros d Hd. now apply unit_draw_Qc.
  Qed.
End UnitQc.

(** ** 12. Witnesses on [NumQc]: every side condition is needed.
    Each state satisfies [inv]; the method (or the bias) fails with a combination error. *)
Module Witnesses.
  Import QArith Qcanon NumQc.
  Import InvFacts.Counterexamples.   (* q, cr, A1 = x(a:1,b:2), A2 = y(a:3,b:1), bp0, env0 *)
  Local Open Scope string_scope.
  Local Open Scope list_scope.

  Definition A3 : @alt NumQc := {| a_id := "z"; a_vals := [("a", q 2 1); ("b", q 5 1)] |}.
  (* x with a value for "c", which is not a criterion; x with the key "b" twice *)
  Definition Ax : @alt NumQc := {| a_id := "x"; a_vals := [("a", q 1 1); ("b", q 2 1); ("c", q 3 1)] |}.
  Definition Ad : @alt NumQc := {| a_id := "x"; a_vals := [("a", q 1 1); ("b", q 2 1); ("b", q 3 1)] |}.
  Definition mk (cons ncons : list (@alt NumQc)) (p : @mparams NumQc) : @state NumQc :=
    {| st_notcons := ncons; st_cons := cons; st_crits := [cr "a"; cr "b"]; st_params := p |}.
  Definition wab : smap (@Num.num NumQc) := [("a", q 1 2); ("b", q 1 2)].
  (* a random stream with draws outside the unit interval *)
  Definition env_five : @env NumQc := {| env_streams := [(0%Z, [q 5 1; q 5 1; q 5 1; q 5 1])]; env_exp := [] |}.
  Definition env_one : @env NumQc := {| env_streams := [(0%Z, [q 1 1; q 1 1; q 1 1; q 1 1])]; env_exp := [] |}.

  (** (a) choquetIntegral: a value outside the criteria / a duplicated value key *)
  Definition cap : smap (@Num.num NumQc) := [("a", q 1 2); ("a,b", q 1 1); ("b", q 1 2)].
  Definition pch := @PChoquet NumQc cap [cr "a"; cr "b"].
  Example choquet_extra_value : inv (mk [Ax] [] pch) = true /\ utility_evaluate (mk [Ax] [] pch) = Err EMissing.
  Proof. vm_compute. split; reflexivity. Qed.
  Example choquet_duplicate_key : inv (mk [Ad] [] pch) = true /\ utility_evaluate (mk [Ad] [] pch) = Err EMissing.
  Proof. vm_compute. split; reflexivity. Qed.
  Example choquet_exact_ok : is_ok (utility_evaluate (mk [A1] [] pch)) = true.
  Proof. vm_compute. reflexivity. Qed.
  (* the same from a request, without any bias: [prepare] accepts the extra value *)
  Definition req_choquet : @request NumQc :=
    {| r_method := "choquetIntegral"; r_biases := []; r_seed := 0; r_known := [Ax; A2]; r_chose := ["x"; "y"];
       r_crits := [cr "a"; cr "b"];
       r_mp := {| rp_weights := Some cap; rp_electre := None; rp_dist := None; rp_current := ""; rp_seed := 0;
                  rp_random_order := false; rp_draw := ""; rp_function := "";
                  rp_lparams := {| lp_coef := q 0 1; lp_max := q 0 1; lp_min := q 0 1; lp_ths := [] |} |} |}.
  Example choquet_request_extra_value :
    match biased_state env0 req_choquet with Ok (st, _) => Some (inv st) | Err _ => None end = Some true /\
    match decide env0 req_choquet with Ok _ => None | Err e => Some e end = Some EMissing.
  Proof. vm_compute. split; reflexivity. Qed.

  (** (b) electreIII without a considered alternative *)
  Definition ec0 : @ecrit NumQc :=
    {| ec_k := q 1 1; ec_q := {| lf_a := q 0 1; lf_b := q 1 10 |}; ec_p := {| lf_a := q 0 1; lf_b := q 1 2 |};
       ec_v := {| lf_a := q 0 1; lf_b := q 1 1 |} |}.
  Definition pel := @PElectre NumQc [("a", ec0); ("b", ec0)] default_dist.
  Example electre_no_considered :
    inv (mk [] [A1; A2] pel) = true /\ electre_evaluate (mk [] [A1; A2] pel) = Err EIndex.
  Proof. vm_compute. split; reflexivity. Qed.

  (** (c) majority: unknown current choice, no current choice and nothing considered, a draw of 5 *)
  Definition pmaj cur rnd := @PMajority NumQc wab cur 0 rnd "".
  Example majority_unknown_current :
    inv (mk [A1; A2; A3] [] (pmaj "nobody" false)) = true /\
    majority_evaluate env0 (mk [A1; A2; A3] [] (pmaj "nobody" false)) = Err EMissing.
  Proof. vm_compute. split; reflexivity. Qed.
  Example majority_nothing_considered :
    inv (mk [] [A1; A2; A3] (pmaj "" false)) = true /\
    majority_evaluate env0 (mk [] [A1; A2; A3] (pmaj "" false)) = Err EIndex.
  Proof. vm_compute. split; reflexivity. Qed.
  Example majority_draw_outside_unit :
    inv (mk [A1; A2; A3] [] (pmaj "" true)) = true /\
    majority_evaluate env_five (mk [A1; A2; A3] [] (pmaj "" true)) = Err EIndex /\
    is_ok (majority_evaluate env0 (mk [A1; A2; A3] [] (pmaj "" true))) = true.
  Proof. vm_compute. repeat split; reflexivity. Qed.

  (** (d) aspect elimination: a draw of 5 *)
  Definition lpa : @lparams NumQc := {| lp_coef := q 1 2; lp_max := q 1 1; lp_min := q 0 1; lp_ths := [] |}.
  Definition pasp rnd := @PAspect NumQc "idealMultipliedCoefficient" lpa 0 wab rnd.
  Example aspect_draw_outside_unit :
    inv (mk [A1; A2; A3] [] (pasp true)) = true /\
    aspect_evaluate env_five (mk [A1; A2; A3] [] (pasp true)) = Err EIndex /\
    is_ok (aspect_evaluate env0 (mk [A1; A2; A3] [] (pasp true))) = true.
  Proof. vm_compute. repeat split; reflexivity. Qed.

  (** (e) satisfaction: as majority *)
  Definition lps : @lparams NumQc := {| lp_coef := q 1 2; lp_max := q 1 1; lp_min := q 1 10; lp_ths := [] |}.
  Definition psat cur rnd := @PSatisf NumQc "idealMultipliedCoefficient" lps 0 cur rnd.
  Example satisfaction_unknown_current :
    inv (mk [A1; A2; A3] [] (psat "nobody" false)) = true /\
    satisfaction_evaluate env0 (mk [A1; A2; A3] [] (psat "nobody" false)) = Err EMissing.
  Proof. vm_compute. split; reflexivity. Qed.
  Example satisfaction_nothing_considered :
    inv (mk [] [A1; A2; A3] (psat "" false)) = true /\
    satisfaction_evaluate env0 (mk [] [A1; A2; A3] (psat "" false)) = Err EIndex.
  Proof. vm_compute. split; reflexivity. Qed.
  Example satisfaction_draw_outside_unit :
    inv (mk [A1; A2; A3] [] (psat "" true)) = true /\
    satisfaction_evaluate env_five (mk [A1; A2; A3] [] (psat "" true)) = Err EIndex /\
    is_ok (satisfaction_evaluate env0 (mk [A1; A2; A3] [] (psat "" true))) = true.
  Proof. vm_compute. repeat split; reflexivity. Qed.

  (** (f) the biases.  omission / reversal: the split pivot is clamped to [min,max] only, min = 3 with two
      criteria indexes outside; weightedSum ranks the criteria by looking every held value up; a draw of 5
      in the random ordering *)
  Definition with_bounds (p : @bprops NumQc) (o : string) (mn mx : Z) : @bprops NumQc :=
    {| bp_ordering := o; bp_ratio := bp_ratio p; bp_min := mn; bp_max := mx; bp_seed := bp_seed p;
       bp_scaling := bp_scaling p; bp_nonneg := bp_nonneg p; bp_ref_type := bp_ref_type p;
       bp_ref_importance := bp_ref_importance p; bp_ref_seed := bp_ref_seed p;
       bp_new_scaling := bp_new_scaling p; bp_mix_ratio := bp_mix_ratio p;
       bp_fat_function := bp_fat_function p; bp_fat_value := bp_fat_value p; bp_fat_alpha := bp_fat_alpha p;
       bp_fat_mult := bp_fat_mult p; bp_fat_query := bp_fat_query p;
       bp_anch_alts := bp_anch_alts p; bp_anch_loss := bp_anch_loss p; bp_anch_gain := bp_anch_gain p;
       bp_anch_ref := bp_anch_ref p; bp_anch_applier := bp_anch_applier p;
       bp_anch_not_considered := bp_anch_not_considered p |}.
  Definition pws := @PWs NumQc [(cr "a", q 1 2); (cr "b", q 1 2)].
  Example split_min_above_count :
    inv (mk [A1; A2] [A3] pws) = true /\
    is_ok (apply_omission env0 (mk [A1; A2] [A3] pws) bp0) = true /\
    apply_omission env0 (mk [A1; A2] [A3] pws) (with_bounds bp0 "" 3 10) = Err EIndex /\
    apply_reversal env0 (mk [A1; A2] [A3] pws) (with_bounds bp0 "" 3 10) = Err EIndex.
  Proof. vm_compute. repeat split; reflexivity. Qed.
  Example ws_ranking_extra_value :
    inv (mk [Ax; A2] [A3] pws) = true /\
    apply_omission env0 (mk [Ax; A2] [A3] pws) bp0 = Err EMissing /\
    apply_reversal env0 (mk [Ax; A2] [A3] pws) bp0 = Err EMissing /\
    apply_concealment env0 (mk [Ax; A2] [A3] pws) bp0 = Err EMissing.
  Proof. vm_compute. repeat split; reflexivity. Qed.
  Example random_ordering_draw_outside_unit :
    apply_omission env_five (mk [A1; A2] [A3] pws) (with_bounds bp0 "random" 0 10) = Err EIndex /\
    is_ok (apply_omission env0 (mk [A1; A2] [A3] pws) (with_bounds bp0 "random" 0 10)) = true.
  Proof. vm_compute. split; reflexivity. Qed.

  (** (g) the biases that add a criterion need more than [inv] (not proved total here): a weight already
      stored under the new criterion's name, no criterion at all, the name generator
      ([NotUsedName] counts the criteria with the prefix: "..__1" alone yields "..__1" again),
      and, for mixing, a draw equal to 1 *)
  Definition pmaj_extra := @PMajority NumQc [("__concealedCriterion__", q 1 1); ("a", q 1 2); ("b", q 1 2)] "" 0 false "".
  Example concealment_weight_collision :
    inv (mk [A1; A2] [A3] pmaj_extra) = true /\
    apply_concealment env0 (mk [A1; A2] [A3] pmaj_extra) bp0 = Err ECollision /\
    is_ok (apply_concealment env0 (mk [A1; A2] [A3] (pmaj "" false)) bp0) = true.
  Proof. vm_compute. repeat split; reflexivity. Qed.
  Definition s_nocrit : @state NumQc :=
    {| st_notcons := [A3]; st_cons := [A1; A2]; st_crits := []; st_params := pmaj "" false |}.
  Example concealment_no_criterion : inv s_nocrit = true /\ apply_concealment env0 s_nocrit bp0 = Err EIndex.
  Proof. vm_compute. split; reflexivity. Qed.
  Definition B1 : @alt NumQc := {| a_id := "x"; a_vals := [("__concealedCriterion__1", q 1 1)] |}.
  Definition B2 : @alt NumQc := {| a_id := "y"; a_vals := [("__concealedCriterion__1", q 3 1)] |}.
  Definition s_name : @state NumQc :=
    {| st_notcons := [B2]; st_cons := [B1]; st_crits := [cr "__concealedCriterion__1"];
       st_params := @PMajority NumQc [("__concealedCriterion__1", q 1 1)] "" 0 false "" |}.
  (* history: with the name guess of the pinned tree (defect D9, repaired) this state collided with its own criterion;
     the repaired name generation skips the taken id *)
  Example concealment_name_collision : inv s_name = true /\ is_ok (apply_concealment env0 s_name bp0) = true.
  Proof. vm_compute. split; reflexivity. Qed.
  Example mixing_draw_one :
    apply_mixing env_one (mk [A1; A2] [A3] (pmaj "" false)) bp0 = Err EIndex /\
    is_ok (apply_mixing env0 (mk [A1; A2] [A3] (pmaj "" false)) bp0) = true.
  Proof. vm_compute. split; reflexivity. Qed.
  (** (h) anchoring towards an alternative that is not known *)
  Definition with_anchor (p : @bprops NumQc) (id : string) : @bprops NumQc :=
    {| bp_ordering := bp_ordering p; bp_ratio := bp_ratio p; bp_min := bp_min p; bp_max := bp_max p; bp_seed := bp_seed p;
       bp_scaling := bp_scaling p; bp_nonneg := bp_nonneg p; bp_ref_type := bp_ref_type p;
       bp_ref_importance := bp_ref_importance p; bp_ref_seed := bp_ref_seed p;
       bp_new_scaling := bp_new_scaling p; bp_mix_ratio := bp_mix_ratio p;
       bp_fat_function := bp_fat_function p; bp_fat_value := bp_fat_value p; bp_fat_alpha := bp_fat_alpha p;
       bp_fat_mult := bp_fat_mult p; bp_fat_query := bp_fat_query p;
       bp_anch_alts := [{| aa_id := id; aa_coef := q 1 1 |}]; bp_anch_loss := bp_anch_loss p; bp_anch_gain := bp_anch_gain p;
       bp_anch_ref := bp_anch_ref p; bp_anch_applier := bp_anch_applier p;
       bp_anch_not_considered := bp_anch_not_considered p |}.
  Example anchoring_unknown_alternative :
    apply_anchoring env0 (mk [A1; A2] [A3] pws) (with_anchor bp0 "nobody") = Err EMissing /\
    is_ok (apply_anchoring env0 (mk [A1; A2] [A3] pws) (with_anchor bp0 "z")) = true.
  Proof. vm_compute. split; reflexivity. Qed.
End Witnesses.

(** ** 13. Assumptions *)
Print Assumptions utility_evaluate_total.
Print Assumptions electre_evaluate_total.
Print Assumptions majority_evaluate_total.
Print Assumptions aspect_evaluate_total.
Print Assumptions satisfaction_evaluate_total.
Print Assumptions evaluate_total.
Print Assumptions biased_state_kind.
Print Assumptions biased_evaluate_total_gen.
Print Assumptions biased_evaluate_total.
Print Assumptions decide_error_origin_gen.
Print Assumptions decide_error_origin.
Print Assumptions biased_evaluate_total_ws_owa.
Print Assumptions biased_evaluate_total_electre.
Print Assumptions apply_fatigue_total.
Print Assumptions apply_omission_total.
Print Assumptions apply_reversal_total.
Print Assumptions apply_bias_total_basic.
Print Assumptions apply_anchoring_inline_total.
Print Assumptions apply_bias_total.
Print Assumptions apply_bias_tidy.
Print Assumptions biased_state_tidy.
Print Assumptions biased_evaluate_total_request.
Print Assumptions decide_error_origin_request.
Print Assumptions biased_evaluate_total_heuristics.
Print Assumptions unit_draw_Qc.
Print Assumptions unit_streams_Qc.
Print Assumptions Witnesses.choquet_request_extra_value.
