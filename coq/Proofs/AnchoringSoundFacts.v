(** * C19, soundness of the checker [C19_ok] of Check/BiasCheckers.v: what an accepted anchoring stage means.

    Property text (C19): "Anchoring reduces the anchoring alternatives to a reference point that takes, per criterion,
    the coefficient-weighted best (`ideal`) or worst (`nadir`) value among them, measures every known alternative's
    signed preference difference to it scaled by the criterion's value range, and maps it through the gain function
    when the alternative is better and through the negated loss function otherwise. The `inline` applier adds
    range x (mean mapped difference over reference points) to each criterion value of the considered alternatives
    (and of the others only if asked), reporting exactly new - old; the `newCriterion` applier instead appends one
    criterion per reference point whose value is the reference criterion's mid-range plus half-range x the
    importance-weighted mean of the mapped differences; bounding applies as configured, and with the inline applier
    gain and loss functions that are identically zero leave every value unchanged."

    The checker is evaluated on data OBSERVED from the running program: nothing is assumed about [e p before after rep]
    beyond [C19_ok e p before after rep = true].

    Contents
    - 1. generic bridges: [first_such] (declarative reading of [find]), [list_eqb] as [Forall2], and - on a carrier with
         [OrdLaws], where [nsame] is equality - the comparison functions [alt_same], [crit_same], [params_same], ... as [=];
    - 2. the specification: [C19_common] (reference point, scaling, mapped differences, split), [C19_inline],
         [C19_new], [C19_spec];
    - 3. the conjuncts of the checker ([C19_ok_split]) and their soundness lemmas;
    - 4. [C19_ok_sound] (any carrier with [OrdLaws]);
    - 5. on [NumQc]: [C19_ok_sound_Qc] and the reading of the carrier-level notions ([near_Qc], [scale_of_Qc],
         [mapped_ok_Qc], [at_least_as_good_Qc]); [C19_zero_functions_Qc];
    - 6. non-vacuity: the model's anchoring (both appliers) on a small state is accepted; what the checker does NOT
         test, by examples. *)
From Coq Require Import ZArith Bool List String Lia.
From Coq Require QArith Qcanon Qabs Lqa.
From RDM Require Import Base.Num Base.NumQc Base.Util Model.Data Model.Rank Model.Utility Model.Levels Model.Heuristics
  Model.Electre Model.Listeners Model.Biases Model.Anchoring Check.Stage Check.BiasCheckers
  Proofs.WfFacts Proofs.LevelFacts Proofs.InvFacts.
Import ListNotations.
Local Open Scope string_scope.
Local Open Scope list_scope.

(** ** 1. Generic bridges *)

(** [first_such P l a]: [a] is the first element of [l] that satisfies [P] (what [find] returns). *)
Definition first_such {A} (P : A -> Prop) (l : list A) (a : A) : Prop :=
  exists l1 l2, l = l1 ++ a :: l2 /\ P a /\ forall x, In x l1 -> ~ P x.

Lemma find_first_such {A} (f : A -> bool) (P : A -> Prop) :
  (forall x, f x = true <-> P x) -> forall l a, find f l = Some a <-> first_such P l a.
Proof.
  intros HP. induction l as [|x r IH]; intros a; cbn [find].
  - split; [discriminate|]. intros (l1 & l2 & E & _). destruct l1; discriminate.
  - destruct (f x) eqn:Fx.
    + split.
      * intros H. injection H as <-. exists [], r. split; [reflexivity|]. split; [now apply HP|intros y []].
      * intros (l1 & l2 & E & Pa & Hn). destruct l1 as [|y l1]; cbn [app] in E.
        -- now injection E as ->.
        -- injection E as -> _. exfalso. apply (Hn y); [now left|now apply HP].
    + rewrite IH. split.
      * intros (l1 & l2 & E & Pa & Hn). exists (x :: l1), l2. split; [now rewrite E|]. split; [exact Pa|].
        intros y [<-|Hy]; [|now apply Hn]. intros Px. apply HP in Px. congruence.
      * intros (l1 & l2 & E & Pa & Hn). destruct l1 as [|y l1]; cbn [app] in E.
        -- injection E as -> _. apply HP in Pa. congruence.
        -- injection E as -> E. exists l1, l2. split; [exact E|]. split; [exact Pa|].
           intros z Hz. apply Hn. now right.
Qed.

Lemma first_such_In {A} (P : A -> Prop) l a : first_such P l a -> In a l /\ P a.
Proof. intros (l1 & l2 & -> & Pa & _). split; [apply in_or_app; right; now left|exact Pa]. Qed.

Lemma first_such_unique {A} (P : A -> Prop) l a b : first_such P l a -> first_such P l b -> a = b.
Proof.
  intros (l1 & l2 & E1 & Pa & Na) (m1 & m2 & E2 & Pb & Nb). subst l. revert m1 E2 Nb.
  induction l1 as [|x l1 IH]; intros m1 E2 Nb; destruct m1 as [|y m1]; cbn [app] in E2.
  - now injection E2.
  - injection E2 as -> _. exfalso. apply (Nb y); [now left|exact Pa].
  - injection E2 as <- _. exfalso. apply (Na x); [now left|exact Pb].
  - injection E2 as -> E2. apply (IH (fun z Hz => Na z (or_intror Hz)) m1 E2). intros z Hz. apply Nb. now right.
Qed.

(* on a list with pairwise distinct keys "first" says nothing more than membership *)
Lemma first_such_nodup {A} (key : A -> string) (l : list A) a :
  NoDup (map key l) -> In a l -> first_such (fun x => key x = key a) l a.
Proof.
  intros D Ha. apply in_split in Ha as (l1 & l2 & ->). exists l1, l2. split; [reflexivity|]. split; [reflexivity|].
  intros x Hx E. rewrite map_app in D. cbn [map] in D. apply NoDup_remove_2 in D. apply D.
  apply in_or_app. left. rewrite <- E. now apply in_map.
Qed.

Lemma leqb_F2 {A B} (f : A -> B -> bool) : forall l1 l2,
  list_eqb f l1 l2 = true <-> Forall2 (fun x y => f x y = true) l1 l2.
Proof.
  induction l1 as [|x r IH]; intros [|y s]; cbn [list_eqb]; split; intros H; try discriminate; try constructor;
    try solve [inversion H].
  - now apply andb_true_iff in H as [H _].
  - apply IH. now apply andb_true_iff in H as [_ H].
  - inversion H; subst. apply andb_true_iff. split; [assumption|now apply IH].
Qed.

Lemma leqb_eq {A} (f : A -> A -> bool) : (forall x y, f x y = true -> x = y) ->
  forall l l', list_eqb f l l' = true -> l = l'.
Proof.
  intros Hf l l' H. apply leqb_F2 in H. induction H as [|x y l l' H1 _ IH]; [reflexivity|].
  now rewrite (Hf _ _ H1), IH.
Qed.

Lemma F2_fst {A B} (Q : B -> Prop) (l1 : list A) (l2 : list (A * B)) :
  Forall2 (fun a ad => a = fst ad /\ Q (snd ad)) l1 l2 ->
  map fst l2 = l1 /\ forall ad, In ad l2 -> Q (snd ad).
Proof.
  induction 1 as [|a ad l1 l2 [E HQ] _ [IH1 IH2]]; [split; [reflexivity|intros ? []]|].
  split; [cbn [map]; now rewrite E, IH1|]. intros x [<-|Hx]; [exact HQ|now apply IH2].
Qed.

Lemma F2_imp {A B} (P Q : A -> B -> Prop) l1 l2 :
  (forall x y, P x y -> Q x y) -> Forall2 P l1 l2 -> Forall2 Q l1 l2.
Proof. intros H. induction 1; constructor; auto. Qed.

Lemma find_map_fst {A B} (f : A -> bool) : forall (l : list (A * B)) ad,
  find (fun ad => f (fst ad)) l = Some ad -> find f (map fst l) = Some (fst ad).
Proof.
  induction l as [|x r IH]; intros ad; cbn [find map]; [discriminate|].
  destruct (f (fst x)); [now intros [= <-]|apply IH].
Qed.

Lemma string_eqb_iff (a b : string) : String.eqb a b = true <-> a = b.
Proof. apply String.eqb_eq. Qed.

(** *** the comparison functions are equality where [nsame] is *)
Section SameEq.
  Context {N : Num} {L : OrdLaws N}.

  Lemma smap_same_eq (a b : smap num) : smap_same a b = true -> a = b.
  Proof.
    apply leqb_eq. intros [k v] [k' v'] H. cbn [fst snd] in H. apply andb_true_iff in H as [A B].
    apply String.eqb_eq in A. apply same_eq in B. now subst.
  Qed.

  Lemma alt_same_eq (a b : alt) : alt_same a b = true -> a = b.
  Proof.
    unfold alt_same. intros H. apply andb_true_iff in H as [A B]. apply String.eqb_eq in A. apply smap_same_eq in B.
    destruct a as [i1 v1], b as [i2 v2]. cbn [a_id a_vals] in *. now subst.
  Qed.

  Lemma pair_same_eq (a b : num * num) : pair_same a b = true -> a = b.
  Proof.
    unfold pair_same. intros H. apply andb_true_iff in H as [A B]. apply same_eq in A, B.
    destruct a, b. cbn [fst snd] in *. now subst.
  Qed.

  Lemma ctype_eqb_eq (a b : ctype) : ctype_eqb a b = true -> a = b.
  Proof. destruct a, b; cbn; congruence. Qed.

  Lemma range_same_eq (a b : option (num * num)) : range_same a b = true -> a = b.
  Proof.
    unfold range_same. destruct a as [x|], b as [y|]; cbn [option_eqb]; try discriminate; [|reflexivity].
    intros H. f_equal. now apply pair_same_eq.
  Qed.

  Lemma crit_same_eq (a b : crit) : crit_same a b = true -> a = b.
  Proof.
    unfold crit_same. intros H. apply andb_true_iff in H as [H C]. apply andb_true_iff in H as [A B].
    apply String.eqb_eq in A. apply ctype_eqb_eq in B. apply range_same_eq in C.
    destruct a as [i1 t1 r1], b as [i2 t2 r2]. cbn [c_id c_type c_range] in *. now subst.
  Qed.

  Lemma wcrit_same_eq (a b : wcrit) : wcrit_same a b = true -> a = b.
  Proof.
    unfold wcrit_same. intros H. apply andb_true_iff in H as [A B]. apply crit_same_eq in A. apply same_eq in B.
    destruct a, b. cbn [fst snd] in *. now subst.
  Qed.

  Lemma linfun_same_eq (a b : linfun) : linfun_same a b = true -> a = b.
  Proof.
    unfold linfun_same. intros H. apply andb_true_iff in H as [A B]. apply same_eq in A, B.
    destruct a as [a1 b1], b as [a2 b2]. cbn [lf_a lf_b] in *. now subst.
  Qed.

  Lemma ecrit_same_eq (a b : ecrit) : ecrit_same a b = true -> a = b.
  Proof.
    unfold ecrit_same. intros H. apply andb_true_iff in H as [H D]. apply andb_true_iff in H as [H C].
    apply andb_true_iff in H as [A B]. apply same_eq in A. apply linfun_same_eq in B, C, D.
    destruct a as [k1 q1 p1 v1], b as [k2 q2 p2 v2]. cbn [ec_k ec_q ec_p ec_v] in *. now subst.
  Qed.

  Lemma lparams_same_eq (a b : lparams) : lparams_same a b = true -> a = b.
  Proof.
    unfold lparams_same. intros H. apply andb_true_iff in H as [H D]. apply andb_true_iff in H as [H C].
    apply andb_true_iff in H as [A B]. apply same_eq in A, B, C. apply (leqb_eq _ smap_same_eq) in D.
    destruct a as [c1 x1 n1 t1], b as [c2 x2 n2 t2]. cbn [lp_coef lp_max lp_min lp_ths] in *. now subst.
  Qed.

  Lemma params_same_eq (a b : mparams) : params_same a b = true -> a = b.
  Proof.
    destruct a, b; cbn [params_same]; try discriminate; intros H;
      repeat match type of H with (_ && _) = true => let H' := fresh "H" in apply andb_true_iff in H as [H H'] end.
    - f_equal. now apply (leqb_eq _ wcrit_same_eq).
    - f_equal. now apply (leqb_eq _ wcrit_same_eq).
    - f_equal; [now apply smap_same_eq|now apply (leqb_eq _ crit_same_eq)].
    - f_equal; [|now apply linfun_same_eq]. revert H. apply leqb_eq. intros [k x] [k' y] E. cbn [fst snd] in E.
      apply andb_true_iff in E as [E1 E2]. apply String.eqb_eq in E1. apply ecrit_same_eq in E2. now subst.
    - apply smap_same_eq in H. apply String.eqb_eq in H3, H0. apply Z.eqb_eq in H2. apply Bool.eqb_prop in H1. now subst.
    - apply String.eqb_eq in H. apply lparams_same_eq in H3. apply Z.eqb_eq in H2. apply smap_same_eq in H1.
      apply Bool.eqb_prop in H0. now subst.
    - apply String.eqb_eq in H, H1. apply lparams_same_eq in H3. apply Z.eqb_eq in H2.
      apply Bool.eqb_prop in H0. now subst.
  Qed.

  Lemma option_nsame_eq (a b : option num) : option_eqb nsame a b = true -> a = b.
  Proof.
    destruct a, b; cbn [option_eqb]; try discriminate; [|reflexivity]. intros H. f_equal. now apply same_eq.
  Qed.
End SameEq.

(** ** 2. The specification *)
Section Spec.
  Context {N : Num}.

  (** the alternative that an id denotes in a list: the first one carrying it (with pairwise distinct ids - which the
      checker does not test - simply the one carrying it, see [first_such_nodup]) *)
  Definition alt_with_id (id : string) (l : list alt) (a : alt) : Prop := first_such (fun x => a_id x = id) l a.

  (** *** reference point *)
  (** the candidates for criterion [cid]: (value, coefficient) of every anchoring alternative that is a known alternative *)
  Definition candidate (p : bprops) (all : list alt) (cid : string) (x : num * num) : Prop :=
    exists aa a, In aa (bp_anch_alts p) /\ alt_with_id (aa_id aa) all a /\ x = (val_of a cid, aa_coef aa).

  (** coefficient-weighted value: value x coefficient, for a cost criterion value / coefficient *)
  Definition score (c : crit) (x : num * num) : num :=
    if is_cost c then ndiv (fst x) (snd x) else nmul (fst x) (snd x).

  (** [x] is at least as good as [y] as a reference value: ideal point = largest weighted value of a gain criterion,
      smallest of a cost criterion; nadir point = the reverse *)
  Definition at_least_as_good (nadir : Prop) (c : crit) (x y : num * num) : Prop :=
    if is_cost c
    then (~ nadir -> nleb (score c x) (score c y) = true) /\ (nadir -> nleb (score c y) (score c x) = true)
    else (~ nadir -> nleb (score c y) (score c x) = true) /\ (nadir -> nleb (score c x) (score c y) = true).

  (** [v] is the value of an anchoring alternative, and - when no candidate has a zero coefficient - no candidate is
      strictly better (ideal) / worse (nadir) than it *)
  Definition ref_value_ok (p : bprops) (all : list alt) (c : crit) (v : num) : Prop :=
    exists x, candidate p all (c_id c) x /\ fst x = v /\
      ((forall y, candidate p all (c_id c) y -> neqb (snd y) nzero = false) ->
       forall y, candidate p all (c_id c) y -> at_least_as_good (bp_anch_ref p = rp_nadir) c x y).

  (** *** scaling: 1 / (max - min), 0 for an empty range *)
  Definition scale_of (r : num * num) (sc : num) : Prop :=
    (neqb (range_diff r) nzero = true -> sc = nzero) /\
    (neqb (range_diff r) nzero = false -> sc = ndiv none (range_diff r)).

  (** *** mapped differences *)
  (** the signed preference difference of [a] to the reference point [r] on [c], scaled *)
  Definition scaled_diff (c : crit) (a r : alt) (sc : num) : num :=
    nmul (nsub (sgn c (val_of a (c_id c))) (sgn c (val_of r (c_id c)))) sc.

  (** gain function if better (d > 0), negated loss function of the negated difference otherwise *)
  Definition mapped_ok (e : env) (p : bprops) (d want : num) : Prop :=
    (nltb nzero d = true -> eval_fun e (bp_anch_gain p) d = Ok want) /\
    (nltb nzero d = false -> exists l, eval_fun e (bp_anch_loss p) (nopp d) = Ok l /\ want = nopp l).

  (** the reported mapped differences of one alternative for criterion id [cid], one per reported reference point *)
  Definition column (cid : string) (rds : list (string * smap num)) (ds : list num) : Prop :=
    Forall2 (fun rd x => mget cid (snd rd) = Some x) rds ds.
  Definition mean (ds : list num) : num := ndiv (nsum ds) (nofZ (Z.of_nat (List.length ds))).

  (** what every accepted report says, whatever the applier *)
  Record C19_common (e : env) (p : bprops) (before after : state) (rp : alt)
         (scaling : smap (num * (num * num))) (diffs : list (alt * list (string * smap num))) : Prop := {
    (* the reference point holds, for every criterion, an admissible reference value *)
    c19_reference_point :
      forall c, In c (st_crits before) ->
        exists v, mget (c_id c) (a_vals rp) = Some v /\ ref_value_ok p (all_alts before) c v;
    (* the reported scaling of every criterion: its value range over the known alternatives and 1 / its width *)
    c19_scaling :
      forall c, In c (st_crits before) ->
        exists sc r, mget (c_id c) scaling = Some (sc, r) /\ values_range (all_alts before) c = Ok r /\ scale_of r sc;
    (* the differences are reported for exactly the known alternatives, in their order *)
    c19_diffs_alternatives : map fst diffs = all_alts before;
    (* every reported difference belongs to the reference point and is, up to [near], the mapped scaled difference *)
    c19_mapped_differences :
      forall ad rd, In ad diffs -> In rd (snd ad) ->
        fst rd = a_id rp /\
        forall c, In c (st_crits before) ->
          exists sc r got want,
            mget (c_id c) scaling = Some (sc, r) /\ mget (c_id c) (snd rd) = Some got /\
            mapped_ok e p (scaled_diff c (fst ad) rp sc) want /\ near got want = true;
    (* considered / not considered alternatives keep their places *)
    c19_same_split :
      map a_id (st_cons after) = map a_id (st_cons before) /\ map a_id (st_notcons after) = map a_id (st_notcons before);
  }.

  (** *** inline applier *)
  Definition touched (p : bprops) (before : state) (id : string) : Prop :=
    In id (map a_id (st_cons before)) \/ bp_anch_not_considered p = true.

  Record C19_inline (p : bprops) (before after : state) (scaling : smap (num * (num * num)))
         (diffs : list (alt * list (string * smap num))) (applied : list alt) : Prop := {
    c19i_criteria_unchanged : st_crits after = st_crits before;
    c19i_parameters_unchanged : st_params after = st_params before;
    c19i_not_considered_only_if_asked : bp_anch_not_considered p = false -> st_notcons after = st_notcons before;
    c19i_values :
      forall b, In b (all_alts after) ->
        exists a ad,
          alt_with_id (a_id b) (all_alts before) a /\
          first_such (fun ad => a_id (fst ad) = a_id b) diffs ad /\ fst ad = a /\
          (* not considered and not asked for: unchanged *)
          (~ touched p before (a_id b) -> b = a) /\
          (* otherwise new = bound (old + range x mean mapped difference), and the report is exactly new - old *)
          (touched p before (a_id b) ->
           forall c, In c (st_crits before) ->
             exists sc r ds dd,
               mget (c_id c) scaling = Some (sc, r) /\ column (c_id c) (snd ad) ds /\
               near (val_of b (c_id c))
                    (bound_value p r (nadd (val_of a (c_id c)) (nmul (range_diff r) (mean ds)))) = true /\
               alt_with_id (a_id b) applied dd /\
               val_of dd (c_id c) = nsub (val_of b (c_id c)) (val_of a (c_id c)));
  }.

  (** *** new-criterion applier: one criterion [nc] with reported values [vals] for the one reference point *)
  Definition weighted_mean (ws : list wcrit) (d : smap num) : num :=
    nsum (map (fun w => nmul (snd w) (match mget (c_id (fst w)) d with Some x => x | None => nzero end)) ws).

  Record C19_new (p : bprops) (before after : state) (rp : alt) (scaling : smap (num * (num * num)))
         (diffs : list (alt * list (string * smap num))) (refc nc : crit) (vals : smap num) : Prop := {
    (* the reference criterion is one of the criteria, its reported range is its value range *)
    c19n_reference_criterion :
      exists c0 sc rr, In c0 (st_crits before) /\ c_id c0 = c_id refc /\
                       mget (c_id refc) scaling = Some (sc, rr) /\ values_range (all_alts before) c0 = Ok rr;
    (* exactly one criterion is appended, the new one is not an old one *)
    c19n_one_criterion_appended : exists c', st_crits after = st_crits before ++ [c'];
    c19n_new_id_fresh : ~ In (c_id nc) (map c_id (st_crits before));
    (* the values of the old criteria are kept, alternative by alternative *)
    c19n_old_values_kept :
      Forall2 (fun x y => forall c, In c (st_crits before) -> mget (c_id c) (a_vals x) = mget (c_id c) (a_vals y))
              (all_alts before) (all_alts after);
    (* the state handed on is coherent *)
    c19n_state_coherent :
      alts_cover (all_alts after) (st_crits after) /\ params_cover (st_params after) (st_crits after) = true /\
      NoDup (map c_id (st_crits after));
    (* value = bound (mid-range + half-range x importance-weighted mean of the mapped differences) *)
    c19n_values :
      exists ranked sc rr,
        rank_criteria before = Ok ranked /\ mget (c_id refc) scaling = Some (sc, rr) /\
        near (nsum (map snd (normalize_weights ranked))) none = true /\
        forall b, In b (all_alts after) ->
          exists ad rd,
            first_such (fun ad => a_id (fst ad) = a_id b) diffs ad /\
            first_such (fun rd => fst rd = a_id rp) (snd ad) rd /\
            near (val_of b (c_id nc))
                 (bound_value p rr (nadd (nadd (fst rr) (ndiv (range_diff rr) c_two))
                                         (nmul (ndiv (range_diff rr) c_two)
                                               (weighted_mean (normalize_weights ranked) (snd rd))))) = true /\
            mget (a_id b) vals = mget (c_id nc) (a_vals b);
  }.

  Definition C19_spec (e : env) (p : bprops) (before after : state) (rep : report) : Prop :=
    exists rp scaling diffs ar,
      rep = RAnchoring [rp] scaling diffs ar /\
      C19_common e p before after rp scaling diffs /\
      match ar with
      | ARInline applied => C19_inline p before after scaling diffs applied
      | ARNew refc added =>
          exists nc vals add, added = [(nc, vals, add)] /\ C19_new p before after rp scaling diffs refc nc vals
      end.
End Spec.

(** ** 3. The conjuncts of the checker *)
Section Conjuncts.
  Context {N : Num}.

  Definition cands (p : bprops) (all : list alt) (cid : string) : list (num * num) :=
    flat_map (fun aa => match find_alt (aa_id aa) all with
                        | Some a => [(val_of a cid, aa_coef aa)] | None => [] end) (bp_anch_alts p).

  Definition betterb (p : bprops) (c : crit) (x y : num * num) : bool :=
    if xorb (is_cost c) (String.eqb (bp_anch_ref p) rp_nadir) then nleb (score c x) (score c y)
    else nleb (score c y) (score c x).

  Definition ck_ref_crit (p : bprops) (before : state) (rp : alt) (c : crit) : bool :=
    match mget (c_id c) (a_vals rp) with
    | Some v => existsb (fun x => nsame (fst x) v
                                  && (existsb (fun y => neqb (snd y) nzero) (cands p (all_alts before) (c_id c))
                                      || forallb (fun y => betterb p c x y) (cands p (all_alts before) (c_id c))))
                        (cands p (all_alts before) (c_id c))
    | None => false
    end.

  Definition ck_ref (p : bprops) (before : state) (refs : list alt) : bool :=
    match refs with
    | [rp] => forallb (ck_ref_crit p before rp) (st_crits before)
    | _ => false
    end.

  Definition ck_scaling (before : state) (scaling : smap (num * (num * num))) : bool :=
    forallb (fun c => match mget (c_id c) scaling, values_range (all_alts before) c with
                      | Some (sc, r), Ok r' => pair_same r r'
                                               && nsame sc (if neqb (range_diff r') nzero then nzero else ndiv none (range_diff r'))
                      | _, _ => false
                      end) (st_crits before).

  Definition ck_diff_crit (e : env) (p : bprops) (scaling : smap (num * (num * num))) (a r : alt)
             (rd : string * smap num) (c : crit) : bool :=
    match mget (c_id c) scaling, mget (c_id c) (snd rd) with
    | Some (sc, _), Some got =>
        match mapped_diff e p (scaled_diff c a r sc) with Ok want => near got want | Err _ => false end
    | _, _ => false
    end.

  Definition ck_diffs (e : env) (p : bprops) (before : state) (refs : list alt)
             (scaling : smap (num * (num * num))) (diffs : list (alt * list (string * smap num))) : bool :=
    list_eqb (fun a ad =>
                alt_same a (fst ad)
                && forallb (fun rd => match find_alt (fst rd) refs with
                                      | Some r => forallb (ck_diff_crit e p scaling a r rd) (st_crits before)
                                      | None => false
                                      end) (snd ad))
             (all_alts before) diffs.

  Definition touchedb (p : bprops) (before : state) (id : string) : bool :=
    existsb (fun x => String.eqb (a_id x) id) (st_cons before) || bp_anch_not_considered p.

  Definition ck_inline_crit (p : bprops) (scaling : smap (num * (num * num))) (applied : list alt)
             (a b : alt) (ad : alt * list (string * smap num)) (c : crit) : bool :=
    match mget (c_id c) scaling with
    | Some (_, r) =>
        let ds := flat_map (fun rd => match mget (c_id c) (snd rd) with Some x => [x] | None => [] end) (snd ad) in
        near (val_of b (c_id c)) (bound_value p r (nadd (val_of a (c_id c)) (nmul (range_diff r) (mean ds))))
        && match find_alt (a_id b) applied with
           | Some dd => nsame (val_of dd (c_id c)) (nsub (val_of b (c_id c)) (val_of a (c_id c)))
           | None => false
           end
    | None => false
    end.

  Definition ck_inline_alt (p : bprops) (before : state) (scaling : smap (num * (num * num)))
             (diffs : list (alt * list (string * smap num))) (applied : list alt) (b : alt) : bool :=
    match find_alt (a_id b) (all_alts before), find (fun ad => String.eqb (a_id (fst ad)) (a_id b)) diffs with
    | Some a, Some ad =>
        if negb (touchedb p before (a_id b)) then alt_same a b
        else forallb (ck_inline_crit p scaling applied a b ad) (st_crits before)
    | _, _ => false
    end.

  Definition ck_inline (p : bprops) (before after : state) (scaling : smap (num * (num * num)))
             (diffs : list (alt * list (string * smap num))) (applied : list alt) : bool :=
    list_eqb crit_same (st_crits before) (st_crits after) && params_same (st_params before) (st_params after)
    && (bp_anch_not_considered p || list_eqb alt_same (st_notcons before) (st_notcons after))
    && forallb (ck_inline_alt p before scaling diffs applied) (all_alts after).

  Definition ck_new_alt (p : bprops) (diffs : list (alt * list (string * smap num))) (ws : list wcrit)
             (rr : num * num) (nc : crit) (vals : smap num) (rid : string) (b : alt) : bool :=
    match find (fun ad => String.eqb (a_id (fst ad)) (a_id b)) diffs with
    | Some ad =>
        match find (fun rd => String.eqb (fst rd) rid) (snd ad) with
        | Some rd =>
            near (val_of b (c_id nc))
                 (bound_value p rr (nadd (nadd (fst rr) (ndiv (range_diff rr) c_two))
                                         (nmul (ndiv (range_diff rr) c_two) (weighted_mean ws (snd rd)))))
            && option_eqb nsame (mget (a_id b) vals) (mget (c_id nc) (a_vals b))
        | None => false
        end
    | None => false
    end.

  Definition ck_new (p : bprops) (before after : state) (refs : list alt) (scaling : smap (num * (num * num)))
             (diffs : list (alt * list (string * smap num))) (refc : crit) (added : list (crit * smap num * addition)) : bool :=
    has_crit (c_id refc) (st_crits before)
    && Nat.eqb (List.length added) (List.length refs)
    && Nat.eqb (List.length (st_crits after)) (List.length (st_crits before) + List.length added)
    && is_prefix_crits (st_crits before) (st_crits after)
    && values_kept (st_crits before) before after
    && inv after
    && match rank_criteria before, mget (c_id refc) scaling with
       | Ok ranked, Some (_, rr) =>
           near (nsum (map snd (normalize_weights ranked))) none
           && forallb (fun nr => let '(nc, vals, _) := fst nr in
                                 negb (has_crit (c_id nc) (st_crits before))
                                 && forallb (ck_new_alt p diffs (normalize_weights ranked) rr nc vals (snd nr)) (all_alts after))
                      (zip added (map a_id refs))
       | _, _ => false
       end.

  Lemma C19_ok_split e p before after rep :
    C19_ok e p before after rep =
    match rep with
    | RAnchoring refs scaling diffs ar =>
        ck_ref p before refs && ck_scaling before scaling && ck_diffs e p before refs scaling diffs
        && same_split before after
        && match ar with
           | ARInline applied => ck_inline p before after scaling diffs applied
           | ARNew refc added => ck_new p before after refs scaling diffs refc added
           end
    | _ => false
    end.
  Proof. destruct rep as [| | | | | |refs scaling diffs [applied|refc added]]; reflexivity. Qed.
End Conjuncts.

(** *** soundness of the conjuncts that need no law *)
Section ConjunctsSound0.
  Context {N : Num}.

  Lemma find_alt_iff (id : string) (l : list alt) a : find_alt id l = Some a <-> alt_with_id id l a.
  Proof. unfold find_alt, alt_with_id. apply find_first_such. intros x. apply String.eqb_eq. Qed.

  Lemma cands_iff p all cid x : In x (cands p all cid) <-> candidate p all cid x.
  Proof.
    unfold cands, candidate. rewrite in_flat_map. split.
    - intros (aa & Haa & Hx). destruct (find_alt (aa_id aa) all) as [a|] eqn:F; [|destruct Hx].
      destruct Hx as [<-|[]]. exists aa, a. split; [exact Haa|]. split; [now apply find_alt_iff|reflexivity].
    - intros (aa & a & Haa & Ha & ->). exists aa. split; [exact Haa|]. apply find_alt_iff in Ha. rewrite Ha. now left.
  Qed.

  Lemma betterb_sound p c x y : betterb p c x y = true -> at_least_as_good (bp_anch_ref p = rp_nadir) c x y.
  Proof.
    unfold betterb, at_least_as_good. destruct (is_cost c); destruct (String.eqb (bp_anch_ref p) rp_nadir) eqn:E;
      cbn [xorb]; intros H; (apply String.eqb_eq in E || apply String.eqb_neq in E); split; intros A;
      solve [exact H|contradiction].
  Qed.

  Lemma touchedb_iff p before id : touchedb p before id = true <-> touched p before id.
  Proof.
    unfold touchedb, touched. rewrite orb_true_iff, existsb_exists, in_map_iff. split.
    - intros [(x & Hx & E)|H]; [left|now right]. apply String.eqb_eq in E. now exists x.
    - intros [(x & E & Hx)|H]; [left|now right]. exists x. split; [exact Hx|now apply String.eqb_eq].
  Qed.

  Lemma mapped_diff_sound e p d want : mapped_diff e p d = Ok want -> mapped_ok e p d want.
  Proof.
    unfold mapped_diff, mapped_ok. destruct (nltb nzero d).
    - intros H. split; [intros _; exact H|discriminate].
    - intros H. split; [discriminate|intros _].
      destruct (eval_fun e (bp_anch_loss p) (nopp d)) as [l|er]; cbn [bind] in H; [|discriminate].
      injection H as <-. now exists l.
  Qed.

  Lemma column_flat_map cid (rds : list (string * smap num)) :
    (forall rd, In rd rds -> exists x, mget cid (snd rd) = Some x) ->
    column cid rds (flat_map (fun rd => match mget cid (snd rd) with Some x => [x] | None => [] end) rds).
  Proof.
    unfold column. induction rds as [|rd r IH]; intros H; cbn [flat_map]; [constructor|].
    destruct (H rd (or_introl eq_refl)) as [x Hx]. rewrite Hx. cbn [app]. constructor; [exact Hx|].
    apply IH. intros y Hy. apply H. now right.
  Qed.

  Lemma has_crit_In id (cs : list crit) : has_crit id cs = true <-> In id (map c_id cs).
  Proof.
    unfold has_crit. rewrite existsb_exists, in_map_iff. split.
    - intros (c & Hc & E). apply String.eqb_eq in E. now exists c.
    - intros (c & E & Hc). exists c. split; [exact Hc|now apply String.eqb_eq].
  Qed.

  Lemma same_split_sound before after : same_split before after = true ->
    map a_id (st_cons after) = map a_id (st_cons before) /\ map a_id (st_notcons after) = map a_id (st_notcons before).
  Proof.
    unfold same_split. intros H. apply andb_true_iff in H as [A B].
    apply (leqb_eq _ (fun x y => proj1 (String.eqb_eq x y))) in A, B. now split.
  Qed.
End ConjunctsSound0.

(** *** soundness of the conjuncts where the checker compares with [nsame] *)
Section ConjunctsSound.
  Context {N : Num} {L : OrdLaws N}.

  Lemma ck_ref_crit_sound p before rp c : ck_ref_crit p before rp c = true ->
    exists v, mget (c_id c) (a_vals rp) = Some v /\ ref_value_ok p (all_alts before) c v.
  Proof.
    unfold ck_ref_crit. destruct (mget (c_id c) (a_vals rp)) as [v|]; [|discriminate]. intros H.
    exists v. split; [reflexivity|]. apply existsb_exists in H as (x & Hx & H).
    apply andb_true_iff in H as [E H]. apply same_eq in E. exists x. split; [now apply cands_iff|]. split; [exact E|].
    intros NZ y Hy. apply orb_true_iff in H as [H|H].
    - apply existsb_exists in H as (z & Hz & Z). apply cands_iff in Hz. rewrite (NZ z Hz) in Z. discriminate.
    - rewrite forallb_forall in H. apply betterb_sound, H. now apply cands_iff.
  Qed.

  Lemma ck_ref_sound p before refs : ck_ref p before refs = true ->
    exists rp, refs = [rp] /\
      forall c, In c (st_crits before) ->
        exists v, mget (c_id c) (a_vals rp) = Some v /\ ref_value_ok p (all_alts before) c v.
  Proof.
    unfold ck_ref. destruct refs as [|rp [|? ?]]; try discriminate. intros H. exists rp. split; [reflexivity|].
    rewrite forallb_forall in H. intros c Hc. apply ck_ref_crit_sound, H, Hc.
  Qed.

  Lemma ck_scaling_sound before scaling : ck_scaling before scaling = true ->
    forall c, In c (st_crits before) ->
      exists sc r, mget (c_id c) scaling = Some (sc, r) /\ values_range (all_alts before) c = Ok r /\ scale_of r sc.
  Proof.
    unfold ck_scaling. rewrite forallb_forall. intros H c Hc. specialize (H c Hc).
    destruct (mget (c_id c) scaling) as [[sc r]|]; [|discriminate].
    destruct (values_range (all_alts before) c) as [r'|er]; [|discriminate].
    apply andb_true_iff in H as [A B]. apply pair_same_eq in A. apply same_eq in B. subst r'.
    exists sc, r. split; [reflexivity|]. split; [reflexivity|]. unfold scale_of.
    destruct (neqb (range_diff r) nzero); split; intros E; solve [exact B|discriminate].
  Qed.

  Lemma ck_diff_crit_sound e p scaling a r rd c : ck_diff_crit e p scaling a r rd c = true ->
    exists sc rg got want,
      mget (c_id c) scaling = Some (sc, rg) /\ mget (c_id c) (snd rd) = Some got /\
      mapped_ok e p (scaled_diff c a r sc) want /\ near got want = true.
  Proof.
    unfold ck_diff_crit. destruct (mget (c_id c) scaling) as [[sc rg]|]; [|discriminate].
    destruct (mget (c_id c) (snd rd)) as [got|]; [|discriminate].
    destruct (mapped_diff e p (scaled_diff c a r sc)) as [want|er] eqn:M; [|discriminate].
    intros H. exists sc, rg, got, want. split; [reflexivity|]. split; [reflexivity|]. split; [now apply mapped_diff_sound|exact H].
  Qed.

  Lemma ck_diffs_sound e p before rp scaling diffs : ck_diffs e p before [rp] scaling diffs = true ->
    map fst diffs = all_alts before /\
    forall ad rd, In ad diffs -> In rd (snd ad) ->
      fst rd = a_id rp /\
      forall c, In c (st_crits before) ->
        exists sc r got want,
          mget (c_id c) scaling = Some (sc, r) /\ mget (c_id c) (snd rd) = Some got /\
          mapped_ok e p (scaled_diff c (fst ad) rp sc) want /\ near got want = true.
  Proof.
    unfold ck_diffs. intros H. apply leqb_F2 in H.
    apply (F2_imp _ (fun a ad => a = fst ad /\
             (fun rds => forall rd, In rd rds -> fst rd = a_id rp /\
                forall c, In c (st_crits before) ->
                  exists sc r got want,
                    mget (c_id c) scaling = Some (sc, r) /\ mget (c_id c) (snd rd) = Some got /\
                    mapped_ok e p (scaled_diff c a rp sc) want /\ near got want = true) (snd ad))) in H.
    - (* the alternative of each entry is the known alternative at the same place *)
      assert (H' : Forall2 (fun a ad => a = fst ad /\
                (fun ad => forall rd, In rd (snd ad) -> fst rd = a_id rp /\
                   forall c, In c (st_crits before) ->
                     exists sc r got want,
                       mget (c_id c) scaling = Some (sc, r) /\ mget (c_id c) (snd rd) = Some got /\
                       mapped_ok e p (scaled_diff c (fst ad) rp sc) want /\ near got want = true) ad)
                (all_alts before) diffs).
      { eapply F2_imp; [|exact H]. cbv beta. intros a ad [-> Q]. split; [reflexivity|exact Q]. }
      clear H. induction H' as [|a ad l1 l2 [E Q] _ [IH1 IH2]]; [split; [reflexivity|intros ? ? []]|].
      split; [cbn [map]; now rewrite E, IH1|]. intros x rd [<-|Hx] Hrd; [now apply Q|now apply IH2].
    - intros a ad Hc. apply andb_true_iff in Hc as [A B]. apply alt_same_eq in A. split; [exact A|].
      rewrite forallb_forall in B. intros rd Hrd. specialize (B rd Hrd).
      unfold find_alt in B. cbn [find] in B. destruct (String.eqb (a_id rp) (fst rd)) eqn:E; [|discriminate].
      apply String.eqb_eq in E. split; [now symmetry|]. rewrite forallb_forall in B.
      intros c Hc. apply ck_diff_crit_sound, B, Hc.
  Qed.
End ConjunctsSound.

Section AppliersSound.
  Context {N : Num} {L : OrdLaws N}.

  Lemma ck_inline_crit_sound p scaling applied a b ad c :
    (forall rd, In rd (snd ad) -> exists x, mget (c_id c) (snd rd) = Some x) ->
    ck_inline_crit p scaling applied a b ad c = true ->
    exists sc r ds dd,
      mget (c_id c) scaling = Some (sc, r) /\ column (c_id c) (snd ad) ds /\
      near (val_of b (c_id c)) (bound_value p r (nadd (val_of a (c_id c)) (nmul (range_diff r) (mean ds)))) = true /\
      alt_with_id (a_id b) applied dd /\
      val_of dd (c_id c) = nsub (val_of b (c_id c)) (val_of a (c_id c)).
  Proof.
    intros Hcol. unfold ck_inline_crit. destruct (mget (c_id c) scaling) as [[sc r]|]; [|discriminate].
    cbv zeta. intros H. apply andb_true_iff in H as [A B].
    destruct (find_alt (a_id b) applied) as [dd|] eqn:F; [|discriminate]. apply same_eq in B.
    exists sc, r, (flat_map (fun rd => match mget (c_id c) (snd rd) with Some x => [x] | None => [] end) (snd ad)), dd.
    split; [reflexivity|]. split; [now apply column_flat_map|]. split; [exact A|]. split; [now apply find_alt_iff|exact B].
  Qed.

  Lemma ck_inline_sound p before after scaling diffs applied :
    map fst diffs = all_alts before ->
    (forall ad rd, In ad diffs -> In rd (snd ad) -> forall c, In c (st_crits before) ->
                   exists x, mget (c_id c) (snd rd) = Some x) ->
    ck_inline p before after scaling diffs applied = true -> C19_inline p before after scaling diffs applied.
  Proof.
    intros Hfst Hkeys H. unfold ck_inline in H.
    apply andb_true_iff in H as [H Hv]. apply andb_true_iff in H as [H Hn]. apply andb_true_iff in H as [Hcr Hp].
    apply (leqb_eq _ crit_same_eq) in Hcr. apply params_same_eq in Hp. constructor.
    - now symmetry.
    - now symmetry.
    - intros E. rewrite E in Hn. cbn [orb] in Hn. apply (leqb_eq _ alt_same_eq) in Hn. now symmetry.
    - rewrite forallb_forall in Hv. intros b Hb. specialize (Hv b Hb). unfold ck_inline_alt in Hv.
      destruct (find_alt (a_id b) (all_alts before)) as [a|] eqn:Fa; [|discriminate].
      destruct (find (fun ad => String.eqb (a_id (fst ad)) (a_id b)) diffs) as [ad|] eqn:Fd; [|discriminate].
      assert (Ead : fst ad = a).
      { apply (find_map_fst (fun x => String.eqb (a_id x) (a_id b))) in Fd. rewrite Hfst in Fd.
        unfold find_alt in Fa. congruence. }
      assert (Had : first_such (fun ad => a_id (fst ad) = a_id b) diffs ad).
      { revert Fd. apply find_first_such. intros x. apply String.eqb_eq. }
      exists a, ad. split; [now apply find_alt_iff|]. split; [exact Had|]. split; [exact Ead|].
      destruct (touchedb p before (a_id b)) eqn:T; cbn [negb] in Hv.
      + split; [intros NT; exfalso; apply NT; now apply touchedb_iff|]. intros _ c Hc.
        rewrite forallb_forall in Hv. apply ck_inline_crit_sound; [|now apply Hv].
        intros rd Hrd. apply (Hkeys ad rd); [now apply (first_such_In _ _ _ Had)|exact Hrd|exact Hc].
      + split; [intros _; symmetry; now apply alt_same_eq|].
        intros HT. apply touchedb_iff in HT. congruence.
  Qed.

  Lemma prefix_plus_one (a b : list crit) :
    is_prefix_crits a b = true -> List.length b = List.length a + 1 -> exists c', b = a ++ [c'].
  Proof.
    unfold is_prefix_crits. intros H Hl. apply (leqb_eq _ crit_same_eq) in H.
    pose proof (firstn_skipn (List.length a) b) as E. rewrite <- H in E.
    assert (Ls : List.length (skipn (List.length a) b) = 1) by (rewrite skipn_length; lia).
    destruct (skipn (List.length a) b) as [|c' [|? ?]]; try discriminate. now exists c'.
  Qed.

  Lemma values_kept_sound cs before after : values_kept cs before after = true ->
    Forall2 (fun x y => forall c, In c cs -> mget (c_id c) (a_vals x) = mget (c_id c) (a_vals y))
            (all_alts before) (all_alts after).
  Proof.
    unfold values_kept. intros H. apply leqb_F2 in H. eapply F2_imp; [|exact H]. cbv beta.
    intros x y Hxy c Hc. rewrite forallb_forall in Hxy. apply option_nsame_eq, Hxy, Hc.
  Qed.

  Lemma ck_new_alt_sound p diffs ws rr nc vals rid b : ck_new_alt p diffs ws rr nc vals rid b = true ->
    exists ad rd,
      first_such (fun ad => a_id (fst ad) = a_id b) diffs ad /\
      first_such (fun rd => fst rd = rid) (snd ad) rd /\
      near (val_of b (c_id nc))
           (bound_value p rr (nadd (nadd (fst rr) (ndiv (range_diff rr) c_two))
                                   (nmul (ndiv (range_diff rr) c_two) (weighted_mean ws (snd rd))))) = true /\
      mget (a_id b) vals = mget (c_id nc) (a_vals b).
  Proof.
    unfold ck_new_alt.
    destruct (find (fun ad => String.eqb (a_id (fst ad)) (a_id b)) diffs) as [ad|] eqn:Fd; [|discriminate].
    destruct (find (fun rd => String.eqb (fst rd) rid) (snd ad)) as [rd|] eqn:Fr; [|discriminate].
    intros H. apply andb_true_iff in H as [A B]. apply option_nsame_eq in B. exists ad, rd.
    split; [revert Fd; apply find_first_such; intros x; apply String.eqb_eq|].
    split; [revert Fr; apply find_first_such; intros x; apply String.eqb_eq|]. now split.
  Qed.

  Lemma ck_new_sound p before after rp scaling diffs refc added :
    (forall c, In c (st_crits before) ->
       exists sc r, mget (c_id c) scaling = Some (sc, r) /\ values_range (all_alts before) c = Ok r /\ scale_of r sc) ->
    ck_new p before after [rp] scaling diffs refc added = true ->
    exists nc vals add, added = [(nc, vals, add)] /\ C19_new p before after rp scaling diffs refc nc vals.
  Proof.
    intros Hsc H. unfold ck_new in H.
    apply andb_true_iff in H as [H Hval]. apply andb_true_iff in H as [H Hinv]. apply andb_true_iff in H as [H Hkept].
    apply andb_true_iff in H as [H Hpre]. apply andb_true_iff in H as [H Hlen]. apply andb_true_iff in H as [Href Hone].
    apply Nat.eqb_eq in Hone, Hlen. cbn [List.length] in Hone.
    destruct added as [|[[nc vals] add] [|? ?]]; try discriminate. clear Hone. cbn [List.length] in Hlen.
    exists nc, vals, add. split; [reflexivity|].
    destruct (rank_criteria before) as [ranked|er] eqn:Hr; [|discriminate].
    destruct (mget (c_id refc) scaling) as [[sc rr]|] eqn:Hm; [|discriminate].
    apply andb_true_iff in Hval as [Hsum Hval]. cbn [zip map forallb fst snd] in Hval.
    rewrite andb_true_r in Hval. apply andb_true_iff in Hval as [Hfresh Hval].
    apply has_crit_In in Href. constructor.
    - apply in_map_iff in Href as (c0 & E0 & Hc0). destruct (Hsc c0 Hc0) as (sc' & r' & M' & V' & _).
      rewrite E0, Hm in M'. injection M' as <- <-. exists c0, sc, rr. repeat split; assumption.
    - now apply prefix_plus_one.
    - intros Hin. apply has_crit_In in Hin. rewrite Hin in Hfresh. discriminate.
    - now apply values_kept_sound.
    - now apply inv_iff.
    - exists ranked, sc, rr. split; [exact Hr|]. split; [exact Hm|]. split; [exact Hsum|].
      rewrite forallb_forall in Hval. intros b Hb. apply ck_new_alt_sound, Hval, Hb.
  Qed.
End AppliersSound.

(** ** 4. Soundness of the checker *)
Section Sound.
  Context {N : Num} {L : OrdLaws N}.

  Theorem C19_ok_sound (e : env) (p : bprops) (before after : state) (rep : report) :
    C19_ok e p before after rep = true -> C19_spec e p before after rep.
  Proof.
    rewrite C19_ok_split. destruct rep as [| | | | | |refs scaling diffs ar]; try discriminate. intros H.
    apply andb_true_iff in H as [H Har]. apply andb_true_iff in H as [H Hsplit]. apply andb_true_iff in H as [H Hdiffs].
    apply andb_true_iff in H as [Href Hscal].
    apply ck_ref_sound in Href as (rp & -> & Href).
    pose proof (ck_scaling_sound _ _ Hscal) as Hsc.
    apply ck_diffs_sound in Hdiffs as [Hfst Hd].
    exists rp, scaling, diffs, ar. split; [reflexivity|]. split.
    - constructor; [exact Href|exact Hsc|exact Hfst|exact Hd|now apply same_split_sound].
    - destruct ar as [applied|refc added].
      + apply ck_inline_sound; [exact Hfst| |exact Har].
        intros ad rd Had Hrd c Hc. destruct (Hd ad rd Had Hrd) as [_ Hx].
        destruct (Hx c Hc) as (sc & r & got & want & _ & G & _). now exists got.
      + now apply ck_new_sound.
  Qed.
End Sound.

(** ** 5. On the exact rationals *)
Section OnQc.
  Import QArith Qcanon Qabs Lqa.
  Local Open Scope Qc_scope.

  Corollary C19_ok_sound_Qc (e : @env NumQc) (p : @bprops NumQc) (before after : @state NumQc) (rep : @report NumQc) :
    C19_ok e p before after rep = true -> C19_spec e p before after rep.
  Proof. apply (C19_ok_sound (L := OrdQc)). Qed.

  (** *** reading the carrier-level notions of the specification *)
  Lemma qc_abs_le (x t : Qc) : qc_abs x <= t <-> - t <= x /\ x <= t.
  Proof.
    unfold Qcle. assert (E : (this (qc_abs x) == Qabs (this x))%Q) by (unfold qc_abs, Q2Qc; cbn [this]; apply Qred_correct).
    rewrite E, this_opp. apply Qabs_Qle_condition.
  Qed.

  (** the tolerance of [near _ b]: 1.5e-8 + 1e-9 |b| *)
  Definition tol (b : Qc) : Qc := Q2Qc (15 # 1000000000) + Q2Qc (1 # 1000000000) * qc_abs b.

  Lemma near_Qc (a b : Qc) : @near NumQc a b = true <-> - tol b <= a - b /\ a - b <= tol b.
  Proof. unfold near, approx8. rewrite nleb_iff. apply qc_abs_le. Qed.

  Lemma scale_of_Qc (r : Qc * Qc) (sc : Qc) :
    @scale_of NumQc r sc <-> (snd r - fst r = 0 -> sc = 0) /\ (snd r - fst r <> 0 -> sc = 1 / (snd r - fst r)).
  Proof. unfold scale_of, range_diff. rewrite neqb_iff, neqb_false_iff. reflexivity. Qed.

  Lemma mapped_ok_Qc (e : @env NumQc) (p : @bprops NumQc) (d want : Qc) :
    mapped_ok e p d want <->
    (0 < d -> eval_fun e (bp_anch_gain p) d = Ok want) /\
    (d <= 0 -> exists l, eval_fun e (bp_anch_loss p) (- d) = Ok l /\ want = - l).
  Proof. unfold mapped_ok. rewrite nltb_iff, nltb_false_iff. reflexivity. Qed.

  Lemma at_least_as_good_Qc (nadir : Prop) (c : @crit NumQc) (x y : Qc * Qc) :
    at_least_as_good nadir c x y <->
    if is_cost c
    then (~ nadir -> fst x / snd x <= fst y / snd y) /\ (nadir -> fst y / snd y <= fst x / snd x)
    else (~ nadir -> fst y * snd y <= fst x * snd x) /\ (nadir -> fst x * snd x <= fst y * snd y).
  Proof. unfold at_least_as_good, score. destruct (is_cost c); rewrite !nleb_iff; reflexivity. Qed.

  Lemma scaled_diff_Qc (c : @crit NumQc) (a r : @alt NumQc) (sc : Qc) :
    scaled_diff c a r sc = (sgn c (val_of a (c_id c)) - sgn c (val_of r (c_id c))) * sc.
  Proof. reflexivity. Qed.

  (** *** the last clause of the text: gain and loss functions that are identically zero.
      What the checker guarantees then is that every reported mapped difference is 0 up to the absolute tolerance;
      the new values are [near] [bound (old + range x mean of these)] by [c19i_values]. *)
  Theorem C19_zero_functions_Qc (e : @env NumQc) (p : @bprops NumQc) (before after : @state NumQc)
          (rep : @report NumQc) :
    (forall x, eval_fun e (bp_anch_gain p) x = Ok 0) -> (forall x, eval_fun e (bp_anch_loss p) x = Ok 0) ->
    C19_ok e p before after rep = true ->
    exists rp scaling diffs ar, rep = RAnchoring [rp] scaling diffs ar /\
      forall ad rd c, In ad diffs -> In rd (snd ad) -> In c (st_crits before) ->
        exists got, mget (c_id c) (snd rd) = Some got /\
                    - Q2Qc (15 # 1000000000) <= got /\ got <= Q2Qc (15 # 1000000000).
  Proof.
    intros Hg Hl H. apply C19_ok_sound_Qc in H as (rp & scaling & diffs & ar & -> & Hc & _).
    exists rp, scaling, diffs, ar. split; [reflexivity|]. intros ad rd c Had Hrd Hcr.
    destruct (c19_mapped_differences _ _ _ _ _ _ _ Hc ad rd Had Hrd) as [_ Hx].
    destruct (Hx c Hcr) as (sc & r & got & want & _ & G & M & Hn). exists got. split; [exact G|].
    assert (W : want = 0).
    { destruct M as [M1 M2]. destruct (@nltb NumQc nzero (scaled_diff c (fst ad) rp sc)) eqn:E.
      - specialize (M1 eq_refl). rewrite Hg in M1. now injection M1.
      - destruct (M2 eq_refl) as (l & El & ->). rewrite Hl in El. injection El as <-. reflexivity. }
    subst want. apply near_Qc in Hn. unfold tol in Hn.
    replace (qc_abs 0) with 0 in Hn by (apply Qc_is_canon; reflexivity).
    assert (X : got - 0 = got) by ring.
    assert (Y : Q2Qc (15 # 1000000000) + Q2Qc (1 # 1000000000) * 0 = Q2Qc (15 # 1000000000)) by ring.
    rewrite X, Y in Hn. exact Hn.
  Qed.
End OnQc.

(** ** 6. Non-vacuity, and what the checker does not test *)
Module Examples.
  Section Gen.
    Context {N : Num}.
    Definition z (n : Z) : num := nofZ n.
    Definition lin (a b : num) : fparams :=
      {| fp_name := "linear"; fp_a := a; fp_b := b; fp_alpha := nzero; fp_mult := nzero |}.
    (* anchoring alternatives "x" (coefficient 1) and "y" (coefficient 2); gain d -> d, loss d -> 2 d;
       bounding to the value range widened by 2 about its centre *)
    Definition props (gain loss : fparams) (ref applier : string) (nc : bool) : bprops := {|
      bp_ordering := ""; bp_ratio := c_half; bp_min := 1; bp_max := 1; bp_seed := 0;
      bp_scaling := c_two; bp_nonneg := false; bp_ref_type := ""; bp_ref_importance := c_half; bp_ref_seed := 0;
      bp_new_scaling := none; bp_mix_ratio := c_half;
      bp_fat_function := "const"; bp_fat_value := nzero; bp_fat_alpha := nzero; bp_fat_mult := nzero; bp_fat_query := 0;
      bp_anch_alts := [{| aa_id := "x"; aa_coef := z 1 |}; {| aa_id := "y"; aa_coef := z 2 |}];
      bp_anch_loss := loss; bp_anch_gain := gain;
      bp_anch_ref := ref; bp_anch_applier := applier; bp_anch_not_considered := nc |}.
    Definition props1 := props (lin (z 1) nzero) (lin (z 2) nzero).
    Definition env0 : env :=
      {| env_streams := [(0%Z, [c_half; ndiv (z 1) (z 3); ndiv (z 1) (z 4); ndiv (z 1) (z 5)])]; env_exp := [] |}.
    Definition cr (id : string) (t : ctype) : crit := {| c_id := id; c_type := t; c_range := None |}.
    Definition al (id : string) (a b : Z) : alt := {| a_id := id; a_vals := [("a", z a); ("b", z b)] |}.
    (* criteria "a" (gain) and "b" (cost); "x", "y" considered, "w" not *)
    Definition s0 : state :=
      {| st_notcons := [al "w" 2 3]; st_cons := [al "x" 1 2; al "y" 3 6];
         st_crits := [cr "a" TGain; cr "b" TCost];
         st_params := PWs [(cr "a" TGain, z 1); (cr "b" TCost, z 2)] |}.

    (* the model's anchoring, judged by the checker *)
    Definition accepted (ref applier : string) (nc : bool) : bool :=
      match apply_anchoring env0 s0 (props1 ref applier nc) with
      | Ok (st, rep) => C19_ok env0 (props1 ref applier nc) s0 st rep
      | Err _ => false
      end.

    (* a stage that changes nothing and reports NO difference at all for the reference point (inline applier):
       reference point and scaling as the model reports them, empty difference lists, applied differences 0 *)
    Definition no_differences : bool :=
      match apply_anchoring env0 s0 (props1 "ideal" "inline" true) with
      | Ok (_, RAnchoring refs scaling diffs _) =>
          C19_ok env0 (props1 "ideal" "inline" true) s0 s0
                 (RAnchoring refs scaling (map (fun ad => (fst ad, [])) diffs)
                             (ARInline (map (fun a => {| a_id := a_id a; a_vals := [] |}) (all_alts s0))))
      | _ => false
      end.
  End Gen.

  (** the hypothesis of [C19_ok_sound] is satisfiable: ideal / nadir point, both appliers, others asked / not asked *)
  Example model_accepted :
    (@accepted NumQc "ideal" "inline" true, @accepted NumQc "nadir" "inline" false,
     @accepted NumQc "ideal" "newCriterion" true, @accepted NumQc "nadir" "newCriterion" false) = (true, true, true, true).
  Proof. vm_compute. reflexivity. Qed.

  Example spec_inhabited_inline :
    exists st rep, @apply_anchoring NumQc env0 s0 (props1 "nadir" "inline" false) = Ok (st, rep) /\
                   C19_spec env0 (props1 "nadir" "inline" false) s0 st rep.
  Proof.
    destruct (@apply_anchoring NumQc env0 s0 (props1 "nadir" "inline" false)) as [[st rep]|er] eqn:E.
    - exists st, rep. split; [reflexivity|]. apply C19_ok_sound_Qc.
      assert (A : @accepted NumQc "nadir" "inline" false = true) by (vm_compute; reflexivity).
      unfold accepted in A. rewrite E in A. exact A.
    - exfalso. revert E. vm_compute. discriminate.
  Qed.

  Example spec_inhabited_new :
    exists st rep, @apply_anchoring NumQc env0 s0 (props1 "ideal" "newCriterion" true) = Ok (st, rep) /\
                   C19_spec env0 (props1 "ideal" "newCriterion" true) s0 st rep.
  Proof.
    destruct (@apply_anchoring NumQc env0 s0 (props1 "ideal" "newCriterion" true)) as [[st rep]|er] eqn:E.
    - exists st, rep. split; [reflexivity|]. apply C19_ok_sound_Qc.
      assert (A : @accepted NumQc "ideal" "newCriterion" true = true) by (vm_compute; reflexivity).
      unfold accepted in A. rewrite E in A. exact A.
    - exfalso. revert E. vm_compute. discriminate.
  Qed.

  (** the hypotheses of [C19_zero_functions_Qc] are satisfiable: the linear function 0 x + 0 *)
  Example zero_function_evaluates_to_zero (e : @env NumQc) (x : @num NumQc) :
    eval_fun e (lin nzero nzero) x = Ok (@nzero NumQc).
  Proof. reflexivity. Qed.

  (** NOT tested (inline applier): that the difference list of an alternative has an entry for the reference point.
      With an empty list the mean is 0 / 0: on the exact carrier this is 0, so an unchanged state is accepted although
      gain and loss functions are not zero; on binary64 it is NaN and the same data are rejected:
      [(@no_differences NumQc, @no_differences NumF.NumF) = (true, false)] was checked by [vm_compute] (with
      [From RDM Require Base.NumF]); only the exact half is kept here because [Print Assumptions] lists the primitive
      float operations of the other half. *)
  Example empty_difference_lists : @no_differences NumQc = true.
  Proof. vm_compute. reflexivity. Qed.
End Examples.

Print Assumptions find_first_such.
Print Assumptions first_such_unique.
Print Assumptions first_such_nodup.
Print Assumptions params_same_eq.
Print Assumptions C19_ok_split.
Print Assumptions ck_ref_sound.
Print Assumptions ck_scaling_sound.
Print Assumptions ck_diffs_sound.
Print Assumptions ck_inline_sound.
Print Assumptions ck_new_sound.
Print Assumptions C19_ok_sound.
Print Assumptions C19_ok_sound_Qc.
Print Assumptions near_Qc.
Print Assumptions scale_of_Qc.
Print Assumptions mapped_ok_Qc.
Print Assumptions at_least_as_good_Qc.
Print Assumptions C19_zero_functions_Qc.
Print Assumptions Examples.model_accepted.
Print Assumptions Examples.spec_inhabited_inline.
Print Assumptions Examples.spec_inhabited_new.
Print Assumptions Examples.zero_function_evaluates_to_zero.
Print Assumptions Examples.empty_difference_lists.
