(** * C14: generated aspiration levels follow the documented series and end.
    All theorems are on the exact-rational instance [NumQc]. *)
From Coq Require Import ZArith QArith Qcanon Qround Qabs Bool List String Lia Lqa.
From RDM Require Import Base.Num Base.NumQc Base.Util Model.Data Model.Levels Proofs.RankFacts.
Import ListNotations.
Local Open Scope string_scope.
Local Open Scope list_scope.
Local Open Scope Qc_scope.

(** ** Bridges between the boolean comparisons of [NumQc] and the order of [Qc] *)
Lemma nleb_iff (x y : Qc) : @nleb NumQc x y = true <-> x <= y.
Proof. apply qc_leb_iff. Qed.

Lemma nltb_iff (x y : Qc) : @nltb NumQc x y = true <-> x < y.
Proof.
  cbn [nltb NumQc]. unfold qc_ltb. rewrite negb_true_iff. split.
  - intros H. apply Qcnot_le_lt. intros A. apply qc_leb_iff in A. unfold qc_leb in A. congruence.
  - intros H. destruct (Qle_bool y x) eqn:E; [|reflexivity].
    apply Qle_bool_iff in E. apply Qclt_not_le in H. contradiction.
Qed.

Lemma neqb_iff (x y : Qc) : @neqb NumQc x y = true <-> x = y.
Proof.
  cbn [neqb NumQc]. unfold qc_eqb. rewrite Qeq_bool_iff. split.
  - apply Qc_is_canon.
  - intros ->. reflexivity.
Qed.

Lemma nleb_false_iff (x y : Qc) : @nleb NumQc x y = false <-> y < x.
Proof.
  split.
  - intros H. apply Qcnot_le_lt. intros A. apply nleb_iff in A. congruence.
  - intros H. destruct (@nleb NumQc x y) eqn:E; [|reflexivity].
    apply nleb_iff in E. apply Qclt_not_le in H. contradiction.
Qed.

Lemma nltb_false_iff (x y : Qc) : @nltb NumQc x y = false <-> y <= x.
Proof.
  split.
  - intros H. apply Qcnot_lt_le. intros A. apply nltb_iff in A. congruence.
  - intros H. destruct (@nltb NumQc x y) eqn:E; [|reflexivity].
    apply nltb_iff in E. apply Qcle_not_lt in H. contradiction.
Qed.

Lemma neqb_false_iff (x y : Qc) : @neqb NumQc x y = false <-> x <> y.
Proof.
  split.
  - intros H A. apply neqb_iff in A. congruence.
  - intros H. destruct (@neqb NumQc x y) eqn:E; [|reflexivity].
    apply neqb_iff in E. contradiction.
Qed.

Lemma nzero_Qc : @nzero NumQc = 0. Proof. reflexivity. Qed.
Lemma none_Qc : @none NumQc = 1. Proof. reflexivity. Qed.

(** ** From [Qc] to [Q]: [this] is a morphism; afterwards [lra]/[nra] apply. *)
Lemma this_plus (x y : Qc) : (this (x + y) == this x + this y)%Q.
Proof. unfold Qcplus, Q2Qc; cbn [this]; apply Qred_correct. Qed.
Lemma this_opp (x : Qc) : (this (- x) == - this x)%Q.
Proof. unfold Qcopp, Q2Qc; cbn [this]; apply Qred_correct. Qed.
Lemma this_minus (x y : Qc) : (this (x - y) == this x - this y)%Q.
Proof. unfold Qcminus. rewrite this_plus, this_opp. reflexivity. Qed.
Lemma this_mult (x y : Qc) : (this (x * y) == this x * this y)%Q.
Proof. unfold Qcmult, Q2Qc; cbn [this]; apply Qred_correct. Qed.
Lemma this_inv (x : Qc) : (this (/ x) == / this x)%Q.
Proof. unfold Qcinv, Q2Qc; cbn [this]; apply Qred_correct. Qed.
Lemma this_0 : (this 0 == 0)%Q. Proof. reflexivity. Qed.
Lemma this_1 : (this 1 == 1)%Q. Proof. reflexivity. Qed.

Lemma Qc_eq_this (x y : Qc) : x = y <-> (this x == this y)%Q.
Proof. split; [intros ->; reflexivity | apply Qc_is_canon]. Qed.

Ltac qcq :=
  change (@nzero NumQc) with 0 in *; change (@none NumQc) with 1 in *;
  change (@nadd NumQc) with Qcplus in *; change (@nsub NumQc) with Qcminus in *;
  change (@nmul NumQc) with Qcmult in *;
  repeat match goal with
         | H : @eq Qc _ _ |- _ => apply Qc_eq_this in H
         | |- @eq Qc _ _ => apply Qc_eq_this
         end;
  unfold Qcle, Qclt in *;
  repeat match goal with
         | H : context [this (_ + _)] |- _ => rewrite this_plus in H
         | H : context [this (_ - _)] |- _ => rewrite this_minus in H
         | H : context [this (_ * _)] |- _ => rewrite this_mult in H
         | H : context [this (- _)] |- _ => rewrite this_opp in H
         | H : context [this 0] |- _ => rewrite this_0 in H
         | H : context [this 1] |- _ => rewrite this_1 in H
         | |- context [this (_ + _)] => rewrite this_plus
         | |- context [this (_ - _)] => rewrite this_minus
         | |- context [this (_ * _)] => rewrite this_mult
         | |- context [this (- _)] => rewrite this_opp
         | |- context [this 0] => rewrite this_0
         | |- context [this 1] => rewrite this_1
         end.

(** explicit min / max on [Qc] *)
Definition Qcmin (x y : Qc) : Qc := if Qclt_le_dec x y then x else y.
Definition Qcmax (x y : Qc) : Qc := if Qclt_le_dec y x then x else y.

Lemma Qcmin_spec x y : (x <= y -> Qcmin x y = x) /\ (y <= x -> Qcmin x y = y).
Proof.
  unfold Qcmin. destruct (Qclt_le_dec x y) as [A|A]; split; intros B; try reflexivity.
  - apply Qcle_antisym; [now apply Qclt_le_weak | assumption].
  - apply Qcle_antisym; assumption.
Qed.
Lemma Qcmax_spec x y : (x <= y -> Qcmax x y = y) /\ (y <= x -> Qcmax x y = x).
Proof.
  unfold Qcmax. destruct (Qclt_le_dec y x) as [A|A]; split; intros B; try reflexivity.
  - apply Qcle_antisym; [assumption | now apply Qclt_le_weak].
  - apply Qcle_antisym; assumption.
Qed.

Lemma nmin_Qcmin (x y : Qc) : @nmin NumQc x y = Qcmin x y.
Proof.
  unfold nmin, Qcmin. destruct (@nltb NumQc x y) eqn:E; destruct (Qclt_le_dec x y) as [A|A]; try reflexivity.
  - apply nltb_iff in E. apply Qcle_not_lt in A. contradiction.
  - apply nltb_false_iff in E. apply Qclt_not_le in A. contradiction.
Qed.
Lemma nmax_Qcmax (x y : Qc) : @nmax NumQc x y = Qcmax x y.
Proof.
  unfold nmax, Qcmax. destruct (@nltb NumQc y x) eqn:E; destruct (Qclt_le_dec y x) as [A|A]; try reflexivity.
  - apply nltb_iff in E. apply Qcle_not_lt in A. contradiction.
  - apply nltb_false_iff in E. apply Qclt_not_le in A. contradiction.
Qed.

Lemma Qcmin_cases x y : (x < y /\ Qcmin x y = x) \/ (y <= x /\ Qcmin x y = y).
Proof. unfold Qcmin. destruct (Qclt_le_dec x y); auto. Qed.
Lemma Qcmax_cases x y : (y < x /\ Qcmax x y = x) \/ (x <= y /\ Qcmax x y = y).
Proof. unfold Qcmax. destruct (Qclt_le_dec y x); auto. Qed.

Ltac bconv :=
  repeat match goal with
         | H : @nleb NumQc _ _ = true |- _ => apply nleb_iff in H
         | H : @nleb NumQc _ _ = false |- _ => apply nleb_false_iff in H
         | H : @nltb NumQc _ _ = true |- _ => apply nltb_iff in H
         | H : @nltb NumQc _ _ = false |- _ => apply nltb_false_iff in H
         | H : @neqb NumQc _ _ = true |- _ => apply neqb_iff in H
         | H : @neqb NumQc _ _ = false |- _ => apply neqb_false_iff in H
         end.

(** ** 1. Parameter validation: exactly the documented domains *)
Theorem validate_coef_spec (d : direction) (lp : @lparams NumQc) :
  validate_coef d lp = true <->
  ((0 < lp_coef lp /\ lp_coef lp < 1) /\
   (d = Increasing -> (0 <= lp_min lp /\ lp_min lp <= 1) /\ (0 <= lp_max lp /\ lp_max lp <= 1)) /\
   (d = Decreasing -> (0 < lp_min lp /\ lp_min lp <= 1) /\ (0 < lp_max lp /\ lp_max lp <= 1))).
Proof.
  unfold validate_coef.
  destruct (@nleb NumQc (lp_coef lp) nzero) eqn:E1; destruct (@nleb NumQc none (lp_coef lp)) eqn:E2; cbn [orb].
  1-3: split; [discriminate | intros [[A B] _]; bconv; qcq; lra].
  destruct d.
  - destruct (@nltb NumQc (lp_min lp) nzero) eqn:E3; destruct (@nltb NumQc none (lp_min lp)) eqn:E4;
      destruct (@nltb NumQc (lp_max lp) nzero) eqn:E5; destruct (@nltb NumQc none (lp_max lp)) eqn:E6;
      cbn [orb negb andb]; (split; [intros H; try discriminate H | intros [[A B] [C D]]; try reflexivity;
                                   exfalso; destruct (C eq_refl) as [[C1 C2] [C3 C4]]]); bconv.
    all: repeat split; try discriminate; qcq; lra.
  - destruct (@nleb NumQc (lp_min lp) nzero) eqn:E3; destruct (@nltb NumQc none (lp_min lp)) eqn:E4;
      destruct (@nleb NumQc (lp_max lp) nzero) eqn:E5; destruct (@nltb NumQc none (lp_max lp)) eqn:E6;
      cbn [orb negb andb]; (split; [intros H; try discriminate H | intros [[A B] [C D]]; try reflexivity;
                                   exfalso; destruct (D eq_refl) as [[C1 C2] [C3 C4]]]); bconv.
    all: repeat split; try discriminate; qcq; lra.
Qed.

(** ** 2. The four update rules *)
Theorem update_value_spec (r c : Qc) :
  @update_value NumQc Increasing SMul r c = Qcmin ((1 + r) * (1 + c) - 1) 1 /\
  @update_value NumQc Increasing SAdd r c = Qcmin (r + c) 1 /\
  @update_value NumQc Decreasing SMul r c = r * c /\
  @update_value NumQc Decreasing SAdd r c = Qcmax (r - c) 0.
Proof.
  unfold update_value. rewrite !nmin_Qcmin, nmax_Qcmax. repeat split; reflexivity.
Qed.

Lemma upd_inc_mul r c : @update_value NumQc Increasing SMul r c = Qcmin ((1 + r) * (1 + c) - 1) 1.
Proof. apply update_value_spec. Qed.
Lemma upd_inc_add r c : @update_value NumQc Increasing SAdd r c = Qcmin (r + c) 1.
Proof. apply update_value_spec. Qed.
Lemma upd_dec_mul r c : @update_value NumQc Decreasing SMul r c = r * c.
Proof. apply update_value_spec. Qed.
Lemma upd_dec_add r c : @update_value NumQc Decreasing SAdd r c = Qcmax (r - c) 0.
Proof. apply update_value_spec. Qed.

(** ** 3. One step of the series: strict progress and the [0,1] invariant *)
Lemma update_range d s (r c : Qc) :
  0 < c -> c < 1 -> 0 <= r -> r <= 1 ->
  0 <= @update_value NumQc d s r c /\ @update_value NumQc d s r c <= 1.
Proof.
  intros C0 C1 R0 R1. destruct d, s.
  - rewrite upd_inc_mul. destruct (Qcmin_cases ((1 + r) * (1 + c) - 1) 1) as [[A ->]|[A ->]]; split; qcq; nra.
  - rewrite upd_inc_add. destruct (Qcmin_cases (r + c) 1) as [[A ->]|[A ->]]; split; qcq; nra.
  - rewrite upd_dec_mul. split; qcq; nra.
  - rewrite upd_dec_add. destruct (Qcmax_cases (r - c) 0) as [[A ->]|[A ->]]; split; qcq; nra.
Qed.

Theorem series_strict d s (lp : @lparams NumQc) (r : Qc) :
  validate_coef d lp = true -> 0 <= r -> r <= 1 -> has_next d lp r = true ->
  (d = Increasing -> r < update_value Increasing s r (lp_coef lp)) /\
  (d = Decreasing -> update_value Decreasing s r (lp_coef lp) < r) /\
  (0 <= update_value d s r (lp_coef lp) /\ update_value d s r (lp_coef lp) <= 1).
Proof.
  intros V R0 R1 HN. apply validate_coef_spec in V. destruct V as [[C0 C1] [VI VD]].
  split; [|split].
  - intros ->. destruct (VI eq_refl) as [[M0 M1] [X0 X1]]. cbn [has_next] in HN. bconv.
    destruct s.
    + rewrite upd_inc_mul. destruct (Qcmin_cases ((1 + r) * (1 + lp_coef lp) - 1) 1) as [[A ->]|[A ->]]; qcq; nra.
    + rewrite upd_inc_add. destruct (Qcmin_cases (r + lp_coef lp) 1) as [[A ->]|[A ->]]; qcq; nra.
  - intros ->. destruct (VD eq_refl) as [[M0 M1] [X0 X1]]. cbn [has_next] in HN. bconv.
    destruct s.
    + rewrite upd_dec_mul. qcq; nra.
    + rewrite upd_dec_add. destruct (Qcmax_cases (r - lp_coef lp) 0) as [[A ->]|[A ->]]; qcq; nra.
  - apply update_range; assumption.
Qed.

(** ** 4. The thresholds at a ratio *)
Section MapFacts.
  Context {A : Type}.
  Lemma mget_mset_same k (v : A) m : mget k (mset k v m) = Some v.
  Proof.
    induction m as [|[k' v'] m IH]; cbn [mset mget].
    - now rewrite String.eqb_refl.
    - destruct (String.eqb k k') eqn:E; [cbn [mget]; now rewrite String.eqb_refl|].
      destruct (String.ltb k k'); cbn [mget]; [now rewrite String.eqb_refl|].
      rewrite E. exact IH.
  Qed.
  Lemma mget_mset_other k k' (v : A) m : k <> k' -> mget k (mset k' v m) = mget k m.
  Proof.
    intros NE. apply String.eqb_neq in NE.
    induction m as [|[k2 v2] m IH]; cbn [mset mget].
    - now rewrite NE.
    - destruct (String.eqb k' k2) eqn:E.
      + apply String.eqb_eq in E. subst k2. cbn [mget]. now rewrite NE.
      + destruct (String.ltb k' k2); cbn [mget]; [now rewrite NE|].
        destruct (String.eqb k k2); [reflexivity | exact IH].
  Qed.
  Lemma mget_none_iff k (m : smap A) : mget k m = None <-> ~ In k (mkeys m).
  Proof.
    induction m as [|[k' v'] m IH]; cbn [mget mkeys map fst In].
    - tauto.
    - destruct (String.eqb k k') eqn:E.
      + apply String.eqb_eq in E. subst. split; [discriminate | intros H; exfalso; apply H; now left].
      + apply String.eqb_neq in E. rewrite IH. unfold mkeys. split.
        * intros H [B|B]; [congruence | contradiction].
        * intros H B. apply H. now right.
  Qed.
  Lemma mkeys_in_iff k (m : smap A) : In k (mkeys m) <-> exists v, mget k m = Some v.
  Proof.
    destruct (mget k m) eqn:E.
    - split; [intros _; eauto|]. intros _.
      destruct (in_dec string_dec k (mkeys m)) as [I|I]; [exact I|].
      apply mget_none_iff in I. congruence.
    - split; [|intros [v H]; discriminate]. intros I. apply mget_none_iff in E. contradiction.
  Qed.
  Lemma mkeys_mset k k' (v : A) m : In k (mkeys (mset k' v m)) <-> k = k' \/ In k (mkeys m).
  Proof.
    rewrite !mkeys_in_iff. destruct (string_dec k k') as [->|NE].
    - rewrite mget_mset_same. split; eauto.
    - rewrite mget_mset_other by assumption. split; [auto|]. intros [B|B]; [contradiction | exact B].
  Qed.
End MapFacts.

Definition crs_ids (crs : list (@crit NumQc * (Qc * Qc))) : list string := map (fun x => c_id (fst x)) crs.

Definition level_value (cr : @crit NumQc) (mn mx r : Qc) : Qc :=
  if is_cost cr then mx - (mx - mn) * r else mn + (mx - mn) * r.

Definition level_step (cur : Qc) (m : smap Qc) (cr : @crit NumQc * (Qc * Qc)) : smap Qc :=
  let '(c, r) := cr in
  let delta := nmul (range_diff r) cur in
  mset (c_id c) (if is_cost c then nsub (snd r) delta else nadd (fst r) delta) m.

Lemma level_at_fold crs r : @level_at NumQc crs r = fold_left (level_step r) crs [].
Proof. reflexivity. Qed.

Lemma level_step_eq r m cr mn mx :
  level_step r m (cr, (mn, mx)) = mset (c_id cr) (level_value cr mn mx r) m.
Proof. reflexivity. Qed.

Lemma level_fold_notin crs r k : forall acc,
  ~ In k (crs_ids crs) -> mget k (fold_left (level_step r) crs acc) = mget k acc.
Proof.
  induction crs as [|[cr [mn mx]] crs IH]; intros acc NI; cbn [fold_left]; [reflexivity|].
  cbn [crs_ids map fst In] in NI. rewrite IH by (intros B; apply NI; now right).
  rewrite level_step_eq. apply mget_mset_other. intros ->. apply NI. now left.
Qed.

Lemma level_fold_in crs r cr mn mx : forall acc,
  NoDup (crs_ids crs) -> In (cr, (mn, mx)) crs ->
  mget (c_id cr) (fold_left (level_step r) crs acc) = Some (level_value cr mn mx r).
Proof.
  induction crs as [|[cr' [mn' mx']] crs IH]; intros acc ND I; [destruct I|].
  cbn [crs_ids map fst] in ND. fold (crs_ids crs) in ND. inversion ND as [|? ? NI ND']; subst.
  cbn [fold_left]. destruct I as [E|I].
  - inversion E; subst. rewrite level_fold_notin by exact NI.
    rewrite level_step_eq. apply mget_mset_same.
  - apply IH; assumption.
Qed.

Theorem level_at_formula crs (r : Qc) cr mn mx :
  NoDup (crs_ids crs) -> In (cr, (mn, mx)) crs ->
  mget (c_id cr) (@level_at NumQc crs r) =
  Some (if is_cost cr then mx - (mx - mn) * r else mn + (mx - mn) * r).
Proof. intros ND I. rewrite level_at_fold. apply (level_fold_in crs r cr mn mx [] ND I). Qed.

Lemma level_fold_keys crs r k : forall acc,
  In k (mkeys (fold_left (level_step r) crs acc)) <-> In k (mkeys acc) \/ In k (crs_ids crs).
Proof.
  induction crs as [|[cr [mn mx]] crs IH]; intros acc; cbn [fold_left crs_ids map fst In].
  - tauto.
  - rewrite IH, level_step_eq, mkeys_mset. fold (crs_ids crs). intuition (subst; auto).
Qed.

(* the keys of the thresholds are exactly the criterion ids (no hypothesis on [crs] needed) *)
Theorem level_at_keys crs (r : Qc) k :
  In k (mkeys (@level_at NumQc crs r)) <-> In k (crs_ids crs).
Proof. rewrite level_at_fold, level_fold_keys. cbn [mkeys map In]. tauto. Qed.

Corollary level_at_mhas crs (r : Qc) k :
  mhas k (@level_at NumQc crs r) = true <-> In k (crs_ids crs).
Proof.
  rewrite <- level_at_keys, mkeys_in_iff. unfold mhas.
  destruct (mget k (level_at crs r)) eqn:E; cbv beta iota.
  - split; [intros _; eexists; exact E | reflexivity].
  - split; [discriminate | intros [v H]; pose proof (eq_trans (eq_sym E) H) as F; discriminate F].
Qed.

(** the thresholds are a canonical map (strictly sorted by key, hence without duplicated keys) *)
Section MapSorted.
  Context {A : Type}.
  Definition hd_lt (k : string) (m : smap A) : bool :=
    match m with [] => true | (k2, _) :: _ => String.ltb k k2 end.
  Lemma msorted_cons k (v : A) m : msorted ((k, v) :: m) = hd_lt k m && msorted m.
  Proof. destruct m as [|[k2 v2] m]; reflexivity. Qed.
  Lemma hd_lt_mset k' k (v : A) m :
    hd_lt k' m = true -> String.ltb k' k = true -> hd_lt k' (mset k v m) = true.
  Proof.
    intros H L. destruct m as [|[k2 v2] m]; cbn [mset hd_lt]; [exact L|].
    destruct (String.eqb k k2); [exact L|]. destruct (String.ltb k k2); [exact L | exact H].
  Qed.
  Lemma mset_msorted k (v : A) m : msorted m = true -> msorted (mset k v m) = true.
  Proof.
    induction m as [|[k' v'] m IH]; intros S; [reflexivity|].
    rewrite msorted_cons in S. apply andb_true_iff in S as [S1 S2]. cbn [mset].
    destruct (String.eqb k k') eqn:E.
    - apply String.eqb_eq in E. subst k'. rewrite msorted_cons, S1, S2. reflexivity.
    - destruct (String.ltb k k') eqn:L.
      + rewrite !msorted_cons, S1, S2. cbn [hd_lt]. rewrite L. reflexivity.
      + rewrite msorted_cons, (IH S2), andb_true_r. apply hd_lt_mset; [exact S1|].
        apply String.eqb_neq in E. destruct (sltb_tricho k k') as [T|[T|T]]; [congruence | contradiction | exact T].
  Qed.
End MapSorted.

Lemma level_fold_msorted crs r : forall acc,
  msorted acc = true -> msorted (fold_left (level_step r) crs acc) = true.
Proof.
  induction crs as [|[cr [mn mx]] crs IH]; intros acc S; cbn [fold_left]; [exact S|].
  apply IH. rewrite level_step_eq. now apply mset_msorted.
Qed.

Theorem level_at_msorted crs (r : Qc) : msorted (@level_at NumQc crs r) = true.
Proof. rewrite level_at_fold. now apply level_fold_msorted. Qed.

(** ** 5. CriteriaValuesRange *)
Lemma observed_range_from_spec (c : @crit NumQc) : forall (l : list (@alt NumQc)) (mn mx : Qc),
  (forall a, In a l -> exists v, raw_value a c = Ok v) ->
  exists mn' mx' : Qc,
    observed_range_from l c mn mx = Ok (mn', mx') /\ mn' <= mn /\ mx <= mx' /\
    (forall a v, In a l -> raw_value a c = Ok v -> mn' <= v /\ v <= mx') /\
    (mn' = mn \/ exists a, In a l /\ raw_value a c = Ok mn') /\
    (mx' = mx \/ exists a, In a l /\ raw_value a c = Ok mx').
Proof.
  induction l as [|a l IH]; intros mn mx Hall.
  - exists mn, mx. cbn [observed_range_from]. repeat split; try apply Qcle_refl; auto; contradiction.
  - destruct (Hall a (or_introl eq_refl)) as [v Hv].
    cbn [observed_range_from]. rewrite Hv. cbn [bind].
    set (mn1 := if @nltb NumQc v mn then v else mn).
    set (mx1 := if @nltb NumQc mx v then v else mx).
    destruct (IH mn1 mx1 (fun b Hb => Hall b (or_intror Hb))) as (mn' & mx' & E & L1 & L2 & Hbd & Hmn & Hmx).
    assert (M1 : mn1 <= mn /\ mn1 <= v /\ (mn1 = mn \/ mn1 = v)).
    { unfold mn1. destruct (@nltb NumQc v mn) eqn:B; bconv; repeat split; auto; qcq; lra. }
    assert (M2 : mx <= mx1 /\ v <= mx1 /\ (mx1 = mx \/ mx1 = v)).
    { unfold mx1. destruct (@nltb NumQc mx v) eqn:B; bconv; repeat split; auto; qcq; lra. }
    destruct M1 as (M1a & M1b & M1c). destruct M2 as (M2a & M2b & M2c).
    exists mn', mx'. split; [exact E|]. split; [eapply Qcle_trans; eassumption|].
    split; [eapply Qcle_trans; eassumption|]. split; [|split].
    + intros b w [<-|Hb] Hw.
      * assert (w = v) by congruence. subst w.
        split; eapply Qcle_trans; eassumption.
      * apply (Hbd b w Hb Hw).
    + destruct Hmn as [->|(b & Hb & Hw)].
      * destruct M1c as [->| ->]; [now left|]. right. exists a. split; [now left | exact Hv].
      * right. exists b. split; [now right | exact Hw].
    + destruct Hmx as [->|(b & Hb & Hw)].
      * destruct M2c as [->| ->]; [now left|]. right. exists a. split; [now left | exact Hv].
      * right. exists b. split; [now right | exact Hw].
Qed.

Theorem values_range_spec (alts : list (@alt NumQc)) (c : @crit NumQc) :
  (forall rg, c_range c = Some rg -> values_range alts c = Ok rg) /\
  (c_range c = None -> alts = [] -> values_range alts c = Ok (0, 0)) /\
  (c_range c = None -> alts <> [] -> (forall a, In a alts -> exists v, raw_value a c = Ok v) ->
   exists mn mx : Qc,
     values_range alts c = Ok (mn, mx) /\
     (forall a v, In a alts -> raw_value a c = Ok v -> mn <= v /\ v <= mx) /\
     (exists a, In a alts /\ raw_value a c = Ok mn) /\
     (exists a, In a alts /\ raw_value a c = Ok mx)).
Proof.
  unfold values_range. split; [|split].
  - intros rg ->. reflexivity.
  - intros -> ->. reflexivity.
  - intros -> NE Hall. destruct alts as [|a l]; [congruence|].
    destruct (Hall a (or_introl eq_refl)) as [v Hv]. rewrite Hv. cbn [bind].
    destruct (observed_range_from_spec c l v v (fun b Hb => Hall b (or_intror Hb)))
      as (mn & mx & E & L1 & L2 & Hbd & Hmn & Hmx).
    exists mn, mx. split; [exact E|]. split; [|split].
    + intros b w [<-|Hb] Hw.
      * assert (w = v) by congruence. subst w. split; assumption.
      * apply (Hbd b w Hb Hw).
    + destruct Hmn as [->|(b & Hb & Hw)]; [exists a; split; [now left|exact Hv] | exists b; split; [now right|exact Hw]].
    + destruct Hmx as [->|(b & Hb & Hw)]; [exists a; split; [now left|exact Hv] | exists b; split; [now right|exact Hw]].
Qed.

(* an alternative without a value for the criterion makes the lookup fail (Go: panic) *)
Lemma observed_range_from_missing (c : @crit NumQc) : forall (l : list (@alt NumQc)) (mn mx : Qc) a,
  In a l -> raw_value a c = Err EMissing ->
  (forall b, In b l -> raw_value b c = Err EMissing \/ exists v, raw_value b c = Ok v) ->
  observed_range_from l c mn mx = Err EMissing.
Proof.
  induction l as [|b l IH]; intros mn mx a I Ha Hall; [destruct I|].
  cbn [observed_range_from]. destruct (Hall b (or_introl eq_refl)) as [Hb|[v Hb]]; rewrite Hb; cbn [bind]; [reflexivity|].
  destruct I as [->|I]; [congruence|].
  apply (IH _ _ a I Ha). intros x Hx. apply Hall. now right.
Qed.

Lemma raw_value_cases (a : @alt NumQc) (c : @crit NumQc) :
  raw_value a c = Err EMissing \/ exists v, raw_value a c = Ok v.
Proof. unfold raw_value. destruct (mget (c_id c) (a_vals a)); cbn [of_option]; eauto. Qed.

Theorem values_range_missing (alts : list (@alt NumQc)) (c : @crit NumQc) a :
  c_range c = None -> In a alts -> raw_value a c = Err EMissing ->
  values_range alts c = Err EMissing.
Proof.
  intros Hr I Ha. unfold values_range. rewrite Hr. destruct alts as [|b l]; [destruct I|].
  destruct (raw_value_cases b c) as [Hb|[v Hb]]; rewrite Hb; cbn [bind]; [reflexivity|].
  destruct I as [->|I]; [congruence|].
  apply (observed_range_from_missing c l v v a I Ha). intros x _. apply raw_value_cases.
Qed.

(** ** 6. The series is finite, with an explicit bound *)
Lemma lv_all_fuel_mono (f : nat) : forall (src : @lsource NumQc) l,
  lv_all f src = Ok l -> forall k, lv_all (f + k) src = Ok l.
Proof.
  induction f as [|f IH]; intros src l H k; [discriminate H|].
  cbn [lv_all Nat.add] in *. destruct (lv_next src) as [[t src']|]; [|exact H].
  destruct (lv_all f src') as [l'|e] eqn:E; cbn [bind] in H; [|discriminate H].
  rewrite (IH src' l' E k). exact H.
Qed.

(* the ratio after [i] updates *)
Fixpoint ratio_at (d : direction) (s : series) (c : Qc) (i : nat) (r : Qc) : Qc :=
  match i with O => r | S j => ratio_at d s c j (@update_value NumQc d s r c) end.

Lemma ratio_at_S d s c i : forall r,
  ratio_at d s c (S i) r = @update_value NumQc d s (ratio_at d s c i r) c.
Proof.
  induction i as [|i IH]; intros r; [reflexivity|].
  change (ratio_at d s c (S (S i)) r) with (ratio_at d s c (S i) (@update_value NumQc d s r c)).
  rewrite IH. reflexivity.
Qed.

Lemma ratio_at_range d s c i r :
  0 < c -> c < 1 -> 0 <= r -> r <= 1 -> 0 <= ratio_at d s c i r /\ ratio_at d s c i r <= 1.
Proof.
  intros C0 C1. induction i as [|i IH]; intros R0 R1; [cbn [ratio_at]; auto|].
  rewrite ratio_at_S. destruct (IH R0 R1). apply update_range; assumption.
Qed.

(* if the [i]-th ratio has no successor, the series stops after at most [i] levels *)
Lemma lv_all_ideal_stop d s (lp : @lparams NumQc) crs : forall (i f : nat) (r : Qc),
  has_next d lp (ratio_at d s (lp_coef lp) i r) = false -> (i < f)%nat ->
  exists levels, lv_all f (LIdeal d s lp crs r) = Ok levels /\ (List.length levels <= i)%nat.
Proof.
  induction i as [|i IH]; intros f r HN Hf; (destruct f as [|f]; [lia|]); cbn [lv_all lv_next].
  - cbn [ratio_at] in HN. rewrite HN. exists []. split; [reflexivity | cbn; lia].
  - destruct (has_next d lp r) eqn:E.
    + cbn [ratio_at] in HN. destruct (IH f _ HN ltac:(lia)) as (levels & EL & LL).
      rewrite EL. cbn [bind]. eexists. split; [reflexivity | cbn [List.length]; lia].
    + exists []. split; [reflexivity | cbn; lia].
Qed.

(* natural numbers in Qc *)
Definition qn (i : nat) : Qc := Q2Qc (inject_Z (Z.of_nat i)).
Lemma this_qn i : (this (qn i) == inject_Z (Z.of_nat i))%Q.
Proof. unfold qn, Q2Qc; cbn [this]; apply Qred_correct. Qed.
Lemma qn_0 : qn 0 = 0.
Proof. apply Qc_is_canon. rewrite this_qn. reflexivity. Qed.
Lemma qn_S i : qn (S i) = qn i + 1.
Proof.
  apply Qc_is_canon. rewrite this_plus, !this_qn, Nat2Z.inj_succ. unfold Z.succ.
  rewrite inject_Z_plus. reflexivity.
Qed.
Lemma qn_nonneg i : 0 <= qn i.
Proof.
  unfold Qcle. rewrite this_qn. change (this 0) with (inject_Z 0). rewrite <- Zle_Qle. lia.
Qed.
Lemma qn_ceiling (x : Qc) : x <= qn (Z.to_nat (Qceiling x)).
Proof.
  unfold Qcle. rewrite this_qn. eapply Qle_trans; [apply Qle_ceiling|].
  rewrite <- Zle_Qle. lia.
Qed.

Definition series_bound (d : direction) (s : series) (lp : @lparams NumQc) : nat :=
  match d, s with
  | Decreasing, SMul => Z.to_nat (Qceiling ((lp_max lp / lp_min lp - 1) / (1 / lp_coef lp - 1))%Qc) + 2
  | _, _ => Z.to_nat (Qceiling (1 / lp_coef lp)%Qc) + 2
  end.

(* increasing: every step adds at least [c], or reaches 1 (and then stops) *)
Lemma inc_step s (lp : @lparams NumQc) (r : Qc) :
  0 < lp_coef lp -> lp_max lp <= 1 -> 0 <= r ->
  has_next Increasing lp (update_value Increasing s r (lp_coef lp)) = false \/
  r + lp_coef lp <= update_value Increasing s r (lp_coef lp).
Proof.
  intros C0 X1 R0. cbn [has_next]. destruct s.
  - rewrite upd_inc_mul. destruct (Qcmin_cases ((1 + r) * (1 + lp_coef lp) - 1) 1) as [[A ->]|[A ->]].
    + right. qcq. nra.
    + left. apply nltb_false_iff. exact X1.
  - rewrite upd_inc_add. destruct (Qcmin_cases (r + lp_coef lp) 1) as [[A ->]|[A ->]].
    + right. apply Qcle_refl.
    + left. apply nltb_false_iff. exact X1.
Qed.

Lemma inc_progress s (lp : @lparams NumQc) (r : Qc) :
  0 < lp_coef lp -> lp_coef lp < 1 -> lp_max lp <= 1 -> 0 <= r -> r <= 1 ->
  forall i,
    (exists j, (j <= i)%nat /\ has_next Increasing lp (ratio_at Increasing s (lp_coef lp) j r) = false) \/
    r + qn i * lp_coef lp <= ratio_at Increasing s (lp_coef lp) i r.
Proof.
  intros C0 C1 X1 R0 R1. induction i as [|i IH].
  - right. cbn [ratio_at]. rewrite qn_0. qcq. lra.
  - destruct IH as [(j & Hj & HN)|IH]; [left; exists j; split; [lia|exact HN]|].
    destruct (ratio_at_range Increasing s (lp_coef lp) i r C0 C1 R0 R1) as [Q0 Q1].
    destruct (inc_step s lp (ratio_at Increasing s (lp_coef lp) i r) C0 X1 Q0) as [HN|ST].
    + left. exists (S i). split; [lia|]. rewrite ratio_at_S. exact HN.
    + right. rewrite ratio_at_S, qn_S. qcq. lra.
Qed.

Lemma Qc_pos_neq0 (c : Qc) : 0 < c -> c <> 0.
Proof. intros H E. apply (Qclt_not_eq _ _ H). now rewrite E. Qed.

Lemma Qc_mul_inv1 (c : Qc) : 0 < c -> c * (1 / c) = 1.
Proof. intros H. unfold Qcdiv. rewrite Qcmult_1_l. apply Qcmult_inv_r. now apply Qc_pos_neq0. Qed.

Lemma coef_ceiling (c : Qc) : 0 < c -> 1 <= qn (Z.to_nat (Qceiling (1 / c)%Qc)) * c.
Proof.
  intros C0. pose proof (qn_ceiling (1 / c)) as H.
  assert (E : c * (1 / c) = 1) by (now apply Qc_mul_inv1).
  qcq. nra.
Qed.

Lemma inc_stops s (lp : @lparams NumQc) :
  validate_coef Increasing lp = true ->
  exists j, (j <= Z.to_nat (Qceiling (1 / lp_coef lp)%Qc))%nat /\
            has_next Increasing lp (ratio_at Increasing s (lp_coef lp) j (lp_min lp)) = false.
Proof.
  intros V. apply validate_coef_spec in V. destruct V as [[C0 C1] [VI _]].
  destruct (VI eq_refl) as [[M0 M1] [X0 X1]].
  set (n := Z.to_nat (Qceiling (1 / lp_coef lp)%Qc)).
  destruct (inc_progress s lp (lp_min lp) C0 C1 X1 M0 M1 n) as [H|H]; [exact H|].
  exists n. split; [lia|]. cbn [has_next]. apply nltb_false_iff.
  pose proof (coef_ceiling (lp_coef lp) C0) as K. fold n in K. qcq. lra.
Qed.

(* decreasing, subtractive: every step removes at least [c], or reaches 0 (and then stops) *)
Lemma dec_add_step (lp : @lparams NumQc) (r : Qc) :
  0 < lp_min lp ->
  has_next Decreasing lp (update_value Decreasing SAdd r (lp_coef lp)) = false \/
  update_value Decreasing SAdd r (lp_coef lp) <= r - lp_coef lp.
Proof.
  intros M0. cbn [has_next]. rewrite upd_dec_add.
  destruct (Qcmax_cases (r - lp_coef lp) 0) as [[A ->]|[A ->]].
  - right. apply Qcle_refl.
  - left. apply nltb_false_iff. now apply Qclt_le_weak.
Qed.

Lemma dec_add_progress (lp : @lparams NumQc) (r : Qc) :
  0 < lp_min lp ->
  forall i,
    (exists j, (j <= i)%nat /\ has_next Decreasing lp (ratio_at Decreasing SAdd (lp_coef lp) j r) = false) \/
    ratio_at Decreasing SAdd (lp_coef lp) i r <= r - qn i * lp_coef lp.
Proof.
  intros M0. induction i as [|i IH].
  - right. cbn [ratio_at]. rewrite qn_0. qcq. lra.
  - destruct IH as [(j & Hj & HN)|IH]; [left; exists j; split; [lia|exact HN]|].
    destruct (dec_add_step lp (ratio_at Decreasing SAdd (lp_coef lp) i r) M0) as [HN|ST].
    + left. exists (S i). split; [lia|]. rewrite ratio_at_S. exact HN.
    + right. rewrite ratio_at_S, qn_S. qcq. lra.
Qed.

Lemma dec_add_stops (lp : @lparams NumQc) :
  validate_coef Decreasing lp = true ->
  exists j, (j <= Z.to_nat (Qceiling (1 / lp_coef lp)%Qc))%nat /\
            has_next Decreasing lp (ratio_at Decreasing SAdd (lp_coef lp) j (lp_max lp)) = false.
Proof.
  intros V. apply validate_coef_spec in V. destruct V as [[C0 C1] [_ VD]].
  destruct (VD eq_refl) as [[M0 M1] [X0 X1]].
  set (n := Z.to_nat (Qceiling (1 / lp_coef lp)%Qc)).
  destruct (dec_add_progress lp (lp_max lp) M0 n) as [H|H]; [exact H|].
  exists n. split; [lia|]. cbn [has_next]. apply nltb_false_iff.
  pose proof (coef_ceiling (lp_coef lp) C0) as K. fold n in K. qcq. lra.
Qed.

(* decreasing, multiplicative: r_i = r * c^i and (Bernoulli) c^i * (1 + i * (1/c - 1)) <= 1 *)
Lemma Q_bern_step (c ic x n r : Q) :
  (0 < c -> c < 1 -> c * ic == 1 -> 0 <= x -> 0 <= n ->
   x * (1 + n * (ic - 1)) <= r -> x * c * (1 + (n + 1) * (ic - 1)) <= r)%Q.
Proof.
  intros C0 C1 E X0 N0 H.
  assert (F : (x * c * (1 + (n + 1) * (ic - 1)) == x * (1 + n * (1 - c)))%Q).
  { transitivity (x * c + x * (n + 1) * (c * ic) - x * c * (n + 1))%Q; [ring | rewrite E; ring]. }
  assert (G : (c * (ic + c - 2) == (1 - c) * (1 - c))%Q).
  { transitivity (c * ic + c * c - 2 * c)%Q; [ring | rewrite E; ring]. }
  assert (G1 : (0 <= ic + c - 2)%Q) by nra.
  assert (XN : (0 <= x * n)%Q) by nra.
  rewrite F. nra.
Qed.

Lemma Q_bern_final (c ic mn im mx ik q x : Q) :
  (0 < c -> c < 1 -> c * ic == 1 -> 0 < mn -> mn * im == 1 -> 0 < mx -> (ic - 1) * ik == 1 ->
   (mx * im - 1) * ik <= q -> 0 <= q -> 0 <= x -> x * (1 + q * (ic - 1)) <= mx -> x <= mn)%Q.
Proof.
  intros C0 C1 Ec M0 Em X0 Ek K Q0 P B.
  assert (I1 : (1 < ic)%Q) by nra.
  assert (K1 : (mx * im - 1 <= q * (ic - 1))%Q).
  { assert (F : (mx * im - 1 == (mx * im - 1) * ik * (ic - 1))%Q).
    { transitivity ((mx * im - 1) * ((ic - 1) * ik))%Q; [rewrite Ek; ring | ring]. }
    rewrite F. nra. }
  assert (K2 : (mx <= (1 + q * (ic - 1)) * mn)%Q).
  { assert (F : (mx == (mx * im - 1) * mn + mn)%Q).
    { transitivity (mx * (mn * im))%Q; [rewrite Em; ring | ring]. }
    rewrite F at 1. nra. }
  assert (D : (0 < 1 + q * (ic - 1))%Q) by nra.
  destruct (Qlt_le_dec mn x) as [L|L]; [exfalso; nra | exact L].
Qed.

Lemma dec_mul_bernoulli (c r : Qc) :
  0 < c -> c < 1 -> 0 <= r ->
  forall i, 0 <= ratio_at Decreasing SMul c i r /\
            ratio_at Decreasing SMul c i r * (1 + qn i * (1 / c - 1)) <= r.
Proof.
  intros C0 C1 R0.
  assert (E : c * (1 / c) = 1) by (now apply Qc_mul_inv1).
  induction i as [|i [P IH]].
  - cbn [ratio_at]. rewrite qn_0. split; [exact R0|]. qcq. lra.
  - rewrite ratio_at_S, upd_dec_mul, qn_S. pose proof (qn_nonneg i) as Hi.
    split; [qcq; nra|].
    qcq. apply Q_bern_step; assumption.
Qed.

Lemma dec_mul_stops (lp : @lparams NumQc) :
  validate_coef Decreasing lp = true ->
  exists j, (j <= Z.to_nat (Qceiling ((lp_max lp / lp_min lp - 1) / (1 / lp_coef lp - 1))%Qc))%nat /\
            has_next Decreasing lp (ratio_at Decreasing SMul (lp_coef lp) j (lp_max lp)) = false.
Proof.
  intros V. apply validate_coef_spec in V. destruct V as [[C0 C1] [_ VD]].
  destruct (VD eq_refl) as [[M0 M1] [X0 X1]].
  eexists. split; [apply Nat.le_refl|]. cbn [has_next]. apply nltb_false_iff.
  match goal with |- ratio_at _ _ _ ?n _ <= _ =>
    destruct (dec_mul_bernoulli (lp_coef lp) (lp_max lp) C0 C1 (Qclt_le_weak _ _ X0) n) as [P B];
    pose proof (qn_nonneg n) as Q0 end.
  pose proof (qn_ceiling ((lp_max lp / lp_min lp - 1) / (1 / lp_coef lp - 1))) as K.
  assert (Ec : lp_coef lp * (1 / lp_coef lp) = 1) by (now apply Qc_mul_inv1).
  assert (K0 : 0 < 1 / lp_coef lp - 1) by (qcq; nra).
  assert (Ek : (1 / lp_coef lp - 1) * (1 / (1 / lp_coef lp - 1)) = 1) by (now apply Qc_mul_inv1).
  assert (Em : lp_min lp * (1 / lp_min lp) = 1) by (now apply Qc_mul_inv1).
  assert (Ex : (lp_max lp / lp_min lp - 1) / (1 / lp_coef lp - 1) =
               (lp_max lp * (1 / lp_min lp) - 1) * (1 / (1 / lp_coef lp - 1))).
  { unfold Qcdiv. ring. }
  rewrite Ex in K at 1. qcq.
  eapply (Q_bern_final (this (lp_coef lp)) (this (1 / lp_coef lp)) (this (lp_min lp)) (this (1 / lp_min lp))
                       (this (lp_max lp)) (this (1 / (1 / lp_coef lp - 1)))); eassumption.
Qed.

Theorem series_finite d s (lp : @lparams NumQc) crs :
  validate_coef d lp = true ->
  exists levels,
    lv_all (S (series_bound d s lp)) (LIdeal d s lp crs (initial_value d lp)) = Ok levels /\
    (List.length levels <= series_bound d s lp)%nat.
Proof.
  intros V.
  assert (H : exists j, (j + 2 <= series_bound d s lp)%nat /\
                        has_next d lp (ratio_at d s (lp_coef lp) j (initial_value d lp)) = false).
  { destruct d.
    - destruct (inc_stops s lp V) as (j & Hj & HN). exists j. split; [|exact HN].
      unfold series_bound. destruct s; lia.
    - destruct s.
      + destruct (dec_mul_stops lp V) as (j & Hj & HN). exists j. split; [|exact HN].
        unfold series_bound. lia.
      + destruct (dec_add_stops lp V) as (j & Hj & HN). exists j. split; [|exact HN].
        unfold series_bound. lia. }
  destruct H as (j & Hj & HN).
  destruct (lv_all_ideal_stop d s lp crs j (S (series_bound d s lp)) _ HN ltac:(lia)) as (levels & E & L).
  exists levels. split; [exact E | lia].
Qed.

(** every source produced by [lv_init] yields a finite series *)
Lemma lv_all_ths (ths : list (smap Qc)) : @lv_all NumQc (S (List.length ths)) (LThs ths) = Ok ths.
Proof.
  induction ths as [|t ths IH]; [reflexivity|].
  cbn [List.length]. remember (S (List.length ths)) as n eqn:En.
  cbn [lv_all lv_next]. rewrite IH. reflexivity.
Qed.

Lemma lv_init_cases d fn (lp : @lparams NumQc) st src :
  lv_init d fn lp st = Ok src ->
  (exists s crs, src = LIdeal d s lp crs (initial_value d lp) /\ validate_coef d lp = true) \/
  src = LThs (lp_ths lp).
Proof.
  unfold lv_init. intros H.
  destruct (String.eqb fn ""); [discriminate H|].
  assert (I : forall sr,
             (if negb (validate_coef d lp) then Err EInvalid
              else do crs <- mapM (fun c => do r <- values_range (all_alts st) c; Ok (c, r)) (st_crits st);
                   Ok (LIdeal d sr lp crs (initial_value d lp))) = Ok src ->
             exists s crs, src = LIdeal d s lp crs (initial_value d lp) /\ validate_coef d lp = true).
  { intros sr H0. destruct (validate_coef d lp); cbn [negb] in H0; [|discriminate H0].
    destruct (mapM _ (st_crits st)) as [crs|e]; cbn [bind] in H0; [|discriminate H0].
    exists sr, crs. split; [congruence | reflexivity]. }
  destruct (String.eqb fn lv_mul); [left; eapply I; exact H|].
  destruct (String.eqb fn _); [left; eapply I; exact H|].
  destruct (String.eqb fn lv_thresholds); [|discriminate H].
  destruct (forallb _ (lp_ths lp)); [|discriminate H]. right. congruence.
Qed.

Theorem lv_init_series_finite d fn (lp : @lparams NumQc) st src :
  lv_init d fn lp st = Ok src -> exists n levels, lv_all n src = Ok levels /\ (List.length levels < n)%nat.
Proof.
  intros H. destruct (lv_init_cases d fn lp st src H) as [(s & crs & -> & V)| ->].
  - destruct (series_finite d s lp crs V) as (levels & E & L).
    exists (S (series_bound d s lp)), levels. split; [exact E | lia].
  - exists (S (List.length (lp_ths lp))), (lp_ths lp). split; [apply lv_all_ths | lia].
Qed.

(** ** 7. Consecutive levels are strictly monotone *)
Lemma lv_all_ideal_nth d s (lp : @lparams NumQc) crs : forall f r levels,
  lv_all f (LIdeal d s lp crs r) = Ok levels ->
  forall i t, nth_error levels i = Some t ->
    t = level_at crs (ratio_at d s (lp_coef lp) i r) /\
    has_next d lp (ratio_at d s (lp_coef lp) i r) = true.
Proof.
  induction f as [|f IH]; intros r levels H i t Ht; [discriminate H|].
  cbn [lv_all lv_next] in H. destruct (has_next d lp r) eqn:HN.
  - destruct (lv_all f _) as [l'|e] eqn:E; cbn [bind] in H; [|discriminate H].
    injection H as <-. destruct i as [|i]; cbn [nth_error ratio_at] in *.
    + injection Ht as <-. split; [reflexivity | exact HN].
    + apply (IH _ _ E i t Ht).
  - injection H as <-. destruct i; discriminate Ht.
Qed.

Lemma lv_prefix_ideal_nth d s (lp : @lparams NumQc) crs : forall n r i t,
  nth_error (lv_prefix n (LIdeal d s lp crs r)) i = Some t ->
    t = level_at crs (ratio_at d s (lp_coef lp) i r) /\
    has_next d lp (ratio_at d s (lp_coef lp) i r) = true.
Proof.
  induction n as [|n IH]; intros r i t Ht; cbn [lv_prefix lv_next] in Ht; [destruct i; discriminate Ht|].
  destruct (has_next d lp r) eqn:HN; [|destruct i; discriminate Ht].
  destruct i as [|i]; cbn [nth_error ratio_at] in *.
  - injection Ht as <-. split; [reflexivity | exact HN].
  - apply (IH _ i t Ht).
Qed.

(* [lv_prefix] is the prefix of the complete series *)
Lemma lv_prefix_firstn (f : nat) : forall (src : @lsource NumQc) l,
  lv_all f src = Ok l -> forall n, lv_prefix n src = firstn n l.
Proof.
  induction f as [|f IH]; intros src l H n; [discriminate H|].
  cbn [lv_all] in H. destruct n as [|n]; [reflexivity|]. cbn [lv_prefix].
  destruct (lv_next src) as [[t src']|].
  - destruct (lv_all f src') as [l'|e] eqn:E; cbn [bind] in H; [|discriminate H].
    injection H as <-. cbn [firstn]. f_equal. apply (IH _ _ E).
  - injection H as <-. reflexivity.
Qed.

Lemma initial_value_range d (lp : @lparams NumQc) :
  validate_coef d lp = true -> 0 <= initial_value d lp /\ initial_value d lp <= 1.
Proof.
  intros V. apply validate_coef_spec in V. destruct V as [_ [VI VD]]. destruct d; cbn [initial_value].
  - destruct (VI eq_refl) as [[? ?] [? ?]]. auto.
  - destruct (VD eq_refl) as [[? ?] [? ?]]. split; [now apply Qclt_le_weak | assumption].
Qed.

(* the ratio sequence is strictly monotone as long as the series continues *)
Theorem series_ratio_monotone d s (lp : @lparams NumQc) i :
  validate_coef d lp = true ->
  has_next d lp (ratio_at d s (lp_coef lp) i (initial_value d lp)) = true ->
  match d with
  | Increasing => ratio_at d s (lp_coef lp) i (initial_value d lp) < ratio_at d s (lp_coef lp) (S i) (initial_value d lp)
  | Decreasing => ratio_at d s (lp_coef lp) (S i) (initial_value d lp) < ratio_at d s (lp_coef lp) i (initial_value d lp)
  end.
Proof.
  intros V HN. destruct (initial_value_range d lp V) as [I0 I1].
  pose proof V as V'. apply validate_coef_spec in V'. destruct V' as [[C0 C1] _].
  destruct (ratio_at_range d s (lp_coef lp) i _ C0 C1 I0 I1) as [R0 R1].
  rewrite ratio_at_S. destruct (series_strict d s lp _ V R0 R1 HN) as (SI & SD & _).
  destruct d; [apply SI | apply SD]; reflexivity.
Qed.

Definition level_moves (d : direction) (cost : bool) (v1 v2 : Qc) : Prop :=
  match d, cost with
  | Increasing, false => v1 < v2      (* gain threshold goes up *)
  | Increasing, true => v2 < v1       (* cost threshold goes down *)
  | Decreasing, false => v2 < v1
  | Decreasing, true => v1 < v2
  end.

Lemma level_value_mono (cr : @crit NumQc) (mn mx r1 r2 : Qc) :
  mn < mx -> r1 < r2 ->
  if is_cost cr then level_value cr mn mx r2 < level_value cr mn mx r1
  else level_value cr mn mx r1 < level_value cr mn mx r2.
Proof. intros A B. unfold level_value. destruct (is_cost cr); qcq; nra. Qed.

Lemma levels_monotone_core d s (lp : @lparams NumQc) crs (levels : list (smap Qc)) i t1 t2 cr mn mx :
  (forall i t, nth_error levels i = Some t ->
     t = level_at crs (ratio_at d s (lp_coef lp) i (initial_value d lp)) /\
     has_next d lp (ratio_at d s (lp_coef lp) i (initial_value d lp)) = true) ->
  validate_coef d lp = true -> NoDup (crs_ids crs) ->
  nth_error levels i = Some t1 -> nth_error levels (S i) = Some t2 ->
  In (cr, (mn, mx)) crs -> mn < mx ->
  exists v1 v2 : Qc, mget (c_id cr) t1 = Some v1 /\ mget (c_id cr) t2 = Some v2 /\
                level_moves d (is_cost cr) v1 v2.
Proof.
  intros Hchar V ND H1 H2 I NDG.
  destruct (Hchar _ _ H1) as [-> HN1]. destruct (Hchar _ _ H2) as [-> _].
  pose proof (series_ratio_monotone d s lp i V HN1) as M.
  exists (level_value cr mn mx (ratio_at d s (lp_coef lp) i (initial_value d lp))),
         (level_value cr mn mx (ratio_at d s (lp_coef lp) (S i) (initial_value d lp))).
  split; [apply (level_at_formula crs _ cr mn mx ND I)|].
  split; [apply (level_at_formula crs _ cr mn mx ND I)|].
  unfold level_moves. destruct d.
  - pose proof (level_value_mono cr mn mx _ _ NDG M) as K. destruct (is_cost cr); exact K.
  - pose proof (level_value_mono cr mn mx _ _ NDG M) as K. destruct (is_cost cr); exact K.
Qed.

Theorem series_levels_monotone d s (lp : @lparams NumQc) crs f levels i t1 t2 cr mn mx :
  validate_coef d lp = true -> NoDup (crs_ids crs) ->
  lv_all f (LIdeal d s lp crs (initial_value d lp)) = Ok levels ->
  nth_error levels i = Some t1 -> nth_error levels (S i) = Some t2 ->
  In (cr, (mn, mx)) crs -> mn < mx ->
  exists v1 v2 : Qc, mget (c_id cr) t1 = Some v1 /\ mget (c_id cr) t2 = Some v2 /\
                level_moves d (is_cost cr) v1 v2.
Proof.
  intros V ND E. apply (levels_monotone_core d s lp crs levels); try assumption.
  apply (lv_all_ideal_nth d s lp crs f _ _ E).
Qed.

Theorem series_prefix_monotone d s (lp : @lparams NumQc) crs n i t1 t2 cr mn mx :
  validate_coef d lp = true -> NoDup (crs_ids crs) ->
  nth_error (lv_prefix n (LIdeal d s lp crs (initial_value d lp))) i = Some t1 ->
  nth_error (lv_prefix n (LIdeal d s lp crs (initial_value d lp))) (S i) = Some t2 ->
  In (cr, (mn, mx)) crs -> mn < mx ->
  exists v1 v2 : Qc, mget (c_id cr) t1 = Some v1 /\ mget (c_id cr) t2 = Some v2 /\
                level_moves d (is_cost cr) v1 v2.
Proof.
  intros V ND. apply (levels_monotone_core d s lp crs _); try assumption.
  apply (lv_prefix_ideal_nth d s lp crs n).
Qed.

(** ** 8. Non-vacuity: concrete series (evaluated on [NumQc]; values shown as reduced fractions) *)
Definition show_levels (r : res (list (smap Qc))) : res (list (list (string * Q))) :=
  match r with
  | Ok l => Ok (map (map (fun kv : string * Qc => (fst kv, this (snd kv)))) l)
  | Err e => Err e
  end.

Definition ex_gain : @crit NumQc := {| c_id := "g"; c_type := TGain; c_range := None |}.
Definition ex_cost : @crit NumQc := {| c_id := "k"; c_type := TCost; c_range := None |}.
Definition ex_alt (id : string) (g k : Z) : @alt NumQc :=
  {| a_id := id; a_vals := [("g", Q2Qc (inject_Z g)); ("k", Q2Qc (inject_Z k))] |}.
Definition ex_lp (c mn mx : Qc) : @lparams NumQc := {| lp_coef := c; lp_max := mx; lp_min := mn; lp_ths := [] |}.
Definition ex_state (crs : list (@crit NumQc)) (lp : @lparams NumQc) : @state NumQc :=
  {| st_notcons := [ex_alt "a" 10 100]; st_cons := [ex_alt "b" 20 300]; st_crits := crs;
     st_params := PAspect lv_additive lp 0%Z [] false |}.
Definition ex_lp1 := ex_lp (Q2Qc (1 # 4)) (Q2Qc (1 # 4)) (Q2Qc (3 # 4)).

(* coefficient 1/4, minValue 1/4, maxValue 3/4, additive increasing, one gain criterion observed on
   [10, 20]: ratios 1/4, 1/2 (3/4 itself is not produced: [has_next] is strict); thresholds 12.5, 15 *)
Example ex_additive_increasing :
  show_levels (do src <- lv_init Increasing lv_additive ex_lp1 (ex_state [ex_gain] ex_lp1); lv_all 10 src)
  = Ok [[("g", 25 # 2)]; [("g", 15 # 1)]]%Q.
Proof. vm_compute. reflexivity. Qed.

Example ex_additive_increasing_ratios :
  map (fun i => this (ratio_at Increasing SAdd (Q2Qc (1 # 4)) i (Q2Qc (1 # 4)))) [0; 1; 2; 3; 4]%nat
  = [1 # 4; 1 # 2; 3 # 4; 1 # 1; 1 # 1]%Q.
Proof. vm_compute. reflexivity. Qed.

Example ex_additive_increasing_bound : series_bound Increasing SAdd ex_lp1 = 6%nat.
Proof. vm_compute. reflexivity. Qed.

(* the same series on a gain and a cost criterion (cost observed on [100, 300]): the cost threshold
   goes down from max: 300 - 200/4 = 250, 300 - 200/2 = 200 *)
Example ex_additive_increasing_cost :
  show_levels (do src <- lv_init Increasing lv_additive ex_lp1 (ex_state [ex_gain; ex_cost] ex_lp1); lv_all 10 src)
  = Ok [[("g", 25 # 2); ("k", 250 # 1)]; [("g", 15 # 1); ("k", 200 # 1)]]%Q.
Proof. vm_compute. reflexivity. Qed.

(* multiplicative increasing from 1/4 to 1: (1+r)(1+c)-1 = 9/16, 61/64 and then min(.., 1) = 1 stops *)
Example ex_mul_increasing :
  let lp := ex_lp (Q2Qc (1 # 4)) (Q2Qc (1 # 4)) (Q2Qc 1) in
  show_levels (do src <- lv_init Increasing lv_mul lp (ex_state [ex_gain] lp); lv_all 10 src)
  = Ok [[("g", 25 # 2)]; [("g", 125 # 8)]; [("g", 625 # 32)]]%Q.
Proof. vm_compute. reflexivity. Qed.

(* multiplicative decreasing from 1 down to (not including) 1/4 with coefficient 1/2: ratios 1, 1/2 *)
Example ex_mul_decreasing :
  let lp := ex_lp (Q2Qc (1 # 2)) (Q2Qc (1 # 4)) (Q2Qc 1) in
  show_levels (do src <- lv_init Decreasing lv_mul lp (ex_state [ex_gain; ex_cost] lp); lv_all 10 src)
  = Ok [[("g", 20 # 1); ("k", 100 # 1)]; [("g", 15 # 1); ("k", 200 # 1)]]%Q.
Proof. vm_compute. reflexivity. Qed.

Example ex_mul_decreasing_bound :
  series_bound Decreasing SMul (ex_lp (Q2Qc (1 # 2)) (Q2Qc (1 # 4)) (Q2Qc 1)) = 5%nat.
Proof. vm_compute. reflexivity. Qed.

(* subtractive decreasing from 3/4 with coefficient 1/2 and minValue 1/8: 3/4, 1/4, then max(-1/4, 0) = 0 stops *)
Example ex_sub_decreasing :
  let lp := ex_lp (Q2Qc (1 # 2)) (Q2Qc (1 # 8)) (Q2Qc (3 # 4)) in
  show_levels (do src <- lv_init Decreasing lv_subtractive lp (ex_state [ex_gain] lp); lv_all 10 src)
  = Ok [[("g", 35 # 2)]; [("g", 25 # 2)]]%Q.
Proof. vm_compute. reflexivity. Qed.

(* out-of-domain parameters are rejected by Initialize: coefficient 1, decreasing minValue 0, maxValue > 1 *)
Example ex_rejected :
  let st := ex_state [ex_gain] ex_lp1 in
  (is_ok (lv_init Increasing lv_additive (ex_lp (Q2Qc 1) (Q2Qc (1 # 4)) (Q2Qc (3 # 4))) st),
   is_ok (lv_init Decreasing lv_mul (ex_lp (Q2Qc (1 # 2)) (Q2Qc 0) (Q2Qc 1)) st),
   is_ok (lv_init Increasing lv_mul (ex_lp (Q2Qc (1 # 2)) (Q2Qc 0) (Q2Qc 2)) st),
   is_ok (lv_init Increasing lv_additive (ex_lp (Q2Qc (1 # 2)) (Q2Qc 0) (Q2Qc 1)) st))
  = (false, false, false, true).
Proof. vm_compute. reflexivity. Qed.

(* the validation is what makes the series finite: without it (source built by hand) an increasing
   series with maxValue 2 sticks at ratio 1, and a multiplicative decreasing series with minValue 0
   never reaches 0 *)
Example ex_unvalidated_diverges :
  (is_ok (@lv_all NumQc 50 (LIdeal Increasing SAdd (ex_lp (Q2Qc (1 # 2)) (Q2Qc 0) (Q2Qc 2)) [] (Q2Qc 0))),
   is_ok (@lv_all NumQc 50 (LIdeal Decreasing SMul (ex_lp (Q2Qc (1 # 2)) (Q2Qc 0) (Q2Qc 1)) [] (Q2Qc 1))))
  = (false, false).
Proof. vm_compute. reflexivity. Qed.

(* [level_at_formula] needs distinct ids: with a duplicated id the last entry wins *)
Example ex_duplicate_ids :
  let crs := [(ex_gain, (Q2Qc 0, Q2Qc 10)); (ex_gain, (Q2Qc 0, Q2Qc 100))] in
  option_map this (mget "g" (@level_at NumQc crs (Q2Qc (1 # 2)))) = Some (50 # 1)%Q.
Proof. vm_compute. reflexivity. Qed.

(* [series_levels_monotone] needs mn < mx: a degenerate range gives constant thresholds *)
Example ex_degenerate_range :
  show_levels (@lv_all NumQc 10 (LIdeal Increasing SAdd ex_lp1 [(ex_gain, (Q2Qc 5, Q2Qc 5))] (Q2Qc (1 # 4))))
  = Ok [[("g", 5 # 1)]; [("g", 5 # 1)]]%Q.
Proof. vm_compute. reflexivity. Qed.

(* minValue >= maxValue passes the validation and gives the empty series (no level at all) *)
Example ex_min_ge_max :
  let lp := ex_lp (Q2Qc (1 # 4)) (Q2Qc (3 # 4)) (Q2Qc (3 # 4)) in
  (validate_coef Increasing lp,
   show_levels (do src <- lv_init Increasing lv_additive lp (ex_state [ex_gain] lp); lv_all 10 src))
  = (true, Ok []).
Proof. vm_compute. reflexivity. Qed.
