(** * C08, declaratively: soundness of the checker [C08_ok] (Check/C08.v).

    Property text (C08): "`biases` in the response has one entry per non-disabled requested bias, in request
    order, echoing its `name` and `applyProbability`; a disabled bias is equivalent to leaving it out, a bias
    that does not fire reports `props: null` and changes nothing, probability 1 (the default) always fires and
    probability 0 never does. Whether the bias at a given enabled position fires depends only on
    `biasApplyRandomSeed`, that position and its own probability - monotonically in the probability - and over
    many seeds it fires with the stated frequency."

    The checker sees, per echo of the response, the triple (name, applyProbability, props present); "props
    present" is what is called "fired" below.

    Contents
    - A. declarative notions: [enabled_in_order] (the non-disabled biases of the request, in request order),
         [seeded_stream] (the stream the environment records for a seed), the record [C08_echoes] (one field
         per clause) and [C08_spec_R] / [C08_spec].
    - B. [C08_ok_sound] (any carrier), [C08_ok_sound_exact] (carriers with [OrdLaws]: the echoed probability
         IS the requested one), and [C08_spec_complete]: the specification is exactly what the checker tests.
    - C. consequences: membership form of "one entry per non-disabled requested bias"
         ([C08_echo_of_enabled_bias], [C08_enabled_bias_echoed]), "a disabled bias is equivalent to leaving it
         out" on the level of the echoes ([C08_disabled_left_out]), "depends only on the seed, the position and
         its own probability" ([C08_fired_depends_only]).
    - D. on [NumQc]: [C08_ok_sound_Qc] (with [<] of the rationals), probability 1 / 0 for draws in [0,1)
         ([C08_prob_one_fired], [C08_prob_zero_not_fired]), monotonicity ([C08_fired_monotone]).
    - E. non-vacuity examples, among them the criteria-mixing exception. *)
From Coq Require Import ZArith QArith Qcanon Bool List String Lia.
From RDM Require Import Base.Num Base.NumQc Base.Util Model.Data Model.Biases Model.Pipeline Check.C08.
From RDM Require Import Proofs.LevelFacts.
Import ListNotations.
Local Open Scope string_scope.
Local Open Scope list_scope.

(** ** A. Declarative notions *)
Section Spec.
  Context {N : Num}.

  (* the three observed components of an echo *)
  Definition o_name (o : oecho) : string := fst (fst o).
  Definition o_prob (o : oecho) : num := snd (fst o).
  Definition o_fired (o : oecho) : bool := snd o.

  (** [enabled_in_order l l']: [l'] consists of the non-disabled biases of [l], each kept once, in the order
      of [l]. *)
  Inductive enabled_in_order : list biasreq -> list biasreq -> Prop :=
  | eio_nil : enabled_in_order [] []
  | eio_disabled b l l' : b_disabled b = true -> enabled_in_order l l' -> enabled_in_order (b :: l) l'
  | eio_enabled b l l' : b_disabled b = false -> enabled_in_order l l' -> enabled_in_order (b :: l) (b :: l').

  (** [seeded_stream e seed s]: [s] is the stream the environment records for [seed] (its first record for
      that seed); a seed without a record has the empty stream. *)
  Definition seeded_stream (e : env) (seed : Z) (s : list num) : Prop :=
    (exists pre post, env_streams e = pre ++ (seed, s) :: post /\ forall k l, In (k, l) pre -> k <> seed)
    \/ (s = [] /\ forall k l, In (k, l) (env_streams e) -> k <> seed).

  (** The clauses, position by position: [bs] are the enabled biases, [stream] the draws, [obs] the echoes.
      [R] is how the echoed probability is compared with the requested one. *)
  Record C08_echoes (R : num -> num -> Prop) (bs : list biasreq) (stream : list num) (obs : list oecho)
    : Prop := {
    (* "one entry per non-disabled requested bias" *)
    one_echo_per_enabled_bias : List.length obs = List.length bs;
    (* every enabled position has its draw *)
    one_draw_per_enabled_bias : (List.length bs <= List.length stream)%nat;
    (* "in request order, echoing its name" *)
    echo_name_in_request_order : forall i b o,
      nth_error bs i = Some b -> nth_error obs i = Some o -> o_name o = b_name b;
    (* "and applyProbability" *)
    echo_apply_probability : forall i b o,
      nth_error bs i = Some b -> nth_error obs i = Some o -> R (o_prob o) (b_prob b);
    (* an echo reported as fired: the probability exceeds the draw of its enabled position *)
    fired_only_if_probability_exceeds_draw : forall i b o d,
      nth_error bs i = Some b -> nth_error obs i = Some o -> nth_error stream i = Some d ->
      o_fired o = true -> nltb d (b_prob b) = true;
    (* conversely, for every bias but criteria mixing *)
    probability_exceeds_draw_fires_unless_mixing : forall i b o d,
      nth_error bs i = Some b -> nth_error obs i = Some o -> nth_error stream i = Some d ->
      b_name b <> b_mixing -> nltb d (b_prob b) = true -> o_fired o = true;
  }.

  Definition C08_spec_R (R : num -> num -> Prop) (e : env) (req : request) (obs : list oecho) : Prop :=
    exists bs stream,
      enabled_in_order (r_biases req) bs /\
      seeded_stream e (r_seed req) stream /\
      C08_echoes R bs stream obs.

  (* with the equality test the checkers use on observed numbers *)
  Definition C08_spec := C08_spec_R (fun x y => nsame x y = true).
  (* with equality *)
  Definition C08_spec_exact := C08_spec_R eq.

  (** *** [enabled_in_order] determines its second argument, and it is what the model computes *)
  Lemma enabled_biases_in_order (req : request) : enabled_in_order (r_biases req) (enabled_biases req).
  Proof.
    unfold enabled_biases. induction (r_biases req) as [|b l IH]; cbn [filter]; [constructor|].
    destruct (b_disabled b) eqn:E; cbn [negb]; [apply eio_disabled|apply eio_enabled]; assumption.
  Qed.

  Lemma enabled_in_order_fun l l1 l2 : enabled_in_order l l1 -> enabled_in_order l l2 -> l1 = l2.
  Proof.
    intros H1. revert l2. induction H1 as [|b l l' Hd _ IH|b l l' Hd _ IH]; intros l2 H2.
    - inversion H2; reflexivity.
    - inversion H2; subst; [apply IH; assumption|congruence].
    - inversion H2; subst; [congruence|f_equal; apply IH; assumption].
  Qed.

  Lemma enabled_in_order_In l l' : enabled_in_order l l' ->
    forall b, In b l' <-> In b l /\ b_disabled b = false.
  Proof.
    induction 1 as [|b0 l l' Hd _ IH|b0 l l' Hd _ IH]; intros b; cbn [In].
    - tauto.
    - rewrite IH. split.
      + intros [A B]; auto.
      + intros [[A|A] B]; [subst; congruence|auto].
    - rewrite IH. split.
      + intros [A|[A B]]; [subst; auto|auto].
      + intros [[A|A] B]; auto.
  Qed.

  (** *** [seeded_stream] determines the stream, and it is what the model reads *)
  Lemma lookupZ_none {A} seed (l : list (Z * A)) :
    lookupZ seed l = None -> forall k v, In (k, v) l -> k <> seed.
  Proof.
    induction l as [|[k' v'] l IH]; cbn [lookupZ In]; intros H k v Hin; [contradiction|].
    destruct (Z.eqb seed k') eqn:E; [discriminate|]. apply Z.eqb_neq in E.
    destruct Hin as [Hin|Hin]; [inversion Hin; subst; congruence|eapply IH; eassumption].
  Qed.

  Lemma lookupZ_some {A} seed (l : list (Z * A)) s :
    lookupZ seed l = Some s ->
    exists pre post, l = pre ++ (seed, s) :: post /\ forall k v, In (k, v) pre -> k <> seed.
  Proof.
    induction l as [|[k' v'] l IH]; cbn [lookupZ]; intros H; [discriminate|].
    destruct (Z.eqb seed k') eqn:E.
    - apply Z.eqb_eq in E. inversion H; subst. exists [], l. split; [reflexivity|]. intros k v [].
    - apply Z.eqb_neq in E. destruct (IH H) as (pre & post & -> & Hp).
      exists ((k', v') :: pre), post. split; [reflexivity|].
      intros k v [Hin|Hin]; [inversion Hin; subst; congruence|eapply Hp; eassumption].
  Qed.

  Lemma lookupZ_first {A} seed (pre post : list (Z * A)) s :
    (forall k v, In (k, v) pre -> k <> seed) -> lookupZ seed (pre ++ (seed, s) :: post) = Some s.
  Proof.
    induction pre as [|[k' v'] pre IH]; intros Hp; cbn [app lookupZ].
    - rewrite Z.eqb_refl. reflexivity.
    - destruct (Z.eqb seed k') eqn:E.
      + apply Z.eqb_eq in E. exfalso. apply (Hp k' v'); [left; reflexivity|congruence].
      + apply IH. intros k v Hin. apply (Hp k v). right. exact Hin.
  Qed.

  Lemma new_rng_seeded_stream e seed : seeded_stream e seed (new_rng e seed).
  Proof.
    unfold seeded_stream, new_rng. destruct (lookupZ seed (env_streams e)) as [s|] eqn:E.
    - left. apply lookupZ_some. exact E.
    - right. split; [reflexivity|]. apply lookupZ_none. exact E.
  Qed.

  Lemma seeded_stream_fun e seed s : seeded_stream e seed s -> s = new_rng e seed.
  Proof.
    unfold seeded_stream, new_rng. intros [(pre & post & -> & Hp)|[-> Hn]].
    - rewrite (lookupZ_first _ _ _ _ Hp). reflexivity.
    - destruct (lookupZ seed (env_streams e)) as [s|] eqn:E; [|reflexivity].
      destruct (lookupZ_some _ _ _ E) as (pre & post & El & _).
      exfalso. apply (Hn seed s); [|reflexivity]. rewrite El. apply in_or_app. right. left. reflexivity.
  Qed.
End Spec.

(** ** B. Soundness (and exactness) of the checker *)
Section Sound.
  Context {N : Num}.

  (* what the checker tests at one position *)
  Definition pos_ok (b : biasreq) (d : num) (o : oecho) : bool :=
    String.eqb (o_name o) (b_name b) && nsame (o_prob o) (b_prob b)
    && (Bool.eqb (o_fired o) (nltb d (b_prob b))
        || (String.eqb (o_name o) b_mixing && negb (o_fired o) && nltb d (b_prob b))).

  Lemma pos_ok_sound b d o : pos_ok b d o = true ->
    o_name o = b_name b /\ nsame (o_prob o) (b_prob b) = true /\
    (o_fired o = true -> nltb d (b_prob b) = true) /\
    (b_name b <> b_mixing -> nltb d (b_prob b) = true -> o_fired o = true).
  Proof.
    unfold pos_ok. intros H.
    apply andb_true_iff in H as [H H3]. apply andb_true_iff in H as [H1 H2].
    apply String.eqb_eq in H1. split; [exact H1|]. split; [exact H2|].
    apply orb_true_iff in H3 as [H3|H3].
    - apply eqb_prop in H3. rewrite H3. split; auto.
    - apply andb_true_iff in H3 as [H3 H5]. apply andb_true_iff in H3 as [H3 H4].
      apply String.eqb_eq in H3. apply negb_true_iff in H4. split.
      + intros _. exact H5.
      + intros Hm. congruence.
  Qed.

  Lemma pos_ok_complete b d o :
    o_name o = b_name b -> nsame (o_prob o) (b_prob b) = true ->
    (o_fired o = true -> nltb d (b_prob b) = true) ->
    (b_name b <> b_mixing -> nltb d (b_prob b) = true -> o_fired o = true) ->
    pos_ok b d o = true.
  Proof.
    intros H1 H2 H3 H4. unfold pos_ok. rewrite H1, String.eqb_refl, H2. cbn [andb].
    destruct (o_fired o) eqn:Ef.
    - rewrite (H3 eq_refl). reflexivity.
    - destruct (nltb d (b_prob b)) eqn:Ed; [|reflexivity]. cbn [Bool.eqb orb negb andb].
      destruct (String.eqb (b_name b) b_mixing) eqn:Em; [reflexivity|].
      apply String.eqb_neq in Em. specialize (H4 Em eq_refl). discriminate H4.
  Qed.

  Lemma echoes_ok_cons b bs stream obs :
    echoes_ok (b :: bs) stream obs = true ->
    exists d stream' o obs', stream = d :: stream' /\ obs = o :: obs' /\
      pos_ok b d o = true /\ echoes_ok bs stream' obs' = true.
  Proof.
    cbn [echoes_ok]. destruct obs as [|[[n p] f] obs']; [discriminate|].
    destruct stream as [|d stream']; [discriminate|]. intros H.
    apply andb_true_iff in H as [H H4].
    exists d, stream', (n, p, f), obs'. split; [reflexivity|]. split; [reflexivity|].
    split; [exact H|exact H4].
  Qed.

  Lemma echoes_ok_nth bs : forall stream obs,
    echoes_ok bs stream obs = true ->
    List.length obs = List.length bs /\ (List.length bs <= List.length stream)%nat /\
    forall i b o d, nth_error bs i = Some b -> nth_error obs i = Some o -> nth_error stream i = Some d ->
      pos_ok b d o = true.
  Proof.
    induction bs as [|b bs IH]; intros stream obs H.
    - destruct obs; [|discriminate H]. split; [reflexivity|]. split; [cbn; lia|].
      intros [|i] b o d Hb; discriminate Hb.
    - apply echoes_ok_cons in H. destruct H as (d & stream' & o & obs' & -> & -> & Hp & Hr).
      destruct (IH _ _ Hr) as (L1 & L2 & Hi).
      split; [cbn [List.length]; lia|]. split; [cbn [List.length]; lia|].
      intros [|i] b0 o0 d0 Hb Ho Hd; cbn [nth_error] in *.
      + inversion Hb; inversion Ho; inversion Hd; subst. exact Hp.
      + eapply Hi; eassumption.
  Qed.

  Theorem echoes_ok_sound bs stream obs :
    echoes_ok bs stream obs = true -> C08_echoes (fun x y => nsame x y = true) bs stream obs.
  Proof.
    intros H. destruct (echoes_ok_nth _ _ _ H) as (L1 & L2 & Hi).
    assert (Hd : forall i b o, nth_error bs i = Some b -> nth_error obs i = Some o ->
              exists d, nth_error stream i = Some d).
    { intros i b o Hb _. destruct (nth_error stream i) as [d|] eqn:E; [eauto|].
      apply nth_error_None in E. assert (i < List.length bs)%nat by (apply nth_error_Some; congruence). lia. }
    constructor; [exact L1|exact L2| | | |].
    - intros i b o Hb Ho. destruct (Hd _ _ _ Hb Ho) as [d Hs].
      apply (pos_ok_sound _ _ _ (Hi _ _ _ _ Hb Ho Hs)).
    - intros i b o Hb Ho. destruct (Hd _ _ _ Hb Ho) as [d Hs].
      apply (pos_ok_sound _ _ _ (Hi _ _ _ _ Hb Ho Hs)).
    - intros i b o d Hb Ho Hs. apply (pos_ok_sound _ _ _ (Hi _ _ _ _ Hb Ho Hs)).
    - intros i b o d Hb Ho Hs. apply (pos_ok_sound _ _ _ (Hi _ _ _ _ Hb Ho Hs)).
  Qed.

  (** the requested theorem, on any carrier *)
  Theorem C08_ok_sound (e : env) (req : request) (obs : list oecho) :
    C08_ok e req obs = true -> C08_spec e req obs.
  Proof.
    unfold C08_ok. intros H. exists (enabled_biases req), (new_rng e (r_seed req)).
    split; [apply enabled_biases_in_order|]. split; [apply new_rng_seeded_stream|].
    apply echoes_ok_sound. exact H.
  Qed.

  (** on carriers with order laws the echoed probability is equal to the requested one *)
  Theorem C08_ok_sound_exact {L : OrdLaws N} (e : env) (req : request) (obs : list oecho) :
    C08_ok e req obs = true -> C08_spec_exact e req obs.
  Proof.
    intros H. destruct (C08_ok_sound _ _ _ H) as (bs & stream & Hb & Hs & [A B C D E F]).
    exists bs, stream. split; [exact Hb|]. split; [exact Hs|].
    constructor; try assumption. intros i b o Hnb Hno. apply same_eq. eapply D; eassumption.
  Qed.

  (** *** Exactness: the specification is no weaker than the checker *)
  Lemma C08_echoes_tail R b bs d stream o obs :
    C08_echoes R (b :: bs) (d :: stream) (o :: obs) -> C08_echoes R bs stream obs.
  Proof.
    intros [A B C D E F]. cbn [List.length] in A, B. constructor; [lia|lia| | | |].
    - intros i. apply (C (S i)).
    - intros i. apply (D (S i)).
    - intros i. apply (E (S i)).
    - intros i. apply (F (S i)).
  Qed.

  Theorem echoes_ok_complete bs : forall stream obs,
    C08_echoes (fun x y => nsame x y = true) bs stream obs -> echoes_ok bs stream obs = true.
  Proof.
    induction bs as [|b bs IH]; intros stream obs H.
    - destruct obs as [|o obs]; [reflexivity|]. destruct H as [A _ _ _ _ _]. discriminate A.
    - destruct obs as [|o obs]; [destruct H as [A _ _ _ _ _]; discriminate A|].
      destruct stream as [|d stream]; [destruct H as [_ B _ _ _ _]; cbn in B; lia|].
      pose proof (IH _ _ (C08_echoes_tail _ _ _ _ _ _ _ H)) as Hr.
      destruct H as [_ _ C D E F].
      assert (Hp : pos_ok b d o = true).
      { apply pos_ok_complete.
        - apply (C 0%nat); reflexivity.
        - apply (D 0%nat); reflexivity.
        - apply (E 0%nat); reflexivity.
        - apply (F 0%nat); reflexivity. }
      destruct o as [[n p] f]. cbn [echoes_ok]. unfold pos_ok, o_name, o_prob, o_fired in Hp.
      cbn [fst snd] in Hp. rewrite Hp, Hr. reflexivity.
  Qed.

  Theorem C08_spec_complete (e : env) (req : request) (obs : list oecho) :
    C08_spec e req obs -> C08_ok e req obs = true.
  Proof.
    intros (bs & stream & Hb & Hs & H). unfold C08_ok.
    rewrite (enabled_in_order_fun _ _ _ (enabled_biases_in_order req) Hb).
    rewrite <- (seeded_stream_fun _ _ _ Hs). apply echoes_ok_complete. exact H.
  Qed.

  Corollary C08_ok_iff_spec (e : env) (req : request) (obs : list oecho) :
    C08_ok e req obs = true <-> C08_spec e req obs.
  Proof. split; [apply C08_ok_sound|apply C08_spec_complete]. Qed.
End Sound.

(** ** C. Consequences on any carrier *)
Section Consequences.
  Context {N : Num}.

  (** every echo is the echo of a non-disabled bias of the request ... *)
  Theorem C08_echo_of_enabled_bias (e : env) (req : request) (obs : list oecho) :
    C08_ok e req obs = true ->
    forall o, In o obs ->
      exists b, In b (r_biases req) /\ b_disabled b = false /\
                o_name o = b_name b /\ nsame (o_prob o) (b_prob b) = true.
  Proof.
    intros H o Ho. destruct (C08_ok_sound _ _ _ H) as (bs & stream & Hb & _ & [A _ C D _ _]).
    apply In_nth_error in Ho. destruct Ho as [i Hi].
    destruct (nth_error bs i) as [b|] eqn:Eb.
    - exists b. assert (Hin : In b bs) by (eapply nth_error_In; eassumption).
      apply (enabled_in_order_In _ _ Hb) in Hin. destruct Hin as [I1 I2].
      split; [exact I1|]. split; [exact I2|]. split; [eapply C|eapply D]; eassumption.
    - apply nth_error_None in Eb. assert (i < List.length obs)%nat by (apply nth_error_Some; congruence). lia.
  Qed.

  (** ... and every non-disabled bias of the request is echoed *)
  Theorem C08_enabled_bias_echoed (e : env) (req : request) (obs : list oecho) :
    C08_ok e req obs = true ->
    forall b, In b (r_biases req) -> b_disabled b = false ->
      exists o, In o obs /\ o_name o = b_name b /\ nsame (o_prob o) (b_prob b) = true.
  Proof.
    intros H b Hin Hd. destruct (C08_ok_sound _ _ _ H) as (bs & stream & Hb & _ & [A _ C D _ _]).
    assert (Hbs : In b bs) by (apply (enabled_in_order_In _ _ Hb); auto).
    apply In_nth_error in Hbs. destruct Hbs as [i Hi].
    destruct (nth_error obs i) as [o|] eqn:Eo.
    - exists o. split; [eapply nth_error_In; eassumption|]. split; [eapply C|eapply D]; eassumption.
    - apply nth_error_None in Eo. assert (i < List.length bs)%nat by (apply nth_error_Some; congruence). lia.
  Qed.

  (** "a disabled bias is equivalent to leaving it out", as far as the echoes go: two requests with the same
      seed and the same enabled biases in order accept exactly the same echoes *)
  Theorem C08_disabled_left_out (e : env) (req req' : request) (bs : list biasreq) (obs : list oecho) :
    r_seed req = r_seed req' ->
    enabled_in_order (r_biases req) bs -> enabled_in_order (r_biases req') bs ->
    C08_ok e req obs = C08_ok e req' obs.
  Proof.
    intros Hs H H'. unfold C08_ok. rewrite Hs.
    rewrite (enabled_in_order_fun _ _ _ (enabled_biases_in_order req) H).
    rewrite (enabled_in_order_fun _ _ _ (enabled_biases_in_order req') H'). reflexivity.
  Qed.

  (** "whether the bias at a given enabled position fires depends only on biasApplyRandomSeed, that position
      and its own probability": two accepted responses to requests with the same seed (same environment)
      whose [i]-th enabled biases have the same probability report the same fired flag at position [i] -
      criteria mixing excepted *)
  Theorem C08_fired_depends_only (e : env) (req req' : request) (obs obs' : list oecho)
      (bs bs' : list biasreq) (i : nat) (b b' : biasreq) (o o' : oecho) :
    C08_ok e req obs = true -> C08_ok e req' obs' = true ->
    r_seed req = r_seed req' ->
    enabled_in_order (r_biases req) bs -> enabled_in_order (r_biases req') bs' ->
    nth_error bs i = Some b -> nth_error bs' i = Some b' ->
    b_prob b = b_prob b' ->
    b_name b <> b_mixing -> b_name b' <> b_mixing ->
    nth_error obs i = Some o -> nth_error obs' i = Some o' ->
    o_fired o = o_fired o'.
  Proof.
    intros H H' Hseed Hb Hb' Hn Hn' Hp Hm Hm' Ho Ho'.
    destruct (C08_ok_sound _ _ _ H) as (bs0 & s & Hb0 & Hs & [_ B _ _ E F]).
    destruct (C08_ok_sound _ _ _ H') as (bs0' & s' & Hb0' & Hs' & [_ B' _ _ E' F']).
    rewrite (enabled_in_order_fun _ _ _ Hb0 Hb) in *. rewrite (enabled_in_order_fun _ _ _ Hb0' Hb') in *.
    apply seeded_stream_fun in Hs, Hs'. rewrite <- Hseed in Hs'. subst s s'.
    destruct (nth_error (new_rng e (r_seed req)) i) as [d|] eqn:Ed.
    - destruct (o_fired o) eqn:Ef; destruct (o_fired o') eqn:Ef'; try reflexivity.
      + pose proof (E _ _ _ _ Hn Ho Ed Ef) as X. rewrite Hp in X.
        rewrite (F' _ _ _ _ Hn' Ho' Ed Hm' X) in Ef'. discriminate.
      + pose proof (E' _ _ _ _ Hn' Ho' Ed Ef') as X. rewrite <- Hp in X.
        rewrite (F _ _ _ _ Hn Ho Ed Hm X) in Ef. discriminate.
    - apply nth_error_None in Ed. assert (i < List.length bs)%nat by (apply nth_error_Some; congruence). lia.
  Qed.
End Consequences.

(** ** D. On the exact rationals *)
Section OnQc.
  Local Open Scope Qc_scope.

  (** position-wise statement with the order of [Qc] *)
  Theorem C08_ok_sound_Qc (e : @env NumQc) (req : @request NumQc) (obs : list (@oecho NumQc)) :
    C08_ok e req obs = true ->
    exists bs stream,
      enabled_in_order (r_biases req) bs /\ seeded_stream e (r_seed req) stream /\
      List.length obs = List.length bs /\
      forall i b, nth_error bs i = Some b ->
        exists o d, nth_error obs i = Some o /\ nth_error stream i = Some d /\
          o_name o = b_name b /\ o_prob o = b_prob b /\
          (o_fired o = true -> d < b_prob b) /\
          (b_name b <> b_mixing -> d < b_prob b -> o_fired o = true).
  Proof.
    intros H. destruct (@C08_ok_sound_exact NumQc OrdQc _ _ _ H) as (bs & stream & Hb & Hs & [A B C D E F]).
    exists bs, stream. split; [exact Hb|]. split; [exact Hs|]. split; [exact A|].
    intros i b Hn.
    assert (Hi : (i < List.length bs)%nat) by (apply nth_error_Some; congruence).
    destruct (nth_error obs i) as [o|] eqn:Eo; [|apply nth_error_None in Eo; lia].
    destruct (nth_error stream i) as [d|] eqn:Ed; [|apply nth_error_None in Ed; lia].
    exists o, d. split; [reflexivity|]. split; [reflexivity|].
    split; [eapply C; eassumption|]. split; [eapply D; eassumption|]. split.
    - intros Hf. apply nltb_iff. eapply E; eassumption.
    - intros Hm Hlt. eapply F; try eassumption. apply nltb_iff. exact Hlt.
  Qed.

  (** probability 1 fires, probability 0 does not - for draws in [0,1), which the checker does NOT test and
      is therefore a hypothesis ([Hdraw]) *)
  Theorem C08_prob_one_fired (e : @env NumQc) (req : @request NumQc) (obs : list (@oecho NumQc))
      bs stream i b o d :
    C08_ok e req obs = true ->
    enabled_in_order (r_biases req) bs -> seeded_stream e (r_seed req) stream ->
    nth_error bs i = Some b -> nth_error obs i = Some o -> nth_error stream i = Some d ->
    forall (Hdraw : 0 <= d /\ d < 1),
    b_prob b = 1 -> b_name b <> b_mixing -> o_fired o = true.
  Proof.
    intros H Hb Hs Hnb Hno Hnd [_ H1] Hp Hm.
    destruct (C08_ok_sound_Qc _ _ _ H) as (bs0 & s0 & Hb0 & Hs0 & _ & Hi).
    rewrite (enabled_in_order_fun _ _ _ Hb0 Hb) in *.
    rewrite (seeded_stream_fun _ _ _ Hs0), <- (seeded_stream_fun _ _ _ Hs) in *.
    destruct (Hi _ _ Hnb) as (o1 & d1 & Ho1 & Hd1 & _ & _ & _ & X).
    rewrite Hno in Ho1. rewrite Hnd in Hd1. inversion Ho1; inversion Hd1; subst o1 d1.
    apply X; [exact Hm|]. rewrite Hp. exact H1.
  Qed.

  Theorem C08_prob_zero_not_fired (e : @env NumQc) (req : @request NumQc) (obs : list (@oecho NumQc))
      bs stream i b o d :
    C08_ok e req obs = true ->
    enabled_in_order (r_biases req) bs -> seeded_stream e (r_seed req) stream ->
    nth_error bs i = Some b -> nth_error obs i = Some o -> nth_error stream i = Some d ->
    forall (Hdraw : 0 <= d /\ d < 1),
    b_prob b = 0 -> o_fired o = false.
  Proof.
    intros H Hb Hs Hnb Hno Hnd [H0 _] Hp.
    destruct (C08_ok_sound_Qc _ _ _ H) as (bs0 & s0 & Hb0 & Hs0 & _ & Hi).
    rewrite (enabled_in_order_fun _ _ _ Hb0 Hb) in *.
    rewrite (seeded_stream_fun _ _ _ Hs0), <- (seeded_stream_fun _ _ _ Hs) in *.
    destruct (Hi _ _ Hnb) as (o1 & d1 & Ho1 & Hd1 & _ & _ & X & _).
    rewrite Hno in Ho1. rewrite Hnd in Hd1. inversion Ho1; inversion Hd1; subst o1 d1.
    destruct (o_fired o) eqn:Ef; [|reflexivity].
    specialize (X eq_refl). rewrite Hp in X. exfalso. eapply Qclt_not_le; eassumption.
  Qed.

  (** "monotonically in the probability": same seed, same enabled position, a larger probability - if the
      smaller one is reported as fired so is the larger one (unless the latter is criteria mixing) *)
  Theorem C08_fired_monotone (e : @env NumQc) (req req' : @request NumQc) (obs obs' : list (@oecho NumQc))
      bs bs' i b b' o o' :
    C08_ok e req obs = true -> C08_ok e req' obs' = true ->
    r_seed req = r_seed req' ->
    enabled_in_order (r_biases req) bs -> enabled_in_order (r_biases req') bs' ->
    nth_error bs i = Some b -> nth_error bs' i = Some b' ->
    b_prob b <= b_prob b' -> b_name b' <> b_mixing ->
    nth_error obs i = Some o -> nth_error obs' i = Some o' ->
    o_fired o = true -> o_fired o' = true.
  Proof.
    intros H H' Hseed Hb Hb' Hn Hn' Hle Hm' Ho Ho' Hf.
    destruct (C08_ok_sound_Qc _ _ _ H) as (bs0 & s & Hb0 & Hs & _ & Hi).
    destruct (C08_ok_sound_Qc _ _ _ H') as (bs0' & s' & Hb0' & Hs' & _ & Hi').
    rewrite (enabled_in_order_fun _ _ _ Hb0 Hb) in *. rewrite (enabled_in_order_fun _ _ _ Hb0' Hb') in *.
    apply seeded_stream_fun in Hs, Hs'. rewrite <- Hseed in Hs'. subst s s'.
    destruct (Hi _ _ Hn) as (o1 & d & Ho1 & Hd & _ & _ & X & _).
    destruct (Hi' _ _ Hn') as (o1' & d' & Ho1' & Hd' & _ & _ & _ & Y).
    rewrite Ho in Ho1. rewrite Ho' in Ho1'. rewrite Hd in Hd'.
    inversion Ho1; inversion Ho1'; inversion Hd'; subst o1 o1' d'.
    apply Y; [exact Hm'|]. eapply Qclt_le_trans; [apply X; exact Hf|exact Hle].
  Qed.
End OnQc.

(** ** E. Non-vacuity: the hypothesis of the theorems is satisfiable (on [NumQc]) *)
Section Examples.
  Let z : Qc := 0%Qc.
  Let half : Qc := Q2Qc (1 # 2).
  Let fp0 : @fparams NumQc := {| fp_name := ""; fp_a := z; fp_b := z; fp_alpha := z; fp_mult := z |}.
  Let props0 : @bprops NumQc :=
    {| bp_ordering := ""; bp_ratio := z; bp_min := 0; bp_max := 0; bp_seed := 0; bp_scaling := z; bp_nonneg := false;
       bp_ref_type := ""; bp_ref_importance := z; bp_ref_seed := 0; bp_new_scaling := z; bp_mix_ratio := z;
       bp_fat_function := ""; bp_fat_value := z; bp_fat_alpha := z; bp_fat_mult := z; bp_fat_query := 0;
       bp_anch_alts := []; bp_anch_loss := fp0; bp_anch_gain := fp0; bp_anch_ref := ""; bp_anch_applier := "";
       bp_anch_not_considered := false |}.
  Let bias (n : string) (dis : bool) (p : Qc) : @biasreq NumQc :=
    {| b_name := n; b_disabled := dis; b_prob := p; b_props := props0 |}.
  (* seed 7 has the stream 1/4, 3/4, 1/2; an earlier-listed other seed and a later duplicate are ignored *)
  Let env1 : @env NumQc :=
    {| env_streams := [(3%Z, [z]); (7%Z, [Q2Qc (1 # 4); Q2Qc (3 # 4); half]); (7%Z, [])]; env_exp := [] |}.
  Let req1 : @request NumQc :=
    {| r_method := ""; r_seed := 7;
       r_biases := [bias b_omission false half;      (* draw 1/4 < 1/2: fires *)
                    bias b_fatigue true 1%Qc;        (* disabled: no echo, no draw *)
                    bias b_reversal false half;      (* draw 3/4 >= 1/2: does not fire *)
                    bias b_mixing false 1%Qc];       (* draw 1/2 < 1: fires, but may report nothing *)
       r_known := []; r_chose := []; r_crits := [];
       r_mp := {| rp_weights := None; rp_electre := None; rp_dist := None; rp_current := ""; rp_seed := 0;
                  rp_random_order := false; rp_draw := ""; rp_function := "";
                  rp_lparams := {| lp_coef := z; lp_max := z; lp_min := z; lp_ths := [] |} |} |}.

  Example C08_accepts :
    C08_ok env1 req1 [(b_omission, half, true); (b_reversal, half, false); (b_mixing, 1%Qc, true)] = true.
  Proof. vm_compute. reflexivity. Qed.

  (* the criteria-mixing exception: also accepted with the last echo unfired *)
  Example C08_accepts_mixing_unfired :
    C08_ok env1 req1 [(b_omission, half, true); (b_reversal, half, false); (b_mixing, 1%Qc, false)] = true.
  Proof. vm_compute. reflexivity. Qed.

  (* rejected: an echo for the disabled bias; a wrong fired flag; a wrong order; a missing echo *)
  Example C08_rejects :
    C08_ok env1 req1 [(b_omission, half, true); (b_fatigue, 1%Qc, true); (b_reversal, half, false);
                      (b_mixing, 1%Qc, true)] = false /\
    C08_ok env1 req1 [(b_omission, half, false); (b_reversal, half, false); (b_mixing, 1%Qc, true)] = false /\
    C08_ok env1 req1 [(b_reversal, half, false); (b_omission, half, true); (b_mixing, 1%Qc, true)] = false /\
    C08_ok env1 req1 [(b_omission, half, true); (b_reversal, half, false)] = false.
  Proof. vm_compute. auto. Qed.

  (* so the specification holds of the accepted data *)
  Example C08_spec_inhabited :
    C08_spec_exact env1 req1 [(b_omission, half, true); (b_reversal, half, false); (b_mixing, 1%Qc, true)].
  Proof. apply (@C08_ok_sound_exact NumQc OrdQc). exact C08_accepts. Qed.
End Examples.

Print Assumptions enabled_biases_in_order.
Print Assumptions enabled_in_order_fun.
Print Assumptions enabled_in_order_In.
Print Assumptions new_rng_seeded_stream.
Print Assumptions seeded_stream_fun.
Print Assumptions echoes_ok_sound.
Print Assumptions C08_ok_sound.
Print Assumptions C08_ok_sound_exact.
Print Assumptions C08_spec_complete.
Print Assumptions C08_ok_iff_spec.
Print Assumptions C08_echo_of_enabled_bias.
Print Assumptions C08_enabled_bias_echoed.
Print Assumptions C08_disabled_left_out.
Print Assumptions C08_fired_depends_only.
Print Assumptions C08_ok_sound_Qc.
Print Assumptions C08_prob_one_fired.
Print Assumptions C08_prob_zero_not_fired.
Print Assumptions C08_fired_monotone.
Print Assumptions C08_accepts.
Print Assumptions C08_accepts_mixing_unfired.
Print Assumptions C08_rejects.
Print Assumptions C08_spec_inhabited.
