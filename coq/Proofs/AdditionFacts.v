(** * C18: concealed and mixed criteria are well-formed additions (instance [NumQc]).
    Random draws are assumed to lie in [0,1): hypothesis [unit_stream] on the stream of a seed. *)
From Coq Require Import ZArith QArith Qcanon Qround Qabs Bool List String Ascii Lia Lqa Permutation.
From RDM Require Import Base.Num Base.NumQc Base.Util Model.Data Model.Rank Model.Utility Model.Levels
  Model.Heuristics Model.Electre Model.Listeners Model.Biases Check.Stage Check.BiasCheckers
  Proofs.SortFacts Proofs.RankFacts Proofs.WfFacts Proofs.AggregateFacts Proofs.LevelFacts.
Import ListNotations.
Local Open Scope string_scope.
Local Open Scope list_scope.

(** ** Generic helpers *)
Lemma nth_opt_In {A} : forall (l : list A) j x, nth_opt j l = Some x -> In x l.
Proof.
  induction l as [|y r IH]; intros j x H; [destruct j; discriminate|].
  destruct j as [|j]; cbn [nth_opt] in H; [injection H as ->; now left|]. right. eapply IH; eassumption.
Qed.

Lemma nth_opt_length {A} : forall (l : list A) j x, nth_opt j l = Some x -> (j < List.length l)%nat.
Proof.
  induction l as [|y r IH]; intros j x H; [destruct j; discriminate|].
  destruct j as [|j]; cbn [nth_opt List.length] in *; [lia|]. apply IH in H. lia.
Qed.

Lemma nth_opt_nth_error {A} : forall (l : list A) j, nth_opt j l = nth_error l j.
Proof. induction l as [|y r IH]; intros [|j]; cbn [nth_opt nth_error]; auto. Qed.

Lemma of_option_ok {A} (o : option A) e x : of_option o e = Ok x -> o = Some x.
Proof. destruct o; cbn [of_option]; intros H; [now injection H as -> | discriminate]. Qed.

(** ** 1. The reference criterion is one of the ranked (= existing) criteria *)
Lemma find_in_range_in : forall (l : list (@wcrit NumQc)) cur ex c,
  find_in_range l cur ex = Some c -> In c (map fst l).
Proof.
  induction l as [|x r IH]; intros cur ex c H; [discriminate|].
  cbn [find_in_range] in H.
  destruct (nleb ex (nadd cur (snd x))).
  - injection H as <-. now left.
  - destruct r as [|y r'].
    + injection H as <-. now left.
    + right. eapply IH. exact H.
Qed.

Theorem reference_in_existing (e : @env NumQc) (ranked : list (@wcrit NumQc)) (p : @bprops NumQc) c :
  reference_criterion e ranked p = Ok c -> In c (map fst ranked).
Proof.
  unfold reference_criterion.
  destruct (String.eqb (bp_ref_type p) "" || String.eqb (bp_ref_type p) rc_importance).
  - intros H. apply of_option_ok in H. eapply find_in_range_in; exact H.
  - destruct (String.eqb (bp_ref_type p) rc_uniform).
    + intros H. apply bind_ok in H as (dg & _ & H). apply bind_ok in H as (x & Hx & H). injection H as <-.
      apply of_option_ok in Hx. apply in_map. eapply nth_opt_In; exact Hx.
    + destruct (String.eqb (bp_ref_type p) rc_weighted); [|discriminate].
      intros H. apply bind_ok in H as (dg & _ & H). apply of_option_ok in H.
      apply find_in_range_in in H. rewrite map_map in H. cbn [fst] in H. exact H.
Qed.

Lemma zip_with_weights_fst : forall (cs : list (@crit NumQc)) w wc,
  zip_with_weights cs w = Ok wc -> map fst wc = cs.
Proof.
  unfold zip_with_weights. induction cs as [|c r IH]; intros w wc H; cbn [mapM] in H.
  - now injection H as <-.
  - apply bind_ok in H as (y & Hy & H). apply bind_ok in H as (ys & Hys & H). injection H as <-.
    apply bind_ok in Hy as (v & _ & Hy). injection Hy as <-. cbn [map fst]. f_equal. eapply IH; exact Hys.
Qed.

Lemma sort_by_weights_perm (cs : list (@crit NumQc)) w r :
  sort_by_weights cs w = Ok r -> Permutation (map fst r) cs.
Proof.
  unfold sort_by_weights. intros H. apply bind_ok in H as (wc & Hwc & H). injection H as <-.
  rewrite <- (zip_with_weights_fst _ _ _ Hwc). apply Permutation_map. apply isort_perm.
Qed.

(** [rank_criteria] = the state's criteria zipped with weights and sorted: a permutation *)
Theorem rank_criteria_perm (s : @state NumQc) ranked :
  rank_criteria s = Ok ranked -> Permutation (map fst ranked) (st_crits s).
Proof.
  unfold rank_criteria. intros H.
  destruct (st_params s) as [wc|wc|w cs|ecs f|w c0 sd rnd dr|fn lp sd w rnd|fn lp sd c0 rnd];
    [apply bind_ok in H as (w0 & _ & H)|apply bind_ok in H as (w0 & _ & H)|apply bind_ok in H as (w0 & _ & H)
    | | | |apply bind_ok in H as (w0 & _ & H)];
    eapply sort_by_weights_perm; exact H.
Qed.

Corollary reference_in_state (e : @env NumQc) (s : @state NumQc) p ranked c :
  rank_criteria s = Ok ranked -> reference_criterion e ranked p = Ok c -> In c (st_crits s).
Proof.
  intros Hr Hc. eapply Permutation_in; [eapply rank_criteria_perm; exact Hr|].
  eapply reference_in_existing; exact Hc.
Qed.

(** ** Arithmetic facts on [Qc] *)
Local Open Scope Qc_scope.

(** draws in [0,1) *)
Definition unit_draw (d : Qc) : Prop := 0 <= d /\ d < 1.
Definition unit_stream (g : @rng NumQc) : Prop := Forall unit_draw g.

Lemma draw_unit (g : @rng NumQc) u g' : unit_stream g -> draw g = Ok (u, g') -> unit_draw u /\ unit_stream g'.
Proof.
  intros Hg H. destruct g as [|x r]; cbn [draw] in H; [discriminate|]. injection H as <- <-.
  inversion Hg; subst. split; assumption.
Qed.

Lemma clamp_lo_mono (lo a b : Qc) : a <= b ->
  (if @nltb NumQc a lo then lo else a) <= (if @nltb NumQc b lo then lo else b).
Proof. intros H. destruct (@nltb NumQc a lo) eqn:E1, (@nltb NumQc b lo) eqn:E2; bconv; qcq; lra. Qed.

Lemma clamp_hi_mono (hi a b : Qc) : a <= b ->
  (if @nltb NumQc hi a then hi else a) <= (if @nltb NumQc hi b then hi else b).
Proof. intros H. destruct (@nltb NumQc hi a) eqn:E1, (@nltb NumQc hi b) eqn:E2; bconv; qcq; lra. Qed.

Lemma clamp_nonneg_mono (f : bool) (a b : Qc) : a <= b ->
  (if f && @nltb NumQc a nzero then @nzero NumQc else a) <= (if f && @nltb NumQc b nzero then @nzero NumQc else b).
Proof.
  intros H. destruct f; cbn [andb]; [|exact H].
  destruct (@nltb NumQc a nzero) eqn:E1, (@nltb NumQc b nzero) eqn:E2; bconv; qcq; lra.
Qed.

Lemma bound_value_mono (p : @bprops NumQc) r (x y : Qc) : x <= y -> bound_value p r x <= bound_value p r y.
Proof.
  intros H. unfold bound_value.
  pose proof (clamp_nonneg_mono (bp_nonneg p) x y H) as H1.
  destruct (@nltb NumQc nzero (bp_scaling p)); [|exact H1].
  apply clamp_hi_mono. apply clamp_lo_mono. exact H1.
Qed.

Lemma bound_value_off (p : @bprops NumQc) r (v : Qc) : bounding_off p = true -> bound_value p r v = v.
Proof.
  unfold bounding_off, bound_value. intros H. apply andb_true_iff in H as [H1 H2].
  apply negb_true_iff in H1, H2. rewrite H1, H2. reflexivity.
Qed.

Lemma interp_between (lo hi u : Qc) : unit_draw u ->
  nmin lo hi <= @nadd NumQc (@nmul NumQc u (@nsub NumQc hi lo)) lo /\
  @nadd NumQc (@nmul NumQc u (@nsub NumQc hi lo)) lo <= nmax lo hi.
Proof.
  intros [U0 U1]. rewrite nmin_Qcmin, nmax_Qcmax.
  destruct (Qcmin_cases lo hi) as [[A ->]|[A ->]]; destruct (Qcmax_cases lo hi) as [[B ->]|[B ->]];
    split; qcq; nra.
Qed.

Lemma nmin_le_nmax (a b : Qc) : nmin a b <= nmax a b.
Proof.
  rewrite nmin_Qcmin, nmax_Qcmax.
  destruct (Qcmin_cases a b) as [[A ->]|[A ->]]; destruct (Qcmax_cases a b) as [[B ->]|[B ->]]; qcq; lra.
Qed.

(** *** 5c. a convex combination lies between its components *)
Theorem mixed_between_components (ratio c1v c2v : Qc) : 0 <= ratio -> ratio <= 1 ->
  nmin c1v c2v <= ratio * c1v + (1 - ratio) * c2v /\ ratio * c1v + (1 - ratio) * c2v <= nmax c1v c2v.
Proof.
  intros R0 R1. rewrite nmin_Qcmin, nmax_Qcmax.
  destruct (Qcmin_cases c1v c2v) as [[A ->]|[A ->]]; destruct (Qcmax_cases c1v c2v) as [[B ->]|[B ->]];
    split; qcq; nra.
Qed.

(** *** the "fraction of a reference weight" test of [new_weight_ok] *)
Definition frac (wn wr : Qc) : bool :=
  (@nleb NumQc nzero wn && @nltb NumQc wn wr) || (@neqb NumQc wn nzero && @neqb NumQc wr nzero)
  || (@nleb NumQc wn nzero && @nltb NumQc wr wn).

Lemma frac_unit (u wr : Qc) : unit_draw u -> frac (@nmul NumQc u wr) wr = true.
Proof.
  intros [U0 U1]. unfold frac.
  destruct (Qclt_le_dec 0 wr) as [P|P].
  - assert (A : @nleb NumQc nzero (@nmul NumQc u wr) = true) by (apply nleb_iff; qcq; nra).
    assert (B : @nltb NumQc (@nmul NumQc u wr) wr = true) by (apply nltb_iff; qcq; nra).
    rewrite A, B. reflexivity.
  - destruct (Qclt_le_dec wr 0) as [M|M].
    + assert (A : @nleb NumQc (@nmul NumQc u wr) nzero = true) by (apply nleb_iff; qcq; nra).
      assert (B : @nltb NumQc wr (@nmul NumQc u wr) = true) by (apply nltb_iff; qcq; nra).
      rewrite A, B. rewrite !orb_true_r. reflexivity.
    + assert (Z : wr = 0) by (apply Qcle_antisym; assumption). subst wr.
      assert (A : @neqb NumQc (@nmul NumQc u 0) nzero = true) by (apply neqb_iff; qcq; nra).
      assert (B : @neqb NumQc 0 nzero = true) by (apply neqb_iff; reflexivity).
      rewrite A, B. cbn [andb]. rewrite orb_true_r. reflexivity.
Qed.

(* zero is a fraction of anything *)
Lemma frac_zero (wr : Qc) : frac (@nmul NumQc 0 wr) wr = true.
Proof. apply frac_unit. split; [apply Qcle_refl | reflexivity]. Qed.

(** *** truncation of non-negative rationals *)
Lemma this_ofZ (z : Z) : (this (qc_ofZ z) == inject_Z z)%Q.
Proof. unfold qc_ofZ, Q2Qc; cbn [this]; apply Qred_correct. Qed.

Lemma truncZ_floor (x : Qc) : 0 <= x -> qc_truncZ x = Qfloor x.
Proof.
  intros H. unfold qc_truncZ, Qfloor. destruct (this x) as [n d] eqn:E. cbn [Qnum Qden].
  apply Z.quot_div_nonneg; [|reflexivity].
  unfold Qcle, Qle in H. rewrite E in H. cbn in H. lia.
Qed.

Lemma truncZ_bounds (x : Qc) (m : Z) : 0 <= x -> (this x < inject_Z m)%Q -> (0 <= qc_truncZ x < m)%Z.
Proof.
  intros H0 H1. rewrite truncZ_floor by exact H0. split.
  - change 0%Z with (Qfloor 0). apply Qfloor_resp_le. exact H0.
  - rewrite Zlt_Qlt. eapply Qle_lt_trans; [apply Qfloor_le | exact H1].
Qed.

Lemma injZ_nonneg (z : Z) : (0 <= z)%Z -> (0 <= inject_Z z)%Q.
Proof. intros H. change 0%Q with (inject_Z 0). rewrite <- Zle_Qle. exact H. Qed.
Lemma injZ_pos (z : Z) : (0 < z)%Z -> (0 < inject_Z z)%Q.
Proof. intros H. change 0%Q with (inject_Z 0). rewrite <- Zlt_Qlt. exact H. Qed.

Lemma truncZ_zero : qc_truncZ 0 = 0%Z.
Proof. reflexivity. Qed.

(** *** 5d. the two mixed criteria are distinct positions of the criteria list *)
Theorem mixed_distinct_components (n : nat) (u1 u2 : Qc) :
  (2 <= n)%nat -> unit_draw u1 -> unit_draw u2 ->
  let i1 := @ntruncZ NumQc (@nmul NumQc u1 (@nofZ NumQc (Z.of_nat n))) in
  let off := (@ntruncZ NumQc (@nmul NumQc u2 (@nofZ NumQc (Z.of_nat n - 2))) + 1)%Z in
  let i2 := ((i1 + off) mod Z.of_nat n)%Z in
  (0 <= i1 < Z.of_nat n)%Z /\ (1 <= off <= Z.of_nat n - 1)%Z /\ (0 <= i2 < Z.of_nat n)%Z /\ i1 <> i2 /\
  (Z.to_nat i1 < n)%nat /\ (Z.to_nat i2 < n)%nat /\ Z.to_nat i1 <> Z.to_nat i2.
Proof.
  intros Hn [A0 A1] [B0 B1] i1 off i2. cbn [ntruncZ nmul nofZ NumQc] in i1, off.
  assert (Hn' : (2 <= Z.of_nat n)%Z) by lia.
  assert (H1 : (0 <= i1 < Z.of_nat n)%Z).
  { unfold i1. apply truncZ_bounds.
    - assert (Q : (0 <= inject_Z (Z.of_nat n))%Q) by (apply injZ_nonneg; lia).
      qcq. rewrite this_ofZ. nra.
    - assert (Q : (0 < inject_Z (Z.of_nat n))%Q) by (apply injZ_pos; lia).
      qcq. rewrite this_ofZ. nra. }
  assert (H2 : (1 <= off <= Z.of_nat n - 1)%Z).
  { unfold off. destruct (Z.eq_dec (Z.of_nat n) 2) as [E|E].
    - rewrite E. change (qc_ofZ (2 - 2)) with 0. replace (u2 * 0) with 0 by ring. rewrite truncZ_zero. lia.
    - assert (T : (0 <= qc_truncZ (u2 * qc_ofZ (Z.of_nat n - 2)) < Z.of_nat n - 2)%Z); [|lia].
      apply truncZ_bounds.
      + assert (Q : (0 <= inject_Z (Z.of_nat n - 2))%Q) by (apply injZ_nonneg; lia).
        qcq. rewrite this_ofZ. nra.
      + assert (Q : (0 < inject_Z (Z.of_nat n - 2))%Q) by (apply injZ_pos; lia).
        qcq. rewrite this_ofZ. nra. }
  assert (H3 : (0 <= i2 < Z.of_nat n)%Z) by (apply Z.mod_pos_bound; lia).
  assert (H4 : i1 <> i2).
  { unfold i2. destruct (Z_lt_le_dec (i1 + off) (Z.of_nat n)) as [L|L].
    - rewrite Z.mod_small by lia. lia.
    - replace (i1 + off)%Z with ((i1 + off - Z.of_nat n) + 1 * Z.of_nat n)%Z by ring.
      rewrite Z.mod_add by lia. rewrite Z.mod_small by lia. lia. }
  repeat split; try lia.
Qed.

(** *** 5e. rescaling to the ground-zero range *)
Lemma this_div (x y : Qc) : (this (x / y) == this x / this y)%Q.
Proof. unfold Qcdiv. rewrite LevelFacts.this_mult, this_inv. reflexivity. Qed.

Lemma scaled_in_target (d w T : Qc) : 0 <= w -> w <= d -> 0 <= T ->
  let sc := if @neqb NumQc d nzero then @nzero NumQc else @ndiv NumQc T d in
  0 <= @nadd NumQc (@nmul NumQc w sc) nzero /\ @nadd NumQc (@nmul NumQc w sc) nzero <= T.
Proof.
  intros W0 W1 HT. cbn zeta. destruct (@neqb NumQc d nzero) eqn:E; bconv.
  - split; qcq; nra.
  - assert (D : 0 < d).
    { apply Qcnot_le_lt. intros C. apply E. apply Qcle_antisym; [exact C|]. apply (Qcle_trans _ w); assumption. }
    cbn [ndiv NumQc]. unfold Qcle, Qclt in *.
    change (@nadd NumQc) with Qcplus. change (@nmul NumQc) with Qcmult. change (@nzero NumQc) with 0.
    rewrite !LevelFacts.this_plus, !LevelFacts.this_mult, this_div, this_0.
    change (this 0) with 0%Q in *.
    set (dq := this d) in *. set (wq := this w) in *. set (Tq := this T) in *.
    assert (I : (0 < / dq)%Q) by (apply Qinv_lt_0_compat; exact D).
    assert (M : (dq * / dq == 1)%Q) by (apply Qmult_inv_r; lra).
    unfold Qdiv. set (s := (/ dq)%Q) in *.
    assert (P : (0 <= Tq * s)%Q) by nra.
    assert (U : (wq * (Tq * s) <= dq * (Tq * s))%Q) by (apply Qmult_le_compat_r; assumption).
    assert (V : (dq * (Tq * s) == Tq)%Q) by (transitivity (Tq * (dq * s))%Q; [ring | rewrite M; ring]).
    split; [nra | lra].
Qed.

Lemma ground_zero_fst (r : Qc * Qc) : fst (@ground_zero_range NumQc r) = 0.
Proof. reflexivity. Qed.

Lemma ground_zero_nonneg (r : Qc * Qc) : 0 <= snd (@ground_zero_range NumQc r).
Proof.
  unfold ground_zero_range. cbn [snd]. rewrite !nmax_Qcmax.
  match goal with |- _ <= Qcmax (Qcmax ?a ?b) ?c => set (x := a); set (y := b); set (z := c) end.
  assert (A : 0 <= x).
  { unfold x. cbn [nabs NumQc]. unfold Qcle. rewrite this_abs. apply Qabs_nonneg. }
  clearbody x y z.
  destruct (Qcmax_cases x y) as [[B ->]|[B ->]];
    [destruct (Qcmax_cases x z) as [[C ->]|[C ->]] | destruct (Qcmax_cases y z) as [[C ->]|[C ->]]]; qcq; lra.
Qed.

(** ** Structural helpers *)
Local Close Scope Qc_scope.

Lemma mset_length_new {A} k (v : A) m : mget k m = None -> List.length (mset k v m) = S (List.length m).
Proof.
  induction m as [|[k' v'] m IH]; cbn [mset mget List.length]; [reflexivity|].
  destruct (String.eqb k k'); [discriminate|]. intros H.
  destruct (String.ltb k k'); cbn [List.length]; [reflexivity|]. now rewrite IH.
Qed.

Lemma Forall2_impl_in {A B} (R R' : A -> B -> Prop) : forall l l',
  Forall2 R l l' -> (forall x y, In x l -> In y l' -> R x y -> R' x y) -> Forall2 R' l l'.
Proof.
  induction 1 as [|x y l l' Hxy HF IH]; intros Himp; constructor.
  - apply Himp; [now left | now left | exact Hxy].
  - apply IH. intros a b Ha Hb. apply Himp; now right.
Qed.

Lemma Forall2_length' {A B} (R : A -> B -> Prop) l l' : Forall2 R l l' -> List.length l = List.length l'.
Proof. induction 1; cbn [List.length]; congruence. Qed.

Lemma fetch_alt'_id_Qc (l : list (@alt NumQc)) id a : fetch_alt' l id = Ok a -> a_id a = id.
Proof.
  induction l as [|x r IH]; cbn [fetch_alt']; [discriminate|].
  destruct (String.eqb (a_id x) id) eqn:E; [|exact IH].
  intros H. injection H as <-. now apply String.eqb_eq.
Qed.

Lemma fetch_alt'_in (l : list (@alt NumQc)) id a : fetch_alt' l id = Ok a -> In a l.
Proof.
  induction l as [|x r IH]; cbn [fetch_alt']; [discriminate|].
  destruct (String.eqb (a_id x) id) eqn:E.
  - intros H. injection H as <-. now left.
  - intros H. right. now apply IH.
Qed.

(* with distinct ids, fetching the id of [a] in a list related pointwise to [l] returns the partner of [a] *)
Lemma fetch_partner (R : @alt NumQc -> @alt NumQc -> Prop) : forall l l',
  Forall2 R l l' -> (forall a a', R a a' -> a_id a' = a_id a) -> NoDup (map a_id l) ->
  forall a a', In a l -> fetch_alt' l' (a_id a) = Ok a' -> R a a'.
Proof.
  induction 1 as [|x x' l l' Hxx HF IH]; intros Hid ND a a' Hin Hf; [destruct Hin|].
  cbn [map] in ND. inversion ND as [|? ? Hnotin ND']; subst.
  cbn [fetch_alt'] in Hf. destruct (String.eqb (a_id x') (a_id a)) eqn:E.
  - injection Hf as <-. apply String.eqb_eq in E. rewrite (Hid _ _ Hxx) in E.
    destruct Hin as [<-|Hin]; [exact Hxx|].
    exfalso. apply Hnotin. rewrite E. now apply in_map.
  - destruct Hin as [<-|Hin].
    + rewrite (Hid _ _ Hxx), String.eqb_refl in E. discriminate.
    + now apply IH.
Qed.

Lemma update_alts_ids (sub l' out : list (@alt NumQc)) : update_alts sub l' = Ok out -> map a_id out = map a_id sub.
Proof.
  unfold update_alts. intros H. apply mapM_Forall2 in H.
  induction H as [|x y l1 l2 Hxy HF IH]; [reflexivity|]. cbn [map]. f_equal; [|exact IH].
  eapply fetch_alt'_id_Qc; exact Hxy.
Qed.

Lemma update_alts_partner (R : @alt NumQc -> @alt NumQc -> Prop) l l' sub out :
  Forall2 R l l' -> (forall a a', R a a' -> a_id a' = a_id a) -> NoDup (map a_id l) ->
  incl sub l -> update_alts sub l' = Ok out -> Forall2 R sub out.
Proof.
  intros HF Hid ND Hincl H. unfold update_alts in H. apply mapM_Forall2 in H.
  eapply Forall2_impl_in; [exact H|]. intros a a' Ha _ Hf. cbv beta in Hf.
  eapply fetch_partner; eauto.
Qed.

Lemma update_alts_in (sub l' out : list (@alt NumQc)) : update_alts sub l' = Ok out -> incl out l'.
Proof.
  unfold update_alts. intros H. apply mapM_Forall2 in H.
  induction H as [|x y l1 l2 Hxy HF IH]; intros z Hz; [destruct Hz|].
  destruct Hz as [<-|Hz]; [eapply fetch_alt'_in; exact Hxy | now apply IH].
Qed.

Lemma with_value_ok (a : @alt NumQc) id v a' : with_value a id v = Ok a' ->
  mhas id (a_vals a) = false /\ a' = {| a_id := a_id a; a_vals := mset id v (a_vals a) |}.
Proof.
  unfold with_value. destruct (mhas id (a_vals a)); [discriminate|]. intros H. injection H as <-. auto.
Qed.

Lemma add_criterion_ok (cs : list (@crit NumQc)) c cs' : add_criterion cs c = Ok cs' ->
  cs' = cs ++ [c] /\ ~ In (c_id c) (map c_id cs).
Proof.
  unfold add_criterion. destruct (mem_str (c_id c) (map c_id cs)) eqn:E; [discriminate|].
  intros H. injection H as <-. split; [reflexivity|]. now apply mem_str_false.
Qed.

(** ** 2. Concealment *)
Definition conc_step (p : @bprops NumQc) (rg : Qc * Qc) (cid : string)
  (st : list (@alt NumQc) * smap Qc * @rng NumQc) (a : @alt NumQc) : res (list (@alt NumQc) * smap Qc * @rng NumQc) :=
  let '(alts, vals, g1) := st in
  do dg <- draw g1;
  let v := bound_value p rg (@nadd NumQc (@nmul NumQc (fst dg) (@nsub NumQc (snd rg) (fst rg))) (fst rg)) in
  do a' <- with_value a cid v;
  Ok (alts ++ [a'], mset (a_id a) v vals, snd dg).

Lemma apply_concealment_inv (e : @env NumQc) cur p st rep : apply_concealment e cur p = Ok (st, rep) ->
  exists ranked ref rr new_all values g2 consd nconsd ag params crits,
    let rg := scale_equally rr (bp_new_scaling p) in
    let newc := {| c_id := not_used_name (st_crits cur) base_concealed; c_type := TGain; c_range := Some rg |} in
    rank_criteria cur = Ok ranked /\ reference_criterion e ranked p = Ok ref /\
    values_range (all_alts cur) ref = Ok rr /\
    fold_left (fun acc a => do s <- acc; conc_step p rg (c_id newc) s a) (isort alt_lt (all_alts cur))
              (Ok ([], [], new_rng e (bp_seed p))) = Ok (new_all, values, g2) /\
    update_alts (st_cons cur) new_all = Ok consd /\ update_alts (st_notcons cur) new_all = Ok nconsd /\
    on_criterion_added newc ref (st_params cur) g2 = Ok ag /\ merge (st_params cur) (fst ag) = Ok params /\
    add_criterion (st_crits cur) newc = Ok crits /\
    st = {| st_notcons := nconsd; st_cons := consd; st_crits := crits; st_params := params |} /\
    rep = RConcealment newc values (fst ag).
Proof.
  unfold apply_concealment. intros H.
  destruct (neqb (bp_new_scaling p) nzero); [discriminate|].
  destruct (negb (valid_bounding p)); [discriminate|].
  apply bind_ok in H as (ranked & Hr & H). apply bind_ok in H as (ref & Href & H).
  apply bind_ok in H as (rr & Hrr & H). cbv zeta in H.
  apply bind_ok in H as ([[new_all values] g2] & Hf & H).
  apply bind_ok in H as (consd & Hc & H). apply bind_ok in H as (nconsd & Hn & H).
  apply bind_ok in H as (ag & Hag & H). apply bind_ok in H as (params & Hp & H).
  apply bind_ok in H as (crits & Hcr & H). injection H as <- <-.
  exists ranked, ref, rr, new_all, values, g2, consd, nconsd, ag, params, crits.
  cbv zeta. repeat split; try assumption.
Qed.

Section ConcFold.
  Variables (p : @bprops NumQc) (rg : Qc * Qc) (cid : string) (g0 : @rng NumQc).

  (* a concealed value: the bounded image of a point of the scaled range picked by a draw *)
  Definition conc_val (v : Qc) : Prop :=
    exists u, unit_draw u /\
      v = bound_value p rg (@nadd NumQc (@nmul NumQc u (@nsub NumQc (snd rg) (fst rg))) (fst rg)).

  Definition ext_basic (a a' : @alt NumQc) : Prop :=
    a_id a' = a_id a /\ mhas cid (a_vals a) = false /\ exists v, a_vals a' = mset cid v (a_vals a).

  (* [a'] is [a] with the value [vals[a]] for the new criterion [cid] *)
  Definition extended_by (vals : smap Qc) (a a' : @alt NumQc) : Prop :=
    a_id a' = a_id a /\ mhas cid (a_vals a) = false /\
    exists v, mget (a_id a) vals = Some v /\ a_vals a' = mset cid v (a_vals a).

  Definition conc_I (s : list (@alt NumQc) * smap Qc * @rng NumQc) (done : list (@alt NumQc)) : Prop :=
    let '(alts, vals, g) := s in
    Forall2 ext_basic done alts
    /\ (forall k, In k (mkeys vals) <-> In k (map a_id done))
    /\ (unit_stream g0 -> unit_stream g /\ forall k v, mget k vals = Some v -> conc_val v)
    /\ (NoDup (map a_id done) -> Forall2 (extended_by vals) done alts /\ List.length vals = List.length done)
    /\ msorted vals = true.

  Lemma conc_I_step s a s' done : conc_I s done -> conc_step p rg cid s a = Ok s' -> conc_I s' (done ++ [a]).
  Proof.
    destruct s as [[alts vals] g]. intros (I1 & I2 & I3 & I4 & I5) H. cbn [conc_step] in H.
    apply bind_ok in H as (dg & Hd & H). cbv zeta in H. apply bind_ok in H as (a' & Ha' & H).
    injection H as <-. apply with_value_ok in Ha' as [Hfresh ->].
    set (v := bound_value p rg (@nadd NumQc (@nmul NumQc (fst dg) (@nsub NumQc (snd rg) (fst rg))) (fst rg))) in *.
    cbn [conc_I]. split; [|split; [|split; [|split]]]; [| | | |now apply mset_msorted].
    - apply Forall2_app; [exact I1|]. constructor; [|constructor].
      split; [reflexivity|]. split; [exact Hfresh|]. exists v. reflexivity.
    - intros k. rewrite mkeys_mset, map_app, in_app_iff, I2. cbn [map In]. intuition congruence.
    - intros U. destruct (I3 U) as [Ug Hv]. destruct dg as [u g']. destruct (draw_unit _ _ _ Ug Hd) as [Uu Ug'].
      split; [exact Ug'|]. intros k v0. destruct (string_dec k (a_id a)) as [->|NE].
      + rewrite mget_mset_same. intros E. injection E as <-. exists u. split; [exact Uu|reflexivity].
      + rewrite mget_mset_other by exact NE. apply Hv.
    - intros ND. rewrite map_app in ND. cbn [map] in ND.
      assert (ND1 : NoDup (map a_id done)) by (eapply NoDup_app_l; exact ND).
      assert (Hnew : ~ In (a_id a) (map a_id done)).
      { intros C. apply NoDup_remove_2 in ND. apply ND. rewrite app_nil_r. exact C. }
      destruct (I4 ND1) as [F L]. split.
      + apply Forall2_app.
        * eapply Forall2_impl_in; [exact F|]. intros b b' Hb _ (E1 & E2 & w & E3 & E4).
          split; [exact E1|]. split; [exact E2|]. exists w. split; [|exact E4].
          rewrite mget_mset_other; [exact E3|]. intros C. apply Hnew. rewrite <- C. now apply in_map.
        * constructor; [|constructor]. split; [reflexivity|]. split; [exact Hfresh|]. exists v.
          split; [apply mget_mset_same | reflexivity].
      + rewrite app_length. cbn [List.length]. rewrite mset_length_new; [lia|].
        apply mget_none_iff. rewrite I2. exact Hnew.
  Qed.

  Lemma conc_fold_inv l fin :
    fold_left (fun acc a => do s <- acc; conc_step p rg cid s a) l (Ok ([], [], g0)) = Ok fin -> conc_I fin l.
  Proof.
    intros H. change l with ([] ++ l).
    eapply (fold_res_ind (conc_step p rg cid) conc_I); [| |exact H].
    - intros s x s' done Hs Hstep. eapply conc_I_step; eassumption.
    - cbn [conc_I]. split; [constructor|]. split; [intros k; cbn; tauto|]. split.
      + intros U. split; [exact U|]. intros k v E. discriminate.
      + split; [|reflexivity]. intros _. split; [constructor|reflexivity].
  Qed.
End ConcFold.

(** everything the model does in a successful concealment *)
Lemma concealment_struct (e : @env NumQc) cur p st c vals add :
  apply_concealment e cur p = Ok (st, RConcealment c vals add) ->
  exists ranked ref rr ag g2,
    rank_criteria cur = Ok ranked /\ reference_criterion e ranked p = Ok ref /\
    values_range (all_alts cur) ref = Ok rr /\
    c = {| c_id := not_used_name (st_crits cur) base_concealed; c_type := TGain;
           c_range := Some (scale_equally rr (bp_new_scaling p)) |} /\
    st_crits st = st_crits cur ++ [c] /\ ~ In (c_id c) (map c_id (st_crits cur)) /\
    map a_id (st_cons st) = map a_id (st_cons cur) /\ map a_id (st_notcons st) = map a_id (st_notcons cur) /\
    on_criterion_added c ref (st_params cur) g2 = Ok ag /\ add = fst ag /\
    merge (st_params cur) add = Ok (st_params st) /\ msorted vals = true /\
    (unit_stream (new_rng e (bp_seed p)) ->
       unit_stream g2 /\
       forall k v, mget k vals = Some v -> conc_val p (scale_equally rr (bp_new_scaling p)) v) /\
    (NoDup (map a_id (all_alts cur)) ->
       Forall2 (extended_by (c_id c) vals) (st_cons cur) (st_cons st) /\
       Forall2 (extended_by (c_id c) vals) (st_notcons cur) (st_notcons st) /\
       List.length vals = List.length (all_alts cur)).
Proof.
  intros H. apply apply_concealment_inv in H
    as (ranked & ref & rr & new_all & values & g2 & consd & nconsd & ag & params & crits & H).
  cbv zeta in H. destruct H as (Hr & Href & Hrr & Hf & Hc & Hn & Hag & Hp & Hcr & -> & Hrep).
  injection Hrep as -> -> ->.
  apply add_criterion_ok in Hcr as [-> Hnot].
  apply conc_fold_inv in Hf. cbn [conc_I] in Hf. destruct Hf as (F1 & F2 & F3 & F4 & F5).
  exists ranked, ref, rr, ag, g2. cbn [st_crits st_cons st_notcons st_params c_id].
  do 12 (split; [first [assumption | reflexivity | (eapply update_alts_ids; eassumption)]|]).
  split; [exact F3|].
  intros ND.
  assert (NDs : NoDup (map a_id (isort alt_lt (all_alts cur)))).
  { eapply Permutation_NoDup; [|exact ND]. apply Permutation_map. symmetry. apply isort_perm. }
  destruct (F4 NDs) as [F L].
  assert (Hid : forall a a' : @alt NumQc,
             extended_by (not_used_name (st_crits cur) base_concealed) values a a' -> a_id a' = a_id a)
    by (intros a a' (E & _); exact E).
  split; [|split].
  - eapply update_alts_partner; [exact F|exact Hid|exact NDs| |exact Hc].
    intros a Ha. apply isort_in. unfold all_alts. apply in_or_app. now left.
  - eapply update_alts_partner; [exact F|exact Hid|exact NDs| |exact Hn].
    intros a Ha. apply isort_in. unfold all_alts. apply in_or_app. now right.
  - etransitivity; [exact L|]. apply isort_length.
Qed.

(** *** 2a. requested statement; the two clauses on values need distinct alternative ids ([Hnodup], see
    [concealment_values_need_nodup] below) *)
Theorem concealment_adds_one (e : @env NumQc) cur p st c vals add :
  forall Hnodup : NoDup (map a_id (all_alts cur)),
  apply_concealment e cur p = Ok (st, RConcealment c vals add) ->
  st_crits st = st_crits cur ++ [c] /\ c_type c = TGain /\ ~ In (c_id c) (map c_id (st_crits cur)) /\
  Forall2 (extended_by (c_id c) vals) (st_cons cur) (st_cons st) /\
  Forall2 (extended_by (c_id c) vals) (st_notcons cur) (st_notcons st) /\
  map a_id (st_cons st) = map a_id (st_cons cur) /\ map a_id (st_notcons st) = map a_id (st_notcons cur).
Proof.
  intros ND H. apply concealment_struct in H
    as (ranked & ref & rr & ag & g2 & _ & _ & _ & Hc & H1 & H2 & H3 & H4 & _ & _ & _ & _ & _ & H5).
  destruct (H5 ND) as (F1 & F2 & _).
  repeat split; try assumption. rewrite Hc. reflexivity.
Qed.

(* the part that needs no hypothesis *)
Theorem concealment_adds_one_any (e : @env NumQc) cur p st c vals add :
  apply_concealment e cur p = Ok (st, RConcealment c vals add) ->
  st_crits st = st_crits cur ++ [c] /\ c_type c = TGain /\ ~ In (c_id c) (map c_id (st_crits cur)) /\
  map a_id (st_cons st) = map a_id (st_cons cur) /\ map a_id (st_notcons st) = map a_id (st_notcons cur).
Proof.
  intros H. apply concealment_struct in H
    as (ranked & ref & rr & ag & g2 & _ & _ & _ & Hc & H1 & H2 & H3 & H4 & _).
  repeat split; try assumption. rewrite Hc. reflexivity.
Qed.

(* reading of [extended_by]: the new value is the reported one, old values are untouched *)
Lemma extended_by_new cid vals (a a' : @alt NumQc) : extended_by cid vals a a' ->
  mget cid (a_vals a') = mget (a_id a) vals /\ mget cid (a_vals a') <> None.
Proof.
  intros (_ & _ & v & E1 & E2). rewrite E2, mget_mset_same, E1. split; [reflexivity|discriminate].
Qed.
Lemma extended_by_old cid vals (a a' : @alt NumQc) k : extended_by cid vals a a' -> k <> cid ->
  mget k (a_vals a') = mget k (a_vals a).
Proof. intros (_ & _ & v & E1 & E2) NE. rewrite E2. now apply mget_mset_other. Qed.

(** *** 2b. the concealed values lie in the scaled range of the reference criterion *)
Theorem concealed_in_scaled_range (e : @env NumQc) cur p st c vals add :
  unit_stream (new_rng e (bp_seed p)) ->
  apply_concealment e cur p = Ok (st, RConcealment c vals add) ->
  exists ranked ref rr lo hi,
    rank_criteria cur = Ok ranked /\ reference_criterion e ranked p = Ok ref /\
    values_range (all_alts cur) ref = Ok rr /\
    scale_equally rr (bp_new_scaling p) = (lo, hi) /\ c_range c = Some (lo, hi) /\
    forall k v, mget k vals = Some v ->
      exists x : Qc, (nmin lo hi <= x)%Qc /\ (x <= nmax lo hi)%Qc /\ v = bound_value p (lo, hi) x /\
                     (bounding_off p = true -> v = x).
Proof.
  intros U H. apply concealment_struct in H
    as (ranked & ref & rr & ag & g2 & Hr & Href & Hrr & Hc & _ & _ & _ & _ & _ & _ & _ & _ & H5 & _).
  destruct (H5 U) as [_ Hv].
  destruct (scale_equally rr (bp_new_scaling p)) as [lo hi] eqn:E.
  exists ranked, ref, rr, lo, hi. repeat (split; [first [assumption|reflexivity]|]).
  split; [rewrite Hc; reflexivity|].
  intros k v Hk. destruct (Hv k v Hk) as (u & Uu & ->). cbn [fst snd].
  eexists. destruct (interp_between lo hi u Uu) as [A B].
  split; [exact A|]. split; [exact B|]. split; [reflexivity|]. intros Hoff. now apply bound_value_off.
Qed.

(** ** 5. Mixing *)
Theorem mixing_noop_below_two (e : @env NumQc) cur p :
  (List.length (st_crits cur) < 2)%nat -> apply_mixing e cur p = Ok (cur, RNone).
Proof.
  intros H. unfold apply_mixing. apply Nat.ltb_lt in H. rewrite H. reflexivity.
Qed.

(** sorted maps have one entry per key *)
Lemma msorted_tail {A} k (v : A) m : msorted ((k, v) :: m) = true -> msorted m = true.
Proof. rewrite msorted_cons. intros H. now apply andb_true_iff in H as [_ H]. Qed.

Lemma msorted_all_gt {A} : forall (m : smap A) k (v : A), msorted ((k, v) :: m) = true ->
  forall k' v', In (k', v') m -> String.ltb k k' = true.
Proof.
  induction m as [|[k1 v1] m IH]; intros k v S k' v' Hin; [destruct Hin|].
  rewrite msorted_cons in S. apply andb_true_iff in S as [S1 S2]. cbn [hd_lt] in S1.
  destruct Hin as [E|Hin]; [injection E as <- <-; exact S1|].
  eapply sltb_trans; [exact S1|]. eapply IH; eassumption.
Qed.

Lemma msorted_in_mget {A} : forall (m : smap A), msorted m = true ->
  forall k (v : A), In (k, v) m -> mget k m = Some v.
Proof.
  induction m as [|[k0 v0] m IH]; intros S k v Hin; [destruct Hin|].
  cbn [mget]. destruct Hin as [E|Hin].
  - injection E as <- <-. now rewrite String.eqb_refl.
  - assert (L : String.ltb k0 k = true) by (eapply msorted_all_gt; eassumption).
    destruct (String.eqb k k0) eqn:E.
    + apply String.eqb_eq in E. subst k0. rewrite sltb_irrefl in L. discriminate.
    + apply IH; [eapply msorted_tail; exact S | exact Hin].
Qed.

(* the base name of a mixed criterion; its id is [not_used_name crits (mixed_name c1 c2)] (the Go code used the
   raw base name before the repair, so mixing the same pair twice failed with a collision) *)
Definition mixed_name (c1 c2 : @crit NumQc) : string := ("__" ++ c_id c1 ++ "+" ++ c_id c2 ++ "__")%string.

(* the value of a component for an alternative holding [v] *)
Definition rescaled (c : @crit NumQc) (cr target : Qc * Qc) (v : Qc) : Qc :=
  let sc := scale_ratio target cr in
  if is_cost c then @nadd NumQc (@nmul NumQc (@nsub NumQc (snd cr) v) sc) (fst target)
  else @nadd NumQc (@nmul NumQc (@nsub NumQc v (fst cr)) sc) (fst target).

Definition rescale_step (c : @crit NumQc) (cr target : Qc * Qc) (m : smap Qc) (a : @alt NumQc) : res (smap Qc) :=
  do v <- raw_value a c; Ok (mset (a_id a) (rescaled c cr target v) m).

Lemma rescale_criterion_inv (c : @crit NumQc) alts target m : rescale_criterion c alts target = Ok m ->
  exists cr, values_range alts c = Ok cr /\
             fold_left (fun acc a => do m <- acc; rescale_step c cr target m a) alts (Ok []) = Ok m.
Proof.
  unfold rescale_criterion. intros H. apply bind_ok in H as (cr & Hcr & H). exists cr. split; [exact Hcr|exact H].
Qed.

Section RescaleFold.
  Variables (c : @crit NumQc) (cr target : Qc * Qc).
  Definition resc_I (m : smap Qc) (done : list (@alt NumQc)) : Prop :=
    msorted m = true
    /\ (forall k, In k (mkeys m) <-> In k (map a_id done))
    /\ (forall k s, mget k m = Some s ->
          exists a v, In a done /\ a_id a = k /\ raw_value a c = Ok v /\ s = rescaled c cr target v)
    /\ (NoDup (map a_id done) -> forall a, In a done ->
          exists v, raw_value a c = Ok v /\ mget (a_id a) m = Some (rescaled c cr target v))
    /\ (forall a, In a done -> exists v, raw_value a c = Ok v).

  Lemma resc_I_step m a m' done : resc_I m done -> rescale_step c cr target m a = Ok m' -> resc_I m' (done ++ [a]).
  Proof.
    intros (I1 & I2 & I3 & I4 & I5) H. unfold rescale_step in H. apply bind_ok in H as (v & Hv & H). injection H as <-.
    split; [|split; [|split; [|split]]].
    - now apply mset_msorted.
    - intros k. rewrite mkeys_mset, map_app, in_app_iff, I2. cbn [map In]. intuition congruence.
    - intros k s. destruct (string_dec k (a_id a)) as [->|NE].
      + rewrite mget_mset_same. intros E. injection E as <-. exists a, v.
        split; [apply in_or_app; right; now left|]. auto.
      + rewrite mget_mset_other by exact NE. intros E. destruct (I3 k s E) as (b & w & Hb & R).
        exists b, w. split; [apply in_or_app; now left | exact R].
    - intros ND. rewrite map_app in ND. cbn [map] in ND.
      assert (ND1 : NoDup (map a_id done)) by (eapply NoDup_app_l; exact ND).
      assert (Hnew : ~ In (a_id a) (map a_id done)).
      { intros C. apply NoDup_remove_2 in ND. apply ND. rewrite app_nil_r. exact C. }
      intros b Hb. apply in_app_or in Hb as [Hb|[<-|[]]].
      + destruct (I4 ND1 b Hb) as (w & W1 & W2). exists w. split; [exact W1|].
        rewrite mget_mset_other; [exact W2|]. intros C. apply Hnew. rewrite <- C. now apply in_map.
      + exists v. split; [exact Hv | apply mget_mset_same].
    - intros b Hb. apply in_app_or in Hb as [Hb|[<-|[]]]; [now apply I5 | now exists v].
  Qed.

  Lemma resc_fold_inv l fin :
    fold_left (fun acc a => do m <- acc; rescale_step c cr target m a) l (Ok []) = Ok fin -> resc_I fin l.
  Proof.
    intros H. change l with ([] ++ l).
    eapply (fold_res_ind (rescale_step c cr target) resc_I); [| |exact H].
    - intros s x s' done Hs Hstep. eapply resc_I_step; eassumption.
    - split; [reflexivity|]. split; [intros k; cbn; tauto|]. split.
      + intros k s E. discriminate.
      + split; [intros _ a [] | intros a []].
  Qed.
End RescaleFold.

Definition mix_step (ratio : Qc) (v2 : smap Qc) (m : smap Qc) (kv : string * Qc) : res (smap Qc) :=
  do y <- of_option (mget (fst kv) v2) EMissing;
  Ok (mset (fst kv) (@nadd NumQc (@nmul NumQc (snd kv) ratio) (@nmul NumQc y (@nsub NumQc none ratio))) m).

Section MixFold.
  Variables (ratio : Qc) (v2 : smap Qc).
  Definition mix_I (m : smap Qc) (done : list (string * Qc)) : Prop :=
    (forall k, In k (mkeys m) <-> In k (map fst done))
    /\ (forall k z, mget k m = Some z ->
          exists x y, In (k, x) done /\ mget k v2 = Some y /\
                      z = @nadd NumQc (@nmul NumQc x ratio) (@nmul NumQc y (@nsub NumQc none ratio))).

  Lemma mix_I_step m kv m' done : mix_I m done -> mix_step ratio v2 m kv = Ok m' -> mix_I m' (done ++ [kv]).
  Proof.
    intros (I1 & I2) H. unfold mix_step in H. apply bind_ok in H as (y & Hy & H). injection H as <-.
    apply of_option_ok in Hy. destruct kv as [k0 x0]. cbn [fst snd] in *. split.
    - intros k. rewrite mkeys_mset, map_app, in_app_iff, I1. cbn [map In fst]. intuition congruence.
    - intros k z. destruct (string_dec k k0) as [->|NE].
      + rewrite mget_mset_same. intros E. injection E as <-. exists x0, y.
        split; [apply in_or_app; right; now left|]. auto.
      + rewrite mget_mset_other by exact NE. intros E. destruct (I2 k z E) as (x & y' & Hin & R).
        exists x, y'. split; [apply in_or_app; now left | exact R].
  Qed.

  Lemma mix_fold_inv l fin :
    fold_left (fun acc kv => do m <- acc; mix_step ratio v2 m kv) l (Ok []) = Ok fin -> mix_I fin l.
  Proof.
    intros H. change l with ([] ++ l).
    eapply (fold_res_ind (mix_step ratio v2) mix_I); [| |exact H].
    - intros s x s' done Hs Hstep. eapply mix_I_step; eassumption.
    - split; [intros k; cbn; tauto|]. intros k z E. discriminate.
  Qed.
End MixFold.

Lemma apply_mixing_inv (e : @env NumQc) cur p st rep : apply_mixing e cur p = Ok (st, rep) ->
  (Nat.ltb (List.length (st_crits cur)) 2 = true /\ st = cur /\ rep = RNone) \/
  (Nat.ltb (List.length (st_crits cur)) 2 = false /\ is_probability (bp_mix_ratio p) = true /\
   exists d1 d2 c1 c2 ranked ref rr v1 v2 mixed ag params new_all consd nconsd crits,
     let n := List.length (st_crits cur) in
     let i1 := @ntruncZ NumQc (@nmul NumQc (fst d1) (@nofZ NumQc (Z.of_nat n))) in
     let off := (@ntruncZ NumQc (@nmul NumQc (fst d2) (@nofZ NumQc (Z.of_nat n - 2))) + 1)%Z in
     let target := ground_zero_range rr in
     let newc := {| c_id := not_used_name (st_crits cur) (mixed_name c1 c2); c_type := TGain; c_range := Some target |} in
     draw (new_rng e (bp_seed p)) = Ok d1 /\ draw (snd d1) = Ok d2 /\
     nth_opt (Z.to_nat i1) (st_crits cur) = Some c1 /\
     nth_opt (Z.to_nat ((i1 + off) mod Z.of_nat n)) (st_crits cur) = Some c2 /\
     rank_criteria cur = Ok ranked /\ reference_criterion e ranked p = Ok ref /\
     values_range (all_alts cur) ref = Ok rr /\
     rescale_criterion c1 (all_alts cur) target = Ok v1 /\ rescale_criterion c2 (all_alts cur) target = Ok v2 /\
     fold_left (fun acc kv => do m <- acc; mix_step (bp_mix_ratio p) v2 m kv) v1 (Ok []) = Ok mixed /\
     on_criterion_added newc ref (st_params cur) (snd d2) = Ok ag /\ merge (st_params cur) (fst ag) = Ok params /\
     mapM (fun a => do v <- of_option (mget (a_id a) mixed) EMissing; with_value a (c_id newc) v) (all_alts cur)
       = Ok new_all /\
     update_alts (st_cons cur) new_all = Ok consd /\ update_alts (st_notcons cur) new_all = Ok nconsd /\
     add_criterion (st_crits cur) newc = Ok crits /\
     st = {| st_notcons := nconsd; st_cons := consd; st_crits := crits; st_params := params |} /\
     rep = RMixing {| cp_id := c_id c1; cp_type := c_type c1; cp_values := v1 |}
                   {| cp_id := c_id c2; cp_type := c_type c2; cp_values := v2 |}
                   {| cp_id := c_id newc; cp_type := TGain; cp_values := mixed |} (fst ag)).
Proof.
  unfold apply_mixing. intros H.
  destruct (Nat.ltb (List.length (st_crits cur)) 2) eqn:E2.
  { left. injection H as <- <-. auto. }
  right. split; [reflexivity|].
  destruct (is_probability (bp_mix_ratio p)) eqn:Ep; cbn [negb] in H; [|discriminate].
  split; [reflexivity|].
  apply bind_ok in H as (d1 & Hd1 & H). apply bind_ok in H as (d2 & Hd2 & H). cbv zeta in H.
  apply bind_ok in H as (c1 & Hc1 & H). apply bind_ok in H as (c2 & Hc2 & H).
  apply of_option_ok in Hc1, Hc2.
  apply bind_ok in H as (ranked & Hr & H). apply bind_ok in H as (ref & Href & H).
  apply bind_ok in H as (rr & Hrr & H).
  apply bind_ok in H as (v1 & Hv1 & H). apply bind_ok in H as (v2 & Hv2 & H).
  apply bind_ok in H as (mixed & Hm & H).
  apply bind_ok in H as (ag & Hag & H). apply bind_ok in H as (params & Hp & H).
  apply bind_ok in H as (new_all & Hna & H).
  apply bind_ok in H as (consd & Hc & H). apply bind_ok in H as (nconsd & Hn & H).
  apply bind_ok in H as (crits & Hcr & H). injection H as <- <-.
  exists d1, d2, c1, c2, ranked, ref, rr, v1, v2, mixed, ag, params, new_all, consd, nconsd, crits.
  cbv zeta. repeat split; assumption.
Qed.

(** everything the model does in a successful mixing of two criteria *)
Lemma mixing_struct (e : @env NumQc) cur p st k1 k2 kn add :
  apply_mixing e cur p = Ok (st, RMixing k1 k2 kn add) ->
  exists d1 d2 c1 c2 ranked ref rr ag,
    let n := List.length (st_crits cur) in
    let i1 := @ntruncZ NumQc (@nmul NumQc (fst d1) (@nofZ NumQc (Z.of_nat n))) in
    let off := (@ntruncZ NumQc (@nmul NumQc (fst d2) (@nofZ NumQc (Z.of_nat n - 2))) + 1)%Z in
    let target := ground_zero_range rr in
    let newc := {| c_id := not_used_name (st_crits cur) (mixed_name c1 c2); c_type := TGain; c_range := Some target |} in
    (2 <= n)%nat /\ is_probability (bp_mix_ratio p) = true /\
    draw (new_rng e (bp_seed p)) = Ok d1 /\ draw (snd d1) = Ok d2 /\
    nth_opt (Z.to_nat i1) (st_crits cur) = Some c1 /\
    nth_opt (Z.to_nat ((i1 + off) mod Z.of_nat n)) (st_crits cur) = Some c2 /\
    rank_criteria cur = Ok ranked /\ reference_criterion e ranked p = Ok ref /\
    values_range (all_alts cur) ref = Ok rr /\
    cp_id k1 = c_id c1 /\ cp_type k1 = c_type c1 /\ cp_id k2 = c_id c2 /\ cp_type k2 = c_type c2 /\
    cp_id kn = c_id newc /\ cp_type kn = TGain /\
    rescale_criterion c1 (all_alts cur) target = Ok (cp_values k1) /\
    rescale_criterion c2 (all_alts cur) target = Ok (cp_values k2) /\
    fold_left (fun acc kv => do m <- acc; mix_step (bp_mix_ratio p) (cp_values k2) m kv) (cp_values k1) (Ok [])
      = Ok (cp_values kn) /\
    on_criterion_added newc ref (st_params cur) (snd d2) = Ok ag /\ add = fst ag /\
    merge (st_params cur) add = Ok (st_params st) /\
    st_crits st = st_crits cur ++ [newc] /\ ~ In (c_id newc) (map c_id (st_crits cur)) /\
    map a_id (st_cons st) = map a_id (st_cons cur) /\ map a_id (st_notcons st) = map a_id (st_notcons cur) /\
    (NoDup (map a_id (all_alts cur)) ->
       Forall2 (extended_by (c_id newc) (cp_values kn)) (st_cons cur) (st_cons st) /\
       Forall2 (extended_by (c_id newc) (cp_values kn)) (st_notcons cur) (st_notcons st)).
Proof.
  intros H. apply apply_mixing_inv in H as [(_ & _ & H)|(E2 & Ep & H)]; [discriminate|].
  destruct H as (d1 & d2 & c1 & c2 & ranked & ref & rr & v1 & v2 & mixed & ag & params & new_all & consd & nconsd
                 & crits & H).
  cbv zeta in H.
  destruct H as (Hd1 & Hd2 & Hc1 & Hc2 & Hr & Href & Hrr & Hv1 & Hv2 & Hm & Hag & Hp & Hna & Hc & Hn & Hcr & -> & Hrep).
  injection Hrep as -> -> -> ->.
  apply add_criterion_ok in Hcr as [-> Hnot].
  exists d1, d2, c1, c2, ranked, ref, rr, ag.
  cbn [st_crits st_cons st_notcons st_params c_id cp_id cp_type cp_values].
  split; [apply Nat.ltb_ge in E2; exact E2|].
  do 24 (split; [first [assumption | reflexivity | (eapply update_alts_ids; eassumption)]|]).
  intros ND.
  assert (F : Forall2 (extended_by (not_used_name (st_crits cur) (mixed_name c1 c2)) mixed) (all_alts cur) new_all).
  { apply mapM_Forall2 in Hna. eapply Forall2_impl_in; [exact Hna|].
    intros a a' _ _ Ha. cbv beta in Ha. apply bind_ok in Ha as (v & Hv & Ha). apply of_option_ok in Hv.
    apply with_value_ok in Ha as [Hf ->]. cbn [c_id] in *.
    split; [reflexivity|]. split; [exact Hf|]. exists v. split; [exact Hv|reflexivity]. }
  assert (Hid : forall a a' : @alt NumQc, extended_by (not_used_name (st_crits cur) (mixed_name c1 c2)) mixed a a' -> a_id a' = a_id a)
    by (intros a a' (E & _); exact E).
  split.
  - eapply update_alts_partner; [exact F|exact Hid|exact ND| |exact Hc].
    intros a Ha. unfold all_alts. apply in_or_app. now left.
  - eapply update_alts_partner; [exact F|exact Hid|exact ND| |exact Hn].
    intros a Ha. unfold all_alts. apply in_or_app. now right.
Qed.

Local Open Scope Qc_scope.

(** *** 5b. each mixed value is [ratio * c1v + (1 - ratio) * c2v] *)
Theorem mixed_value_formula (e : @env NumQc) cur p st k1 k2 kn add :
  apply_mixing e cur p = Ok (st, RMixing k1 k2 kn add) ->
  forall id z, mget id (cp_values kn) = Some z ->
    exists x y, mget id (cp_values k1) = Some x /\ mget id (cp_values k2) = Some y /\
                z = bp_mix_ratio p * x + (1 - bp_mix_ratio p) * y.
Proof.
  intros H id z Hz. apply mixing_struct in H as (d1 & d2 & c1 & c2 & ranked & ref & rr & ag & H).
  cbv zeta in H. destruct H as (_ & _ & _ & _ & _ & _ & _ & _ & _ & _ & _ & _ & _ & _ & _ & Hv1 & _ & Hm & _).
  apply mix_fold_inv in Hm as [_ Hm]. destruct (Hm id z Hz) as (x & y & Hin & Hy & ->).
  apply rescale_criterion_inv in Hv1 as (cr & _ & Hf). apply resc_fold_inv in Hf as (S & _).
  exists x, y. split; [now apply msorted_in_mget|]. split; [exact Hy|]. qcr.
Qed.

(* the mixed map has exactly the keys of the first component *)
Lemma mixed_keys (e : @env NumQc) cur p st k1 k2 kn add :
  apply_mixing e cur p = Ok (st, RMixing k1 k2 kn add) ->
  forall id, In id (mkeys (cp_values kn)) <-> In id (mkeys (cp_values k1)).
Proof.
  intros H id. apply mixing_struct in H as (d1 & d2 & c1 & c2 & ranked & ref & rr & ag & H).
  cbv zeta in H. destruct H as (_ & _ & _ & _ & _ & _ & _ & _ & _ & _ & _ & _ & _ & _ & _ & _ & _ & Hm & _).
  apply mix_fold_inv in Hm as [Hk _]. apply Hk.
Qed.

(** *** 5d'. the two components are distinct existing criteria *)
Theorem mixed_components_selected (e : @env NumQc) cur p st k1 k2 kn add :
  unit_stream (new_rng e (bp_seed p)) ->
  apply_mixing e cur p = Ok (st, RMixing k1 k2 kn add) ->
  exists i j c1 c2, (i < List.length (st_crits cur))%nat /\ (j < List.length (st_crits cur))%nat /\ i <> j /\
    nth_opt i (st_crits cur) = Some c1 /\ nth_opt j (st_crits cur) = Some c2 /\
    cp_id k1 = c_id c1 /\ cp_type k1 = c_type c1 /\ cp_id k2 = c_id c2 /\ cp_type k2 = c_type c2.
Proof.
  intros U H. apply mixing_struct in H as (d1 & d2 & c1 & c2 & ranked & ref & rr & ag & H).
  cbv zeta in H. destruct H as (Hn & _ & Hd1 & Hd2 & Hc1 & Hc2 & _ & _ & _ & E1 & E2 & E3 & E4 & _).
  destruct d1 as [u1 g1]. destruct d2 as [u2 g2]. cbn [fst snd] in *.
  destruct (draw_unit _ _ _ U Hd1) as [U1 Ug1]. destruct (draw_unit _ _ _ Ug1 Hd2) as [U2 _].
  pose proof (mixed_distinct_components _ u1 u2 Hn U1 U2) as D. cbv zeta in D.
  destruct D as (_ & _ & _ & _ & L1 & L2 & NE).
  eexists _, _, c1, c2. split; [exact L1|]. split; [exact L2|]. split; [exact NE|].
  repeat split; assumption.
Qed.

Lemma nodup_nth_ids (cs : list (@crit NumQc)) i j c1 c2 :
  NoDup (map c_id cs) -> nth_opt i cs = Some c1 -> nth_opt j cs = Some c2 -> i <> j -> c_id c1 <> c_id c2.
Proof.
  intros ND H1 H2 NE C. apply NE.
  pose proof (nth_opt_length _ _ _ H1) as L1.
  rewrite nth_opt_nth_error in H1, H2.
  apply (map_nth_error c_id) in H1, H2.
  rewrite NoDup_nth_error in ND. apply ND; [now rewrite map_length|]. congruence.
Qed.

Corollary mixed_components_distinct_ids (e : @env NumQc) cur p st k1 k2 kn add :
  unit_stream (new_rng e (bp_seed p)) -> NoDup (map c_id (st_crits cur)) ->
  apply_mixing e cur p = Ok (st, RMixing k1 k2 kn add) -> cp_id k1 <> cp_id k2.
Proof.
  intros U ND H. destruct (mixed_components_selected _ _ _ _ _ _ _ _ U H)
    as (i & j & c1 & c2 & _ & _ & NE & H1 & H2 & -> & _ & -> & _).
  eapply nodup_nth_ids; eassumption.
Qed.

(** *** 5e. rescaled components lie in [0, T] when the criterion's range contains its values *)
Lemma rescaled_bounds (c : @crit NumQc) (cr rr : Qc * Qc) (v : Qc) :
  fst cr <= v -> v <= snd cr ->
  0 <= rescaled c cr (ground_zero_range rr) v /\
  rescaled c cr (ground_zero_range rr) v <= snd (@ground_zero_range NumQc rr).
Proof.
  intros L H. pose proof (ground_zero_nonneg rr) as HT.
  unfold rescaled, scale_ratio. rewrite ground_zero_fst.
  set (T := snd (@ground_zero_range NumQc rr)) in *.
  assert (ET : @range_diff NumQc (ground_zero_range rr) = T).
  { unfold range_diff. rewrite ground_zero_fst. fold T. qcr. }
  rewrite ET. unfold range_diff.
  destruct (is_cost c).
  - apply (scaled_in_target (@nsub NumQc (snd cr) (fst cr)) (@nsub NumQc (snd cr) v) T); [qcq; lra|qcq; lra|exact HT].
  - apply (scaled_in_target (@nsub NumQc (snd cr) (fst cr)) (@nsub NumQc v (fst cr)) T); [qcq; lra|qcq; lra|exact HT].
Qed.

Theorem rescaled_in_target (c : @crit NumQc) alts (rr cr : Qc * Qc) m :
  rescale_criterion c alts (ground_zero_range rr) = Ok m -> values_range alts c = Ok cr ->
  forall Hcontains : (forall a v, In a alts -> raw_value a c = Ok v -> fst cr <= v /\ v <= snd cr),
  forall id s, mget id m = Some s -> 0 <= s /\ s <= snd (@ground_zero_range NumQc rr).
Proof.
  intros H Hcr Hc id s Hs. apply rescale_criterion_inv in H as (cr' & Hcr' & Hf).
  assert (cr' = cr) by congruence. subst cr'.
  apply resc_fold_inv in Hf as (_ & _ & I3 & _). destruct (I3 id s Hs) as (a & v & Ha & _ & Hv & ->).
  destruct (Hc a v Ha Hv). now apply rescaled_bounds.
Qed.

(* an undeclared range is the observed one, which contains all values *)
Corollary rescaled_in_target_observed (c : @crit NumQc) alts (rr : Qc * Qc) m :
  c_range c = None -> rescale_criterion c alts (ground_zero_range rr) = Ok m ->
  forall id s, mget id m = Some s -> 0 <= s /\ s <= snd (@ground_zero_range NumQc rr).
Proof.
  intros Hnone H id s Hs. pose proof H as H0.
  apply rescale_criterion_inv in H0 as (cr & Hcr & Hf). apply resc_fold_inv in Hf as (_ & _ & _ & _ & I5).
  assert (NE : alts <> []).
  { intros ->. apply rescale_criterion_inv in H as (cr' & _ & Hf). cbn [fold_left] in Hf. injection Hf as <-.
    discriminate. }
  destruct (values_range_spec alts c) as (_ & _ & S3).
  destruct (S3 Hnone NE I5) as (mn & mx & E & Hb & _).
  eapply rescaled_in_target; [exact H|exact E| |exact Hs].
  intros a v Ha Hv. cbn [fst snd]. exact (Hb a v Ha Hv).
Qed.

(** ** 4. The weight of the new criterion is a fraction in [0,1) of the reference weight *)
Definition added_weight (a : @addition NumQc) : option Qc :=
  match a with
  | AWeight _ w => Some w
  | AElectre _ ec => Some (ec_k ec)
  | AAspect _ w _ => Some w
  | _ => None
  end.

(* the weight the listener reads for the reference criterion (missing = 0 where Go reads a map) *)
Definition ref_weight (pm : @mparams NumQc) (refid : string) : option Qc :=
  match pm with
  | PWs wc | POwa wc => match find_wc refid wc with Ok r => Some (snd r) | Err _ => None end
  | PMajority w _ _ _ _ | PAspect _ _ _ w _ => Some (weight_of refid w)
  | PElectre ecs _ => Some (match mget refid ecs with Some x => ec_k x | None => @nzero NumQc end)
  | _ => None
  end.

Definition weight_based (pm : @mparams NumQc) : bool :=
  match pm with PChoquet _ _ | PSatisf _ _ _ _ _ => false | _ => true end.

Theorem new_weight_fraction (c ref : @crit NumQc) pm g add g' :
  unit_stream g -> on_criterion_added c ref pm g = Ok (add, g') -> weight_based pm = true ->
  exists u g1 wr, draw g = Ok (u, g1) /\ unit_draw u /\ ref_weight pm (c_id ref) = Some wr /\
                  added_weight add = Some (u * wr).
Proof.
  intros U H WB.
  destruct pm as [wc|wc|w cs|ecs f|w c0 sd rnd dr|fn lp sd w rnd|fn lp sd c0 rnd]; try discriminate;
    cbn [on_criterion_added] in H.
  - apply bind_ok in H as (r & Hr & H). apply bind_ok in H as ([u g1] & Hd & H). injection H as <- <-.
    destruct (draw_unit _ _ _ U Hd) as [Uu _]. exists u, g1, (snd r). cbn [ref_weight added_weight fst].
    rewrite Hr. auto.
  - apply bind_ok in H as (r & Hr & H). apply bind_ok in H as ([u g1] & Hd & H). injection H as <- <-.
    destruct (draw_unit _ _ _ U Hd) as [Uu _]. exists u, g1, (snd r). cbn [ref_weight added_weight fst].
    rewrite Hr. auto.
  - apply bind_ok in H as ([u g1] & Hd & H). injection H as <- <-.
    destruct (draw_unit _ _ _ U Hd) as [Uu _]. cbn [ref_weight added_weight fst ec_k].
    destruct (mget (c_id ref) ecs) as [x|]; [exists u, g1, (ec_k x) | exists u, g1, (@nzero NumQc)]; auto.
  - apply bind_ok in H as ([u g1] & Hd & H). injection H as <- <-.
    destruct (draw_unit _ _ _ U Hd) as [Uu _]. eexists u, g1, _. cbn [ref_weight added_weight fst ec_k]. auto.
  - apply bind_ok in H as ([u g1] & Hd & H). apply bind_ok in H as (tg & _ & H). injection H as <- <-.
    destruct (draw_unit _ _ _ U Hd) as [Uu _]. eexists u, g1, _. cbn [ref_weight added_weight fst]. auto.
Qed.

Lemma find_wc_in (id : string) : forall (wc : list (@wcrit NumQc)) r, find_wc id wc = Ok r -> In r wc.
Proof.
  induction wc as [|x wc IH]; intros r H; cbn [find_wc] in H; [discriminate|].
  destruct (String.eqb (c_id (fst x)) id); [injection H as <-; now left | right; now apply IH].
Qed.

Lemma find_app_skip {A} (f : A -> bool) l1 l2 : (forall x, In x l1 -> f x = false) -> find f (l1 ++ l2) = find f l2.
Proof.
  induction l1 as [|x l1 IH]; intros H; [reflexivity|]. cbn [app find].
  rewrite (H x) by now left. apply IH. intros y Hy. apply H. now right.
Qed.

Lemma merge_map_one (w : smap (@num NumQc)) id (x : @num NumQc) w' : @merge_map NumQc w [(id, x)] = Ok w' ->
  mhas id w = false /\ w' = mset id x w.
Proof.
  unfold merge_map. cbn [fold_left bind fst snd]. destruct (mhas id w); intros H; [discriminate|].
  injection H as <-. auto.
Qed.

Lemma frac_unit_zero (u wr : Qc) : frac (@nmul NumQc u nzero) wr = true.
Proof. replace (@nmul NumQc u nzero) with (@nmul NumQc 0 wr) by qcr. apply frac_zero. Qed.

(* what [new_weight_ok] needs beyond a successful addition *)
Definition weights_ready (pm : @mparams NumQc) (newid : string) : Prop :=
  match pm with
  | PWs wc => ~ In newid (map (fun x => c_id (fst x)) wc)
  | PMajority w _ _ _ _ | PAspect _ _ _ w _ => w <> []
  | PElectre ecs _ => ecs <> []
  | _ => True
  end.

Lemma frac_of_map (u : Qc) refid (w : smap (@num NumQc)) : unit_draw u -> w <> [] ->
  existsb (fun r => frac (@nmul NumQc u (weight_of refid w)) (snd r)) w = true.
Proof.
  intros Uu NE. apply existsb_exists. unfold weight_of. destruct (mget refid w) as [wr|] eqn:E.
  - exists (refid, wr). split; [now apply mget_in|]. cbn [snd]. now apply frac_unit.
  - destruct w as [|r w]; [congruence|]. exists r. split; [now left|].
    apply frac_unit_zero.
Qed.

Theorem new_weight_ok_model (cur st : @state NumQc) (c ref : @crit NumQc) g ag :
  unit_stream g ->
  on_criterion_added c ref (st_params cur) g = Ok ag ->
  merge (st_params cur) (fst ag) = Ok (st_params st) ->
  forall Hready : weights_ready (st_params cur) (c_id c),
  new_weight_ok cur st (c_id c) = true.
Proof.
  intros U H Hm Hready. unfold new_weight_ok.
  destruct (st_params cur) as [wc|wc|w cs|ecs f|w c0 sd rnd dr|fn lp sd w rnd|fn lp sd c0 rnd];
    cbn [on_criterion_added] in H.
  - (* weighted sum *)
    apply bind_ok in H as (r & Hr & H). apply bind_ok in H as ([u g1] & Hd & H). injection H as <-.
    destruct (draw_unit _ _ _ U Hd) as [Uu _]. cbn [fst merge] in Hm. injection Hm as <-.
    cbn [weights_ready] in Hready.
    rewrite find_app_skip.
    + cbn [find fst]. rewrite String.eqb_refl. apply existsb_exists. exists r.
      split; [eapply find_wc_in; exact Hr|]. cbn [snd]. now apply frac_unit.
    + intros x Hx. apply String.eqb_neq. intros C. apply Hready. rewrite <- C.
      apply (in_map (fun x => c_id (fst x))). exact Hx.
  - (* owa *)
    apply bind_ok in H as (r & Hr & H). apply bind_ok in H as ([u g1] & Hd & H). injection H as <-.
    destruct (draw_unit _ _ _ U Hd) as [Uu _]. cbn [fst merge] in Hm.
    destruct (existsb (fun x => String.eqb (c_id (fst x)) (c_id c)) wc) eqn:Ex; [discriminate|].
    injection Hm as <-.
    match goal with |- match ?f with _ => _ end = true => destruct f as [x|] eqn:Ef end.
    + apply find_some in Ef as [Hin Hx]. apply isort_in in Hin. apply in_app_or in Hin as [Hin|[<-|[]]].
      * exfalso. assert (T : existsb (fun x => String.eqb (c_id (fst x)) (c_id c)) wc = true)
          by (apply existsb_exists; exists x; auto). congruence.
      * apply existsb_exists. exists r. split; [eapply find_wc_in; exact Hr|]. cbn [snd]. now apply frac_unit.
    + exfalso.
      match type of Ef with find _ (isort _ (_ ++ [?n])) = None =>
        assert (Hin : In n (isort wc_lt (wc ++ [n]))) by (apply isort_in, in_or_app; right; now left) end.
      apply (find_none _ _ Ef) in Hin. cbn [fst c_id] in Hin. rewrite String.eqb_refl in Hin. discriminate.
  - (* choquet *)
    destruct (st_params st); reflexivity.
  - (* electre *)
    apply bind_ok in H as ([u g1] & Hd & H). injection H as <-.
    destruct (draw_unit _ _ _ U Hd) as [Uu _]. cbn [fst merge] in Hm.
    destruct (mhas (c_id c) ecs); [discriminate|]. injection Hm as <-.
    rewrite mget_mset_same. cbn [ec_k]. cbn [weights_ready] in Hready.
    apply existsb_exists. destruct (mget (c_id ref) ecs) as [x|] eqn:E.
    + exists (c_id ref, x). split; [now apply mget_in|]. cbn [snd]. now apply frac_unit.
    + destruct ecs as [|r0 ecs]; [congruence|]. exists r0. split; [now left|]. cbn [ec_k].
      apply (frac_unit_zero u).
  - (* majority *)
    apply bind_ok in H as ([u g1] & Hd & H). injection H as <-.
    destruct (draw_unit _ _ _ U Hd) as [Uu _]. cbn [fst merge] in Hm.
    apply bind_ok in Hm as (w' & Hw' & Hm). injection Hm as <-.
    apply merge_map_one in Hw' as [_ ->]. rewrite mget_mset_same. now apply frac_of_map.
  - (* aspect *)
    apply bind_ok in H as ([u g1] & Hd & H). apply bind_ok in H as (tg & _ & H). injection H as <-.
    destruct (draw_unit _ _ _ U Hd) as [Uu _]. cbn [fst merge] in Hm.
    apply bind_ok in Hm as (lp' & _ & Hm). apply bind_ok in Hm as (w' & Hw' & Hm). injection Hm as <-.
    apply merge_map_one in Hw' as [_ ->]. rewrite mget_mset_same. now apply frac_of_map.
  - (* satisfaction *)
    destruct (st_params st); reflexivity.
Qed.

(** ** 6. The model passes the C18 checker *)
Local Close Scope Qc_scope.

Lemma list_eqb_refl_gen {A} (f : A -> A -> bool) : (forall x, f x x = true) -> forall l, list_eqb f l l = true.
Proof. intros H. induction l as [|x l IH]; cbn [list_eqb]; [reflexivity|]. now rewrite H, IH. Qed.

Lemma list_eqb_Forall2 {A B} (f : A -> B -> bool) : forall l l',
  Forall2 (fun x y => f x y = true) l l' -> list_eqb f l l' = true.
Proof. induction 1 as [|x y l l' H HF IH]; cbn [list_eqb]; [reflexivity|]. now rewrite H, IH. Qed.

Lemma Forall2_in_r {A B} (R : A -> B -> Prop) : forall l l', Forall2 R l l' ->
  forall y, In y l' -> exists x, In x l /\ R x y.
Proof.
  induction 1 as [|x y l l' H HF IH]; intros z Hz; [destruct Hz|].
  destruct Hz as [<-|Hz]; [exists x; split; [now left|exact H]|].
  destruct (IH z Hz) as (x0 & Hx0 & R0). exists x0. split; [now right|exact R0].
Qed.

Lemma nsame_refl (x : @num NumQc) : nsame x x = true.
Proof. apply same_refl. Qed.

Lemma option_nsame_refl (o : option (@num NumQc)) : option_eqb nsame o o = true.
Proof. destruct o; cbn [option_eqb]; [apply nsame_refl|reflexivity]. Qed.

Lemma smap_same_refl_Qc (m : smap (@num NumQc)) : smap_same m m = true.
Proof.
  unfold smap_same. apply list_eqb_refl_gen. intros [k v]. cbn [fst snd].
  now rewrite String.eqb_refl, nsame_refl.
Qed.

Lemma alt_same_refl (a : @alt NumQc) : alt_same a a = true.
Proof. unfold alt_same. now rewrite String.eqb_refl, smap_same_refl_Qc. Qed.

Lemma ctype_eqb_refl (t : ctype) : ctype_eqb t t = true.
Proof. destruct t; reflexivity. Qed.

Lemma crit_same_refl (c : @crit NumQc) : crit_same c c = true.
Proof.
  unfold crit_same, range_same. rewrite String.eqb_refl, ctype_eqb_refl. cbn [andb].
  destruct (c_range c) as [[a b]|]; cbn [option_eqb fst snd]; [|reflexivity]. now rewrite !nsame_refl.
Qed.

Lemma linfun_same_refl (f : @linfun NumQc) : linfun_same f f = true.
Proof. unfold linfun_same. now rewrite !nsame_refl. Qed.

Lemma ecrit_same_refl (x : @ecrit NumQc) : ecrit_same x x = true.
Proof. unfold ecrit_same. now rewrite nsame_refl, !linfun_same_refl. Qed.

Lemma lparams_same_refl (l : @lparams NumQc) : lparams_same l l = true.
Proof.
  unfold lparams_same. rewrite !nsame_refl. cbn [andb]. apply list_eqb_refl_gen. apply smap_same_refl_Qc.
Qed.

Lemma wcrit_list_same_refl (l : list (@wcrit NumQc)) : list_eqb wcrit_same l l = true.
Proof. apply list_eqb_refl_gen. intros x. unfold wcrit_same. now rewrite crit_same_refl, nsame_refl. Qed.

Lemma params_same_refl (pm : @mparams NumQc) : params_same pm pm = true.
Proof.
  destruct pm; cbn [params_same];
    rewrite ?wcrit_list_same_refl, ?smap_same_refl_Qc, ?String.eqb_refl, ?Z.eqb_refl, ?Bool.eqb_reflx,
      ?lparams_same_refl, ?linfun_same_refl; cbn [andb]; try reflexivity.
  - apply list_eqb_refl_gen. apply crit_same_refl.
  - rewrite andb_true_r. apply list_eqb_refl_gen. intros [k x]. cbn [fst snd].
    now rewrite String.eqb_refl, ecrit_same_refl.
Qed.

Lemma state_same_refl (s : @state NumQc) : state_same s s = true.
Proof.
  unfold state_same. rewrite params_same_refl, !(list_eqb_refl_gen _ alt_same_refl),
    (list_eqb_refl_gen _ crit_same_refl). reflexivity.
Qed.

Lemma firstn_length_app {A} (l r : list A) : firstn (List.length l) (l ++ r) = l.
Proof. induction l as [|x l IH]; cbn [List.length firstn app]; [now destruct r | now rewrite IH]. Qed.

Lemma last_opt_app {A} (l : list A) x : last_opt (l ++ [x]) = Some x.
Proof.
  induction l as [|y l IH]; [reflexivity|]. cbn [app last_opt].
  destruct (l ++ [x]) eqn:E; [destruct l; discriminate | exact IH].
Qed.

Lemma has_crit_false id (cs : list (@crit NumQc)) : ~ In id (map c_id cs) -> has_crit id cs = false.
Proof.
  intros H. unfold has_crit. destruct (existsb _ cs) eqn:E; [|reflexivity].
  apply existsb_exists in E as (c & Hc & Ec). apply String.eqb_eq in Ec. exfalso. apply H. rewrite <- Ec. now apply in_map.
Qed.

Lemma has_crit_true (c : @crit NumQc) cs : In c cs -> has_crit (c_id c) cs = true.
Proof. intros H. apply existsb_exists. exists c. split; [exact H|apply String.eqb_refl]. Qed.

Lemma find_by_id_nodup : forall (cs : list (@crit NumQc)) c,
  NoDup (map c_id cs) -> In c cs -> find (fun x => String.eqb (c_id x) (c_id c)) cs = Some c.
Proof.
  induction cs as [|x cs IH]; intros c ND Hin; [destruct Hin|].
  cbn [map] in ND. inversion ND as [|? ? Hn ND']; subst. cbn [find].
  destruct Hin as [->|Hin]; [now rewrite String.eqb_refl|].
  destruct (String.eqb (c_id x) (c_id c)) eqn:E; [|now apply IH].
  apply String.eqb_eq in E. exfalso. apply Hn. rewrite E. now apply in_map.
Qed.

Lemma inv_parts (s : @state NumQc) : Stage.inv s = true ->
  params_cover (st_params s) (st_crits s) = true /\ NoDup (map c_id (st_crits s)).
Proof.
  unfold inv. intros H. apply andb_true_iff in H as [H H3]. apply andb_true_iff in H as [_ H2].
  split; [exact H2 | now apply nodup_str_NoDup].
Qed.

Lemma mhas_nonempty {A} k (m : smap A) : mhas k m = true -> m <> [].
Proof. intros H ->. discriminate. Qed.

Lemma weights_ready_inv (cur : @state NumQc) (ref : @crit NumQc) newid :
  Stage.inv cur = true -> In ref (st_crits cur) -> ~ In newid (map c_id (st_crits cur)) ->
  weights_ready (st_params cur) newid.
Proof.
  intros Hinv Href Hnew. apply inv_parts in Hinv as [Hc ND].
  destruct (st_params cur) as [wc|wc|w cs|ecs f|w c0 sd rnd dr|fn lp sd w rnd|fn lp sd c0 rnd];
    cbn [weights_ready params_cover] in *; try exact I.
  - apply andb_true_iff in Hc as [Hl Hc]. apply Nat.eqb_eq in Hl. intros Hin. apply Hnew.
    assert (Hincl : incl (map c_id (st_crits cur)) (map (fun x : @wcrit NumQc => c_id (fst x)) wc)).
    { intros id Hid. apply in_map_iff in Hid as (c & <- & Hcin).
      rewrite forallb_forall in Hc. specialize (Hc c Hcin). apply existsb_exists in Hc as (x & Hx & Ex).
      apply String.eqb_eq in Ex. rewrite <- Ex. apply (in_map (fun x : @wcrit NumQc => c_id (fst x))). exact Hx. }
    apply (NoDup_length_incl ND) in Hincl; [now apply Hincl|]. rewrite !map_length. lia.
  - rewrite forallb_forall in Hc. eapply mhas_nonempty. apply (Hc ref Href).
  - unfold covers_weights in Hc. rewrite forallb_forall in Hc. eapply mhas_nonempty. apply (Hc ref Href).
  - apply andb_true_iff in Hc as [Hc _]. unfold covers_weights in Hc. rewrite forallb_forall in Hc.
    eapply mhas_nonempty. apply (Hc ref Href).
Qed.

(* the common part of both biases *)
Lemma added_one_model (cur st : @state NumQc) (newc : @crit NumQc) vals :
  forall Hinv_after : Stage.inv st = true,
  st_crits st = st_crits cur ++ [newc] -> c_type newc = TGain -> ~ In (c_id newc) (map c_id (st_crits cur)) ->
  Forall2 (extended_by (c_id newc) vals) (st_cons cur) (st_cons st) ->
  Forall2 (extended_by (c_id newc) vals) (st_notcons cur) (st_notcons st) ->
  new_weight_ok cur st (c_id newc) = true ->
  added_one cur st newc = true.
Proof.
  intros Hinv Hcr Hty Hnew F1 F2 Hw. unfold added_one. rewrite Hinv, Hw, Hcr, Hty.
  rewrite app_length, Nat.add_1_r, Nat.eqb_refl. unfold is_prefix_crits. rewrite firstn_length_app.
  rewrite (list_eqb_refl_gen _ crit_same_refl), last_opt_app, crit_same_refl, (has_crit_false _ _ Hnew).
  cbn [negb ctype_eqb andb]. rewrite !andb_true_r. apply andb_true_iff. split.
  - unfold values_kept, all_alts. apply list_eqb_Forall2.
    eapply Forall2_impl_in; [apply Forall2_app; [exact F1|exact F2]|].
    intros a a' _ _ Hext. cbv beta. apply forallb_forall. intros c Hc.
    rewrite (extended_by_old _ _ _ _ (c_id c) Hext); [apply option_nsame_refl|].
    intros C. apply Hnew. rewrite <- C. now apply in_map.
  - unfold same_split.
    assert (E : forall l l' : list (@alt NumQc), Forall2 (extended_by (c_id newc) vals) l l' -> map a_id l = map a_id l').
    { induction 1 as [|x y l l' (Hid & _) HF IH]; cbn [map]; congruence. }
    rewrite <- (E _ _ F1), <- (E _ _ F2), !list_eqb_refl. reflexivity.
Qed.

Lemma apply_concealment_report (e : @env NumQc) cur p st rep :
  apply_concealment e cur p = Ok (st, rep) -> exists c vals add, rep = RConcealment c vals add.
Proof.
  intros H. apply apply_concealment_inv in H
    as (ranked & ref & rr & new_all & values & g2 & consd & nconsd & ag & params & crits & H).
  cbv zeta in H. destruct H as (_ & _ & _ & _ & _ & _ & _ & _ & _ & _ & ->). eauto.
Qed.

Lemma extended_all (cur st : @state NumQc) cid vals :
  Forall2 (extended_by cid vals) (st_cons cur) (st_cons st) ->
  Forall2 (extended_by cid vals) (st_notcons cur) (st_notcons st) ->
  Forall2 (extended_by cid vals) (all_alts cur) (all_alts st).
Proof. intros F1 F2. unfold all_alts. now apply Forall2_app. Qed.

Lemma within_iff (lo hi v : Qc) : within lo hi v = true <-> (lo <= v)%Qc /\ (v <= hi)%Qc.
Proof. unfold within. rewrite andb_true_iff, !nleb_iff. tauto. Qed.

Theorem concealment_passes_checker (e : @env NumQc) cur p st rep :
  Stage.inv cur = true -> NoDup (map a_id (all_alts cur)) -> unit_stream (new_rng e (bp_seed p)) ->
  forall Hinv_after : Stage.inv st = true,
  apply_concealment e cur p = Ok (st, rep) -> C18_ok b_concealment p cur st rep = true.
Proof.
  intros Hinv ND U Hinv_after H.
  destruct (apply_concealment_report _ _ _ _ _ H) as (c & vals & add & ->).
  apply concealment_struct in H
    as (ranked & ref & rr & ag & g2 & Hr & Href & Hrr & Hc & Hcr & Hnew & _ & _ & Hag & Hadd & Hm & Hsorted & HU & HN).
  destruct (HU U) as [Ug2 Hvals]. destruct (HN ND) as (F1 & F2 & Hlen).
  pose proof (reference_in_state _ _ _ _ _ Hr Href) as Hrefin.
  pose proof (extended_all _ _ _ _ F1 F2) as Fall.
  assert (Hty : c_type c = TGain) by (rewrite Hc; reflexivity).
  assert (Hrange : c_range c = Some (scale_equally rr (bp_new_scaling p))) by (rewrite Hc; reflexivity).
  assert (Hw : new_weight_ok cur st (c_id c) = true).
  { subst add. eapply new_weight_ok_model; [exact Ug2|exact Hag|exact Hm|].
    eapply weights_ready_inv; eassumption. }
  cbn [C18_ok]. rewrite (added_one_model _ _ _ _ Hinv_after Hcr Hty Hnew F1 F2 Hw). cbn [andb].
  apply andb_true_iff. split; [apply andb_true_iff; split; [apply forallb_forall|]|].
  - intros a' Ha'. destruct (Forall2_in_r _ _ _ Fall a' Ha') as (a & _ & Hid & _ & v & Hv & Hvals').
    match goal with |- option_eqb _ ?x ?y = true =>
      assert (Ex : x = Some v) by (rewrite Hid; exact Hv);
      assert (Ey : y = Some v) by (rewrite Hvals'; apply mget_mset_same);
      rewrite Ex, Ey end.
    cbn [option_eqb]. apply nsame_refl.
  - apply Nat.eqb_eq. rewrite Hlen. apply (Forall2_length' _ _ _ Fall).
  - rewrite Hrange. destruct (scale_equally rr (bp_new_scaling p)) as [lo hi] eqn:Esc.
    apply andb_true_iff. split.
    + apply existsb_exists. exists ref. split; [exact Hrefin|]. rewrite Hrr, Esc. cbn [fst snd].
      unfold near. now rewrite !approx8_refl.
    + apply forallb_forall. intros [k v] Hkv. cbn [snd].
      assert (Hk : mget k vals = Some v) by (now apply msorted_in_mget).
      destruct (Hvals k v Hk) as (u & Uu & ->). cbn [fst snd].
      destruct (interp_between lo hi u Uu) as [A B].
      apply within_iff. split; apply bound_value_mono; assumption.
Qed.

Lemma tol_abs_nonneg : (0 <= @c_tol_abs NumQc)%Qc.
Proof. unfold Qcle, Qle. cbn. lia. Qed.

Lemma is_probability_iff (x : Qc) : is_probability x = true <-> (0 <= x)%Qc /\ (x <= 1)%Qc.
Proof. unfold is_probability. rewrite andb_true_iff, !nleb_iff. tauto. Qed.

Lemma raw_value_val_of (a : @alt NumQc) (c : @crit NumQc) v : raw_value a c = Ok v -> val_of a (c_id c) = v.
Proof.
  unfold raw_value, val_of. destruct (mget (c_id c) (a_vals a)); cbn [of_option]; intros H; [now injection H|discriminate].
Qed.

(* the check of one component in [C18_ok] *)
Definition comp_ok (before : @state NumQc) (T : Qc) (cp : @component NumQc) : bool :=
  match find (fun x => String.eqb (c_id x) (cp_id cp)) (st_crits before) with
  | Some c0 =>
      match values_range (all_alts before) c0 with
      | Ok r =>
          let sc := if @neqb NumQc (range_diff r) nzero then @nzero NumQc else @ndiv NumQc T (range_diff r) in
          forallb (fun a => match mget (a_id a) (cp_values cp) with
                            | Some s => near s (@nmul NumQc (if is_cost c0 then @nsub NumQc (snd r) (val_of a (c_id c0))
                                                             else @nsub NumQc (val_of a (c_id c0)) (fst r)) sc)
                            | None => false
                            end) (all_alts before)
      | Err _ => false
      end
  | None => false
  end.

Lemma rescaled_eq (c0 : @crit NumQc) (cr rr : Qc * Qc) (v : Qc) :
  rescaled c0 cr (ground_zero_range rr) v =
  @nmul NumQc (if is_cost c0 then @nsub NumQc (snd cr) v else @nsub NumQc v (fst cr))
    (if @neqb NumQc (range_diff cr) nzero then @nzero NumQc
     else @ndiv NumQc (snd (@ground_zero_range NumQc rr)) (range_diff cr)).
Proof.
  unfold rescaled, scale_ratio. rewrite ground_zero_fst.
  set (T := snd (@ground_zero_range NumQc rr)).
  assert (ET : @range_diff NumQc (ground_zero_range rr) = T).
  { unfold range_diff. rewrite ground_zero_fst. fold T. qcr. }
  rewrite ET. destruct (is_cost c0); qcr.
Qed.

Lemma comp_ok_model (cur : @state NumQc) (c0 : @crit NumQc) (rr : Qc * Qc) (cp : @component NumQc) :
  NoDup (map c_id (st_crits cur)) -> NoDup (map a_id (all_alts cur)) -> In c0 (st_crits cur) ->
  cp_id cp = c_id c0 ->
  rescale_criterion c0 (all_alts cur) (ground_zero_range rr) = Ok (cp_values cp) ->
  comp_ok cur (snd (@ground_zero_range NumQc rr)) cp = true.
Proof.
  intros NDc NDa Hin Hid H. unfold comp_ok. rewrite Hid, (find_by_id_nodup _ _ NDc Hin).
  apply rescale_criterion_inv in H as (cr & Hcr & Hf). rewrite Hcr. cbv zeta.
  apply resc_fold_inv in Hf as (_ & _ & _ & I4 & _).
  apply forallb_forall. intros a Ha. destruct (I4 NDa a Ha) as (v & Hv & Hm).
  match goal with |- match ?m with _ => _ end = true => assert (Em : m = Some (rescaled c0 cr (ground_zero_range rr) v)) by exact Hm;
    rewrite Em end.
  rewrite (raw_value_val_of _ _ _ Hv), rescaled_eq. unfold near. apply approx8_refl.
Qed.

Lemma apply_mixing_report (e : @env NumQc) cur p st rep : apply_mixing e cur p = Ok (st, rep) ->
  (Nat.ltb (List.length (st_crits cur)) 2 = true /\ st = cur /\ rep = RNone) \/
  (is_probability (bp_mix_ratio p) = true /\ exists k1 k2 kn add, rep = RMixing k1 k2 kn add).
Proof.
  intros H. apply apply_mixing_inv in H as [H|(_ & Ep & H)]; [now left|right]. split; [exact Ep|].
  destruct H as (d1 & d2 & c1 & c2 & ranked & ref & rr & v1 & v2 & mixed & ag & params & new_all & consd & nconsd
                 & crits & H).
  cbv zeta in H. destruct H as (_ & _ & _ & _ & _ & _ & _ & _ & _ & _ & _ & _ & _ & _ & _ & _ & _ & ->). eauto.
Qed.

Theorem mixing_passes_checker (e : @env NumQc) cur p st rep :
  Stage.inv cur = true -> NoDup (map a_id (all_alts cur)) -> unit_stream (new_rng e (bp_seed p)) ->
  forall Hinv_after : Stage.inv st = true,
  apply_mixing e cur p = Ok (st, rep) -> C18_ok b_mixing p cur st rep = true.
Proof.
  intros Hinv ND U Hinv_after H0.
  destruct (apply_mixing_report _ _ _ _ _ H0) as [(E2 & -> & ->)|(Ep & k1 & k2 & kn & add & ->)].
  { cbn [C18_ok]. rewrite E2, String.eqb_refl, state_same_refl. reflexivity. }
  pose proof (inv_parts _ Hinv) as [_ NDc].
  pose proof (mixed_components_distinct_ids _ _ _ _ _ _ _ _ U NDc H0) as Hdist.
  pose proof (mixed_value_formula _ _ _ _ _ _ _ _ H0) as Hformula.
  pose proof H0 as H. apply mixing_struct in H as (d1 & d2 & c1 & c2 & ranked & ref & rr & ag & H).
  cbv zeta in H.
  destruct H as (Hn & _ & Hd1 & Hd2 & Hc1 & Hc2 & Hr & Href & Hrr & E1 & _ & E3 & _ & E5 & _ & Hv1 & Hv2 & _ & Hag
                 & Hadd & Hm & Hcr & Hnew & _ & _ & HN).
  destruct (HN ND) as (F1 & F2).
  set (newc := {| c_id := not_used_name (st_crits cur) (mixed_name c1 c2); c_type := TGain;
                  c_range := Some (ground_zero_range rr) |}) in *.
  pose proof (reference_in_state _ _ _ _ _ Hr Href) as Hrefin.
  pose proof (extended_all _ _ _ _ F1 F2) as Fall.
  assert (Ug2 : unit_stream (snd d2)).
  { destruct d1 as [u1 g1]. destruct d2 as [u2 g2]. cbn [fst snd] in *.
    destruct (draw_unit _ _ _ U Hd1) as [_ Ug1]. now destruct (draw_unit _ _ _ Ug1 Hd2). }
  assert (Hw : new_weight_ok cur st (c_id newc) = true).
  { subst add. eapply new_weight_ok_model; [exact Ug2|exact Hag|exact Hm|].
    eapply weights_ready_inv; eassumption. }
  apply is_probability_iff in Ep as [R0 R1].
  cbn [C18_ok]. rewrite Hcr at 1. rewrite last_opt_app.
  rewrite (added_one_model _ _ _ _ Hinv_after Hcr eq_refl Hnew F1 F2 Hw). cbn [andb].
  rewrite E5, String.eqb_refl. cbn [andb].
  apply String.eqb_neq in Hdist. rewrite Hdist. cbn [negb andb].
  rewrite E1, E3, (has_crit_true _ _ (nth_opt_In _ _ _ Hc1)), (has_crit_true _ _ (nth_opt_In _ _ _ Hc2)). cbn [andb].
  apply andb_true_iff. split.
  - apply forallb_forall. intros a' Ha'.
    destruct (Forall2_in_r _ _ _ Fall a' Ha') as (a & _ & Hid & _ & z & Hz & Hvals').
    destruct (Hformula (a_id a) z Hz) as (x & y & Hx & Hy & Ez).
    rewrite Hid.
    match goal with |- match ?m with _ => _ end = true => assert (Em : m = Some x) by exact Hx; rewrite Em end.
    match goal with |- match ?m with _ => _ end = true => assert (Em2 : m = Some y) by exact Hy; rewrite Em2 end.
    match goal with |- match ?m with _ => _ end = true => assert (Em3 : m = Some z) by exact Hz; rewrite Em3 end.
    apply andb_true_iff. split; [apply andb_true_iff; split|].
    + rewrite Ez. unfold near. apply approx8_refl.
    + destruct (mixed_between_components _ x y R0 R1) as [A B]. rewrite <- Ez in A, B.
      pose proof tol_abs_nonneg as HT. apply within_iff. split.
      * apply (Qcle_trans _ (nmin x y)); [|exact A]. generalize (nmin x y). intros m. clear - HT. qcq. lra.
      * apply (Qcle_trans _ (nmax x y)); [exact B|]. generalize (nmax x y). intros m. clear - HT. qcq. lra.
    + match goal with |- option_eqb _ _ ?m = true =>
        assert (Em4 : m = Some z) by (rewrite Hvals'; apply mget_mset_same); rewrite Em4 end.
      cbn [option_eqb]. apply nsame_refl.
  - cbn [c_range newc].
    change (@ground_zero_range NumQc rr) with (@nzero NumQc, snd (@ground_zero_range NumQc rr)).
    cbv iota beta.
    assert (Z : @neqb NumQc nzero nzero = true) by (apply neqb_iff; reflexivity). rewrite Z. cbn [andb].
    change (forallb (comp_ok cur (snd (@ground_zero_range NumQc rr))) [k1; k2] = true).
    cbn [forallb]. rewrite !andb_true_iff. split; [|split; [|reflexivity]].
    + eapply comp_ok_model; [exact NDc|exact ND|eapply nth_opt_In; exact Hc1|exact E1|exact Hv1].
    + eapply comp_ok_model; [exact NDc|exact ND|eapply nth_opt_In; exact Hc2|exact E3|exact Hv2].
Qed.

(** ** 3. [not_used_name]: [name], or [name] followed by a number, counting on while the candidate is an existing id.
    The candidates are pairwise distinct ([nat_to_string] is injective), so among [S (length cs)] consecutive ones
    at least one is not among the [length cs] ids (pigeonhole): the fuel of the model is enough and the result is
    always fresh ([not_used_name_fresh]). *)
Local Open Scope string_scope.

Fixpoint str_val (s : string) (acc : nat) : nat :=
  match s with
  | EmptyString => acc
  | String c r => str_val r (acc * 10 + (nat_of_ascii c - 48))
  end.

Lemma digit_char_val d : (d < 10)%nat -> (nat_of_ascii (digit_char d) - 48 = d)%nat.
Proof. intros H. unfold digit_char. rewrite nat_ascii_embedding by lia. lia. Qed.

Lemma nat_to_string_aux_val : forall f n acc, (n < f)%nat ->
  str_val (nat_to_string_aux f n acc) 0 = str_val acc n.
Proof.
  induction f as [|f IH]; intros n acc Hn; [lia|]. cbn [nat_to_string_aux].
  assert (Hm : (n mod 10 < 10)%nat) by (apply Nat.mod_upper_bound; lia).
  destruct (Nat.ltb n 10) eqn:E.
  - apply Nat.ltb_lt in E. cbn [str_val]. rewrite digit_char_val by exact Hm.
    rewrite Nat.mod_small by exact E. reflexivity.
  - apply Nat.ltb_ge in E. rewrite IH.
    + cbn [str_val]. rewrite digit_char_val by exact Hm. f_equal.
      pose proof (Nat.div_mod n 10). lia.
    + assert (n / 10 < n)%nat by (apply Nat.div_lt; lia). lia.
Qed.

Lemma nat_to_string_val n : str_val (nat_to_string n) 0 = n.
Proof. unfold nat_to_string. rewrite nat_to_string_aux_val by lia. reflexivity. Qed.

Lemma nat_to_string_inj a b : nat_to_string a = nat_to_string b -> a = b.
Proof. intros H. rewrite <- (nat_to_string_val a), <- (nat_to_string_val b), H. reflexivity. Qed.

Lemma sapp_inj_l (b s1 s2 : string) : b ++ s1 = b ++ s2 -> s1 = s2.
Proof. induction b as [|a b IH]; cbn [append]; intros H; [exact H|]. injection H as H. now apply IH. Qed.

Lemma sapp_self (b s : string) : b ++ s = b -> s = "".
Proof. intros H. apply (sapp_inj_l b). now rewrite sapp_nil_r. Qed.

Lemma has_prefix_app (b s : string) : has_prefix b (b ++ s) = true.
Proof. induction b as [|a b IH]; cbn [append has_prefix]; [reflexivity|]. now rewrite Ascii.eqb_refl, IH. Qed.

Lemma has_prefix_refl (b : string) : has_prefix b b = true.
Proof. rewrite <- (sapp_nil_r b) at 2. apply has_prefix_app. Qed.

(** *** the candidates [name; name1; name2; ...] are pairwise distinct *)
Lemma name_candidate_inj name i j : name_candidate name i = name_candidate name j -> i = j.
Proof.
  unfold name_candidate. destruct (Nat.eqb i 0) eqn:Ei, (Nat.eqb j 0) eqn:Ej; intros H.
  - apply Nat.eqb_eq in Ei, Ej. congruence.
  - exfalso. symmetry in H. apply sapp_self in H. pose proof (nat_to_string_val j) as V.
    rewrite H in V. cbn [str_val] in V. apply Nat.eqb_neq in Ej. congruence.
  - exfalso. apply sapp_self in H. pose proof (nat_to_string_val i) as V.
    rewrite H in V. cbn [str_val] in V. apply Nat.eqb_neq in Ei. congruence.
  - apply sapp_inj_l, nat_to_string_inj in H. exact H.
Qed.

Lemma name_candidate_prefix name n : has_prefix name (name_candidate name n) = true.
Proof. unfold name_candidate. destruct (Nat.eqb n 0); [apply has_prefix_refl | apply has_prefix_app]. Qed.

Lemma NoDup_map_inj {A B} (f : A -> B) : (forall x y, f x = f y -> x = y) ->
  forall l, NoDup l -> NoDup (map f l).
Proof.
  intros Hf. induction 1 as [|x l Hn ND IH]; cbn [map]; constructor; [|exact IH].
  intros C. apply in_map_iff in C as (y & E & Hy). apply Hf in E. subst y. contradiction.
Qed.

(* pigeonhole: [m] consecutive candidates that are all in [ids] need [m <= length ids] *)
Lemma candidates_pigeonhole name (ids : list string) n m :
  (forall j, (n <= j < n + m)%nat -> In (name_candidate name j) ids) -> (m <= List.length ids)%nat.
Proof.
  intros H. rewrite <- (seq_length m n), <- (map_length (name_candidate name)).
  apply NoDup_incl_length.
  - apply NoDup_map_inj; [intros i j; apply name_candidate_inj | apply seq_NoDup].
  - intros x Hx. apply in_map_iff in Hx as (j & <- & Hj). apply in_seq in Hj. apply H. lia.
Qed.

Lemma first_free_name_aux : forall fuel ids name n, exists k,
  (n <= k <= n + fuel)%nat /\ first_free_name fuel ids name n = name_candidate name k /\
  (forall j, (n <= j < k)%nat -> In (name_candidate name j) ids) /\
  ((k < n + fuel)%nat -> ~ In (name_candidate name k) ids).
Proof.
  induction fuel as [|f IH]; intros ids name n; cbn [first_free_name].
  - exists n. split; [lia|]. split; [reflexivity|]. split; intros; lia.
  - destruct (mem_str (name_candidate name n) ids) eqn:E.
    + destruct (IH ids name (S n)) as (k & Hk & Hr & Hall & Hfree). exists k.
      split; [lia|]. split; [exact Hr|]. split.
      * intros j Hj. destruct (Nat.eq_dec j n) as [->|NE]; [now apply mem_str_In | apply Hall; lia].
      * intros Hlt. apply Hfree. lia.
    + exists n. split; [lia|]. split; [reflexivity|]. split; [intros; lia|].
      intros _. now apply mem_str_false.
Qed.

(** the loop returns the first candidate from [n] on that is not in [ids]; with more fuel than ids it finds one *)
Lemma first_free_name_spec fuel ids name n : exists k,
  (n <= k)%nat /\ first_free_name fuel ids name n = name_candidate name k /\
  (forall j, (n <= j < k)%nat -> In (name_candidate name j) ids) /\
  ((List.length ids < fuel)%nat -> ~ In (first_free_name fuel ids name n) ids).
Proof.
  destruct (first_free_name_aux fuel ids name n) as (k & Hk & Hr & Hall & Hfree). exists k.
  split; [lia|]. split; [exact Hr|]. split; [exact Hall|]. intros Hlen. rewrite Hr. apply Hfree.
  destruct (Nat.eq_dec k (n + fuel)) as [->|NE]; [|lia]. exfalso.
  pose proof (candidates_pigeonhole name ids n fuel Hall). lia.
Qed.

(** *** main theorem: the generated name is never one of the existing ids (any numeric carrier) *)
Theorem not_used_name_fresh {N : Num} : forall (cs : list (@crit N)) (name : string),
  ~ In (not_used_name cs name) (map c_id cs).
Proof.
  intros cs name. unfold not_used_name. cbv zeta.
  match goal with |- ~ In (first_free_name ?f ?ids ?nm ?n) _ =>
    destruct (first_free_name_spec f ids nm n) as (k & _ & _ & _ & H) end.
  apply H. rewrite map_length. lia.
Qed.

(* what the name is: [name] followed by the first number, counting from the number of ids that start with
   [name] (no number for 0), that gives an unused id *)
Lemma not_used_name_spec {N : Num} (cs : list (@crit N)) name :
  let n0 := List.length (filter (fun c => has_prefix name (c_id c)) cs) in
  exists k, (n0 <= k)%nat /\ not_used_name cs name = name_candidate name k /\
            (forall j, (n0 <= j < k)%nat -> In (name_candidate name j) (map c_id cs)) /\
            ~ In (name_candidate name k) (map c_id cs).
Proof.
  cbv zeta. pose proof (not_used_name_fresh cs name) as F. unfold not_used_name in *. cbv zeta in *.
  match goal with |- exists k, (?n <= k)%nat /\ first_free_name ?f ?ids ?nm ?n = _ /\ _ =>
    destruct (first_free_name_spec f ids nm n) as (k & Hk & Hr & Hall & _) end.
  exists k. split; [exact Hk|]. split; [exact Hr|]. split; [exact Hall|]. rewrite <- Hr. exact F.
Qed.

(* when the first guess (the name computed before the repair) is unused, it is still the result *)
Lemma not_used_name_first_guess {N : Num} (cs : list (@crit N)) name :
  let n0 := List.length (filter (fun c => has_prefix name (c_id c)) cs) in
  ~ In (name_candidate name n0) (map c_id cs) -> not_used_name cs name = name_candidate name n0.
Proof.
  cbv zeta. intros H. unfold not_used_name. cbv zeta. cbn [first_free_name].
  apply mem_str_false in H. rewrite H. reflexivity.
Qed.

Lemma not_used_name_prefix {N : Num} (cs : list (@crit N)) name : has_prefix name (not_used_name cs name) = true.
Proof. destruct (not_used_name_spec cs name) as (k & _ & -> & _). apply name_candidate_prefix. Qed.

(* hence adding a criterion under that name never fails with a collision *)
Lemma add_criterion_not_used_name {N : Num} (cs : list (@crit N)) name ty rg :
  add_criterion cs {| c_id := not_used_name cs name; c_type := ty; c_range := rg |}
  = Ok (cs ++ [{| c_id := not_used_name cs name; c_type := ty; c_range := rg |}])%list.
Proof.
  unfold add_criterion. cbn [c_id].
  rewrite (proj2 (mem_str_false _ _) (not_used_name_fresh cs name)). reflexivity.
Qed.

(** *** the new criterion's id was not used before.
    History: before the repair of [Criteria.NotUsedName] this theorem needed the hypothesis that the ids starting
    with [base] are exactly base, base1, ..., base(n-1) ([Hseq : Permutation (filter (has_prefix base) ids)
    (numbered base n)]); the name now keeps counting while the candidate is taken, so no hypothesis is left. *)
Theorem fresh_name (cs : list (@crit NumQc)) base : ~ In (not_used_name cs base) (map c_id cs).
Proof. apply not_used_name_fresh. Qed.

(* concealment: the reported criterion carries that name and it is new *)
Theorem concealment_fresh_name (e : @env NumQc) cur p st c vals add :
  apply_concealment e cur p = Ok (st, RConcealment c vals add) ->
  c_id c = not_used_name (st_crits cur) base_concealed /\ ~ In (c_id c) (map c_id (st_crits cur)) /\
  st_crits st = (st_crits cur ++ [c])%list.
Proof.
  intros H. apply concealment_struct in H as (ranked & ref & rr & ag & g2 & _ & _ & _ & Hc & Hcr & _).
  split; [rewrite Hc; reflexivity|]. split; [|exact Hcr]. rewrite Hc. cbn [c_id]. apply not_used_name_fresh.
Qed.

(* mixing: the id of the mixed criterion is derived from "__<first>+<second>__" and it is new *)
Theorem mixing_fresh_name (e : @env NumQc) cur p st k1 k2 kn add :
  apply_mixing e cur p = Ok (st, RMixing k1 k2 kn add) ->
  cp_id kn = not_used_name (st_crits cur) ("__" ++ cp_id k1 ++ "+" ++ cp_id k2 ++ "__") /\
  ~ In (cp_id kn) (map c_id (st_crits cur)) /\
  exists c, st_crits st = (st_crits cur ++ [c])%list /\ c_id c = cp_id kn.
Proof.
  intros H. apply mixing_struct in H as (d1 & d2 & c1 & c2 & ranked & ref & rr & ag & H).
  cbv zeta in H.
  destruct H as (_ & _ & _ & _ & _ & _ & _ & _ & _ & E1 & _ & E3 & _ & E5 & _ & _ & _ & _ & _ & _ & _ & Hcr & _).
  cbn [c_id] in E5. rewrite E1, E3, E5. split; [reflexivity|]. split; [apply not_used_name_fresh|].
  eexists. split; [exact Hcr|reflexivity].
Qed.

(** ** Counterexample: with two alternatives of the same id the concealed values are not the reported ones
    (the first extended copy is fetched for both, the report keeps the last value), so [Hnodup] is needed in
    [concealment_adds_one] and [concealment_passes_checker]. *)
Local Open Scope list_scope.
Definition cxq (a : Z) (b : positive) : Qc := Q2Qc (a # b).
Definition cx_fp : @fparams NumQc :=
  {| fp_name := ""; fp_a := cxq 0 1; fp_b := cxq 0 1; fp_alpha := cxq 0 1; fp_mult := cxq 0 1 |}.
Definition cx_props : @bprops NumQc :=
  {| bp_ordering := ""; bp_ratio := cxq 0 1; bp_min := 0; bp_max := 0; bp_seed := 0;
     bp_scaling := cxq (-1) 1; bp_nonneg := false;
     bp_ref_type := ""; bp_ref_importance := cxq 0 1; bp_ref_seed := 0;
     bp_new_scaling := cxq 1 1; bp_mix_ratio := cxq 1 2;
     bp_fat_function := ""; bp_fat_value := cxq 0 1; bp_fat_alpha := cxq 0 1; bp_fat_mult := cxq 0 1;
     bp_fat_query := 0;
     bp_anch_alts := []; bp_anch_loss := cx_fp; bp_anch_gain := cx_fp; bp_anch_ref := ""; bp_anch_applier := "";
     bp_anch_not_considered := false |}.
Definition cx_c : @crit NumQc := {| c_id := "c"; c_type := TGain; c_range := None |}.
Definition cx_env : @env NumQc := {| env_streams := [(0%Z, [cxq 1 4; cxq 3 4; cxq 1 2])]; env_exp := [] |}.
Definition cx_state : @state NumQc :=
  {| st_notcons := [];
     st_cons := [{| a_id := "x"; a_vals := [("c", cxq 0 1)] |}; {| a_id := "x"; a_vals := [("c", cxq 10 1)] |}];
     st_crits := [cx_c]; st_params := PWs [(cx_c, cxq 1 1)] |}.

Definition cx_out : res (@state NumQc * @report NumQc) := apply_concealment cx_env cx_state cx_props.

Definition cx_verdict : bool :=
  match cx_out with
  | Ok (st, RConcealment c vals add) =>
      Stage.inv cx_state && Stage.inv st
      && negb (forallb (fun a => option_eqb nsame (mget (a_id a) vals) (mget (c_id c) (a_vals a))) (all_alts st))
      && negb (values_kept (st_crits cx_state) cx_state st)
      && negb (C18_ok b_concealment cx_props cx_state st (RConcealment c vals add))
  | _ => false
  end.

Lemma cx_verdict_true : cx_verdict = true.
Proof. vm_compute. reflexivity. Qed.

Lemma cx_stream_unit : unit_stream (new_rng cx_env (bp_seed cx_props)).
Proof. repeat constructor; vm_compute; congruence. Qed.

Theorem concealment_values_need_nodup :
  exists st c vals add,
    apply_concealment cx_env cx_state cx_props = Ok (st, RConcealment c vals add) /\
    Stage.inv cx_state = true /\ Stage.inv st = true /\ unit_stream (new_rng cx_env (bp_seed cx_props)) /\
    forallb (fun a => option_eqb nsame (mget (a_id a) vals) (mget (c_id c) (a_vals a))) (all_alts st) = false /\
    values_kept (st_crits cx_state) cx_state st = false /\
    C18_ok b_concealment cx_props cx_state st (RConcealment c vals add) = false.
Proof.
  pose proof cx_verdict_true as H. unfold cx_verdict in H.
  destruct cx_out as [[st rep]|] eqn:E; [|discriminate]. destruct rep as [| | | |c vals add| |]; try discriminate.
  exists st, c, vals, add. split; [exact E|].
  repeat (apply andb_true_iff in H as [H ?]).
  repeat match goal with Hn : negb _ = true |- _ => apply negb_true_iff in Hn end.
  repeat split; try assumption. apply cx_stream_unit.
Qed.

(** ** Counterexample: for the weighted sum, [merge] appends the new weight without looking for a collision; if the
    weights already hold an entry with the new id (impossible under [inv], see [weights_ready_inv]) the checker
    reads that older entry: hypothesis [Hready] of [new_weight_ok_model] is needed. *)
Definition cx2_ref : @crit NumQc := {| c_id := "r"; c_type := TGain; c_range := None |}.
Definition cx2_stale : @crit NumQc := {| c_id := base_concealed; c_type := TGain; c_range := None |}.
Definition cx2_state : @state NumQc :=
  {| st_notcons := []; st_cons := [{| a_id := "a"; a_vals := [("r", cxq 5 1)] |}];
     st_crits := [cx2_ref]; st_params := PWs [(cx2_ref, cxq 1 1); (cx2_stale, cxq 100 1)] |}.
Definition cx2_verdict : bool :=
  match apply_concealment cx_env cx2_state cx_props with
  | Ok (st, RConcealment c vals add) =>
      String.eqb (c_id c) base_concealed && negb (new_weight_ok cx2_state st (c_id c)) && negb (Stage.inv cx2_state)
  | _ => false
  end.
Theorem new_weight_needs_ready : cx2_verdict = true.
Proof. vm_compute. reflexivity. Qed.

(** ** The repaired naming on the data that used to collide.
    History: before the repair, [not_used_name cs base] was [base] followed by the NUMBER of ids starting with
    [base] (nothing for 0) and nothing else; with a gap in the numbering (one criterion named base ++ "1") that
    name was already taken. [fresh_name_refuted_general] stated this collision
    ([exists cs base, In (not_used_name cs base) (map c_id cs)], witness below) and
    [concealment_collision_fails] stated that [apply_concealment] then failed in [add_criterion]
    ([In (not_used_name (st_crits cur) base_concealed) (map c_id (st_crits cur)) -> forall st rep,
    apply_concealment e cur p <> Ok (st, rep)]). Both are FALSE for the repaired program (their hypothesis/witness
    contradicts [not_used_name_fresh]). The names are kept, because a generated file refers to them, for the
    statements of the repaired behaviour on the SAME witness data. *)
Local Open Scope string_scope.
Definition cx3_stale : @crit NumQc := {| c_id := base_concealed ++ "1"; c_type := TGain; c_range := None |}.

(** on the old witness (a single criterion named base1) the first guess base1 is taken and the result is base2 *)
Theorem fresh_name_refuted_general :
  let cs : list (@crit NumQc) := [cx3_stale] in
  In (name_candidate base_concealed (List.length (filter (fun c => has_prefix base_concealed (c_id c)) cs)))
     (map c_id cs) /\
  not_used_name cs base_concealed = base_concealed ++ "2" /\
  ~ In (not_used_name cs base_concealed) (map c_id cs).
Proof.
  cbv zeta. split; [vm_compute; left; reflexivity|]. split; [vm_compute; reflexivity|].
  vm_compute. intros [H|[]]. discriminate.
Qed.

(* a gap further on: ids base, base2 -> first guess base2 is taken, result base3 *)
Example not_used_name_skips_taken :
  not_used_name [{| c_id := base_concealed; c_type := TGain; c_range := @None (Qc * Qc) |};
                 {| c_id := base_concealed ++ "2"; c_type := TGain; c_range := None |}] base_concealed
  = base_concealed ++ "3".
Proof. vm_compute. reflexivity. Qed.

(* counting goes past one digit *)
Example not_used_name_two_digits :
  not_used_name (map (fun i => {| c_id := name_candidate "k" i; c_type := TGain; c_range := @None (Qc * Qc) |})
                     (seq 0 12)) "k" = "k12".
Proof. vm_compute. reflexivity. Qed.

(** a state whose criteria are "c" and base1: the old program failed here with a collision *)
Definition cx3_state : @state NumQc :=
  {| st_notcons := [];
     st_cons := [{| a_id := "x"; a_vals := mset "c" (cxq 0 1) (mset (c_id cx3_stale) (cxq 2 1) []) |};
                 {| a_id := "y"; a_vals := mset "c" (cxq 10 1) (mset (c_id cx3_stale) (cxq 3 1) []) |}];
     st_crits := [cx_c; cx3_stale]; st_params := PWs [(cx_c, cxq 1 1); (cx3_stale, cxq 1 2)] |}.

Definition cx3_verdict : bool :=
  match apply_concealment cx_env cx3_state cx_props with
  | Ok (st, RConcealment c vals add) =>
      Stage.inv cx3_state && Stage.inv st
      && mem_str (name_candidate base_concealed 1) (map c_id (st_crits cx3_state))
      && String.eqb (c_id c) (base_concealed ++ "2")
      && list_eqb String.eqb (map c_id (st_crits st)) ["c"; base_concealed ++ "1"; base_concealed ++ "2"]
      && C18_ok b_concealment cx_props cx3_state st (RConcealment c vals add)
  | _ => false
  end.
Lemma list_eqb_str_eq : forall l l' : list string, list_eqb String.eqb l l' = true -> l = l'.
Proof.
  induction l as [|x l IH]; intros [|y l'] H; cbn [list_eqb] in H; try discriminate; [reflexivity|].
  apply andb_true_iff in H as [H1 H2]. apply String.eqb_eq in H1. subst y. f_equal. now apply IH.
Qed.

Lemma cx3_verdict_true : cx3_verdict = true.
Proof. vm_compute. reflexivity. Qed.

(** on the old colliding state (the old name base1 is an existing id) concealment now succeeds, under the name base2 *)
Theorem concealment_collision_fails :
  In (name_candidate base_concealed 1) (map c_id (st_crits cx3_state)) /\
  exists st rep, apply_concealment cx_env cx3_state cx_props = Ok (st, rep) /\
    map c_id (st_crits st) = ["c"; base_concealed ++ "1"; base_concealed ++ "2"] /\
    Stage.inv cx3_state = true /\ Stage.inv st = true /\ C18_ok b_concealment cx_props cx3_state st rep = true.
Proof.
  pose proof cx3_verdict_true as H. unfold cx3_verdict in H.
  destruct (apply_concealment cx_env cx3_state cx_props) as [[st rep]|] eqn:E; [|discriminate].
  destruct rep as [| | | |c vals add| |]; try discriminate.
  repeat (apply andb_true_iff in H as [H ?]).
  split; [now apply mem_str_In|]. exists st, (RConcealment c vals add). split; [reflexivity|].
  split; [|repeat split; assumption].
  now apply list_eqb_str_eq.
Qed.

(** mixing the same pair twice (same seed, hence the same draws and the same pair "a", "b"): the old program named
    both new criteria "__a+b__" and failed the second time; now the second one is "__a+b__1" *)
Definition mx_a : @crit NumQc := {| c_id := "a"; c_type := TGain; c_range := None |}.
Definition mx_b : @crit NumQc := {| c_id := "b"; c_type := TCost; c_range := None |}.
Definition mx_state : @state NumQc :=
  {| st_notcons := [{| a_id := "z"; a_vals := [("a", cxq 4 1); ("b", cxq 1 1)] |}];
     st_cons := [{| a_id := "x"; a_vals := [("a", cxq 0 1); ("b", cxq 7 1)] |};
                 {| a_id := "y"; a_vals := [("a", cxq 10 1); ("b", cxq 3 1)] |}];
     st_crits := [mx_a; mx_b]; st_params := PWs [(mx_a, cxq 1 1); (mx_b, cxq 1 2)] |}.

Definition mx_ids (r : @report NumQc) : list string :=
  match r with RMixing k1 k2 kn _ => [cp_id k1; cp_id k2; cp_id kn] | _ => [] end.

Definition mx_twice : res (list string * list string * list string * list string * bool) :=
  do r1 <- apply_mixing cx_env mx_state cx_props;
  do r2 <- apply_mixing cx_env (fst r1) cx_props;
  Ok (map c_id (st_crits (fst r1)), mx_ids (snd r1), map c_id (st_crits (fst r2)), mx_ids (snd r2),
      Stage.inv mx_state && Stage.inv (fst r1) && Stage.inv (fst r2)
      && C18_ok b_mixing cx_props mx_state (fst r1) (snd r1) && C18_ok b_mixing cx_props (fst r1) (fst r2) (snd r2)).

Example mixing_twice_same_pair :
  mx_twice = Ok (["a"; "b"; "__a+b__"], ["a"; "b"; "__a+b__"],
                 ["a"; "b"; "__a+b__"; "__a+b__1"], ["a"; "b"; "__a+b__1"], true).
Proof. vm_compute. reflexivity. Qed.

(* the same, unfolded: both applications succeed *)
Corollary mixing_twice_same_pair_ok :
  exists st1 rep1 st2 rep2,
    apply_mixing cx_env mx_state cx_props = Ok (st1, rep1) /\ apply_mixing cx_env st1 cx_props = Ok (st2, rep2) /\
    map c_id (st_crits st1) = ["a"; "b"; "__a+b__"] /\ mx_ids rep1 = ["a"; "b"; "__a+b__"] /\
    map c_id (st_crits st2) = ["a"; "b"; "__a+b__"; "__a+b__1"] /\ mx_ids rep2 = ["a"; "b"; "__a+b__1"].
Proof.
  pose proof mixing_twice_same_pair as H. unfold mx_twice in H.
  destruct (apply_mixing cx_env mx_state cx_props) as [[st1 rep1]|] eqn:E1; [|discriminate]. cbn [bind fst snd] in H.
  destruct (apply_mixing cx_env st1 cx_props) as [[st2 rep2]|] eqn:E2; [|discriminate]. cbn [bind fst snd] in H.
  injection H as H1 H2 H3 H4 _. exists st1, rep1, st2, rep2. repeat split; assumption.
Qed.
