(** * ELECTRE III: the distillations do not depend on the order in which the alternatives are
    listed (part of property C06).

    1. [rename m pi n]: the credibility matrix seen through a new listing [pi] of the indices.
    2. invariance of every set-level operation of [Model/Electre.v] under a permutation of the
       *listing* of the index set [D] ([max_cred_perm] ... [distill_perm_class]).
    3. equivariance under renaming: the operations on the renamed matrix [m'] with index set [D']
       are the images of the operations on [m] with index set [map g D'] ([*_rename]).
    4. [rank_ascending_equivariant], [rank_descending_equivariant], their [NumQc] corollaries, and
       the lift to [cred_matrix] / [electre_evaluate].

    Part 3 needs no order law at all (it is a pure renaming).  Part 2 needs the order laws for
    the two folds that take a maximum ([max_cred], [min_cred]): a permutation of the entries
    yields a maximum that is only [neqb]-equal, so the section hypotheses [neqb_eq] (numeric
    equality is Leibniz equality), [okv_zero] and [okv] of all entries are assumed; all are
    discharged on [NumQc]. *)
From Coq Require Import ZArith Bool List String Permutation Lia.
From RDM Require Import Base.Num Base.Util Model.Data Model.Electre Proofs.RankFacts Proofs.ElectreFacts.
Import ListNotations.
Local Open Scope string_scope.
Local Open Scope list_scope.

(** ** 0. generic list facts *)
Lemma filter_perm {A} (p : A -> bool) l l' :
  Permutation l l' -> Permutation (filter p l) (filter p l').
Proof.
  induction 1 as [|x l l' P IH|x y l|l l' l'' P1 IH1 P2 IH2]; cbn [filter].
  - constructor.
  - destruct (p x); [now constructor | exact IH].
  - destruct (p x), (p y); try reflexivity. apply perm_swap.
  - now transitivity (filter p l').
Qed.

Lemma filter_map_pre {A B} (g : A -> B) (p : B -> bool) l :
  filter p (map g l) = map g (filter (fun x => p (g x)) l).
Proof.
  induction l as [|a l IH]; cbn [map filter]; [reflexivity|].
  destruct (p (g a)); cbn [map]; congruence.
Qed.

Lemma flat_map_ext_in' {A B} (F G : A -> list B) l :
  (forall x, In x l -> F x = G x) -> flat_map F l = flat_map G l.
Proof.
  induction l as [|a l IH]; intros H; cbn [flat_map]; [reflexivity|].
  rewrite (H a (or_introl eq_refl)). f_equal. apply IH. intros x Hx. apply H. now right.
Qed.

Lemma flat_map_perm_inner {A B} (F G : A -> list B) l :
  (forall x, In x l -> Permutation (F x) (G x)) -> Permutation (flat_map F l) (flat_map G l).
Proof.
  induction l as [|a l IH]; intros H; cbn [flat_map]; [constructor|].
  apply Permutation_app; [apply H; now left|]. apply IH. intros x Hx. apply H. now right.
Qed.

Lemma flat_map_perm_outer {A B} (F : A -> list B) l l' :
  Permutation l l' -> Permutation (flat_map F l) (flat_map F l').
Proof.
  induction 1 as [|x l l' P IH|x y l|l l' l'' P1 IH1 P2 IH2]; cbn [flat_map].
  - constructor.
  - now apply Permutation_app_head.
  - rewrite !app_assoc. apply Permutation_app_tail. apply Permutation_app_comm.
  - now transitivity (flat_map F l').
Qed.

Lemma existsb_eqb_in (i : nat) C : existsb (Nat.eqb i) C = true <-> In i C.
Proof.
  rewrite existsb_exists. split.
  - intros (x & Hx & E). apply Nat.eqb_eq in E. now subst.
  - intros H. exists i. split; [exact H|apply Nat.eqb_refl].
Qed.

Lemma bool_eq_iff (a b : bool) : (a = true <-> b = true) -> a = b.
Proof. destruct a, b; intros [H1 H2]; auto. symmetry; auto. Qed.

Lemma fold_zmax_perm l l' : Permutation l l' -> forall acc, fold_left Z.max l acc = fold_left Z.max l' acc.
Proof.
  induction 1 as [|x l l' P IH|x y l|l l' l'' P1 IH1 P2 IH2]; intros acc; cbn [fold_left].
  - reflexivity.
  - apply IH.
  - f_equal. lia.
  - now rewrite IH1.
Qed.

Lemma map_nth_seq {A} (d : A) (l : list A) : map (fun k => nth k l d) (seq 0 (List.length l)) = l.
Proof.
  induction l as [|a l IH]; cbn [List.length seq map nth]; [reflexivity|].
  f_equal. rewrite <- seq_shift, map_map. exact IH.
Qed.

Lemma nth_map_seq {A} (F : nat -> A) n k d : k < n -> nth k (map F (seq 0 n)) d = F k.
Proof.
  intros Hk. rewrite (nth_indep _ d (F 0)) by now rewrite map_length, seq_length.
  rewrite (map_nth F). now rewrite seq_nth.
Qed.

Lemma nth_opt_map_seq {A} (F : nat -> A) : forall n s i,
  i < n -> nth_opt i (map F (seq s n)) = Some (F (s + i)).
Proof.
  induction n as [|n IH]; intros s i Hi; [lia|].
  cbn [seq map]. destruct i as [|i]; cbn [nth_opt].
  - now rewrite Nat.add_0_r.
  - rewrite IH by lia. f_equal. f_equal. lia.
Qed.

(** results related componentwise *)
Definition res_rel {A B} (R : A -> B -> Prop) (x : res A) (y : res B) : Prop :=
  match x, y with
  | Ok a, Ok b => R a b
  | Err e1, Err e2 => e1 = e2
  | _, _ => False
  end.

Definition res_map {A B} (h : A -> B) (x : res A) : res B :=
  match x with Ok a => Ok (h a) | Err e => Err e end.

(** the class an assignment gives to an index (what [positions] reads) *)
Definition class_of (i : nat) (a : list (nat * Z)) : Z :=
  match find (fun p => Nat.eqb (fst p) i) a with Some p => snd p | None => 0%Z end.

Lemma positions_eq n a : positions n a = map (fun i => class_of i a) (seq 0 n).
Proof. reflexivity. Qed.

Lemma positions_nth n a k : k < n -> nth k (positions n a) 0%Z = class_of k a.
Proof.
  intros Hk. rewrite positions_eq.
  rewrite (nth_indep _ 0%Z (class_of 0 a)) by now rewrite map_length, seq_length.
  rewrite (map_nth (fun i => class_of i a)). now rewrite seq_nth.
Qed.

Lemma class_of_in i z a : NoDup (map fst a) -> In (i, z) a -> class_of i a = z.
Proof.
  intros ND Hin. unfold class_of.
  destruct (find (fun p => Nat.eqb (fst p) i) a) as [p|] eqn:Ef.
  - apply find_some in Ef as [Hp Ep]. apply Nat.eqb_eq in Ep.
    assert (p = (i, z)) as -> by (eapply NoDup_map_inj; [exact ND|exact Hp|exact Hin|exact Ep]).
    reflexivity.
  - eapply find_none in Ef; [|exact Hin]. cbn [fst] in Ef. rewrite Nat.eqb_refl in Ef. discriminate.
Qed.

Lemma class_of_notin i a : ~ In i (map fst a) -> class_of i a = 0%Z.
Proof.
  intros Hn. unfold class_of.
  destruct (find (fun p => Nat.eqb (fst p) i) a) as [p|] eqn:Ef; [|reflexivity].
  apply find_some in Ef as [Hp Ep]. apply Nat.eqb_eq in Ep. exfalso. apply Hn. rewrite <- Ep. now apply in_map.
Qed.

Lemma class_of_perm i a b : NoDup (map fst a) -> Permutation a b -> class_of i a = class_of i b.
Proof.
  intros ND P.
  assert (NoDup (map fst b)) as NDb by (eapply Permutation_NoDup; [apply Permutation_map; exact P|exact ND]).
  destruct (in_dec Nat.eq_dec i (map fst a)) as [Hi|Hi].
  - apply in_map_iff in Hi as ([i' z] & E & Hp). cbn [fst] in E. subst i'.
    rewrite (class_of_in i z a ND Hp). symmetry. apply class_of_in; [exact NDb|].
    eapply Permutation_in; eassumption.
  - rewrite (class_of_notin i a Hi). symmetry. apply class_of_notin.
    intros Hb. apply Hi. eapply Permutation_in; [apply Permutation_map; symmetry; exact P|exact Hb].
Qed.

(* renaming the keys of an assignment by a map that does not confuse [k] with another key *)
Lemma class_of_map (g : nat -> nat) k a :
  (forall i, In i (map fst a) -> g i = g k -> i = k) ->
  class_of (g k) (map (fun p => (g (fst p), snd p)) a) = class_of k a.
Proof.
  unfold class_of. induction a as [|[i z] a IH]; intros Hinj; cbn [map find fst snd]; [reflexivity|].
  destruct (Nat.eqb i k) eqn:E.
  - apply Nat.eqb_eq in E. subst i. now rewrite Nat.eqb_refl.
  - destruct (Nat.eqb (g i) (g k)) eqn:E2.
    + apply Nat.eqb_eq in E2. apply Hinj in E2; [|now left]. subst i. rewrite Nat.eqb_refl in E. discriminate.
    + apply IH. intros j Hj. apply Hinj. now right.
Qed.

(** ** the maximum of a list does not depend on the order (needs the order laws) *)
Section MaxFold.
  Context {N : Num} {L : OrdLaws N}.
  Hypothesis neqb_eq : forall x y : num, neqb x y = true -> x = y.

  Definition maxstep (best x : num) : num := if nltb best x then x else best.

  Lemma fold_max_spec l : forall acc, okv acc -> Forall okv l ->
    okv (fold_left maxstep l acc) /\
    (fold_left maxstep l acc = acc \/ In (fold_left maxstep l acc) l) /\
    nleb acc (fold_left maxstep l acc) = true /\
    (forall x, In x l -> nleb x (fold_left maxstep l acc) = true).
  Proof.
    induction l as [|y l IH]; intros acc Ha Hl; cbn [fold_left].
    - split; [exact Ha|]. split; [now left|]. split; [now apply leb_refl|]. intros x [].
    - inversion Hl as [|? ? Hy Hl']; subst.
      assert (okv (maxstep acc y)) as Hs by (unfold maxstep; destruct (nltb acc y); assumption).
      destruct (IH (maxstep acc y) Hs Hl') as (R1 & R2 & R3 & R4).
      set (r := fold_left maxstep l (maxstep acc y)) in *.
      assert (nleb acc (maxstep acc y) = true /\ nleb y (maxstep acc y) = true) as [S1 S2].
      { unfold maxstep. destruct (nltb acc y) eqn:E.
        - split; [now apply ltb_leb_incl | now apply leb_refl].
        - split; [now apply leb_refl|]. rewrite ltb_leb in E by assumption.
          now apply negb_false_iff in E. }
      split; [exact R1|]. split; [|split].
      + destruct R2 as [R2|R2]; [|right; now right].
        rewrite R2. unfold maxstep. destruct (nltb acc y); [right; now left | now left].
      + apply (leb_trans acc (maxstep acc y) r); assumption.
      + intros x [E|Hx]; [|now apply R4]. subst x. apply (leb_trans y (maxstep acc y) r); assumption.
  Qed.

  Lemma fold_max_perm l l' acc :
    okv acc -> Forall okv l -> Permutation l l' -> fold_left maxstep l acc = fold_left maxstep l' acc.
  Proof.
    intros Ha Hl P.
    assert (Forall okv l') as Hl' by (eapply Permutation_Forall; eassumption).
    destruct (fold_max_spec l acc Ha Hl) as (A1 & A2 & A3 & A4).
    destruct (fold_max_spec l' acc Ha Hl') as (B1 & B2 & B3 & B4).
    apply neqb_eq. rewrite eqb_leb by assumption. apply andb_true_iff. split.
    - destruct A2 as [A2|A2]; [rewrite A2; exact B3|]. apply B4. eapply Permutation_in; eassumption.
    - destruct B2 as [B2|B2]; [rewrite B2; exact A3|]. apply A4.
      eapply Permutation_in; [symmetry|]; eassumption.
  Qed.

  Lemma fold_min_as_max (thr : num) l : forall acc,
    fold_left (fun best x => if nltb x thr && nltb best x then x else best) l acc =
    fold_left maxstep (filter (fun x => nltb x thr) l) acc.
  Proof.
    induction l as [|y l IH]; intros acc; cbn [fold_left filter]; [reflexivity|].
    destruct (nltb y thr); cbn [andb fold_left]; apply IH.
  Qed.
End MaxFold.

(** ** 2a. permutation of the listing of [D]: the parts that need no order law *)
Section Generic.
  Context {N : Num}.

  Lemma entries_in (m : list (list num)) D x :
    In x (entries m D) <-> exists i j, In i D /\ In j D /\ x = sig m i j.
  Proof.
    unfold entries. rewrite in_flat_map. split.
    - intros (i & Hi & Hx). apply in_map_iff in Hx as (j & E & Hj). exists i, j. auto.
    - intros (i & j & Hi & Hj & ->). exists i. split; [exact Hi|]. apply in_map_iff. now exists j.
  Qed.

  Lemma entries_perm (m : list (list num)) D D' :
    Permutation D D' -> Permutation (entries m D) (entries m D').
  Proof.
    intros P. unfold entries.
    transitivity (flat_map (fun i => map (fun j => sig m i j) D') D).
    - apply flat_map_perm_inner. intros i _. now apply Permutation_map.
    - now apply flat_map_perm_outer.
  Qed.

  Lemma count_perm p D D' : Permutation D D' -> count p D = count p D'.
  Proof. intros P. unfold count. f_equal. apply Permutation_length. now apply filter_perm. Qed.

  Lemma quality_perm (m : list (list num)) f mc D D' i :
    Permutation D D' -> quality m f mc D i = quality m f mc D' i.
  Proof. intros P. unfold quality. now rewrite !(count_perm _ D D' P). Qed.

  Definition bstep (asc : bool) (b v : Z) : Z :=
    if asc then (if (b <? v)%Z then v else b) else (if (v <? b)%Z then v else b).

  Lemma best_value_eq asc qs :
    best_value asc qs = match qs with [] => 0%Z | q :: r => fold_left (bstep asc) r q end.
  Proof. reflexivity. Qed.

  Lemma bstep_bound (asc : bool) r : forall q,
    (if asc then (q <= fold_left (bstep asc) r q)%Z else (fold_left (bstep asc) r q <= q)%Z) /\
    (forall v, In v r ->
       if asc then (v <= fold_left (bstep asc) r q)%Z else (fold_left (bstep asc) r q <= v)%Z).
  Proof.
    induction r as [|y r IH]; intros q; cbn [fold_left].
    - split; [destruct asc; lia | intros v []].
    - destruct (IH (bstep asc q y)) as [A B].
      assert (if asc then (q <= bstep asc q y /\ y <= bstep asc q y)%Z
              else (bstep asc q y <= q /\ bstep asc q y <= y)%Z) as S.
      { unfold bstep. destruct asc.
        - destruct (Z.ltb_spec q y); lia.
        - destruct (Z.ltb_spec y q); lia. }
      split.
      + destruct asc; lia.
      + intros v [E|Hv]; [subst v; destruct asc; lia | now apply B].
  Qed.

  Lemma best_value_bound (asc : bool) qs v :
    In v qs -> if asc then (v <= best_value asc qs)%Z else (best_value asc qs <= v)%Z.
  Proof.
    rewrite best_value_eq. destruct qs as [|q r]; [intros []|].
    destruct (bstep_bound asc r q) as [A B]. intros [E|Hv]; [subst v; exact A | now apply B].
  Qed.

  Lemma best_value_perm asc qs qs' : Permutation qs qs' -> best_value asc qs = best_value asc qs'.
  Proof.
    intros P. destruct qs as [|q r].
    { apply Permutation_nil in P. now subst. }
    assert (q :: r <> []) as H1 by discriminate.
    assert (qs' <> []) as H2.
    { intros ->. apply Permutation_sym, Permutation_nil in P. discriminate. }
    pose proof (best_value_in asc _ H1) as I1. pose proof (best_value_in asc _ H2) as I2.
    pose proof (best_value_bound asc qs' _ (Permutation_in _ P I1)) as B1.
    pose proof (best_value_bound asc (q :: r) _ (Permutation_in _ (Permutation_sym P) I2)) as B2.
    destruct asc; lia.
  Qed.

  Theorem best_set_perm (m : list (list num)) f mc asc D D' :
    Permutation D D' -> Permutation (best_set m f mc asc D) (best_set m f mc asc D').
  Proof.
    intros P. rewrite !best_set_eq.
    assert (best_value asc (map (quality m f mc D) D) = best_value asc (map (quality m f mc D') D')) as ->.
    { apply best_value_perm.
      rewrite (map_ext (quality m f mc D) (quality m f mc D')) by (intros i; now apply quality_perm).
      now apply Permutation_map. }
    set (bv := best_value asc (map (quality m f mc D') D')).
    rewrite (filter_ext (fun i => Z.eqb (quality m f mc D i) bv) (fun i => Z.eqb (quality m f mc D' i) bv)).
    - now apply filter_perm.
    - intros i. now rewrite (quality_perm m f mc D D' i P).
  Qed.

  Lemma distill_unfold fu (m : list (list num)) f asc D pos : D <> [] ->
    distill (S fu) m f asc D pos =
    (do C <- next_class class_fuel m f asc (max_cred m D) D;
     let D' := filter (fun i => negb (existsb (Nat.eqb i) C)) D in
     let here := map (fun i => (i, pos)) C in
     if Nat.eqb (List.length D') (List.length D) then Err EOutOfFuel
     else do rest <- distill fu m f asc D' (pos + 1)%Z; Ok (here ++ rest)).
  Proof. destruct D; [congruence|reflexivity]. Qed.

  Lemma rest_perm C C' D D' : Permutation C C' -> Permutation D D' ->
    Permutation (filter (fun i => negb (existsb (Nat.eqb i) C)) D)
                (filter (fun i => negb (existsb (Nat.eqb i) C')) D').
  Proof.
    intros PC PD.
    rewrite (filter_ext (fun i => negb (existsb (Nat.eqb i) C)) (fun i => negb (existsb (Nat.eqb i) C'))).
    - now apply filter_perm.
    - intros i. f_equal. apply bool_eq_iff. rewrite !existsb_eqb_in.
      split; apply Permutation_in; [|symmetry]; assumption.
  Qed.

  Lemma rest_incl C (D : list nat) : incl (filter (fun i => negb (existsb (Nat.eqb i) C)) D) D.
  Proof. intros i Hi. now apply filter_In in Hi. Qed.
End Generic.

(** ** 2b. permutation of the listing of [D]: maxima, classes, distillation *)
Section Perm.
  Context {N : Num} {L : OrdLaws N}.
  Hypothesis neqb_eq : forall x y : num, neqb x y = true -> x = y.
  Hypothesis okv_zero : okv nzero.

  (** every credibility read on [D] is an ordinary value *)
  Definition okv_on (m : list (list num)) (D : list nat) : Prop :=
    forall i j, In i D -> In j D -> okv (sig m i j).

  Lemma okv_on_entries m D : okv_on m D -> Forall okv (entries m D).
  Proof.
    intros H. apply Forall_forall. intros x Hx.
    apply entries_in in Hx as (i & j & Hi & Hj & ->). now apply H.
  Qed.

  Lemma okv_on_incl m B D : incl B D -> okv_on m D -> okv_on m B.
  Proof. intros HI H i j Hi Hj. apply H; now apply HI. Qed.

  Theorem max_cred_perm m D D' : okv_on m D -> Permutation D D' -> max_cred m D = max_cred m D'.
  Proof.
    intros Hok P. unfold max_cred.
    apply (fold_max_perm neqb_eq); [exact okv_zero | now apply okv_on_entries | now apply entries_perm].
  Qed.

  Theorem min_cred_perm m f lambda D D' :
    okv_on m D -> Permutation D D' -> min_cred m f lambda D = min_cred m f lambda D'.
  Proof.
    intros Hok P. unfold min_cred. cbv zeta. rewrite !fold_min_as_max.
    apply (fold_max_perm neqb_eq); [exact okv_zero | | apply filter_perm; now apply entries_perm].
    apply Forall_forall. intros x Hx. apply filter_In in Hx as [Hx _].
    pose proof (okv_on_entries m D Hok) as F. rewrite Forall_forall in F. now apply F.
  Qed.

  Theorem next_class_perm m f asc : forall fuel lambda D D', okv_on m D -> Permutation D D' ->
    res_rel (@Permutation nat) (next_class fuel m f asc lambda D) (next_class fuel m f asc lambda D').
  Proof.
    induction fuel as [|fu IH]; intros lambda D D' Hok P; cbn [next_class]; [reflexivity|].
    destruct (neqb lambda nzero); [exact P|].
    rewrite <- (min_cred_perm m f lambda D D' Hok P).
    set (mc := min_cred m f lambda D).
    pose proof (best_set_perm m f mc asc D D' P) as PB.
    rewrite <- (Permutation_length PB).
    destruct (Nat.ltb 1 (List.length (best_set m f mc asc D)) && nltb nzero mc); [|exact PB].
    apply IH; [|exact PB]. eapply okv_on_incl; [apply best_set_incl|exact Hok].
  Qed.

  Theorem distill_perm m f asc : forall fuel D D' pos, okv_on m D -> Permutation D D' ->
    res_rel (@Permutation (nat * Z)) (distill fuel m f asc D pos) (distill fuel m f asc D' pos).
  Proof.
    induction fuel as [|fu IH]; intros D D' pos Hok P; [reflexivity|].
    destruct D as [|d D0].
    { apply Permutation_nil in P. subst. cbn [distill res_rel]. constructor. }
    remember (d :: D0) as D eqn:ED.
    assert (D <> []) as HD by (subst D; discriminate). clear ED d D0.
    assert (D' <> []) as HD'.
    { intros ->. apply Permutation_sym, Permutation_nil in P. contradiction. }
    rewrite !distill_unfold by assumption.
    rewrite <- (max_cred_perm m D D' Hok P).
    pose proof (next_class_perm m f asc class_fuel (max_cred m D) D D' Hok P) as PN.
    destruct (next_class class_fuel m f asc (max_cred m D) D) as [C|e];
      destruct (next_class class_fuel m f asc (max_cred m D) D') as [C'|e'];
      cbn [res_rel] in PN; try contradiction; cbn [bind]; [|exact PN].
    cbv zeta.
    pose proof (rest_perm C C' D D' PN P) as PR.
    rewrite <- (Permutation_length PR), <- (Permutation_length P).
    destruct (Nat.eqb _ _); [reflexivity|].
    assert (okv_on m (filter (fun i => negb (existsb (Nat.eqb i) C)) D)) as Hok'.
    { eapply okv_on_incl; [apply rest_incl|exact Hok]. }
    specialize (IH _ _ (pos + 1)%Z Hok' PR).
    destruct (distill fu m f asc (filter (fun i => negb (existsb (Nat.eqb i) C)) D) (pos + 1)%Z) as [r|e];
      destruct (distill fu m f asc (filter (fun i => negb (existsb (Nat.eqb i) C')) D') (pos + 1)%Z) as [r'|e'];
      cbn [res_rel bind] in *; try contradiction; [|exact IH].
    apply Permutation_app; [apply Permutation_map; exact PN|exact IH].
  Qed.

  (** the assignment index |-> class is the same function *)
  Theorem distill_perm_class m f asc fuel D D' pos a a' :
    NoDup D -> okv_on m D -> Permutation D D' ->
    distill fuel m f asc D pos = Ok a -> distill fuel m f asc D' pos = Ok a' ->
    forall i, class_of i a = class_of i a'.
  Proof.
    intros ND Hok P Ha Ha' i.
    pose proof (distill_perm m f asc fuel D D' pos Hok P) as R. rewrite Ha, Ha' in R. cbn [res_rel] in R.
    apply class_of_perm; [|exact R].
    destruct (distill_partition _ _ _ _ _ _ _ ND Ha) as [PP _].
    eapply Permutation_NoDup; [symmetry; exact PP|exact ND].
  Qed.

  (** ... and one listing succeeds exactly when the other does *)
  Theorem distill_perm_ok m f asc fuel D D' pos a :
    okv_on m D -> Permutation D D' -> distill fuel m f asc D pos = Ok a ->
    exists a', distill fuel m f asc D' pos = Ok a' /\ Permutation a a'.
  Proof.
    intros Hok P Ha.
    pose proof (distill_perm m f asc fuel D D' pos Hok P) as R. rewrite Ha in R.
    destruct (distill fuel m f asc D' pos) as [a'|e]; cbn [res_rel] in R; [|contradiction].
    now exists a'.
  Qed.
End Perm.

(** ** 3. equivariance under renaming.  [m'] read at [(i, j)] is [m] read at [(g i, g j)] and
    [g] is injective on the index set: then every operation on [m'] over [D'] is the image of
    the operation on [m] over [map g D'] -- exact equalities, no order law is used. *)
Section Rename.
  Context {N : Num}.
  Variables (m m' : list (list num)) (g : nat -> nat).

  Definition compat (D' : list nat) : Prop :=
    (forall i j, In i D' -> In j D' -> sig m' i j = sig m (g i) (g j)) /\
    (forall i j, In i D' -> In j D' -> g i = g j -> i = j).

  Lemma compat_incl B D' : incl B D' -> compat D' -> compat B.
  Proof.
    intros HI [Hs Hinj]. split.
    - intros i j Hi Hj. apply Hs; now apply HI.
    - intros i j Hi Hj. apply Hinj; now apply HI.
  Qed.

  Lemma entries_map X Y :
    flat_map (fun i => map (fun j => sig m i j) (map g X)) (map g Y) =
    flat_map (fun i => map (fun j => sig m (g i) (g j)) X) Y.
  Proof.
    induction Y as [|y Y IH]; cbn [map flat_map]; [reflexivity|].
    rewrite map_map. now rewrite IH.
  Qed.

  Lemma entries_rename D' : compat D' -> entries m' D' = entries m (map g D').
  Proof.
    intros [Hs _]. unfold entries. rewrite entries_map.
    apply flat_map_ext_in'. intros i Hi. apply map_ext_in. intros j Hj. now apply Hs.
  Qed.

  Lemma max_cred_rename D' : compat D' -> max_cred m' D' = max_cred m (map g D').
  Proof. intros H. unfold max_cred. now rewrite (entries_rename D' H). Qed.

  Lemma min_cred_rename f lambda D' : compat D' -> min_cred m' f lambda D' = min_cred m f lambda (map g D').
  Proof. intros H. unfold min_cred. now rewrite (entries_rename D' H). Qed.

  Lemma outranks_rename f mc D' i j :
    compat D' -> In i D' -> In j D' -> outranks m' f mc i j = outranks m f mc (g i) (g j).
  Proof. intros [Hs _] Hi Hj. unfold outranks. cbv zeta. now rewrite (Hs i j Hi Hj), (Hs j i Hj Hi). Qed.

  Lemma count_map p l : count p (map g l) = count (fun x => p (g x)) l.
  Proof. unfold count. now rewrite filter_map_pre, map_length. Qed.

  Lemma count_ext_in (p q : nat -> bool) l : (forall x, In x l -> p x = q x) -> count p l = count q l.
  Proof. intros H. unfold count. now rewrite (filter_ext_in _ _ _ H). Qed.

  Theorem quality_rename f mc D' i :
    compat D' -> In i D' -> quality m' f mc D' i = quality m f mc (map g D') (g i).
  Proof.
    intros Hc Hi. unfold quality. rewrite !count_map.
    f_equal; apply count_ext_in; intros j Hj; now apply outranks_rename with D'.
  Qed.

  Theorem best_set_rename f mc asc D' :
    compat D' -> map g (best_set m' f mc asc D') = best_set m f mc asc (map g D').
  Proof.
    intros Hc. rewrite !best_set_eq. rewrite filter_map_pre. f_equal.
    apply filter_ext_in. intros i Hi. rewrite (quality_rename f mc D' i Hc Hi). f_equal. f_equal.
    rewrite map_map. apply map_ext_in. intros k Hk. now apply quality_rename.
  Qed.

  Theorem next_class_rename f asc : forall fuel lambda D', compat D' ->
    res_map (map g) (next_class fuel m' f asc lambda D') = next_class fuel m f asc lambda (map g D').
  Proof.
    induction fuel as [|fu IH]; intros lambda D' Hc; cbn [next_class]; [reflexivity|].
    destruct (neqb lambda nzero); [reflexivity|].
    rewrite <- (min_cred_rename f lambda D' Hc).
    set (mc := min_cred m' f lambda D').
    rewrite <- (best_set_rename f mc asc D' Hc). rewrite map_length.
    destruct (Nat.ltb 1 (List.length (best_set m' f mc asc D')) && nltb nzero mc); [|reflexivity].
    apply IH. eapply compat_incl; [apply best_set_incl|exact Hc].
  Qed.

  Lemma rest_rename C' D' : compat D' -> incl C' D' ->
    map g (filter (fun i => negb (existsb (Nat.eqb i) C')) D') =
    filter (fun y => negb (existsb (Nat.eqb y) (map g C'))) (map g D').
  Proof.
    intros [_ Hinj] HI. rewrite filter_map_pre. f_equal. apply filter_ext_in. intros i Hi. f_equal.
    apply bool_eq_iff. rewrite !existsb_eqb_in. split.
    - intros H. now apply in_map.
    - intros H. apply in_map_iff in H as (x & E & Hx).
      assert (x = i) by (apply Hinj; auto). now subst.
  Qed.

  Definition rename_key (p : nat * Z) : nat * Z := (g (fst p), snd p).

  Theorem distill_rename f asc : forall fuel D' pos, compat D' ->
    res_map (map rename_key) (distill fuel m' f asc D' pos) = distill fuel m f asc (map g D') pos.
  Proof.
    induction fuel as [|fu IH]; intros D' pos Hc; [reflexivity|].
    destruct D' as [|d D0]; [reflexivity|].
    remember (d :: D0) as D' eqn:ED.
    assert (D' <> []) as HD by (subst D'; discriminate).
    assert (map g D' <> []) as HD' by (subst D'; discriminate).
    clear ED d D0.
    rewrite !distill_unfold by assumption.
    rewrite <- (max_cred_rename D' Hc).
    rewrite <- (next_class_rename f asc class_fuel (max_cred m' D') D' Hc).
    destruct (next_class class_fuel m' f asc (max_cred m' D') D') as [C'|e] eqn:EC;
      cbn [res_map bind]; [|reflexivity].
    cbv zeta.
    assert (incl C' D') as HI by (apply (next_class_subset _ _ _ _ _ _ _ EC)).
    rewrite <- (rest_rename C' D' Hc HI). rewrite !map_length.
    destruct (Nat.eqb _ _); [reflexivity|].
    rewrite <- IH by (eapply compat_incl; [apply rest_incl|exact Hc]).
    destruct (distill fu m' f asc _ (pos + 1)%Z) as [r|e]; cbn [res_map bind]; [|reflexivity].
    rewrite map_app, !map_map. reflexivity.
  Qed.

  (** classes: the index [k] of the new listing gets the class of [g k] *)
  Theorem distill_rename_class f asc fuel D' pos a' a k :
    compat D' -> NoDup D' -> In k D' ->
    distill fuel m' f asc D' pos = Ok a' -> distill fuel m f asc (map g D') pos = Ok a ->
    class_of k a' = class_of (g k) a.
  Proof.
    intros Hc ND Hk Ha' Ha.
    pose proof (distill_rename f asc fuel D' pos Hc) as R. rewrite Ha', Ha in R. cbn [res_map] in R.
    inversion R as [R']. symmetry. apply class_of_map.
    destruct (distill_partition _ _ _ _ _ _ _ ND Ha') as [PP _].
    intros i Hi E. destruct Hc as [_ Hinj]. apply Hinj; auto.
    eapply Permutation_in; [exact PP|exact Hi].
  Qed.
End Rename.

(** ** 1. the renamed matrix *)
Section RenameMatrix.
  Context {N : Num}.

  (** position [k] of the new listing holds the old alternative [nth k pi 0] *)
  Definition rename (m : list (list num)) (pi : list nat) (n : nat) : list (list num) :=
    map (fun i => map (fun j => sig m (nth i pi 0) (nth j pi 0)) (seq 0 n)) (seq 0 n).

  Lemma rename_length m pi n : List.length (rename m pi n) = n.
  Proof. unfold rename. now rewrite map_length, seq_length. Qed.

  Theorem sig_rename m pi n i j : i < n -> j < n ->
    sig (rename m pi n) i j = sig m (nth i pi 0) (nth j pi 0).
  Proof.
    intros Hi Hj. unfold sig at 1. unfold rename.
    rewrite (nth_opt_map_seq _ n 0 i Hi). cbv beta iota.
    rewrite (nth_opt_map_seq _ n 0 j Hj). reflexivity.
  Qed.

  Lemma perm_seq_length pi n : Permutation pi (seq 0 n) -> List.length pi = n.
  Proof. intros P. apply Permutation_length in P. now rewrite seq_length in P. Qed.

  Lemma perm_seq_lt pi n k : Permutation pi (seq 0 n) -> k < n -> nth k pi 0 < n.
  Proof.
    intros P Hk. assert (In (nth k pi 0) (seq 0 n)) as H.
    { eapply Permutation_in; [exact P|]. apply nth_In. now rewrite (perm_seq_length pi n P). }
    apply in_seq in H. lia.
  Qed.

  Lemma compat_rename m pi n : Permutation pi (seq 0 n) ->
    compat m (rename m pi n) (fun k => nth k pi 0) (seq 0 n).
  Proof.
    intros P. pose proof (perm_seq_length pi n P) as HL. split.
    - intros i j Hi Hj. apply in_seq in Hi, Hj. apply sig_rename; lia.
    - intros i j Hi Hj E. apply in_seq in Hi, Hj.
      assert (NoDup pi) as ND by (eapply Permutation_NoDup; [symmetry; exact P|apply seq_NoDup]).
      rewrite (NoDup_nth pi 0) in ND. apply ND; [lia|lia|exact E].
  Qed.
End RenameMatrix.

(** ** 4. the rankings of the renamed matrix *)
Section Conclusion.
  Context {N : Num} {L : OrdLaws N}.
  Hypothesis neqb_eq : forall x y : num, neqb x y = true -> x = y.
  Hypothesis okv_zero : okv nzero.

  Lemma distill_all_rename m f asc pi n :
    Permutation pi (seq 0 n) -> okv_on m (seq 0 n) -> forall fuel pos,
    match distill fuel m f asc (seq 0 n) pos, distill fuel (rename m pi n) f asc (seq 0 n) pos with
    | Ok a, Ok a' => forall k, k < n -> class_of k a' = class_of (nth k pi 0) a
    | Err e, Err e' => e = e'
    | _, _ => False
    end.
  Proof.
    intros P Hok fuel pos.
    pose proof (compat_rename m pi n P) as Hc.
    pose proof (distill_rename m (rename m pi n) (fun k => nth k pi 0) f asc fuel (seq 0 n) pos Hc) as R1.
    rewrite <- (perm_seq_length pi n P) in R1 at 3. rewrite map_nth_seq in R1.
    pose proof (distill_perm neqb_eq okv_zero m f asc fuel (seq 0 n) pi pos Hok (Permutation_sym P)) as R2.
    rewrite <- R1 in R2.
    destruct (distill fuel m f asc (seq 0 n) pos) as [a|e] eqn:Ea;
      destruct (distill fuel (rename m pi n) f asc (seq 0 n) pos) as [a'|e'] eqn:Ea';
      cbn [res_map res_rel] in R2; try contradiction; [|exact R2].
    intros k Hk.
    destruct (distill_partition _ _ _ _ _ _ _ (seq_NoDup n 0) Ea) as [PA _].
    destruct (distill_partition _ _ _ _ _ _ _ (seq_NoDup n 0) Ea') as [PA' _].
    rewrite <- (class_of_map (fun k => nth k pi 0) k a').
    - symmetry. apply class_of_perm; [|exact R2].
      eapply Permutation_NoDup; [symmetry; exact PA|apply seq_NoDup].
    - intros i Hi E. destruct Hc as [_ Hinj]. apply Hinj; [| |exact E].
      + eapply Permutation_in; [exact PA'|exact Hi].
      + apply in_seq. lia.
  Qed.

  Lemma positions_rename a a' pi n :
    Permutation pi (seq 0 n) ->
    (forall k, k < n -> class_of k a' = class_of (nth k pi 0) a) ->
    positions n a' = map (fun k => nth (nth k pi 0) (positions n a) 0%Z) (seq 0 n).
  Proof.
    intros P H. rewrite (positions_eq n a'). apply map_ext_in. intros k Hk. apply in_seq in Hk.
    rewrite positions_nth by (apply perm_seq_lt; [exact P|lia]). apply H. lia.
  Qed.

  (** strong form: the renamed matrix succeeds exactly when the original does, and its ranking
      is the original ranking read through [pi] *)
  Theorem rank_ascending_rename m f pi :
    Permutation pi (seq 0 (List.length m)) -> okv_on m (seq 0 (List.length m)) ->
    rank_ascending (rename m pi (List.length m)) f =
    res_map (fun a => map (fun k => nth (nth k pi 0) a 0%Z) (seq 0 (List.length m))) (rank_ascending m f).
  Proof.
    intros P Hok. unfold rank_ascending. rewrite rename_length.
    set (n := List.length m) in *.
    destruct (Nat.eqb n 0); [reflexivity|].
    pose proof (distill_all_rename m f true pi n P Hok (S n) 1%Z) as H.
    destruct (distill (S n) m f true (seq 0 n) 1%Z) as [a|e];
      destruct (distill (S n) (rename m pi n) f true (seq 0 n) 1%Z) as [a'|e'];
      cbn [bind res_map]; try contradiction; [|now subst].
    f_equal. now apply positions_rename.
  Qed.

  Theorem rank_descending_rename m f pi :
    Permutation pi (seq 0 (List.length m)) -> okv_on m (seq 0 (List.length m)) ->
    rank_descending (rename m pi (List.length m)) f =
    res_map (fun a => map (fun k => nth (nth k pi 0) a 0%Z) (seq 0 (List.length m))) (rank_descending m f).
  Proof.
    intros P Hok. unfold rank_descending. rewrite rename_length.
    set (n := List.length m) in *.
    destruct (Nat.eqb n 0); [reflexivity|].
    pose proof (distill_all_rename m f false pi n P Hok (S n) 1%Z) as H.
    destruct (distill (S n) m f false (seq 0 n) 1%Z) as [a|e];
      destruct (distill (S n) (rename m pi n) f false (seq 0 n) 1%Z) as [a'|e'];
      cbn [bind res_map]; try contradiction; [|now subst].
    cbv zeta. f_equal.
    rewrite (positions_rename a a' pi n P H).
    set (ps := positions n a).
    assert (List.length ps = n) as HL by apply positions_length.
    assert (Permutation (map (fun k => nth (nth k pi 0) ps 0%Z) (seq 0 n)) ps) as PP.
    { rewrite <- (map_map (fun k => nth k pi 0) (fun y => nth y ps 0%Z)).
      rewrite <- (perm_seq_length pi n P) at 1. rewrite map_nth_seq.
      transitivity (map (fun y => nth y ps 0%Z) (seq 0 n)); [now apply Permutation_map|].
      rewrite <- HL. now rewrite map_nth_seq. }
    rewrite (fold_zmax_perm _ _ PP).
    set (mx := fold_left Z.max ps 0%Z).
    rewrite map_map. apply map_ext_in. intros k Hk. apply in_seq in Hk.
    assert (nth k pi 0 < List.length ps) as Hg by (rewrite HL; apply perm_seq_lt; [exact P|lia]).
    rewrite (nth_indep (map (fun p => (mx + 1 - p)%Z) ps) 0%Z (mx + 1 - 0)%Z) by now rewrite map_length.
    now rewrite (map_nth (fun p => (mx + 1 - p)%Z)).
  Qed.

  (** the requested form *)
  Theorem rank_ascending_equivariant m f pi a a' :
    Permutation pi (seq 0 (List.length m)) -> okv_on m (seq 0 (List.length m)) ->
    rank_ascending m f = Ok a -> rank_ascending (rename m pi (List.length m)) f = Ok a' ->
    forall k, k < List.length m -> nth k a' 0%Z = nth (nth k pi 0) a 0%Z.
  Proof.
    intros P Hok Ha Ha' k Hk.
    pose proof (rank_ascending_rename m f pi P Hok) as R. rewrite Ha, Ha' in R. cbn [res_map] in R.
    inversion R as [R']. now rewrite nth_map_seq.
  Qed.

  Theorem rank_descending_equivariant m f pi a a' :
    Permutation pi (seq 0 (List.length m)) -> okv_on m (seq 0 (List.length m)) ->
    rank_descending m f = Ok a -> rank_descending (rename m pi (List.length m)) f = Ok a' ->
    forall k, k < List.length m -> nth k a' 0%Z = nth (nth k pi 0) a 0%Z.
  Proof.
    intros P Hok Ha Ha' k Hk.
    pose proof (rank_descending_rename m f pi P Hok) as R. rewrite Ha, Ha' in R. cbn [res_map] in R.
    inversion R as [R']. now rewrite nth_map_seq.
  Qed.
End Conclusion.

(** ** 5. the credibility matrix of a permuted list of alternatives is the renamed matrix *)
Lemma mapM_nth_opt {A B} (f : A -> res B) l : forall r i x,
  mapM f l = Ok r -> nth_opt i l = Some x -> exists y, f x = Ok y /\ nth_opt i r = Some y.
Proof.
  induction l as [|a l IH]; intros r i x H Hn; [destruct i; discriminate|].
  cbn [mapM] in H.
  destruct (f a) as [y|] eqn:Ef; cbn [bind] in H; [|discriminate].
  destruct (mapM f l) as [ys|] eqn:Efs; cbn [bind] in H; [|discriminate].
  injection H as <-. destruct i as [|i]; cbn [nth_opt] in *.
  - injection Hn as <-. now exists y.
  - eapply IH; [reflexivity|exact Hn].
Qed.

Lemma mapM_ok_map {A B} (F : A -> res B) (G : A -> B) l :
  (forall x, In x l -> F x = Ok (G x)) -> mapM F l = Ok (map G l).
Proof.
  induction l as [|a l IH]; intros H; cbn [mapM map]; [reflexivity|].
  rewrite (H a (or_introl eq_refl)). cbn [bind]. rewrite IH by (intros x Hx; apply H; now right).
  reflexivity.
Qed.

Lemma zip_seq_nth_opt {A} (l : list A) : forall s i a,
  nth_opt i l = Some a -> nth_opt i (zip (seq s (List.length l)) l) = Some (s + i, a).
Proof.
  induction l as [|x l IH]; intros s i a H; [destruct i; discriminate|].
  cbn [List.length seq zip]. destruct i as [|i]; cbn [nth_opt] in *.
  - injection H as <-. now rewrite Nat.add_0_r.
  - rewrite (IH (S s) i a H). do 2 f_equal. lia.
Qed.

Lemma in_zip_seq_nth_opt {A} (l : list A) : forall s n i v,
  In (i, v) (zip (seq s n) l) -> exists k, i = s + k /\ k < n /\ nth_opt k l = Some v.
Proof.
  induction l as [|x l IH]; intros s n i v H; [destruct (seq s n); destruct H|].
  destruct n as [|n]; cbn [seq zip] in H; [destruct H|].
  destruct H as [H|H].
  - injection H as <- <-. exists 0. split; [lia|]. split; [lia|reflexivity].
  - apply IH in H as (k & -> & Hk & Hn). exists (S k). split; [lia|]. split; [lia|exact Hn].
Qed.

Lemma nth_opt_nth_lt {A} (d : A) (l : list A) : forall k, k < List.length l -> nth_opt k l = Some (nth k l d).
Proof.
  induction l as [|x l IH]; intros k H; cbn [List.length] in H; [lia|].
  destruct k as [|k]; cbn [nth_opt nth]; [reflexivity|]. apply IH. lia.
Qed.

Lemma nth_opt_map_some {A B} (F : A -> B) (d : A) l : forall k y,
  nth_opt k (map F l) = Some y -> k < List.length l /\ y = F (nth k l d).
Proof.
  induction l as [|x l IH]; intros k y H; [destruct k; discriminate|].
  destruct k as [|k]; cbn [map nth_opt nth List.length] in *.
  - injection H as <-. split; [lia|reflexivity].
  - apply IH in H as [H1 H2]. split; [lia|exact H2].
Qed.

Lemma map_zip_fst {A B C} (G : A -> C) (l1 : list A) (l2 : list B) :
  List.length l1 <= List.length l2 -> map (fun p => G (fst p)) (zip l1 l2) = map G l1.
Proof. intros H. rewrite <- (map_map fst G). now rewrite map_fst_zip. Qed.

Section CredRename.
  Context {N : Num}.

  Lemma sig_cred_gen alts cs ecs (m : list (list num)) i k a b :
    cred_matrix alts cs ecs = Ok m -> nth_opt i alts = Some a -> nth_opt k alts = Some b ->
    (if Nat.eqb i k then Ok nzero else credibility a b cs ecs) = Ok (sig m i k).
  Proof.
    intros H Hi Hk. unfold cred_matrix in H.
    pose proof (zip_seq_nth_opt alts 0 i a Hi) as Zi. pose proof (zip_seq_nth_opt alts 0 k b Hk) as Zk.
    cbn [Nat.add] in Zi, Zk.
    destruct (mapM_nth_opt _ _ _ _ _ H Zi) as (row & Hrow & Nrow).
    destruct (mapM_nth_opt _ _ _ _ _ Hrow Zk) as (y & Hy & Ny).
    cbn [fst snd] in Hy.
    assert (S : sig m i k = y) by (unfold sig; now rewrite Nrow, Ny).
    now rewrite S.
  Qed.

  Theorem cred_matrix_rename alts cs ecs (m : list (list num)) pi d :
    Permutation pi (seq 0 (List.length alts)) ->
    cred_matrix alts cs ecs = Ok m ->
    cred_matrix (map (fun k => nth k alts d) pi) cs ecs = Ok (rename m pi (List.length alts)).
  Proof.
    intros P H. set (n := List.length alts) in *. set (alts' := map (fun k => nth k alts d) pi).
    pose proof (perm_seq_length pi n P) as HL.
    assert (List.length alts' = n) as HL' by (unfold alts'; now rewrite map_length).
    assert (forall i a, In (i, a) (zip (seq 0 n) alts') ->
              i < n /\ nth_opt (nth i pi 0) alts = Some a) as Hrow.
    { intros i a Hin. apply in_zip_seq_nth_opt in Hin as (k & -> & Hk & Hn). cbn [Nat.add].
      split; [exact Hk|]. unfold alts' in Hn. apply (nth_opt_map_some _ 0) in Hn as [_ ->].
      apply nth_opt_nth_lt. fold n. now apply perm_seq_lt. }
    unfold cred_matrix. rewrite HL'. unfold rename.
    rewrite <- (map_zip_fst (fun i => map (fun j => sig m (nth i pi 0) (nth j pi 0)) (seq 0 n))
                            (seq 0 n) alts') by (rewrite seq_length; lia).
    apply mapM_ok_map. intros [i a] Hia. cbn [fst snd].
    rewrite <- (map_zip_fst (fun j => sig m (nth i pi 0) (nth j pi 0)) (seq 0 n) alts')
      by (rewrite seq_length; lia).
    apply mapM_ok_map. intros [j b] Hjb. cbn [fst snd].
    destruct (Hrow i a Hia) as [Hi Ha]. destruct (Hrow j b Hjb) as [Hj Hb].
    rewrite <- (sig_cred_gen alts cs ecs m _ _ a b H Ha Hb).
    assert (Nat.eqb i j = Nat.eqb (nth i pi 0) (nth j pi 0)) as ->; [|reflexivity].
    destruct (compat_rename m pi n P) as [_ Hinj].
    destruct (Nat.eqb i j) eqn:E1; destruct (Nat.eqb (nth i pi 0) (nth j pi 0)) eqn:E2; try reflexivity.
    - apply Nat.eqb_eq in E1. subst j. now rewrite Nat.eqb_refl in E2.
    - apply Nat.eqb_eq in E2. apply Hinj in E2; [|apply in_seq; lia|apply in_seq; lia].
      subst j. now rewrite Nat.eqb_refl in E1.
  Qed.
End CredRename.

(** ** 6. lift to [evaluate_ranking] / [electre_evaluate] *)
Lemma Forall2_map_same {A B C} (R : B -> C -> Prop) (f : A -> B) (h : A -> C) l :
  (forall x, In x l -> R (f x) (h x)) -> Forall2 R (map f l) (map h l).
Proof.
  induction l as [|a l IH]; intros H; cbn [map]; constructor.
  - apply H. now left.
  - apply IH. intros x Hx. apply H. now right.
Qed.

Lemma map_pi_seq {A} (F : nat -> A) (pi : list nat) :
  map F pi = map (fun k => F (nth k pi 0)) (seq 0 (List.length pi)).
Proof. rewrite <- (map_map (fun k => nth k pi 0) F). now rewrite map_nth_seq. Qed.

Section Evaluate.
  Context {N : Num}.

  (** same alternative, same pair of classes, same links up to their order *)
  Definition entry_equiv (e' e : entry) : Prop :=
    e_alt e' = e_alt e /\ e_eval e' = e_eval e /\ Permutation (e_links e') (e_links e).

  Definition row_at (d : alt) (alts : list alt) (asc desc : list Z) (i : nat) : nat * (alt * (Z * Z)) :=
    (i, (nth i alts d, (nth i asc 0%Z, nth i desc 0%Z))).

  Lemma rows_gen d : forall (alts : list alt) asc desc s,
    List.length asc = List.length alts -> List.length desc = List.length alts ->
    zip (seq s (List.length alts)) (zip alts (zip asc desc)) =
    map (fun i => (s + i, snd (row_at d alts asc desc i))) (seq 0 (List.length alts)).
  Proof.
    induction alts as [|a alts IH]; intros asc desc s H1 H2; [reflexivity|].
    destruct asc as [|x asc]; [discriminate|]. destruct desc as [|y desc]; [discriminate|].
    cbn [List.length] in *. cbn [seq zip map]. f_equal.
    - now rewrite Nat.add_0_r.
    - rewrite IH by lia. rewrite <- seq_shift, map_map. apply map_ext. intros i.
      unfold row_at. cbn [snd nth]. f_equal. lia.
  Qed.

  Lemma rows_of_eq d (alts : list alt) asc desc :
    List.length asc = List.length alts -> List.length desc = List.length alts ->
    rows_of asc desc alts = map (row_at d alts asc desc) (seq 0 (List.length alts)).
  Proof. intros H1 H2. unfold rows_of. now rewrite (rows_gen d alts asc desc 0 H1 H2). Qed.

  Theorem evaluate_ranking_rename d dflt (alts : list alt) asc desc pi :
    Permutation pi (seq 0 (List.length alts)) ->
    List.length asc = List.length alts -> List.length desc = List.length alts ->
    Forall2 entry_equiv
      (evaluate_ranking (map (fun k => nth (nth k pi 0) asc 0%Z) (seq 0 (List.length alts)))
                        (map (fun k => nth (nth k pi 0) desc 0%Z) (seq 0 (List.length alts)))
                        (map (fun k => nth k alts d) pi))
      (map (fun k => nth k (evaluate_ranking asc desc alts) dflt) pi).
  Proof.
    intros P H1 H2. set (n := List.length alts) in *.
    pose proof (perm_seq_length pi n P) as HL.
    set (asc' := map (fun k => nth (nth k pi 0) asc 0%Z) (seq 0 n)).
    set (desc' := map (fun k => nth (nth k pi 0) desc 0%Z) (seq 0 n)).
    assert (map (fun k => nth k alts d) pi = map (fun k => nth (nth k pi 0) alts d) (seq 0 n)) as EA.
    { now rewrite (map_pi_seq (fun k => nth k alts d) pi), HL. }
    rewrite EA. set (alts' := map (fun k => nth (nth k pi 0) alts d) (seq 0 n)).
    assert (List.length alts' = n) as HLa by (unfold alts'; now rewrite map_length, seq_length).
    assert (List.length asc' = n) as HLb by (unfold asc'; now rewrite map_length, seq_length).
    assert (List.length desc' = n) as HLc by (unfold desc'; now rewrite map_length, seq_length).
    rewrite !evaluate_ranking_eq.
    change (map (fun k => nth (nth k pi 0) asc 0%Z) (seq 0 n)) with asc'.
    change (map (fun k => nth (nth k pi 0) desc 0%Z) (seq 0 n)) with desc'.
    rewrite (rows_of_eq d alts' asc' desc') by congruence.
    rewrite (rows_of_eq d alts asc desc) by assumption.
    rewrite HLa. fold n.
    set (R := row_at d alts asc desc).
    set (R' := fun k => (k, snd (R (nth k pi 0)))).
    assert (map (row_at d alts' asc' desc') (seq 0 n) = map R' (seq 0 n)) as ER.
    { apply map_ext_in. intros k Hk. apply in_seq in Hk. unfold row_at, R', R, row_at. cbn [snd].
      unfold alts', asc', desc'. rewrite !nth_map_seq by lia. reflexivity. }
    rewrite ER. clear ER.
    rewrite (map_pi_seq (fun k => nth k (map (row_entry (map R (seq 0 n))) (map R (seq 0 n))) dflt) pi), HL.
    rewrite !map_map.
    apply Forall2_map_same. intros k Hk. apply in_seq in Hk.
    assert (nth k pi 0 < n) as Hgk by (apply perm_seq_lt; [exact P|lia]).
    rewrite (nth_map_seq (fun i => row_entry (map R (seq 0 n)) (R i)) n (nth k pi 0) dflt Hgk).
    unfold entry_equiv, row_entry. cbn [e_alt e_eval e_links].
    split; [reflexivity|]. split; [reflexivity|].
    set (Pr := fun r r2 : nat * (alt * (Z * Z)) =>
                 negb (Nat.eqb (fst r) (fst r2)) && (fst (snd (snd r)) <=? fst (snd (snd r2)))%Z
                 && (snd (snd (snd r)) <=? snd (snd (snd r2)))%Z).
    change (Permutation (map (fun r2 => a_id (fst (snd r2))) (filter (Pr (R' k)) (map R' (seq 0 n))))
                        (map (fun r2 => a_id (fst (snd r2))) (filter (Pr (R (nth k pi 0))) (map R (seq 0 n))))).
    transitivity (map (fun r2 : nat * (alt * (Z * Z)) => a_id (fst (snd r2)))
                      (filter (Pr (R (nth k pi 0))) (map R pi))).
    2: { apply Permutation_map, filter_perm, Permutation_map. exact P. }
    rewrite (map_pi_seq R pi), HL.
    rewrite !filter_map_pre, !map_map.
    rewrite (filter_ext_in (fun x => Pr (R' k) (R' x)) (fun x => Pr (R (nth k pi 0)) (R (nth x pi 0)))).
    - apply Permutation_refl.
    - intros j Hj. apply in_seq in Hj. unfold Pr, R', R, row_at. cbn [fst snd].
      f_equal. f_equal. f_equal.
      destruct (compat_rename [] pi n P) as [_ Hinj]. 
      destruct (Nat.eqb k j) eqn:E1; destruct (Nat.eqb (nth k pi 0) (nth j pi 0)) eqn:E2; try reflexivity.
      + apply Nat.eqb_eq in E1. subst j. now rewrite Nat.eqb_refl in E2.
      + apply Nat.eqb_eq in E2. apply Hinj in E2; [|apply in_seq; lia|apply in_seq; lia].
        subst j. now rewrite Nat.eqb_refl in E1.
  Qed.
End Evaluate.

Section EvaluateLift.
  Context {N : Num} {L : OrdLaws N}.
  Hypothesis neqb_eq : forall x y : num, neqb x y = true -> x = y.
  Hypothesis okv_zero : okv nzero.

  (** a state whose considered alternatives are listed in another order: the result lists the
      same entries in the new order (links up to their order), and it fails iff the original does *)
  Theorem electre_evaluate_rename (s s' : state) ecs f pi d dflt m r :
    st_params s = PElectre ecs f -> st_params s' = PElectre ecs f -> st_crits s' = st_crits s ->
    Permutation pi (seq 0 (List.length (st_cons s))) ->
    st_cons s' = map (fun k => nth k (st_cons s) d) pi ->
    cred_matrix (st_cons s) (st_crits s) ecs = Ok m -> okv_on m (seq 0 (List.length m)) ->
    electre_evaluate s = Ok r ->
    exists r', electre_evaluate s' = Ok r' /\
               Forall2 entry_equiv r' (map (fun k => nth k r dflt) pi).
  Proof.
    intros Hp Hp' Hcr P Hcons Hm Hok Hr.
    pose proof (cred_matrix_length _ _ _ _ Hm) as HLm.
    unfold electre_evaluate in *. rewrite Hp in Hr. rewrite Hp', Hcr, Hcons.
    rewrite (cred_matrix_rename _ _ _ m pi d P Hm). rewrite Hm in Hr. cbn [bind] in *.
    rewrite <- HLm in *.
    rewrite (rank_ascending_rename neqb_eq okv_zero m f pi P Hok).
    rewrite (rank_descending_rename neqb_eq okv_zero m f pi P Hok).
    destruct (rank_ascending m f) as [asc|] eqn:Ea; cbn [bind res_map] in *; [|discriminate].
    destruct (rank_descending m f) as [desc|] eqn:Ed; cbn [bind res_map] in *; [|discriminate].
    injection Hr as <-. eexists. split; [reflexivity|].
    rewrite HLm. rewrite HLm in P.
    apply evaluate_ranking_rename; [exact P| |].
    - rewrite <- HLm. apply (rank_ascending_consecutive _ _ _ Ea).
    - rewrite <- HLm. apply (rank_descending_consecutive _ _ _ Ed).
  Qed.
End EvaluateLift.

(** ** 7. the side conditions hold on the rationals *)
From RDM Require Import Base.NumQc.

Lemma neqb_eq_Qc (x y : @num NumQc) : neqb x y = true -> x = y.
Proof. apply neqb_iff. Qed.

Lemma okv_zero_Qc : @okv NumQc OrdQc nzero.
Proof. exact I. Qed.

Lemma okv_on_Qc (m : list (list (@num NumQc))) D : @okv_on NumQc OrdQc m D.
Proof. intros i j _ _. exact I. Qed.

Corollary max_cred_perm_Qc (m : list (list (@num NumQc))) D D' :
  Permutation D D' -> max_cred m D = max_cred m D'.
Proof. apply (max_cred_perm (L := OrdQc) neqb_eq_Qc okv_zero_Qc). apply okv_on_Qc. Qed.

Corollary min_cred_perm_Qc (m : list (list (@num NumQc))) f lambda D D' :
  Permutation D D' -> min_cred m f lambda D = min_cred m f lambda D'.
Proof. apply (min_cred_perm (L := OrdQc) neqb_eq_Qc okv_zero_Qc). apply okv_on_Qc. Qed.

Corollary next_class_perm_Qc (m : list (list (@num NumQc))) f asc fuel lambda D D' :
  Permutation D D' ->
  res_rel (@Permutation nat) (next_class fuel m f asc lambda D) (next_class fuel m f asc lambda D').
Proof. apply (next_class_perm (L := OrdQc) neqb_eq_Qc okv_zero_Qc). apply okv_on_Qc. Qed.

Corollary distill_perm_class_Qc (m : list (list (@num NumQc))) f asc fuel D D' pos a a' :
  NoDup D -> Permutation D D' ->
  distill fuel m f asc D pos = Ok a -> distill fuel m f asc D' pos = Ok a' ->
  forall i, class_of i a = class_of i a'.
Proof.
  intros ND. apply (distill_perm_class (L := OrdQc) neqb_eq_Qc okv_zero_Qc); [exact ND|apply okv_on_Qc].
Qed.

Corollary rank_ascending_rename_Qc (m : list (list (@num NumQc))) f pi :
  Permutation pi (seq 0 (List.length m)) ->
  rank_ascending (rename m pi (List.length m)) f =
  res_map (fun a => map (fun k => nth (nth k pi 0) a 0%Z) (seq 0 (List.length m))) (rank_ascending m f).
Proof.
  intros P. apply (rank_ascending_rename (L := OrdQc) neqb_eq_Qc okv_zero_Qc); [exact P|apply okv_on_Qc].
Qed.

Corollary rank_descending_rename_Qc (m : list (list (@num NumQc))) f pi :
  Permutation pi (seq 0 (List.length m)) ->
  rank_descending (rename m pi (List.length m)) f =
  res_map (fun a => map (fun k => nth (nth k pi 0) a 0%Z) (seq 0 (List.length m))) (rank_descending m f).
Proof.
  intros P. apply (rank_descending_rename (L := OrdQc) neqb_eq_Qc okv_zero_Qc); [exact P|apply okv_on_Qc].
Qed.

Corollary rank_ascending_equivariant_Qc (m : list (list (@num NumQc))) f pi a a' :
  Permutation pi (seq 0 (List.length m)) ->
  rank_ascending m f = Ok a -> rank_ascending (rename m pi (List.length m)) f = Ok a' ->
  forall k, k < List.length m -> nth k a' 0%Z = nth (nth k pi 0) a 0%Z.
Proof.
  intros P. apply (rank_ascending_equivariant (L := OrdQc) neqb_eq_Qc okv_zero_Qc); [exact P|apply okv_on_Qc].
Qed.

Corollary rank_descending_equivariant_Qc (m : list (list (@num NumQc))) f pi a a' :
  Permutation pi (seq 0 (List.length m)) ->
  rank_descending m f = Ok a -> rank_descending (rename m pi (List.length m)) f = Ok a' ->
  forall k, k < List.length m -> nth k a' 0%Z = nth (nth k pi 0) a 0%Z.
Proof.
  intros P. apply (rank_descending_equivariant (L := OrdQc) neqb_eq_Qc okv_zero_Qc); [exact P|apply okv_on_Qc].
Qed.

Corollary electre_evaluate_rename_Qc (s s' : @state NumQc) ecs f pi d dflt r :
  st_params s = PElectre ecs f -> st_params s' = PElectre ecs f -> st_crits s' = st_crits s ->
  Permutation pi (seq 0 (List.length (st_cons s))) ->
  st_cons s' = map (fun k => nth k (st_cons s) d) pi ->
  electre_evaluate s = Ok r ->
  exists r', electre_evaluate s' = Ok r' /\
             Forall2 entry_equiv r' (map (fun k => nth k r dflt) pi).
Proof.
  intros Hp Hp' Hcr P Hcons Hr.
  destruct (cred_matrix (st_cons s) (st_crits s) ecs) as [m|e] eqn:Hm.
  - apply (electre_evaluate_rename (L := OrdQc) neqb_eq_Qc okv_zero_Qc s s' ecs f pi d dflt m r); auto.
    apply okv_on_Qc.
  - unfold electre_evaluate in Hr. rewrite Hp, Hm in Hr. discriminate.
Qed.

Print Assumptions sig_rename.
Print Assumptions max_cred_perm.
Print Assumptions min_cred_perm.
Print Assumptions quality_perm.
Print Assumptions best_set_perm.
Print Assumptions next_class_perm.
Print Assumptions distill_perm.
Print Assumptions distill_perm_class.
Print Assumptions quality_rename.
Print Assumptions best_set_rename.
Print Assumptions next_class_rename.
Print Assumptions distill_rename.
Print Assumptions distill_rename_class.
Print Assumptions rank_ascending_rename.
Print Assumptions rank_descending_rename.
Print Assumptions rank_ascending_equivariant.
Print Assumptions rank_descending_equivariant.
Print Assumptions cred_matrix_rename.
Print Assumptions evaluate_ranking_rename.
Print Assumptions electre_evaluate_rename.
Print Assumptions rank_ascending_equivariant_Qc.
Print Assumptions rank_descending_equivariant_Qc.
Print Assumptions electre_evaluate_rename_Qc.
