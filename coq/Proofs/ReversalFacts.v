(** * C16: preference reversal mirrors the selected criteria inside their range.
    Generic facts (orderings are permutations, the split) are proved for every carrier; the arithmetic
    theorems are on the exact-rational instance [NumQc]. *)
From Coq Require Import ZArith QArith Qcanon Qabs Bool List String Lia Lqa Permutation.
From RDM Require Import Base.Num Base.NumQc Base.Util Model.Data Model.Rank Model.Utility Model.Levels
     Model.Heuristics Model.Electre Model.Listeners Model.Biases Check.Stage Check.BiasCheckers
     Proofs.SortFacts Proofs.WfFacts Proofs.LevelFacts Proofs.AggregateFacts.
Import ListNotations.
Local Open Scope string_scope.
Local Open Scope list_scope.

(** ** 0. Generic list / result facts *)
Lemma list_eqb_Forall2 {A B} (f : A -> B -> bool) : forall l1 l2,
  list_eqb f l1 l2 = true <-> Forall2 (fun x y => f x y = true) l1 l2.
Proof.
  induction l1 as [|x r IH]; intros [|y s]; cbn [list_eqb]; split; intros H;
    try discriminate; try constructor; try (now inversion H).
  - apply andb_true_iff in H. tauto.
  - apply IH. apply andb_true_iff in H. tauto.
  - inversion H; subst. apply andb_true_iff. split; [assumption|now apply IH].
Qed.

Lemma list_eqb_refl_gen {A} (f : A -> A -> bool) : (forall x, f x x = true) -> forall l, list_eqb f l l = true.
Proof. intros Hf. induction l as [|x r IH]; cbn [list_eqb]; [reflexivity|]. now rewrite Hf, IH. Qed.

Lemma Forall2_map_eq {A B C} (f : A -> C) (g : B -> C) (R : A -> B -> Prop) l1 l2 :
  (forall x y, R x y -> f x = g y) -> Forall2 R l1 l2 -> map f l1 = map g l2.
Proof. intros HR H. induction H; cbn [map]; [reflexivity|]. f_equal; auto. Qed.

Lemma Forall2_len {A B} (R : A -> B -> Prop) l1 l2 : Forall2 R l1 l2 -> List.length l1 = List.length l2.
Proof. intros H. induction H; cbn [List.length]; [reflexivity|now f_equal]. Qed.

Lemma Forall2_in_l {A B} (R : A -> B -> Prop) l1 l2 x :
  Forall2 R l1 l2 -> In x l1 -> exists y, In y l2 /\ R x y.
Proof.
  intros H. induction H as [|a b l1 l2 Hab H IH]; intros I; [destruct I|].
  destruct I as [<-|I]; [exists b; split; [now left|assumption]|].
  destruct (IH I) as (y & Hy & Hr). exists y. split; [now right|assumption].
Qed.

Lemma Forall2_in_r {A B} (R : A -> B -> Prop) l1 l2 y :
  Forall2 R l1 l2 -> In y l2 -> exists x, In x l1 /\ R x y.
Proof.
  intros H. induction H as [|a b l1 l2 Hab H IH]; intros I; [destruct I|].
  destruct I as [<-|I]; [exists a; split; [now left|assumption]|].
  destruct (IH I) as (x & Hx & Hr). exists x. split; [now right|assumption].
Qed.

Lemma Forall2_impl_in {A B} (R S : A -> B -> Prop) l1 l2 :
  (forall x y, In x l1 -> In y l2 -> R x y -> S x y) -> Forall2 R l1 l2 -> Forall2 S l1 l2.
Proof.
  intros HI H. induction H as [|a b l1 l2 Hab H IH]; constructor.
  - apply HI; [now left|now left|assumption].
  - apply IH. intros x y Hx Hy. apply HI; now right.
Qed.

Lemma mapM_fst_id {A B} (f : A -> res (A * B)) : (forall x y, f x = Ok y -> fst y = x) ->
  forall l l', mapM f l = Ok l' -> map fst l' = l.
Proof.
  intros Hf l l' H. apply mapM_Forall2 in H. induction H; cbn [map]; [reflexivity|].
  f_equal; [now apply Hf|assumption].
Qed.

Lemma nth_opt_remove_perm {A} : forall (l : list A) i c,
  nth_opt i l = Some c -> Permutation l (c :: remove_nth i l) /\ List.length l = S (List.length (remove_nth i l)).
Proof.
  induction l as [|x r IH]; intros i c H; [destruct i; discriminate|].
  destruct i as [|i]; cbn [nth_opt remove_nth] in *.
  - injection H as ->. split; reflexivity.
  - destruct (IH i c H) as [P L]. split.
    + rewrite perm_swap. now constructor.
    + cbn [List.length]. now rewrite L.
Qed.

Lemma nth_opt_last_split {A} : forall (l : list A) f c,
  List.length l = S f -> nth_opt f l = Some c -> l = removelast l ++ [c].
Proof.
  induction l as [|x r IH]; intros f c L H; [discriminate|].
  destruct f as [|f]; cbn [nth_opt List.length] in *.
  - destruct r; [|discriminate]. injection H as ->. reflexivity.
  - destruct r as [|y r']; [discriminate|].
    assert (L' : List.length (y :: r') = S f) by (cbn [List.length] in *; lia).
    specialize (IH f c L' H).
    change (removelast (x :: y :: r')) with (x :: removelast (y :: r')).
    cbn [app]. f_equal. exact IH.
Qed.

Lemma removelast_length {A} (l : list A) : List.length (removelast l) = pred (List.length l).
Proof.
  induction l as [|x r IH]; [reflexivity|]. destruct r as [|y r']; [reflexivity|].
  change (removelast (x :: y :: r')) with (x :: removelast (y :: r')).
  cbn [List.length] in *. now rewrite IH.
Qed.

(** ** 1. Every criteria ordering is a permutation of the criteria; the split *)
Section Orderings.
  Context {N : Num}.

  Lemma sort_by_weights_perm cs w r : sort_by_weights cs w = Ok r -> Permutation (map fst r) cs.
  Proof.
    unfold sort_by_weights, zip_with_weights. intros H. apply bind_ok in H as (wc & Hz & H). injection H as <-.
    assert (E : map fst wc = cs).
    { eapply mapM_fst_id; [|exact Hz].
      intros x y. cbv beta. destruct (mget (c_id x) w); cbn [of_option bind]; [|discriminate].
      intros Hy. injection Hy as <-. reflexivity. }
    rewrite <- E. apply Permutation_map. apply isort_perm.
  Qed.

  Lemma rank_criteria_perm s r : rank_criteria s = Ok r -> Permutation (map fst r) (st_crits s).
  Proof.
    unfold rank_criteria. destruct (st_params s); intros H.
    1-3,7: apply bind_ok in H as (w0 & _ & H).
    all: eapply sort_by_weights_perm; exact H.
  Qed.

  Lemma wbp_loop_perm : forall fuel n pos sorted total g acc r,
    List.length sorted = fuel -> (n - pos = fuel)%nat ->
    wbp_loop fuel n pos sorted total g acc = Ok r -> Permutation r (acc ++ map fst sorted).
  Proof.
    induction fuel as [|f IH]; intros n pos sorted total g acc r L NP H; cbn [wbp_loop] in H.
    - injection H as <-. destruct sorted; [|discriminate]. cbn [map]. now rewrite app_nil_r.
    - apply bind_ok in H as (dg & _ & H).
      destruct (pick_weighted sorted nzero (nmul (fst dg) total) 0) as [i|].
      + destruct (nth_opt i sorted) as [c|] eqn:E; [|discriminate].
        destruct (nth_opt_remove_perm _ _ _ E) as [P Ln].
        apply IH in H; [|lia|lia]. rewrite H, <- app_assoc. apply Permutation_app_head.
        symmetry. apply (Permutation_map fst) in P. exact P.
      + replace (n - pos - 1)%nat with f in H by lia.
        destruct (nth_opt f sorted) as [c|] eqn:E; [|discriminate].
        pose proof (nth_opt_last_split _ _ _ L E) as Sp.
        apply IH in H; [|rewrite removelast_length; lia|lia].
        rewrite H, <- app_assoc. apply Permutation_app_head.
        rewrite Sp at 2. rewrite map_app. cbn [map app]. apply Permutation_cons_append.
  Qed.

  Lemma weakest_by_probability_perm e s seed r :
    weakest_by_probability e s seed = Ok r -> Permutation r (st_crits s).
  Proof.
    unfold weakest_by_probability. intros H. apply bind_ok in H as (sorted & Hr & H).
    apply rank_criteria_perm in Hr. destruct sorted as [|first rest].
    - injection H as <-. exact Hr.
    - apply wbp_loop_perm in H; [|now rewrite map_length|lia].
      rewrite H. cbn [app]. rewrite map_map. cbn [fst]. exact Hr.
  Qed.

  Theorem order_criteria_perm e s p l : order_criteria e s p = Ok l -> Permutation l (st_crits s).
  Proof.
    unfold order_criteria.
    destruct (String.eqb (bp_ordering p) "" || String.eqb (bp_ordering p) o_weakest).
    { intros H. apply bind_ok in H as (r & Hr & H). injection H as <-. now apply rank_criteria_perm. }
    destruct (String.eqb (bp_ordering p) o_strongest).
    { intros H. apply bind_ok in H as (r & Hr & H). injection H as <-.
      rewrite <- Permutation_rev. now apply rank_criteria_perm. }
    destruct (String.eqb (bp_ordering p) o_random).
    { intros H. apply bind_ok in H as ([r g] & Hr & H). injection H as <-. cbn [fst].
      eapply shuffle_perm. exact Hr. }
    destruct (String.eqb (bp_ordering p) o_weakest_prob).
    { apply weakest_by_probability_perm. }
    destruct (String.eqb (bp_ordering p) o_strongest_prob); [|discriminate].
    intros H. apply bind_ok in H as (r & Hr & H). injection H as <-.
    rewrite <- Permutation_rev. eapply weakest_by_probability_perm. exact Hr.
  Qed.

  Lemma split_criteria_spec sorted p l r :
    split_criteria sorted p = Ok (l, r) ->
    let pv := split_pivot (List.length sorted) p in
    (0 <= pv <= Z.of_nat (List.length sorted))%Z /\ l = firstn (Z.to_nat pv) sorted /\ r = skipn (Z.to_nat pv) sorted.
  Proof.
    unfold split_criteria. destruct (negb (is_probability (bp_ratio p))); [discriminate|].
    destruct (bp_max p <? bp_min p)%Z; [discriminate|].
    destruct ((split_pivot (List.length sorted) p <? 0)%Z) eqn:E1; [discriminate|].
    destruct ((Z.of_nat (List.length sorted) <? split_pivot (List.length sorted) p)%Z) eqn:E2; [discriminate|].
    cbn [orb]. intros H. injection H as <- <-. cbv zeta.
    apply Z.ltb_ge in E1, E2. repeat split; assumption.
  Qed.

  Lemma NoDup_firstn {A} (l : list A) k : NoDup l -> NoDup (firstn k l).
  Proof. intros H. rewrite <- (firstn_skipn k l) in H. now apply NoDup_app_l in H. Qed.
End Orderings.

(** ** 2. The value rewrite of [apply_reversal], factored out *)
Section Factor.
  Context {N : Num}.

  Definition ranges_of (all : list alt) (cs : list crit) : res (list (crit * (num * num))) :=
    mapM (fun c => do r <- values_range all c; Ok (c, r)) cs.

  Definition rev_step (acc : res (smap num)) (cr : crit * (num * num)) : res (smap num) :=
    do m <- acc;
    do v <- of_option (mget (c_id (fst cr)) m) EMissing;
    Ok (mset (c_id (fst cr)) (nadd (nsub (snd (snd cr)) v) (fst (snd cr))) m).

  Definition rev_alt (items : list (crit * (num * num))) (a : alt) : res alt :=
    do vals <- fold_left rev_step items (Ok (a_vals a)); Ok {| a_id := a_id a; a_vals := vals |}.

  Definition rev_report_vals (k : string) (new_all : list alt) : smap num :=
    fold_left (fun m a => match mget k (a_vals a) with Some v => mset (a_id a) v m | None => m end) new_all [].

  Definition rev_report (items : list (crit * (num * num))) (new_all : list alt) :=
    map (fun cr => (fst cr, snd cr, rev_report_vals (c_id (fst cr)) new_all)) items.

  (* the rewrite of the values of the given criteria, with its report *)
  Definition reverse_full (cs : list crit) (s : state) : res (state * report) :=
    let all := all_alts s in
    do items <- ranges_of all cs;
    do new_all <- mapM (rev_alt items) all;
    do consd <- update_alts (st_cons s) new_all;
    do nconsd <- update_alts (st_notcons s) new_all;
    Ok ({| st_notcons := nconsd; st_cons := consd; st_crits := st_crits s; st_params := st_params s |},
        RReversal (rev_report items new_all)).

  Definition reverse_with (cs : list crit) (s : state) : res state :=
    do r <- reverse_full cs s; Ok (fst r).

  (* [apply_reversal] = validation, selection of the criteria, then [reverse_full] *)
  Theorem apply_reversal_factor e cur p :
    apply_reversal e cur p =
    if negb (is_probability (bp_ratio p)) || (bp_max p <? bp_min p)%Z then Err EInvalid else
    do sorted <- order_criteria e cur p;
    do lr <- split_criteria sorted p;
    reverse_full (fst lr) cur.
  Proof. reflexivity. Qed.

  Definition selected (e : env) (cur : state) (p : bprops) : res (list crit) :=
    if negb (is_probability (bp_ratio p)) || (bp_max p <? bp_min p)%Z then Err EInvalid else
    do sorted <- order_criteria e cur p;
    do lr <- split_criteria sorted p;
    Ok (fst lr).

  Corollary apply_reversal_selected e cur p :
    apply_reversal e cur p = do cs <- selected e cur p; reverse_full cs cur.
  Proof.
    rewrite apply_reversal_factor. unfold selected.
    destruct (negb (is_probability (bp_ratio p)) || (bp_max p <? bp_min p)%Z); [reflexivity|].
    destruct (order_criteria e cur p) as [sorted|]; cbn [bind]; [|reflexivity].
    destruct (split_criteria sorted p); reflexivity.
  Qed.

  Corollary apply_reversal_reverse_with e cur p st rep :
    apply_reversal e cur p = Ok (st, rep) ->
    exists cs, selected e cur p = Ok cs /\ reverse_with cs cur = Ok st.
  Proof.
    rewrite apply_reversal_selected. intros H. apply bind_ok in H as (cs & Hs & H).
    exists cs. split; [exact Hs|]. unfold reverse_with. now rewrite H.
  Qed.

  (* the selected criteria: the first [split_pivot] of a permutation of the criteria *)
  Lemma selected_spec e cur p cs :
    selected e cur p = Ok cs ->
    exists sorted, Permutation sorted (st_crits cur) /\
      let pv := split_pivot (List.length (st_crits cur)) p in
      (0 <= pv <= Z.of_nat (List.length (st_crits cur)))%Z /\ cs = firstn (Z.to_nat pv) sorted.
  Proof.
    unfold selected. destruct (negb (is_probability (bp_ratio p)) || (bp_max p <? bp_min p)%Z); [discriminate|].
    intros H. apply bind_ok in H as (sorted & Ho & H). apply bind_ok in H as ([l r] & Hs & H).
    injection H as <-. cbn [fst]. apply order_criteria_perm in Ho. apply split_criteria_spec in Hs.
    cbv zeta in Hs. rewrite (Permutation_length Ho) in Hs. exists sorted. split; [exact Ho|]. cbv zeta. tauto.
  Qed.

  Lemma selected_nodup e cur p cs :
    selected e cur p = Ok cs -> NoDup (map c_id (st_crits cur)) ->
    NoDup (map c_id cs) /\ incl cs (st_crits cur) /\
    Z.of_nat (List.length cs) = split_pivot (List.length (st_crits cur)) p.
  Proof.
    intros H ND. apply selected_spec in H as (sorted & P & B & ->). split; [|split].
    - rewrite <- firstn_map. apply NoDup_firstn.
      eapply Permutation_NoDup; [|exact ND]. symmetry. now apply Permutation_map.
    - intros c Hc. eapply Permutation_in; [exact P|]. rewrite <- (firstn_skipn (Z.to_nat (split_pivot (List.length (st_crits cur)) p)) sorted).
      apply in_or_app. now left.
    - rewrite firstn_length, (Permutation_length P). lia.
  Qed.

  (** *** the pieces of [reverse_full] *)
  Lemma reverse_full_inv cs s st rep :
    reverse_full cs s = Ok (st, rep) ->
    exists items new_all,
      ranges_of (all_alts s) cs = Ok items /\
      mapM (rev_alt items) (all_alts s) = Ok new_all /\
      update_alts (st_cons s) new_all = Ok (st_cons st) /\
      update_alts (st_notcons s) new_all = Ok (st_notcons st) /\
      st_crits st = st_crits s /\ st_params st = st_params s /\
      rep = RReversal (rev_report items new_all).
  Proof.
    unfold reverse_full. intros H.
    apply bind_ok in H as (items & H1 & H). apply bind_ok in H as (new_all & H2 & H).
    apply bind_ok in H as (consd & H3 & H). apply bind_ok in H as (nconsd & H4 & H).
    injection H as <- <-. exists items, new_all. cbn [st_cons st_notcons st_crits st_params]. tauto.
  Qed.

  Lemma ranges_of_spec all cs items :
    ranges_of all cs = Ok items ->
    map fst items = cs /\ forall c r, In (c, r) items -> values_range all c = Ok r.
  Proof.
    unfold ranges_of. intros H. apply mapM_Forall2 in H. induction H as [|c [c' r'] cs items Hc H IH].
    - split; [reflexivity|intros ? ? []].
    - apply bind_ok in Hc as (r & Hr & Hc). injection Hc as <- <-. destruct IH as [IH1 IH2]. split.
      + cbn [map fst]. now rewrite IH1.
      + intros c0 r0 [E|I]; [injection E as <- <-; exact Hr|now apply IH2].
  Qed.

  Definition item_ids (items : list (crit * (num * num))) : list string := map (fun cr => c_id (fst cr)) items.

  Lemma ranges_of_ids all cs items : ranges_of all cs = Ok items -> item_ids items = map c_id cs.
  Proof. intros H. apply ranges_of_spec in H as [<- _]. unfold item_ids. now rewrite map_map. Qed.

  Lemma rev_fold_err items e : fold_left rev_step items (Err e) = Err e.
  Proof. induction items as [|x r IH]; cbn [fold_left rev_step bind]; [reflexivity|exact IH]. Qed.

  (* criteria that are not selected keep their value (no hypothesis) *)
  Lemma rev_fold_other k : forall items m0 vals,
    fold_left rev_step items (Ok m0) = Ok vals -> ~ In k (item_ids items) -> mget k vals = mget k m0.
  Proof.
    induction items as [|cr items IH]; intros m0 vals H NI; cbn [fold_left] in H.
    - now injection H as <-.
    - unfold rev_step at 2 in H. cbn [bind] in H.
      destruct (mget (c_id (fst cr)) m0) as [v|]; cbn [of_option bind] in H; [|rewrite rev_fold_err in H; discriminate].
      cbn [item_ids map In] in NI. rewrite (IH _ _ H) by tauto.
      apply mget_mset_other. intros ->. apply NI. now left.
  Qed.

  (* a selected criterion is mirrored once when the selected ids are pairwise distinct *)
  Lemma rev_fold_sel : forall items m0 vals,
    NoDup (item_ids items) -> fold_left rev_step items (Ok m0) = Ok vals ->
    forall c mn mx, In (c, (mn, mx)) items ->
      exists v, mget (c_id c) m0 = Some v /\ mget (c_id c) vals = Some (nadd (nsub mx v) mn).
  Proof.
    induction items as [|cr items IH]; intros m0 vals ND H c mn mx I; [destruct I|].
    cbn [fold_left] in H. unfold rev_step at 2 in H. cbn [bind] in H.
    destruct (mget (c_id (fst cr)) m0) as [v|] eqn:Ev; cbn [of_option bind] in H; [|rewrite rev_fold_err in H; discriminate].
    cbn [item_ids map] in ND. inversion ND as [|? ? NI ND']; subst. destruct I as [->|I].
    - cbn [fst snd] in *. exists v. split; [exact Ev|].
      rewrite (rev_fold_other _ _ _ _ H NI). apply mget_mset_same.
    - destruct (IH _ _ ND' H c mn mx I) as (w & Hw & Hv). exists w. split; [|exact Hv].
      rewrite mget_mset_other in Hw; [exact Hw|]. intros E. apply NI. rewrite <- E.
      unfold item_ids. apply in_map_iff. exists (c, (mn, mx)). split; [reflexivity|exact I].
  Qed.

  Lemma rev_alt_id items a a' : rev_alt items a = Ok a' -> a_id a' = a_id a.
  Proof. unfold rev_alt. intros H. apply bind_ok in H as (vals & _ & H). now injection H as <-. Qed.

  Lemma rev_alt_other items a a' k :
    rev_alt items a = Ok a' -> ~ In k (item_ids items) -> mget k (a_vals a') = mget k (a_vals a).
  Proof.
    unfold rev_alt. intros H. apply bind_ok in H as (vals & Hf & H). injection H as <-. cbn [a_vals].
    now apply rev_fold_other.
  Qed.

  Lemma rev_alt_sel items a a' c mn mx :
    rev_alt items a = Ok a' -> NoDup (item_ids items) -> In (c, (mn, mx)) items ->
    exists v, mget (c_id c) (a_vals a) = Some v /\ mget (c_id c) (a_vals a') = Some (nadd (nsub mx v) mn).
  Proof.
    unfold rev_alt. intros H. apply bind_ok in H as (vals & Hf & H). injection H as <-. cbn [a_vals].
    intros ND I. eapply rev_fold_sel; eassumption.
  Qed.

  (** *** [update_alts] picks, for every old alternative, its rewritten version *)
  Lemma fetch_partner (R : alt -> alt -> Prop) : (forall a a', R a a' -> a_id a' = a_id a) ->
    forall all new, Forall2 R all new -> NoDup (map a_id all) ->
    forall a, In a all -> exists a', fetch_alt' new (a_id a) = Ok a' /\ R a a'.
  Proof.
    intros Hid all new H. induction H as [|x y all new Hxy H IH]; intros ND a I; [destruct I|].
    cbn [map] in ND. inversion ND as [|? ? NI ND']; subst. cbn [fetch_alt']. destruct I as [->|I].
    - rewrite (Hid _ _ Hxy), String.eqb_refl. eauto.
    - destruct (String.eqb (a_id y) (a_id a)) eqn:E.
      + exfalso. apply String.eqb_eq in E. apply NI. rewrite <- (Hid _ _ Hxy), E. now apply in_map.
      + now apply IH.
  Qed.

  Lemma update_alts_partner (R : alt -> alt -> Prop) : (forall a a', R a a' -> a_id a' = a_id a) ->
    forall all new, Forall2 R all new -> NoDup (map a_id all) ->
    forall old r, incl old all -> update_alts old new = Ok r -> Forall2 R old r.
  Proof.
    intros Hid all new HF ND old r Hincl H. unfold update_alts in H. apply mapM_Forall2 in H.
    induction H as [|a b old r Hab H IH]; constructor.
    - destruct (fetch_partner R Hid all new HF ND a) as (a' & E & Ha); [apply Hincl; now left|].
      rewrite Hab in E. now injection E as ->.
    - apply IH. intros x Hx. apply Hincl. now right.
  Qed.

  Lemma update_alts_ids old new r : update_alts old new = Ok r -> map a_id r = map a_id old.
  Proof.
    unfold update_alts. intros H. apply mapM_Forall2 in H. symmetry.
    eapply Forall2_map_eq; [|exact H]. intros x y Hxy. cbv beta in Hxy. symmetry. eapply fetch_alt'_id. exact Hxy.
  Qed.

  (** *** the report *)
  Lemma rev_report_other k id : forall new m0,
    ~ In id (map a_id new) ->
    mget id (fold_left (fun m a => match mget k (a_vals a) with Some v => mset (a_id a) v m | None => m end) new m0)
    = mget id m0.
  Proof.
    induction new as [|a new IH]; intros m0 NI; cbn [fold_left]; [reflexivity|].
    cbn [map In] in NI. rewrite IH by tauto. destruct (mget k (a_vals a)); [|reflexivity].
    apply mget_mset_other. intros ->. apply NI. now left.
  Qed.

  Lemma rev_report_in k : forall new m0 a,
    NoDup (map a_id new) -> In a new -> (exists v, mget k (a_vals a) = Some v) ->
    mget (a_id a) (fold_left (fun m a => match mget k (a_vals a) with Some v => mset (a_id a) v m | None => m end) new m0)
    = mget k (a_vals a).
  Proof.
    induction new as [|b new IH]; intros m0 a ND I Hv; [destruct I|].
    cbn [map] in ND. inversion ND as [|? ? NI ND']; subst. cbn [fold_left]. destruct I as [->|I].
    - rewrite rev_report_other by exact NI. destruct Hv as [v Hv]. rewrite Hv. apply mget_mset_same.
    - now apply IH.
  Qed.

  Lemma mset_length_new {A} k (v : A) : forall m, ~ In k (mkeys m) -> List.length (mset k v m) = S (List.length m).
  Proof.
    induction m as [|[k' v'] m IH]; intros NI; cbn [mset]; [reflexivity|].
    cbn [mkeys map fst In] in NI. destruct (String.eqb k k') eqn:E.
    - apply String.eqb_eq in E. subst. exfalso. apply NI. now left.
    - destruct (String.ltb k k'); [reflexivity|]. cbn [List.length]. f_equal. apply IH. unfold mkeys. tauto.
  Qed.

  Lemma rev_report_length k : forall new m0,
    NoDup (map a_id new) -> (forall a, In a new -> ~ In (a_id a) (mkeys m0)) ->
    (forall a, In a new -> exists v, mget k (a_vals a) = Some v) ->
    List.length (fold_left (fun m a => match mget k (a_vals a) with Some v => mset (a_id a) v m | None => m end) new m0)
    = (List.length m0 + List.length new)%nat.
  Proof.
    induction new as [|b new IH]; intros m0 ND Hd Hv; cbn [fold_left List.length]; [lia|].
    cbn [map] in ND. inversion ND as [|? ? NI ND']; subst.
    destruct (Hv b (or_introl eq_refl)) as [v Ev]. rewrite Ev. rewrite IH.
    - rewrite mset_length_new by (apply Hd; now left). lia.
    - exact ND'.
    - intros a Ha Hk. apply mkeys_mset in Hk as [E|Hk].
      + apply NI. rewrite <- E. now apply in_map.
      + apply (Hd a (or_intror Ha) Hk).
    - intros a Ha. apply Hv. now right.
  Qed.
End Factor.

Section Core.
  Context {N : Num}.

  Definition mirrored_by (items : list (crit * (num * num))) (a a' : alt) : Prop := rev_alt items a = Ok a'.

  (* under pairwise distinct ids of the alternatives, the new lists are the old ones rewritten one by one *)
  Lemma reverse_full_core cs s st rep :
    reverse_full cs s = Ok (st, rep) -> NoDup (map a_id (all_alts s)) ->
    exists items new_all,
      ranges_of (all_alts s) cs = Ok items /\
      Forall2 (mirrored_by items) (all_alts s) new_all /\
      Forall2 (mirrored_by items) (st_cons s) (st_cons st) /\
      Forall2 (mirrored_by items) (st_notcons s) (st_notcons st) /\
      st_crits st = st_crits s /\ st_params st = st_params s /\
      rep = RReversal (rev_report items new_all).
  Proof.
    intros H ND. apply reverse_full_inv in H as (items & new_all & H1 & H2 & H3 & H4 & H5 & H6 & H7).
    apply mapM_Forall2 in H2. exists items, new_all.
    assert (Hid : forall a a', mirrored_by items a a' -> a_id a' = a_id a) by (intros a a'; apply rev_alt_id).
    split; [exact H1|]. split; [exact H2|]. split; [|split]; [| |tauto].
    - eapply (update_alts_partner _ Hid); [exact H2|exact ND| |exact H3].
      intros x Hx. unfold all_alts. apply in_or_app. now left.
    - eapply (update_alts_partner _ Hid); [exact H2|exact ND| |exact H4].
      intros x Hx. unfold all_alts. apply in_or_app. now right.
  Qed.

  Lemma rev_report_ids items new_all :
    map (fun it : crit * (num * num) * smap num => c_id (fst (fst it))) (rev_report items new_all) = item_ids items.
  Proof. unfold rev_report, item_ids. rewrite map_map. reflexivity. Qed.

  Lemma rev_report_in_inv items new_all c r vals :
    In (c, r, vals) (rev_report items new_all) -> In (c, r) items /\ vals = rev_report_vals (c_id c) new_all.
  Proof.
    unfold rev_report. intros H. apply in_map_iff in H as ([c' r'] & E & I). cbn [fst snd] in E.
    injection E as <- <- <-. split; [exact I|reflexivity].
  Qed.

  (** A2 for [reverse_full] *)
  Definition untouched (ids : list string) (a a' : alt) : Prop :=
    a_id a' = a_id a /\ forall k, ~ In k ids -> mget k (a_vals a') = mget k (a_vals a).

  Lemma reverse_full_frame cs s st items :
    reverse_full cs s = Ok (st, RReversal items) ->
    st_crits st = st_crits s /\ st_params st = st_params s /\
    map a_id (st_cons st) = map a_id (st_cons s) /\ map a_id (st_notcons st) = map a_id (st_notcons s) /\
    map (fun it => c_id (fst (fst it))) items = map c_id cs /\
    (NoDup (map a_id (all_alts s)) ->
     Forall2 (untouched (map c_id cs)) (st_cons s) (st_cons st) /\
     Forall2 (untouched (map c_id cs)) (st_notcons s) (st_notcons st)).
  Proof.
    intros H. pose proof H as H0. apply reverse_full_inv in H0 as (its & new_all & H1 & H2 & H3 & H4 & H5 & H6 & H7).
    split; [exact H5|]. split; [exact H6|]. split; [eapply update_alts_ids; exact H3|].
    split; [eapply update_alts_ids; exact H4|]. split.
    - injection H7 as ->. rewrite rev_report_ids. eapply ranges_of_ids. exact H1.
    - intros ND. apply reverse_full_core in H as (its' & new' & G1 & G2 & G3 & G4 & _); [|exact ND].
      rewrite <- (ranges_of_ids _ _ _ G1).
      split; (eapply Forall2_impl_in; [|eassumption]); intros a a' _ _ Ha; (split; [eapply rev_alt_id; exact Ha|]);
        intros k Hk; eapply rev_alt_other; eassumption.
  Qed.
End Core.

Lemma apply_reversal_report {N : Num} e cur p st rep :
  apply_reversal e cur p = Ok (st, rep) -> exists items, rep = RReversal items.
Proof.
  rewrite apply_reversal_selected. intros H. apply bind_ok in H as (cs & _ & H).
  apply reverse_full_inv in H as (its & new_all & _ & _ & _ & _ & _ & _ & ->). eauto.
Qed.

(** A2. the frame of [apply_reversal]: criteria, parameters and ids are unchanged (for every carrier);
    values of criteria that are not selected are unchanged. *)
Theorem reversal_frame {N : Num} e cur p st items :
  apply_reversal e cur p = Ok (st, RReversal items) ->
  st_crits st = st_crits cur /\ st_params st = st_params cur /\
  map a_id (st_cons st) = map a_id (st_cons cur) /\ map a_id (st_notcons st) = map a_id (st_notcons cur) /\
  (NoDup (map a_id (all_alts cur)) ->
   let sel := map (fun it : crit * (num * num) * smap num => c_id (fst (fst it))) items in
   Forall2 (untouched sel) (st_cons cur) (st_cons st) /\ Forall2 (untouched sel) (st_notcons cur) (st_notcons st)).
Proof.
  rewrite apply_reversal_selected. intros H. apply bind_ok in H as (cs & _ & H).
  apply reverse_full_frame in H as (H1 & H2 & H3 & H4 & H5 & H6). repeat (split; [assumption|]).
  intros ND. cbv zeta. rewrite H5. now apply H6.
Qed.

(** ** 3. The arithmetic on exact rationals *)
Local Open Scope Qc_scope.

Lemma mirror_eq (mn mx v : Qc) : @nadd NumQc (@nsub NumQc mx v) mn = mx + mn - v.
Proof. qcr. Qed.

Lemma raw_value_mget (a : @alt NumQc) c v : raw_value a c = Ok v <-> mget (c_id c) (a_vals a) = Some v.
Proof.
  unfold raw_value. destruct (mget (c_id c) (a_vals a)); cbn [of_option]; split; intros H; try discriminate; congruence.
Qed.

(** A1 for [reverse_full] *)
Lemma reverse_full_value (cs : list (@crit NumQc)) s st items :
  reverse_full cs s = Ok (st, RReversal items) ->
  NoDup (map a_id (all_alts s)) -> NoDup (map c_id cs) ->
  forall c mn mx vals, In (c, (mn, mx), vals) items ->
    In c cs /\ values_range (all_alts s) c = Ok (mn, mx) /\
    forall a, In a (all_alts s) ->
      exists v, mget (c_id c) (a_vals a) = Some v /\
        (exists a', In a' (all_alts st) /\ a_id a' = a_id a /\ mget (c_id c) (a_vals a') = Some (mx + mn - v)) /\
        mget (a_id a) vals = Some (mx + mn - v).
Proof.
  intros H NDa NDc c mn mx vals I.
  apply reverse_full_core in H as (its & new_all & H1 & H2 & H3 & H4 & _ & _ & H7); [|exact NDa].
  injection H7 as ->. apply rev_report_in_inv in I as [I ->].
  pose proof (ranges_of_spec _ _ _ H1) as [Hfst Hr].
  assert (NDi : NoDup (item_ids its)) by (rewrite (ranges_of_ids _ _ _ H1); exact NDc).
  split; [rewrite <- Hfst; apply in_map_iff; exists (c, (mn, mx)); split; [reflexivity|exact I]|].
  split; [now apply Hr|]. intros a Ha.
  assert (HF : Forall2 (mirrored_by its) (all_alts s) (all_alts st)) by (unfold all_alts; now apply Forall2_app).
  destruct (Forall2_in_l _ _ _ _ HF Ha) as (a' & Ha' & Hm).
  destruct (rev_alt_sel _ _ _ _ _ _ Hm NDi I) as (v & Hv & Hv'). rewrite mirror_eq in Hv'.
  exists v. split; [exact Hv|]. split.
  - exists a'. split; [exact Ha'|]. split; [eapply rev_alt_id; exact Hm|exact Hv'].
  - destruct (Forall2_in_l _ _ _ _ H2 Ha) as (a'' & Ha'' & Hm'').
    assert (a'' = a') by (unfold mirrored_by in *; congruence). subst a''.
    rewrite <- (rev_alt_id _ _ _ Hm). unfold rev_report_vals. rewrite rev_report_in.
    + exact Hv'.
    + rewrite <- (Forall2_map_eq a_id a_id _ _ _ (fun x y Hxy => eq_sym (rev_alt_id _ _ _ Hxy)) H2). exact NDa.
    + exact Ha''.
    + eauto.
Qed.

(** A1. every selected criterion is mirrored inside its range, and the report lists the new values *)
Theorem reversed_value e (cur : @state NumQc) p st items :
  apply_reversal e cur p = Ok (st, RReversal items) ->
  NoDup (map a_id (all_alts cur)) -> NoDup (map c_id (st_crits cur)) ->
  forall c mn mx vals, In (c, (mn, mx), vals) items ->
    values_range (all_alts cur) c = Ok (mn, mx) /\
    forall a, In a (all_alts cur) ->
      exists v, mget (c_id c) (a_vals a) = Some v /\
        (exists a', In a' (all_alts st) /\ a_id a' = a_id a /\ mget (c_id c) (a_vals a') = Some (mx + mn - v)) /\
        mget (a_id a) vals = Some (mx + mn - v).
Proof.
  rewrite apply_reversal_selected. intros H NDa NDc. apply bind_ok in H as (cs & Hs & H).
  destruct (selected_nodup _ _ _ _ Hs NDc) as (NDs & _ & _).
  intros c mn mx vals I. destruct (reverse_full_value cs cur st items H NDa NDs c mn mx vals I) as (_ & A & B).
  split; assumption.
Qed.

(** *** A3: the observed range of a mirrored criterion is preserved *)
Definition mirror_pair (c : @crit NumQc) (mn mx : Qc) (a a' : @alt NumQc) : Prop :=
  exists v, mget (c_id c) (a_vals a) = Some v /\ mget (c_id c) (a_vals a') = Some (mx + mn - v).

Lemma mirrored_pair its a a' c mn mx :
  NoDup (item_ids its) -> In (c, (mn, mx)) its -> mirrored_by its a a' -> mirror_pair c mn mx a a'.
Proof.
  intros ND I Hm. destruct (rev_alt_sel _ _ _ _ _ _ Hm ND I) as (v & Hv & Hv'). rewrite mirror_eq in Hv'.
  exists v. split; assumption.
Qed.

Lemma mirror_range (c : @crit NumQc) (mn mx : Qc) all all' :
  c_range c = None -> Forall2 (mirror_pair c mn mx) all all' ->
  values_range all c = Ok (mn, mx) -> values_range all' c = Ok (mn, mx).
Proof.
  intros Hn HF Hr. destruct all as [|a0 all0].
  { inversion HF; subst. exact Hr. }
  set (all := a0 :: all0) in *.
  assert (NE : all <> []) by discriminate.
  assert (NE' : all' <> []) by (inversion HF; discriminate).
  assert (Hall : forall a, In a all -> exists v, raw_value a c = Ok v).
  { intros a Ha. destruct (Forall2_in_l _ _ _ _ HF Ha) as (a' & _ & v & Hv & _). exists v. now apply raw_value_mget. }
  assert (Hall' : forall a', In a' all' -> exists v, raw_value a' c = Ok v).
  { intros a' Ha'. destruct (Forall2_in_r _ _ _ _ HF Ha') as (a & _ & v & _ & Hv). eexists. apply raw_value_mget. exact Hv. }
  destruct (values_range_spec all c) as (_ & _ & S1). destruct (S1 Hn NE Hall) as (mn0 & mx0 & E0 & B0 & (amn & Imn & Vmn) & (amx & Imx & Vmx)).
  rewrite Hr in E0. injection E0 as <- <-.
  destruct (values_range_spec all' c) as (_ & _ & S2). destruct (S2 Hn NE' Hall') as (mn' & mx' & E' & B' & (bmn & Jmn & Wmn) & (bmx & Jmx & Wmx)).
  rewrite E'. f_equal.
  (* the partner of the old maximum holds mn, the partner of the old minimum holds mx *)
  destruct (Forall2_in_l _ _ _ _ HF Imx) as (pmx & Pmx & v1 & Hv1 & Hv1').
  apply raw_value_mget in Vmx. rewrite Vmx in Hv1. injection Hv1 as <-.
  destruct (Forall2_in_l _ _ _ _ HF Imn) as (pmn & Pmn & v2 & Hv2 & Hv2').
  apply raw_value_mget in Vmn. rewrite Vmn in Hv2. injection Hv2 as <-.
  apply raw_value_mget in Hv1', Hv2'.
  destruct (B' _ _ Pmx Hv1') as [L1 L2]. destruct (B' _ _ Pmn Hv2') as [L3 L4].
  (* the new extremes are mirrored old values *)
  destruct (Forall2_in_r _ _ _ _ HF Jmn) as (qmn & Qmn & v3 & Hv3 & Hv3').
  apply raw_value_mget in Wmn. rewrite Wmn in Hv3'. injection Hv3' as Emn.
  destruct (Forall2_in_r _ _ _ _ HF Jmx) as (qmx & Qmx & v4 & Hv4 & Hv4').
  apply raw_value_mget in Wmx. rewrite Wmx in Hv4'. injection Hv4' as Emx.
  apply raw_value_mget in Hv3, Hv4.
  destruct (B0 _ _ Qmn Hv3) as [K1 K2]. destruct (B0 _ _ Qmx Hv4) as [K3 K4].
  change (@eq Qc mn' (mx + mn - v3)) in Emn. change (@eq Qc mx' (mx + mn - v4)) in Emx.
  assert (A1 : mn' = mn) by (apply Qcle_antisym; qcq; lra).
  assert (A2 : mx' = mx) by (apply Qcle_antisym; qcq; lra).
  now rewrite A1, A2.
Qed.

Lemma reverse_full_ranges_kept (cs : list (@crit NumQc)) s st rep :
  reverse_full cs s = Ok (st, rep) -> NoDup (map a_id (all_alts s)) -> NoDup (map c_id cs) ->
  forall c, In c cs -> values_range (all_alts st) c = values_range (all_alts s) c.
Proof.
  intros H NDa NDc c Hc.
  apply reverse_full_core in H as (its & new_all & H1 & H2 & H3 & H4 & _); [|exact NDa].
  destruct (c_range c) as [rg|] eqn:Er; [unfold values_range; now rewrite Er|].
  pose proof (ranges_of_spec _ _ _ H1) as [Hfst Hr].
  assert (NDi : NoDup (item_ids its)) by (rewrite (ranges_of_ids _ _ _ H1); exact NDc).
  rewrite <- Hfst in Hc. apply in_map_iff in Hc as ([c' [mn mx]] & E & I). cbn [fst] in E. subst c'.
  rewrite (Hr _ _ I). apply (mirror_range c mn mx (all_alts s)); [exact Er| |now apply Hr].
  unfold all_alts. apply Forall2_app; (eapply Forall2_impl_in; [|eassumption]); intros a a' _ _ Ha;
    eapply mirrored_pair; eassumption.
Qed.

(** A3. For a selected criterion (in particular one without a declared range) the range over all
    alternatives after the reversal is the range before. No alternative is needed: with no
    alternative both ranges are (0,0). *)
Theorem range_preserved e (cur : @state NumQc) p st items :
  apply_reversal e cur p = Ok (st, RReversal items) ->
  NoDup (map a_id (all_alts cur)) -> NoDup (map c_id (st_crits cur)) ->
  forall c mn mx vals, In (c, (mn, mx), vals) items ->
    values_range (all_alts st) c = Ok (mn, mx) /\ values_range (all_alts cur) c = Ok (mn, mx).
Proof.
  rewrite apply_reversal_selected. intros H NDa NDc. apply bind_ok in H as (cs & Hs & H).
  destruct (selected_nodup _ _ _ _ Hs NDc) as (NDs & _ & _).
  intros c mn mx vals I. destruct (reverse_full_value cs cur st items H NDa NDs c mn mx vals I) as (Hc & A & _).
  split; [|exact A]. rewrite <- A. eapply reverse_full_ranges_kept; eassumption.
Qed.

(** *** A4: mirroring twice restores every value *)
Lemma mapM_ext_in {A B} (f g : A -> res B) : forall l, (forall x, In x l -> f x = g x) -> mapM f l = mapM g l.
Proof.
  induction l as [|x r IH]; intros H; cbn [mapM]; [reflexivity|].
  rewrite (H x (or_introl eq_refl)), IH; [reflexivity|]. intros y Hy. apply H. now right.
Qed.

Lemma Forall2_compose {A B C} (R : A -> B -> Prop) (S : B -> C -> Prop) (T : A -> C -> Prop) :
  (forall x y z, R x y -> S y z -> T x z) ->
  forall l1 l2 l3, Forall2 R l1 l2 -> Forall2 S l2 l3 -> Forall2 T l1 l3.
Proof.
  intros HT l1 l2 l3 H. revert l3. induction H as [|x y l1 l2 Hxy H IH]; intros l3 H3; inversion H3; subst; constructor.
  - eapply HT; eassumption.
  - now apply IH.
Qed.

Definition same_values (a a2 : @alt NumQc) : Prop :=
  a_id a2 = a_id a /\ forall k, mget k (a_vals a2) = mget k (a_vals a).

Lemma reverse_with_full {N : Num} cs s st : reverse_with cs s = Ok st -> exists rep, reverse_full cs s = Ok (st, rep).
Proof.
  unfold reverse_with. destruct (reverse_full cs s) as [[st' rep]|]; cbn [bind fst]; [|discriminate].
  intros H. injection H as <-. eauto.
Qed.

Lemma mirrored_twice its (a a1 a2 : @alt NumQc) :
  NoDup (item_ids its) -> mirrored_by its a a1 -> mirrored_by its a1 a2 -> same_values a a2.
Proof.
  intros ND H1 H2. split.
  - rewrite (rev_alt_id _ _ _ H2). eapply rev_alt_id. exact H1.
  - intros k. destruct (in_dec string_dec k (item_ids its)) as [I|NI].
    + unfold item_ids in I. apply in_map_iff in I as ([c [mn mx]] & E & I). cbn [fst] in E. subst k.
      destruct (mirrored_pair _ _ _ _ _ _ ND I H1) as (v & Hv & Hv1).
      destruct (mirrored_pair _ _ _ _ _ _ ND I H2) as (w & Hw & Hw2).
      rewrite Hv1 in Hw. injection Hw as <-. rewrite Hw2, Hv.
      assert (E : mx + mn - (mx + mn - v) = v) by ring. now rewrite E.
    + rewrite (rev_alt_other _ _ _ _ H2 NI). now apply (rev_alt_other _ _ _ _ H1).
Qed.

(** A4. Applying the rewrite of the same criteria twice restores all data: criteria and parameters
    (Leibniz), ids, and every value of every alternative. *)
Theorem reversal_involutive (cs : list (@crit NumQc)) s s1 s2 :
  NoDup (map a_id (all_alts s)) -> NoDup (map c_id cs) ->
  reverse_with cs s = Ok s1 -> reverse_with cs s1 = Ok s2 ->
  st_crits s2 = st_crits s /\ st_params s2 = st_params s /\
  Forall2 same_values (st_cons s) (st_cons s2) /\ Forall2 same_values (st_notcons s) (st_notcons s2).
Proof.
  intros NDa NDc H1 H2.
  apply reverse_with_full in H1 as (rep1 & H1). apply reverse_with_full in H2 as (rep2 & H2).
  pose proof (reverse_full_ranges_kept _ _ _ _ H1 NDa NDc) as Hkept.
  destruct (reverse_full_inv _ _ _ _ H1) as (i1 & n1 & _ & _ & U1 & U2 & _).
  assert (NDa1 : NoDup (map a_id (all_alts s1))).
  { unfold all_alts in *. rewrite map_app, (update_alts_ids _ _ _ U1), (update_alts_ids _ _ _ U2), <- map_app. exact NDa. }
  apply reverse_full_core in H1 as (its & new1 & G1 & _ & F1c & F1n & C1 & P1 & _); [|exact NDa].
  apply reverse_full_core in H2 as (its2 & new2 & G2 & _ & F2c & F2n & C2 & P2 & _); [|exact NDa1].
  assert (its2 = its).
  { unfold ranges_of in G1, G2. rewrite (mapM_ext_in _ (fun c => do r <- values_range (all_alts s) c; Ok (c, r))) in G2.
    - congruence.
    - intros c Hc. cbv beta. now rewrite Hkept. }
  subst its2.
  assert (NDi : NoDup (item_ids its)) by (rewrite (ranges_of_ids _ _ _ G1); exact NDc).
  split; [congruence|]. split; [congruence|].
  split; eapply Forall2_compose; try eassumption; intros x y z; now apply mirrored_twice.
Qed.

(** ** 4. Reflexivity of the comparison functions of the checkers *)
Section SameRefl.
  Context {N : Num} {L : OrdLaws N}.

  Lemma option_eqb_refl {A} (f : A -> A -> bool) : (forall x, f x x = true) -> forall o, option_eqb f o o = true.
  Proof. intros Hf [x|]; cbn [option_eqb]; auto. Qed.
  Lemma ctype_eqb_refl (t : ctype) : ctype_eqb t t = true.
  Proof. destruct t; reflexivity. Qed.
  Lemma crit_same_refl (c : crit) : crit_same c c = true.
  Proof.
    unfold crit_same, range_same. rewrite String.eqb_refl, ctype_eqb_refl. cbn [andb].
    apply option_eqb_refl. intros x. now rewrite !same_refl.
  Qed.
  Lemma crits_same_refl (l : list crit) : list_eqb crit_same l l = true.
  Proof. apply list_eqb_refl_gen, crit_same_refl. Qed.
  Lemma smap_same_refl' (t : smap num) : smap_same t t = true.
  Proof. unfold smap_same. apply list_eqb_refl_gen. intros x. now rewrite String.eqb_refl, same_refl. Qed.
  Lemma alt_same_refl (a : alt) : alt_same a a = true.
  Proof. unfold alt_same. now rewrite String.eqb_refl, smap_same_refl'. Qed.
  Lemma wcrit_same_refl (x : wcrit) : wcrit_same x x = true.
  Proof. unfold wcrit_same. now rewrite crit_same_refl, same_refl. Qed.
  Lemma linfun_same_refl (f : linfun) : linfun_same f f = true.
  Proof. unfold linfun_same. now rewrite !same_refl. Qed.
  Lemma ecrit_same_refl (x : ecrit) : ecrit_same x x = true.
  Proof. unfold ecrit_same. now rewrite same_refl, !linfun_same_refl. Qed.
  Lemma lparams_same_refl (x : lparams) : lparams_same x x = true.
  Proof.
    unfold lparams_same. rewrite !same_refl. cbn [andb]. apply list_eqb_refl_gen, smap_same_refl'.
  Qed.
  Lemma params_same_refl (p : mparams) : params_same p p = true.
  Proof.
    destruct p; cbn [params_same].
    - apply list_eqb_refl_gen, wcrit_same_refl.
    - apply list_eqb_refl_gen, wcrit_same_refl.
    - now rewrite smap_same_refl', crits_same_refl.
    - rewrite linfun_same_refl, andb_true_r. apply list_eqb_refl_gen. intros x.
      now rewrite String.eqb_refl, ecrit_same_refl.
    - now rewrite smap_same_refl', !String.eqb_refl, Z.eqb_refl, Bool.eqb_reflx.
    - now rewrite smap_same_refl', lparams_same_refl, !String.eqb_refl, Z.eqb_refl, Bool.eqb_reflx.
    - now rewrite lparams_same_refl, !String.eqb_refl, Z.eqb_refl, Bool.eqb_reflx.
  Qed.

  Lemma find_crit_nodup (l : list crit) c :
    NoDup (map c_id l) -> In c l -> find (fun x => String.eqb (c_id x) (c_id c)) l = Some c.
  Proof.
    induction l as [|x l IH]; intros ND I; [destruct I|].
    cbn [map] in ND. inversion ND as [|? ? NI ND']; subst. cbn [find]. destruct I as [->|I].
    - now rewrite String.eqb_refl.
    - destruct (String.eqb (c_id x) (c_id c)) eqn:E; [|now apply IH].
      exfalso. apply String.eqb_eq in E. apply NI. rewrite E. now apply in_map.
  Qed.

  Lemma has_crit_in (l : list crit) c : In c l -> has_crit (c_id c) l = true.
  Proof. intros I. unfold has_crit. apply existsb_exists. exists c. split; [exact I|apply String.eqb_refl]. Qed.

  Lemma same_split_ids (a b : state) :
    map a_id (st_cons b) = map a_id (st_cons a) -> map a_id (st_notcons b) = map a_id (st_notcons a) ->
    same_split a b = true.
  Proof. intros H1 H2. unfold same_split. rewrite H1, H2, !RankFacts.list_eqb_refl. reflexivity. Qed.
End SameRefl.

(** ** 5. A5: the model passes the checker *)
Theorem reversal_passes_checker e (cur : @state NumQc) p st rep :
  NoDup (map a_id (all_alts cur)) -> NoDup (map c_id (st_crits cur)) ->
  apply_reversal e cur p = Ok (st, rep) -> C16_ok p cur st rep = true.
Proof.
  intros NDa NDc H. rewrite apply_reversal_selected in H. apply bind_ok in H as (cs & Hs & H).
  destruct (selected_nodup _ _ _ _ Hs NDc) as (NDs & Hincl & Hlen).
  pose proof (reverse_full_core _ _ _ _ H NDa) as (its & new_all & G1 & F & Fc & Fn & C & P & ->).
  assert (F' : Forall2 (mirrored_by its) (all_alts cur) (all_alts st)) by (unfold all_alts; now apply Forall2_app).
  pose proof (ranges_of_spec _ _ _ G1) as [Hfst Hr].
  assert (NDi : NoDup (item_ids its)) by (rewrite (ranges_of_ids _ _ _ G1); exact NDs).
  assert (Hid : forall a a', mirrored_by its a a' -> a_id a = a_id a').
  { intros a a' Ha. symmetry. eapply rev_alt_id. exact Ha. }
  assert (NDn : NoDup (map a_id new_all)).
  { rewrite <- (Forall2_map_eq a_id a_id _ _ _ Hid F). exact NDa. }
  unfold C16_ok. repeat (apply andb_true_iff; split).
  - apply Z.eqb_eq. unfold rev_report. rewrite map_length, <- (map_length fst), Hfst. exact Hlen.
  - rewrite C. apply crits_same_refl.
  - rewrite P. apply params_same_refl.
  - apply nodup_str_NoDup. rewrite rev_report_ids. exact NDi.
  - apply forallb_forall. intros [[c [mn mx]] vals] I. apply rev_report_in_inv in I as [I ->].
    assert (Hc : In c (st_crits cur)).
    { apply Hincl. rewrite <- Hfst. apply in_map_iff. exists (c, (mn, mx)). split; [reflexivity|exact I]. }
    repeat (apply andb_true_iff; split).
    + now apply has_crit_in.
    + rewrite (find_crit_nodup _ _ NDc Hc), (Hr _ _ I). cbn [fst snd]. now rewrite !same_refl.
    + apply list_eqb_Forall2. eapply Forall2_impl_in; [|exact F']. intros a b Ia Ib Hab. cbv beta.
      destruct (mirrored_pair _ _ _ _ _ _ NDi I Hab) as (v & Hv & Hv').
      apply andb_true_iff. split.
      * unfold val_of. rewrite Hv, Hv'. unfold near. apply approx8_refl.
      * destruct (Forall2_in_l _ _ _ _ F Ia) as (b' & Ib' & Hab').
        assert (b' = b) by (unfold mirrored_by in *; congruence). subst b'.
        unfold rev_report_vals. rewrite rev_report_in; [|exact NDn|exact Ib'|eauto].
        apply option_eqb_refl. apply same_refl.
    + apply Nat.eqb_eq. unfold rev_report_vals. rewrite rev_report_length.
      * cbn [List.length Nat.add]. symmetry. eapply Forall2_len. exact F.
      * exact NDn.
      * intros a _ [].
      * intros b Ib. destruct (Forall2_in_r _ _ _ _ F Ib) as (a & _ & Hab).
        destruct (mirrored_pair _ _ _ _ _ _ NDi I Hab) as (v & _ & Hv'). eauto.
  - unfold values_kept. apply list_eqb_Forall2. eapply Forall2_impl_in; [|exact F']. intros a b _ _ Hab. cbv beta.
    apply forallb_forall. intros c0 Hc0. apply filter_In in Hc0 as [_ Hc0]. apply negb_true_iff in Hc0.
    assert (NI : ~ In (c_id c0) (item_ids its)).
    { intros I. rewrite <- (rev_report_ids its new_all) in I. apply in_map_iff in I as (it & E & I).
      assert (X : existsb (fun it => String.eqb (c_id (fst (fst it))) (c_id c0)) (rev_report its new_all) = true).
      { apply existsb_exists. exists it. split; [exact I|]. rewrite E. apply String.eqb_refl. }
      rewrite X in Hc0. discriminate. }
    rewrite (rev_alt_other _ _ _ _ Hab NI). apply option_eqb_refl. apply same_refl.
  - rewrite <- (Forall2_map_eq a_id a_id _ _ _ Hid Fc). apply RankFacts.list_eqb_refl.
  - rewrite <- (Forall2_map_eq a_id a_id _ _ _ Hid Fn). apply RankFacts.list_eqb_refl.
Qed.

(** ** 6. Executed examples (instance [NumQc]): the theorems are not vacuous, the hypotheses are needed *)
Definition xq (a : Z) (b : positive) : Qc := Q2Qc (a # b).
Definition xfp : @fparams NumQc := {| fp_name := ""; fp_a := xq 0 1; fp_b := xq 0 1; fp_alpha := xq 0 1; fp_mult := xq 0 1 |}.
Definition xprops (ordering : string) (ratio scaling : Qc) (nonneg : bool) (fv : Qc) : @bprops NumQc :=
  {| bp_ordering := ordering; bp_ratio := ratio; bp_min := 0; bp_max := 10; bp_seed := 7;
     bp_scaling := scaling; bp_nonneg := nonneg; bp_ref_type := ""; bp_ref_importance := xq 0 1; bp_ref_seed := 0;
     bp_new_scaling := xq 1 1; bp_mix_ratio := xq 1 2;
     bp_fat_function := "const"; bp_fat_value := fv; bp_fat_alpha := xq 0 1; bp_fat_mult := xq 0 1; bp_fat_query := 0;
     bp_anch_alts := []; bp_anch_loss := xfp; bp_anch_gain := xfp; bp_anch_ref := ""; bp_anch_applier := "";
     bp_anch_not_considered := false |}.
Definition xg : @crit NumQc := {| c_id := "g"; c_type := TGain; c_range := None |}.
Definition xk : @crit NumQc := {| c_id := "k"; c_type := TCost; c_range := Some (xq 0 1, xq 400 1) |}.
Definition xalt (id : string) (g k : Z) : @alt NumQc := {| a_id := id; a_vals := [("g", xq g 1); ("k", xq k 1)] |}.
(* weights: g 1/4 (weakest), k 3/4 *)
Definition xstate (cons notcons : list (@alt NumQc)) (cs : list (@crit NumQc)) : @state NumQc :=
  {| st_notcons := notcons; st_cons := cons; st_crits := cs;
     st_params := PMajority [("g", xq 1 4); ("k", xq 3 4)] "" 0 false "" |}.
Definition xenv (l : list Qc) : @env NumQc := {| env_streams := [(7%Z, l)]; env_exp := [] |}.
Definition show_alts (l : list (@alt NumQc)) :=
  map (fun a => (a_id a, map (fun kv : string * Qc => (fst kv, this (snd kv))) (a_vals a))) l.
Definition show_st (r : res (@state NumQc * @report NumQc)) :=
  match r with Ok (s, _) => Ok (show_alts (st_cons s), show_alts (st_notcons s)) | Err e => Err e end.
Definition check16 e p s :=
  match apply_reversal e s p with Ok (st, rep) => Some (C16_ok p s st rep) | Err _ => None end.
Definition xs1 := xstate [xalt "a" 10 100; xalt "b" 20 300] [xalt "c" 14 150] [xg; xk].

(* ratio 1/2 of two criteria: the weakest one (g, observed range [10,20]) is mirrored *)
Example ex_reversal_half :
  let p := xprops "weakest" (xq 1 2) (xq 0 1) false (xq 0 1) in
  (show_st (apply_reversal (xenv []) xs1 p), check16 (xenv []) p xs1)
  = (Ok ([("a", [("g", 20 # 1); ("k", 100 # 1)]); ("b", [("g", 10 # 1); ("k", 300 # 1)])],
         [("c", [("g", 16 # 1); ("k", 150 # 1)])]), Some true)%Q.
Proof. vm_compute. reflexivity. Qed.

(* ratio 1: both are mirrored, k inside its declared range [0,400] *)
Example ex_reversal_all :
  let p := xprops "weakest" (xq 1 1) (xq 0 1) false (xq 0 1) in
  (show_st (apply_reversal (xenv []) xs1 p), check16 (xenv []) p xs1)
  = (Ok ([("a", [("g", 20 # 1); ("k", 300 # 1)]); ("b", [("g", 10 # 1); ("k", 100 # 1)])],
         [("c", [("g", 16 # 1); ("k", 250 # 1)])]), Some true)%Q.
Proof. vm_compute. reflexivity. Qed.

(* [NoDup (map a_id (all_alts cur))] is needed: with the id "a" used twice both lists receive the
   rewritten first alternative "a" (30 is the mirror of 10; the not-considered 30 should become 10) *)
Example cex_duplicate_alt_ids :
  let p := xprops "weakest" (xq 1 2) (xq 0 1) false (xq 0 1) in
  let s := xstate [xalt "a" 10 100] [xalt "a" 30 300] [xg; xk] in
  (show_st (apply_reversal (xenv []) s p), check16 (xenv []) p s)
  = (Ok ([("a", [("g", 30 # 1); ("k", 100 # 1)])], [("a", [("g", 30 # 1); ("k", 100 # 1)])]), Some false)%Q.
Proof. vm_compute. reflexivity. Qed.

(* [NoDup (map c_id (st_crits cur))] is needed: a criterion listed twice is mirrored twice, i.e. not at all *)
Example cex_duplicate_crit_ids :
  let p := xprops "weakest" (xq 1 1) (xq 0 1) false (xq 0 1) in
  let s := xstate [xalt "a" 10 100] [xalt "b" 30 300] [xg; xg] in
  (show_st (apply_reversal (xenv []) s p), check16 (xenv []) p s)
  = (Ok ([("a", [("g", 10 # 1); ("k", 100 # 1)])], [("b", [("g", 30 # 1); ("k", 300 # 1)])]), Some false)%Q.
Proof. vm_compute. reflexivity. Qed.

Print Assumptions order_criteria_perm.
Print Assumptions apply_reversal_factor.
Print Assumptions reversed_value.
Print Assumptions reversal_frame.
Print Assumptions range_preserved.
Print Assumptions reversal_involutive.
Print Assumptions reversal_passes_checker.
