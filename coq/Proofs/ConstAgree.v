(** * The obligation over the regenerated inventory of constants (Gen/Consts.v): the constants of the Go source are the model's.
    Definitions and classification: Proofs/ConstSites.v. *)
From RDM Require Import Gen.Consts Proofs.ConstSites.

Lemma consts_agree_now : consts_agree = true.
Proof. vm_compute. reflexivity. Qed.
