(** * C11, declaratively: the majority heuristic is a sequential pairwise tournament.

    Property text (C11): "The majority heuristic compares the running winner with the next alternative of
    the search order (current choice first), scoring each side with the total weight of the criteria on
    which it is strictly better, and ranks alternatives in reverse order of dropping out, the undefeated
    one first. Every other entry names in [comparedWith] the opponent it last met, reports exactly the two
    scores of that comparison, did not score higher than that opponent, and is ranked below it or - when
    draws are allowed - in the same tie group; the configured draw policy decides equal scores."

    Contents
    - A. [tournament]: the specification as an inductive relation over lists (section [Spec]).
    - B. [majority_is_tournament]: every successful run of the executable model [majority_evaluate] is a
         tournament run over the model's search order, and its result is the ranking of that tournament.
         [ranking_layout], [prepare_ranking_links]: what that ranking looks like, entry by entry.
    - C. [C11_ok_sound]: a passed check [C11_ok st obs = true] gives the per-entry clauses of the property
         ([C11_entries_spec], written with [nth_error], [In], [exists], [<]).
    - E. consequences of the relation that tie A to the text: [tournament_opponent_later] (every dropped
         alternative's opponent dropped out later or is the final winner), [tournament_records_sound]
         (on exact rationals: the recorded scores are the duel scores seen from the loser's side and the
         loser did not score higher), [tournament_perm], and [majority_run_clauses] (B + E for the model).
    - D. examples on [NumQc]: 4 alternatives, one draw, policies allow / newer / random. *)
From Coq Require Import ZArith QArith Qcanon Bool List String Permutation Lia.
From RDM Require Import Base.Num Base.NumQc Base.Util Model.Data Model.Utility Model.Heuristics
  Check.C04 Check.C11 Proofs.WfFacts Proofs.MajorityFacts.
Import ListNotations.
Local Open Scope string_scope.
Local Open Scope list_scope.

(** ** A. The specification *)
Section Spec.
  Context {N : Num}.

  (** The four draw policies and their names in the request ("" = default = allow). *)
  Inductive draw_policy := DAllow | DCurrent | DNewer | DRandom.

  Inductive policy_named : string -> draw_policy -> Prop :=
  | PN_default : policy_named "" DAllow
  | PN_allow : policy_named "allow" DAllow
  | PN_current : policy_named "current" DCurrent
  | PN_newer : policy_named "newer" DNewer
  | PN_random : policy_named "random" DRandom.

  (** The two scores of a comparison: [sw] of the running winner (the "leader"), [sa] of the newcomer.
      The scores themselves are [compare_alts cw leader newcomer = Ok (sw, sa)]: the total weight of the
      criteria on which a side's signed value is larger by more than 1e-6 (Model/Heuristics.v).
      "equal scores" = equal within 1e-6. *)
  Definition scores_level (sw sa : num) : Prop := floats_are_equal sw sa c_eps6 = true.
  Definition leader_ahead (sw sa : num) : Prop := floats_are_equal sw sa c_eps6 = false /\ nltb sa sw = true.
  (* on an ordered carrier "not sa < sw and not level" is "sw < sa", see [newcomer_ahead_lt] *)
  Definition newcomer_ahead (sw sa : num) : Prop := floats_are_equal sw sa c_eps6 = false /\ nltb sa sw = false.

  (** What a comparison can lead to. *)
  Inductive outcome :=
  | LeaderStays           (* the newcomer drops out *)
  | NewcomerTakesOver     (* the leader drops out, together with everybody level with it *)
  | BothStay.             (* draws allowed: the newcomer joins the leader's tie group *)

  (** [verdict policy sw sa g o g']: with scores [sw]/[sa] and the seeded stream [g], the outcome is [o]
      and the stream continues with [g'] (only the random policy consumes a number). *)
  Inductive verdict (policy : draw_policy) (sw sa : num) : rng -> outcome -> rng -> Prop :=
  | V_leader : forall g, leader_ahead sw sa -> verdict policy sw sa g LeaderStays g
  | V_newcomer : forall g, newcomer_ahead sw sa -> verdict policy sw sa g NewcomerTakesOver g
  | V_draw_allow : forall g, scores_level sw sa -> policy = DAllow -> verdict policy sw sa g BothStay g
  | V_draw_current : forall g, scores_level sw sa -> policy = DCurrent -> verdict policy sw sa g LeaderStays g
  | V_draw_newer : forall g, scores_level sw sa -> policy = DNewer -> verdict policy sw sa g NewcomerTakesOver g
  | V_draw_random_low : forall d g', scores_level sw sa -> policy = DRandom -> nltb d c_half = true ->
      verdict policy sw sa (d :: g') LeaderStays g'
  | V_draw_random_high : forall d g', scores_level sw sa -> policy = DRandom -> nltb d c_half = false ->
      verdict policy sw sa (d :: g') NewcomerTakesOver g'.

  (** What is written down about an alternative when it loses (or draws) a comparison. *)
  Record dropped := { d_alt : alt;          (* the alternative *)
                      d_score : num;        (* its score in that comparison *)
                      d_opp : alt;          (* the opponent it met *)
                      d_opp_score : num }.  (* the opponent's score *)

  (* the response entry of such an alternative: value, comparedWith, comparedValue *)
  Definition d_eval (d : dropped) : evaluation := EMajority (d_score d) (a_id (d_opp d)) (d_opp_score d).
  Definition d_res (d : dropped) : mres := (d_alt d, d_eval d).

  (* The value shown by an alternative that has just taken over: its own score; after a draw decided for
     the newcomer the model shows the previous leader's score (the two are level). The text of the property
     says nothing about the value of the undefeated alternative; it is tracked to make B exact. *)
  Definition takeover_shows (sw sa : num) : num := if floats_are_equal sw sa c_eps6 then sw else sa.

  (** [tournament cw policy g w v lv todo out W V LV OUT]
      - [w]    the running winner (leader), [v] the score it showed in its last comparison (0 at the start),
      - [lv]   the alternatives that are level with the leader (its tie group; only with policy allow),
      - [todo] the alternatives still to be met, in search order,
      - [out]  the groups that have dropped out so far, oldest first,
      and [W V LV OUT] are the same data when nobody is left to be met. *)
  Inductive tournament (cw : list wcrit) (policy : draw_policy) :
    rng -> alt -> num -> list dropped -> list alt -> list (list dropped) ->
    alt -> num -> list dropped -> list (list dropped) -> Prop :=
  | T_end : forall g w v lv out,
      tournament cw policy g w v lv [] out w v lv out
  | T_leader_stays : forall g g' w v lv a todo out sw sa W V LV OUT,
      compare_alts cw w a = Ok (sw, sa) ->
      verdict policy sw sa g LeaderStays g' ->
      tournament cw policy g' w sw lv todo
                 (out ++ [[ {| d_alt := a; d_score := sa; d_opp := w; d_opp_score := sw |} ]]) W V LV OUT ->
      tournament cw policy g w v lv (a :: todo) out W V LV OUT
  | T_both_stay : forall g g' w v lv a todo out sw sa W V LV OUT,
      compare_alts cw w a = Ok (sw, sa) ->
      verdict policy sw sa g BothStay g' ->
      tournament cw policy g' w sw
                 (lv ++ [ {| d_alt := a; d_score := sa; d_opp := w; d_opp_score := sw |} ]) todo out W V LV OUT ->
      tournament cw policy g w v lv (a :: todo) out W V LV OUT
  | T_takes_over : forall g g' w v lv a todo out sw sa W V LV OUT,
      compare_alts cw w a = Ok (sw, sa) ->
      verdict policy sw sa g NewcomerTakesOver g' ->
      tournament cw policy g' a (takeover_shows sw sa) [] todo
                 (out ++ [lv ++ [ {| d_alt := w; d_score := sw; d_opp := a; d_opp_score := sa |} ]]) W V LV OUT ->
      tournament cw policy g w v lv (a :: todo) out W V LV OUT.

  (** The groups of the final ranking, worst first: the dropped-out groups in the order of dropping out,
      then the group of the undefeated alternative (those level with it, then itself; the undefeated one
      has no opponent: comparedWith = "", comparedValue = 0). *)
  Definition final_groups (W : alt) (V : num) (LV : list dropped) (OUT : list (list dropped)) : list (list mres) :=
    map (map d_res) OUT ++ [map d_res LV ++ [(W, EMajority V "" nzero)]].

  Definition ids (g : list mres) : list string := map (fun x => a_id (fst x)) g.
End Spec.

(** ** B. The executable model runs a tournament *)
Section ModelIsTournament.
  Context {N : Num}.

  Definition policy_string (p : draw_policy) : string :=
    match p with DAllow => draw_allow | DCurrent => draw_current | DNewer => draw_newer | DRandom => draw_random end.

  Lemma valid_policy_named drawp :
    valid_policy (if String.eqb drawp "" then draw_allow else drawp) = true ->
    exists pol, policy_named drawp pol /\ (if String.eqb drawp "" then draw_allow else drawp) = policy_string pol.
  Proof.
    destruct (String.eqb drawp "") eqn:E0.
    - intros _. apply String.eqb_eq in E0. subst drawp. exists DAllow. split; [constructor|reflexivity].
    - unfold valid_policy. rewrite !orb_true_iff. intros [[[H|H]|H]|H]; apply String.eqb_eq in H; subst drawp.
      + exists DAllow. split; [constructor|reflexivity].
      + exists DCurrent. split; [constructor|reflexivity].
      + exists DNewer. split; [constructor|reflexivity].
      + exists DRandom. split; [constructor|reflexivity].
  Qed.

  (* the effect of an outcome on the model's loop state *)
  Definition apply_outcome (o : outcome) (s1 s2 : num) (st : mstate) (a : alt) : mstate :=
    match o with
    | LeaderStays => resolve RCurrent s1 s2 st a
    | BothStay => resolve RAllow s1 s2 st a
    | NewcomerTakesOver => set_eval (resolve RNewer s1 s2 st a) (takeover_shows s1 s2)
    end.

  Lemma take_better_verdict pol s1 s2 st a g st' g' :
    take_better (policy_string pol) s1 s2 st a g = Ok (st', g') ->
    exists o, verdict pol s1 s2 g o g' /\ st' = apply_outcome o s1 s2 st a.
  Proof.
    unfold take_better, apply_outcome, takeover_shows.
    destruct (floats_are_equal s1 s2 c_eps6) eqn:E.
    - destruct pol; cbn [policy_string].
      + change (String.eqb draw_allow draw_allow) with true. cbv iota.
        intros H; inversion H; subst. exists BothStay. split; [now apply V_draw_allow|reflexivity].
      + change (String.eqb draw_current draw_allow) with false.
        change (String.eqb draw_current draw_current) with true. cbv iota.
        intros H; inversion H; subst. exists LeaderStays. split; [now apply V_draw_current|reflexivity].
      + change (String.eqb draw_newer draw_allow) with false.
        change (String.eqb draw_newer draw_current) with false.
        change (String.eqb draw_newer draw_newer) with true. cbv iota.
        intros H; inversion H; subst. exists NewcomerTakesOver. split; [now apply V_draw_newer|reflexivity].
      + change (String.eqb draw_random draw_allow) with false.
        change (String.eqb draw_random draw_current) with false.
        change (String.eqb draw_random draw_newer) with false. cbv iota.
        destruct g as [|d gr]; cbn [draw bind fst snd]; [discriminate|].
        destruct (nltb d c_half) eqn:Hd; intros H; inversion H; subst.
        * exists LeaderStays. split; [now apply V_draw_random_low|reflexivity].
        * exists NewcomerTakesOver. split; [now apply V_draw_random_high|reflexivity].
    - destruct (nltb s2 s1) eqn:Lt; intros H; inversion H; subst.
      + exists LeaderStays. split; [apply V_leader; split; assumption|reflexivity].
      + exists NewcomerTakesOver. split; [apply V_newcomer; split; assumption|reflexivity].
  Qed.

  (* one turn of the model's loop *)
  Definition tstep (cw : list wcrit) (policy : string) (acc : res (mstate * rng)) (another : alt)
    : res (mstate * rng) :=
    do sg <- acc;
    do sc <- compare_alts cw (ms_current (fst sg)) another;
    take_better policy (fst sc) (snd sc) (fst sg) another (snd sg).

  Lemma tfold_err cw policy : forall l e, fold_left (tstep cw policy) l (Err e) = Err e.
  Proof. induction l as [|c l IH]; intros e; cbn [fold_left]; [reflexivity|]. apply IH. Qed.

  (* the model's loop state holds the dropped-out groups [out] and the tie group [lv] *)
  Definition repr (st : mstate) (out : list (list dropped)) (lv : list dropped) : Prop :=
    ms_worse st = map (map d_res) out /\ ms_same st = map d_res lv.

  Lemma tfold_tournament cw pol : forall todo st g st' g' out lv,
    repr st out lv ->
    fold_left (tstep cw (policy_string pol)) todo (Ok (st, g)) = Ok (st', g') ->
    exists OUT LV, repr st' OUT LV /\
      tournament cw pol g (ms_current st) (ms_eval st) lv todo out (ms_current st') (ms_eval st') LV OUT.
  Proof.
    induction todo as [|a todo IH]; intros st g st' g' out lv [Hw Hs] H; cbn [fold_left] in H.
    - inversion H; subst. exists out, lv. split; [split; assumption|constructor].
    - destruct (tstep cw (policy_string pol) (Ok (st, g)) a) as [[st1 g1]|er] eqn:E;
        [|rewrite tfold_err in H; discriminate].
      unfold tstep in E. cbn [bind fst snd] in E.
      destruct (compare_alts cw (ms_current st) a) as [[s1 s2]|er] eqn:C; cbn [bind fst snd] in E;
        [|discriminate].
      apply take_better_verdict in E as (o & Hv & ->).
      destruct o; cbn [apply_outcome] in H.
      + (* leader stays *)
        assert (R0 : repr (resolve RCurrent s1 s2 st a)
                       (out ++ [[ {| d_alt := a; d_score := s2; d_opp := ms_current st; d_opp_score := s1 |} ]])
                       lv).
        { split; cbn [resolve ms_worse ms_same]; [|exact Hs]. rewrite map_app, Hw. reflexivity. }
        destruct (IH _ _ _ _ _ _ R0 H) as (OUT & LV & R & T).
        exists OUT, LV. split; [exact R|].
        eapply T_leader_stays; [exact C|exact Hv|exact T].
      + (* newcomer takes over *)
        assert (R0 : repr (set_eval (resolve RNewer s1 s2 st a) (takeover_shows s1 s2))
                       (out ++ [lv ++ [ {| d_alt := ms_current st; d_score := s1; d_opp := a; d_opp_score := s2 |} ]])
                       []).
        { split; cbn [set_eval resolve ms_worse ms_same]; [|reflexivity].
          rewrite map_app, Hw, Hs. cbn [map]. rewrite map_app. reflexivity. }
        destruct (IH _ _ _ _ _ _ R0 H) as (OUT & LV & R & T).
        exists OUT, LV. split; [exact R|].
        eapply T_takes_over; [exact C|exact Hv|exact T].
      + (* both stay *)
        assert (R0 : repr (resolve RAllow s1 s2 st a) out
                       (lv ++ [ {| d_alt := a; d_score := s2; d_opp := ms_current st; d_opp_score := s1 |} ])).
        { split; cbn [resolve ms_worse ms_same]; [exact Hw|]. rewrite map_app, Hs. reflexivity. }
        destruct (IH _ _ _ _ _ _ R0 H) as (OUT & LV & R & T).
        exists OUT, LV. split; [exact R|].
        eapply T_both_stay; [exact C|exact Hv|exact T].
  Qed.

  (** *** The layout of the ranking (the model's [prepare_ranking], characterised entry by entry) *)

  (* alternatives and evaluations: the undefeated one first, then the dropped ones, last dropped first *)
  Lemma ranking_layout W V LV OUT :
    map strip (prepare_ranking (final_groups W V LV OUT)) =
    (W, EMajority V "" nzero) :: rev (map d_res (List.concat OUT ++ LV)).
  Proof.
    rewrite prepare_ranking_strip. unfold final_groups.
    rewrite concat_app. cbn [List.concat]. rewrite app_nil_r, <- concat_map, app_assoc, rev_app_distr.
    cbn [rev app]. rewrite map_app. reflexivity.
  Qed.

  (* links: the ids of the group that dropped out just before the entry's own group (i.e. the group ranked
     immediately below; none for the first group), then the other members of its own group *)
  Lemma prepare_groups_links : forall gs prev e,
    In e (prepare_groups prev gs) ->
    exists pre gr post b a,
      gs = pre ++ gr :: post /\ gr = b ++ strip e :: a /\
      e_links e = match pre with [] => prev | _ => ids (last pre []) end ++ ids b ++ ids a.
  Proof.
    induction gs as [|g0 gs IH]; intros prev e H; cbn [prepare_groups] in H; [destruct H|].
    apply in_app_or in H as [H|H].
    - apply group_entries_links in H as (b2 & a2 & E & Lk). cbn [app] in E.
      exists [], g0, gs, b2, a2. split; [reflexivity|]. split; [exact E|exact Lk].
    - apply IH in H as (pre & gr & post & b & a & E1 & E2 & Lk).
      exists (g0 :: pre), gr, post, b, a. split; [rewrite E1; reflexivity|]. split; [exact E2|].
      rewrite Lk. destruct pre as [|p pre]; reflexivity.
  Qed.

  Lemma prepare_ranking_links gs e :
    In e (prepare_ranking gs) ->
    exists pre gr post b a,
      gs = pre ++ gr :: post /\ gr = b ++ strip e :: a /\
      e_links e = ids (last pre []) ++ ids b ++ ids a.
  Proof.
    unfold prepare_ranking. intros H. apply in_rev in H.
    apply prepare_groups_links in H as (pre & gr & post & b & a & E1 & E2 & Lk).
    exists pre, gr, post, b, a. split; [exact E1|]. split; [exact E2|].
    rewrite Lk. destruct pre; reflexivity.
  Qed.

  (** *** Theorem B.
      No well-formedness hypothesis is needed beyond the shape of the parameters: the statement is about
      whatever alternatives the search order delivers. The links part quotes the model's ranking function
      [prepare_ranking] (conjunct 5); conjuncts 6 and 7 say what it produces: alternatives and evaluations
      in reverse order of dropping out, and for every entry the links of a sequential ranking with tie
      groups (the group ranked immediately below, then the other members of its own group). *)
  Theorem majority_is_tournament :
    forall (e : env) (s : state) (r : list entry) w cur seed rnd drawp,
      st_params s = PMajority w cur seed rnd drawp ->
      majority_evaluate e s = Ok r ->
      exists cw policy first others g1 W V LV OUT,
        zip_with_weights (st_crits s) w = Ok cw /\
        policy_named drawp policy /\
        (* the search order: current choice (or the first considered alternative) first *)
        search_order s cur rnd (new_rng e seed) = Ok (first, others, g1) /\
        tournament cw policy g1 first nzero [] others [] W V LV OUT /\
        r = prepare_ranking (final_groups W V LV OUT) /\
        map strip r = (W, EMajority V "" nzero) :: rev (map d_res (List.concat OUT ++ LV)) /\
        (forall x, In x r ->
           exists pre gr post b a,
             final_groups W V LV OUT = pre ++ gr :: post /\ gr = b ++ strip x :: a /\
             e_links x = ids (last pre []) ++ ids b ++ ids a).
  Proof.
    intros e s r w cur seed rnd drawp Hp H. unfold majority_evaluate in H. rewrite Hp in H.
    apply bind_ok in H as (cw & Hcw & H).
    apply bind_ok in H as ([[current considered] g1] & Hso & H).
    cbv zeta in H.
    remember (if String.eqb drawp "" then draw_allow else drawp) as policy eqn:Hpol.
    destruct (valid_policy policy) eqn:Hv; cbn [negb] in H; [|discriminate].
    rewrite Hpol in Hv. apply valid_policy_named in Hv as (pol & Hnamed & Hstr).
    rewrite <- Hpol in Hstr. clear Hpol. subst policy.
    apply bind_ok in H as ([st g2] & Hfold & H). cbn [fst] in H.
    inversion H as [Hr]; clear H.
    change (fold_left (tstep cw (policy_string pol)) considered
              (Ok ({| ms_worse := []; ms_same := []; ms_current := current; ms_eval := nzero |}, g1))
            = Ok (st, g2)) in Hfold.
    apply (tfold_tournament cw pol considered _ g1 st g2 [] []) in Hfold;
      [|split; reflexivity].
    destruct Hfold as (OUT & LV & [Rw Rs] & T). cbn [ms_current ms_eval] in T.
    exists cw, pol, current, considered, g1, (ms_current st), (ms_eval st), LV, OUT.
    assert (Er : prepare_ranking (ms_worse st ++ [ms_same st ++ [(ms_current st, EMajority (ms_eval st) "" nzero)]])
                 = prepare_ranking (final_groups (ms_current st) (ms_eval st) LV OUT)).
    { unfold final_groups. rewrite Rw, Rs. reflexivity. }
    rewrite Er.
    repeat split; try assumption.
    - apply ranking_layout.
    - intros x Hx. apply prepare_ranking_links. exact Hx.
  Qed.
End ModelIsTournament.

(** ** E. What the relation implies (ties the relation to the remaining clauses of the text) *)
Section Consequences.
  Context {N : Num}.

  (* in the sequence [F] of records (in order of dropping out) followed by the leader [c], every record's
     opponent comes later *)
  Definition opp_later (c : alt) (F : list dropped) : Prop :=
    forall F1 d F2, F = F1 ++ d :: F2 -> In (d_opp d) (map d_alt F2 ++ [c]).

  Lemma opp_later_insert c x F2 : forall F1,
    opp_later c (F1 ++ F2) -> In (d_opp x) (map d_alt F2 ++ [c]) -> opp_later c (F1 ++ x :: F2).
  Proof.
    induction F1 as [|y F1 IH]; intros H Hx G1 d G2 E.
    - cbn [app] in *. destruct G1 as [|z G1]; cbn [app] in E; injection E as E1 E2.
      + subst. exact Hx.
      + subst z. apply (H G1 d G2). exact E2.
    - cbn [app] in E. destruct G1 as [|z G1]; cbn [app] in E; injection E as E1 E2.
      + subst d G2. specialize (H [] y (F1 ++ F2) eq_refl).
        rewrite map_app in *. cbn [map]. rewrite !in_app_iff in *. cbn [In] in *. tauto.
      + subst z. apply (IH (fun A B C' E' => H (y :: A) B C' (f_equal (cons y) E')) Hx G1 d G2 E2).
  Qed.

  Lemma opp_later_newer c c' x : d_alt x = c -> d_opp x = c' -> forall F,
    opp_later c F -> opp_later c' (F ++ [x]).
  Proof.
    intros Hxa Hxo. induction F as [|y F IH]; intros H G1 d G2 E.
    - cbn [app] in E. destruct G1 as [|z G1]; cbn [app] in E; injection E as E1 E2.
      + subst d G2. cbn [map app]. left. symmetry. exact Hxo.
      + destruct G1; discriminate.
    - cbn [app] in E. destruct G1 as [|z G1]; cbn [app] in E; injection E as E1 E2.
      + subst d G2. specialize (H [] y F eq_refl).
        rewrite map_app. cbn [map]. rewrite Hxa. rewrite !in_app_iff in *. cbn [In] in *. tauto.
      + subst z. apply (IH (fun A B C' E' => H (y :: A) B C' (f_equal (cons y) E')) G1 d G2 E2).
  Qed.

  (** Every alternative that dropped out names an opponent that dropped out later (so it is ranked
      above it, or - for the members of a tie group that dropped together - in its own group), or the
      final winner. *)
  Theorem tournament_opponent_later cw policy g w v lv todo out W V LV OUT :
    tournament cw policy g w v lv todo out W V LV OUT ->
    opp_later w (List.concat out ++ lv) -> opp_later W (List.concat OUT ++ LV).
  Proof.
    induction 1 as [| g g' w v lv a todo out sw sa W V LV OUT C Hv T IH
                    | g g' w v lv a todo out sw sa W V LV OUT C Hv T IH
                    | g g' w v lv a todo out sw sa W V LV OUT C Hv T IH]; intros Hinv.
    - exact Hinv.
    - apply IH. rewrite concat_app. cbn [List.concat]. rewrite app_nil_r, <- app_assoc. cbn [app].
      apply opp_later_insert; [exact Hinv|]. cbn [d_opp]. apply in_or_app. right. now left.
    - apply IH. rewrite app_assoc.
      apply (opp_later_insert w _ [] (List.concat out ++ lv)); [rewrite app_nil_r; exact Hinv|].
      cbn [d_opp map app]. now left.
    - apply IH. rewrite concat_app. cbn [List.concat]. rewrite !app_nil_r, app_assoc.
      apply (opp_later_newer w a); [reflexivity|reflexivity|exact Hinv].
  Qed.

  Corollary tournament_opponent_later_start cw policy g first todo W V LV OUT :
    tournament cw policy g first nzero [] todo [] W V LV OUT -> opp_later W (List.concat OUT ++ LV).
  Proof.
    intros T. apply (tournament_opponent_later _ _ _ _ _ _ _ _ _ _ _ _ T).
    intros F1 d F2 E. destruct F1; discriminate.
  Qed.

  (* alternatives are neither lost nor invented *)
  Theorem tournament_perm cw policy g w v lv todo out W V LV OUT :
    tournament cw policy g w v lv todo out W V LV OUT ->
    Permutation (map d_alt (List.concat OUT ++ LV) ++ [W]) (map d_alt (List.concat out ++ lv) ++ w :: todo).
  Proof.
    induction 1 as [| g g' w v lv a todo out sw sa W V LV OUT C Hv T IH
                    | g g' w v lv a todo out sw sa W V LV OUT C Hv T IH
                    | g g' w v lv a todo out sw sa W V LV OUT C Hv T IH].
    - reflexivity.
    - etransitivity; [exact IH|]. rewrite concat_app. cbn [List.concat]. rewrite app_nil_r.
      rewrite !map_app. cbn [map d_alt]. rewrite <- !app_assoc. cbn [app].
      apply Permutation_app_head.
      etransitivity; [apply Permutation_middle|].
      apply Permutation_app_head. apply perm_swap.
    - etransitivity; [exact IH|]. rewrite !map_app. cbn [map d_alt]. rewrite <- !app_assoc. cbn [app].
      apply Permutation_app_head. apply Permutation_app_head. apply perm_swap.
    - etransitivity; [exact IH|]. rewrite concat_app. cbn [List.concat]. rewrite !app_nil_r.
      rewrite !map_app. cbn [map d_alt]. rewrite <- !app_assoc. cbn [app]. reflexivity.
  Qed.
End Consequences.

Section ConsequencesQc.
  Notation dropped := (@dropped NumQc).

  (* seen from the dropped alternative: the recorded scores are those of the duel with its opponent, and it
     did not score higher (by more than the tolerance) *)
  Definition record_sound (cw : list (@wcrit NumQc)) (d : dropped) : Prop :=
    @compare_alts NumQc cw (d_alt d) (d_opp d) = Ok (d_score d, d_opp_score d) /\
    @nleb NumQc (d_score d) (@nadd NumQc (d_opp_score d) (@c_eps6 NumQc)) = true.

  Lemma verdict_leader_stays policy sw sa g g' :
    @verdict NumQc policy sw sa g LeaderStays g' -> @nleb NumQc sa (@nadd NumQc sw (@c_eps6 NumQc)) = true.
  Proof.
    intros H. inversion H; subst.
    - destruct H0 as [_ Lt]. apply ltb_leb_eps, Lt.
    - apply fae_leb_r. assumption.
    - apply fae_leb_r. assumption.
  Qed.

  Lemma verdict_both_stay policy sw sa g g' :
    @verdict NumQc policy sw sa g BothStay g' -> @nleb NumQc sa (@nadd NumQc sw (@c_eps6 NumQc)) = true.
  Proof. intros H. inversion H; subst. apply fae_leb_r. assumption. Qed.

  Lemma verdict_takes_over policy sw sa g g' :
    @verdict NumQc policy sw sa g NewcomerTakesOver g' -> @nleb NumQc sw (@nadd NumQc sa (@c_eps6 NumQc)) = true.
  Proof.
    intros H. inversion H; subst.
    - destruct H0 as [_ Lt]. apply nltb_false_leb_eps, Lt.
    - apply fae_leb_l. assumption.
    - apply fae_leb_l. assumption.
  Qed.

  (* on an ordered carrier the third case of a comparison is "the newcomer scored strictly more" *)
  Lemma newcomer_ahead_lt (sw sa : Qc) : @newcomer_ahead NumQc sw sa -> @nltb NumQc sw sa = true.
  Proof. intros [A B]. apply not_fae_not_lt; assumption. Qed.

  Theorem tournament_records_sound cw policy g w v lv todo out W V LV OUT :
    @tournament NumQc cw policy g w v lv todo out W V LV OUT ->
    Forall (record_sound cw) (List.concat out ++ lv) -> Forall (record_sound cw) (List.concat OUT ++ LV).
  Proof.
    induction 1 as [| g g' w v lv a todo out sw sa W V LV OUT C Hv T IH
                    | g g' w v lv a todo out sw sa W V LV OUT C Hv T IH
                    | g g' w v lv a todo out sw sa W V LV OUT C Hv T IH]; intros Hinv.
    - exact Hinv.
    - apply IH. rewrite concat_app. cbn [List.concat]. rewrite app_nil_r.
      apply Forall_app in Hinv as [H1 H2]. apply Forall_app. split; [|exact H2].
      apply Forall_app. split; [exact H1|]. constructor; [|constructor].
      split; cbn [d_alt d_opp d_score d_opp_score].
      + apply compare_alts_sym, C.
      + eapply verdict_leader_stays, Hv.
    - apply IH. rewrite app_assoc. apply Forall_app. split; [exact Hinv|]. constructor; [|constructor].
      split; cbn [d_alt d_opp d_score d_opp_score].
      + apply compare_alts_sym, C.
      + eapply verdict_both_stay, Hv.
    - apply IH. rewrite concat_app. cbn [List.concat]. rewrite !app_nil_r, app_assoc.
      apply Forall_app. split; [exact Hinv|]. constructor; [|constructor].
      split; cbn [d_alt d_opp d_score d_opp_score].
      + exact C.
      + eapply verdict_takes_over, Hv.
  Qed.

  Corollary tournament_records_sound_start cw policy g first todo W V LV OUT :
    @tournament NumQc cw policy g first (@nzero NumQc) [] todo [] W V LV OUT ->
    Forall (record_sound cw) (List.concat OUT ++ LV).
  Proof. intros T. apply (tournament_records_sound _ _ _ _ _ _ _ _ _ _ _ _ T). constructor. Qed.

  (** B and E together, on exact rationals: the result of the model lists the undefeated alternative first
      and then the dropped-out ones, last dropped first; every one of those names an opponent that comes
      later in the order of dropping out (= earlier in the result) or is the undefeated one, reports the
      scores of its duel with that opponent, and did not score higher; nobody is lost or invented. *)
  Corollary majority_run_clauses :
    forall (e : @env NumQc) (s : @state NumQc) (r : list (@entry NumQc)) w cur seed rnd drawp,
      st_params s = PMajority w cur seed rnd drawp ->
      @majority_evaluate NumQc e s = Ok r ->
      exists cw first others g1 W V LV OUT,
        zip_with_weights (st_crits s) w = Ok cw /\
        @search_order NumQc s cur rnd (new_rng e seed) = Ok (first, others, g1) /\
        map strip r = (W, EMajority V "" (@nzero NumQc)) :: rev (map d_res (List.concat OUT ++ LV)) /\
        opp_later W (List.concat OUT ++ LV) /\
        Forall (record_sound cw) (List.concat OUT ++ LV) /\
        Permutation (map d_alt (List.concat OUT ++ LV) ++ [W]) (first :: others).
  Proof.
    intros e s r w cur seed rnd drawp Hp H.
    destruct (majority_is_tournament e s r w cur seed rnd drawp Hp H)
      as (cw & policy & first & others & g1 & W & V & LV & OUT & Hz & _ & Hso & T & _ & Hlay & _).
    exists cw, first, others, g1, W, V, LV, OUT.
    split; [exact Hz|]. split; [exact Hso|]. split; [exact Hlay|].
    split; [eapply tournament_opponent_later_start, T|].
    split; [eapply tournament_records_sound_start, T|].
    apply (tournament_perm _ _ _ _ _ _ _ _ _ _ _ _ T).
  Qed.
End ConsequencesQc.

(** ** C. A passed check gives the per-entry clauses of the property *)
Section CheckerSound.
  Context {N : Num}.
  Local Open Scope nat_scope.

  (** [R reported computed]: how reported scores are compared with recomputed ones
      ([nsame] in the checker; equality on carriers with [OrdLaws]). *)
  Definition C11_entries_spec_R (R : num -> num -> Prop) (st : state) (obs : list entry) : Prop :=
    exists w cur seed rnd drawp cw,
      st_params st = PMajority w cur seed rnd drawp /\
      zip_with_weights (st_crits st) w = Ok cw /\
      (* the first entry has no opponent *)
      (exists first v cv, nth_error obs 0 = Some first /\ e_eval first = EMajority v "" cv) /\
      (* every other entry *)
      (forall i e, nth_error obs i = Some e -> i <> 0 ->
         exists v opp cv j o se so,
           e_eval e = EMajority v opp cv /\ opp <> "" /\
           (* names an opponent that is another entry of [obs] (the first one with that id) *)
           nth_error obs j = Some o /\ In o obs /\ eid o = opp /\ eid o <> eid e /\
           (* its reported scores are the scores of the two alternatives *)
           compare_alts cw (e_alt e) (e_alt o) = Ok (se, so) /\ R v se /\ R cv so /\
           (* its own score is not higher than the opponent's *)
           nleb v (nadd cv c_eps6) = true /\
           (* ranked after the opponent, or both link each other (same tie group) *)
           (j < i \/ (In opp (e_links e) /\ In (eid e) (e_links o)))).

  Definition C11_entries_spec : state -> list entry -> Prop :=
    C11_entries_spec_R (fun x y => nsame x y = true).

  Lemma find_index_nth id : forall l k o j,
    find_entry id l = Some o -> index_of id l k = Some j ->
    k <= j /\ nth_error l (j - k) = Some o /\ eid o = id.
  Proof.
    unfold find_entry. induction l as [|x l IH]; intros k o j F I; cbn [find index_of] in *; [discriminate|].
    destruct (String.eqb (eid x) id) eqn:E.
    - inversion F; inversion I; subst. rewrite Nat.sub_diag. repeat split; auto.
      apply String.eqb_eq, E.
    - destruct (IH _ _ _ F I) as (A & B & C). split; [lia|]. split; [|exact C].
      replace (j - k) with (S (j - S k)) by lia. exact B.
  Qed.

  Lemma check_entry_sound cw obs i e :
    check_entry cw obs i e = true ->
    exists v opp cv, e_eval e = EMajority v opp cv /\
      ((opp = "" /\ i = 0) \/
       (opp <> "" /\ exists j o se so,
          nth_error obs j = Some o /\ In o obs /\ eid o = opp /\ eid o <> eid e /\
          compare_alts cw (e_alt e) (e_alt o) = Ok (se, so) /\ nsame v se = true /\ nsame cv so = true /\
          nleb v (nadd cv c_eps6) = true /\
          (j < i \/ (In opp (e_links e) /\ In (eid e) (e_links o))))).
  Proof.
    unfold check_entry. destruct (e_eval e) as [| |v opp cv| |]; try discriminate.
    intros H. exists v, opp, cv. split; [reflexivity|].
    destruct (String.eqb opp "") eqn:E0.
    - left. apply String.eqb_eq in E0. apply Nat.eqb_eq in H. split; assumption.
    - right. apply String.eqb_neq in E0. split; [exact E0|].
      destruct (find_entry opp obs) as [o|] eqn:F; [|discriminate].
      destruct (index_of opp obs 0) as [j|] eqn:I; [|discriminate].
      destruct (find_index_nth _ _ _ _ _ F I) as (_ & Hn & Ho). rewrite Nat.sub_0_r in Hn.
      rewrite !andb_true_iff in H. destruct H as [[[H1 H2] H3] H4].
      unfold scores in H2.
      destruct (compare_alts cw (e_alt e) (e_alt o)) as [[se so]|er] eqn:Hc; [|discriminate].
      apply andb_true_iff in H2 as [H2a H2b].
      exists j, o, se, so.
      split; [exact Hn|]. split; [eapply nth_error_In, Hn|]. split; [exact Ho|].
      split; [apply negb_true_iff, String.eqb_neq in H1; rewrite Ho; exact H1|].
      split; [exact Hc|]. split; [exact H2a|]. split; [exact H2b|]. split; [exact H3|].
      apply orb_true_iff in H4 as [H4|H4].
      + left. apply Nat.ltb_lt, H4.
      + right. apply andb_true_iff in H4 as [A B]. split; apply mem_str_In; assumption.
  Qed.

  Lemma check_entries_nth cw obs : forall l k,
    check_entries cw obs k l = true ->
    forall i e, nth_error l i = Some e -> check_entry cw obs (k + i) e = true.
  Proof.
    induction l as [|x l IH]; intros k H i e Hn; [destruct i; discriminate|].
    cbn [check_entries] in H. apply andb_true_iff in H as [H1 H2].
    destruct i as [|i]; cbn [nth_error] in Hn.
    - inversion Hn; subst. rewrite Nat.add_0_r. exact H1.
    - replace (k + S i) with (S k + i) by lia. apply (IH _ H2 _ _ Hn).
  Qed.

  Theorem C11_ok_sound : forall (st : state) (obs : list entry),
    C11_ok st obs = true -> C11_entries_spec st obs.
  Proof.
    intros st obs H. unfold C11_ok in H.
    destruct (st_params st) as [| | | |w cur seed rnd drawp| |] eqn:Hp; try discriminate.
    destruct (zip_with_weights (st_crits st) w) as [cw|er] eqn:Hz; [|discriminate].
    destruct obs as [|first rest] eqn:Hobs; [discriminate|]. rewrite <- Hobs in *.
    apply andb_true_iff in H as [H0 H].
    exists w, cur, seed, rnd, drawp, cw. split; [exact Hp|]. split; [exact Hz|].
    assert (Hn0 : nth_error obs 0 = Some first) by (rewrite Hobs; reflexivity).
    pose proof (check_entries_nth cw obs obs 0 H) as Hall. cbn [Nat.add] in Hall.
    split.
    - destruct (check_entry_sound _ _ _ _ (Hall 0 first Hn0)) as (v & opp & cv & Hev & _).
      exists first, v, cv. split; [exact Hn0|].
      unfold m_with in H0. rewrite Hev in H0. apply String.eqb_eq in H0. subst opp. exact Hev.
    - intros i e Hn Hi.
      destruct (check_entry_sound _ _ _ _ (Hall i e Hn)) as (v & opp & cv & Hev & [[_ Z]|[Hne Hx]]);
        [contradiction|].
      destruct Hx as (j & o & se & so & A1 & A2 & A3 & A4 & A5 & A6 & A7 & A8 & A9).
      exists v, opp, cv, j, o, se, so. repeat split; assumption.
  Qed.

  (** On carriers with [OrdLaws] ([nsame] is equality) the reported scores ARE the duel scores. *)
  Theorem C11_ok_sound_exact {L : OrdLaws N} : forall (st : state) (obs : list entry),
    C11_ok st obs = true -> C11_entries_spec_R eq st obs.
  Proof.
    intros st obs H. apply C11_ok_sound in H.
    destruct H as (w & cur & seed & rnd & drawp & cw & Hp & Hz & Hfirst & Hrest).
    exists w, cur, seed, rnd, drawp, cw. repeat split; try assumption.
    intros i e Hn Hi.
    destruct (Hrest i e Hn Hi) as (v & opp & cv & j & o & se & so & A0 & A1 & A2 & A3 & A4 & A5 & A6 & A7 & A8 & A9 & A10).
    exists v, opp, cv, j, o, se, so. repeat split; try assumption; apply same_eq; assumption.
  Qed.
End CheckerSound.

(** ** D. The relation is inhabited: four alternatives, one draw, three draw policies (on [NumQc]).
    Criteria c1, c2, c3 (gain) with weights 2, 1, 1; search order a, b, c, d.
    a = (1,1,1) meets b = (0,2,2): a is better on c1 (2), b on c2 and c3 (1+1): a draw, 2 : 2.
    c = (2,2,0) beats a 3 : 1 and beats b 2 : 1; d = (0,0,5) loses to c 1 : 3. *)
Section Examples.
  Local Open Scope Q_scope.

  Definition exq (z : Z) : Qc := Q2Qc (inject_Z z).
  Definition ex_crit (id : string) : @crit NumQc := {| c_id := id; c_type := TGain; c_range := None |}.
  Definition ex_alt (id : string) (x y z : Z) : @alt NumQc :=
    {| a_id := id; a_vals := [("c1", exq x); ("c2", exq y); ("c3", exq z)]%string |}.
  Definition ex_a := ex_alt "a" 1 1 1.
  Definition ex_b := ex_alt "b" 0 2 2.
  Definition ex_c := ex_alt "c" 2 2 0.
  Definition ex_d := ex_alt "d" 0 0 5.
  Definition ex_cw : list (@wcrit NumQc) := [(ex_crit "c1", exq 2); (ex_crit "c2", exq 1); (ex_crit "c3", exq 1)].
  Definition ex_state (drawp : string) : @state NumQc :=
    {| st_notcons := []; st_cons := [ex_a; ex_b; ex_c; ex_d];
       st_crits := [ex_crit "c1"; ex_crit "c2"; ex_crit "c3"];
       st_params := PMajority [("c1", exq 2); ("c2", exq 1); ("c3", exq 1)]%string "" 7%Z false drawp |}.
  (* the stream of seed 7 starts with 1/4 (< 1/2: the running winner keeps its place) *)
  Definition ex_env : @env NumQc := {| env_streams := [(7%Z, [Q2Qc (1 # 4)])]; env_exp := [] |}.

  (* readable projections: ids and the rational values of the scores *)
  Definition show_dropped (d : @dropped NumQc) : string * Q * string * Q :=
    (a_id (d_alt d), this (d_score d), a_id (d_opp d), this (d_opp_score d)).
  Definition show_entry (e : @entry NumQc) : string * (Q * string * Q) * list string :=
    (eid e, match e_eval e with EMajority v c w => (this v, c, this w) | _ => (0, "?"%string, 0) end, e_links e).

  Ltac verdict_tac :=
    first [ apply V_leader; split; vm_compute; reflexivity
          | apply V_newcomer; split; vm_compute; reflexivity
          | apply V_draw_allow; [vm_compute; reflexivity|reflexivity]
          | apply V_draw_current; [vm_compute; reflexivity|reflexivity]
          | apply V_draw_newer; [vm_compute; reflexivity|reflexivity]
          | refine (V_draw_random_low _ _ _ _ _ _ _ _); [vm_compute; reflexivity|reflexivity|vm_compute; reflexivity]
          | refine (V_draw_random_high _ _ _ _ _ _ _ _); [vm_compute; reflexivity|reflexivity|vm_compute; reflexivity] ].
  Ltac duel :=
    first [ eapply T_leader_stays; [vm_compute; reflexivity|verdict_tac|]
          | eapply T_both_stay; [vm_compute; reflexivity|verdict_tac|]
          | eapply T_takes_over; [vm_compute; reflexivity|verdict_tac|] ].

  (** draws allowed: b stays level with a; both drop out together when c beats a; d drops out alone *)
  Example tournament_allow :
    exists W V LV OUT,
      @tournament NumQc ex_cw DAllow [] ex_a (@nzero NumQc) [] [ex_b; ex_c; ex_d] [] W V LV OUT /\
      a_id W = "c"%string /\ this V = 3 /\ map show_dropped LV = [] /\
      map (map show_dropped) OUT =
        [[("b", 2, "a", 2); ("a", 1, "c", 3)]; [("d", 1, "c", 3)]]%string.
  Proof.
    do 4 eexists. split; [duel; duel; duel; apply T_end|].
    vm_compute. repeat split; reflexivity.
  Qed.

  (** draw decided for the newer alternative: b takes over from a, then c from b *)
  Example tournament_newer :
    exists W V LV OUT,
      @tournament NumQc ex_cw DNewer [] ex_a (@nzero NumQc) [] [ex_b; ex_c; ex_d] [] W V LV OUT /\
      a_id W = "c"%string /\ this V = 3 /\ map show_dropped LV = [] /\
      map (map show_dropped) OUT =
        [[("a", 2, "b", 2)]; [("b", 1, "c", 2)]; [("d", 1, "c", 3)]]%string.
  Proof.
    do 4 eexists. split; [duel; duel; duel; apply T_end|].
    vm_compute. repeat split; reflexivity.
  Qed.

  (** draw decided by the seeded stream: 1/4 < 1/2, a keeps its place and b drops out; the stream is used up *)
  Example tournament_random :
    exists W V LV OUT,
      @tournament NumQc ex_cw DRandom [Q2Qc (1 # 4)] ex_a (@nzero NumQc) [] [ex_b; ex_c; ex_d] [] W V LV OUT /\
      a_id W = "c"%string /\ this V = 3 /\ map show_dropped LV = [] /\
      map (map show_dropped) OUT =
        [[("b", 2, "a", 2)]; [("a", 1, "c", 3)]; [("d", 1, "c", 3)]]%string.
  Proof.
    do 4 eexists. split; [duel; duel; duel; apply T_end|].
    vm_compute. repeat split; reflexivity.
  Qed.

  (** with an empty stream the random policy cannot decide the draw: no tournament run exists
      (the model fails with "out of random numbers") *)
  Example tournament_random_needs_stream :
    forall W V LV OUT,
      ~ @tournament NumQc ex_cw DRandom [] ex_a (@nzero NumQc) [] [ex_b; ex_c; ex_d] [] W V LV OUT.
  Proof.
    intros W V LV OUT T.
    inversion T as [| ? ? ? ? ? ? ? ? ? ? ? ? ? ? C Hv _ | ? ? ? ? ? ? ? ? ? ? ? ? ? ? C Hv _
                    | ? ? ? ? ? ? ? ? ? ? ? ? ? ? C Hv _]; subst;
      vm_compute in C; inversion C; subst; inversion Hv; subst;
      match goal with
      | H : leader_ahead _ _ |- _ => destruct H as [H _]; vm_compute in H; discriminate
      | H : newcomer_ahead _ _ |- _ => destruct H as [H _]; vm_compute in H; discriminate
      | H : DRandom = _ |- _ => discriminate
      end.
  Qed.

  (** the model on the same instance: the ranking is the reversed order of dropping out, with the tie
      group {a, b} (they link each other) under "allow"; the checker accepts all three outputs *)
  Definition model_shows (drawp : string) : option (list (string * (Q * string * Q) * list string) * bool) :=
    match @majority_evaluate NumQc ex_env (ex_state drawp) with
    | Ok r => Some (map show_entry r, @C11_ok NumQc (ex_state drawp) r)
    | Err _ => None
    end.

  Example model_allow :
    model_shows "allow" =
      Some ([("c", (3, "", 0), ["d"]); ("d", (1, "c", 3), ["b"; "a"]);
             ("a", (1, "c", 3), ["b"]); ("b", (2, "a", 2), ["a"])]%string, true).
  Proof. vm_compute. reflexivity. Qed.

  Example model_newer :
    model_shows "newer" =
      Some ([("c", (3, "", 0), ["d"]); ("d", (1, "c", 3), ["b"]);
             ("b", (1, "c", 2), ["a"]); ("a", (2, "b", 2), [])]%string, true).
  Proof. vm_compute. reflexivity. Qed.

  Example model_random :
    model_shows "random" =
      Some ([("c", (3, "", 0), ["d"]); ("d", (1, "c", 3), ["a"]);
             ("a", (1, "c", 3), ["b"]); ("b", (2, "a", 2), [])]%string, true).
  Proof. vm_compute. reflexivity. Qed.
End Examples.

Print Assumptions majority_is_tournament.
Print Assumptions ranking_layout.
Print Assumptions prepare_ranking_links.
Print Assumptions C11_ok_sound.
Print Assumptions C11_ok_sound_exact.
Print Assumptions tournament_opponent_later.
Print Assumptions tournament_opponent_later_start.
Print Assumptions tournament_perm.
Print Assumptions tournament_records_sound.
Print Assumptions tournament_records_sound_start.
Print Assumptions newcomer_ahead_lt.
Print Assumptions majority_run_clauses.
Print Assumptions tournament_allow.
Print Assumptions tournament_newer.
Print Assumptions tournament_random.
Print Assumptions tournament_random_needs_stream.
Print Assumptions model_allow.
Print Assumptions model_newer.
Print Assumptions model_random.
