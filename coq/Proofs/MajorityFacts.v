(** * C11: the majority heuristic of the model is a sequential pairwise tournament.
    Main result: [majority_passes_checker] (on the exact instance [NumQc]), with the additional named
    hypothesis [Hnonempty] "no alternative has the empty id"; the statement without it is refuted by
    [majority_empty_id_counterexample] / [majority_passes_checker_as_stated_refuted].
    Also: [compare_alts_sym] (a), [mstep_inv]/[mfold_inv] (b, the invariant of the fold),
    [prepare_ranking_strip] (c), [tournament_check] (d), [take_better_policy_spec]. *)
From Coq Require Import ZArith QArith Qcanon Qabs Bool List String Permutation Lia Lqa.
From RDM Require Import Base.Num Base.NumQc Base.Util Model.Data Model.Utility Model.Heuristics
  Check.C04 Check.C11.
Import ListNotations.
Local Open Scope string_scope.
Local Open Scope list_scope.

(** ** Arithmetic facts on [NumQc] *)
Section QcFacts.
  Local Open Scope Q_scope.

  Lemma this_Q2Qc (q : Q) : this (Q2Qc q) == q.
  Proof. cbn [this Q2Qc]. apply Qred_correct. Qed.

  Lemma this_plus (x y : Qc) : this (Qcplus x y) == this x + this y.
  Proof. unfold Qcplus. apply this_Q2Qc. Qed.

  Lemma this_opp (x : Qc) : this (Qcopp x) == - this x.
  Proof. unfold Qcopp. apply this_Q2Qc. Qed.

  Lemma this_minus (x y : Qc) : this (Qcminus x y) == this x - this y.
  Proof. unfold Qcminus. rewrite this_plus, this_opp. reflexivity. Qed.

  Lemma qc_ltb_true (x y : Qc) : qc_ltb x y = true <-> this x < this y.
  Proof.
    unfold qc_ltb. rewrite negb_true_iff. split.
    - intros H. apply Qnot_le_lt. intros C. apply Qle_bool_iff in C. congruence.
    - intros H. destruct (Qle_bool y x) eqn:E; [|reflexivity].
      apply Qle_bool_iff in E. exfalso. apply (Qlt_not_le _ _ H E).
  Qed.

  Lemma qc_ltb_false (x y : Qc) : qc_ltb x y = false <-> this y <= this x.
  Proof.
    unfold qc_ltb. rewrite negb_false_iff. apply Qle_bool_iff.
  Qed.

  Lemma qc_leb_true (x y : Qc) : qc_leb x y = true <-> this x <= this y.
  Proof. unfold qc_leb. apply Qle_bool_iff. Qed.

  Lemma fae_iff (a b e : Qc) :
    @floats_are_equal NumQc a b e = true <-> (- this e <= this a - this b /\ this a - this b <= this e).
  Proof.
    unfold floats_are_equal. cbn [nleb nabs nsub NumQc]. rewrite qc_leb_true.
    unfold qc_abs. rewrite this_Q2Qc, this_minus. apply Qabs_Qle_condition.
  Qed.

  Lemma fae_false (a b e : Qc) :
    @floats_are_equal NumQc a b e = false -> (this a - this b < - this e \/ this e < this a - this b).
  Proof.
    intros H.
    destruct (Qlt_le_dec (this a - this b) (- this e)) as [A|A]; [left; exact A|].
    destruct (Qlt_le_dec (this e) (this a - this b)) as [B|B]; [right; exact B|].
    assert (T : @floats_are_equal NumQc a b e = true) by (apply fae_iff; split; assumption).
    congruence.
  Qed.

  Lemma fae_sym (a b e : Qc) : @floats_are_equal NumQc a b e = @floats_are_equal NumQc b a e.
  Proof.
    destruct (@floats_are_equal NumQc a b e) eqn:A; destruct (@floats_are_equal NumQc b a e) eqn:B;
      try reflexivity.
    - apply fae_iff in A. apply fae_false in B. lra.
    - apply fae_iff in B. apply fae_false in A. lra.
  Qed.

  Lemma eps6_pos : 0 < this (@c_eps6 NumQc).
  Proof. cbn [c_eps6 NumQc]. rewrite this_Q2Qc. reflexivity. Qed.

  Lemma this_add_eps (x : Qc) : this (@nadd NumQc x (@c_eps6 NumQc)) == this x + this (@c_eps6 NumQc).
  Proof. cbn [nadd NumQc]. apply this_plus. Qed.

  (* |a-b| <= eps -> a <= b + eps and b <= a + eps *)
  Lemma fae_leb_l (a b : Qc) : @floats_are_equal NumQc a b (@c_eps6 NumQc) = true ->
    @nleb NumQc a (@nadd NumQc b (@c_eps6 NumQc)) = true.
  Proof.
    intros H. apply fae_iff in H. cbn [nleb NumQc]. apply qc_leb_true. rewrite this_add_eps. lra.
  Qed.

  Lemma fae_leb_r (a b : Qc) : @floats_are_equal NumQc a b (@c_eps6 NumQc) = true ->
    @nleb NumQc b (@nadd NumQc a (@c_eps6 NumQc)) = true.
  Proof.
    intros H. apply fae_iff in H. cbn [nleb NumQc]. apply qc_leb_true. rewrite this_add_eps. lra.
  Qed.

  Lemma ltb_leb_eps (a b : Qc) : @nltb NumQc a b = true ->
    @nleb NumQc a (@nadd NumQc b (@c_eps6 NumQc)) = true.
  Proof.
    cbn [nltb NumQc]. intros H. apply qc_ltb_true in H. cbn [nleb NumQc]. apply qc_leb_true.
    rewrite this_add_eps. pose proof eps6_pos. lra.
  Qed.

  Lemma nltb_false_leb_eps (a b : Qc) : @nltb NumQc a b = false ->
    @nleb NumQc b (@nadd NumQc a (@c_eps6 NumQc)) = true.
  Proof.
    cbn [nltb NumQc]. intros H. apply qc_ltb_false in H. cbn [nleb NumQc]. apply qc_leb_true.
    rewrite this_add_eps. pose proof eps6_pos. lra.
  Qed.

  Lemma ltb_asym_qc (a b : Qc) : @nltb NumQc a b = true -> @nltb NumQc b a = false.
  Proof.
    cbn [nltb NumQc]. intros H. apply qc_ltb_true in H. apply qc_ltb_false. lra.
  Qed.

  (* neither equal within eps nor [b < a]: then [a < b] *)
  Lemma not_fae_not_lt (a b : Qc) : @floats_are_equal NumQc a b (@c_eps6 NumQc) = false ->
    @nltb NumQc b a = false -> @nltb NumQc a b = true.
  Proof.
    cbn [nltb NumQc]. intros H1 H2. apply fae_false in H1. apply qc_ltb_false in H2.
    apply qc_ltb_true. pose proof eps6_pos. lra.
  Qed.
End QcFacts.

Local Close Scope Q_scope.

(** ** Generic (carrier independent) structural facts *)
Section Generic.
  Context {N : Num}.

  Lemma bind_ok {A B} (r : res A) (f : A -> res B) (b : B) :
    bind r f = Ok b -> exists a, r = Ok a /\ f a = Ok b.
  Proof. destruct r as [a|e]; cbn [bind]; intros H; [exists a; auto|discriminate]. Qed.

  (** *** [take_better]: a readable case analysis *)
  Definition set_eval (st : mstate) (v : num) : mstate :=
    {| ms_worse := ms_worse st; ms_same := ms_same st; ms_current := ms_current st; ms_eval := v |}.

  Lemma set_eval_resolve r s1 s2 st another : set_eval (resolve r s1 s2 st another) s1 = resolve r s1 s2 st another.
  Proof. destruct r; reflexivity. Qed.

  (* [s1] = score of the current winner, [s2] = score of the newcomer [another] *)
  Theorem take_better_policy_spec :
    forall (policy : string) (s1 s2 : num) (st : mstate) (another : alt) (g : rng),
      let cur := ms_current st in
      let keep_current_drop_newcomer :=
        {| ms_worse := ms_worse st ++ [[(another, EMajority s2 (a_id cur) s1)]];
           ms_same := ms_same st; ms_current := cur; ms_eval := s1 |} in
      let newcomer_wins v :=
        {| ms_worse := ms_worse st ++ [ms_same st ++ [(cur, EMajority s1 (a_id another) s2)]];
           ms_same := []; ms_current := another; ms_eval := v |} in
      let newcomer_joins_ties :=
        {| ms_worse := ms_worse st;
           ms_same := ms_same st ++ [(another, EMajority s2 (a_id cur) s1)];
           ms_current := cur; ms_eval := s1 |} in
      (* scores differ by more than eps: the higher score wins, whatever the policy *)
      (floats_are_equal s1 s2 c_eps6 = false -> nltb s2 s1 = true ->
         take_better policy s1 s2 st another g = Ok (keep_current_drop_newcomer, g)) /\
      (floats_are_equal s1 s2 c_eps6 = false -> nltb s2 s1 = false ->
         take_better policy s1 s2 st another g = Ok (newcomer_wins s2, g)) /\
      (* scores equal within eps: the draw-resolution policy decides *)
      (floats_are_equal s1 s2 c_eps6 = true -> policy = draw_allow ->
         take_better policy s1 s2 st another g = Ok (newcomer_joins_ties, g)) /\
      (floats_are_equal s1 s2 c_eps6 = true -> policy = draw_current ->
         take_better policy s1 s2 st another g = Ok (keep_current_drop_newcomer, g)) /\
      (floats_are_equal s1 s2 c_eps6 = true -> policy = draw_newer ->
         take_better policy s1 s2 st another g = Ok (newcomer_wins s1, g)) /\
      (floats_are_equal s1 s2 c_eps6 = true ->
         policy <> draw_allow -> policy <> draw_current -> policy <> draw_newer ->
         forall d g', draw g = Ok (d, g') ->
           take_better policy s1 s2 st another g =
             Ok (if nltb d c_half then keep_current_drop_newcomer else newcomer_wins s1, g')).
  Proof.
    intros policy s1 s2 st another g cur kc nw nj.
    unfold take_better. repeat split.
    - intros E L. rewrite E, L. reflexivity.
    - intros E L. rewrite E, L. reflexivity.
    - intros E P. rewrite E. subst policy. reflexivity.
    - intros E P. rewrite E. subst policy. reflexivity.
    - intros E P. rewrite E. subst policy. reflexivity.
    - intros E P1 P2 P3 d g' D. rewrite E.
      apply String.eqb_neq in P1, P2, P3. rewrite P1, P2, P3, D. cbn [bind fst snd].
      destruct (nltb d c_half); reflexivity.
  Qed.

  (* every successful [take_better] is one of the three resolutions, possibly with another last score *)
  Lemma take_better_cases policy s1 s2 st another g st' g' :
    take_better policy s1 s2 st another g = Ok (st', g') ->
    exists r v, st' = set_eval (resolve r s1 s2 st another) v /\
      match r with
      | RNewer => floats_are_equal s1 s2 c_eps6 = true \/ nltb s2 s1 = false
      | _ => floats_are_equal s1 s2 c_eps6 = true \/ nltb s2 s1 = true
      end.
  Proof.
    unfold take_better. destruct (floats_are_equal s1 s2 c_eps6) eqn:E.
    - destruct (String.eqb policy draw_allow).
      { intros H; inversion H; subst. exists RAllow, s1. rewrite set_eval_resolve. auto. }
      destruct (String.eqb policy draw_current).
      { intros H; inversion H; subst. exists RCurrent, s1. rewrite set_eval_resolve. auto. }
      destruct (String.eqb policy draw_newer).
      { intros H; inversion H; subst. exists RNewer, s1. rewrite set_eval_resolve. auto. }
      destruct (draw g) as [dg|e]; cbn [bind]; [|discriminate].
      destruct (nltb (fst dg) c_half); intros H; inversion H; subst.
      + exists RCurrent, s1. rewrite set_eval_resolve. auto.
      + exists RNewer, s1. rewrite set_eval_resolve. auto.
    - destruct (nltb s2 s1) eqn:L; intros H; inversion H; subst.
      + exists RCurrent, s1. rewrite set_eval_resolve. auto.
      + exists RNewer, s2. split; [reflexivity|auto].
  Qed.

  (** *** The tournament invariant *)
  (* the record [x] names an opponent among [later], with exactly the scores of the duel, and did not
     score more than eps above it *)
  Definition rec_ok (cw : list wcrit) (x : mres) (later : list alt) : Prop :=
    exists v o cv, snd x = EMajority v (a_id o) cv /\ In o later /\
                   compare_alts cw (fst x) o = Ok (v, cv) /\ nleb v (nadd cv c_eps6) = true.

  (* [F] = the records in the order in which they are laid out (groups flattened), [c] = current winner:
     the opponent of every record is recorded later or is the current winner *)
  Fixpoint chain (cw : list wcrit) (c : alt) (F : list mres) : Prop :=
    match F with
    | [] => True
    | x :: F' => rec_ok cw x (map fst F' ++ [c]) /\ chain cw c F'
    end.

  Lemma rec_ok_incl cw x l l' : incl l l' -> rec_ok cw x l -> rec_ok cw x l'.
  Proof. intros I (v & o & cv & A & B & C & D). exists v, o, cv. auto. Qed.

  Lemma chain_insert cw c y F2 : forall F1,
    chain cw c (F1 ++ F2) -> rec_ok cw y (map fst F2 ++ [c]) -> chain cw c (F1 ++ y :: F2).
  Proof.
    induction F1 as [|x F1 IH]; cbn [app chain]; intros H R.
    - split; assumption.
    - destruct H as [H1 H2]. split; [|apply IH; assumption].
      eapply rec_ok_incl; [|exact H1].
      intros z Hz. rewrite map_app in *. cbn [map]. rewrite !in_app_iff in *. cbn [In] in *. tauto.
  Qed.

  Lemma chain_newer cw c c' ev : forall F,
    chain cw c F -> rec_ok cw (c, ev) [c'] -> chain cw c' (F ++ [(c, ev)]).
  Proof.
    induction F as [|x F IH]; cbn [app chain]; intros H R.
    - split; [exact R|exact I].
    - destruct H as [H1 H2]. split; [|apply IH; assumption].
      eapply rec_ok_incl; [|exact H1].
      intros z Hz. rewrite map_app. cbn [map fst]. rewrite !in_app_iff in *. cbn [In] in *. tauto.
  Qed.

  Lemma chain_split cw c : forall F F1 x F2, chain cw c F -> F = F1 ++ x :: F2 ->
    rec_ok cw x (map fst F2 ++ [c]).
  Proof.
    intros F F1; revert F. induction F1 as [|y F1 IH]; intros F x F2 H E; subst F; cbn [app chain] in H.
    - apply H.
    - eapply IH; [apply H|reflexivity].
  Qed.

  Definition flat (st : mstate) : list mres := List.concat (ms_worse st) ++ ms_same st.
  (* alternatives recorded, the current winner, and the ones still to be met *)
  Definition pool (st : mstate) (rest : list alt) : list alt := map fst (flat st) ++ ms_current st :: rest.

  Lemma flat_set_eval st v : flat (set_eval st v) = flat st.
  Proof. reflexivity. Qed.

  Lemma resolve_keeps cw r s1 s2 st another rest :
    chain cw (ms_current st) (flat st) ->
    compare_alts cw (ms_current st) another = Ok (s1, s2) ->
    compare_alts cw another (ms_current st) = Ok (s2, s1) ->
    match r with
    | RNewer => nleb s1 (nadd s2 c_eps6) = true
    | _ => nleb s2 (nadd s1 c_eps6) = true
    end ->
    let st' := resolve r s1 s2 st another in
    chain cw (ms_current st') (flat st') /\ Permutation (pool st' rest) (pool st (another :: rest)).
  Proof.
    intros C S12 S21 L. destruct r; cbn [resolve]; unfold pool, flat; cbn [ms_worse ms_same ms_current].
    - (* allow *)
      split.
      + rewrite app_assoc. change (List.concat (ms_worse st) ++ ms_same st) with (flat st).
        rewrite <- (app_nil_r (flat st)) in C.
        apply chain_insert; [exact C|].
        exists s2, (ms_current st), s1. cbn [fst snd map app]. repeat split; auto. now left.
      + rewrite app_assoc, !map_app. cbn [map fst]. rewrite <- !app_assoc. cbn [app].
        apply Permutation_app_head. apply Permutation_app_head.
        apply perm_swap.
    - (* current *)
      split.
      + rewrite concat_app. cbn [List.concat]. rewrite app_nil_r, <- app_assoc. cbn [app].
        apply chain_insert; [exact C|].
        exists s2, (ms_current st), s1. cbn [fst snd]. repeat split; auto.
        apply in_or_app. right. now left.
      + rewrite concat_app. cbn [List.concat]. rewrite app_nil_r, <- app_assoc. cbn [app].
        rewrite !map_app. cbn [map fst]. rewrite <- !app_assoc. cbn [app].
        apply Permutation_app_head.
        etransitivity; [apply Permutation_middle|].
        apply Permutation_app_head. apply perm_swap.
    - (* newer *)
      split.
      + rewrite concat_app. cbn [List.concat]. rewrite !app_nil_r, app_assoc.
        apply chain_newer; [exact C|].
        exists s1, another, s2. cbn [fst snd]. repeat split; auto. now left.
      + rewrite concat_app. cbn [List.concat]. rewrite !app_nil_r, app_assoc, !map_app.
        cbn [map fst]. rewrite <- !app_assoc. cbn [app]. reflexivity.
  Qed.

  (** *** [prepare_ranking] lays the records out in reverse order *)
  Definition strip (e : entry) : mres := (e_alt e, e_eval e).

  Lemma group_entries_strip prev : forall after before, map strip (group_entries prev before after) = after.
  Proof.
    induction after as [|[a ev] r IH]; intros before; cbn [group_entries map]; [reflexivity|].
    rewrite IH. reflexivity.
  Qed.

  Lemma prepare_groups_strip : forall gs prev, map strip (prepare_groups prev gs) = List.concat gs.
  Proof.
    induction gs as [|gr r IH]; intros prev; cbn [prepare_groups List.concat map]; [reflexivity|].
    rewrite map_app, group_entries_strip, IH. reflexivity.
  Qed.

  Lemma prepare_ranking_strip gs : map strip (prepare_ranking gs) = rev (List.concat gs).
  Proof. unfold prepare_ranking. rewrite map_rev, prepare_groups_strip. reflexivity. Qed.
End Generic.

(** ** The search order: the first alternative and the remaining ones are distinct known alternatives *)
Section Search.
  Context {N : Num}.

  Lemma replace_nth_perm {A} (y : A) : forall l i x,
    nth_opt i l = Some x -> Permutation (y :: l) (x :: replace_nth i y l).
  Proof.
    induction l as [|a l IH]; intros i x H; [destruct i; discriminate|].
    destruct i as [|i]; cbn [nth_opt replace_nth] in *.
    - inversion H; subst. apply perm_swap.
    - etransitivity; [apply perm_swap|].
      etransitivity; [apply perm_skip, (IH i x H)|]. apply perm_swap.
  Qed.

  Lemma nth_opt_replace_other {A} : forall l i j (xi xj : A),
    nth_opt i l = Some xi -> nth_opt j l = Some xj -> nth_opt j (replace_nth i xj l) = Some xj.
  Proof.
    induction l as [|a l IH]; intros i j xi xj Hi Hj; [destruct i; discriminate|].
    destruct i as [|i], j as [|j]; cbn [nth_opt replace_nth] in *; auto.
    eapply IH; eassumption.
  Qed.

  Lemma shuffle_from_perm {A} : forall i (l l' : list A) g g',
    shuffle_from i l g = Ok (l', g') -> Permutation l l'.
  Proof.
    induction i as [|i IH]; intros l l' g g' H; cbn [shuffle_from] in H.
    - inversion H; subst. reflexivity.
    - destruct (draw g) as [dg|e]; cbn [bind] in H; [|discriminate].
      cbv zeta in H.
      destruct (nth_opt (S i) l) as [xi|] eqn:E1; [|discriminate].
      match type of H with context [nth_opt ?j l] =>
        destruct (nth_opt j l) as [xj|] eqn:E2; [|discriminate];
        pose proof (nth_opt_replace_other l (S i) j xi xj E1 E2) as E3
      end.
      apply IH in H. etransitivity; [|exact H].
      pose proof (replace_nth_perm xj l (S i) xi E1) as P1.
      pose proof (replace_nth_perm xi _ _ xj E3) as P2.
      apply (Permutation_cons_inv (a := xj)). etransitivity; [exact P1|exact P2].
  Qed.

  Lemma order_alternatives_perm rnd l g l' g' :
    order_alternatives rnd l g = Ok (l', g') -> Permutation l l'.
  Proof.
    unfold order_alternatives, shuffle. destruct rnd; intros H.
    - eapply shuffle_from_perm; eassumption.
    - inversion H; subst. reflexivity.
  Qed.

  Lemma fetch_alt_spec : forall l id a, fetch_alt' l id = Ok a -> In a l /\ a_id a = id.
  Proof.
    induction l as [|b l IH]; intros id a H; cbn [fetch_alt'] in H; [discriminate|].
    destruct (String.eqb (a_id b) id) eqn:E.
    - inversion H; subst. apply String.eqb_eq in E. split; [now left|exact E].
    - destruct (IH _ _ H) as [A B]. split; [now right|exact B].
  Qed.

  Lemma remove_alt_incl id : forall l, incl (remove_alt l id) l.
  Proof.
    induction l as [|a l IH]; cbn [remove_alt]; [apply incl_refl|].
    destruct (String.eqb (a_id a) id).
    - apply incl_tl, incl_refl.
    - intros x [Hx|Hx]; [now left|right; apply IH, Hx].
  Qed.

  Lemma remove_alt_nodup id : forall l, NoDup (map a_id l) ->
    NoDup (map a_id (remove_alt l id)) /\ ~ In id (map a_id (remove_alt l id)).
  Proof.
    induction l as [|a l IH]; cbn [remove_alt map]; intros ND.
    - split; [constructor|intros []].
    - inversion ND as [|? ? Hn ND']; subst.
      destruct (String.eqb (a_id a) id) eqn:E.
      + apply String.eqb_eq in E. subst id. split; assumption.
      + apply String.eqb_neq in E. destruct (IH ND') as [A B]. cbn [map]. split.
        * constructor; [|exact A]. intros C. apply Hn.
          apply in_map_iff in C as (x & Hx & Hi). apply in_map_iff. exists x. split; [exact Hx|].
          apply (remove_alt_incl id l), Hi.
        * intros [C|C]; [exact (E C)|exact (B C)].
  Qed.

  Lemma nodup_app_l {A} : forall (l l' : list A), NoDup (l ++ l') -> NoDup l.
  Proof.
    induction l as [|a l IH]; intros l' H; [constructor|].
    cbn [app] in H. inversion H as [|? ? Hn H']; subst. constructor.
    - intros C. apply Hn. apply in_or_app. now left.
    - eapply IH; exact H'.
  Qed.

  Lemma search_order_spec s cur rnd g c l g' :
    search_order s cur rnd g = Ok (c, l, g') ->
    NoDup (map a_id (all_alts s)) ->
    NoDup (map a_id (c :: l)) /\ incl (c :: l) (all_alts s).
  Proof.
    unfold search_order. intros H ND.
    assert (NDc : NoDup (map a_id (st_cons s))).
    { unfold all_alts in ND. rewrite map_app in ND. eapply nodup_app_l; exact ND. }
    assert (Ic : incl (st_cons s) (all_alts s)) by (unfold all_alts; apply incl_appl, incl_refl).
    destruct (negb (String.eqb cur "")).
    - apply bind_ok in H as (choice & F & H). apply bind_ok in H as ([l1 g1] & O & H).
      inversion H; subst; clear H. cbn [fst snd] in *.
      apply fetch_alt_spec in F as [Fi Fid]. apply order_alternatives_perm in O.
      destruct (remove_alt_nodup (a_id c) _ NDc) as [A B]. split.
      + eapply Permutation_NoDup; [apply Permutation_map, perm_skip, O|].
        cbn [map]. constructor; assumption.
      + intros x [Hx|Hx]; [subst; exact Fi|].
        apply Ic, (remove_alt_incl (a_id c)). eapply Permutation_in; [apply Permutation_sym, O|exact Hx].
    - apply bind_ok in H as ([l1 g1] & O & H). cbn [fst snd] in H.
      destruct l1 as [|x r]; [discriminate|]. inversion H; subst; clear H.
      apply order_alternatives_perm in O. split.
      + eapply Permutation_NoDup; [apply Permutation_map, O|exact NDc].
      + intros y Hy. apply Ic. eapply Permutation_in; [apply Permutation_sym, O|exact Hy].
  Qed.
End Search.

(** ** The checker accepts every list of entries that is a reversed tournament chain *)
Section Checker.
  Context {N : Num} {L : OrdLaws N}.

  Lemma find_entry_split id eo p2 : forall p1,
    ~ In id (map eid p1) -> eid eo = id -> find_entry id (p1 ++ eo :: p2) = Some eo.
  Proof.
    unfold find_entry. induction p1 as [|a p1 IH]; intros Hn He; cbn [app find].
    - rewrite He, String.eqb_refl. reflexivity.
    - destruct (String.eqb (eid a) id) eqn:E.
      + apply String.eqb_eq in E. exfalso. apply Hn. now left.
      + apply IH; [|exact He]. intros C. apply Hn. now right.
  Qed.

  Lemma index_of_split id eo p2 : forall p1 k,
    ~ In id (map eid p1) -> eid eo = id -> index_of id (p1 ++ eo :: p2) k = Some (k + List.length p1)%nat.
  Proof.
    induction p1 as [|a p1 IH]; intros k Hn He; cbn [app index_of List.length].
    - rewrite He, String.eqb_refl. f_equal. lia.
    - destruct (String.eqb (eid a) id) eqn:E.
      + apply String.eqb_eq in E. exfalso. apply Hn. now left.
      + rewrite IH; [f_equal; lia| |exact He]. intros C. apply Hn. now right.
  Qed.

  Lemma check_entry_ok cw p1 eo p2 e post v cv :
    NoDup (map eid (p1 ++ eo :: p2 ++ e :: post)) ->
    eid eo <> "" ->
    e_eval e = EMajority v (eid eo) cv ->
    compare_alts cw (e_alt e) (e_alt eo) = Ok (v, cv) ->
    nleb v (nadd cv c_eps6) = true ->
    check_entry cw (p1 ++ eo :: p2 ++ e :: post) (List.length (p1 ++ eo :: p2)) e = true.
  Proof.
    intros ND Hne Hev Hsc Hle.
    assert (Hn1 : ~ In (eid eo) (map eid p1)).
    { rewrite map_app in ND. cbn [map] in ND. apply NoDup_remove_2 in ND.
      intros C. apply ND. apply in_or_app. now left. }
    assert (Hn2 : eid eo <> eid e).
    { rewrite map_app in ND. cbn [map] in ND. apply NoDup_remove_2 in ND.
      intros C. apply ND. apply in_or_app. right. rewrite map_app. apply in_or_app. right.
      cbn [map]. left. symmetry. exact C. }
    unfold check_entry. rewrite Hev.
    apply String.eqb_neq in Hne. rewrite Hne.
    rewrite (find_entry_split (eid eo) eo _ p1 Hn1 eq_refl).
    rewrite (index_of_split (eid eo) eo _ p1 0 Hn1 eq_refl).
    apply String.eqb_neq in Hn2. rewrite Hn2. unfold scores. rewrite Hsc, !same_refl, Hle.
    cbn [negb andb]. apply orb_true_iff. left. apply Nat.ltb_lt.
    rewrite app_length. cbn [List.length]. lia.
  Qed.

  Lemma check_entries_all cw obs :
    (forall pre e post, obs = pre ++ e :: post -> check_entry cw obs (List.length pre) e = true) ->
    forall post pre, obs = pre ++ post -> check_entries cw obs (List.length pre) post = true.
  Proof.
    intros H. induction post as [|a post IH]; intros pre E; cbn [check_entries]; [reflexivity|].
    rewrite (H pre a post E). cbn [andb].
    specialize (IH (pre ++ [a])). rewrite app_length in IH. cbn [List.length] in IH.
    rewrite Nat.add_1_r in IH. apply IH. rewrite <- app_assoc. exact E.
  Qed.

  Lemma eid_strip obs : map eid obs = map a_id (map fst (map strip obs)).
  Proof. rewrite !map_map. apply map_ext. reflexivity. Qed.

  Lemma tournament_check cw c fin F obs :
    map strip obs = rev (F ++ [(c, EMajority fin "" nzero)]) ->
    chain cw c F ->
    NoDup (map a_id (map fst F ++ [c])) ->
    ~ In "" (map a_id (map fst F ++ [c])) ->
    exists first rest, obs = first :: rest /\ m_with first = "" /\ check_entries cw obs 0 obs = true.
  Proof.
    intros Hobs Hch ND Hne.
    assert (Hids : Permutation (map eid obs) (map a_id (map fst F ++ [c]))).
    { rewrite eid_strip, Hobs, map_rev, map_rev, map_app. cbn [map fst].
      apply Permutation_sym, Permutation_rev. }
    assert (NDo : NoDup (map eid obs)).
    { eapply Permutation_NoDup; [apply Permutation_sym, Hids|exact ND]. }
    assert (Hneo : forall x, In x obs -> eid x <> "").
    { intros x Hx C. apply Hne. eapply Permutation_in; [exact Hids|].
      rewrite <- C. apply in_map, Hx. }
    rewrite rev_app_distr in Hobs. cbn [rev app] in Hobs.
    destruct obs as [|first rest]; [discriminate|]. cbn [map] in Hobs.
    injection Hobs as Hfa Hfe Hrest.
    exists first, rest. split; [reflexivity|]. split.
    { unfold m_with. rewrite Hfe. reflexivity. }
    apply (check_entries_all cw (first :: rest)) with (pre := []); [|reflexivity].
    intros pre e post E. destruct pre as [|p0 pre'].
    - cbn [app] in E. injection E as E1 E2. subst e.
      unfold check_entry. rewrite Hfe. reflexivity.
    - cbn [app] in E. injection E as E1 E2. subst p0.
      rewrite E2, map_app in Hrest. cbn [map] in Hrest.
      assert (HF : F = rev (map strip post) ++ strip e :: rev (map strip pre')).
      { rewrite <- (rev_involutive F), <- Hrest, rev_app_distr. cbn [rev].
        rewrite <- app_assoc. reflexivity. }
      destruct (chain_split cw c F _ _ _ Hch HF) as (v & o & cv & A & B & C & D).
      cbn [strip fst snd] in A, C.
      assert (Ho : exists eo, In eo (first :: pre') /\ e_alt eo = o).
      { apply in_app_or in B as [B|[B|[]]].
        - rewrite map_rev in B. apply in_rev in B. rewrite map_map in B.
          apply in_map_iff in B as (eo & B1 & B2). exists eo. split; [now right|exact B1].
        - exists first. split; [now left|]. rewrite Hfa. exact B. }
      destruct Ho as (eo & Hin & Hoa). apply in_split in Hin as (p1 & p2 & Hp).
      assert (Eobs : first :: rest = p1 ++ eo :: p2 ++ e :: post).
      { rewrite E2. change (first :: pre' ++ e :: post) with ((first :: pre') ++ e :: post).
        rewrite Hp, <- app_assoc. reflexivity. }
      rewrite Hp. rewrite Eobs. apply check_entry_ok with (v := v) (cv := cv).
      + rewrite <- Eobs. exact NDo.
      + apply Hneo. rewrite Eobs. apply in_or_app. right. now left.
      + unfold eid. rewrite Hoa. exact A.
      + rewrite Hoa. exact C.
      + exact D.
  Qed.
End Checker.

(** ** On exact rationals: symmetry of the duel, the invariant of the fold, the main theorem *)
Section OnQc.
  Notation alt := (@alt NumQc).
  Notation wcrit := (@wcrit NumQc).
  Notation mstate := (@mstate NumQc).

  (* one step of [compare_alts] *)
  Definition cstep (a1 a2 : alt) (acc : res (Qc * Qc)) (c : wcrit) : res (Qc * Qc) :=
    do sc <- acc;
    do v1 <- @crit_value NumQc a1 (fst c);
    do v2 <- @crit_value NumQc a2 (fst c);
    if @floats_are_equal NumQc v1 v2 (@c_eps6 NumQc) then Ok sc
    else if @nltb NumQc v2 v1 then Ok (@nadd NumQc (fst sc) (snd c), snd sc)
    else Ok (fst sc, @nadd NumQc (snd sc) (snd c)).

  Lemma compare_alts_fold cw a1 a2 :
    @compare_alts NumQc cw a1 a2 = fold_left (cstep a1 a2) cw (Ok (@nzero NumQc, @nzero NumQc)).
  Proof. reflexivity. Qed.

  Lemma cfold_err a1 a2 : forall cw e, fold_left (cstep a1 a2) cw (Err e) = Err e.
  Proof. induction cw as [|c cw IH]; intros e; cbn [fold_left]; [reflexivity|]. apply IH. Qed.

  Lemma cstep_sym a1 a2 c x y x1 y1 :
    cstep a1 a2 (Ok (x, y)) c = Ok (x1, y1) -> cstep a2 a1 (Ok (y, x)) c = Ok (y1, x1).
  Proof.
    unfold cstep. cbn [bind fst snd].
    destruct (@crit_value NumQc a1 (fst c)) as [v1|e]; cbn [bind]; [|discriminate].
    destruct (@crit_value NumQc a2 (fst c)) as [v2|e]; cbn [bind]; [|discriminate].
    rewrite (fae_sym v2 v1).
    destruct (@floats_are_equal NumQc v1 v2 (@c_eps6 NumQc)) eqn:E.
    - intros H; inversion H; subst. reflexivity.
    - destruct (@nltb NumQc v2 v1) eqn:Lt.
      + rewrite (ltb_asym_qc _ _ Lt). intros H; inversion H; subst. reflexivity.
      + rewrite (not_fae_not_lt _ _ E Lt). intros H; inversion H; subst. reflexivity.
  Qed.

  Lemma cfold_sym a1 a2 : forall cw x y x' y',
    fold_left (cstep a1 a2) cw (Ok (x, y)) = Ok (x', y') ->
    fold_left (cstep a2 a1) cw (Ok (y, x)) = Ok (y', x').
  Proof.
    induction cw as [|c cw IH]; intros x y x' y' H; cbn [fold_left] in *.
    - inversion H; subst. reflexivity.
    - destruct (cstep a1 a2 (Ok (x, y)) c) as [[x1 y1]|e] eqn:E.
      + rewrite (cstep_sym _ _ _ _ _ _ _ E). apply IH. exact H.
      + rewrite cfold_err in H. discriminate.
  Qed.

  (** (a) the duel is symmetric *)
  Theorem compare_alts_sym : forall (cw : list wcrit) (a b : alt) (x y : Qc),
    @compare_alts NumQc cw a b = Ok (x, y) -> @compare_alts NumQc cw b a = Ok (y, x).
  Proof. intros cw a b x y. rewrite !compare_alts_fold. apply cfold_sym. Qed.

  (** (b) one step of the tournament keeps the invariant *)
  Definition mstep (cw : list wcrit) (policy : string) (acc : res (mstate * @rng NumQc)) (another : alt)
    : res (mstate * @rng NumQc) :=
    do sg <- acc;
    do sc <- @compare_alts NumQc cw (ms_current (fst sg)) another;
    @take_better NumQc policy (fst sc) (snd sc) (fst sg) another (snd sg).

  Lemma mfold_err cw policy : forall l e, fold_left (mstep cw policy) l (Err e) = Err e.
  Proof. induction l as [|c l IH]; intros e; cbn [fold_left]; [reflexivity|]. apply IH. Qed.

  Lemma mstep_inv cw policy st g another st' g' rest :
    mstep cw policy (Ok (st, g)) another = Ok (st', g') ->
    @chain NumQc cw (ms_current st) (flat st) ->
    @chain NumQc cw (ms_current st') (flat st') /\
    Permutation (pool st' rest) (pool st (another :: rest)).
  Proof.
    unfold mstep. cbn [bind fst snd]. intros H C.
    destruct (@compare_alts NumQc cw (ms_current st) another) as [[s1 s2]|e] eqn:S12; cbn [bind] in H;
      [|discriminate].
    cbn [fst snd] in H. pose proof (compare_alts_sym _ _ _ _ _ S12) as S21.
    apply take_better_cases in H as (r & v & -> & Hr).
    unfold pool. rewrite flat_set_eval. cbn [set_eval ms_current].
    apply (resolve_keeps cw r s1 s2 st another rest C S12 S21).
    destruct r.
    - destruct Hr as [Hr|Hr]; [apply fae_leb_r, Hr|apply ltb_leb_eps, Hr].
    - destruct Hr as [Hr|Hr]; [apply fae_leb_r, Hr|apply ltb_leb_eps, Hr].
    - destruct Hr as [Hr|Hr]; [apply fae_leb_l, Hr|apply nltb_false_leb_eps, Hr].
  Qed.

  Lemma mfold_inv cw policy : forall rest st g st' g',
    fold_left (mstep cw policy) rest (Ok (st, g)) = Ok (st', g') ->
    @chain NumQc cw (ms_current st) (flat st) ->
    @chain NumQc cw (ms_current st') (flat st') /\ Permutation (pool st' []) (pool st rest).
  Proof.
    induction rest as [|another rest IH]; intros st g st' g' H C; cbn [fold_left] in H.
    - inversion H; subst. split; [exact C|reflexivity].
    - destruct (mstep cw policy (Ok (st, g)) another) as [[st1 g1]|e] eqn:E.
      + destruct (mstep_inv _ _ _ _ _ _ _ rest E C) as [C1 P1].
        destruct (IH _ _ _ _ H C1) as [C2 P2]. split; [exact C2|].
        etransitivity; [exact P2|exact P1].
      + rewrite mfold_err in H. discriminate.
  Qed.

  (** The statement without "no empty id" is false: the winner has the empty id, so the loser's
      [comparedWith] is "" although it is not ranked first. *)
  Definition cex_crit : @crit NumQc := {| c_id := "c1"; c_type := TGain; c_range := None |}.
  Definition cex_a0 : alt := {| a_id := ""; a_vals := [("c1", Q2Qc 2)] |}.
  Definition cex_a1 : alt := {| a_id := "x"; a_vals := [("c1", Q2Qc 1)] |}.
  Definition cex_state : @state NumQc :=
    {| st_notcons := []; st_cons := [cex_a0; cex_a1]; st_crits := [cex_crit];
       st_params := PMajority [("c1", Q2Qc 1)] "" 0%Z false "" |}.
  Definition cex_env : @env NumQc := {| env_streams := []; env_exp := [] |}.

  Theorem majority_empty_id_counterexample :
    NoDup (map a_id (all_alts cex_state)) /\
    exists r, @majority_evaluate NumQc cex_env cex_state = Ok r /\ @C11_ok NumQc cex_state r = false.
  Proof.
    split.
    - cbn. constructor; [intros [C|[]]; discriminate|]. constructor; [intros []|constructor].
    - eexists. split; [vm_compute; reflexivity|vm_compute; reflexivity].
  Qed.

  Theorem majority_passes_checker_as_stated_refuted :
    ~ (forall (e : @env NumQc) (s : @state NumQc) (r : list (@entry NumQc)),
         NoDup (map a_id (all_alts s)) ->
         @majority_evaluate NumQc e s = Ok r -> @C11_ok NumQc s r = true).
  Proof.
    intros H. destruct majority_empty_id_counterexample as (ND & r & Hr & Hc).
    rewrite (H cex_env cex_state r ND Hr) in Hc. discriminate.
  Qed.

  (** Main theorem, with the additional hypothesis [Hnonempty] *)
  Theorem majority_passes_checker :
    forall (e : @env NumQc) (s : @state NumQc) (r : list (@entry NumQc)),
      NoDup (map a_id (all_alts s)) ->
      forall Hnonempty : ~ In "" (map a_id (all_alts s)),
      @majority_evaluate NumQc e s = Ok r -> @C11_ok NumQc s r = true.
  Proof.
    intros e s r ND Hids H. unfold majority_evaluate in H. unfold C11_ok.
    destruct (st_params s) as [| | | |w cur seed rnd drawp| |]; try discriminate.
    apply bind_ok in H as (cw & Hcw & H). rewrite Hcw.
    apply bind_ok in H as ([[current considered] g1] & Hso & H).
    destruct (negb _) in H; [discriminate|].
    apply bind_ok in H as ([st g2] & Hfold & H). cbn [fst] in H.
    inversion H as [Hr]; clear H.
    destruct (search_order_spec _ _ _ _ _ _ _ Hso ND) as [ND1 Inc1].
    match type of Hfold with fold_left _ _ (Ok (?st0, _)) = _ =>
      destruct (mfold_inv cw _ considered st0 g1 st g2 Hfold I) as [Hch Hperm] end.
    unfold pool in Hperm. cbn [flat ms_worse ms_same ms_current List.concat app map] in Hperm.
    assert (Hstrip : map strip (prepare_ranking (ms_worse st ++ [ms_same st ++ [(ms_current st, EMajority (ms_eval st) "" (@nzero NumQc))]]))
                     = rev (flat st ++ [(ms_current st, EMajority (ms_eval st) "" (@nzero NumQc))])).
    { rewrite prepare_ranking_strip, concat_app. cbn [List.concat]. rewrite app_nil_r.
      unfold flat. rewrite app_assoc. reflexivity. }
    destruct (@tournament_check NumQc OrdQc cw _ _ _ _ Hstrip Hch) as (first & rest & Er & Hw & Hck).
    - eapply Permutation_NoDup; [apply Permutation_map, Permutation_sym, Hperm|exact ND1].
    - intros C. apply Hids. apply in_map_iff in C as (x & Hx & Hi). apply in_map_iff. exists x.
      split; [exact Hx|]. apply Inc1. eapply Permutation_in; [exact Hperm|exact Hi].
    - change (Q2Qc 0) with (@nzero NumQc). rewrite Er. rewrite Er in Hck. rewrite Hw, Hck. reflexivity.
  Qed.
End OnQc.

(** ** (c, complement) the links of an entry: ids of the previous group, then the other members of its
    own group (the tie-group disjunct of the checker; not needed above, the position disjunct suffices) *)
Section Links.
  Context {N : Num}.

  Lemma group_entries_links prev : forall after before e,
    In e (group_entries prev before after) ->
    exists b2 a2, before ++ after = b2 ++ strip e :: a2 /\
                  e_links e = prev ++ map (fun x => a_id (fst x)) b2 ++ map (fun x => a_id (fst x)) a2.
  Proof.
    induction after as [|[a ev] r IH]; intros before e H; cbn [group_entries] in H; [destruct H|].
    destruct H as [H|H].
    - subst e. exists before, r. split; reflexivity.
    - destruct (IH _ _ H) as (b2 & a2 & E & Lk). exists b2, a2. split; [|exact Lk].
      rewrite <- E, <- app_assoc. reflexivity.
  Qed.
End Links.


Print Assumptions take_better_policy_spec.
Print Assumptions compare_alts_sym.
Print Assumptions mfold_inv.
Print Assumptions majority_empty_id_counterexample.
Print Assumptions majority_passes_checker_as_stated_refuted.
Print Assumptions majority_passes_checker.
Print Assumptions tournament_check.
Print Assumptions search_order_spec.
Print Assumptions group_entries_links.
