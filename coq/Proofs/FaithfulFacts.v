(** * C09, "what a bias reports about the data it produced is exactly what the next stage received": the model passes
    the checker [report_faithful] of Check/BiasCheckers.v at every stage, and what the checker means.

    Carrier: any [N : Num]; [OrdLaws] is needed only for [nsame x x = true] (the checker compares values with [nsame]);
    omission needs no law at all. [_Qc] corollaries and all examples are on [NumQc].

    - generic: [built_map] (a map built by a fold of [mset]s), [values_faithful_intro], [report_vals_faithful];
    - per bias: [omission_faithful] (hyp.: distinct criterion ids), [fatigue_faithful] (no hyp.),
      [reversal_faithful], [concealment_faithful], [mixing_faithful] (hyp.: distinct alternative ids),
      [anchoring_faithful] (distinct alternative ids, needed for the new-criterion applier only);
      the hypotheses cannot be dropped: module [Counterexamples];
    - [apply_bias_faithful], [apply_bias_nodup_alts], [faithful_chain], [process_biases_faithful],
      [faithful_chain_states], [process_biases_faithful_states];
    - the checker declaratively: [alt_equal], [value_received], [values_received], [report_received],
      [report_faithful_iff], [report_faithful_sound], [values_received_present], [values_received_inv],
      [fatigue_sound], [omission_sound], [concealment_received_inv]; on NumQc [values_received_Qc];
    - [Examples]: fatigue then reversal on 2 criteria / 3 alternatives, every other bias. *)
From Coq Require Import ZArith Bool List String Permutation Lia.
From Coq Require QArith Qcanon.
From RDM Require Import Base.Num Base.NumQc Base.Util Model.Data Model.Rank Model.Utility Model.Levels Model.Heuristics
  Model.Electre Model.Listeners Model.Biases Model.Anchoring Model.Pipeline Check.Stage Check.BiasCheckers
  Proofs.SortFacts Proofs.WfFacts Proofs.LevelFacts Proofs.InvFacts Proofs.BiasStructFacts Proofs.ReversalFacts
  Proofs.ReportedFacts.
Import ListNotations.
Local Open Scope string_scope.
Local Open Scope list_scope.

(** ** 1. Generic facts *)
Lemma NoDup_snoc_inv {A} (l : list A) x : NoDup (l ++ [x]) -> NoDup l /\ ~ In x l.
Proof. intros D. apply NoDup_remove in D. now rewrite app_nil_r in D. Qed.

Lemma last_cons_default {A} : forall (l : list A) x d d', last (x :: l) d = last (x :: l) d'.
Proof. induction l as [|y r IH]; intros x d d'; [reflexivity|]. change (last (y :: r) d = last (y :: r) d'). apply IH. Qed.

Section MapBuild.
  Context {A : Type}.

  Lemma mset_new_nodup k (v : A) : forall m, NoDup (mkeys m) -> ~ In k (mkeys m) -> NoDup (mkeys (mset k v m)).
  Proof.
    induction m as [|[k' v'] m IH]; intros D NI; cbn [mset].
    - cbn. constructor; [intros []|constructor].
    - unfold mkeys in D, NI. cbn [map fst] in D, NI. inversion D as [|? ? Hn Hr]; subst.
      destruct (String.eqb k k') eqn:E.
      { apply String.eqb_eq in E. subst k'. exfalso. apply NI. now left. }
      destruct (String.ltb k k').
      + unfold mkeys. cbn [map fst]. constructor; [exact NI|exact D].
      + unfold mkeys. cbn [map fst]. constructor.
        * intros Hin. change (In k' (mkeys (mset k v m))) in Hin. apply mkeys_mset in Hin as [->|Hin].
          -- apply NI. now left.
          -- now apply Hn.
        * apply IH; [exact Hr|]. intros Hk. apply NI. now right.
  Qed.

  (* a map built from the empty one by a fold whose every step sets the key of its element *)
  Lemma built_map {B} (key : B -> string) (step : smap A -> B -> res (smap A)) :
    (forall m x m', step m x = Ok m' -> exists v, m' = mset (key x) v m) ->
    forall l m', fold_left (fun acc x => do m <- acc; step m x) l (Ok []) = Ok m' ->
      (forall k, In k (mkeys m') <-> In k (map key l)) /\
      (NoDup (map key l) -> NoDup (mkeys m') /\ List.length m' = List.length l).
  Proof.
    intros Hstep l m' H.
    apply (fold_res_ind step
             (fun m done => (forall k, In k (mkeys m) <-> In k (map key done)) /\
                            (NoDup (map key done) -> NoDup (mkeys m) /\ List.length m = List.length done)))
      with (done := []) in H.
    - exact H.
    - intros m x m1 done [I1 I2] E. destruct (Hstep _ _ _ E) as [v ->]. split.
      + intros k. rewrite mkeys_mset, map_app, in_app_iff, I1. cbn [map In].
        split; [intros [->|Hk]; auto|intros [Hk|[<-|[]]]; auto].
      + rewrite map_app. cbn [map]. intros D. apply NoDup_snoc_inv in D as [D NI].
        destruct (I2 D) as [D2 L2].
        assert (NK : ~ In (key x) (mkeys m)) by (now rewrite I1).
        split; [now apply mset_new_nodup|].
        rewrite ReversalFacts.mset_length_new by exact NK. rewrite app_length, L2. cbn [List.length]. lia.
    - cbn. split; [tauto|]. intros _. split; [constructor|reflexivity].
  Qed.
End MapBuild.

Section Faithful.
  Context {N : Num}.

  Lemma has_crit_iff id (cs : list crit) : has_crit id cs = true <-> In id (map c_id cs).
  Proof.
    unfold has_crit. rewrite existsb_exists, in_map_iff. split.
    - intros (c & Hc & E). apply String.eqb_eq in E. now exists c.
    - intros (c & E & Hc). exists c. split; [exact Hc|]. now apply String.eqb_eq.
  Qed.

  Lemma has_crit_false_iff id (cs : list crit) : has_crit id cs = false <-> ~ In id (map c_id cs).
  Proof. rewrite <- has_crit_iff. destruct (has_crit id cs); split; congruence. Qed.

  Lemma mhas_some {A} k (m : smap A) : mhas k m = true <-> exists v, mget k m = Some v.
  Proof.
    unfold mhas. destruct (mget k m) as [v|]; split; intros H; try reflexivity; try discriminate.
    - now exists v.
    - destruct H as [w Hw]. discriminate.
  Qed.

  (* both halves of the new state are fetched from [new] *)
  Lemma updated_all (cons ncons new c' n' : list alt) :
    update_alts cons new = Ok c' -> update_alts ncons new = Ok n' ->
    incl (c' ++ n') new /\ List.length (c' ++ n') = List.length (cons ++ ncons).
  Proof.
    intros U1 U2. split.
    - intros a Ha. apply in_app_or in Ha as [Ha|Ha].
      + exact (update_alts_incl _ _ _ U1 a Ha).
      + exact (update_alts_incl _ _ _ U2 a Ha).
    - unfold update_alts in U1, U2. apply mapM_length in U1. apply mapM_length in U2.
      rewrite !app_length. lia.
  Qed.
End Faithful.

Section FaithfulL.
  Context {N : Num} {L : OrdLaws N}.

  Lemma option_nsame_refl (o : option num) : option_eqb nsame o o = true.
  Proof. destruct o; cbn [option_eqb]; [apply same_refl|reflexivity]. Qed.

  (* the general way to establish [values_faithful] *)
  Lemma values_faithful_intro cid (vals : smap num) (after : state) (new : list alt) :
    incl (all_alts after) new -> List.length (all_alts after) = List.length new ->
    (forall a, In a new -> mget (a_id a) vals = mget cid (a_vals a)) ->
    List.length vals = List.length new -> values_faithful cid vals after = true.
  Proof.
    intros I Ln V Lv. unfold values_faithful. apply andb_true_iff. split.
    - apply forallb_forall. intros a Ha. rewrite (V a (I a Ha)). apply option_nsame_refl.
    - apply Nat.eqb_eq. congruence.
  Qed.

  (* the report computed by folding over the rewritten alternatives (reversal, anchoring, and - see below - concealment) *)
  Lemma report_vals_faithful cid (new : list alt) (after : state) :
    NoDup (map a_id new) -> (forall a, In a new -> exists v, mget cid (a_vals a) = Some v) ->
    incl (all_alts after) new -> List.length (all_alts after) = List.length new ->
    values_faithful cid (rev_report_vals cid new) after = true.
  Proof.
    intros D V I Ln. apply (values_faithful_intro cid _ after new I Ln).
    - intros a Ha. unfold rev_report_vals. apply rev_report_in; auto.
    - unfold rev_report_vals. rewrite rev_report_length; [reflexivity|exact D| |exact V].
      intros a _ [].
  Qed.
End FaithfulL.

(** ** 2. Omission, reversal, fatigue *)
Section Plain.
  Context {N : Num}.

  (* the values kept by an omission are values of kept criteria only *)
  Lemma with_criteria_only_only a cs a' : with_criteria_only a cs = Ok a' ->
    forall k, mhas k (a_vals a') = true -> In k (map c_id cs).
  Proof.
    unfold with_criteria_only. intros H. binv H. injection H as <-. cbn [a_vals].
    refine (fold_res_ind (fun m c => do v <- raw_value a c; Ok (mset (c_id c) v m))
              (fun m done => forall k, mhas k m = true -> In k (map c_id done)) _ cs [] [] x _ E).
    - intros m c m' done I F. binv F. injection F as <-. intros k Hk. rewrite map_app. apply in_or_app.
      apply mhas_mset_iff in Hk as [->|Hk]; [right; now left|left; now apply I].
    - intros k Hk. discriminate.
  Qed.

  (** requested (no [nsame] involved: any carrier) *)
  Theorem omission_faithful e cur p st rep :
    apply_omission e cur p = Ok (st, rep) -> NoDup (map c_id (st_crits cur)) -> report_faithful st rep = true.
  Proof.
    intros H D. apply omission_shape in H as (sorted & k & O & C & -> & _ & M1 & M2).
    apply InvFacts.order_criteria_perm in O.
    assert (DS : NoDup (map c_id (firstn k sorted) ++ map c_id (skipn k sorted))).
    { rewrite <- map_app, firstn_skipn. eapply Permutation_NoDup; [|exact D]. symmetry. now apply Permutation_map. }
    cbn [report_faithful]. apply forallb_forall. intros c Hc.
    assert (NI : ~ In (c_id c) (map c_id (st_crits st))).
    { rewrite C. intros Hin. eapply nodup_app_disjoint; [exact DS| |exact Hin]. now apply in_map. }
    apply andb_true_iff. split.
    - apply negb_true_iff. now apply has_crit_false_iff.
    - apply forallb_forall. intros a Ha. apply negb_true_iff.
      destruct (mhas (c_id c) (a_vals a)) eqn:M; [|reflexivity].
      exfalso. apply NI. unfold all_alts in Ha. apply in_app_or in Ha as [Ha|Ha].
      + destruct (mapM_In_inv _ _ _ M1 _ Ha) as (a0 & _ & W). eapply with_criteria_only_only; eassumption.
      + destruct (mapM_In_inv _ _ _ M2 _ Ha) as (a0 & _ & W). eapply with_criteria_only_only; eassumption.
  Qed.

  Lemma fatigue_report e cur p st rep : apply_fatigue e cur p = Ok (st, rep) ->
    exists f, rep = RFatigue f (st_cons st) (st_notcons st).
  Proof.
    unfold apply_fatigue. intros H. binv H.
    destruct (negb (valid_bounding p)); [discriminate|].
    binv H. binv H. destruct x1 as [[consd gv] gs]. binv H. destruct x1 as [[nconsd gv2] gs2].
    injection H as <- <-. cbn [st_cons st_notcons]. eexists. reflexivity.
  Qed.

  (* every rewritten alternative holds a value for every reversed criterion *)
  Lemma rev_alt_has items a a' : rev_alt items a = Ok a' ->
    forall cr, In cr items -> exists v, mget (c_id (fst cr)) (a_vals a') = Some v.
  Proof.
    unfold rev_alt. intros H. binv H. injection H as <-. cbn [a_vals]. intros cr Hcr. apply mhas_some.
    unfold rev_step in E.
    eapply (fold_keys (fun cr : crit * (num * num) => c_id (fst cr))) in E; [exact (proj2 E cr Hcr)|].
    intros m0 c m' F. cbn beta in F. binv F. injection F as <-. split.
    - intros k. apply mhas_mset_mono.
    - apply mhas_mset_same.
  Qed.
End Plain.

Section PlainL.
  Context {N : Num} {L : OrdLaws N}.

  (** requested *)
  Theorem fatigue_faithful e cur p st rep :
    apply_fatigue e cur p = Ok (st, rep) -> report_faithful st rep = true.
  Proof.
    intros H. apply fatigue_report in H as [f ->]. cbn [report_faithful]. now rewrite !alts_same_refl.
  Qed.

  (** requested; false without the hypothesis, see [Counterexamples.reversal_duplicate_ids] *)
  Theorem reversal_faithful e cur p st rep :
    apply_reversal e cur p = Ok (st, rep) -> NoDup (map a_id (all_alts cur)) -> report_faithful st rep = true.
  Proof.
    rewrite apply_reversal_selected. intros H D. binv H.
    apply reverse_full_inv in H as (items & new_all & R & M & U1 & U2 & _ & _ & ->).
    destruct (updated_all _ _ _ _ _ U1 U2) as [I Ln].
    assert (Ids : map a_id new_all = map a_id (all_alts cur)).
    { eapply mapM_map; [|exact M]. intros a a'. apply rev_alt_id. }
    assert (Ln' : List.length (all_alts st) = List.length new_all).
    { unfold all_alts at 1. rewrite Ln. apply mapM_length in M. symmetry. exact M. }
    cbn [report_faithful]. apply forallb_forall. intros [[c r] vals] Hin.
    apply rev_report_in_inv in Hin as [Hin ->].
    apply report_vals_faithful; [now rewrite Ids| |exact I|exact Ln'].
    intros a' Ha'. destruct (mapM_In_inv _ _ _ M _ Ha') as (a & _ & Ra).
    exact (rev_alt_has _ _ _ Ra (c, r) Hin).
  Qed.
End PlainL.

(** ** 3. Concealment and mixing *)
Section Added.
  Context {N : Num}.

  (* the fold of the concealment: the reported values are the fold of the report over the extended alternatives *)
  Lemma conceal_fold_report (id : string) (p : bprops) (rng_ : num * num) (dif : num) : forall sorted acc0 fin,
    fold_left (fun acc a =>
                 do st <- acc;
                 let '(alts, vals, g1) := st in
                 do dg <- draw g1;
                 do a' <- with_value a id (bound_value p rng_ (nadd (nmul (fst dg) dif) (fst rng_)));
                 Ok (alts ++ [a'], mset (a_id a) (bound_value p rng_ (nadd (nmul (fst dg) dif) (fst rng_))) vals, snd dg))
              sorted (Ok acc0) = Ok fin ->
    exists l, fst (fst fin) = fst (fst acc0) ++ l /\ Forall2 (ext_rel id) sorted l /\
      snd (fst fin) = fold_left (fun m a => match mget id (a_vals a) with Some v => mset (a_id a) v m | None => m end)
                                l (snd (fst acc0)).
  Proof.
    induction sorted as [|a r IH]; intros acc0 fin H; cbn [fold_left bind] in H.
    - injection H as <-. exists []. rewrite app_nil_r. split; [reflexivity|]. split; [constructor|reflexivity].
    - destruct acc0 as [[alts vals] g1].
      destruct (draw g1) as [dg|] eqn:Dg; cbn [bind] in H; [|rewrite fold_res_err in H; discriminate].
      destruct (with_value a id _) as [a'|] eqn:W; cbn [bind] in H; [|rewrite fold_res_err in H; discriminate].
      apply IH in H as (l & E1 & F & V). cbn [fst snd] in *. exists (a' :: l).
      apply with_value_spec in W as [W1 W2]. split; [|split].
      + rewrite E1, <- app_assoc. reflexivity.
      + constructor; [|exact F]. eexists. split; eassumption.
      + cbn [fold_left]. rewrite W2. cbn [a_vals a_id]. rewrite mget_mset_same. exact V.
  Qed.

  Lemma concealment_report_shape e cur p st rep : apply_concealment e cur p = Ok (st, rep) ->
    exists newc ag new_all,
      Forall2 (ext_rel (c_id newc)) (isort alt_lt (all_alts cur)) new_all /\
      update_alts (st_cons cur) new_all = Ok (st_cons st) /\
      update_alts (st_notcons cur) new_all = Ok (st_notcons st) /\
      add_criterion (st_crits cur) newc = Ok (st_crits st) /\
      rep = RConcealment newc (rev_report_vals (c_id newc) new_all) ag.
  Proof.
    unfold apply_concealment. intros H.
    destruct (neqb (bp_new_scaling p) nzero); [discriminate|].
    destruct (negb (valid_bounding p)); [discriminate|].
    cbv zeta in H. binv H. binv H. binv H. binv H. destruct x2 as [[new_all values] g2].
    binv H. binv H. binv H. binv H. binv H. injection H as <- <-.
    cbn [st_crits st_params st_cons st_notcons].
    apply conceal_fold_report in E2 as (l & E2 & F & V). cbn [fst snd app] in E2, V. subst l. subst values.
    do 3 eexists. split; [exact F|]. split; [eassumption|]. split; [eassumption|]. split; [eassumption|].
    reflexivity.
  Qed.

  Lemma ext_rel_id cid (a a' : alt) : ext_rel cid a a' -> a_id a' = a_id a.
  Proof. intros (v & _ & ->). reflexivity. Qed.

  (* what the alternatives extended with one value look like, under pairwise distinct ids *)
  Lemma extended_all (cur st : state) cid base new_all :
    NoDup (map a_id (all_alts cur)) -> Permutation base (all_alts cur) ->
    Forall2 (ext_rel cid) base new_all ->
    update_alts (st_cons cur) new_all = Ok (st_cons st) ->
    update_alts (st_notcons cur) new_all = Ok (st_notcons st) ->
    NoDup (map a_id new_all) /\ (forall a, In a new_all -> exists v, mget cid (a_vals a) = Some v) /\
    incl (all_alts st) new_all /\ List.length (all_alts st) = List.length new_all.
  Proof.
    intros D Pb F U1 U2. destruct (updated_all _ _ _ _ _ U1 U2) as [I Ln].
    assert (Ids : map a_id base = map a_id new_all).
    { eapply Forall2_map_eq; [|exact F]. intros x y R. symmetry. eapply ext_rel_id. exact R. }
    split; [|split; [|split]].
    - rewrite <- Ids. eapply Permutation_NoDup; [|exact D]. symmetry. now apply Permutation_map.
    - intros a' Ha'. destruct (Forall2_In_r _ _ _ F _ Ha') as (a & _ & v & _ & ->). exists v. cbn [a_vals].
      apply mget_mset_same.
    - exact I.
    - unfold all_alts at 1. rewrite Ln. fold (all_alts cur).
      rewrite <- (Permutation_length Pb). eapply Forall2_len. exact F.
  Qed.

  Lemma added_has_crit (cs cs' : list crit) c : add_criterion cs c = Ok cs' -> has_crit (c_id c) cs' = true.
  Proof.
    intros H. apply add_criterion_spec in H as [-> _]. apply has_crit_iff. rewrite map_app. apply in_or_app.
    right. now left.
  Qed.

  (* the rescaled values of a component: one entry per alternative *)
  Lemma rescale_keys c alts target (m : smap num) : rescale_criterion c alts target = Ok m ->
    NoDup (map a_id alts) -> NoDup (mkeys m) /\ List.length m = List.length alts.
  Proof.
    unfold rescale_criterion. intros H D. binv H. cbv zeta in H.
    eapply (built_map (fun a : alt => a_id a)) in H.
    - now apply H.
    - intros m0 a m1 F. cbn beta in F. binv F. injection F as <-. eexists. reflexivity.
  Qed.

  Lemma mixing_report_shape e cur p st rep : apply_mixing e cur p = Ok (st, rep) ->
    (st = cur /\ rep = RNone) \/
    exists newc k1 k2 mixed ag new_all,
      (NoDup (map a_id (all_alts cur)) -> List.length mixed = List.length (all_alts cur)) /\
      Forall2 (fun a a' => ext_rel (c_id newc) a a' /\ mget (c_id newc) (a_vals a') = mget (a_id a) mixed)
              (all_alts cur) new_all /\
      update_alts (st_cons cur) new_all = Ok (st_cons st) /\
      update_alts (st_notcons cur) new_all = Ok (st_notcons st) /\
      add_criterion (st_crits cur) newc = Ok (st_crits st) /\
      rep = RMixing k1 k2 {| cp_id := c_id newc; cp_type := TGain; cp_values := mixed |} ag.
  Proof.
    unfold apply_mixing. intros H.
    destruct (Nat.ltb (List.length (st_crits cur)) 2).
    { injection H as <- <-. now left. }
    right.
    destruct (negb (is_probability (bp_mix_ratio p))); [discriminate|].
    cbv zeta in H. repeat binv H. injection H as <- <-.
    cbn [st_crits st_params st_cons st_notcons].
    match goal with EM : mapM _ (all_alts cur) = Ok _ |- _ => apply mapM_Forall2 in EM; rename EM into FM end.
    match goal with EV : rescale_criterion x1 _ _ = Ok _ |- _ => rename EV into R1 end.
    match goal with EX : fold_left _ _ (Ok []) = Ok _ |- _ => rename EX into MX end.
    do 6 eexists. split; [|split; [|split; [eassumption|split; [eassumption|split; [eassumption|reflexivity]]]]].
    - intros D. apply (rescale_keys _ _ _ _ R1) in D as [D1 L1]. rewrite <- L1.
      eapply (built_map (fun kv : string * num => fst kv)) in MX.
      + now apply MX.
      + intros m0 kv m1 F. cbn beta in F. binv F. injection F as <-. eexists. reflexivity.
    - eapply Forall2_imp; [|exact FM].
      intros a a' W. cbn beta in W. binv W. apply with_value_spec in W as [W1 W2]. split.
      + eexists. split; eassumption.
      + rewrite W2. cbn [a_vals]. rewrite mget_mset_same.
        match goal with EO : of_option (mget (a_id a) ?mm) EMissing = Ok _ |- _ =>
          destruct (mget (a_id a) mm); [now injection EO as ->|discriminate EO] end.
  Qed.
End Added.

Section AddedL.
  Context {N : Num} {L : OrdLaws N}.

  (** requested; false without the hypothesis, see [Counterexamples.concealment_duplicate_ids] *)
  Theorem concealment_faithful e cur p st rep :
    apply_concealment e cur p = Ok (st, rep) -> NoDup (map a_id (all_alts cur)) -> report_faithful st rep = true.
  Proof.
    intros H D. apply concealment_report_shape in H as (newc & ag & new_all & F & U1 & U2 & AC & ->).
    cbn [report_faithful]. rewrite (added_has_crit _ _ _ AC). cbn [andb].
    destruct (extended_all cur st (c_id newc) _ new_all D (isort_perm alt_lt _) F U1 U2) as (D' & V & I & Ln).
    now apply report_vals_faithful.
  Qed.

  (** requested; false without the hypothesis, see [Counterexamples.mixing_duplicate_ids] *)
  Theorem mixing_faithful e cur p st rep :
    apply_mixing e cur p = Ok (st, rep) -> NoDup (map a_id (all_alts cur)) -> report_faithful st rep = true.
  Proof.
    intros H D.
    apply mixing_report_shape in H
      as [[-> ->]|(newc & k1 & k2 & mixed & ag & new_all & Lm & F & U1 & U2 & AC & ->)]; [reflexivity|].
    cbn [report_faithful cp_id cp_values]. rewrite (added_has_crit _ _ _ AC). cbn [andb].
    assert (F' : Forall2 (ext_rel (c_id newc)) (all_alts cur) new_all).
    { eapply Forall2_imp; [|exact F]. now intros a a' [R _]. }
    destruct (extended_all cur st (c_id newc) _ new_all D (Permutation_refl _) F' U1 U2) as (D' & V & I & Ln).
    apply (values_faithful_intro _ _ _ new_all I Ln).
    - intros a' Ha'. destruct (Forall2_In_r _ _ _ F _ Ha') as (a & _ & R & Q). rewrite Q.
      now rewrite (ext_rel_id _ _ _ R).
    - rewrite (Lm D). eapply Forall2_len. exact F.
  Qed.
End AddedL.

(** ** 4. Anchoring *)
Section Anch.
  Context {N : Num}.

  Lemma anchoring_report_cases e cur p st rep : apply_anchoring e cur p = Ok (st, rep) ->
    exists refs scal sc diffs ar, rep = RAnchoring refs scal diffs ar /\
      Forall2 (fun a ad => exists x, ad = (a, [x])) (all_alts cur) diffs /\
      ((String.eqb (bp_anch_applier p) ap_inline = true /\ apply_inline cur p sc diffs = Ok (st, ar)) \/
       (String.eqb (bp_anch_applier p) ap_inline = false /\ apply_new_criterion e cur p sc diffs = Ok (st, ar))).
  Proof.
    unfold apply_anchoring. intros H.
    destruct (bp_anch_alts p) as [|aa0 aas]; [discriminate|].
    destruct (negb (known_fun (bp_anch_loss p)) || negb (known_fun (bp_anch_gain p))); [discriminate|].
    destruct (negb (String.eqb (bp_anch_applier p) ap_inline || String.eqb (bp_anch_applier p) ap_new)); [discriminate|].
    cbv zeta in H. binv H.
    destruct (negb (String.eqb (bp_anch_ref p) rp_ideal || String.eqb (bp_anch_ref p) rp_nadir)); [discriminate|].
    binv H. destruct (negb (valid_bounding p)); [discriminate|]. binv H. binv H.
    assert (FD : Forall2 (fun a ad => exists x, ad = (a, [x])) (all_alts cur) x2).
    { apply mapM_Forall2 in E2. eapply Forall2_imp; [|exact E2].
      intros a ad F. cbn beta in F. binv F. injection F as <-.
      match goal with EM : mapM _ [_] = Ok _ |- _ => cbn [mapM bind] in EM; binv EM; injection EM as <- end. eauto. }
    destruct (String.eqb (bp_anch_applier p) ap_inline) eqn:AP; binv H; destruct x3 as [st' ar]; cbn [fst snd] in H;
      injection H as <- <-; do 5 eexists; (split; [reflexivity|]); (split; [exact FD|]); [left|right]; (split; [reflexivity|eassumption]).
  Qed.

  Lemma new_criterion_report_shape e cur p sc diffs st ar :
    Forall2 (fun a ad => exists x, ad = (a, [x])) (all_alts cur) diffs ->
    apply_new_criterion e cur p sc diffs = Ok (st, ar) ->
    (exists refc, ar = ARNew refc []) \/
    exists refc newc ag new_alts,
      Forall2 (ext_rel (c_id newc)) (all_alts cur) new_alts /\
      update_alts (st_cons cur) new_alts = Ok (st_cons st) /\
      update_alts (st_notcons cur) new_alts = Ok (st_notcons st) /\
      add_criterion (st_crits cur) newc = Ok (st_crits st) /\
      ar = ARNew refc [(newc, rev_report_vals (c_id newc) new_alts, ag)].
  Proof.
    unfold apply_new_criterion. intros FD H. binv H. binv H. cbv zeta in H. binv H.
    destruct diffs as [|d0 rest].
    - left. cbn [List.length seq zip fold_left map bind mapM] in H.
      binv H. binv H. injection H as _ <-. eexists. reflexivity.
    - right. inversion FD as [|a0 d0' all' rest' (xr & Ed0) FR EA]; subst d0' rest' d0.
      cbn [snd map List.length seq zip fold_left bind] in H.
      binv H. destruct x2 as [[crits params] added]. binv E2. binv E2. binv E2.
      injection E2 as <- <- <-. cbn [app] in H. binv H. binv H. binv H. injection H as <- <-.
      cbn [st_crits st_params st_cons st_notcons].
      match goal with EM : mapM _ _ = Ok _ |- _ => apply mapM_Forall2 in EM; rename EM into FM end.
      do 4 eexists. split; [|split; [eassumption|split; [eassumption|split; [eassumption|reflexivity]]]].
      rewrite EA. pose proof (Forall2_comp _ _ _ _ FD _ FM) as FC. eapply Forall2_imp; [|exact FC].
      intros a y (ad & (xa & ->) & F). cbn beta in F. eapply anch_value_single. exact F.
  Qed.
End Anch.

Section AnchL.
  Context {N : Num} {L : OrdLaws N}.

  (** requested: the inline applier reports differences (nothing to compare with the state alone: [C19_ok] covers it);
      the new-criterion applier needs pairwise distinct ids, see [Counterexamples.anchoring_duplicate_ids] *)
  Theorem anchoring_faithful e cur p st rep :
    apply_anchoring e cur p = Ok (st, rep) ->
    (String.eqb (bp_anch_applier p) ap_inline = false -> NoDup (map a_id (all_alts cur))) ->
    report_faithful st rep = true.
  Proof.
    intros H D.
    apply anchoring_report_cases in H as (refs & scal & sc & diffs & ar & -> & FD & [[_ H]|[AP H]]).
    - apply inline_form in H as (_ & d & ->). reflexivity.
    - specialize (D AP).
      apply (new_criterion_report_shape _ _ _ _ _ _ _ FD) in H
        as [[refc ->]|(refc & newc & ag & new_alts & F & U1 & U2 & AC & ->)]; [reflexivity|].
      cbn [report_faithful forallb]. rewrite (added_has_crit _ _ _ AC), andb_true_r. cbn [andb].
      destruct (extended_all cur st (c_id newc) _ new_alts D (Permutation_refl _) F U1 U2) as (D' & V & I & Ln).
      now apply report_vals_faithful.
  Qed.
End AnchL.

(** ** 5. Any bias, sequences of biases *)
Section Sequences.
  Context {N : Num} {L : OrdLaws N}.

  (** requested *)
  Theorem apply_bias_faithful e name cur p st rep :
    apply_bias e name cur p = Ok (st, rep) ->
    NoDup (map c_id (st_crits cur)) -> NoDup (map a_id (all_alts cur)) -> report_faithful st rep = true.
  Proof.
    unfold apply_bias. intros H Dc Da.
    destruct (String.eqb name b_omission); [eapply omission_faithful; eassumption|].
    destruct (String.eqb name b_reversal); [eapply reversal_faithful; eassumption|].
    destruct (String.eqb name b_fatigue); [eapply fatigue_faithful; eassumption|].
    destruct (String.eqb name b_concealment); [eapply concealment_faithful; eassumption|].
    destruct (String.eqb name b_mixing); [eapply mixing_faithful; eassumption|].
    destruct (String.eqb name b_anchoring); [eapply anchoring_faithful; [eassumption|auto]|].
    discriminate.
  Qed.

  (* the hypotheses are handed on *)
  Lemma apply_bias_nodup_alts e name cur p st rep :
    apply_bias e name cur p = Ok (st, rep) -> NoDup (map a_id (all_alts cur)) -> NoDup (map a_id (all_alts st)).
  Proof. intros H D. now rewrite (apply_bias_all_ids _ _ _ _ _ _ H). Qed.

  (* the stages of a run: consecutive states, the second one being the state handed on with the echoed report;
     the split into considered / not considered alternatives and the criteria (C07) tie the two states,
     [report_faithful] (C09) ties the report to the state handed on *)
  Inductive faithful_chain : state -> list echo -> state -> Prop :=
  | fc_nil s : faithful_chain s [] s
  | fc_cons s s1 st ec rest :
      same_split s s1 = true -> crits_as_reported s s1 (ec_report ec) = true ->
      report_faithful s1 (ec_report ec) = true ->
      faithful_chain s1 rest st -> faithful_chain s (ec :: rest) st.

  (** requested *)
  Theorem process_biases_faithful e : forall bs cur g st echoes,
    process_biases e bs cur g = Ok (st, echoes) ->
    NoDup (map c_id (st_crits cur)) -> NoDup (map a_id (all_alts cur)) -> faithful_chain cur echoes st.
  Proof.
    induction bs as [|b rest IH]; intros cur g st echoes H Dc Da; cbn [process_biases] in H.
    - injection H as <- <-. constructor.
    - binv H. destruct (nltb (fst x) (b_prob b)).
      + binv H. binv H. injection H as <- <-. destruct x0 as [st1 rep1]. destruct x1 as [st2 ech2]. cbn [fst snd] in *.
        apply (fc_cons cur st1); cbn [ec_report].
        * eapply BiasStructFacts.apply_bias_same_split; eassumption.
        * eapply apply_bias_reported; eassumption.
        * eapply apply_bias_faithful; eassumption.
        * eapply IH; [eassumption| |].
          -- eapply apply_bias_nodup_crits; eassumption.
          -- eapply apply_bias_nodup_alts; eassumption.
      + binv H. injection H as <- <-. destruct x0 as [st2 ech2]. cbn [fst snd] in *.
        apply (fc_cons cur cur); cbn [ec_report].
        * apply preserved_same_split, preserved_refl.
        * now apply unchanged_reported.
        * reflexivity.
        * eapply IH; eassumption.
  Qed.

  (* reading of the chain: one state per echo, each report faithful to its state, the last state is the final one *)
  Theorem faithful_chain_states cur echoes st : faithful_chain cur echoes st ->
    exists states, Forall2 (fun s ec => report_faithful s (ec_report ec) = true) states echoes /\
                   last states cur = st /\
                   Forall (fun s => map a_id (st_cons s) = map a_id (st_cons cur) /\
                                    map a_id (st_notcons s) = map a_id (st_notcons cur)) states.
  Proof.
    induction 1 as [s|s s1 st ec rest SS _ RF _ (states & F & La & Ids)].
    - exists []. split; [constructor|]. split; [reflexivity|constructor].
    - exists (s1 :: states). split; [now constructor|].
      apply andb_true_iff in SS as [S1 S2].
      apply ReversalFacts.list_eqb_Forall2 in S1. apply ReversalFacts.list_eqb_Forall2 in S2.
      assert (E1 : map a_id (st_cons s1) = map a_id (st_cons s)).
      { clear - S1. induction S1 as [|x y l l' E _ IH]; [reflexivity|]. apply String.eqb_eq in E. now rewrite E, IH. }
      assert (E2 : map a_id (st_notcons s1) = map a_id (st_notcons s)).
      { clear - S2. induction S2 as [|x y l l' E _ IH]; [reflexivity|]. apply String.eqb_eq in E. now rewrite E, IH. }
      split.
      + destruct states as [|s2 r]; [exact La|]. rewrite <- La. change (last (s1 :: s2 :: r) s) with (last (s2 :: r) s).
        apply last_cons_default.
      + constructor; [now split|]. eapply Forall_impl; [|exact Ids]. cbn beta. intros s' [Q1 Q2]. split; congruence.
  Qed.

  Corollary process_biases_faithful_states e bs cur g st echoes :
    process_biases e bs cur g = Ok (st, echoes) ->
    NoDup (map c_id (st_crits cur)) -> NoDup (map a_id (all_alts cur)) ->
    exists states, Forall2 (fun s ec => report_faithful s (ec_report ec) = true) states echoes /\ last states cur = st.
  Proof.
    intros H Dc Da. destruct (faithful_chain_states _ _ _ (process_biases_faithful _ _ _ _ _ _ H Dc Da)) as (ss & F & La & _).
    now exists ss.
  Qed.
End Sequences.

(** ** 6. What the checker means *)
Section Sound.
  Context {N : Num}.

  (* same key, values equal up to [nsame] *)
  Definition entry_equal (x y : string * num) : Prop := fst x = fst y /\ nsame (snd x) (snd y) = true.
  (* same id, same keys in the same order, values equal up to [nsame] *)
  Definition alt_equal (a b : alt) : Prop := a_id a = a_id b /\ Forall2 entry_equal (a_vals a) (a_vals b).

  Lemma alt_same_iff a b : alt_same a b = true <-> alt_equal a b.
  Proof.
    unfold alt_same, alt_equal, smap_same. rewrite andb_true_iff, String.eqb_eq, ReversalFacts.list_eqb_Forall2.
    split; intros [E F]; (split; [exact E|]); (eapply Forall2_imp; [|exact F]); intros x y; unfold entry_equal;
      cbn beta; rewrite andb_true_iff, String.eqb_eq; tauto.
  Qed.

  Lemma alts_same_iff l1 l2 : list_eqb alt_same l1 l2 = true <-> Forall2 alt_equal l1 l2.
  Proof.
    rewrite ReversalFacts.list_eqb_Forall2.
    split; intros F; (eapply Forall2_imp; [|exact F]); intros x y; apply alt_same_iff.
  Qed.

  (* a reported value and the value the next stage holds: both absent, or both present and equal up to [nsame] *)
  Definition value_received (reported received : option num) : Prop :=
    match reported, received with
    | Some v, Some v' => nsame v v' = true
    | None, None => True
    | _, _ => False
    end.

  Lemma option_nsame_iff o1 o2 : option_eqb nsame o1 o2 = true <-> value_received o1 o2.
  Proof. destruct o1, o2; cbn [option_eqb value_received]; split; auto; try discriminate; try contradiction. Qed.

  (* the reported map [vals] (keyed by alternative id) has as many entries as there are alternatives, and the entry of
     every alternative of [after] is the value [after] holds for the criterion [cid] *)
  Definition values_received (cid : string) (vals : smap num) (after : state) : Prop :=
    List.length vals = List.length (all_alts after) /\
    forall a, In a (all_alts after) -> value_received (mget (a_id a) vals) (mget cid (a_vals a)).

  Lemma values_faithful_iff cid vals after : values_faithful cid vals after = true <-> values_received cid vals after.
  Proof.
    unfold values_faithful, values_received. rewrite andb_true_iff, forallb_forall, Nat.eqb_eq.
    split.
    - intros [A B]. split; [exact B|]. intros a Ha. apply option_nsame_iff. now apply A.
    - intros [B A]. split; [|exact B]. intros a Ha. apply option_nsame_iff. now apply A.
  Qed.

  Definition report_received (after : state) (rep : report) : Prop :=
    match rep with
    | RNone => True
    | ROmission omitted =>
        forall c, In c omitted ->
          ~ In (c_id c) (map c_id (st_crits after)) /\
          forall a, In a (all_alts after) -> mget (c_id c) (a_vals a) = None
    | RReversal items => forall c r vals, In (c, r, vals) items -> values_received (c_id c) vals after
    | RFatigue _ c n => Forall2 alt_equal c (st_cons after) /\ Forall2 alt_equal n (st_notcons after)
    | RConcealment c vals _ => In (c_id c) (map c_id (st_crits after)) /\ values_received (c_id c) vals after
    | RMixing _ _ cn _ => In (cp_id cn) (map c_id (st_crits after)) /\ values_received (cp_id cn) (cp_values cn) after
    | RAnchoring _ _ _ (ARNew _ added) =>
        forall c vals ad, In (c, vals, ad) added ->
          In (c_id c) (map c_id (st_crits after)) /\ values_received (c_id c) vals after
    | RAnchoring _ _ _ (ARInline _) => True
    end.

  (** everything the checker says, and nothing more *)
  Theorem report_faithful_iff after rep : report_faithful after rep = true <-> report_received after rep.
  Proof.
    destruct rep as [|om|items|f c n|c v a|c1 c2 cn a|refs sc diffs ar]; [| | | | | |destruct ar as [d|refc added]];
      cbn [report_faithful report_received].
    - tauto.
    - rewrite forallb_forall. split.
      + intros H c Hc. specialize (H c Hc). apply andb_true_iff in H as [H1 H2].
        apply negb_true_iff, has_crit_false_iff in H1. split; [exact H1|].
        rewrite forallb_forall in H2. intros a Ha. specialize (H2 a Ha). apply negb_true_iff in H2.
        unfold mhas in H2. destruct (mget (c_id c) (a_vals a)); [discriminate|reflexivity].
      + intros H c Hc. destruct (H c Hc) as [H1 H2]. apply andb_true_iff. split.
        * now apply negb_true_iff, has_crit_false_iff.
        * apply forallb_forall. intros a Ha. unfold mhas. now rewrite (H2 a Ha).
    - rewrite forallb_forall. split.
      + intros H c r vals Hin. apply values_faithful_iff. exact (H (c, r, vals) Hin).
      + intros H [[c r] vals] Hin. apply values_faithful_iff. eapply H. exact Hin.
    - rewrite andb_true_iff, !alts_same_iff. reflexivity.
    - rewrite andb_true_iff, has_crit_iff, values_faithful_iff. reflexivity.
    - rewrite andb_true_iff, has_crit_iff, values_faithful_iff. reflexivity.
    - tauto.
    - rewrite forallb_forall. split.
      + intros H c vals ad Hin. specialize (H (c, vals, ad) Hin). cbn beta iota in H.
        now rewrite andb_true_iff, has_crit_iff, values_faithful_iff in H.
      + intros H [[c vals] ad] Hin. rewrite andb_true_iff, has_crit_iff, values_faithful_iff. eapply H. exact Hin.
  Qed.

  (** requested: the declarative reading of the checker *)
  Theorem report_faithful_sound after rep : report_faithful after rep = true -> report_received after rep.
  Proof. apply report_faithful_iff. Qed.

  (** The reading "every alternative holds a value and the report lists it" (requested for concealment, mixing, ...)
      does not follow from the checker alone: an alternative without a value for the criterion and a report without an
      entry for the alternative agree (see [Counterexamples.checker_accepts_both_absent]). It follows when the
      alternatives of the state handed on hold a value for the criterion, which the invariant [inv] of Check/Stage.v
      gives for every criterion of that state. *)
  Theorem values_received_present cid vals after :
    values_received cid vals after ->
    (forall a, In a (all_alts after) -> mhas cid (a_vals a) = true) ->
    forall a, In a (all_alts after) ->
      exists v v', mget (a_id a) vals = Some v /\ mget cid (a_vals a) = Some v' /\ nsame v v' = true.
  Proof.
    intros [_ V] C a Ha. specialize (V a Ha). specialize (C a Ha). unfold mhas in C.
    destruct (mget cid (a_vals a)) as [v'|]; [|discriminate].
    destruct (mget (a_id a) vals) as [v|]; [|contradiction]. now exists v, v'.
  Qed.

  Corollary values_received_inv cid vals after :
    values_received cid vals after -> inv after = true -> In cid (map c_id (st_crits after)) ->
    forall a, In a (all_alts after) ->
      exists v v', mget (a_id a) vals = Some v /\ mget cid (a_vals a) = Some v' /\ nsame v v' = true.
  Proof.
    intros V I Hc. apply (values_received_present _ _ _ V). intros a Ha.
    apply inv_iff in I as (A & _ & _). apply in_map_iff in Hc as (c & <- & Hc). now apply A.
  Qed.

  Corollary fatigue_sound f c n after :
    report_faithful after (RFatigue f c n) = true ->
    Forall2 alt_equal c (st_cons after) /\ Forall2 alt_equal n (st_notcons after).
  Proof. intros H. exact (report_faithful_sound _ _ H). Qed.

  Corollary omission_sound omitted after :
    report_faithful after (ROmission omitted) = true ->
    forall c, In c omitted ->
      ~ In (c_id c) (map c_id (st_crits after)) /\
      forall a, In a (all_alts after) -> mget (c_id c) (a_vals a) = None.
  Proof. intros H. exact (report_faithful_sound _ _ H). Qed.

  (* with the invariant of the state handed on: every alternative holds a value and the report lists it *)
  Corollary concealment_received_inv c vals ad after :
    report_faithful after (RConcealment c vals ad) = true -> inv after = true ->
    In (c_id c) (map c_id (st_crits after)) /\
    forall a, In a (all_alts after) ->
      exists v v', mget (a_id a) vals = Some v /\ mget (c_id c) (a_vals a) = Some v' /\ nsame v v' = true.
  Proof.
    intros H I. apply report_faithful_sound in H as [Hc V]. split; [exact Hc|]. now apply values_received_inv.
  Qed.
End Sound.

(** ** 7. On exact rationals ([nsame] is an equality there; the laws of [OrdQc] hold for every value) *)
Corollary fatigue_faithful_Qc e (cur : @state NumQc) p st rep :
  apply_fatigue e cur p = Ok (st, rep) -> report_faithful st rep = true.
Proof. apply (fatigue_faithful (L := OrdQc)). Qed.

Corollary reversal_faithful_Qc e (cur : @state NumQc) p st rep :
  apply_reversal e cur p = Ok (st, rep) -> NoDup (map a_id (all_alts cur)) -> report_faithful st rep = true.
Proof. apply (reversal_faithful (L := OrdQc)). Qed.

Corollary concealment_faithful_Qc e (cur : @state NumQc) p st rep :
  apply_concealment e cur p = Ok (st, rep) -> NoDup (map a_id (all_alts cur)) -> report_faithful st rep = true.
Proof. apply (concealment_faithful (L := OrdQc)). Qed.

Corollary mixing_faithful_Qc e (cur : @state NumQc) p st rep :
  apply_mixing e cur p = Ok (st, rep) -> NoDup (map a_id (all_alts cur)) -> report_faithful st rep = true.
Proof. apply (mixing_faithful (L := OrdQc)). Qed.

Corollary anchoring_faithful_Qc e (cur : @state NumQc) p st rep :
  apply_anchoring e cur p = Ok (st, rep) ->
  (String.eqb (bp_anch_applier p) ap_inline = false -> NoDup (map a_id (all_alts cur))) ->
  report_faithful st rep = true.
Proof. apply (anchoring_faithful (L := OrdQc)). Qed.

Corollary apply_bias_faithful_Qc e name (cur : @state NumQc) p st rep :
  apply_bias e name cur p = Ok (st, rep) ->
  NoDup (map c_id (st_crits cur)) -> NoDup (map a_id (all_alts cur)) -> report_faithful st rep = true.
Proof. apply (apply_bias_faithful (L := OrdQc)). Qed.

Corollary process_biases_faithful_Qc e bs (cur : @state NumQc) g st echoes :
  process_biases e bs cur g = Ok (st, echoes) ->
  NoDup (map c_id (st_crits cur)) -> NoDup (map a_id (all_alts cur)) -> faithful_chain cur echoes st.
Proof. apply (process_biases_faithful (L := OrdQc)). Qed.

(* on [NumQc] "equal up to [nsame]" is equality *)
Lemma value_received_Qc (o1 o2 : option (@Num.num NumQc)) : value_received o1 o2 <-> o1 = o2.
Proof.
  destruct o1 as [v|], o2 as [v'|]; cbn [value_received]; split; intros H; try discriminate; try contradiction; auto.
  - f_equal. now apply (same_eq (OrdLaws := OrdQc)).
  - injection H as <-. apply (same_refl (OrdLaws := OrdQc)).
Qed.

Corollary values_received_Qc cid (vals : smap (@Num.num NumQc)) (after : @state NumQc) :
  values_faithful cid vals after = true <->
  List.length vals = List.length (all_alts after) /\
  forall a, In a (all_alts after) -> mget (a_id a) vals = mget cid (a_vals a).
Proof.
  rewrite values_faithful_iff. unfold values_received. split; intros [A B]; (split; [exact A|]); intros a Ha;
    apply value_received_Qc; auto.
Qed.

(** ** 8. Examples and counterexamples on [NumQc] *)
Module Examples.
  Import QArith Qcanon NumQc.
  Local Open Scope string_scope.
  Local Open Scope list_scope.

  Definition q (a : Z) (b : positive) : @Num.num NumQc := Q2Qc (a # b).
  Definition fp0 : @fparams NumQc :=
    {| fp_name := "linear"; fp_a := q 1 1; fp_b := q 0 1; fp_alpha := q 0 1; fp_mult := q 0 1 |}.
  (* split: exactly one criterion is selected; fatigue: constant 1/10; anchoring on alternative "x", ideal point *)
  Definition bp0 (ordering applier : string) : @bprops NumQc := {|
    bp_ordering := ordering; bp_ratio := q 1 2; bp_min := 1; bp_max := 1; bp_seed := 0;
    bp_scaling := q 1 1; bp_nonneg := false; bp_ref_type := ""; bp_ref_importance := q 1 2; bp_ref_seed := 0;
    bp_new_scaling := q 1 1; bp_mix_ratio := q 1 2;
    bp_fat_function := "const"; bp_fat_value := q 1 10; bp_fat_alpha := q 0 1; bp_fat_mult := q 0 1; bp_fat_query := 0;
    bp_anch_alts := [{| aa_id := "x"; aa_coef := q 1 1 |}]; bp_anch_loss := fp0; bp_anch_gain := fp0;
    bp_anch_ref := "ideal"; bp_anch_applier := applier; bp_anch_not_considered := true |}.
  Definition env0 : @env NumQc :=
    {| env_streams := [(0%Z, [q 1 2; q 1 3; q 1 4; q 1 5; q 1 6; q 1 7; q 1 8])]; env_exp := [] |}.
  Definition cr (id : string) : @crit NumQc := {| c_id := id; c_type := TGain; c_range := None |}.
  Definition al (id : string) (a b : Z) : @alt NumQc := {| a_id := id; a_vals := [("a", q a 1); ("b", q b 1)] |}.
  (* two criteria, three alternatives, "z" is not considered *)
  Definition s0 : @state NumQc :=
    {| st_notcons := [al "z" 2 3]; st_cons := [al "x" 1 2; al "y" 3 6]; st_crits := [cr "a"; cr "b"];
       st_params := PWs [(cr "a", q 1 1); (cr "b", q 2 1)] |}.
  Definition with_notcons (s : @state NumQc) (l : list (@alt NumQc)) : @state NumQc :=
    {| st_notcons := l; st_cons := st_cons s; st_crits := st_crits s; st_params := st_params s |}.

  (* compact views *)
  Definition sq (x : @Num.num NumQc) : Z * positive := (Qnum (this x), Qden (this x)).
  Definition sm (m : smap (@Num.num NumQc)) := map (fun kv => (fst kv, sq (snd kv))) m.
  Definition sa (l : list (@alt NumQc)) := map (fun a => (a_id a, sm (a_vals a))) l.
  Definition reported_values (r : @report NumQc) : list (string * list (string * (Z * positive))) :=
    match r with
    | RReversal items => map (fun it => (c_id (fst (fst it)), sm (snd it))) items
    | RConcealment c vals _ => [(c_id c, sm vals)]
    | RMixing _ _ cn _ => [(cp_id cn, sm (cp_values cn))]
    | RAnchoring _ _ _ (ARNew _ added) => map (fun it => (c_id (fst (fst it)), sm (snd (fst it)))) added
    | _ => []
    end.

  (** requested: fatigue, then reversal (of criterion "a"). The checker accepts both stages; it rejects the first
      stage when the not-considered alternative of the state handed on is replaced by its version before the fatigue
      (the fatigue report lists the blurred "z"), and the second stage when the same is done to the state handed on
      by the reversal (the reversal report lists the value 59/30 of "z" for "a", the tampered state holds 2) *)
  Definition run :=
    do r1 <- apply_bias env0 b_fatigue s0 (bp0 "" "inline");
    do r2 <- apply_bias env0 b_reversal (fst r1) (bp0 "" "inline");
    Ok (report_faithful (fst r1) (snd r1), report_faithful (fst r2) (snd r2),
        report_faithful (with_notcons (fst r1) (st_notcons s0)) (snd r1),
        report_faithful (with_notcons (fst r2) (st_notcons s0)) (snd r2),
        sa (st_notcons (fst r1)), sa (st_notcons (fst r2)), reported_values (snd r2)).

  Example fatigue_then_reversal :
    run = Ok (true, true, false, false,
              [("z", [("a", (61%Z, 30%positive)); ("b", (213%Z, 70%positive))])],
              [("z", [("a", (59%Z, 30%positive)); ("b", (213%Z, 70%positive))])],
              [("a", [("x", (3%Z, 1%positive)); ("y", (1%Z, 1%positive)); ("z", (59%Z, 30%positive))])]).
  Proof. vm_compute. reflexivity. Qed.

  (* the same two stages through [process_biases], with the states of [process_biases_faithful_states] *)
  Definition breq (name : string) : @biasreq NumQc :=
    {| b_name := name; b_disabled := false; b_prob := q 1 1; b_props := bp0 "" "inline" |}.
  Definition env1 : @env NumQc :=
    {| env_streams := [(0%Z, [q 1 2; q 1 3; q 1 4; q 1 5; q 1 6; q 1 7; q 1 8]); (7%Z, [q 0 1; q 0 1])]; env_exp := [] |}.
  Example fatigue_then_reversal_run :
    match process_biases env1 [breq b_fatigue; breq b_reversal] s0 (new_rng env1 7),
          apply_bias env1 b_fatigue s0 (bp0 "" "inline") with
    | Ok (st, [e1; e2]), Ok (s1, _) =>
        Some (ec_fired e1, ec_fired e2, report_faithful s1 (ec_report e1), report_faithful st (ec_report e2),
              report_faithful st (ec_report e1))
    | _, _ => None
    end = Some (true, true, true, true, false).
  Proof. vm_compute. reflexivity. Qed.

  (* every other bias on the same state *)
  Definition try (name ordering applier : string) (s : @state NumQc) :=
    do r <- apply_bias env0 name s (bp0 ordering applier);
    Ok (report_faithful (fst r) (snd r), map c_id (st_crits (fst r)), reported_values (snd r)).

  Example others_faithful :
    (try b_omission "" "inline" s0, try b_concealment "" "inline" s0, try b_mixing "" "inline" s0,
     try b_anchoring "" "newCriterion" s0) =
    (Ok (true, ["b"], []),
     Ok (true, ["a"; "b"; "__concealedCriterion__"],
         [("__concealedCriterion__", [("x", (4%Z, 1%positive)); ("y", (10%Z, 3%positive)); ("z", (3%Z, 1%positive))])]),
     Ok (true, ["a"; "b"; "__b+a__"],
         [("__b+a__", [("x", (0%Z, 1%positive)); ("y", (6%Z, 1%positive)); ("z", (9%Z, 4%positive))])]),
     Ok (true, ["a"; "b"; "__anchoring_criterion_ideal"],
         [("__anchoring_criterion_ideal", [("x", (4%Z, 1%positive)); ("y", (6%Z, 1%positive)); ("z", (23%Z, 5%positive))])])).
  Proof. vm_compute. reflexivity. Qed.
End Examples.

Module Counterexamples.
  Import QArith Qcanon NumQc Examples.
  Local Open Scope string_scope.
  Local Open Scope list_scope.

  (** the considered alternative "x" and the not-considered alternative share their id: the reports are maps keyed by
      the alternative id (one entry for "x", the value of the LAST alternative with that id), whereas the next stage
      receives, for both, the FIRST rewritten alternative with that id. So the hypothesis [NoDup (map a_id (all_alts cur))]
      of [reversal_faithful], [concealment_faithful], [mixing_faithful], [anchoring_faithful] cannot be dropped. *)
  Definition sdup : @state NumQc :=
    {| st_notcons := [al "x" 4 6]; st_cons := [al "x" 1 2; al "y" 3 1]; st_crits := [cr "a"; cr "b"];
       st_params := PWs [(cr "a", q 1 1); (cr "b", q 2 1)] |}.
  Definition view (name applier : string) :=
    do r <- apply_bias env0 name sdup (bp0 "" applier);
    Ok (report_faithful (fst r) (snd r), reported_values (snd r),
        map (fun a => (a_id a, match reported_values (snd r) with
                               | (k, _) :: _ => option_map sq (mget k (a_vals a)) | [] => None end))
            (all_alts (fst r))).

  Example reversal_duplicate_ids :
    view b_reversal "inline" =
    Ok (false, [("a", [("x", (1%Z, 1%positive)); ("y", (2%Z, 1%positive))])],
        [("x", Some (4%Z, 1%positive)); ("y", Some (2%Z, 1%positive)); ("x", Some (4%Z, 1%positive))]).
  Proof. vm_compute. reflexivity. Qed.

  Example concealment_duplicate_ids :
    view b_concealment "inline" =
    Ok (false, [("__concealedCriterion__", [("x", (8%Z, 3%positive)); ("y", (9%Z, 4%positive))])],
        [("x", Some (7%Z, 2%positive)); ("y", Some (9%Z, 4%positive)); ("x", Some (7%Z, 2%positive))]).
  Proof. vm_compute. reflexivity. Qed.

  (* here the values agree; the report has two entries for three alternatives *)
  Example mixing_duplicate_ids :
    view b_mixing "inline" =
    Ok (false, [("__b+a__", [("x", (6%Z, 1%positive)); ("y", (2%Z, 1%positive))])],
        [("x", Some (6%Z, 1%positive)); ("y", Some (2%Z, 1%positive)); ("x", Some (6%Z, 1%positive))]).
  Proof. vm_compute. reflexivity. Qed.

  Example anchoring_duplicate_ids :
    view b_anchoring "newCriterion" =
    Ok (false, [("__anchoring_criterion_ideal", [("x", (57%Z, 10%positive)); ("y", (58%Z, 15%positive))])],
        [("x", Some (7%Z, 2%positive)); ("y", Some (58%Z, 15%positive)); ("x", Some (7%Z, 2%positive))]).
  Proof. vm_compute. reflexivity. Qed.

  (* omission, fatigue and the inline applier of anchoring need no such hypothesis *)
  Example omission_fatigue_inline_duplicate_ids :
    (do r <- apply_bias env0 b_omission sdup (bp0 "" "inline"); Ok (report_faithful (fst r) (snd r)),
     do r <- apply_bias env0 b_fatigue sdup (bp0 "" "inline"); Ok (report_faithful (fst r) (snd r)),
     do r <- apply_bias env0 b_anchoring sdup (bp0 "" "inline"); Ok (report_faithful (fst r) (snd r)))
    = (Ok true, Ok true, Ok true).
  Proof. vm_compute. reflexivity. Qed.

  (** two criteria with the same id (random ordering, majority parameters): the omitted one is still a criterion of the
      state handed on, so [NoDup (map c_id (st_crits cur))] cannot be dropped from [omission_faithful] *)
  Definition sdc : @state NumQc :=
    {| st_notcons := [al "z" 2 3]; st_cons := [al "x" 1 2; al "y" 3 6]; st_crits := [cr "a"; cr "a"];
       st_params := PMajority [("a", q 1 1)] "" 0 false "" |}.
  Example omission_duplicate_criteria :
    (do r <- apply_omission env0 sdc (bp0 "random" "inline");
     Ok (report_faithful (fst r) (snd r), map c_id (st_crits (fst r)),
         match snd r with ROmission om => map c_id om | _ => [] end))
    = Ok (false, ["a"], ["a"]).
  Proof. vm_compute. reflexivity. Qed.

  (** the checker alone does not say that every alternative holds a value for a reported criterion: a state whose only
      alternative has no value for "k" and a report with one entry for an unknown alternative are accepted; so the
      reading "forall a, exists v v', ..." needs the coverage hypothesis of [values_received_present] *)
  Definition sab : @state NumQc :=
    {| st_notcons := []; st_cons := [{| a_id := "x"; a_vals := [] |}]; st_crits := [cr "k"];
       st_params := PWs [(cr "k", q 1 1)] |}.
  Example checker_accepts_both_absent :
    (report_faithful sab (RConcealment (cr "k") [("zzz", q 1 1)] AUnknown),
     mget "x" [("zzz", q 1 1)], mget "k" (@a_vals NumQc {| a_id := "x"; a_vals := [] |}), inv sab)
    = (true, None, None, false).
  Proof. vm_compute. reflexivity. Qed.
End Counterexamples.

Print Assumptions built_map.
Print Assumptions values_faithful_intro.
Print Assumptions report_vals_faithful.
Print Assumptions omission_faithful.
Print Assumptions fatigue_faithful.
Print Assumptions reversal_faithful.
Print Assumptions concealment_faithful.
Print Assumptions mixing_faithful.
Print Assumptions anchoring_faithful.
Print Assumptions apply_bias_faithful.
Print Assumptions apply_bias_nodup_alts.
Print Assumptions process_biases_faithful.
Print Assumptions faithful_chain_states.
Print Assumptions process_biases_faithful_states.
Print Assumptions report_faithful_iff.
Print Assumptions report_faithful_sound.
Print Assumptions values_received_present.
Print Assumptions values_received_inv.
Print Assumptions fatigue_sound.
Print Assumptions omission_sound.
Print Assumptions concealment_received_inv.
Print Assumptions fatigue_faithful_Qc.
Print Assumptions reversal_faithful_Qc.
Print Assumptions concealment_faithful_Qc.
Print Assumptions mixing_faithful_Qc.
Print Assumptions anchoring_faithful_Qc.
Print Assumptions apply_bias_faithful_Qc.
Print Assumptions process_biases_faithful_Qc.
Print Assumptions value_received_Qc.
Print Assumptions values_received_Qc.
Print Assumptions Examples.fatigue_then_reversal.
Print Assumptions Examples.fatigue_then_reversal_run.
Print Assumptions Examples.others_faithful.
Print Assumptions Counterexamples.reversal_duplicate_ids.
Print Assumptions Counterexamples.concealment_duplicate_ids.
Print Assumptions Counterexamples.mixing_duplicate_ids.
Print Assumptions Counterexamples.anchoring_duplicate_ids.
Print Assumptions Counterexamples.omission_fatigue_inline_duplicate_ids.
Print Assumptions Counterexamples.omission_duplicate_criteria.
Print Assumptions Counterexamples.checker_accepts_both_absent.
