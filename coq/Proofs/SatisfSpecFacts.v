(** * C13, declarative specification of the satisfaction heuristic.

    Property text (C13): "The satisfaction heuristic examines alternatives in search order (current
    choice first) against successively lower aspiration levels and ranks an alternative as soon as it
    meets the current level on every criterion; the ranking is this order of acceptance, followed by
    the alternatives that met no level.  Every accepted entry reports the level index and thresholds
    it was accepted at and really satisfies them on every criterion while failing every earlier
    level; the rest report the index after the last level and the worst value of each criterion's
    range."

    Part A states this over plain lists ([meets_level], [first_level], [acceptance_key],
    [ranking_spec], [worst_values], [is_search_order], [C13_spec]) and shows that the specification
    determines the ranking ([ranking_spec_unique]).  Part B proves that the executable model
    [satisfaction_evaluate] satisfies it ([satisfaction_meets_spec_at], [satisfaction_meets_spec],
    on [NumQc] without the finiteness hypothesis: [satisfaction_meets_spec_Qc]) and returns the only
    ranking that does ([satisfaction_spec_complete]).  Part C proves that the two boolean checkers
    [C13_ok] and [C13_order_ok] accept an arbitrary observed ranking exactly when it satisfies
    [C13_obs_spec] ([C13_checkers_sound], [C13_checkers_complete]); NOT tested by these two checkers:
    that the observed entries are exactly the alternatives of the search order, and the links.
    Part D evaluates a concrete instance on [NumQc] and shows that the hypothesis "pairwise distinct
    criterion identifiers" is necessary. *)
From Coq Require Import ZArith Bool List String Lia Permutation Sorted RelationClasses.
From RDM Require Import Base.Num Base.Util Model.Data Model.Rank Model.Utility Model.Levels
  Model.Heuristics Check.C04 Check.C13 Check.C13b
  Proofs.SortFacts Proofs.LevelFacts Proofs.MapOrderFacts Proofs.SatisfFacts Proofs.SatisfOrderFacts.
Import ListNotations.
Local Open Scope string_scope.
Local Open Scope list_scope.

(** ** 0. list facts (no numeric carrier involved) *)
Lemma nth_opt_nth_error {A} (l : list A) : forall k, nth_opt k l = nth_error l k.
Proof. induction l as [|x r IH]; intros [|k]; cbn [nth_opt nth_error]; auto. Qed.

Lemma in_firstn_iff {A} (l : list A) : forall k x,
  In x (firstn k l) <-> exists j, (j < k)%nat /\ nth_error l j = Some x.
Proof.
  induction l as [|y r IH]; intros k x.
  - rewrite firstn_nil. split; [intros []|intros (j & _ & H); destruct j; discriminate].
  - destruct k as [|k].
    + cbn [firstn]. split; [intros []|intros (j & Hj & _); lia].
    + cbn [firstn In]. rewrite IH. split.
      * intros [<-|(j & Hj & H)]; [exists 0%nat; split; [lia|reflexivity]|exists (S j); split; [lia|exact H]].
      * intros (j & Hj & H). destruct j as [|j]; cbn [nth_error] in H.
        -- left. congruence.
        -- right. exists j. split; [lia|exact H].
Qed.

Lemma filter_partition_perm {A} (p : A -> bool) : forall l,
  Permutation (filter p l ++ filter (fun a => negb (p a)) l) l.
Proof.
  induction l as [|a l IH]; [constructor|]. cbn [filter]. destruct (p a); cbn [negb app].
  - now apply perm_skip.
  - eapply perm_trans; [apply Permutation_sym, Permutation_middle|]. now apply perm_skip.
Qed.

(** lexicographic order on (level index, search position) *)
Definition lex_lt (p q : nat * nat) : Prop :=
  (fst p < fst q)%nat \/ (fst p = fst q /\ (snd p < snd q)%nat).

Lemma lex_lt_trans p q r : lex_lt p q -> lex_lt q r -> lex_lt p r.
Proof. unfold lex_lt. lia. Qed.

Lemma lex_lt_irrefl p : ~ lex_lt p p.
Proof. unfold lex_lt. lia. Qed.

Lemma Sorted_lex_strong (l : list (nat * nat)) : Sorted lex_lt l -> StronglySorted lex_lt l.
Proof. apply Sorted_StronglySorted. intros p q r. apply lex_lt_trans. Qed.

(** position of an identifier in a list: [pos_of id ids 0] is the index of its first occurrence *)
Lemma pos_of_spec : forall (ids : list string) id i,
  In id ids ->
  exists p, pos_of id ids i = (i + p)%nat /\ nth_error ids p = Some id /\
            forall j, (j < p)%nat -> nth_error ids j <> Some id.
Proof.
  induction ids as [|x r IH]; intros id i Hin; [destruct Hin|].
  cbn [pos_of]. destruct (String.eqb x id) eqn:E.
  - apply String.eqb_eq in E. subst x. exists 0%nat. repeat split; [lia|]. intros j Hj. lia.
  - apply String.eqb_neq in E. destruct Hin as [->|Hin]; [now contradiction E|].
    destruct (IH id (S i) Hin) as (p & Hp & Hn & Hf). exists (S p). repeat split; [lia|exact Hn|].
    intros [|j] Hj; cbn [nth_error]; [congruence|]. apply Hf. lia.
Qed.

Notation level := (smap num) (only parsing).

(** a strict order has at most one sorted arrangement of a given multiset *)
Lemma strict_sorted_perm_unique {A} (R : A -> A -> Prop) :
  (forall a b, R a b -> R b a -> False) ->
  forall l1 l2, StronglySorted R l1 -> StronglySorted R l2 -> Permutation l1 l2 -> l1 = l2.
Proof.
  intros Hasym. induction l1 as [|x r IH]; intros l2 S1 S2 P.
  - apply Permutation_nil in P. now subst.
  - destruct l2 as [|y s]; [apply Permutation_sym, Permutation_nil in P; discriminate|].
    inversion S1 as [|? ? Sr Hx]; subst. inversion S2 as [|? ? Ss Hy]; subst.
    assert (x = y) as ->.
    { assert (Iy : In y (x :: r)) by (eapply Permutation_in; [symmetry; exact P|now left]).
      assert (Ix : In x (y :: s)) by (eapply Permutation_in; [exact P|now left]).
      destruct Iy as [->|Iy]; [reflexivity|]. destruct Ix as [->|Ix]; [reflexivity|].
      rewrite Forall_forall in Hx, Hy. exfalso. apply (Hasym x y); [now apply Hx|now apply Hy]. }
    f_equal. apply IH; [exact Sr|exact Ss|]. eapply Permutation_cons_inv; exact P.
Qed.

Lemma StronglySorted_map_inv {A B} (f : A -> B) (R : B -> B -> Prop) : forall l,
  StronglySorted R (map f l) -> StronglySorted (fun x y => R (f x) (f y)) l.
Proof.
  induction l as [|x r IH]; intros H; [constructor|]. cbn [map] in H.
  inversion H as [|? ? Hs Hf]; subst. constructor; [now apply IH|].
  apply Forall_forall. intros y Hy. rewrite Forall_forall in Hf. apply Hf. now apply in_map.
Qed.

Section SatisfSpec.
  Context {N : Num}.

  (** ** A. Declarative definitions *)

  (** an aspiration level ([level], a notation for [smap num]): one threshold per criterion identifier *)

  (** [a] meets the threshold of level [t] on criterion [c]: both values exist and the signed value
      is not below the signed threshold, i.e. (see [meets_crit_Qc] below) the value is at least the
      threshold for a gain criterion and at most the threshold for a cost criterion *)
  Definition meets_crit (c : crit) (a : alt) (t : level) : Prop :=
    exists v th, mget (c_id c) (a_vals a) = Some v /\ mget (c_id c) t = Some th /\
                 nltb (sgn c v) (sgn c th) = false.

  Definition meets_level (cs : list crit) (a : alt) (t : level) : Prop :=
    forall c, In c cs -> meets_crit c a t.

  (** the boolean version is the checker's [meets] *)
  Lemma meets_level_iff cs a (t : level) : meets cs a t = true <-> meets_level cs a t.
  Proof.
    unfold meets, meets_level. rewrite forallb_forall. split; intros H c Hc; specialize (H c Hc).
    - unfold meets_crit. destruct (mget (c_id c) (a_vals a)) as [v|]; [|discriminate].
      destruct (mget (c_id c) t) as [th|]; [|discriminate].
      exists v, th. repeat split. now apply negb_true_iff.
    - destruct H as (v & th & Ev & Et & H). now rewrite Ev, Et, H.
  Qed.

  Lemma meets_false_iff cs a (t : level) : meets cs a t = false <-> ~ meets_level cs a t.
  Proof.
    rewrite <- meets_level_iff. destruct (meets cs a t); split; intros H.
    - discriminate.
    - now contradiction H.
    - discriminate.
    - reflexivity.
  Qed.

  (** the index of the first level that [a] meets on every criterion *)
  Fixpoint first_level_from (i : nat) (levels : list level) (cs : list crit) (a : alt) : option nat :=
    match levels with
    | [] => None
    | t :: r => if meets cs a t then Some i else first_level_from (S i) r cs a
    end.
  Definition first_level (levels : list level) (cs : list crit) (a : alt) : option nat :=
    first_level_from 0 levels cs a.

  Lemma first_level_from_nth cs a : forall (levels : list level) i k t,
    nth_opt k levels = Some t -> meets cs a t = true ->
    (forall lv, In lv (firstn k levels) -> meets cs a lv = false) ->
    first_level_from i levels cs a = Some (i + k)%nat.
  Proof.
    induction levels as [|x r IH]; intros i k t Hn Hm Hf; [destruct k; discriminate|].
    destruct k as [|k]; cbn [nth_opt firstn first_level_from] in *.
    - inversion Hn; subst x. rewrite Hm. f_equal. lia.
    - rewrite (Hf x (or_introl eq_refl)). rewrite (IH (S i) k t Hn Hm).
      + f_equal. lia.
      + intros lv Hlv. apply Hf. now right.
  Qed.

  Lemma first_level_from_none cs a : forall (levels : list level) i,
    (forall lv, In lv levels -> meets cs a lv = false) -> first_level_from i levels cs a = None.
  Proof.
    induction levels as [|x r IH]; intros i Hf; [reflexivity|]. cbn [first_level_from].
    rewrite (Hf x (or_introl eq_refl)). apply IH. intros lv Hlv. apply Hf. now right.
  Qed.

  Lemma first_level_from_Some_inv cs a : forall (levels : list level) i k,
    first_level_from i levels cs a = Some k ->
    exists j t, k = (i + j)%nat /\ nth_error levels j = Some t /\ meets cs a t = true /\
                (forall lv, In lv (firstn j levels) -> meets cs a lv = false).
  Proof.
    induction levels as [|x r IH]; intros i k H; [discriminate|]. cbn [first_level_from] in H.
    destruct (meets cs a x) eqn:Em.
    - inversion H; subst k. exists 0%nat, x. repeat split; [lia|exact Em|]. intros lv [].
    - destruct (IH _ _ H) as (j & t & Hk & Hn & Hm & Hf). exists (S j), t. repeat split; [lia|exact Hn|exact Hm|].
      cbn [firstn]. intros lv [<-|Hlv]; [exact Em|now apply Hf].
  Qed.

  Lemma first_level_from_None_inv cs a : forall (levels : list level) i,
    first_level_from i levels cs a = None -> forall lv, In lv levels -> meets cs a lv = false.
  Proof.
    induction levels as [|x r IH]; intros i H lv Hlv; [destruct Hlv|]. cbn [first_level_from] in H.
    destruct (meets cs a x) eqn:Em; [discriminate|]. destruct Hlv as [<-|Hlv]; [exact Em|]. eapply IH; eassumption.
  Qed.

  (** [first_level] is the least index of a level that is met ... *)
  Theorem first_level_Some_iff levels cs a i :
    first_level levels cs a = Some i <->
    (exists t, nth_error levels i = Some t /\ meets_level cs a t) /\
    (forall j t', (j < i)%nat -> nth_error levels j = Some t' -> ~ meets_level cs a t').
  Proof.
    unfold first_level. split.
    - intros H. destruct (first_level_from_Some_inv cs a levels 0%nat i H) as (j & t & Hk & Hn & Hm & Hf).
      cbn in Hk. subst j. split.
      + exists t. split; [exact Hn|]. now apply meets_level_iff.
      + intros j t' Hj Hn'. apply meets_false_iff. apply Hf. apply in_firstn_iff. now exists j.
    - intros [(t & Hn & Hm) Hf].
      apply (first_level_from_nth cs a levels 0%nat i t).
      + now rewrite nth_opt_nth_error.
      + now apply meets_level_iff.
      + intros lv Hlv. apply in_firstn_iff in Hlv as (j & Hj & Hn'). apply meets_false_iff. eapply Hf; eassumption.
  Qed.

  (** ... and [None] exactly when no level is met *)
  Theorem first_level_None_iff levels cs a :
    first_level levels cs a = None <-> (forall t, In t levels -> ~ meets_level cs a t).
  Proof.
    unfold first_level. split.
    - intros H t Ht. apply meets_false_iff. eapply first_level_from_None_inv; eassumption.
    - intros H. apply first_level_from_none. intros lv Hlv. apply meets_false_iff. now apply H.
  Qed.

  Lemma first_level_lt levels cs a i : first_level levels cs a = Some i -> (i < List.length levels)%nat.
  Proof.
    intros H. apply first_level_Some_iff in H as [(t & Hn & _) _].
    apply nth_error_Some. congruence.
  Qed.

  (** the level index an alternative is ranked with: the first level it meets, else the number of levels *)
  Definition level_index (levels : list level) (cs : list crit) (a : alt) : nat :=
    match first_level levels cs a with Some i => i | None => List.length levels end.

  (** the sort key: (level index, position in the search order); [posa ids a] is the index of the
      first occurrence of [a]'s identifier in [ids] (see [posa_spec]) *)
  Definition acceptance_key (levels : list level) (cs : list crit) (order : list alt) (a : alt) : nat * nat :=
    (level_index levels cs a, posa (map a_id order) a).

  Lemma posa_spec (ids : list string) (a : alt) :
    In (a_id a) ids ->
    nth_error ids (posa ids a) = Some (a_id a) /\
    forall j, (j < posa ids a)%nat -> nth_error ids j <> Some (a_id a).
  Proof.
    intros Hin. unfold posa. destruct (pos_of_spec ids (a_id a) 0%nat Hin) as (p & Hp & Hn & Hf).
    cbn in Hp. rewrite Hp. split; assumption.
  Qed.

  (** what an entry reports: accepted at level [i] = that index and the thresholds of that level;
      not accepted = the index after the last level and some thresholds satisfying [lowP] *)
  Definition reports (cs : list crit) (levels : list level) (lowP : level -> Prop) (a : alt) (ev : evaluation) : Prop :=
    match first_level levels cs a with
    | Some i => exists t, nth_error levels i = Some t /\ ev = ESatisf t (Z.of_nat i)
    | None => exists low, lowP low /\ ev = ESatisf low (Z.of_nat (List.length levels))
    end.
  Definition entry_reports cs levels lowP (x : entry) : Prop := reports cs levels lowP (e_alt x) (e_eval x).

  (** the same, spelled out: the reported level is really met and every earlier one is failed *)
  Theorem entry_reports_explained cs levels lowP x :
    entry_reports cs levels lowP x ->
    exists t i, e_eval x = ESatisf t (Z.of_nat i) /\
      (((i < List.length levels)%nat /\ nth_error levels i = Some t /\ meets_level cs (e_alt x) t /\
        forall j t', (j < i)%nat -> nth_error levels j = Some t' -> ~ meets_level cs (e_alt x) t')
       \/ (i = List.length levels /\ lowP t /\ forall t', In t' levels -> ~ meets_level cs (e_alt x) t')).
  Proof.
    unfold entry_reports, reports. destruct (first_level levels cs (e_alt x)) as [i|] eqn:E.
    - intros (t & Hn & Hev). exists t, i. split; [exact Hev|]. left.
      pose proof (first_level_lt _ _ _ _ E) as Hlt.
      apply first_level_Some_iff in E as [(t' & Hn' & Hm) Hf].
      assert (t' = t) by congruence. subst t'. repeat split; assumption.
    - intros (low & Hl & Hev). exists low, (List.length levels). split; [exact Hev|]. right.
      repeat split; [exact Hl|]. now apply first_level_None_iff.
  Qed.

  Lemma reports_idx cs levels lowP x :
    entry_reports cs levels lowP x -> s_idx x = Z.of_nat (level_index levels cs (e_alt x)).
  Proof.
    unfold entry_reports, reports, level_index, s_idx. destruct (first_level levels cs (e_alt x)).
    - intros (t & _ & ->). reflexivity.
    - intros (low & _ & ->). reflexivity.
  Qed.

  (** links of a sequential ranking: every entry links exactly its successor, the last one nothing *)
  Definition seq_links (r : list entry) : Prop :=
    forall i x, nth_error r i = Some x ->
      e_links x = match nth_error r (S i) with Some y => [a_id (e_alt y)] | None => [] end.

  (** the ranking, given the criteria, the levels, the search order and the description [lowP] of
      the thresholds reported for alternatives that met no level *)
  Definition ranking_spec (cs : list crit) (levels : list level) (lowP : level -> Prop)
             (order : list alt) (r : list entry) : Prop :=
    (* exactly the alternatives of the search order *)
    Permutation (map e_alt r) order /\
    (* by acceptance: first by level index, within a level by search position *)
    StronglySorted lex_lt (map (fun x => acceptance_key levels cs order (e_alt x)) r) /\
    Forall (entry_reports cs levels lowP) r /\
    seq_links r.

  (** the worst value of every criterion's range (declared range if present, else observed over all
      known alternatives -- this is [values_range]): minimum for gain, maximum for cost; no other
      keys; canonical (sorted by key) *)
  Definition worst_values (st : state) (low : level) : Prop :=
    (forall c, In c (st_crits st) ->
       exists mn mx, values_range (all_alts st) c = Ok (mn, mx) /\
                     mget (c_id c) low = Some (if is_cost c then mx else mn)) /\
    (forall k, In k (mkeys low) -> In k (map c_id (st_crits st))) /\
    msorted low = true.

  (** [worst_values] describes at most one map *)
  Lemma worst_values_unique st (l1 l2 : level) : worst_values st l1 -> worst_values st l2 -> l1 = l2.
  Proof.
    intros (A1 & K1 & S1) (A2 & K2 & S2). apply msorted_ext; [exact S1|exact S2|]. intros k.
    destruct (in_dec string_dec k (map c_id (st_crits st))) as [Hin|Hni].
    - apply in_map_iff in Hin as (c & <- & Hc).
      destruct (A1 c Hc) as (mn & mx & E1 & ->). destruct (A2 c Hc) as (mn' & mx' & E2 & ->). rewrite E1 in E2. inversion E2. reflexivity.
    - assert (N1 : mget k l1 = None) by (apply mget_none_iff; intros C; now apply Hni, K1).
      assert (N2 : mget k l2 = None) by (apply mget_none_iff; intros C; now apply Hni, K2).
      congruence.
  Qed.

  (** the search order: the current choice (looked up among all known alternatives) first, then the
      considered alternatives without it, as listed or (random order) in some permutation; without a
      current choice the considered alternatives themselves *)
  Definition first_with_id (id : string) (l : list alt) (a : alt) : Prop :=
    exists l1 l2, l = l1 ++ a :: l2 /\ a_id a = id /\ ~ In id (map a_id l1).
  Definition without_first (id : string) (l l' : list alt) : Prop :=
    (~ In id (map a_id l) /\ l' = l) \/
    (exists l1 a l2, l = l1 ++ a :: l2 /\ a_id a = id /\ ~ In id (map a_id l1) /\ l' = l1 ++ l2).
  Definition is_search_order (st : state) (cur : string) (rnd : bool) (order : list alt) : Prop :=
    if String.eqb cur "" then
      order <> [] /\ (if rnd then Permutation (st_cons st) order else order = st_cons st)
    else
      exists choice rest cons', order = choice :: rest /\ first_with_id cur (all_alts st) choice /\
        without_first cur (st_cons st) cons' /\ (if rnd then Permutation cons' rest else rest = cons').

  (** the specification of C13 for a state and a returned ranking *)
  Definition C13_spec (st : state) (r : list entry) : Prop :=
    exists fn lp seed cur rnd src f levels order,
      st_params st = PSatisf fn lp seed cur rnd /\
      lv_init Decreasing fn lp st = Ok src /\ lv_all f src = Ok levels /\
      is_search_order st cur rnd order /\
      ranking_spec (st_crits st) levels (worst_values st) order r.

  (** *** the specification determines the ranking *)
  Lemma reports_functional cs levels (lowP : level -> Prop) a ev1 ev2 :
    (forall l1 l2, lowP l1 -> lowP l2 -> l1 = l2) ->
    reports cs levels lowP a ev1 -> reports cs levels lowP a ev2 -> ev1 = ev2.
  Proof.
    intros Hu. unfold reports. destruct (first_level levels cs a) as [i|].
    - intros (t1 & H1 & ->) (t2 & H2 & ->). congruence.
    - intros (l1 & H1 & ->) (l2 & H2 & ->). now rewrite (Hu _ _ H1 H2).
  Qed.

  Fixpoint links_of (l : list alt) : list (list string) :=
    match l with
    | [] => []
    | a :: t => (match t with [] => [] | b :: _ => [a_id b] end) :: links_of t
    end.

  Lemma seq_links_tail x r : seq_links (x :: r) -> seq_links r.
  Proof. intros H i y Hy. exact (H (S i) y Hy). Qed.

  Lemma seq_links_of : forall r, seq_links r -> map e_links r = links_of (map e_alt r).
  Proof.
    induction r as [|x r IH]; intros H; [reflexivity|]. cbn [map links_of]. f_equal.
    - rewrite (H 0%nat x eq_refl). cbn [nth_error]. destruct r as [|y r']; reflexivity.
    - apply IH. eapply seq_links_tail; exact H.
  Qed.

  Lemma entries_ext : forall r1 r2 : list entry,
    map e_alt r1 = map e_alt r2 -> map e_eval r1 = map e_eval r2 -> map e_links r1 = map e_links r2 -> r1 = r2.
  Proof.
    induction r1 as [|x r IH]; intros [|y s] Ha He Hl; try discriminate; [reflexivity|].
    cbn [map] in *. inversion Ha; inversion He; inversion Hl. f_equal; [|now apply IH].
    destruct x, y. cbn in *. congruence.
  Qed.

  Lemma evals_determined cs levels (lowP : level -> Prop) :
    (forall l1 l2, lowP l1 -> lowP l2 -> l1 = l2) ->
    forall r1 r2 : list entry, map e_alt r1 = map e_alt r2 ->
    Forall (entry_reports cs levels lowP) r1 -> Forall (entry_reports cs levels lowP) r2 ->
    map e_eval r1 = map e_eval r2.
  Proof.
    intros Hu. induction r1 as [|x r IH]; intros [|y s] Ha H1 H2; try discriminate; [reflexivity|].
    cbn [map] in *. inversion Ha as [[Hxy Hrs]]. inversion H1; subst. inversion H2; subst. f_equal.
    - unfold entry_reports in *. rewrite Hxy in *. eapply reports_functional; eassumption.
    - now apply IH.
  Qed.

  (** two rankings that satisfy the specification for the same criteria, levels and search order
      are equal (provided [lowP] describes at most one map) *)
  Theorem ranking_spec_unique cs levels (lowP : level -> Prop) order r1 r2 :
    (forall l1 l2, lowP l1 -> lowP l2 -> l1 = l2) ->
    ranking_spec cs levels lowP order r1 -> ranking_spec cs levels lowP order r2 -> r1 = r2.
  Proof.
    intros Hu (P1 & S1 & R1 & L1) (P2 & S2 & R2 & L2).
    assert (Ha : map e_alt r1 = map e_alt r2).
    { apply (strict_sorted_perm_unique (fun a b => lex_lt (acceptance_key levels cs order a) (acceptance_key levels cs order b))).
      - intros a b H1 H2. exact (lex_lt_irrefl _ (lex_lt_trans _ _ _ H1 H2)).
      - apply StronglySorted_map_inv. now rewrite map_map.
      - apply StronglySorted_map_inv. now rewrite map_map.
      - eapply perm_trans; [exact P1|apply Permutation_sym; exact P2]. }
    apply entries_ext; [exact Ha| |].
    - eapply evals_determined; eassumption.
    - rewrite (seq_links_of _ L1), (seq_links_of _ L2). now rewrite Ha.
  Qed.

  (** ** B. The model meets the specification *)

  (** *** search order *)
  Lemma fetch_alt'_first : forall (l : list alt) id a, fetch_alt' l id = Ok a -> first_with_id id l a.
  Proof.
    induction l as [|b r IH]; intros id a H; [discriminate|]. cbn [fetch_alt'] in H.
    destruct (String.eqb (a_id b) id) eqn:E.
    - inversion H; subst b. apply String.eqb_eq in E. exists [], r. repeat split; [exact E|]. intros [].
    - apply String.eqb_neq in E. destruct (IH _ _ H) as (l1 & l2 & -> & Hid & Hni).
      exists (b :: l1), l2. repeat split; [exact Hid|]. cbn [map In]. intros [C|C]; [now apply E|now apply Hni].
  Qed.

  Lemma remove_alt_without : forall (l : list alt) id, without_first id l (remove_alt l id).
  Proof.
    induction l as [|b r IH]; intros id; [left; split; [intros []|reflexivity]|].
    cbn [remove_alt]. destruct (String.eqb (a_id b) id) eqn:E.
    - apply String.eqb_eq in E. right. exists [], b, r. repeat split; [exact E|]. intros [].
    - apply String.eqb_neq in E. destruct (IH id) as [[Hni Heq]|(l1 & a & l2 & Hl & Hid & Hni & Heq)].
      + left. split; [|now rewrite Heq]. cbn [map In]. intros [C|C]; [now apply E|now apply Hni].
      + right. exists (b :: l1), a, l2. rewrite Heq, Hl. repeat split; [exact Hid|].
        cbn [map In]. intros [C|C]; [now apply E|now apply Hni].
  Qed.

  Lemma search_order_is_search_order s cur rnd g c rest g' :
    search_order s cur rnd g = Ok (c, rest, g') -> is_search_order s cur rnd (c :: rest).
  Proof.
    unfold search_order, is_search_order. destruct (String.eqb cur "") eqn:Ec; cbn [negb]; intros H.
    - destruct (order_alternatives rnd (st_cons s) g) as [[l1 g1]|] eqn:Eo; cbn [bind fst snd] in H; [|discriminate].
      destruct l1 as [|x r]; [discriminate|]. inversion H; subst c rest g'. split; [discriminate|].
      destruct rnd.
      + eapply order_alternatives_perm; eassumption.
      + unfold order_alternatives in Eo. now inversion Eo.
    - destruct (fetch_alt' (all_alts s) cur) as [choice|] eqn:Ef; cbn [bind] in H; [|discriminate].
      destruct (order_alternatives rnd (remove_alt (st_cons s) (a_id choice)) g) as [[l1 g1]|] eqn:Eo;
        cbn [bind fst snd] in H; [|discriminate].
      inversion H; subst c rest g'. apply fetch_alt'_first in Ef.
      assert (Hid : a_id choice = cur) by (destruct Ef as (? & ? & _ & Hid & _); exact Hid).
      exists choice, l1, (remove_alt (st_cons s) cur). repeat split.
      + exact Ef.
      + apply remove_alt_without.
      + rewrite Hid in Eo. destruct rnd.
        * eapply order_alternatives_perm; eassumption.
        * unfold order_alternatives in Eo. now inversion Eo.
  Qed.

  (** *** the levels loop keeps every alternative exactly once *)
  Lemma satisf_levels_perm cs : forall fuel src left idx acc lft acc' idx',
    satisf_levels fuel src cs left idx acc = Ok (lft, acc', idx') ->
    NoDup (map a_id left) ->
    Permutation (map fst acc' ++ lft) (map fst acc ++ left).
  Proof.
    induction fuel as [|f IH]; intros src left idx acc lft acc' idx' H Hnd; [discriminate|].
    cbn [satisf_levels] in H.
    destruct (lv_next src) as [[t src']|] eqn:Hn.
    - destruct (zip_with_weights cs t) as [ths|] eqn:Hz; cbn [bind] in H; [|discriminate].
      destruct (satisf_walk left left ths t (idx + 1)%Z acc) as [[temp1 acc1]|] eqn:Hw; cbn [bind] in H; [|discriminate].
      cbn [fst snd] in H.
      apply (satisf_walk_level cs t ths (idx + 1)%Z left acc temp1 acc1 Hz Hnd) in Hw as [Hacc1 Htemp1].
      assert (Hp : Permutation (map fst acc1 ++ temp1) (map fst acc ++ left)).
      { rewrite Hacc1, Htemp1, map_app, map_map. cbn [fst]. rewrite map_id, <- app_assoc.
        apply Permutation_app_head. apply filter_partition_perm. }
      assert (Hnd1 : NoDup (map a_id temp1)) by (rewrite Htemp1; now apply NoDup_ids_filter).
      clear Hacc1 Htemp1.
      destruct temp1 as [|b temp1'].
      + inversion H; subst lft acc' idx'. exact Hp.
      + eapply perm_trans; [|exact Hp]. eapply IH; eassumption.
    - inversion H; subst lft acc' idx'. apply Permutation_refl.
  Qed.

  (** *** from the loop invariants to [reports] *)
  Lemma good_entry_reports cs (levels : list level) lowP (x : mres) :
    good_entry cs levels x -> reports cs levels lowP (fst x) (snd x).
  Proof.
    intros (t & k & Hev & Hn & Hm & Hf). unfold reports.
    assert (E : first_level levels cs (fst x) = Some k).
    { unfold first_level. apply (first_level_from_nth cs (fst x) levels 0%nat k t Hn Hm Hf). }
    rewrite E. exists t. split; [now rewrite <- nth_opt_nth_error|exact Hev].
  Qed.

  Lemma leftover_reports cs (levels : list level) (lowP : level -> Prop) a low :
    (forall lv, In lv levels -> meets cs a lv = false) -> lowP low ->
    reports cs levels lowP a (ESatisf low (Z.of_nat (List.length levels))).
  Proof.
    intros Hf Hl. unfold reports, first_level. rewrite first_level_from_none by exact Hf.
    exists low. split; [exact Hl|reflexivity].
  Qed.

  (** *** sequential ranking *)
  Lemma seq_alts (l : list mres) : map e_alt (sequential_ranking l) = map fst l.
  Proof. induction l as [|[a ev] r IH]; [reflexivity|]. cbn [sequential_ranking map e_alt fst]. now rewrite IH. Qed.

  Lemma seq_links_seq : forall l : list mres, seq_links (sequential_ranking l).
  Proof.
    induction l as [|[a ev] r IH]; intros i x H; [destruct i; discriminate|].
    destruct i as [|i].
    - cbn [sequential_ranking nth_error] in *. inversion H; subst x. cbn [e_links].
      destruct r as [|[b ev'] r']; reflexivity.
    - cbn [sequential_ranking nth_error] in H. specialize (IH i x H). exact IH.
  Qed.

  Lemma seq_reports cs levels lowP (l : list mres) :
    Forall (fun x => reports cs levels lowP (fst x) (snd x)) l ->
    Forall (entry_reports cs levels lowP) (sequential_ranking l).
  Proof.
    intros H. apply Forall_forall. intros x Hx. apply seq_in in Hx.
    rewrite Forall_forall in H. exact (H _ Hx).
  Qed.

  (** *** strict order by key from the two conditions the checkers test *)
  Lemma sorted_of_checks ids (key : entry -> nat * nat) : forall obs : list entry,
    (forall x, In x obs -> s_idx x = Z.of_nat (fst (key x)) /\ snd (key x) = pos_of (eid x) ids 0) ->
    nondecreasing (map s_idx obs) = true -> order_ok ids obs = true ->
    StronglySorted lex_lt (map key obs).
  Proof.
    intros obs Hk Hn Ho. apply Sorted_lex_strong. revert Hk Hn Ho.
    induction obs as [|x r IH]; intros Hk Hn Ho; [constructor|].
    cbn [map] in Hn. apply nondec_cons in Hn as [Hh Ht].
    destruct r as [|y r'].
    - cbn [map]. constructor; constructor.
    - cbn [order_ok] in Ho. apply andb_true_iff in Ho as [Ho1 Ho2].
      change (map key (x :: y :: r')) with (key x :: map key (y :: r')).
      constructor.
      + apply IH; [|exact Ht|exact Ho2]. intros z Hz. apply Hk. now right.
      + cbn [map]. constructor. cbn [map] in Hh.
        destruct (Hk x (or_introl eq_refl)) as [Hx1 Hx2].
        destruct (Hk y (or_intror (or_introl eq_refl))) as [Hy1 Hy2].
        unfold lex_lt. rewrite Hx2, Hy2.
        apply orb_true_iff in Ho1 as [Hd|Hp].
        * apply negb_true_iff, Z.eqb_neq in Hd. left. lia.
        * apply Nat.ltb_lt in Hp. lia.
  Qed.

  Lemma ranking_sorted cs levels lowP (order : list alt) (r : list entry) :
    Forall (entry_reports cs levels lowP) r ->
    nondecreasing (map s_idx r) = true -> order_ok (map a_id order) r = true ->
    StronglySorted lex_lt (map (fun x => acceptance_key levels cs order (e_alt x)) r).
  Proof.
    intros Hr Hn Ho. apply (sorted_of_checks (map a_id order)); [|exact Hn|exact Ho].
    intros x Hx. rewrite Forall_forall in Hr. split.
    - cbn [acceptance_key fst]. eapply reports_idx. apply Hr. exact Hx.
    - reflexivity.
  Qed.

  (** *** the worst values *)
  Lemma low_fold_worst s : forall cs m low,
    NoDup (map c_id cs) ->
    fold_left (low_step s) cs (Ok m) = Ok low ->
    (forall c, In c cs -> exists mn mx, values_range (all_alts s) c = Ok (mn, mx) /\
                                        mget (c_id c) low = Some (if is_cost c then mx else mn)) /\
    (forall k, ~ In k (map c_id cs) -> mget k low = mget k m) /\
    (forall k, In k (mkeys low) -> In k (mkeys m) \/ In k (map c_id cs)).
  Proof.
    induction cs as [|c cs IH]; intros m low Hnd H.
    - cbn in H. inversion H; subst low. repeat split; [intros c []|now left].
    - cbn [map] in Hnd. inversion Hnd as [|? ? Hni Hnd']; subst.
      cbn [fold_left] in H. unfold low_step at 2 in H. cbn [bind] in H.
      destruct (values_range (all_alts s) c) as [[mn mx]|] eqn:Er; cbn [bind] in H.
      2:{ exfalso. clear -H. induction cs as [|c' cs IH]; [discriminate|]. cbn [fold_left] in H. now apply IH. }
      cbn [fst snd] in H.
      destruct (IH _ _ Hnd' H) as (Ha & Hb & Hc). split; [|split].
      + intros c' [<-|Hc'].
        * exists mn, mx. split; [exact Er|]. rewrite (Hb _ Hni). apply mget_mset_same.
        * now apply Ha.
      + intros k Hk. cbn [map In] in Hk. rewrite Hb by tauto. apply mget_mset_other.
        intros ->. apply Hk. now left.
      + intros k Hk. apply Hc in Hk as [Hk|Hk]; [|right; now right].
        apply mkeys_mset in Hk as [->|Hk]; [right; now left|now left].
  Qed.

  Lemma low_fold_sorted s : forall cs m low,
    msorted m = true -> fold_left (low_step s) cs (Ok m) = Ok low -> msorted low = true.
  Proof.
    induction cs as [|c cs IH]; intros m low Hs H.
    - cbn in H. now inversion H; subst.
    - cbn [fold_left] in H. unfold low_step at 2 in H. cbn [bind] in H.
      destruct (values_range (all_alts s) c) as [[mn mx]|] eqn:Er; cbn [bind] in H.
      2:{ exfalso. clear -H. induction cs as [|c' cs IH]; [discriminate|]. cbn [fold_left] in H. now apply IH. }
      eapply IH; [|exact H]. now apply mset_msorted.
  Qed.

  Theorem lowest_thresholds_worst s low :
    NoDup (map c_id (st_crits s)) -> lowest_thresholds s = Ok low -> worst_values s low.
  Proof.
    intros Hnd H. rewrite lowest_fold in H.
    destruct (low_fold_worst s _ _ _ Hnd H) as (Ha & _ & Hc). split; [exact Ha|]. split.
    - intros k Hk. destruct (Hc k Hk) as [[]|Hk']. exact Hk'.
    - eapply low_fold_sorted; [|exact H]. reflexivity.
  Qed.

  (** *** B.1 the model's ranking, relative to the enumerated levels and the model's search order *)
  Theorem satisfaction_meets_spec_at e s r fn lp seed cur rnd src f levels c rest g :
    st_params s = PSatisf fn lp seed cur rnd ->
    lv_init Decreasing fn lp s = Ok src -> lv_all f src = Ok levels ->
    search_order s cur rnd (new_rng e seed) = Ok (c, rest, g) ->
    NoDup (map a_id (st_cons s)) -> NoDup (map c_id (st_crits s)) ->
    satisfaction_evaluate e s = Ok r ->
    ranking_spec (st_crits s) levels (worst_values s) (c :: rest) r.
  Proof.
    intros Hp Hinit Hall Hso Hnd Hndc H. unfold satisfaction_evaluate in H.
    rewrite Hp, Hinit in H. cbn [bind] in H. rewrite Hso in H. cbn [bind] in H.
    pose proof (search_order_nodup s cur rnd _ c rest g Hnd Hso) as Hnds.
    destruct (satisf_levels level_fuel src (st_crits s) (c :: rest) (-1)%Z []) as [[[lft acc] idx]|] eqn:Hlv;
      cbn [bind] in H; [|discriminate].
    destruct (satisf_levels_spec (st_crits s) level_fuel src (c :: rest) (-1)%Z [] [] f levels
                lft acc idx Hlv Hall eq_refl Hnds) as (Hgood & Hmono & Hle & Hleft).
    { intros a lv _ []. }
    { constructor. }
    { reflexivity. }
    { constructor. }
    cbn [app] in Hgood, Hleft.
    destruct (satisf_levels_order (map a_id (c :: rest)) (st_crits s) level_fuel src
                (c :: rest) (-1)%Z [] lft acc idx Hlv Hnds (in_order_self _ Hnds) eq_refl (Forall_nil _))
      as (Hin & Hord & _).
    pose proof (satisf_levels_perm (st_crits s) level_fuel src (c :: rest) (-1)%Z [] lft acc idx Hlv Hnds) as Hperm.
    cbn [map app] in Hperm.
    assert (Hrep : Forall (fun x => reports (st_crits s) levels (worst_values s) (fst x) (snd x)) acc).
    { eapply Forall_impl; [|exact Hgood]. intros x Hx. now apply good_entry_reports. }
    destruct lft as [|b lft'].
    - inversion H; subst r. rewrite app_nil_r in Hperm.
      assert (Hr : Forall (entry_reports (st_crits s) levels (worst_values s)) (sequential_ranking acc))
        by now apply seq_reports.
      split; [now rewrite seq_alts|]. split; [|split; [exact Hr|apply seq_links_seq]].
      apply (ranking_sorted _ _ (worst_values s)); [exact Hr|now rewrite seq_idx|now rewrite order_ok_seq].
    - destruct Hleft as [Hidx Hfail]; [discriminate|].
      remember (b :: lft') as lft eqn:El.
      destruct (lowest_thresholds s) as [low|] eqn:Hlow; cbn [bind] in H; [|discriminate].
      injection H as <-.
      pose proof (lowest_thresholds_worst s low Hndc Hlow) as Hworst.
      assert (Hi : (idx + 1)%Z = Z.of_nat (List.length levels)) by lia. rewrite Hi.
      set (l := acc ++ map (fun a => (a, ESatisf low (Z.of_nat (List.length levels)))) lft).
      assert (Hrep' : Forall (fun x => reports (st_crits s) levels (worst_values s) (fst x) (snd x)) l).
      { apply Forall_app. split; [exact Hrep|]. apply Forall_forall. intros x Hx.
        apply in_map_iff in Hx as (a & <- & Ha). cbn [fst snd].
        apply leftover_reports; [|exact Hworst]. intros lv Hin0. now apply Hfail. }
      assert (Hr : Forall (entry_reports (st_crits s) levels (worst_values s)) (sequential_ranking l))
        by now apply seq_reports.
      split; [|split; [|split; [exact Hr|apply seq_links_seq]]].
      + rewrite seq_alts. unfold l. rewrite map_app, map_map. cbn [fst]. now rewrite map_id.
      + apply (ranking_sorted _ _ (worst_values s)); [exact Hr| |].
        * rewrite seq_idx. unfold l. rewrite map_app, map_map.
          apply nondec_app; [exact Hmono|exact (nondec_const (Z.of_nat (List.length levels)) _)|].
          intros x y Hx Hy. apply in_map_iff in Hx as (mx & <- & Hmx).
          rewrite Forall_forall in Hle. apply Hle in Hmx.
          apply in_map_iff in Hy as (a & <- & _). unfold midx at 2. cbn [snd]. lia.
        * rewrite order_ok_seq. unfold l. apply ordm_app; [exact Hord|now apply ordm_group|].
          intros x y Hx Hy. rewrite Forall_forall in Hle. apply Hle in Hx.
          apply in_map_iff in Hy as (a & <- & _). unfold midx at 2. cbn [snd]. lia.
  Qed.

  (** ... and it is the only ranking that satisfies the specification *)
  Corollary satisfaction_spec_complete e s r r' fn lp seed cur rnd src f levels c rest g :
    st_params s = PSatisf fn lp seed cur rnd ->
    lv_init Decreasing fn lp s = Ok src -> lv_all f src = Ok levels ->
    search_order s cur rnd (new_rng e seed) = Ok (c, rest, g) ->
    NoDup (map a_id (st_cons s)) -> NoDup (map c_id (st_crits s)) ->
    satisfaction_evaluate e s = Ok r ->
    ranking_spec (st_crits s) levels (worst_values s) (c :: rest) r' -> r' = r.
  Proof.
    intros Hp Hinit Hall Hso Hnd Hndc H H'.
    eapply ranking_spec_unique; [apply worst_values_unique|exact H'|].
    eapply satisfaction_meets_spec_at; eassumption.
  Qed.

  (** the series of levels of the state can be enumerated (with some fuel); always true on [NumQc],
      see [levels_finite_Qc] below, which is [LevelFacts.series_finite] / [lv_init_series_finite] *)
  Definition levels_finite (s : state) : Prop :=
    match st_params s with
    | PSatisf fn lp _ _ _ =>
        forall src, lv_init Decreasing fn lp s = Ok src -> exists f levels, lv_all f src = Ok levels
    | _ => True
    end.

  (** *** B.2 the requested statement *)
  Theorem satisfaction_meets_spec e s r :
    satisfaction_evaluate e s = Ok r ->
    NoDup (map a_id (st_cons s)) -> NoDup (map c_id (st_crits s)) -> levels_finite s ->
    C13_spec s r.
  Proof.
    intros H Hnd Hndc Hfin. pose proof H as H0. unfold satisfaction_evaluate in H0. unfold levels_finite in Hfin.
    destruct (st_params s) as [| | | | |?|fn lp seed cur rnd] eqn:Hp; try discriminate.
    destruct (lv_init Decreasing fn lp s) as [src|] eqn:Hinit; cbn [bind] in H0; [|discriminate].
    destruct (Hfin src eq_refl) as (f & levels & Hall).
    destruct (search_order s cur rnd (new_rng e seed)) as [[[c rest] g]|] eqn:Hso; cbn [bind] in H0; [|discriminate].
    exists fn, lp, seed, cur, rnd, src, f, levels, (c :: rest).
    split; [exact Hp|]. split; [exact Hinit|]. split; [exact Hall|]. split.
    - eapply search_order_is_search_order; eassumption.
    - eapply satisfaction_meets_spec_at; eassumption.
  Qed.

  (** the worst value of a declared range (for the observed range see [worst_values_observed_Qc]) *)
  Lemma worst_values_declared (st : state) (low : smap num) c mn mx :
    worst_values st low -> In c (st_crits st) -> c_range c = Some (mn, mx) ->
    mget (c_id c) low = Some (if is_cost c then mx else mn).
  Proof.
    intros (Ha & _) Hc Hr. destruct (Ha c Hc) as (mn' & mx' & E & ->).
    unfold values_range in E. rewrite Hr in E. now inversion E.
  Qed.

  (** ** C. What the two checkers guarantee about an observed ranking *)

  (** every entry reports according to [first_level] (with the computed worst values [low]) and the
      entries are in strictly increasing order of [acceptance_key] *)
  Definition obs_ranking_spec (cs : list crit) (levels : list level) (low : level)
             (order : list alt) (obs : list entry) : Prop :=
    StronglySorted lex_lt (map (fun x => acceptance_key levels cs order (e_alt x)) obs) /\
    Forall (entry_reports cs levels (eq low)) obs.

  Definition C13_obs_spec (e : env) (st : state) (obs : list entry) : Prop :=
    exists fn lp seed cur rnd src levels low c rest g,
      st_params st = PSatisf fn lp seed cur rnd /\
      lv_init Decreasing fn lp st = Ok src /\ lv_all level_fuel src = Ok levels /\
      lowest_thresholds st = Ok low /\ (NoDup (map c_id (st_crits st)) -> worst_values st low) /\
      search_order st cur rnd (new_rng e seed) = Ok (c, rest, g) /\ is_search_order st cur rnd (c :: rest) /\
      obs_ranking_spec (st_crits st) levels low (c :: rest) obs.

  Section WithLaws.
    Context {L : OrdLaws N}.

    Lemma smap_same_eq : forall a b : smap num, smap_same a b = true -> a = b.
    Proof.
      unfold smap_same. induction a as [|[k v] r IH]; intros [|[k' v'] r'] H; cbn [list_eqb fst snd] in H;
        try discriminate; [reflexivity|].
      apply andb_true_iff in H as [H1 H2]. apply andb_true_iff in H1 as [Hk Hv].
      apply String.eqb_eq in Hk. apply same_eq in Hv. subst. f_equal. now apply IH.
    Qed.

    Lemma check_entry_reports cs (levels : list level) low x :
      check_entry cs levels low x = true -> entry_reports cs levels (eq low) x.
    Proof.
      unfold check_entry, entry_reports, reports. cbv zeta. destruct (e_eval x) as [| | | |t i]; try discriminate.
      destruct (Z.ltb_spec i 0) as [Hneg|Hi0]; [intros Hd; discriminate Hd|].
      destruct (Z.ltb_spec i (Z.of_nat (List.length levels))) as [Hlt|Hge].
      - destruct (nth_opt (Z.to_nat i) levels) as [lv|] eqn:Hn; [|intros Hd; discriminate Hd].
        intros H. apply andb_true_iff in H as [H Hf]. apply andb_true_iff in H as [Hs Hm].
        apply smap_same_eq in Hs. subst lv.
        assert (E : first_level levels cs (e_alt x) = Some (Z.to_nat i)).
        { unfold first_level. apply (first_level_from_nth cs (e_alt x) levels 0%nat (Z.to_nat i) t Hn Hm).
          intros lv Hlv. rewrite forallb_forall in Hf. apply negb_true_iff. now apply Hf. }
        rewrite E. exists t. split; [now rewrite <- nth_opt_nth_error|]. f_equal. lia.
      - intros H. apply andb_true_iff in H as [H Hf]. apply andb_true_iff in H as [He Hs].
        apply Z.eqb_eq in He. apply smap_same_eq in Hs. subst t i.
        unfold first_level. rewrite first_level_from_none.
        + exists low. split; reflexivity.
        + intros lv Hlv. rewrite forallb_forall in Hf. apply negb_true_iff. now apply Hf.
    Qed.

    Theorem C13_checkers_sound e st obs :
      C13_ok st obs = true -> C13_order_ok e st obs = true -> C13_obs_spec e st obs.
    Proof.
      unfold C13_ok, C13_order_ok. intros H1 H2.
      destruct (st_params st) as [| | | | |?|fn lp seed cur rnd] eqn:Hp; try discriminate.
      destruct (lv_init Decreasing fn lp st) as [src|] eqn:Hinit; [|discriminate].
      destruct (lv_all level_fuel src) as [levels|] eqn:Hall; [|discriminate].
      destruct (lowest_thresholds st) as [low|] eqn:Hlow; [|discriminate].
      destruct (search_order st cur rnd (new_rng e seed)) as [[[c rest] g]|] eqn:Hso; [|discriminate].
      apply andb_true_iff in H1 as [Hn Hc].
      exists fn, lp, seed, cur, rnd, src, levels, low, c, rest, g.
      assert (Hr : Forall (entry_reports (st_crits st) levels (eq low)) obs).
      { apply Forall_forall. intros x Hx. rewrite forallb_forall in Hc. apply check_entry_reports. now apply Hc. }
      split; [exact Hp|]. split; [exact Hinit|]. split; [exact Hall|]. split; [exact Hlow|].
      split; [|split; [exact Hso|split; [|split]]].
      - intros Hnd. now apply lowest_thresholds_worst.
      - eapply search_order_is_search_order; eassumption.
      - eapply ranking_sorted; eassumption.
      - exact Hr.
    Qed.
    (** spelled out per entry: what an observed ranking accepted by the two checkers guarantees *)
    Corollary C13_checkers_entries e st obs :
      C13_ok st obs = true -> C13_order_ok e st obs = true ->
      exists fn lp seed cur rnd src levels low,
        st_params st = PSatisf fn lp seed cur rnd /\
        lv_init Decreasing fn lp st = Ok src /\ lv_all level_fuel src = Ok levels /\
        lowest_thresholds st = Ok low /\
        forall x, In x obs ->
          exists t i, e_eval x = ESatisf t (Z.of_nat i) /\
            (((i < List.length levels)%nat /\ nth_error levels i = Some t /\ meets_level (st_crits st) (e_alt x) t /\
              forall j t', (j < i)%nat -> nth_error levels j = Some t' -> ~ meets_level (st_crits st) (e_alt x) t')
             \/ (i = List.length levels /\ low = t /\
                 forall t', In t' levels -> ~ meets_level (st_crits st) (e_alt x) t')).
    Proof.
      intros H1 H2. destruct (C13_checkers_sound e st obs H1 H2)
        as (fn & lp & seed & cur & rnd & src & levels & low & c & rest & g & Hp & Hi & Ha & Hl & _ & _ & _ & _ & Hr).
      exists fn, lp, seed, cur, rnd, src, levels, low. repeat (split; [assumption|]).
      intros x Hx. rewrite Forall_forall in Hr. apply entry_reports_explained. now apply Hr.
    Qed.

    (** conversely the two checkers accept every observation that satisfies [C13_obs_spec]: the
        specification is exactly what they test *)
    Lemma reports_check_entry cs (levels : list level) low x :
      entry_reports cs levels (eq low) x -> check_entry cs levels low x = true.
    Proof.
      unfold entry_reports, reports. destruct (first_level levels cs (e_alt x)) as [i|] eqn:E.
      - intros (t & Hn & Hev). apply check_entry_good.
        destruct (first_level_from_Some_inv cs (e_alt x) levels 0%nat i E) as (j & t' & Hk & Hn' & Hm & Hf).
        cbn in Hk. subst j. assert (t' = t) by congruence. subst t'.
        exists t, i. cbn [fst snd]. repeat split; [exact Hev|now rewrite nth_opt_nth_error|exact Hm|exact Hf].
      - intros (low0 & <- & Hev). apply check_entry_left; [exact Hev|].
        intros lv Hlv. eapply first_level_from_None_inv; eassumption.
    Qed.

    Lemma checks_of_sorted ids (key : entry -> nat * nat) : forall obs : list entry,
      (forall x, In x obs -> s_idx x = Z.of_nat (fst (key x)) /\ snd (key x) = pos_of (eid x) ids 0) ->
      StronglySorted lex_lt (map key obs) ->
      nondecreasing (map s_idx obs) = true /\ order_ok ids obs = true.
    Proof.
      induction obs as [|x r IH]; intros Hk Hs; [split; reflexivity|].
      cbn [map] in Hs. inversion Hs as [|? ? Hs' Hf]; subst.
      destruct (IH (fun z Hz => Hk z (or_intror Hz)) Hs') as [Hn Ho].
      destruct r as [|y r']; [split; reflexivity|].
      cbn [map] in Hf. inversion Hf as [|? ? Hxy _]; subst.
      destruct (Hk x (or_introl eq_refl)) as [Hx1 Hx2].
      destruct (Hk y (or_intror (or_introl eq_refl))) as [Hy1 Hy2].
      unfold lex_lt in Hxy. rewrite Hx2, Hy2 in Hxy. split.
      - cbn [map]. apply nondec_cons. split; [lia|exact Hn].
      - cbn [order_ok]. apply andb_true_iff. split; [|exact Ho].
        destruct (Z.eqb_spec (s_idx x) (s_idx y)) as [He|Hne]; [|reflexivity].
        cbn [negb orb]. apply Nat.ltb_lt. lia.
    Qed.

    Theorem C13_checkers_complete e st obs :
      C13_obs_spec e st obs -> C13_ok st obs = true /\ C13_order_ok e st obs = true.
    Proof.
      intros (fn & lp & seed & cur & rnd & src & levels & low & c & rest & g & Hp & Hi & Ha & Hl & _ & Hso & _ & Hs & Hr).
      unfold C13_ok, C13_order_ok. rewrite Hp, Hi, Ha, Hl, Hso.
      destruct (checks_of_sorted (map a_id (c :: rest))
                  (fun x => acceptance_key levels (st_crits st) (c :: rest) (e_alt x)) obs) as [Hn Ho]; [|exact Hs|].
      - intros x Hx. rewrite Forall_forall in Hr. split; [|reflexivity].
        cbn [acceptance_key fst]. eapply reports_idx. apply Hr. exact Hx.
      - split; [|exact Ho]. rewrite Hn. cbn [andb]. apply forallb_forall. intros x Hx.
        rewrite Forall_forall in Hr. apply reports_check_entry. now apply Hr.
    Qed.

    Corollary C13_checkers_iff e st obs :
      C13_ok st obs && C13_order_ok e st obs = true <-> C13_obs_spec e st obs.
    Proof.
      rewrite andb_true_iff. split; [intros [H1 H2]; now apply C13_checkers_sound|apply C13_checkers_complete].
    Qed.
  End WithLaws.
End SatisfSpec.

(** ** Instance [NumQc]: the comparisons read as the usual order of the rationals, the series of
    levels is always finite, and the observed range is the true minimum / maximum *)
From Coq Require Import QArith Qcanon.
From RDM Require Import Base.NumQc.

Section OnQc.
  Local Open Scope Qc_scope.

  (** at least the threshold for gain, at most the threshold for cost *)
  Theorem meets_crit_Qc (c : @crit NumQc) (a : @alt NumQc) (t : smap Qc) :
    meets_crit c a t <->
    exists v th : Qc, mget (c_id c) (a_vals a) = Some v /\ mget (c_id c) t = Some th /\
                      (if is_cost c then v <= th else th <= v).
  Proof.
    unfold meets_crit, sgn. split; intros (v & th & Hv & Ht & H); exists v, th; (split; [exact Hv|split; [exact Ht|]]).
    - destruct (is_cost c); apply nltb_false_iff in H; [|exact H].
      change (@nopp NumQc) with Qcopp in H. apply Qcopp_le_compat in H. now rewrite !Qcopp_involutive in H.
    - destruct (is_cost c); apply nltb_false_iff; [|exact H].
      change (@nopp NumQc) with Qcopp. now apply Qcopp_le_compat.
  Qed.

  (** [LevelFacts.lv_init_series_finite] (explicit thresholds: a finite list; generated series:
      [LevelFacts.series_finite]): the levels of every state can be enumerated *)
  Lemma levels_finite_Qc (s : @state NumQc) : levels_finite s.
  Proof.
    unfold levels_finite. destruct (st_params s); try exact I. intros src H.
    destruct (lv_init_series_finite _ _ _ _ _ H) as (n & levels & E & _). now exists n, levels.
  Qed.

  Theorem satisfaction_meets_spec_Qc (e : @env NumQc) (s : @state NumQc) r :
    satisfaction_evaluate e s = Ok r ->
    NoDup (map a_id (st_cons s)) -> NoDup (map c_id (st_crits s)) ->
    C13_spec s r.
  Proof. intros H Hnd Hndc. eapply satisfaction_meets_spec; try eassumption. apply levels_finite_Qc. Qed.

  (** the worst value of an observed range: attained by a known alternative (considered or not) and
      a bound for all of them ([worst_values_declared] covers declared ranges) *)
  Theorem worst_values_observed_Qc (st : @state NumQc) (low : smap Qc) c :
    worst_values st low -> In c (st_crits st) -> c_range c = None -> all_alts st <> [] ->
    (forall a, In a (all_alts st) -> exists v, raw_value a c = Ok v) ->
    exists w : Qc, mget (c_id c) low = Some w /\
      (exists a, In a (all_alts st) /\ raw_value a c = Ok w) /\
      (forall a v, In a (all_alts st) -> raw_value a c = Ok v -> if is_cost c then v <= w else w <= v).
  Proof.
    intros (Ha & _) Hc Hr Hne Hall. destruct (Ha c Hc) as (mn' & mx' & E & Hg).
    destruct (values_range_spec (all_alts st) c) as (_ & _ & Hobs).
    destruct (Hobs Hr Hne Hall) as (mn & mx & E' & Hbd & Hmn & Hmx).
    rewrite E' in E. inversion E; subst mn' mx'.
    exists (if is_cost c then mx else mn). split; [exact Hg|]. destruct (is_cost c).
    - split; [exact Hmx|]. intros a v Hin Hv. now apply (Hbd a v Hin Hv).
    - split; [exact Hmn|]. intros a v Hin Hv. now apply (Hbd a v Hin Hv).
  Qed.
End OnQc.

(** ** D. A concrete instance (evaluated on [NumQc]) *)
Module Examples.
  Definition q (z : Z) : Qc := Q2Qc (inject_Z z).
  Definition cg : @crit NumQc := {| c_id := "g"; c_type := TGain; c_range := None |}.
  Definition ck : @crit NumQc := {| c_id := "k"; c_type := TCost; c_range := None |}.
  Definition mk (id : string) (g k : Z) : @alt NumQc := {| a_id := id; a_vals := [("g", q g); ("k", q k)] |}.
  Definition lvl (g k : Z) : smap Qc := [("g", q g); ("k", q k)].
  (** three successively lower aspiration levels: gain at least 8 / 5 / 3, cost at most 2 / 5 / 7 *)
  Definition ex_levels : list (smap Qc) := [lvl 8 2; lvl 5 5; lvl 3 7].
  Definition ex_lp : @lparams NumQc := {| lp_coef := q 0; lp_max := q 0; lp_min := q 0; lp_ths := ex_levels |}.
  (** five considered alternatives (gain, cost) *)
  Definition ex_alts : list (@alt NumQc) := [mk "a" 9 6; mk "b" 8 1; mk "c" 2 9; mk "d" 6 4; mk "e" 4 7].
  (** one more known, not considered alternative "z"; current choice "d"; listed order *)
  Definition ex_state : @state NumQc :=
    {| st_notcons := [mk "z" 1 10]; st_cons := ex_alts; st_crits := [cg; ck];
       st_params := PSatisf "thresholds" ex_lp 0%Z "d" false |}.
  Definition env0 : @env NumQc := {| env_streams := []; env_exp := [] |}.
  (** the search order: current choice first *)
  Definition ex_order : list (@alt NumQc) := [mk "d" 6 4; mk "a" 9 6; mk "b" 8 1; mk "c" 2 9; mk "e" 4 7].

  Example ex_search_order :
    search_order ex_state "d" false (new_rng env0 0%Z) = Ok (mk "d" 6 4, [mk "a" 9 6; mk "b" 8 1; mk "c" 2 9; mk "e" 4 7], []).
  Proof. reflexivity. Qed.

  Example ex_levels_enumerated :
    (do src <- lv_init Decreasing "thresholds" ex_lp ex_state; lv_all 10 src) = Ok ex_levels.
  Proof. vm_compute. reflexivity. Qed.

  (** a: level 2 (cost 6 is too high for levels 0 and 1); b: level 0; c: none (gain 2 < 3);
      d: level 1; e: level 2 *)
  Example ex_first_levels :
    map (first_level ex_levels [cg; ck]) ex_alts = [Some 2; Some 0; None; Some 1; Some 2]%nat.
  Proof. vm_compute. reflexivity. Qed.

  Example ex_keys :
    map (acceptance_key ex_levels [cg; ck] ex_order) ex_alts = [(2, 1); (0, 2); (3, 3); (1, 0); (2, 4)]%nat.
  Proof. vm_compute. reflexivity. Qed.

  (** the ranking of the model: identifier, level index, reported thresholds, links *)
  Definition show (r : res (list (@entry NumQc))) : res (list (string * Z * list (string * Q) * list string)) :=
    match r with
    | Ok l => Ok (map (fun x => (eid x, s_idx x, map (fun kv : string * Qc => (fst kv, this (snd kv))) (s_ths x), e_links x)) l)
    | Err e => Err e
    end.

  Example ex_ranking :
    show (satisfaction_evaluate env0 ex_state) =
    Ok [("b", 0%Z, [("g", 8 # 1); ("k", 2 # 1)], ["d"]);
        ("d", 1%Z, [("g", 5 # 1); ("k", 5 # 1)], ["a"]);
        ("a", 2%Z, [("g", 3 # 1); ("k", 7 # 1)], ["e"]);
        ("e", 2%Z, [("g", 3 # 1); ("k", 7 # 1)], ["c"]);
        ("c", 3%Z, [("g", 1 # 1); ("k", 10 # 1)], [])]%Q.
  Proof. vm_compute. reflexivity. Qed.

  (** ... is ordered by [acceptance_key]: b (0,2) < d (1,0) < a (2,1) < e (2,4) < c (3,3); the
      current choice "d" is not first because "b" met an earlier level; "a" precedes "e" within
      level 2 by search position; "c" met no level and reports index 3 and the worst values
      (gain 1 and cost 10, both attained by the not considered alternative "z") *)
  Example ex_ranking_keys :
    match satisfaction_evaluate env0 ex_state with
    | Ok r => map (fun x => acceptance_key ex_levels [cg; ck] ex_order (e_alt x)) r
    | Err _ => []
    end = [(0, 2); (1, 0); (2, 1); (2, 4); (3, 3)]%nat.
  Proof. vm_compute. reflexivity. Qed.

  Example ex_ranking_sorted :
    StronglySorted lex_lt [(0, 2); (1, 0); (2, 1); (2, 4); (3, 3)]%nat.
  Proof.
    repeat (apply SSorted_cons || apply SSorted_nil || apply Forall_cons || apply Forall_nil);
      unfold lex_lt; cbn [fst snd]; lia.
  Qed.

  Lemma ex_nodup_alts : NoDup (map a_id (st_cons ex_state)).
  Proof. cbn. repeat constructor; cbn; intuition discriminate. Qed.
  Lemma ex_nodup_crits : NoDup (map c_id (st_crits ex_state)).
  Proof. cbn. repeat constructor; cbn; intuition discriminate. Qed.

  (** the instance satisfies the hypotheses of the theorems, so the specification holds for it and
      both checkers accept the model's ranking *)
  Example ex_spec : forall r, satisfaction_evaluate env0 ex_state = Ok r -> C13_spec ex_state r.
  Proof. intros r H. eapply satisfaction_meets_spec_Qc; [exact H|exact ex_nodup_alts|exact ex_nodup_crits]. Qed.

  Example ex_spec_at : forall r, satisfaction_evaluate env0 ex_state = Ok r ->
    ranking_spec [cg; ck] ex_levels (worst_values ex_state) ex_order r.
  Proof.
    intros r H.
    apply (@satisfaction_meets_spec_at NumQc env0 ex_state r "thresholds" ex_lp 0%Z "d" false (@LThs NumQc ex_levels) 10%nat ex_levels
             (mk "d" 6 4) [mk "a" 9 6; mk "b" 8 1; mk "c" 2 9; mk "e" 4 7] []);
      [reflexivity|reflexivity|reflexivity|exact ex_search_order|exact ex_nodup_alts|exact ex_nodup_crits|exact H].
  Qed.

  Example ex_checkers :
    match satisfaction_evaluate env0 ex_state with
    | Ok r => C13_ok ex_state r && C13_order_ok env0 ex_state r
    | Err _ => false
    end = true.
  Proof. vm_compute. reflexivity. Qed.

  (** *** the hypothesis "pairwise distinct criterion identifiers" is necessary
      Two criteria share the identifier "k" (one gain, one cost).  No alternative meets the single
      level, so both report the worst values; the fold of [lowest_thresholds] writes the gain
      criterion's minimum 1 under "k" and then overwrites it with the cost criterion's maximum 3, so
      the reported map is not the worst value of the gain criterion and the specification fails.
      (Pairwise distinct alternative identifiers are necessary as well: [SatisfFacts.Counterexamples.s_c].) *)
  Definition cg' : @crit NumQc := {| c_id := "k"; c_type := TGain; c_range := None |}.
  Definition s_dup : @state NumQc :=
    {| st_notcons := [];
       st_cons := [ {| a_id := "x"; a_vals := [("k", q 1)] |}; {| a_id := "y"; a_vals := [("k", q 3)] |} ];
       st_crits := [cg'; ck];
       st_params := PSatisf "thresholds" {| lp_coef := q 0; lp_max := q 0; lp_min := q 0; lp_ths := [[("k", q 100)]] |}
                            0%Z "" false |}.

  Example ce_dup_model :
    show (satisfaction_evaluate env0 s_dup) =
    Ok [("x", 1%Z, [("k", 3 # 1)], ["y"]); ("y", 1%Z, [("k", 3 # 1)], [])]%Q.
  Proof. vm_compute. reflexivity. Qed.

  Example ce_dup_range : values_range (all_alts s_dup) cg' = Ok (q 1, q 3).
  Proof. vm_compute. reflexivity. Qed.

  Example ce_dup_low : lowest_thresholds s_dup = Ok [("k", q 3)].
  Proof. vm_compute. reflexivity. Qed.

  Lemma ce_dup_not_worst : ~ worst_values s_dup [("k", q 3)].
  Proof.
    intros (Ha & _). destruct (Ha cg' (or_introl eq_refl)) as (mn & mx & E & Hg).
    rewrite ce_dup_range in E. inversion E; subst mn mx. vm_compute in Hg. discriminate Hg.
  Qed.

  Lemma ce_dup_entries :
    satisfaction_evaluate env0 s_dup =
    Ok [ {| e_alt := {| a_id := "x"; a_vals := [("k", q 1)] |}; e_eval := ESatisf [("k", q 3)] 1%Z; e_links := ["y"] |};
         {| e_alt := {| a_id := "y"; a_vals := [("k", q 3)] |}; e_eval := ESatisf [("k", q 3)] 1%Z; e_links := [] |} ].
  Proof. reflexivity. Qed.

  Lemma ce_dup_spec_fails : forall r,
    satisfaction_evaluate env0 s_dup = Ok r ->
    ~ ranking_spec (st_crits s_dup) [[("k", q 100)]] (worst_values s_dup) (st_cons s_dup) r.
  Proof.
    intros r H (_ & _ & Hr & _).
    assert (E : exists x r', r = x :: r' /\ e_alt x = {| a_id := "x"; a_vals := [("k", q 1)] |} /\
                             e_eval x = ESatisf [("k", q 3)] 1%Z).
    { rewrite ce_dup_entries in H. inversion H. eexists _, _. repeat split. }
    destruct E as (x & r' & -> & Hx & Hev). inversion Hr as [|? ? Hrep _]; subst.
    unfold entry_reports, reports in Hrep. rewrite Hx, Hev in Hrep.
    assert (F : first_level [[("k", q 100)]] (st_crits s_dup) {| a_id := "x"; a_vals := [("k", q 1)] |} = None)
      by (vm_compute; reflexivity).
    rewrite F in Hrep. destruct Hrep as (low & Hw & Heq). inversion Heq; subst low.
    now apply ce_dup_not_worst.
  Qed.
End Examples.

Print Assumptions first_level_Some_iff.
Print Assumptions first_level_None_iff.
Print Assumptions entry_reports_explained.
Print Assumptions search_order_is_search_order.
Print Assumptions lowest_thresholds_worst.
Print Assumptions ranking_spec_unique.
Print Assumptions satisfaction_meets_spec_at.
Print Assumptions satisfaction_spec_complete.
Print Assumptions satisfaction_meets_spec.
Print Assumptions C13_checkers_sound.
Print Assumptions C13_checkers_entries.
Print Assumptions C13_checkers_complete.
Print Assumptions C13_checkers_iff.
Print Assumptions meets_crit_Qc.
Print Assumptions satisfaction_meets_spec_Qc.
Print Assumptions worst_values_observed_Qc.
Print Assumptions Examples.ex_spec.
Print Assumptions Examples.ex_spec_at.
Print Assumptions Examples.ex_ranking.
Print Assumptions Examples.ce_dup_spec_fails.
