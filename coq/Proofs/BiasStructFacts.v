(** * Structural facts on the biases: a bias never changes which alternatives are considered /
    not considered, nor the kind of the method parameters, nor the heuristic's current choice.
    Consequences: C01 for decisions with biases, shape of the bias echoes (part of C08). *)
From Coq Require Import ZArith Bool List String Permutation Lia.
From RDM Require Import Base.Num Base.NumQc Base.Util Model.Data Model.Rank Model.Utility Model.Levels Model.Heuristics
  Model.Electre Model.Listeners Model.Biases Model.Anchoring Model.Pipeline Check.Stage Check.C04 Check.C01
  Proofs.WfFacts.
Import ListNotations.
Local Open Scope string_scope.
Local Open Scope list_scope.

Section Struct.
  Context {N : Num}.

  Definition current_of (p : mparams) : string :=
    match p with PMajority _ cur _ _ _ => cur | PSatisf _ _ _ cur _ => cur | _ => "" end.
  Definition kind_of (p : mparams) : nat :=
    match p with
    | PWs _ => 0 | POwa _ => 1 | PChoquet _ _ => 2 | PElectre _ _ => 3
    | PMajority _ _ _ _ _ => 4 | PAspect _ _ _ _ _ => 5 | PSatisf _ _ _ _ _ => 6
    end.
  Definition ids_of (l : list alt) := map a_id l.

  (** what one bias (and a sequence of biases) preserves *)
  Definition preserved (cur st : state) : Prop :=
    ids_of (st_cons st) = ids_of (st_cons cur) /\
    ids_of (st_notcons st) = ids_of (st_notcons cur) /\
    kind_of (st_params st) = kind_of (st_params cur) /\
    current_of (st_params st) = current_of (st_params cur).

  Lemma preserved_refl s : preserved s s.
  Proof. repeat split. Qed.

  Lemma preserved_trans a b c : preserved a b -> preserved b c -> preserved a c.
  Proof.
    intros (A1 & A2 & A3 & A4) (B1 & B2 & B3 & B4). repeat split; congruence.
  Qed.

  (** ** 1. helper lemmas *)
  Lemma mapM_ids (f : alt -> res alt) :
    (forall a b, f a = Ok b -> a_id b = a_id a) ->
    forall l l', mapM f l = Ok l' -> ids_of l' = ids_of l.
  Proof.
    intros Hf l l' H. apply mapM_Forall2 in H.
    induction H as [|a b l l' H1 _ IH]; cbn [ids_of map]; [reflexivity|].
    rewrite (Hf _ _ H1). f_equal. exact IH.
  Qed.

  Lemma mapM_ids_in (f : alt -> res alt) l :
    (forall a b, In a l -> f a = Ok b -> a_id b = a_id a) ->
    forall l', mapM f l = Ok l' -> ids_of l' = ids_of l.
  Proof.
    induction l as [|x r IH]; intros Hf l' H; cbn [mapM] in H.
    - injection H as <-. reflexivity.
    - destruct (f x) as [y|] eqn:E; cbn [bind] in H; [|discriminate].
      destruct (mapM f r) as [ys|] eqn:E2; cbn [bind] in H; [|discriminate].
      injection H as <-. cbn [ids_of map]. f_equal.
      + apply Hf; [now left|exact E].
      + apply IH; [|reflexivity]. intros a b Ha. apply Hf. now right.
  Qed.

  Theorem update_alts_ids old new r : update_alts old new = Ok r -> ids_of r = ids_of old.
  Proof.
    unfold update_alts. apply mapM_ids. intros a b H. now apply fetch_alt'_id in H.
  Qed.

  Lemma with_criteria_only_id a cs b : with_criteria_only a cs = Ok b -> a_id b = a_id a.
  Proof.
    unfold with_criteria_only. intros H.
    match type of H with bind ?x _ = _ => destruct x as [vals|] end; cbn [bind] in H; [|discriminate].
    injection H as <-. reflexivity.
  Qed.

  Lemma with_criteria_only_ids cs l l' :
    mapM (fun a => with_criteria_only a cs) l = Ok l' -> ids_of l' = ids_of l.
  Proof. apply mapM_ids. intros a b. apply with_criteria_only_id. Qed.

  Lemma with_value_id a id v b : with_value a id v = Ok b -> a_id b = a_id a.
  Proof.
    unfold with_value. destruct (mhas id (a_vals a)); [discriminate|].
    intros H. injection H as <-. reflexivity.
  Qed.

  Lemma blur_alts_ids cs p f : forall l gv gs acc r gv' gs',
    blur_alts cs l p f gv gs acc = Ok (r, gv', gs') -> ids_of r = ids_of acc ++ ids_of l.
  Proof.
    induction l as [|a rest IH]; intros gv gs acc r gv' gs' H; cbn [blur_alts] in H.
    - injection H as <- _ _. cbn [ids_of map]. now rewrite app_nil_r.
    - destruct (blur_values cs a p f gv gs []) as [[[vals gv1] gs1]|]; cbn [bind] in H; [|discriminate].
      apply IH in H. rewrite H. unfold ids_of. rewrite map_app. cbn [map a_id].
      now rewrite <- app_assoc.
  Qed.

  Lemma fold_res_inv {S B} (step : S -> B -> res S) (I : S -> Prop) :
    (forall s x s', I s -> step s x = Ok s' -> I s') ->
    forall l s0 fin, I s0 -> fold_left (fun acc x => do s <- acc; step s x) l (Ok s0) = Ok fin -> I fin.
  Proof.
    intros Hstep l s0 fin H0 H.
    apply (fold_res_ind step (fun s _ => I s) (fun s x s' _ Hs E => Hstep s x s' Hs E) l s0 [] fin H0 H).
  Qed.

  (** listeners *)
  Theorem on_criteria_removed_kind left p p' : on_criteria_removed left p = Ok p' ->
    kind_of p' = kind_of p /\ current_of p' = current_of p.
  Proof.
    unfold on_criteria_removed. intros H.
    destruct p as [wc|wc|w cs|ecs f|w cur seed rnd dr|fn lp seed w rnd|fn lp seed cur rnd].
    - destruct (mapM _ left); cbn [bind] in H; [|discriminate]. injection H as <-. now split.
    - destruct (mapM _ left); cbn [bind] in H; [|discriminate]. injection H as <-. now split.
    - match type of H with bind ?x _ = _ => destruct x end; cbn [bind] in H; [|discriminate].
      injection H as <-. now split.
    - match type of H with bind ?x _ = _ => destruct x end; cbn [bind] in H; [|discriminate].
      injection H as <-. now split.
    - destruct (preserve_only w left); cbn [bind] in H; [|discriminate]. injection H as <-. now split.
    - destruct (levels_removed Increasing fn lp left); cbn [bind] in H; [|discriminate].
      destruct (preserve_only w left); cbn [bind] in H; [|discriminate]. injection H as <-. now split.
    - destruct (levels_removed Decreasing fn lp left); cbn [bind] in H; [|discriminate].
      injection H as <-. now split.
  Qed.

  Theorem merge_kind p a p' : merge p a = Ok p' ->
    kind_of p' = kind_of p /\ current_of p' = current_of p.
  Proof.
    unfold merge. intros H.
    destruct p as [wc|wc|w cs|ecs f|w cur seed rnd dr|fn lp seed w rnd|fn lp seed cur rnd];
      destruct a as [c x|nw c|id ec|id x ths|id ths|]; try discriminate.
    - injection H as <-. now split.
    - match type of H with (if ?b then _ else _) = _ => destruct b end; [discriminate|].
      injection H as <-. now split.
    - destruct (merge_map w nw); cbn [bind] in H; [|discriminate]. injection H as <-. now split.
    - destruct (mhas id ecs); [discriminate|]. injection H as <-. now split.
    - destruct (merge_map w _); cbn [bind] in H; [|discriminate]. injection H as <-. now split.
    - destruct (levels_merge Increasing fn lp id ths); cbn [bind] in H; [|discriminate].
      destruct (merge_map w _); cbn [bind] in H; [|discriminate]. injection H as <-. now split.
    - destruct (levels_merge Decreasing fn lp id ths); cbn [bind] in H; [|discriminate].
      injection H as <-. now split.
  Qed.

  (** ** 2. the six biases *)
  Theorem apply_omission_preserves e cur p st rep :
    apply_omission e cur p = Ok (st, rep) -> preserved cur st.
  Proof.
    unfold apply_omission. intros H.
    destruct (negb (is_probability (bp_ratio p)) || (bp_max p <? bp_min p)%Z); [discriminate|].
    destruct (order_criteria e cur p) as [sorted|]; cbn [bind] in H; [|discriminate].
    destruct (split_criteria sorted p) as [[lft rgt]|]; cbn [bind] in H; [|discriminate].
    destruct (on_criteria_removed rgt (st_params cur)) as [params|] eqn:R; cbn [bind] in H; [|discriminate].
    destruct (mapM _ (st_cons cur)) as [consd|] eqn:C; cbn [bind] in H; [|discriminate].
    destruct (mapM _ (st_notcons cur)) as [nconsd|] eqn:NC; cbn [bind] in H; [|discriminate].
    injection H as <- _. cbn [st_cons st_notcons st_params].
    apply on_criteria_removed_kind in R as [K1 K2].
    apply with_criteria_only_ids in C. apply with_criteria_only_ids in NC.
    repeat split; assumption.
  Qed.

  Theorem apply_reversal_preserves e cur p st rep :
    apply_reversal e cur p = Ok (st, rep) -> preserved cur st.
  Proof.
    unfold apply_reversal. intros H.
    destruct (negb (is_probability (bp_ratio p)) || (bp_max p <? bp_min p)%Z); [discriminate|].
    destruct (order_criteria e cur p) as [sorted|]; cbn [bind] in H; [|discriminate].
    destruct (split_criteria sorted p) as [lr|]; cbn [bind] in H; [|discriminate].
    cbv zeta in H.
    destruct (mapM _ (fst lr)) as [items|]; cbn [bind] in H; [|discriminate].
    destruct (mapM _ (all_alts cur)) as [new_all|]; cbn [bind] in H; [|discriminate].
    destruct (update_alts (st_cons cur) new_all) as [consd|] eqn:C; cbn [bind] in H; [|discriminate].
    destruct (update_alts (st_notcons cur) new_all) as [nconsd|] eqn:NC; cbn [bind] in H; [|discriminate].
    injection H as <- _. cbn [st_cons st_notcons st_params].
    apply update_alts_ids in C. apply update_alts_ids in NC.
    repeat split; assumption.
  Qed.

  Theorem apply_fatigue_preserves e cur p st rep :
    apply_fatigue e cur p = Ok (st, rep) -> preserved cur st.
  Proof.
    unfold apply_fatigue. intros H.
    destruct (fatigue_ratio e p) as [f|]; cbn [bind] in H; [|discriminate].
    destruct (negb (valid_bounding p)); [discriminate|].
    destruct (mapM _ (st_crits cur)) as [crs|]; cbn [bind] in H; [|discriminate].
    destruct (blur_alts crs (st_cons cur) p f _ _ []) as [[[consd gv] gs]|] eqn:C; cbn [bind] in H; [|discriminate].
    destruct (blur_alts crs (st_notcons cur) p f gv gs []) as [[[nconsd gv2] gs2]|] eqn:NC; cbn [bind] in H; [|discriminate].
    injection H as <- _. cbn [st_cons st_notcons st_params].
    apply blur_alts_ids in C. apply blur_alts_ids in NC. cbn [ids_of map app] in C, NC.
    repeat split; assumption.
  Qed.

  Theorem apply_concealment_preserves e cur p st rep :
    apply_concealment e cur p = Ok (st, rep) -> preserved cur st.
  Proof.
    unfold apply_concealment. intros H.
    destruct (neqb (bp_new_scaling p) nzero); [discriminate|].
    destruct (negb (valid_bounding p)); [discriminate|].
    cbv zeta in H.
    destruct (rank_criteria cur) as [ranked|]; cbn [bind] in H; [|discriminate].
    destruct (reference_criterion e ranked p) as [ref|]; cbn [bind] in H; [|discriminate].
    destruct (values_range (all_alts cur) ref) as [rr|]; cbn [bind] in H; [|discriminate].
    match type of H with bind ?x _ = _ => destruct x as [[[new_all values] g2]|] end; cbn [bind] in H; [|discriminate].
    destruct (update_alts (st_cons cur) new_all) as [consd|] eqn:C; cbn [bind] in H; [|discriminate].
    destruct (update_alts (st_notcons cur) new_all) as [nconsd|] eqn:NC; cbn [bind] in H; [|discriminate].
    destruct (on_criterion_added _ ref (st_params cur) g2) as [ag|]; cbn [bind] in H; [|discriminate].
    destruct (merge (st_params cur) (fst ag)) as [params|] eqn:M; cbn [bind] in H; [|discriminate].
    destruct (add_criterion (st_crits cur) _) as [crits|]; cbn [bind] in H; [|discriminate].
    injection H as <- _. cbn [st_cons st_notcons st_params].
    apply update_alts_ids in C. apply update_alts_ids in NC. apply merge_kind in M as [K1 K2].
    repeat split; assumption.
  Qed.

  Theorem apply_mixing_preserves e cur p st rep :
    apply_mixing e cur p = Ok (st, rep) -> preserved cur st.
  Proof.
    unfold apply_mixing. intros H.
    destruct (Nat.ltb (List.length (st_crits cur)) 2).
    { injection H as <- _. apply preserved_refl. }
    destruct (negb (is_probability (bp_mix_ratio p))); [discriminate|].
    cbv zeta in H.
    destruct (draw (new_rng e (bp_seed p))) as [d1|]; cbn [bind] in H; [|discriminate].
    destruct (draw (snd d1)) as [d2|]; cbn [bind] in H; [|discriminate].
    match type of H with bind ?x _ = _ => destruct x as [c1|] end; cbn [bind] in H; [|discriminate].
    match type of H with bind ?x _ = _ => destruct x as [c2|] end; cbn [bind] in H; [|discriminate].
    destruct (rank_criteria cur) as [ranked|]; cbn [bind] in H; [|discriminate].
    destruct (reference_criterion e ranked p) as [ref|]; cbn [bind] in H; [|discriminate].
    destruct (values_range (all_alts cur) ref) as [rr|]; cbn [bind] in H; [|discriminate].
    destruct (rescale_criterion c1 (all_alts cur) _) as [v1|]; cbn [bind] in H; [|discriminate].
    destruct (rescale_criterion c2 (all_alts cur) _) as [v2|]; cbn [bind] in H; [|discriminate].
    match type of H with bind ?x _ = _ => destruct x as [mixed|] end; cbn [bind] in H; [|discriminate].
    destruct (on_criterion_added _ ref (st_params cur) (snd d2)) as [ag|]; cbn [bind] in H; [|discriminate].
    destruct (merge (st_params cur) (fst ag)) as [params|] eqn:M; cbn [bind] in H; [|discriminate].
    destruct (mapM _ (all_alts cur)) as [new_all|]; cbn [bind] in H; [|discriminate].
    destruct (update_alts (st_cons cur) new_all) as [consd|] eqn:C; cbn [bind] in H; [|discriminate].
    destruct (update_alts (st_notcons cur) new_all) as [nconsd|] eqn:NC; cbn [bind] in H; [|discriminate].
    destruct (add_criterion (st_crits cur) _) as [crits|]; cbn [bind] in H; [|discriminate].
    injection H as <- _. cbn [st_cons st_notcons st_params].
    apply update_alts_ids in C. apply update_alts_ids in NC. apply merge_kind in M as [K1 K2].
    repeat split; assumption.
  Qed.

  (** anchoring: the two appliers *)
  Lemma apply_inline_preserves cur p sc diffs st rep :
    apply_inline cur p sc diffs = Ok (st, rep) -> preserved cur st.
  Proof.
    unfold apply_inline. intros H.
    destruct (mapM _ diffs) as [r|]; cbn [bind] in H; [|discriminate].
    cbv zeta in H.
    destruct (update_alts (st_cons cur) (map fst r)) as [consd|] eqn:C; cbn [bind] in H; [|discriminate].
    destruct (bp_anch_not_considered p).
    - destruct (update_alts (st_notcons cur) (map fst r)) as [nconsd|] eqn:NC; cbn [bind] in H; [|discriminate].
      injection H as <- _. cbn [st_cons st_notcons st_params].
      apply update_alts_ids in C. apply update_alts_ids in NC. repeat split; assumption.
    - cbn [bind] in H.
      destruct (update_alts (st_cons cur) (map snd r)) as [rp|]; cbn [bind] in H; [|discriminate].
      injection H as <- _. cbn [st_cons st_notcons st_params].
      apply update_alts_ids in C. repeat split; assumption.
  Qed.

  Lemma apply_new_criterion_preserves e cur p sc diffs st rep :
    apply_new_criterion e cur p sc diffs = Ok (st, rep) -> preserved cur st.
  Proof.
    unfold apply_new_criterion. intros H.
    destruct (rank_criteria cur) as [ranked|]; cbn [bind] in H; [|discriminate].
    destruct (reference_criterion e ranked p) as [ref|]; cbn [bind] in H; [|discriminate].
    cbv zeta in H.
    destruct (of_option (find _ sc) EMissing) as [rsc|]; cbn [bind] in H; [|discriminate].
    match type of H with bind (fold_left ?f ?l (Ok ?i)) _ = _ =>
      destruct (fold_left f l (Ok i)) as [[[crits params] added]|] eqn:F end; cbn [bind] in H; [|discriminate].
    destruct (mapM _ diffs) as [new_alts|]; cbn [bind] in H; [|discriminate].
    destruct (update_alts (st_cons cur) new_alts) as [consd|] eqn:C; cbn [bind] in H; [|discriminate].
    destruct (update_alts (st_notcons cur) new_alts) as [nconsd|] eqn:NC; cbn [bind] in H; [|discriminate].
    injection H as <- _. cbn [st_cons st_notcons st_params].
    apply update_alts_ids in C. apply update_alts_ids in NC.
    assert (K : kind_of params = kind_of (st_params cur) /\ current_of params = current_of (st_params cur)).
    { match type of F with fold_left (fun acc x => do s <- acc; @?step s x) ?l _ = _ =>
        apply (fold_res_inv step
                 (fun (s : list crit * mparams * list (crit * addition)) =>
                    kind_of (snd (fst s)) = kind_of (st_params cur) /\
                    current_of (snd (fst s)) = current_of (st_params cur))) in F end.
      - exact F.
      - intros [[cr pa] ad] x s' [I1 I2] St. cbn [fst snd] in *.
        destruct (add_criterion cr _) as [cr'|]; cbn [bind] in St; [|discriminate].
        destruct (on_criterion_added _ ref pa _) as [ag|]; cbn [bind] in St; [|discriminate].
        destruct (merge pa (fst ag)) as [pa'|] eqn:M; cbn [bind] in St; [|discriminate].
        injection St as <-. cbn [fst snd]. apply merge_kind in M as [K1 K2]. split; congruence.
      - cbn [fst snd]. now split. }
    destruct K as [K1 K2]. repeat split; assumption.
  Qed.

  Theorem apply_anchoring_preserves e cur p st rep :
    apply_anchoring e cur p = Ok (st, rep) -> preserved cur st.
  Proof.
    unfold apply_anchoring. intros H.
    destruct (bp_anch_alts p) as [|aa0 aas]; [discriminate|].
    destruct (negb (known_fun (bp_anch_loss p)) || negb (known_fun (bp_anch_gain p))); [discriminate|].
    destruct (negb (String.eqb (bp_anch_applier p) ap_inline || String.eqb (bp_anch_applier p) ap_new)); [discriminate|].
    cbv zeta in H.
    destruct (mapM _ (aa0 :: aas)) as [anch|]; cbn [bind] in H; [|discriminate].
    destruct (negb (String.eqb (bp_anch_ref p) rp_ideal || String.eqb (bp_anch_ref p) rp_nadir)); [discriminate|].
    destruct (reference_point _ (st_crits cur) anch) as [rpv|]; cbn [bind] in H; [|discriminate].
    destruct (negb (valid_bounding p)); [discriminate|].
    destruct (criteria_scaling (st_crits cur) (all_alts cur)) as [sc|]; cbn [bind] in H; [|discriminate].
    destruct (mapM _ (all_alts cur)) as [diffs|]; cbn [bind] in H; [|discriminate].
    destruct (String.eqb (bp_anch_applier p) ap_inline).
    - destruct (apply_inline cur p sc diffs) as [[s1 r1]|] eqn:A; cbn [bind fst snd] in H; [|discriminate].
      injection H as <- _. eapply apply_inline_preserves; eassumption.
    - destruct (apply_new_criterion e cur p sc diffs) as [[s1 r1]|] eqn:A; cbn [bind fst snd] in H; [|discriminate].
      injection H as <- _. eapply apply_new_criterion_preserves; eassumption.
  Qed.

  Theorem apply_bias_preserves e name cur p st rep :
    apply_bias e name cur p = Ok (st, rep) ->
    ids_of (st_cons st) = ids_of (st_cons cur) /\
    ids_of (st_notcons st) = ids_of (st_notcons cur) /\
    kind_of (st_params st) = kind_of (st_params cur) /\
    current_of (st_params st) = current_of (st_params cur).
  Proof.
    unfold apply_bias. intros H.
    destruct (String.eqb name b_omission); [eapply apply_omission_preserves; eassumption|].
    destruct (String.eqb name b_reversal); [eapply apply_reversal_preserves; eassumption|].
    destruct (String.eqb name b_fatigue); [eapply apply_fatigue_preserves; eassumption|].
    destruct (String.eqb name b_concealment); [eapply apply_concealment_preserves; eassumption|].
    destruct (String.eqb name b_mixing); [eapply apply_mixing_preserves; eassumption|].
    destruct (String.eqb name b_anchoring); [eapply apply_anchoring_preserves; eassumption|].
    discriminate.
  Qed.

  Lemma list_eqb_str_refl (l : list string) : list_eqb String.eqb l l = true.
  Proof. induction l as [|x r IH]; cbn [list_eqb]; [reflexivity|]. now rewrite String.eqb_refl, IH. Qed.

  Lemma preserved_same_split cur st : preserved cur st -> same_split cur st = true.
  Proof.
    intros (A & B & _ & _). unfold same_split. unfold ids_of in A, B. rewrite A, B.
    now rewrite !list_eqb_str_refl.
  Qed.

  Corollary apply_bias_same_split e name cur p st rep :
    apply_bias e name cur p = Ok (st, rep) -> same_split cur st = true.
  Proof. intros H. apply preserved_same_split. eapply apply_bias_preserves; eassumption. Qed.
End Struct.

(** ** 3. the fold over the biases *)
Section Fold.
  Context {N : Num}.

  Theorem process_biases_preserves e : forall bs cur g st echoes,
    process_biases e bs cur g = Ok (st, echoes) ->
    (ids_of (st_cons st) = ids_of (st_cons cur) /\
     ids_of (st_notcons st) = ids_of (st_notcons cur) /\
     kind_of (st_params st) = kind_of (st_params cur) /\
     current_of (st_params st) = current_of (st_params cur)) /\
    List.length echoes = List.length bs /\
    map ec_name echoes = map b_name bs /\
    map ec_prob echoes = map b_prob bs.
  Proof.
    induction bs as [|b rest IH]; intros cur g st echoes H; cbn [process_biases] in H.
    - injection H as <- <-. split; [apply preserved_refl|]. repeat split.
    - destruct (draw g) as [dg|]; cbn [bind] in H; [|discriminate].
      destruct (nltb (fst dg) (b_prob b)).
      + destruct (apply_bias e (b_name b) cur (b_props b)) as [[s1 rp]|] eqn:A; cbn [bind fst snd] in H; [|discriminate].
        destruct (process_biases e rest s1 (snd dg)) as [[s2 ech]|] eqn:R; cbn [bind fst snd] in H; [|discriminate].
        injection H as <- <-.
        apply apply_bias_preserves in A. apply IH in R as (P & L & Nm & Pr).
        split; [exact (preserved_trans _ _ _ A P)|].
        cbn [List.length map ec_name ec_prob]. repeat split; congruence.
      + destruct (process_biases e rest cur (snd dg)) as [[s2 ech]|] eqn:R; cbn [bind fst snd] in H; [|discriminate].
        injection H as <- <-.
        apply IH in R as (P & L & Nm & Pr).
        split; [exact P|].
        cbn [List.length map ec_name ec_prob]. repeat split; congruence.
  Qed.

  Corollary process_biases_same_split e bs cur g st echoes :
    process_biases e bs cur g = Ok (st, echoes) -> same_split cur st = true.
  Proof. intros H. apply preserved_same_split. now apply process_biases_preserves in H. Qed.

  (** ** 4. the state the method is evaluated on *)
  Lemma biased_state_inv e req st echoes : biased_state e req = Ok (st, echoes) ->
    exists st0, prepare req = Ok st0 /\ preserved st0 st /\
      List.length echoes = List.length (enabled_biases req) /\
      map ec_name echoes = map b_name (enabled_biases req) /\
      map ec_prob echoes = map b_prob (enabled_biases req).
  Proof.
    unfold biased_state. intros H.
    destruct (prepare req) as [st0|]; cbn [bind] in H; [|discriminate].
    exists st0. split; [reflexivity|]. cbv zeta in H.
    destruct (negb (forallb _ (enabled_biases req))); [discriminate|].
    destruct (enabled_biases req) as [|b bs] eqn:E.
    - injection H as <- <-. split; [apply preserved_refl|]. repeat split.
    - apply process_biases_preserves in H as (P & L & Nm & Pr). repeat split; try assumption; apply P.
  Qed.

  Theorem biased_state_preserves e req st echoes : biased_state e req = Ok (st, echoes) ->
    exists st0, prepare req = Ok st0 /\
      ids_of (st_cons st) = ids_of (st_cons st0) /\
      kind_of (st_params st) = kind_of (st_params st0) /\
      current_of (st_params st) = current_of (st_params st0) /\
      map ec_name echoes = map b_name (enabled_biases req) /\
      map ec_prob echoes = map b_prob (enabled_biases req).
  Proof.
    intros H. apply biased_state_inv in H as (st0 & P & (A & B & C & D) & L & Nm & Pr).
    exists st0. repeat split; assumption.
  Qed.

  Corollary biased_state_same_split e req st echoes : biased_state e req = Ok (st, echoes) ->
    exists st0, prepare req = Ok st0 /\ same_split st0 st = true.
  Proof.
    intros H. apply biased_state_inv in H as (st0 & P & Q & _). exists st0. split; [exact P|].
    now apply preserved_same_split.
  Qed.

  (** the echo list of a decision *)
  Corollary decide_echoes e req resp : decide e req = Ok resp ->
    List.length (resp_biases resp) = List.length (enabled_biases req) /\
    map ec_name (resp_biases resp) = map b_name (enabled_biases req) /\
    map ec_prob (resp_biases resp) = map b_prob (enabled_biases req).
  Proof.
    unfold decide. intros H.
    destruct (biased_state e req) as [[st ech]|] eqn:B; cbn [bind fst snd] in H; [|discriminate].
    destruct (evaluate (r_method req) e st) as [r|]; cbn [bind] in H; [|discriminate].
    injection H as <-. cbn [resp_biases].
    apply biased_state_inv in B as (st0 & _ & _ & L & Nm & Pr). repeat split; assumption.
  Qed.
End Fold.

(** ** 5. C01 for decisions with any list of biases *)
Section DecideWf.
  Context {N : Num} {L : OrdLaws N}.

  Theorem decide_wf : forall e req resp,
    NoDup (r_chose req) ->
    (forall st ech a v, biased_state e req = Ok (st, ech) -> In a (st_cons st) ->
                        utility_value (st_params st) a = Ok v -> okv v) ->
    decide e req = Ok resp -> C01_ok (expected_ids req) (resp_result resp) = true.
  Proof.
    intros e req resp ND OK H. unfold decide in H.
    destruct (biased_state e req) as [[st ech]|] eqn:B; cbn [bind fst snd] in H; [|discriminate].
    destruct (evaluate (r_method req) e st) as [r|] eqn:Ev; cbn [bind] in H; [|discriminate].
    injection H as <-. cbn [resp_result].
    assert (OK' : forall a v, In a (st_cons st) -> utility_value (st_params st) a = Ok v -> okv v)
      by (intros a v; apply (OK st ech); reflexivity).
    clear OK.
    apply biased_state_preserves in B as (st0 & P & Ids & _ & Cur & _).
    pose proof (prepare_inv req st0 P) as (I1 & I2 & I3).
    unfold ids_of in Ids. rewrite <- I1, <- Ids in ND.
    unfold parse_params in I2.
    cbn [method_names In] in I3.
    destruct I3 as [E|[E|[E|[E|[E|[E|[E|[]]]]]]]]; rewrite <- E in Ev, I2.
    - (* weightedSum *)
      rewrite expected_ids_nocur by (now rewrite <- E). rewrite <- I1, <- Ids.
      change (utility_evaluate st = Ok r) in Ev. apply utility_evaluate_wf; auto.
    - (* owa *)
      rewrite expected_ids_nocur by (now rewrite <- E). rewrite <- I1, <- Ids.
      change (utility_evaluate st = Ok r) in Ev. apply utility_evaluate_wf; auto.
    - (* electre *)
      rewrite expected_ids_nocur by (now rewrite <- E). rewrite <- I1, <- Ids.
      change (electre_evaluate st = Ok r) in Ev. now apply electre_evaluate_wf.
    - (* choquet *)
      rewrite expected_ids_nocur by (now rewrite <- E). rewrite <- I1, <- Ids.
      change (utility_evaluate st = Ok r) in Ev. apply utility_evaluate_wf; auto.
    - (* aspect *)
      rewrite expected_ids_nocur by (now rewrite <- E). rewrite <- I1, <- Ids.
      change (aspect_evaluate e st = Ok r) in Ev. now apply (aspect_evaluate_wf e).
    - (* majority *)
      rewrite expected_ids_cur by (now rewrite <- E). rewrite <- I1, <- Ids.
      change (majority_evaluate e st = Ok r) in Ev.
      change (majority_parse (r_mp req) = Ok (st_params st0)) in I2.
      unfold majority_parse in I2. injection I2 as I2. rewrite <- I2 in Cur. cbn [current_of] in Cur.
      destruct (st_params st) as [| | | |w cur seed rnd dr| |] eqn:Hp;
        try (unfold majority_evaluate in Ev; rewrite Hp in Ev; discriminate).
      cbn [current_of] in Cur. subst cur.
      eapply majority_evaluate_wf; eassumption.
    - (* satisfaction *)
      rewrite expected_ids_cur by (now rewrite <- E). rewrite <- I1, <- Ids.
      change (satisfaction_evaluate e st = Ok r) in Ev.
      change (satisfaction_parse (r_mp req) = Ok (st_params st0)) in I2.
      unfold satisfaction_parse in I2. injection I2 as I2. rewrite <- I2 in Cur. cbn [current_of] in Cur.
      destruct (st_params st) as [| | | | | |fn lp seed cur rnd] eqn:Hp;
        try (unfold satisfaction_evaluate in Ev; rewrite Hp in Ev; discriminate).
      cbn [current_of] in Cur. subst cur.
      eapply satisfaction_evaluate_wf; eassumption.
  Qed.
End DecideWf.

(** On exact rationals every value is [okv], so the statement is unconditional. *)
Corollary decide_wf_Qc : forall e (req : @request NumQc.NumQc) resp,
  NoDup (r_chose req) -> decide e req = Ok resp -> C01_ok (expected_ids req) (resp_result resp) = true.
Proof.
  intros e req resp ND H. apply (decide_wf (L := NumQc.OrdQc) e req resp ND); [|exact H].
  intros; exact I.
Qed.

(** ** 6. a disabled bias is equivalent to leaving it out *)
Section Disabled.
  Context {N : Num}.

  Definition with_biases (req : request) (bs : list biasreq) : request :=
    {| r_method := r_method req; r_biases := bs; r_seed := r_seed req; r_known := r_known req;
       r_chose := r_chose req; r_crits := r_crits req; r_mp := r_mp req |}.

  Lemma prepare_with_biases req bs : prepare (with_biases req bs) = prepare req.
  Proof. reflexivity. Qed.

  Lemma decide_enabled_only e req bs :
    filter (fun b => negb (b_disabled b)) bs = enabled_biases req ->
    decide e (with_biases req bs) = decide e req.
  Proof.
    intros H. unfold decide, biased_state. rewrite prepare_with_biases.
    unfold enabled_biases at 1 2 3. cbn [with_biases r_biases r_seed r_method].
    rewrite H. reflexivity.
  Qed.

  Theorem disabled_is_absent : forall e req b, b_disabled b = true ->
    forall pre post, r_biases req = pre ++ post ->
    decide e {| r_method := r_method req; r_biases := pre ++ b :: post; r_seed := r_seed req;
                r_known := r_known req; r_chose := r_chose req; r_crits := r_crits req; r_mp := r_mp req |}
    = decide e req.
  Proof.
    intros e req b Hb pre post Hr.
    change (decide e (with_biases req (pre ++ b :: post)) = decide e req).
    apply decide_enabled_only. unfold enabled_biases. rewrite Hr, !filter_app.
    cbn [filter]. now rewrite Hb.
  Qed.
End Disabled.

Print Assumptions update_alts_ids.
Print Assumptions on_criteria_removed_kind.
Print Assumptions merge_kind.
Print Assumptions apply_bias_preserves.
Print Assumptions apply_bias_same_split.
Print Assumptions process_biases_preserves.
Print Assumptions biased_state_preserves.
Print Assumptions decide_echoes.
Print Assumptions decide_wf.
Print Assumptions decide_wf_Qc.
Print Assumptions disabled_is_absent.
