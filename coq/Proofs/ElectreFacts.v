(** * Facts about the ELECTRE III model (Model/Electre.v) and its checker (Check/C05.v).
    Part A: structural theorems for an arbitrary carrier (no order laws are needed: the two
    distillations only select and count).  Part B: arithmetic theorems on [NumQc]. *)
From Coq Require Import ZArith Bool List String Permutation Lia.
From RDM Require Import Base.Num Base.Util Model.Data Model.Electre Check.C04 Check.C05 Proofs.RankFacts.
Import ListNotations.
Local Open Scope string_scope.
Local Open Scope list_scope.

(** ** Generic list facts *)
Lemma zip_map_r {A B} (f : A -> B) l : zip l (map f l) = map (fun x => (x, f x)) l.
Proof. induction l as [|x r IH]; cbn [zip map]; [reflexivity|]. now rewrite IH. Qed.

Lemma zip_length {A B} (l1 : list A) (l2 : list B) :
  List.length (zip l1 l2) = Nat.min (List.length l1) (List.length l2).
Proof.
  revert l2. induction l1 as [|x r IH]; intros [|y s]; cbn [zip List.length Nat.min]; try reflexivity.
  now rewrite IH.
Qed.

Lemma map_fst_zip {A B} (l1 : list A) (l2 : list B) :
  List.length l1 <= List.length l2 -> map fst (zip l1 l2) = l1.
Proof.
  revert l2. induction l1 as [|x r IH]; intros [|y s] H; cbn [zip map fst List.length] in *;
    try reflexivity; [lia|].
  rewrite IH by lia. reflexivity.
Qed.

Lemma map_snd_zip {A B} (l1 : list A) (l2 : list B) :
  List.length l2 <= List.length l1 -> map snd (zip l1 l2) = l2.
Proof.
  revert l2. induction l1 as [|x r IH]; intros [|y s] H; cbn [zip map snd List.length] in *;
    try reflexivity; [lia|].
  rewrite IH by lia. reflexivity.
Qed.

Lemma filter_partition_perm {A} (p : A -> bool) l :
  Permutation (filter p l ++ filter (fun x => negb (p x)) l) l.
Proof.
  induction l as [|x r IH]; cbn [filter]; [constructor|].
  destruct (p x); cbn [negb app].
  - now constructor.
  - rewrite <- Permutation_middle. now constructor.
Qed.

Lemma filter_filter_and {A} (p q : A -> bool) l :
  filter p (filter q l) = filter (fun x => q x && p x) l.
Proof.
  induction l as [|x r IH]; cbn [filter]; [reflexivity|].
  destruct (q x); cbn [filter andb]; [destruct (p x)|]; now rewrite IH.
Qed.

Lemma existsb_eqb_filter (p : nat -> bool) D i :
  In i D -> existsb (Nat.eqb i) (filter p D) = p i.
Proof.
  intros Hi. destruct (p i) eqn:Ep.
  - apply existsb_exists. exists i. split; [now apply filter_In|apply Nat.eqb_refl].
  - destruct (existsb (Nat.eqb i) (filter p D)) eqn:E; [|reflexivity].
    apply existsb_exists in E as (x & Hx & Ex). apply Nat.eqb_eq in Ex. subst x.
    apply filter_In in Hx. destruct Hx; congruence.
Qed.

Lemma mapM_length {A B} (f : A -> res B) l r : mapM f l = Ok r -> List.length r = List.length l.
Proof.
  revert r. induction l as [|x t IH]; intros r H; cbn [mapM] in H.
  - inversion H. reflexivity.
  - destruct (f x); cbn [bind] in H; [|discriminate].
    destruct (mapM f t); cbn [bind] in H; [|discriminate].
    inversion H. cbn [List.length]. f_equal. now apply IH.
Qed.

Lemma list_eqb_Z_refl l : list_eqb Z.eqb l l = true.
Proof. induction l as [|x r IH]; cbn [list_eqb]; [reflexivity|]. now rewrite Z.eqb_refl. Qed.

Lemma seqZ_in k : forall n s, In k (seqZ s n) <-> (s <= k < s + Z.of_nat n)%Z.
Proof.
  induction n as [|n IH]; intros s; cbn [seqZ In].
  - split; [contradiction|lia].
  - rewrite IH. lia.
Qed.

Lemma fold_max_spec l : forall acc,
  (acc <= fold_left Z.max l acc)%Z /\
  (forall x, In x l -> (x <= fold_left Z.max l acc)%Z) /\
  (fold_left Z.max l acc = acc \/ In (fold_left Z.max l acc) l).
Proof.
  induction l as [|y r IH]; intros acc; cbn [fold_left In].
  - split; [lia|]. split; [contradiction|now left].
  - destruct (IH (Z.max acc y)) as (A & B & C). split; [lia|]. split.
    + intros x [->|Hx]; [lia|now apply B].
    + destruct C as [C|C]; [|now right; right].
      rewrite C. destruct (Z.max_spec acc y) as [[_ ->]|[_ ->]]; [right; now left|now left].
Qed.

(** class numbers that are exactly [1..K] pass [consecutive] *)
Lemma consecutive_range l K : (forall z, In z l <-> (1 <= z <= K)%Z) -> consecutive l = true.
Proof.
  intros H. destruct l as [|x0 r]; [reflexivity|].
  set (l := x0 :: r) in *. unfold consecutive. fold l.
  change (forallb (fun x => (1 <=? x)%Z) l
          && forallb (fun k => existsb (Z.eqb k) l) (seqZ 1 (Z.to_nat (fold_left Z.max l 0%Z))) = true).
  destruct (fold_max_spec l 0%Z) as (A & B & C).
  apply andb_true_iff; split; apply forallb_forall.
  - intros x Hx. apply Z.leb_le. now apply H.
  - intros k Hk. apply seqZ_in in Hk. apply existsb_exists. exists k. split; [|apply Z.eqb_refl].
    apply H. split; [lia|].
    destruct C as [C|C]; [rewrite C in Hk; cbn in Hk; lia|].
    apply H in C. lia.
Qed.

(** the second numbering [max+1-p] of a numbering that is exactly [1..K] is again exactly [1..K] *)
Lemma reverse_range l K : (forall z, In z l <-> (1 <= z <= K)%Z) ->
  forall z, In z (map (fun p => (fold_left Z.max l 0 + 1 - p)%Z) l) <-> (1 <= z <= K)%Z.
Proof.
  intros H z. destruct (fold_max_spec l 0%Z) as (A & B & C).
  set (mx := fold_left Z.max l 0%Z) in *.
  destruct (Z_lt_le_dec K 1) as [HK|HK].
  - split; [|lia]. intros Hz. apply in_map_iff in Hz as (p & _ & Hp). apply H in Hp. lia.
  - assert (mx = K) as ->.
    { assert (In K l) as IK by (apply H; lia). apply B in IK.
      destruct C as [C|C]; [lia|]. apply H in C. lia. }
    rewrite in_map_iff. split.
    + intros (p & <- & Hp). apply H in Hp. lia.
    + intros Hz. exists (K + 1 - z)%Z. split; [lia|]. apply H. lia.
Qed.

Section Struct.
  Context {N : Num}.

  (** ** 1. [best_set] and [next_class] only select *)
  Lemma best_set_eq m f mc asc D :
    best_set m f mc asc D =
    filter (fun i => Z.eqb (quality m f mc D i) (best_value asc (map (quality m f mc D) D))) D.
  Proof.
    unfold best_set. rewrite zip_map_r.
    rewrite (filter_map_comm (fun x => (x, quality m f mc D x))). rewrite map_map. cbn [fst snd].
    apply map_id.
  Qed.

  Lemma best_value_step_in (asc : bool) : forall (r : list Z) (q : Z),
    In (fold_left (fun b v => if asc then (if (b <? v)%Z then v else b) else (if (v <? b)%Z then v else b)) r q)
       (q :: r).
  Proof.
    induction r as [|y r IH]; intros q; cbn [fold_left]; [now left|].
    match goal with |- In (fold_left _ r ?q') _ => destruct (IH q') as [E|E] end.
    - rewrite <- E. destruct asc; [destruct (q <? y)%Z|destruct (y <? q)%Z]; cbn [In]; auto.
    - right; now right.
  Qed.

  Lemma best_value_in asc qs : qs <> [] -> In (best_value asc qs) qs.
  Proof. destruct qs as [|q r]; [congruence|]. intros _. apply best_value_step_in. Qed.

  Theorem best_set_incl : forall m f mc asc D, incl (best_set m f mc asc D) D.
  Proof. intros m f mc asc D. rewrite best_set_eq. intros i Hi. now apply filter_In in Hi. Qed.

  Theorem best_set_nonempty : forall m f mc asc D, D <> [] -> best_set m f mc asc D <> [].
  Proof.
    intros m f mc asc D HD. rewrite best_set_eq.
    assert (In (best_value asc (map (quality m f mc D) D)) (map (quality m f mc D) D)) as Hin.
    { apply best_value_in. destruct D; [congruence|discriminate]. }
    apply in_map_iff in Hin as (i & Hq & Hi).
    intros E.
    assert (In i (filter (fun i => Z.eqb (quality m f mc D i) (best_value asc (map (quality m f mc D) D))) D)) as Hf.
    { apply filter_In. split; [exact Hi|]. now apply Z.eqb_eq. }
    rewrite E in Hf. contradiction.
  Qed.

  (* the class is a sub-list of [D] selected by a predicate *)
  Lemma next_class_filter fuel m f asc : forall lambda D C,
    next_class fuel m f asc lambda D = Ok C -> exists p, C = filter p D.
  Proof.
    induction fuel as [|fu IH]; intros lambda D C H; cbn [next_class] in H; [discriminate|].
    destruct (neqb lambda nzero).
    { inversion H. exists (fun _ => true). clear. induction C as [|x r IH]; cbn [filter]; congruence. }
    destruct (Nat.ltb 1 (List.length (best_set m f (min_cred m f lambda D) asc D))
              && nltb nzero (min_cred m f lambda D)).
    - apply IH in H as (p & ->). rewrite best_set_eq, filter_filter_and. eexists. reflexivity.
    - inversion H. rewrite best_set_eq. eexists. reflexivity.
  Qed.

  Theorem next_class_subset : forall fuel m f asc lambda D C,
    next_class fuel m f asc lambda D = Ok C -> incl C D /\ (D <> [] -> C <> []).
  Proof.
    induction fuel as [|fu IH]; intros m f asc lambda D C H; cbn [next_class] in H; [discriminate|].
    destruct (neqb lambda nzero).
    { inversion H. subst. split; [apply incl_refl|auto]. }
    destruct (Nat.ltb 1 (List.length (best_set m f (min_cred m f lambda D) asc D))
              && nltb nzero (min_cred m f lambda D)).
    - apply IH in H as [A B]. split.
      + eapply incl_tran; [exact A|apply best_set_incl].
      + intros HD. apply B. now apply best_set_nonempty.
    - inversion H. subst. split; [apply best_set_incl|apply best_set_nonempty].
  Qed.

  (** ** 2. the distillation partitions the set into classes numbered consecutively *)
  Lemma distill_step fuel m f asc d D0 pos a :
    distill (S fuel) m f asc (d :: D0) pos = Ok a ->
    exists p rest,
      next_class class_fuel m f asc (max_cred m (d :: D0)) (d :: D0) = Ok (filter p (d :: D0)) /\
      filter p (d :: D0) <> [] /\
      distill fuel m f asc (filter (fun i => negb (p i)) (d :: D0)) (pos + 1)%Z = Ok rest /\
      a = map (fun i => (i, pos)) (filter p (d :: D0)) ++ rest.
  Proof.
    intros H. cbn [distill] in H. set (D := d :: D0) in *.
    destruct (next_class class_fuel m f asc (max_cred m D) D) as [C|] eqn:EC; cbn [bind] in H; [|discriminate].
    destruct (next_class_filter _ _ _ _ _ _ _ EC) as (p & ->).
    destruct (next_class_subset _ _ _ _ _ _ _ EC) as [_ Hne].
    assert (filter (fun i => negb (existsb (Nat.eqb i) (filter p D))) D = filter (fun i => negb (p i)) D) as EF.
    { apply filter_ext_in. intros i Hi. now rewrite existsb_eqb_filter. }
    rewrite EF in H.
    destruct (Nat.eqb _ _); [discriminate|].
    destruct (distill fuel m f asc (filter (fun i => negb (p i)) D) (pos + 1)%Z) as [rest|] eqn:ER;
      cbn [bind] in H; [|discriminate].
    inversion H. exists p, rest. repeat split; auto. apply Hne. discriminate.
  Qed.

  Theorem distill_partition : forall fuel m f asc D pos a,
    NoDup D -> distill fuel m f asc D pos = Ok a ->
    Permutation (map fst a) D /\ (forall p, In p a -> (pos <= snd p)%Z).
  Proof.
    induction fuel as [|fu IH]; intros m f asc D pos a ND H; [discriminate|].
    destruct D as [|d D0].
    { cbn [distill] in H. inversion H. split; [constructor|contradiction]. }
    apply distill_step in H as (p & rest & _ & _ & ER & ->).
    apply IH in ER as [P1 P2]; [|now apply NoDup_filter].
    split.
    - rewrite map_app, map_map. cbn [fst]. rewrite map_id. rewrite P1. apply filter_partition_perm.
    - intros q Hq. apply in_app_or in Hq as [Hq|Hq].
      + apply in_map_iff in Hq as (i & <- & _). cbn [snd]. lia.
      + apply P2 in Hq. lia.
  Qed.

  Theorem classes_consecutive : forall fuel m f asc D pos a,
    distill fuel m f asc D pos = Ok a ->
    exists K : nat,
      (D <> [] -> 1 <= K) /\
      (forall p, In p a -> (pos <= snd p < pos + Z.of_nat K)%Z) /\
      (forall k, (pos <= k < pos + Z.of_nat K)%Z -> exists p, In p a /\ snd p = k).
  Proof.
    induction fuel as [|fu IH]; intros m f asc D pos a H; [discriminate|].
    destruct D as [|d D0].
    { cbn [distill] in H. inversion H. exists 0. split; [congruence|]. split; [contradiction|lia]. }
    apply distill_step in H as (p & rest & _ & Hne & ER & ->).
    apply IH in ER as (K & _ & P2 & P3). exists (S K). split; [lia|]. split.
    - intros q Hq. apply in_app_or in Hq as [Hq|Hq].
      + apply in_map_iff in Hq as (i & <- & _). cbn [snd]. lia.
      + apply P2 in Hq. lia.
    - intros k Hk. destruct (Z.eq_dec k pos) as [->|Hne'].
      + destruct (filter p (d :: D0)) as [|i r] eqn:EF; [congruence|].
        exists (i, pos). split; [|reflexivity]. apply in_or_app. left. now left.
      + destruct (P3 k) as (q & Hq & Eq); [lia|]. exists q. split; [|exact Eq].
        apply in_or_app. now right.
  Qed.

  (* the numbers [positions] reads off an assignment of [0..n-1] are the class numbers used *)
  Lemma positions_in n a : Permutation (map fst a) (seq 0 n) ->
    forall z, In z (positions n a) <-> exists p, In p a /\ snd p = z.
  Proof.
    intros P z. unfold positions. rewrite in_map_iff.
    assert (NoDup (map fst a)) as ND.
    { eapply Permutation_NoDup; [symmetry; exact P|apply seq_NoDup]. }
    assert (forall i p, In p a -> fst p = i ->
              find (fun p => Nat.eqb (fst p) i) a = Some p) as Hfind.
    { intros i p Hp Ei. destruct (find (fun p => Nat.eqb (fst p) i) a) as [p'|] eqn:Ef.
      - apply find_some in Ef as [Hp' Ep']. apply Nat.eqb_eq in Ep'. f_equal.
        eapply NoDup_map_inj; [exact ND|exact Hp'|exact Hp|congruence].
      - eapply find_none in Ef; [|exact Hp]. cbn beta in Ef. rewrite Ei, Nat.eqb_refl in Ef. discriminate. }
    split.
    - intros (i & E & Hi).
      assert (In i (map fst a)) as Hi' by (eapply Permutation_in; [symmetry; exact P|exact Hi]).
      apply in_map_iff in Hi' as (p & Ep & Hp).
      rewrite (Hfind i p Hp Ep) in E. now exists p.
    - intros (p & Hp & E). exists (fst p). split.
      + now rewrite (Hfind (fst p) p Hp eq_refl).
      + eapply Permutation_in; [exact P|]. now apply in_map.
  Qed.

  Lemma positions_length n a : List.length (positions n a) = n.
  Proof. unfold positions. now rewrite map_length, seq_length. Qed.

  Lemma distill_positions_range fuel m f asc n a :
    distill fuel m f asc (seq 0 n) 1%Z = Ok a ->
    exists K : Z, forall z, In z (positions n a) <-> (1 <= z <= K)%Z.
  Proof.
    intros H.
    destruct (distill_partition _ _ _ _ _ _ _ (seq_NoDup n 0) H) as [P _].
    destruct (classes_consecutive _ _ _ _ _ _ _ H) as (K & _ & P2 & P3).
    exists (Z.of_nat K). intros z. rewrite (positions_in n a P). split.
    - intros (p & Hp & <-). apply P2 in Hp. lia.
    - intros Hz. apply P3. lia.
  Qed.

  Theorem rank_ascending_consecutive : forall m f a,
    rank_ascending m f = Ok a -> consecutive a = true /\ List.length a = List.length m.
  Proof.
    intros m f a H. unfold rank_ascending in H.
    destruct (Nat.eqb (List.length m) 0); [discriminate|].
    destruct (distill _ m f true _ 1%Z) as [x|] eqn:E; cbn [bind] in H; [|discriminate].
    inversion H. subst a. split; [|apply positions_length].
    destruct (distill_positions_range _ _ _ _ _ _ E) as (K & HK). now apply consecutive_range with K.
  Qed.

  Theorem rank_descending_consecutive : forall m f a,
    rank_descending m f = Ok a -> consecutive a = true /\ List.length a = List.length m.
  Proof.
    intros m f a H. unfold rank_descending in H.
    destruct (Nat.eqb (List.length m) 0); [discriminate|].
    destruct (distill _ m f false _ 1%Z) as [x|] eqn:E; cbn [bind] in H; [|discriminate].
    inversion H. subst a. split; [|now rewrite map_length, positions_length].
    destruct (distill_positions_range _ _ _ _ _ _ E) as (K & HK).
    apply consecutive_range with K. now apply reverse_range.
  Qed.

  (** ** 3. the links of [evaluate_ranking] are the ones defined by the two indices *)
  Definition rows_of (asc desc : list Z) (alts : list alt) : list (nat * (alt * (Z * Z))) :=
    zip (seq 0 (List.length alts)) (zip alts (zip asc desc)).

  Definition row_entry (rows : list (nat * (alt * (Z * Z)))) (r : nat * (alt * (Z * Z))) : entry :=
    {| e_alt := fst (snd r);
       e_eval := EElectre (fst (snd (snd r))) (snd (snd (snd r)));
       e_links := map (fun r2 => a_id (fst (snd r2)))
                      (filter (fun r2 => negb (Nat.eqb (fst r) (fst r2))
                                         && (fst (snd (snd r)) <=? fst (snd (snd r2)))%Z
                                         && (snd (snd (snd r)) <=? snd (snd (snd r2)))%Z) rows) |}.

  Lemma evaluate_ranking_eq asc desc alts :
    evaluate_ranking asc desc alts = map (row_entry (rows_of asc desc alts)) (rows_of asc desc alts).
  Proof.
    unfold evaluate_ranking. fold (rows_of asc desc alts).
    apply map_ext. intros [ia [a [a1 d1]]]. unfold row_entry. cbn [fst snd]. f_equal. f_equal.
    apply filter_ext. intros [ib [b [a2 d2]]]. reflexivity.
  Qed.

  Section Rows.
    Variables (asc desc : list Z) (alts : list alt).
    Hypothesis Hasc : List.length asc = List.length alts.
    Hypothesis Hdesc : List.length desc = List.length alts.

    Lemma rows_fst : map fst (rows_of asc desc alts) = seq 0 (List.length alts).
    Proof. unfold rows_of. apply map_fst_zip. rewrite seq_length, !zip_length. lia. Qed.

    Lemma rows_snd : map snd (rows_of asc desc alts) = zip alts (zip asc desc).
    Proof. unfold rows_of. apply map_snd_zip. rewrite seq_length, !zip_length. lia. Qed.

    Lemma rows_alts : map (fun r => fst (snd r)) (rows_of asc desc alts) = alts.
    Proof.
      rewrite <- (map_map snd fst), rows_snd. apply map_fst_zip. rewrite zip_length. lia.
    Qed.

    Lemma rows_asc : map (fun r => fst (snd (snd r))) (rows_of asc desc alts) = asc.
    Proof.
      rewrite <- (map_map snd (fun x => fst (snd x))), rows_snd.
      rewrite <- (map_map snd fst). rewrite map_snd_zip by (rewrite zip_length; lia).
      apply map_fst_zip. lia.
    Qed.

    Lemma rows_desc : map (fun r => snd (snd (snd r))) (rows_of asc desc alts) = desc.
    Proof.
      rewrite <- (map_map snd (fun x => snd (snd x))), rows_snd.
      rewrite <- (map_map snd snd). rewrite map_snd_zip by (rewrite zip_length; lia).
      apply map_snd_zip. lia.
    Qed.

    Theorem evaluate_ranking_alts : map e_alt (evaluate_ranking asc desc alts) = alts.
    Proof. rewrite evaluate_ranking_eq, map_map. cbn [row_entry e_alt]. apply rows_alts. Qed.

    Lemma evaluate_ranking_asc : map asc_of (evaluate_ranking asc desc alts) = asc.
    Proof. rewrite evaluate_ranking_eq, map_map. unfold asc_of. cbn [row_entry e_eval]. apply rows_asc. Qed.

    Lemma evaluate_ranking_desc : map desc_of (evaluate_ranking asc desc alts) = desc.
    Proof. rewrite evaluate_ranking_eq, map_map. unfold desc_of. cbn [row_entry e_eval]. apply rows_desc. Qed.

    Lemma rows_index_id r r2 : NoDup (map a_id alts) ->
      In r (rows_of asc desc alts) -> In r2 (rows_of asc desc alts) ->
      Nat.eqb (fst r) (fst r2) = String.eqb (a_id (fst (snd r2))) (a_id (fst (snd r))).
    Proof.
      intros ND Hr Hr2.
      assert (NoDup (map fst (rows_of asc desc alts))) as ND1 by (rewrite rows_fst; apply seq_NoDup).
      assert (NoDup (map (fun r => a_id (fst (snd r))) (rows_of asc desc alts))) as ND2.
      { rewrite <- (map_map (fun r => fst (snd r)) a_id), rows_alts. exact ND. }
      destruct (Nat.eqb_spec (fst r) (fst r2)) as [E|E]; destruct (String.eqb_spec (a_id (fst (snd r2))) (a_id (fst (snd r)))) as [E'|E'];
        try reflexivity; exfalso.
      - apply E'. now rewrite (NoDup_map_inj _ _ _ _ ND1 Hr Hr2 E).
      - apply E. now rewrite (NoDup_map_inj _ _ _ _ ND2 Hr2 Hr E').
    Qed.

    Theorem evaluate_ranking_links : NoDup (map a_id alts) ->
      forall e, In e (evaluate_ranking asc desc alts) ->
      e_links e = links_by_indices (evaluate_ranking asc desc alts) e.
    Proof.
      intros ND e He. rewrite evaluate_ranking_eq in *.
      set (rows := rows_of asc desc alts) in *.
      apply in_map_iff in He as (r & <- & Hr).
      unfold links_by_indices.
      rewrite (filter_map_comm (row_entry rows)), map_map.
      cbn [row_entry e_links]. unfold eid, asc_of, desc_of. cbn [row_entry e_alt e_eval].
      f_equal. apply filter_ext_in. intros r2 Hr2.
      now rewrite (rows_index_id r r2 ND Hr Hr2).
    Qed.
  End Rows.

  (** ** 4. the model passes the checker *)
  Lemma cred_matrix_length alts cs ecs m :
    cred_matrix alts cs ecs = Ok m -> List.length m = List.length alts.
  Proof.
    intros H. apply mapM_length in H. rewrite H, zip_length, seq_length. lia.
  Qed.

  Theorem electre_passes_checker : forall s r,
    NoDup (map a_id (st_cons s)) -> electre_evaluate s = Ok r -> C05_ok s r = true.
  Proof.
    intros s r ND H. unfold electre_evaluate in H.
    destruct (st_params s) as [| | |ecs f| | |] eqn:Ep; try discriminate.
    destruct (cred_matrix (st_cons s) (st_crits s) ecs) as [m|] eqn:Em; cbn [bind] in H; [|discriminate].
    destruct (rank_ascending m f) as [asc|] eqn:Ea; cbn [bind] in H; [|discriminate].
    destruct (rank_descending m f) as [desc|] eqn:Ed; cbn [bind] in H; [|discriminate].
    inversion H. clear H. subst r.
    pose proof (cred_matrix_length _ _ _ _ Em) as Lm.
    destruct (rank_ascending_consecutive _ _ _ Ea) as [Ca La].
    destruct (rank_descending_consecutive _ _ _ Ed) as [Cd Ld].
    assert (List.length asc = List.length (st_cons s)) as Ha by congruence.
    assert (List.length desc = List.length (st_cons s)) as Hd by congruence.
    unfold C05_ok. rewrite Ep.
    rewrite (evaluate_ranking_alts asc desc _ Ha Hd), Em, Ea, Ed.
    rewrite (evaluate_ranking_asc asc desc _ Ha Hd), (evaluate_ranking_desc asc desc _ Ha Hd).
    rewrite !list_eqb_Z_refl, andb_true_r.
    unfold C05_struct_ok.
    rewrite (evaluate_ranking_asc asc desc _ Ha Hd), (evaluate_ranking_desc asc desc _ Ha Hd), Ca, Cd.
    rewrite !andb_true_r. apply andb_true_iff; split; apply forallb_forall; intros e He.
    - rewrite evaluate_ranking_eq in He. apply in_map_iff in He as (x & <- & _). reflexivity.
    - rewrite <- (evaluate_ranking_links asc desc _ Ha Hd ND e He). apply list_eqb_refl.
  Qed.

  (** ** 5. not worse on a criterion => fully concordant on it (any carrier) *)
  Theorem concordant_when_not_worse : forall v1 v2 c ths,
    nleb v2 v1 = true -> electre_pair v1 v2 c ths = (none, nzero).
  Proof. intros v1 v2 c ths H. unfold electre_pair. now rewrite H. Qed.
End Struct.

(** * Part B: arithmetic theorems on the exact-rational instance *)
From Coq Require Import QArith Qcanon Lqa.
From RDM Require Import Base.NumQc.
Local Open Scope Qc_scope.

(** ** bridge between [Qc] and [Q] *)
Lemma this_plus x y : (this (x + y) == this x + this y)%Q.
Proof. unfold Qcplus, Q2Qc; cbn [this]; apply Qred_correct. Qed.
Lemma this_opp x : (this (- x) == - this x)%Q.
Proof. unfold Qcopp, Q2Qc; cbn [this]; apply Qred_correct. Qed.
Lemma this_minus x y : (this (x - y) == this x - this y)%Q.
Proof. unfold Qcminus. rewrite this_plus, this_opp. reflexivity. Qed.
Lemma this_mult x y : (this (x * y) == this x * this y)%Q.
Proof. unfold Qcmult, Q2Qc; cbn [this]; apply Qred_correct. Qed.
Lemma this_inv x : (this (/ x) == / this x)%Q.
Proof. unfold Qcinv, Q2Qc; cbn [this]; apply Qred_correct. Qed.
Lemma this_div x y : (this (x / y) == this x / this y)%Q.
Proof. unfold Qcdiv. rewrite this_mult, this_inv. reflexivity. Qed.

Ltac qc2q :=
  unfold Qcle, Qclt in *;
  change (this 0%Qc) with 0%Q in *; change (this 1%Qc) with 1%Q in *;
  repeat (rewrite ?this_plus, ?this_minus, ?this_mult, ?this_opp in * );
  change (this 0%Qc) with 0%Q in *; change (this 1%Qc) with 1%Q in *.

Lemma nleb_iff (x y : Qc) : @nleb NumQc x y = true <-> x <= y.
Proof. apply qc_leb_iff. Qed.
Lemma nleb_false (x y : Qc) : @nleb NumQc x y = false <-> y < x.
Proof.
  split; intros H.
  - apply Qcnot_le_lt. intros A. apply nleb_iff in A. congruence.
  - destruct (@nleb NumQc x y) eqn:E; [|reflexivity]. apply nleb_iff in E.
    exfalso. eapply Qclt_not_le; eassumption.
Qed.
Lemma nltb_iff (x y : Qc) : @nltb NumQc x y = true <-> x < y.
Proof.
  change (@nltb NumQc x y) with (negb (@nleb NumQc y x)). rewrite negb_true_iff. apply nleb_false.
Qed.
Lemma nltb_false (x y : Qc) : @nltb NumQc x y = false <-> y <= x.
Proof.
  change (@nltb NumQc x y) with (negb (@nleb NumQc y x)). rewrite negb_false_iff. apply nleb_iff.
Qed.
Lemma neqb_iff (x y : Qc) : @neqb NumQc x y = true <-> x = y.
Proof.
  change (@neqb NumQc x y) with (Qeq_bool x y). rewrite Qeq_bool_iff. split; [apply Qc_is_canon|].
  intros ->. reflexivity.
Qed.

(* turn boolean comparisons of the instance into propositions *)
Ltac b2p :=
  repeat match goal with
  | H : @nleb NumQc _ _ = true |- _ => apply nleb_iff in H
  | H : @nleb NumQc _ _ = false |- _ => apply nleb_false in H
  | H : @nltb NumQc _ _ = true |- _ => apply nltb_iff in H
  | H : @nltb NumQc _ _ = false |- _ => apply nltb_false in H
  | H : @neqb NumQc _ _ = true |- _ => apply neqb_iff in H
  | H : _ && _ = true |- _ => apply andb_true_iff in H; destruct H
  | H : negb _ = true |- _ => apply negb_true_iff in H
  | H : negb _ = false |- _ => apply negb_false_iff in H
  end.

Lemma qc_zero_mul_add (x b : Qc) : 0 * x + b = b.
Proof. ring. Qed.

Definition in_unit (x : Qc) : Prop := 0 <= x /\ x <= 1.

Lemma in_unit_0 : in_unit 0. Proof. unfold in_unit. qc2q. lra. Qed.
Lemma in_unit_1 : in_unit 1. Proof. unfold in_unit. qc2q. lra. Qed.

Lemma div_unit (a b : Qc) : 0 <= a -> a <= b -> 0 < b -> in_unit (a / b).
Proof.
  intros Ha Hab Hb. unfold in_unit. qc2q. rewrite this_div. split.
  - apply Qle_shift_div_l; [exact Hb|]. lra.
  - apply Qle_shift_div_r; [exact Hb|]. lra.
Qed.

Lemma one_minus_unit (x : Qc) : in_unit x -> in_unit (1 - x).
Proof. unfold in_unit. intros [A B]. qc2q. lra. Qed.

Lemma mul_unit (x y : Qc) : in_unit x -> in_unit y -> in_unit (x * y).
Proof. unfold in_unit. intros [A B] [C D]. qc2q. nra. Qed.

(** 5 on the rational instance, with the literal values *)
Corollary concordant_when_not_worse_Qc : forall (v1 v2 : Qc) (c : @crit NumQc) (ths : @ecrit NumQc),
  v2 <= v1 -> @electre_pair NumQc v1 v2 c ths = (1, 0).
Proof. intros v1 v2 c ths H. apply (@concordant_when_not_worse NumQc). now apply nleb_iff. Qed.

(** ** 6. concordance, discordance and credibility are in [0,1] *)
Section Unit.
  Notation ecritQ := (@ecrit NumQc).
  Notation linfunQ := (@linfun NumQc).

  (* thresholds that do not depend on the criterion value *)
  Definition const_thresholds (ths : ecritQ) : Prop :=
    lf_a (ec_q ths) = 0 /\ lf_a (ec_p ths) = 0 /\ lf_a (ec_v ths) = 0.

  Lemma lf_eval_const (f : linfunQ) (x : Qc) :
    lf_a f = 0 -> lf_eval f x = (lf_b f, negb (neqb (lf_b f) nzero)).
  Proof.
    intros Ha. unfold lf_eval. rewrite Ha.
    assert (@neqb NumQc 0 nzero = true) as -> by (apply neqb_iff; reflexivity). cbn [andb].
    destruct (neqb (lf_b f) nzero) eqn:E; cbn [negb].
    - apply neqb_iff in E. rewrite E. reflexivity.
    - f_equal. cbn [nadd nmul NumQc]. apply qc_zero_mul_add.
  Qed.

  Lemma require_const (f : linfunQ) (cur w : Qc) :
    lf_a f = 0 -> 0 <= cur -> require_b_at_least f cur = Ok w ->
    (lf_b f = 0 /\ w = cur) \/ (cur < lf_b f /\ w = lf_b f).
  Proof.
    intros Ha Hc H. unfold require_b_at_least in H. rewrite Ha in H.
    assert (@neqb NumQc 0 nzero = true) as E0 by (apply neqb_iff; reflexivity). rewrite E0 in H.
    cbn [andb] in H.
    destruct (neqb (lf_b f) nzero) eqn:E; cbn [negb andb] in H.
    - apply neqb_iff in E. left. split; [exact E|]. rewrite E in H.
      assert (@nltb NumQc nzero nzero = false) as E1 by (apply nltb_false; apply Qcle_refl).
      rewrite E1 in H. now inversion H.
    - destruct (nleb (lf_b f) cur) eqn:E1; [discriminate|]. b2p. right. split; [exact E1|].
      assert (@nltb NumQc nzero (lf_b f) = true) as E2.
      { apply nltb_iff. eapply Qcle_lt_trans; eassumption. }
      rewrite E2 in H. now inversion H.
  Qed.

  Lemma validate_const_spec (ths : ecritQ) :
    const_thresholds ths -> validate_ecrit ths = Ok tt ->
    0 < ec_k ths /\ 0 <= lf_b (ec_q ths) /\
    (lf_b (ec_p ths) = 0 \/ lf_b (ec_q ths) < lf_b (ec_p ths)) /\
    (lf_b (ec_v ths) = 0 \/ (lf_b (ec_q ths) < lf_b (ec_v ths) /\ lf_b (ec_p ths) < lf_b (ec_v ths))).
  Proof.
    intros (Aq & Ap & Av) H. unfold validate_ecrit in H.
    destruct (nleb (ec_k ths) nzero) eqn:Ek; [discriminate|]. b2p.
    destruct (require_b_at_least (ec_q ths) nzero) as [w1|] eqn:E1; cbn [bind] in H; [|discriminate].
    destruct (require_b_at_least (ec_p ths) w1) as [w2|] eqn:E2; cbn [bind] in H; [|discriminate].
    destruct (require_b_at_least (ec_v ths) w2) as [w3|] eqn:E3; cbn [bind] in H; [|discriminate].
    assert (0 <= 0) as Z0 by apply Qcle_refl.
    apply (require_const _ _ _ Aq Z0) in E1.
    assert (w1 = lf_b (ec_q ths) /\ 0 <= w1) as [W1 P1].
    { destruct E1 as [[A B]|[A B]]; subst w1; [rewrite A; split; [reflexivity|exact Z0]|].
      split; [reflexivity|now apply Qclt_le_weak]. }
    apply (require_const _ _ _ Ap P1) in E2.
    assert (0 <= w2 /\ lf_b (ec_q ths) <= w2 /\ lf_b (ec_p ths) <= w2) as (P2 & P3 & P4).
    { destruct E2 as [[A B]|[A B]]; subst w2; subst w1.
      - rewrite A. repeat split; try assumption. apply Qcle_refl.
      - repeat split; [| |apply Qcle_refl]; qc2q; lra. }
    apply (require_const _ _ _ Av P2) in E3.
    split; [exact Ek|]. split; [now rewrite <- W1|]. split.
    - destruct E2 as [[A B]|[A B]]; [now left|right; now rewrite <- W1].
    - destruct E3 as [[A B]|[A B]]; [now left|right]. split; qc2q; lra.
  Qed.

  Theorem electre_pair_in_unit : forall (v1 v2 : Qc) (c : @crit NumQc) (ths : ecritQ),
    const_thresholds ths -> validate_ecrit ths = Ok tt ->
    in_unit (fst (electre_pair v1 v2 c ths)) /\ in_unit (snd (electre_pair v1 v2 c ths)).
  Proof.
    intros v1 v2 c ths Hc Hv.
    destruct (validate_const_spec ths Hc Hv) as (_ & Hq & Hp & Hvv).
    destruct Hc as (Aq & Ap & Av).
    unfold electre_pair.
    destruct (@nleb NumQc v2 v1) eqn:E0; [split; [apply in_unit_1|apply in_unit_0]|].
    rewrite (lf_eval_const _ _ Aq), (lf_eval_const _ _ Ap), (lf_eval_const _ _ Av).
    cbv beta iota zeta.
    set (d := @nsub NumQc v2 v1).
    assert (0 < d) as Hd by (b2p; subst d; cbn [nsub NumQc]; qc2q; lra).
    set (bq := lf_b (ec_q ths)) in *. set (bp := lf_b (ec_p ths)) in *. set (bv := lf_b (ec_v ths)) in *.
    destruct (negb (neqb bq nzero) && nleb d bq) eqn:E1; [split; [apply in_unit_1|apply in_unit_0]|].
    assert (bq < d) as Hqd.
    { apply andb_false_iff in E1 as [E1|E1]; b2p; [|exact E1]. now rewrite E1. }
    destruct (negb (neqb bp nzero) && nleb d bp) eqn:E2.
    { cbn [fst snd]. split; [|apply in_unit_0]. b2p.
      assert (bq < bp) as Hqp.
      { destruct Hp as [Hp|Hp]; [|exact Hp]. exfalso.
        assert (@neqb NumQc bp nzero = true) by now apply neqb_iff. congruence. }
      apply one_minus_unit. cbn [nsub ndiv NumQc]. apply div_unit; qc2q; lra. }
    assert (bp < d) as Hpd.
    { apply andb_false_iff in E2 as [E2|E2]; b2p; [|exact E2]. now rewrite E2. }
    destruct (negb (neqb bv nzero) && nleb d bv) eqn:E3.
    { cbn [fst snd]. split; [apply in_unit_0|]. b2p.
      assert (bp < bv) as Hpv.
      { destruct Hvv as [Hvv|[_ Hvv]]; [|exact Hvv]. exfalso.
        assert (@neqb NumQc bv nzero = true) by now apply neqb_iff. congruence. }
      cbn [nsub ndiv NumQc]. apply div_unit; qc2q; lra. }
    destruct (negb (neqb bv nzero) && nltb bv d); cbn [fst snd];
      (split; [apply in_unit_0|first [apply in_unit_1|apply in_unit_0]]).
  Qed.
End Unit.

Lemma filter_len_le {A} (p : A -> bool) l : (List.length (filter p l) <= List.length l)%nat.
Proof. induction l as [|x r IH]; cbn [filter List.length]; [lia|]. destruct (p x); cbn [List.length]; lia. Qed.

Lemma mapM_Forall {A B} (f : A -> res B) (P : B -> Prop) l :
  (forall x y, In x l -> f x = Ok y -> P y) -> forall ys, mapM f l = Ok ys -> Forall P ys.
Proof.
  induction l as [|x t IH]; intros HP ys H; cbn [mapM] in H.
  - inversion H. constructor.
  - destruct (f x) as [y|] eqn:Ey; cbn [bind] in H; [|discriminate].
    destruct (mapM f t) as [ys'|] eqn:Et; cbn [bind] in H; [|discriminate].
    inversion H. constructor.
    + eapply HP; [now left|exact Ey].
    + apply IH; [|reflexivity]. intros x' y' Hx'. apply HP. now right.
Qed.

Section Cred.
  (* one row of [credibility]: (weight, (concordance, discordance)) *)
  Definition good_row (r : Qc * (Qc * Qc)) : Prop :=
    0 < fst r /\ in_unit (fst (snd r)) /\ in_unit (snd (snd r)).

  Lemma sums_inv rs : Forall good_row rs -> forall w t : Qc, 0 <= t -> t <= w ->
    0 <= fold_left (fun acc r => @nadd NumQc acc (@nmul NumQc (fst r) (fst (snd r)))) rs t /\
    fold_left (fun acc r => @nadd NumQc acc (@nmul NumQc (fst r) (fst (snd r)))) rs t
      <= fold_left (fun acc (r : Qc * (Qc * Qc)) => @nadd NumQc acc (fst r)) rs w.
  Proof.
    induction 1 as [|r rs Hr _ IH]; intros w t Ht Htw; cbn [fold_left]; [now split|].
    destruct r as [k [c d]]. destruct Hr as (Hk & [Hc0 Hc1] & _). cbn [nadd nmul NumQc fst snd] in *.
    apply IH; clear IH; qc2q; nra.
  Qed.

  Lemma ratio_unit (t w : Qc) : 0 <= t -> t <= w -> in_unit (t / w).
  Proof.
    intros Ht Htw. destruct (Qc_eq_dec w 0) as [->|Hw].
    - assert (t = 0) as -> by (apply Qcle_antisym; assumption).
      assert (0 / 0 = 0) as -> by reflexivity. apply in_unit_0.
    - apply div_unit; try assumption.
      assert (0 <= w) as Hw0 by (eapply Qcle_trans; eassumption).
      apply Qcle_lt_or_eq in Hw0 as [?|E]; [assumption|]. now symmetry in E.
  Qed.

  Lemma cred_fold_unit (C : Qc) rs : in_unit C -> Forall good_row rs -> forall cred, in_unit cred ->
    in_unit (fold_left (fun cred (r : Qc * (Qc * Qc)) =>
                          let D := snd (snd r) in
                          if @nltb NumQc C D then @nmul NumQc cred (@ndiv NumQc (@nsub NumQc none D) (@nsub NumQc none C))
                          else cred) rs cred).
  Proof.
    intros [HC0 HC1]. induction 1 as [|r rs Hr _ IH]; intros cred Hcred; cbn [fold_left]; [exact Hcred|].
    apply IH. cbv zeta. destruct (@nltb NumQc C (snd (snd r))) eqn:E; [|exact Hcred].
    destruct r as [k [c d]]. b2p. destruct Hr as (_ & _ & [HD0 HD1]). cbn [nmul ndiv nsub none NumQc fst snd] in *.
    apply mul_unit; [exact Hcred|]. apply div_unit; qc2q; lra.
  Qed.

  Theorem credibility_in_unit : forall (a1 a2 : @alt NumQc) (cs : list (@crit NumQc)) (ecs : smap (@ecrit NumQc)) (x : Qc),
    (forall c ths, In c cs -> mget (c_id c) ecs = Some ths ->
                   const_thresholds ths /\ validate_ecrit ths = Ok tt) ->
    credibility a1 a2 cs ecs = Ok x -> 0 <= x /\ x <= 1.
  Proof.
    intros a1 a2 cs ecs x Hth H. unfold credibility in H.
    match type of H with bind (mapM ?F cs) _ = _ => set (F0 := F) in H end.
    destruct (mapM F0 cs) as [rs|] eqn:ER; cbn [bind] in H; [|discriminate].
    assert (Forall good_row rs) as Hgood.
    { apply (mapM_Forall F0 good_row cs); [|exact ER].
      intros c y Hc Hy. unfold F0 in Hy.
      destruct (crit_value a1 c) as [v1|]; cbn [bind] in Hy; [|discriminate].
      destruct (crit_value a2 c) as [v2|]; cbn [bind] in Hy; [|discriminate].
      destruct (mget (c_id c) ecs) as [ths|] eqn:Eg; cbn [of_option bind] in Hy; [|discriminate].
      inversion Hy. destruct (Hth c ths Hc Eg) as [Hct Hv].
      unfold good_row. cbn [fst snd]. split.
      - now destruct (validate_const_spec ths Hct Hv).
      - now apply electre_pair_in_unit. }
    inversion H. clear H.
    destruct (sums_inv rs Hgood 0 0 (Qcle_refl 0) (Qcle_refl 0)) as [S0 S1].
    apply cred_fold_unit; try assumption; now apply ratio_unit.
  Qed.
End Cred.

(** ** 7. termination of the inner distillation on the valid domain *)
Section Termination.
  Notation matrixQ := (list (list Qc)).
  Notation linfunQ := (@linfun NumQc).

  Lemma entries_in (m : matrixQ) D x :
    In x (@entries NumQc m D) <-> exists i j, In i D /\ In j D /\ x = @sig NumQc m i j.
  Proof.
    unfold entries. rewrite in_flat_map. split.
    - intros (i & Hi & Hx). apply in_map_iff in Hx as (j & <- & Hj). now exists i, j.
    - intros (i & j & Hi & Hj & ->). exists i. split; [exact Hi|]. now apply in_map.
  Qed.

  Lemma entries_incl (m : matrixQ) B D : incl B D -> incl (@entries NumQc m B) (@entries NumQc m D).
  Proof.
    intros H x Hx. apply entries_in in Hx as (i & j & Hi & Hj & ->).
    apply entries_in. exists i, j. auto.
  Qed.

  Lemma min_fold_spec (thr : Qc) l : forall acc,
    let r := fold_left (fun best x => if @nltb NumQc x thr && @nltb NumQc best x then x else best) l acc in
    r = acc \/ (In r l /\ r < thr).
  Proof.
    induction l as [|y t IH]; intros acc; cbn [fold_left]; [now left|]. cbv zeta.
    destruct (@nltb NumQc y thr && @nltb NumQc acc y) eqn:E.
    - destruct (IH y) as [A|[A B]].
      + right. cbv zeta in A. rewrite A. split; [now left|]. b2p. assumption.
      + right. split; [now right|exact B].
    - destruct (IH acc) as [A|[A B]]; [now left|]. right. split; [now right|exact B].
  Qed.

  Lemma min_cred_spec (m : matrixQ) (f : linfunQ) lambda D :
    @min_cred NumQc m f lambda D = 0 \/
    (In (@min_cred NumQc m f lambda D) (@entries NumQc m D) /\ @min_cred NumQc m f lambda D < lambda - @dist_value NumQc f lambda).
  Proof. unfold min_cred. apply (min_fold_spec _ (@entries NumQc m D) 0). Qed.

  Lemma max_fold_spec l : forall acc : Qc,
    let r := fold_left (fun best x => if @nltb NumQc best x then x else best) l acc in
    r = acc \/ In r l.
  Proof.
    induction l as [|y t IH]; intros acc; cbn [fold_left]; [now left|]. cbv zeta.
    destruct (@nltb NumQc acc y).
    - destruct (IH y) as [A|A]; right; [cbv zeta in A; rewrite A; now left|now right].
    - destruct (IH acc) as [A|A]; [now left|right; now right].
  Qed.

  Lemma max_cred_spec (m : matrixQ) D : @max_cred NumQc m D = 0 \/ In (@max_cred NumQc m D) (@entries NumQc m D).
  Proof. unfold max_cred. apply (max_fold_spec (@entries NumQc m D) 0). Qed.

  (* the cut level strictly decreases (or reaches 0) when the distillation threshold is not negative *)
  Theorem next_class_lambda_decreases : forall (m : matrixQ) (f : linfunQ) (lambda : Qc) D,
    0 <= @dist_value NumQc f lambda ->
    @min_cred NumQc m f lambda D < lambda \/ @min_cred NumQc m f lambda D = 0.
  Proof.
    intros m f lambda D Hs. destruct (min_cred_spec m f lambda D) as [A|[_ A]]; [now right|left].
    revert A Hs. generalize (@min_cred NumQc m f lambda D) (@dist_value NumQc f lambda). intros mc s A Hs.
    qc2q. lra.
  Qed.

  Lemma qclt_irrefl (x : Qc) : ~ x < x.
  Proof. intros H. apply Qclt_not_eq in H. now apply H. Qed.

  Section Fuel.
    Variables (m : matrixQ) (f : linfunQ) (asc : bool) (E : list Qc).
    Hypothesis Hdist : forall x, 0 <= x /\ x <= 1 -> 0 <= @dist_value NumQc f x.
    Hypothesis HE : forall x, In x E -> 0 <= x /\ x <= 1.

    Definition below (lambda : Qc) : nat := List.length (filter (fun x => @nltb NumQc x lambda) E).

    Lemma below_lt mc lambda : In mc E -> mc < lambda -> (below mc < below lambda)%nat.
    Proof.
      intros Hin Hlt. unfold below. apply filter_length_lt with (m := mc).
      - intros s _ Hs. b2p. apply nltb_iff. eapply Qclt_trans; eassumption.
      - exact Hin.
      - now apply nltb_iff.
      - apply nltb_false. apply Qcle_refl.
    Qed.

    Lemma next_class_ok_core : forall fuel lambda D,
      incl (@entries NumQc m D) E -> 0 <= lambda /\ lambda <= 1 -> (below lambda < fuel)%nat ->
      exists C, @next_class NumQc fuel m f asc lambda D = Ok C.
    Proof.
      induction fuel as [|fu IH]; intros lambda D Hin Hl Hf; [lia|]. cbn [next_class].
      destruct (@neqb NumQc lambda nzero); [now eexists|].
      destruct (Nat.ltb 1 (List.length (@best_set NumQc m f (@min_cred NumQc m f lambda D) asc D))
                && @nltb NumQc nzero (@min_cred NumQc m f lambda D)) eqn:Ec; [|now eexists].
      apply andb_true_iff in Ec as [_ Ec]. b2p.
      destruct (min_cred_spec m f lambda D) as [A|[A B]].
      { rewrite A in Ec. exfalso. revert Ec. apply qclt_irrefl. }
      assert (@min_cred NumQc m f lambda D < lambda) as Hlt.
      { destruct (next_class_lambda_decreases m f lambda D (Hdist _ Hl)) as [?|Z]; [assumption|].
        rewrite Z in Ec. exfalso. revert Ec. apply qclt_irrefl. }
      apply IH.
      - eapply incl_tran; [|exact Hin]. apply entries_incl, best_set_incl.
      - apply HE, Hin, A.
      - pose proof (below_lt _ _ (Hin _ A) Hlt). lia.
    Qed.
  End Fuel.

  Theorem distill_fuel_enough : forall (m : matrixQ) (f : linfunQ) (asc : bool) (lambda : Qc) (D : list nat) (fuel : nat),
    (forall x, 0 <= x /\ x <= 1 -> 0 <= @dist_value NumQc f x) ->
    (forall x, In x (@entries NumQc m D) -> 0 <= x /\ x <= 1) ->
    0 <= lambda /\ lambda <= 1 ->
    ((List.length D + 1) * (List.length (nodup Qc_eq_dec (@entries NumQc m D)) + 2) < fuel)%nat ->
    exists C, @next_class NumQc fuel m f asc lambda D = Ok C.
  Proof.
    intros m f asc lambda D fuel Hdist Hent Hl Hfuel.
    apply next_class_ok_core with (E := nodup Qc_eq_dec (@entries NumQc m D)); try assumption.
    - intros x Hx. apply nodup_In in Hx. now apply Hent.
    - intros x Hx. now apply nodup_In.
    - unfold below.
      eapply Nat.le_lt_trans; [apply filter_len_le|].
      assert (forall a b c, ((b + 1) * (a + 2) < c -> a < c)%nat) as Har by (intros; nia).
      eapply Har. exact Hfuel.
  Qed.

  Corollary distill_fuel_enough' : forall (m : matrixQ) (f : linfunQ) (asc : bool) (lambda : Qc) (D : list nat) (fuel : nat),
    (forall x, 0 <= x /\ x <= 1 -> 0 <= @dist_value NumQc f x) ->
    (forall x, In x (@entries NumQc m D) -> 0 <= x /\ x <= 1) ->
    0 <= lambda /\ lambda <= 1 ->
    ((List.length D + 1) * (List.length (nodup Qc_eq_dec (@entries NumQc m D)) + 2) < fuel)%nat ->
    @next_class NumQc fuel m f asc lambda D <> Err EOutOfFuel.
  Proof.
    intros m f asc lambda D fuel H1 H2 H3 H4.
    destruct (distill_fuel_enough m f asc lambda D fuel H1 H2 H3 H4) as [C ->]. discriminate.
  Qed.
End Termination.

(** ** the outer loop never runs out of fuel when every inner distillation succeeds (any carrier) *)
Lemma filter_len_lt {A} (p : A -> bool) l x :
  In x l -> p x = false -> (List.length (filter p l) < List.length l)%nat.
Proof.
  induction l as [|y r IH]; intros Hin Hp; [contradiction|]. cbn [filter List.length].
  destruct Hin as [->|Hin].
  - rewrite Hp. pose proof (filter_len_le p r). lia.
  - specialize (IH Hin Hp). destruct (p y); cbn [List.length]; lia.
Qed.

Lemma distill_ok {N : Num} (m : list (list (@Base.Num.num N))) (f : linfun) (asc : bool) (D0 : list nat) :
  (forall D, incl D D0 -> D <> [] -> exists C, next_class class_fuel m f asc (max_cred m D) D = Ok C) ->
  forall fuel D pos, incl D D0 -> (List.length D < fuel)%nat -> exists a, distill fuel m f asc D pos = Ok a.
Proof.
  intros Hnc. induction fuel as [|fu IH]; intros D pos Hin Hf; [lia|].
  destruct D as [|d D1]; [now eexists|]. cbn [distill]. set (D := d :: D1) in *.
  destruct (Hnc D Hin) as [C EC]; [discriminate|]. rewrite EC. cbn [bind].
  destruct (next_class_subset _ _ _ _ _ _ _ EC) as [Hsub Hne].
  destruct C as [|c C']; [exfalso; apply Hne; [discriminate|reflexivity]|].
  set (C := c :: C') in *.
  assert (List.length (filter (fun i => negb (existsb (Nat.eqb i) C)) D) < List.length D)%nat as Hlt.
  { apply filter_len_lt with (x := c); [apply Hsub; now left|].
    apply negb_false_iff. apply existsb_exists. exists c. split; [now left|apply Nat.eqb_refl]. }
  destruct (Nat.eqb_spec (List.length (filter (fun i => negb (existsb (Nat.eqb i) C)) D)) (List.length D)) as [E|_]; [lia|].
  destruct (IH (filter (fun i => negb (existsb (Nat.eqb i) C)) D) (pos + 1)%Z) as [rest ->].
  - intros i Hi. apply filter_In in Hi as [Hi _]. now apply Hin.
  - lia.
  - cbn [bind]. now eexists.
Qed.

(** ** on the valid domain neither distillation fails *)
Lemma nodup_len_le {A} (dec : forall x y : A, {x = y} + {x <> y}) l :
  (List.length (nodup dec l) <= List.length l)%nat.
Proof.
  induction l as [|x r IH]; cbn [nodup List.length]; [lia|].
  destruct (in_dec dec x r); cbn [List.length]; lia.
Qed.

Section Total.
  Variables (m : list (list Qc)) (f : @linfun NumQc).
  Let n := List.length m.
  Let E := nodup Qc_eq_dec (@entries NumQc m (seq 0 n)).
  Hypothesis Hdist : forall x, 0 <= x /\ x <= 1 -> 0 <= @dist_value NumQc f x.
  Hypothesis Hent : forall x, In x (@entries NumQc m (seq 0 n)) -> 0 <= x /\ x <= 1.
  Hypothesis Hsize : (List.length E < class_fuel)%nat.

  Lemma inner_ok asc D : incl D (seq 0 n) ->
    exists C, @next_class NumQc class_fuel m f asc (@max_cred NumQc m D) D = Ok C.
  Proof.
    intros Hin.
    assert (incl (@entries NumQc m D) E) as HinE.
    { intros x Hx. apply nodup_In. revert x Hx. now apply entries_incl. }
    apply next_class_ok_core with (E := E).
    - exact Hdist.
    - intros x Hx. apply nodup_In in Hx. now apply Hent.
    - exact HinE.
    - destruct (max_cred_spec m D) as [-> | Hm]; [split; qc2q; lra|].
      apply Hent. apply HinE in Hm. now apply nodup_In in Hm.
    - eapply Nat.le_lt_trans; [apply filter_len_le|exact Hsize].
  Qed.

  Theorem rank_total : n <> 0%nat ->
    (exists a, @rank_ascending NumQc m f = Ok a) /\ (exists d, @rank_descending NumQc m f = Ok d).
  Proof.
    intros Hn. unfold rank_ascending, rank_descending.
    change (@List.length (list (@Base.Num.num NumQc)) m) with n.
    destruct (Nat.eqb_spec n 0) as [?|_]; [contradiction|].
    split.
    - destruct (@distill_ok NumQc m f true (seq 0 n) (fun D H _ => inner_ok true D H) (S n) (seq 0 n) 1%Z) as [a ->].
      + apply incl_refl.
      + rewrite seq_length. lia.
      + cbn [bind]. now eexists.
    - destruct (@distill_ok NumQc m f false (seq 0 n) (fun D H _ => inner_ok false D H) (S n) (seq 0 n) 1%Z) as [a ->].
      + apply incl_refl.
      + rewrite seq_length. lia.
      + cbn [bind]. now eexists.
  Qed.
End Total.

(** ** counterexample for a distillation function that is negative on part of [0,1]:
    s(x) = 0.1 - 0.2 x is negative for x > 0.5; with the matrix [[0,1],[1,0]] the cut level stays
    at 1 and the class stays {0,1} for ever (the real program recurses until the stack overflows). *)
Definition cx_dist : @linfun NumQc := {| lf_a := Q2Qc (-1 # 5); lf_b := Q2Qc (1 # 10) |}.
Definition cx_matrix : list (list Qc) := [[0; 1]; [1; 0]].

Example negative_distillation_diverges :
  @next_class NumQc 50 cx_matrix cx_dist true 1 [0%nat; 1%nat] = Err EOutOfFuel /\
  @min_cred NumQc cx_matrix cx_dist 1 [0%nat; 1%nat] = 1 /\
  @best_set NumQc cx_matrix cx_dist 1 true [0%nat; 1%nat] = [0%nat; 1%nat] /\
  @rank_ascending NumQc cx_matrix cx_dist = Err EOutOfFuel /\
  @rank_descending NumQc cx_matrix cx_dist = Err EOutOfFuel.
Proof.
  repeat split; vm_compute; reflexivity.
Qed.

(** ** end to end: on validated constant thresholds, a non-negative distillation function and at
    most 70 alternatives, [electre_evaluate] fails only if the credibility matrix does (missing
    values / thresholds); in particular it never reports [EOutOfFuel] *)
Lemma nth_opt_in {A} (l : list A) : forall n x, nth_opt n l = Some x -> In x l.
Proof.
  induction l as [|y r IH]; intros [|n] x H; cbn [nth_opt] in H; try discriminate.
  - inversion H. now left.
  - right. eapply IH. exact H.
Qed.

Lemma entries_length (m : list (list Qc)) D :
  List.length (@entries NumQc m D) = (List.length D * List.length D)%nat.
Proof.
  unfold entries.
  assert (forall D' : list nat,
            List.length (flat_map (fun i => map (fun j => @sig NumQc m i j) D) D')
            = (List.length D' * List.length D)%nat) as H.
  { induction D' as [|i r IH]; cbn [flat_map List.length]; [reflexivity|].
    rewrite app_length, map_length, IH. lia. }
  apply H.
Qed.

Lemma cred_matrix_unit (alts : list (@alt NumQc)) cs ecs (m : list (list Qc)) :
  (forall c ths, In c cs -> mget (c_id c) ecs = Some ths ->
                 const_thresholds ths /\ validate_ecrit ths = Ok tt) ->
  @cred_matrix NumQc alts cs ecs = Ok m -> forall i j, in_unit (@sig NumQc m i j).
Proof.
  intros Hth H i j. unfold cred_matrix in H.
  assert (Forall (Forall in_unit) m) as HF.
  { eapply mapM_Forall; [|exact H]. intros ia row _ Hrow. cbv beta in Hrow.
    eapply mapM_Forall; [|exact Hrow]. intros jb x _ Hx. cbv beta in Hx.
    destruct (Nat.eqb (fst ia) (fst jb)).
    - inversion Hx. apply in_unit_0.
    - eapply credibility_in_unit; eassumption. }
  unfold sig. change (@Base.Num.num NumQc) with Qc.
  destruct (nth_opt i m) as [row|] eqn:Er; [|apply in_unit_0].
  destruct (nth_opt j row) as [x|] eqn:Ex; [|apply in_unit_0].
  apply nth_opt_in in Er, Ex. rewrite Forall_forall in HF. specialize (HF row Er).
  rewrite Forall_forall in HF. now apply HF.
Qed.

Theorem electre_evaluate_total : forall (s : @state NumQc) ecs f m,
  st_params s = PElectre ecs f ->
  st_cons s <> [] ->
  (List.length (st_cons s) * List.length (st_cons s) < class_fuel)%nat ->
  (forall c ths, In c (st_crits s) -> mget (c_id c) ecs = Some ths ->
                 const_thresholds ths /\ validate_ecrit ths = Ok tt) ->
  (forall x, 0 <= x /\ x <= 1 -> 0 <= @dist_value NumQc f x) ->
  @cred_matrix NumQc (st_cons s) (st_crits s) ecs = Ok m ->
  exists r, @electre_evaluate NumQc s = Ok r.
Proof.
  intros s ecs f m Ep Hne Hsz Hth Hdist Em.
  pose proof (@cred_matrix_length NumQc _ _ _ _ Em) as Lm.
  change (@Base.Num.num NumQc) with Qc in *.
  assert (List.length m <> 0%nat) as Hn.
  { rewrite Lm. destruct (st_cons s); [congruence|discriminate]. }
  destruct (rank_total m f Hdist) as [[a Ea] [d Ed]].
  - intros x Hx. apply entries_in in Hx as (i & j & _ & _ & ->).
    eapply cred_matrix_unit; eassumption.
  - eapply Nat.le_lt_trans; [apply nodup_len_le|].
    rewrite entries_length, seq_length, Lm. exact Hsz.
  - exact Hn.
  - unfold electre_evaluate. rewrite Ep, Em. cbn [bind]. rewrite Ea. cbn [bind]. rewrite Ed. cbn [bind].
    now eexists.
Qed.
