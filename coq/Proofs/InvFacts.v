(** * C07: every bias keeps the working data coherent ([inv] of Check/Stage.v), frame conditions.

    Main results (all for any carrier [N : Num]; the frame conditions need [OrdLaws] for [nsame x x]):
    - [order_criteria_perm]: every ordering returns a permutation of the current criteria;
    - [removed_cover] / [added_cover]: the listeners keep [params_cover];
    - [omission_inv], [reversal_inv], [fatigue_inv]: [inv] is preserved, no side condition;
    - [concealment_inv], [mixing_inv], [anchoring_inv], [apply_bias_inv], [process_biases_inv]:
      [inv] is preserved under the extra hypothesis [sync] (itself preserved); without it the
      statements are false, see [Counterexamples];
    - [prepare_inv_holds] (weightedSum, owa, choquetIntegral, electreIII), [prepare_inv_if_cover],
      [prepare_sync], [biased_state_inv];
    - [apply_bias_frame] (needs pairwise distinct ids of the alternatives for the biases that add a
      criterion, see [Counterexamples.cex_frame_duplicate_ids]), [apply_bias_frame_basic],
      [apply_bias_ids], [process_biases_ids]. *)
From Coq Require Import ZArith Bool List String Permutation Lia.
From RDM Require Import Base.Num Base.Util Model.Data Model.Rank Model.Utility Model.Levels Model.Heuristics
  Model.Electre Model.Listeners Model.Biases Model.Anchoring Model.Pipeline Check.Stage
  Proofs.SortFacts Proofs.WfFacts Proofs.LevelFacts.
Import ListNotations.
Local Open Scope string_scope.
Local Open Scope list_scope.

(** ** 0. Tactics *)
(* invert one [do x <- r; k] in hypothesis H *)
Ltac binv H :=
  match type of H with
  | bind ?r _ = Ok _ =>
      let x := fresh "x" in let E := fresh "E" in
      destruct r as [x|] eqn:E; cbn [bind] in H; [|discriminate H]
  end.
Ltac ifinv H :=
  match type of H with
  | (if ?b then _ else _) = Ok _ =>
      let E := fresh "E" in destruct b eqn:E; [try discriminate H|try discriminate H]
  end.

(** ** 1. Generic facts: lists, results, maps *)
Lemma mapM_In {A B} (f : A -> res B) : forall l l', mapM f l = Ok l' ->
  forall x, In x l -> exists y, In y l' /\ f x = Ok y.
Proof.
  intros l l' H. apply mapM_Forall2 in H.
  induction H as [|a b l l' H1 _ IH]; intros x Hx; [contradiction|].
  destruct Hx as [<-|Hx].
  - exists b. split; [now left|exact H1].
  - destruct (IH x Hx) as (y & Hy & E). exists y. split; [now right|exact E].
Qed.

Lemma mapM_In_inv {A B} (f : A -> res B) : forall l l', mapM f l = Ok l' ->
  forall y, In y l' -> exists x, In x l /\ f x = Ok y.
Proof.
  intros l l' H. apply mapM_Forall2 in H.
  induction H as [|a b l l' H1 _ IH]; intros y Hy; [contradiction|].
  destruct Hy as [<-|Hy].
  - exists a. split; [now left|exact H1].
  - destruct (IH y Hy) as (x & Hx & E). exists x. split; [now right|exact E].
Qed.

Lemma mapM_map {A B C} (f : A -> res B) (g : A -> C) (h : B -> C) :
  (forall x y, f x = Ok y -> h y = g x) ->
  forall l l', mapM f l = Ok l' -> map h l' = map g l.
Proof.
  intros Hf l l' H. apply mapM_Forall2 in H.
  induction H as [|a b l l' H1 _ IH]; cbn [map]; [reflexivity|].
  now rewrite (Hf _ _ H1), IH.
Qed.

Section MapMore.
  Context {A : Type}.

  Lemma mhas_mset_same k (v : A) m : mhas k (mset k v m) = true.
  Proof. unfold mhas. now rewrite mget_mset_same. Qed.

  Lemma mhas_mset_mono k k' (v : A) m : mhas k m = true -> mhas k (mset k' v m) = true.
  Proof.
    unfold mhas. destruct (string_dec k k') as [->|NE].
    - now rewrite mget_mset_same.
    - now rewrite mget_mset_other by exact NE.
  Qed.

  Lemma mhas_mset_iff k k' (v : A) m : mhas k (mset k' v m) = true <-> k = k' \/ mhas k m = true.
  Proof.
    split.
    - unfold mhas. destruct (string_dec k k') as [->|NE]; [now left|].
      rewrite mget_mset_other by exact NE. now right.
    - intros [->|H]; [apply mhas_mset_same|now apply mhas_mset_mono].
  Qed.

  (* a fold whose every step only adds keys, and adds the key of its element *)
  Lemma fold_keys {B} (key : B -> string) (step : smap A -> B -> res (smap A)) :
    (forall m x m', step m x = Ok m' ->
       (forall k, mhas k m = true -> mhas k m' = true) /\ mhas (key x) m' = true) ->
    forall l m0 m', fold_left (fun acc x => do m <- acc; step m x) l (Ok m0) = Ok m' ->
      (forall k, mhas k m0 = true -> mhas k m' = true) /\ (forall x, In x l -> mhas (key x) m' = true).
  Proof.
    intros Hstep l m0 m' H.
    apply (fold_res_ind step
             (fun m done => (forall k, mhas k m0 = true -> mhas k m = true) /\
                            (forall x, In x done -> mhas (key x) m = true))) with (done := []) in H.
    - exact H.
    - intros s x s' done [I1 I2] E. destruct (Hstep _ _ _ E) as [S1 S2]. split.
      + intros k Hk. apply S1, I1, Hk.
      + intros y Hy. apply in_app_or in Hy as [Hy|[<-|[]]]; [apply S1, I2, Hy|exact S2].
    - split; [auto|intros x []].
  Qed.
End MapMore.

Lemma forallb_incl {A} (f : A -> bool) l1 l2 : incl l1 l2 -> forallb f l2 = true -> forallb f l1 = true.
Proof. rewrite !forallb_forall. intros I H x Hx. apply H, I, Hx. Qed.

Lemma skipn_incl {A} n (l : list A) : incl (skipn n l) l.
Proof. intros x Hx. rewrite <- (firstn_skipn n l). apply in_or_app. now right. Qed.

Lemma NoDup_skipn {A} n (l : list A) : NoDup l -> NoDup (skipn n l).
Proof. intros H. rewrite <- (firstn_skipn n l) in H. now apply NoDup_app_r in H. Qed.

Lemma NoDup_snoc {A} (l : list A) x : NoDup l -> ~ In x l -> NoDup (l ++ [x]).
Proof.
  intros D NI. apply (Permutation_NoDup (l := x :: l)); [apply Permutation_cons_append|now constructor].
Qed.

Lemma Forall2_imp {A B} (R S : A -> B -> Prop) l l' :
  (forall x y, R x y -> S x y) -> Forall2 R l l' -> Forall2 S l l'.
Proof. intros H. induction 1; constructor; auto. Qed.

Lemma skipn_map {A B} (f : A -> B) n l : skipn n (map f l) = map f (skipn n l).
Proof. revert l. induction n as [|n IH]; intros [|x l]; cbn [skipn map]; auto. Qed.

(** ** 2. The orderings return a permutation of the current criteria *)
Section Ordering.
  Context {N : Num}.

  Lemma zip_with_weights_fst cs w wc : zip_with_weights cs w = Ok wc -> map fst wc = cs.
  Proof.
    unfold zip_with_weights. intros H. rewrite <- (map_id cs).
    eapply mapM_map; [|exact H]. intros c y E. cbn beta in E. binv E. now injection E as <-.
  Qed.

  Lemma sort_by_weights_perm cs w l : sort_by_weights cs w = Ok l -> Permutation (map fst l) cs.
  Proof.
    unfold sort_by_weights. intros H. binv H. injection H as <-.
    apply zip_with_weights_fst in E. rewrite <- E. apply Permutation_map, isort_perm.
  Qed.

  Lemma rank_criteria_perm s l : rank_criteria s = Ok l -> Permutation (map fst l) (st_crits s).
  Proof.
    unfold rank_criteria. intros H.
    destruct (st_params s); try (binv H); eapply sort_by_weights_perm; exact H.
  Qed.

  Lemma nth_opt_split {A} : forall i (l : list A) c, nth_opt i l = Some c ->
    Permutation l (c :: remove_nth i l) /\ List.length l = S (List.length (remove_nth i l)).
  Proof.
    induction i as [|i IH]; intros [|x l] c H; cbn [nth_opt] in H; try discriminate.
    - injection H as ->. cbn [remove_nth]. split; reflexivity.
    - cbn [remove_nth]. destruct (IH _ _ H) as [P Ln]. split.
      + rewrite perm_swap. now constructor.
      + cbn [List.length]. now rewrite Ln.
  Qed.

  Lemma nth_opt_last {A} : forall (l : list A) k c, List.length l = S k -> nth_opt k l = Some c ->
    l = removelast l ++ [c].
  Proof.
    induction l as [|x l IH]; intros k c Ln H; [discriminate|].
    destruct l as [|y l].
    - cbn [List.length] in Ln. injection Ln as <-. cbn [nth_opt] in H. injection H as ->. reflexivity.
    - destruct k as [|k]; [discriminate|]. cbn [nth_opt] in H.
      change (removelast (x :: y :: l)) with (x :: removelast (y :: l)). cbn [app]. f_equal.
      apply (IH k); [cbn [List.length] in Ln |- *; lia|exact H].
  Qed.

  Lemma wbp_loop_perm : forall fuel n pos sorted total g acc l,
    List.length sorted = fuel -> (n - pos)%nat = fuel ->
    wbp_loop fuel n pos sorted total g acc = Ok l -> Permutation l (acc ++ map fst sorted).
  Proof.
    induction fuel as [|f IH]; intros n pos sorted total g acc l Ln Np H; cbn [wbp_loop] in H.
    - injection H as <-. destruct sorted; [|discriminate]. now rewrite app_nil_r.
    - binv H.
      destruct (pick_weighted sorted nzero (nmul (fst x) total) 0) as [i|].
      + destruct (nth_opt i sorted) as [c|] eqn:Ei; [|discriminate].
        destruct (nth_opt_split _ _ _ Ei) as [P Ls].
        apply IH in H; [|lia|lia]. rewrite H, <- app_assoc. apply Permutation_app_head.
        cbn [app]. symmetry. exact (Permutation_map fst P).
      + destruct (nth_opt (n - pos - 1) sorted) as [c|] eqn:Ei; [|discriminate].
        assert (Hl : sorted = removelast sorted ++ [c]).
        { apply (nth_opt_last sorted (n - pos - 1)); [lia|exact Ei]. }
        apply IH in H; [| |lia].
        * rewrite H, <- app_assoc. apply Permutation_app_head. rewrite Hl at 2.
          rewrite map_app. cbn [map app]. apply Permutation_cons_append.
        * rewrite Hl in Ln. rewrite app_length in Ln. cbn [List.length] in Ln. lia.
  Qed.

  Lemma weakest_by_probability_perm e s seed l :
    weakest_by_probability e s seed = Ok l -> Permutation l (st_crits s).
  Proof.
    unfold weakest_by_probability. intros H. binv H. apply rank_criteria_perm in E.
    destruct x as [|first rest].
    - injection H as <-. exact E.
    - apply wbp_loop_perm in H; [|now rewrite map_length|lia].
      rewrite H. cbn [app]. rewrite map_map. cbn [fst]. exact E.
  Qed.

  Theorem order_criteria_perm e s p l : order_criteria e s p = Ok l -> Permutation l (st_crits s).
  Proof.
    unfold order_criteria. intros H.
    destruct (_ || _).
    { binv H. injection H as <-. now apply rank_criteria_perm. }
    destruct (String.eqb (bp_ordering p) o_strongest).
    { binv H. injection H as <-. rewrite <- Permutation_rev. now apply rank_criteria_perm. }
    destruct (String.eqb (bp_ordering p) o_random).
    { binv H. injection H as <-. destruct x as [l' g']. eapply shuffle_perm. exact E. }
    destruct (String.eqb (bp_ordering p) o_weakest_prob).
    { now apply weakest_by_probability_perm in H. }
    destruct (String.eqb (bp_ordering p) o_strongest_prob); [|discriminate].
    binv H. injection H as <-. rewrite <- Permutation_rev. now apply weakest_by_probability_perm in E.
  Qed.
End Ordering.

(** ** 3. The listeners: parameters after a removal / an addition cover the new criteria *)
Section Params.
  Context {N : Num}.

  Definition covers {A} (m : smap A) (cs : list crit) : bool := forallb (fun c => mhas (c_id c) m) cs.

  Lemma covers_mset {A} k (v : A) m cs : covers m cs = true -> covers (mset k v m) cs = true.
  Proof.
    unfold covers. rewrite !forallb_forall. intros H c Hc. apply mhas_mset_mono, H, Hc.
  Qed.

  Lemma covers_app {A} (m : smap A) cs c : covers m (cs ++ [c]) = covers m cs && mhas (c_id c) m.
  Proof. unfold covers. rewrite forallb_app. cbn [forallb]. now rewrite andb_true_r. Qed.

  Lemma covers_added {A} (v : A) m cs c : covers m cs = true -> covers (mset (c_id c) v m) (cs ++ [c]) = true.
  Proof. intros H. rewrite covers_app, covers_mset by exact H. apply mhas_mset_same. Qed.

  Lemma covers_of_keys {A} (m : smap A) cs : (forall c, In c cs -> mhas (c_id c) m = true) -> covers m cs = true.
  Proof. intros H. unfold covers. now apply forallb_forall. Qed.

  Lemma find_wc_spec id wc x : find_wc id wc = Ok x -> In x wc /\ c_id (fst x) = id.
  Proof.
    induction wc as [|y r IH]; cbn [find_wc]; [discriminate|].
    destruct (String.eqb (c_id (fst y)) id) eqn:E.
    - intros H. injection H as <-. split; [now left|now apply String.eqb_eq].
    - intros H. destruct (IH H). split; [now right|assumption].
  Qed.

  Lemma preserve_only_keys w left m : preserve_only w left = Ok m -> covers m left = true.
  Proof.
    unfold preserve_only. intros H. apply covers_of_keys.
    eapply (fold_keys (fun c : crit => c_id c)) in H; [exact (proj2 H)|].
    intros m0 c m' E. cbn beta in E. binv E. injection E as <-. split.
    - intros k. apply mhas_mset_mono.
    - apply mhas_mset_same.
  Qed.

  Lemma levels_removed_cover d fn lp left lp' cs :
    levels_removed d fn lp left = Ok lp' -> incl left cs ->
    forallb (fun t => covers_weights t cs) (lp_ths lp) = true ->
    forallb (fun t => covers_weights t left) (lp_ths lp') = true.
  Proof.
    unfold levels_removed. intros H I C.
    destruct (negb (known_level_source d fn)); [discriminate|].
    destruct (String.eqb fn lv_thresholds).
    - binv H. injection H as <-. cbn [lp_ths]. apply forallb_forall. intros t Ht.
      destruct (mapM_In_inv _ _ _ E _ Ht) as (t0 & _ & P). now apply preserve_only_keys in P.
    - injection H as <-. rewrite forallb_forall in *. intros t Ht.
      eapply forallb_incl; [exact I|]. apply C, Ht.
  Qed.

  Theorem removed_cover left p p' cs :
    on_criteria_removed left p = Ok p' -> incl left cs -> params_cover p cs = true ->
    params_cover p' left = true.
  Proof.
    intros H I C. destruct p; cbn [on_criteria_removed] in H.
    - binv H. injection H as <-. cbn [params_cover]. apply andb_true_iff. split.
      + apply Nat.eqb_eq. eapply mapM_length. exact E.
      + apply forallb_forall. intros c Hc. destruct (mapM_In _ _ _ E _ Hc) as (y & Hy & F).
        apply find_wc_spec in F. apply existsb_exists. exists y. split; [exact Hy|].
        apply String.eqb_eq, (proj2 F).
    - binv H. injection H as <-. cbn [params_cover]. apply andb_true_iff. split.
      + apply Nat.eqb_eq. eapply mapM_length. exact E.
      + apply forallb_forall. intros c Hc. destruct (mapM_In _ _ _ E _ Hc) as (y & Hy & F).
        apply find_wc_spec in F. apply existsb_exists. exists y. split; [exact Hy|].
        apply String.eqb_eq, (proj2 F).
    - binv H. injection H as <-. cbn [params_cover]. apply forallb_forall.
      eapply (fold_keys (fun s : list string => criterion_key s)) in E; [exact (proj2 E)|].
      intros m0 s m' F. cbn beta in F. binv F. injection F as <-. split.
      + intros k. apply mhas_mset_mono.
      + apply mhas_mset_same.
    - binv H. injection H as <-. cbn [params_cover]. apply forallb_forall.
      eapply (fold_keys (fun c : crit => c_id c)) in E; [exact (proj2 E)|].
      intros m0 s m' F. cbn beta in F. binv F. injection F as <-. split.
      + intros k. apply mhas_mset_mono.
      + apply mhas_mset_same.
    - binv H. injection H as <-. cbn [params_cover]. now apply preserve_only_keys in E.
    - binv H. binv H. injection H as <-. cbn [params_cover] in *.
      apply andb_true_iff in C as [C1 C2]. apply andb_true_iff. split.
      + now apply preserve_only_keys in E0.
      + eapply levels_removed_cover; eassumption.
    - binv H. injection H as <-. cbn [params_cover] in *. eapply levels_removed_cover; eassumption.
  Qed.

  (** what the additions need beyond [inv]: the criteria list kept inside the Choquet parameters
      follows the criteria of the state, and thresholds are only carried by the thresholds source *)
  Definition params_sync (p : mparams) (cs : list crit) : Prop :=
    match p with
    | PChoquet _ cs' => map c_id cs' = map c_id cs
    | PAspect fn lp _ _ _ | PSatisf fn lp _ _ _ => fn = lv_thresholds \/ lp_ths lp = []
    | _ => True
    end.

  Lemma levels_removed_sync d fn lp left lp' :
    levels_removed d fn lp left = Ok lp' -> fn = lv_thresholds \/ lp_ths lp = [] ->
    fn = lv_thresholds \/ lp_ths lp' = [].
  Proof.
    unfold levels_removed. intros H S.
    destruct (negb (known_level_source d fn)); [discriminate|].
    destruct (String.eqb fn lv_thresholds) eqn:E.
    - left. now apply String.eqb_eq.
    - now injection H as <-.
  Qed.

  Lemma removed_sync left p p' cs :
    on_criteria_removed left p = Ok p' -> params_sync p cs -> params_sync p' left.
  Proof.
    intros H S. destruct p; cbn [on_criteria_removed] in H.
    - binv H. now injection H as <-.
    - binv H. now injection H as <-.
    - binv H. now injection H as <-.
    - binv H. now injection H as <-.
    - binv H. now injection H as <-.
    - binv H. binv H. injection H as <-. cbn [params_sync] in *. eapply levels_removed_sync; eassumption.
    - binv H. injection H as <-. cbn [params_sync] in *. eapply levels_removed_sync; eassumption.
  Qed.

  (** *** additions *)
  Lemma merge_map_single w k v w' : merge_map w [(k, v)] = Ok w' -> w' = mset k v w.
  Proof.
    unfold merge_map. cbn [fold_left bind fst snd]. destruct (mhas k w); [discriminate|].
    intros H. now injection H.
  Qed.

  Lemma mhas_In_key {A} k (m : smap A) : mhas k m = true -> exists v, In (k, v) m.
  Proof.
    unfold mhas. destruct (mget k m) as [v|] eqn:E; [intros _|discriminate].
    assert (I : In k (mkeys m)) by (apply mkeys_in_iff; eauto).
    unfold mkeys in I. apply in_map_iff in I as ([k' v'] & E1 & I). cbn [fst] in E1. subst k'. eauto.
  Qed.

  Lemma merge_map_keys add w w' : merge_map w add = Ok w' ->
    (forall k, mhas k w = true -> mhas k w' = true) /\ (forall k, mhas k add = true -> mhas k w' = true).
  Proof.
    unfold merge_map. intros H.
    eapply (fold_keys (fun kv : string * num => fst kv)) in H.
    - destruct H as [H1 H2]. split; [exact H1|]. intros k Hk. apply mhas_In_key in Hk as (v & I).
      exact (H2 _ I).
    - intros m0 kv m' F. cbn beta in F. destruct (mhas (fst kv) m0); [discriminate|]. injection F as <-. split.
      + intros k. apply mhas_mset_mono.
      + apply mhas_mset_same.
  Qed.

  (* power set *)
  Lemma power_set_all_sub : forall l s, In s (power_set_all l) -> incl s l /\ (NoDup l -> NoDup s).
  Proof.
    induction l as [|x r IH]; intros s H; cbn [power_set_all] in H.
    - destruct H as [<-|[]]. split; [intros y []|auto].
    - apply in_flat_map in H as (t & Ht & Hs). destruct (IH _ Ht) as [I ND].
      destruct Hs as [<-|[<-|[]]].
      + split; [intros y Hy; right; now apply I|]. intros D. inversion D; auto.
      + split.
        * intros y [<-|Hy]; [now left|right; now apply I].
        * intros D. inversion D as [|? ? Hn Hr]; subst. constructor; [|auto]. intros Hx. apply Hn, I, Hx.
  Qed.

  Lemma power_set_In l s : In s (power_set l) <-> In s (power_set_all l) /\ s <> [].
  Proof.
    unfold power_set. rewrite filter_In. split; intros [A B]; (split; [exact A|]).
    - intros ->. discriminate.
    - destruct s; [congruence|reflexivity].
  Qed.

  Lemma filter_nil_all {A} (f : A -> bool) l : filter f l = [] -> forall x, In x l -> f x = false.
  Proof.
    induction l as [|y r IH]; cbn [filter]; intros H x Hx; [contradiction|].
    destruct (f y) eqn:E; [discriminate|]. destruct Hx as [<-|Hx]; auto.
  Qed.

  Lemma criterion_key_single x : criterion_key [x] = x.
  Proof. reflexivity. Qed.

  Lemma power_set_only_new l x s :
    NoDup (l ++ [x]) -> In s (power_set (l ++ [x])) ->
    filter (fun y => negb (String.eqb y x)) s = [] -> criterion_key s = x.
  Proof.
    intros D Hs F. apply power_set_In in Hs as [Hs NE].
    destruct (power_set_all_sub _ _ Hs) as [_ ND]. specialize (ND D).
    pose proof (filter_nil_all _ _ F) as Hall.
    assert (Hx : forall y, In y s -> y = x).
    { intros y Hy. specialize (Hall y Hy). apply negb_false_iff in Hall. now apply String.eqb_eq. }
    destruct s as [|a [|b t]]; [congruence| |].
    - rewrite (Hx a) by now left. apply criterion_key_single.
    - exfalso. inversion ND as [|? ? Hn _]; subst. apply Hn.
      rewrite (Hx a) by now left. rewrite <- (Hx b) by (right; now left). now left.
  Qed.

  Definition ch_step (c : crit) (w : smap num) (mg : smap num * rng) (s : list string) : res (smap num * rng) :=
    let key := criterion_key s in
    if mhas key w then Ok mg else
    let without := filter (fun x => negb (String.eqb x (c_id c))) s in
    match without with
    | [] => do dg <- draw (snd mg); Ok (mset (c_id c) (fst dg) (fst mg), snd dg)
    | _ => do v <- union_weight without w; Ok (mset key v (fst mg), snd mg)
    end.

  Lemma ch_fold_keys c w : forall l mg0 mg,
    fold_left (fun acc s => do m <- acc; ch_step c w m s) l (Ok mg0) = Ok mg ->
    (forall s, In s l -> filter (fun x => negb (String.eqb x (c_id c))) s = [] -> criterion_key s = c_id c) ->
    (forall k, mhas k (fst mg0) = true -> mhas k (fst mg) = true) /\
    (forall s, In s l -> mhas (criterion_key s) w = true \/ mhas (criterion_key s) (fst mg) = true).
  Proof.
    induction l as [|s r IH]; intros mg0 mg H Hs; cbn [fold_left bind] in H.
    - injection H as <-. split; [auto|intros s []].
    - destruct (ch_step c w mg0 s) as [mg1|e] eqn:E; [|rewrite fold_res_err in H; discriminate].
      destruct (IH _ _ H) as [M K]; [intros s' Hs'; apply Hs; now right|].
      assert (S1 : (forall k, mhas k (fst mg0) = true -> mhas k (fst mg1) = true) /\
                   (mhas (criterion_key s) w = true \/ mhas (criterion_key s) (fst mg1) = true)).
      { unfold ch_step in E. destruct (mhas (criterion_key s) w) eqn:Hw.
        - injection E as <-. split; auto.
        - destruct (filter (fun x => negb (String.eqb x (c_id c))) s) as [|y t] eqn:F.
          + binv E. injection E as <-. cbn [fst]. split; [intros k; apply mhas_mset_mono|].
            right. rewrite (Hs s (or_introl eq_refl) F). apply mhas_mset_same.
          + binv E. injection E as <-. cbn [fst]. split; [intros k; apply mhas_mset_mono|].
            right. apply mhas_mset_same. }
      destruct S1 as [S1 S2]. split.
      + intros k Hk. apply M, S1, Hk.
      + intros s' [<-|Hs']; [|now apply K]. destruct S2 as [S2|S2]; [now left|right; now apply M].
  Qed.

  Lemma in_zip_l {A B} : forall (l1 : list A) (l2 : list B) x y, In (x, y) (zip l1 l2) -> In x l1.
  Proof.
    induction l1 as [|a r IH]; intros [|b s] x y H; cbn [zip] in H; try contradiction.
    destruct H as [H|H]; [injection H as -> _; now left|right; eapply IH; exact H].
  Qed.

  Lemma levels_merge_cover d fn lp c ths lp' cs :
    levels_merge d fn lp (c_id c) ths = Ok lp' ->
    fn = lv_thresholds \/ lp_ths lp = [] ->
    forallb (fun t => covers_weights t cs) (lp_ths lp) = true ->
    forallb (fun t => covers_weights t (cs ++ [c])) (lp_ths lp') = true /\ (fn = lv_thresholds \/ lp_ths lp' = []).
  Proof.
    unfold levels_merge. intros H S C.
    destruct (negb (known_level_source d fn)); [discriminate|].
    destruct (String.eqb fn lv_thresholds) eqn:F.
    - apply String.eqb_eq in F. split; [|now left].
      destruct ths as [vs|]; [|discriminate].
      destruct (negb (Nat.eqb (List.length vs) (List.length (lp_ths lp)))); [discriminate|].
      binv H. injection H as <-. cbn [lp_ths]. apply forallb_forall. intros t Ht.
      destruct (mapM_In_inv _ _ _ E _ Ht) as ([t0 v] & I & P). cbn [fst snd] in P.
      apply merge_map_single in P. subst t. apply in_zip_l in I.
      rewrite forallb_forall in C. apply (covers_added (A := num)). apply C, I.
    - injection H as <-. destruct S as [->|S]; [discriminate|]. rewrite S. split; [reflexivity|now right].
  Qed.

  Theorem added_cover c ref p g a g' p' cs :
    params_cover p cs = true -> params_sync p cs ->
    NoDup (map c_id cs) -> ~ In (c_id c) (map c_id cs) ->
    on_criterion_added c ref p g = Ok (a, g') -> merge p a = Ok p' ->
    params_cover p' (cs ++ [c]) = true /\ params_sync p' (cs ++ [c]).
  Proof.
    intros C S D NI H M. destruct p; cbn [on_criterion_added] in H.
    - (* weighted sum *)
      binv H. binv H. injection H as <- _. cbn [merge] in M. injection M as <-. split; [|exact I].
      cbn [params_cover] in *. apply andb_true_iff in C as [C1 C2]. apply Nat.eqb_eq in C1.
      apply andb_true_iff. split.
      + apply Nat.eqb_eq. rewrite !app_length, C1. reflexivity.
      + rewrite forallb_app. apply andb_true_iff. split.
        * rewrite forallb_forall in *. intros c0 Hc. rewrite existsb_app. apply orb_true_iff. left. apply C2, Hc.
        * cbn [forallb]. rewrite existsb_app. cbn [existsb fst]. rewrite String.eqb_refl.
          now rewrite orb_true_r.
    - (* owa *)
      binv H. binv H. injection H as <- _. cbn [merge] in M.
      match type of M with (if ?b then _ else _) = _ => destruct b end; [discriminate|].
      injection M as <-. split; [|exact I].
      cbn [params_cover] in *. apply andb_true_iff in C as [C1 C2]. apply Nat.eqb_eq in C1.
      apply andb_true_iff. split.
      + apply Nat.eqb_eq. rewrite isort_length, !app_length, C1. reflexivity.
      + assert (EX : forall c0 l, existsb (fun x : wcrit => String.eqb (c_id (fst x)) (c_id c0)) (isort wc_lt l)
                                  = existsb (fun x : wcrit => String.eqb (c_id (fst x)) (c_id c0)) l).
        { intros c0 l. apply eq_true_iff_eq. rewrite !existsb_exists.
          split; intros (y & Hy & Q); exists y; (split; [|exact Q]); now apply (isort_in wc_lt). }
        rewrite forallb_app. apply andb_true_iff. split.
        * rewrite forallb_forall in *. intros c0 Hc. rewrite EX, existsb_app. apply orb_true_iff. left. apply C2, Hc.
        * cbn [forallb]. rewrite EX, existsb_app. cbn [existsb fst c_id]. rewrite String.eqb_refl.
          now rewrite orb_true_r.
    - (* choquet *)
      destruct (mem_str (c_id c) (map c_id cs0)) eqn:Mem; [discriminate|].
      binv H. injection H as <- _. cbn [merge] in M. binv M. injection M as <-.
      cbn [params_sync] in S. split; [|cbn [params_sync]; now rewrite !map_app, S].
      cbn [params_cover]. rewrite map_app, <- S. cbn [map].
      apply merge_map_keys in E0 as [K1 K2].
      change (fold_left _ (power_set (map c_id cs0 ++ [c_id c])) (Ok ([], g)))
        with (fold_left (fun acc s => do m <- acc; ch_step c w m s) (power_set (map c_id cs0 ++ [c_id c])) (Ok ([], g))) in E.
      apply ch_fold_keys in E.
      + destruct E as [_ E]. apply forallb_forall. intros s Hs.
        destruct (E s Hs) as [Q|Q]; [now apply K1|now apply K2].
      + intros s Hs F. eapply power_set_only_new; [|exact Hs|exact F].
        rewrite S. apply NoDup_snoc; assumption.
    - (* electre *)
      binv H. injection H as <- _. cbn [merge] in M. destruct (mhas (c_id c) ec); [discriminate|].
      injection M as <-. split; [|exact I]. cbn [params_cover] in *. now apply (covers_added (A := ecrit)).
    - (* majority *)
      binv H. injection H as <- _. cbn [merge] in M. binv M. injection M as <-. split; [|exact I].
      apply merge_map_single in E0. subst. cbn [params_cover] in *. now apply (covers_added (A := num)).
    - (* aspect elimination *)
      binv H. binv H. injection H as <- _. cbn [merge] in M. binv M. binv M. injection M as <-.
      apply merge_map_single in E2. subst. cbn [params_cover params_sync] in *.
      apply andb_true_iff in C as [C1 C2].
      destruct (levels_merge_cover _ _ _ _ _ _ _ E1 S C2) as [L1 L2]. split; [|exact L2].
      apply andb_true_iff. split; [|exact L1]. now apply (covers_added (A := num)).
    - (* satisfaction *)
      binv H. injection H as <- _. cbn [merge] in M. binv M. injection M as <-.
      cbn [params_cover params_sync] in *.
      exact (levels_merge_cover _ _ _ _ _ _ _ E0 S C).
  Qed.
End Params.

(** ** 4. Every bias preserves [inv] *)
Section BiasInv.
  Context {N : Num}.

  Definition alts_cover (alts : list alt) (cs : list crit) : Prop :=
    forall a, In a alts -> forall c, In c cs -> mhas (c_id c) (a_vals a) = true.
  (** the extra coherence the additions rely on (see [params_sync]) *)
  Definition sync (s : state) : Prop := params_sync (st_params s) (st_crits s).

  Lemma inv_iff s : inv s = true <->
    alts_cover (all_alts s) (st_crits s) /\ params_cover (st_params s) (st_crits s) = true /\
    NoDup (map c_id (st_crits s)).
  Proof.
    unfold inv, alts_cover. rewrite !andb_true_iff, nodup_str_NoDup, forallb_forall. split.
    - intros [[A B] C]. split; [|now split]. intros a Ha. specialize (A a Ha).
      rewrite forallb_forall in A. exact A.
    - intros [A [B C]]. split; [split|]; auto. intros a Ha. apply forallb_forall. now apply A.
  Qed.

  Lemma alts_cover_app l1 l2 cs : alts_cover (l1 ++ l2) cs <-> alts_cover l1 cs /\ alts_cover l2 cs.
  Proof.
    unfold alts_cover. split.
    - intros H. split; intros a Ha; apply H, in_or_app; auto.
    - intros [H1 H2] a Ha. apply in_app_or in Ha as [Ha|Ha]; auto.
  Qed.

  Lemma alts_cover_incl l l' cs : incl l l' -> alts_cover l' cs -> alts_cover l cs.
  Proof. intros I H a Ha. apply H, I, Ha. Qed.

  Lemma fetch_alt'_In l id a : fetch_alt' l id = Ok a -> In a l.
  Proof.
    induction l as [|b r IH]; cbn [fetch_alt']; [discriminate|].
    destruct (String.eqb (a_id b) id); [|intros H; right; now apply IH].
    intros H. injection H as <-. now left.
  Qed.

  Lemma update_alts_incl old new l : update_alts old new = Ok l -> incl l new.
  Proof.
    unfold update_alts. intros H y Hy. destruct (mapM_In_inv _ _ _ H _ Hy) as (x & _ & F).
    eapply fetch_alt'_In. exact F.
  Qed.

  Lemma update_alts_ids old new l : update_alts old new = Ok l -> map a_id l = map a_id old.
  Proof.
    unfold update_alts. apply mapM_map. intros x y F. now apply fetch_alt'_id in F.
  Qed.

  (* assemble [inv] of a new state *)
  Lemma inv_build consd nconsd crits params :
    alts_cover consd crits -> alts_cover nconsd crits -> params_cover params crits = true ->
    NoDup (map c_id crits) ->
    inv {| st_notcons := nconsd; st_cons := consd; st_crits := crits; st_params := params |} = true.
  Proof.
    intros A1 A2 P D. apply inv_iff. cbn [all_alts st_cons st_notcons st_crits st_params].
    split; [now apply alts_cover_app|now split].
  Qed.

  (** *** omission *)
  Lemma split_criteria_spec sorted p lft rgt :
    split_criteria sorted p = Ok (lft, rgt) -> exists k, lft = firstn k sorted /\ rgt = skipn k sorted.
  Proof.
    unfold split_criteria. intros H.
    destruct (negb (is_probability (bp_ratio p))); [discriminate|].
    destruct (bp_max p <? bp_min p)%Z; [discriminate|].
    destruct (_ || _); [discriminate|]. injection H as <- <-. eauto.
  Qed.

  Lemma omission_shape e cur p st rep : apply_omission e cur p = Ok (st, rep) ->
    exists sorted k, order_criteria e cur p = Ok sorted /\
      st_crits st = skipn k sorted /\ rep = ROmission (firstn k sorted) /\
      on_criteria_removed (st_crits st) (st_params cur) = Ok (st_params st) /\
      mapM (fun a => with_criteria_only a (st_crits st)) (st_cons cur) = Ok (st_cons st) /\
      mapM (fun a => with_criteria_only a (st_crits st)) (st_notcons cur) = Ok (st_notcons st).
  Proof.
    unfold apply_omission. intros H.
    destruct (_ || _); [discriminate|].
    binv H. binv H. destruct x0 as [lft rgt]. binv H. binv H. binv H.
    injection H as <- <-. cbn [st_crits st_params st_cons st_notcons].
    apply split_criteria_spec in E0 as (k & -> & ->). exists x, k. repeat split; assumption.
  Qed.

  Lemma with_criteria_only_keys a cs a' : with_criteria_only a cs = Ok a' ->
    forall c, In c cs -> mhas (c_id c) (a_vals a') = true.
  Proof.
    unfold with_criteria_only. intros H. binv H. injection H as <-. cbn [a_vals].
    eapply (fold_keys (fun c : crit => c_id c)) in E; [exact (proj2 E)|].
    intros m0 c m' F. cbn beta in F. binv F. injection F as <-. split.
    - intros k. apply mhas_mset_mono.
    - apply mhas_mset_same.
  Qed.

  Lemma omission_crits e cur p st rep : apply_omission e cur p = Ok (st, rep) ->
    incl (st_crits st) (st_crits cur) /\
    (NoDup (map c_id (st_crits cur)) -> NoDup (map c_id (st_crits st))).
  Proof.
    intros H. apply omission_shape in H as (sorted & k & O & C & _).
    apply order_criteria_perm in O. rewrite C. split.
    - intros c Hc. apply (Permutation_in _ O). eapply skipn_incl. exact Hc.
    - intros D. rewrite <- skipn_map. apply NoDup_skipn.
      eapply Permutation_NoDup; [|exact D]. symmetry. now apply Permutation_map.
  Qed.

  Theorem omission_inv e cur p st rep :
    inv cur = true -> apply_omission e cur p = Ok (st, rep) -> inv st = true.
  Proof.
    intros I H. apply inv_iff in I as (A & P & D).
    destruct (omission_crits _ _ _ _ _ H) as [Inc ND].
    apply omission_shape in H as (sorted & k & _ & _ & _ & R & M1 & M2).
    apply inv_iff. repeat split.
    - unfold all_alts. apply alts_cover_app. split; intros a' Ha'.
      + destruct (mapM_In_inv _ _ _ M1 _ Ha') as (a & _ & W). exact (with_criteria_only_keys _ _ _ W).
      + destruct (mapM_In_inv _ _ _ M2 _ Ha') as (a & _ & W). exact (with_criteria_only_keys _ _ _ W).
    - eapply removed_cover; eassumption.
    - now apply ND.
  Qed.

  Lemma omission_sync e cur p st rep : sync cur -> apply_omission e cur p = Ok (st, rep) -> sync st.
  Proof.
    intros S H. apply omission_shape in H as (sorted & k & _ & _ & _ & R & _).
    eapply removed_sync; eassumption.
  Qed.

  (** *** preference reversal *)
  Definition rev_vals (items : list (crit * (num * num))) (a : alt) : res alt :=
    do vals <- fold_left (fun acc cr =>
                            do m <- acc;
                            do v <- of_option (mget (c_id (fst cr)) m) EMissing;
                            Ok (mset (c_id (fst cr)) (nadd (nsub (snd (snd cr)) v) (fst (snd cr))) m))
                         items (Ok (a_vals a));
    Ok {| a_id := a_id a; a_vals := vals |}.

  Lemma reversal_shape e cur p st rep : apply_reversal e cur p = Ok (st, rep) ->
    exists items new_all,
      mapM (rev_vals items) (all_alts cur) = Ok new_all /\
      update_alts (st_cons cur) new_all = Ok (st_cons st) /\
      update_alts (st_notcons cur) new_all = Ok (st_notcons st) /\
      st_crits st = st_crits cur /\ st_params st = st_params cur.
  Proof.
    unfold apply_reversal. intros H.
    destruct (_ || _); [discriminate|].
    binv H. binv H. binv H. binv H. binv H. binv H. injection H as <- _.
    cbn [st_crits st_params st_cons st_notcons]. exists x1, x2. repeat split; assumption.
  Qed.

  Lemma rev_vals_mono items a a' : rev_vals items a = Ok a' ->
    a_id a' = a_id a /\ forall k, mhas k (a_vals a) = true -> mhas k (a_vals a') = true.
  Proof.
    unfold rev_vals. intros H. binv H. injection H as <-. cbn [a_id a_vals]. split; [reflexivity|].
    eapply (fold_keys (fun cr : crit * (num * num) => c_id (fst cr))) in E; [exact (proj1 E)|].
    intros m0 c m' F. cbn beta in F. binv F. injection F as <-. split.
    - intros k. apply mhas_mset_mono.
    - apply mhas_mset_same.
  Qed.

  Theorem reversal_inv e cur p st rep :
    inv cur = true -> apply_reversal e cur p = Ok (st, rep) -> inv st = true.
  Proof.
    intros I H. apply inv_iff in I as (A & P & D).
    apply reversal_shape in H as (items & new_all & M & U1 & U2 & C & Q).
    assert (NA : alts_cover new_all (st_crits cur)).
    { intros a' Ha' c Hc. destruct (mapM_In_inv _ _ _ M _ Ha') as (a & Ha & R).
      apply rev_vals_mono in R as [_ R]. apply R. now apply A. }
    apply inv_iff. rewrite C, Q. repeat split; [|assumption|assumption].
    unfold all_alts. apply alts_cover_app. split.
    - eapply alts_cover_incl; [eapply update_alts_incl; exact U1|exact NA].
    - eapply alts_cover_incl; [eapply update_alts_incl; exact U2|exact NA].
  Qed.

  Lemma reversal_sync e cur p st rep : sync cur -> apply_reversal e cur p = Ok (st, rep) -> sync st.
  Proof.
    intros S H. apply reversal_shape in H as (_ & _ & _ & _ & _ & C & Q). unfold sync. now rewrite C, Q.
  Qed.

  (** *** fatigue *)
  Lemma blur_values_keys p f : forall cs a gv gs acc vals gv' gs',
    blur_values cs a p f gv gs acc = Ok (vals, gv', gs') ->
    (forall k, mhas k acc = true -> mhas k vals = true) /\
    (forall cr, In cr cs -> mhas (c_id (fst cr)) vals = true).
  Proof.
    induction cs as [|[c r] rest IH]; intros a gv gs acc vals gv' gs' H; cbn [blur_values] in H.
    - injection H as <- _ _. split; [auto|intros cr []].
    - binv H. binv H. binv H. apply IH in H as [M K]. split.
      + intros k Hk. apply M. now apply mhas_mset_mono.
      + intros cr [<-|Hcr]; [|now apply K]. cbn [fst]. apply M, mhas_mset_same.
  Qed.

  Lemma blur_alts_spec crs p f : forall l gv gs acc res gv' gs',
    blur_alts crs l p f gv gs acc = Ok (res, gv', gs') ->
    map a_id res = map a_id acc ++ map a_id l /\
    forall a', In a' res -> In a' acc \/ (forall cr, In cr crs -> mhas (c_id (fst cr)) (a_vals a') = true).
  Proof.
    induction l as [|a rest IH]; intros gv gs acc res gv' gs' H; cbn [blur_alts] in H.
    - injection H as <- _ _. cbn [map]. rewrite app_nil_r. split; [reflexivity|auto].
    - binv H. destruct x as [[vals gv1] gs1]. apply IH in H as [Ids K]. split.
      + rewrite Ids, map_app. cbn [map a_id]. now rewrite <- app_assoc.
      + intros a' Ha'. destruct (K a' Ha') as [Q|Q]; [|now right].
        apply in_app_or in Q as [Q|[<-|[]]]; [now left|right]. cbn [a_vals].
        eapply blur_values_keys. exact E.
  Qed.

  Lemma fatigue_shape e cur p st rep : apply_fatigue e cur p = Ok (st, rep) ->
    exists f crs gv gs gv1 gs1 gv2 gs2,
      mapM (fun c => do r <- values_range (all_alts cur) c; Ok (c, r)) (st_crits cur) = Ok crs /\
      blur_alts crs (st_cons cur) p f gv gs [] = Ok (st_cons st, gv1, gs1) /\
      blur_alts crs (st_notcons cur) p f gv1 gs1 [] = Ok (st_notcons st, gv2, gs2) /\
      st_crits st = st_crits cur /\ st_params st = st_params cur.
  Proof.
    unfold apply_fatigue. intros H. binv H.
    destruct (negb (valid_bounding p)); [discriminate|].
    binv H. binv H. destruct x1 as [[consd gv] gs]. binv H. destruct x1 as [[nconsd gv2] gs2].
    injection H as <- _. cbn [st_crits st_params st_cons st_notcons].
    do 8 eexists. repeat split; eassumption.
  Qed.

  Lemma range_items_fst (all : list alt) cs crs :
    mapM (fun c => do r <- values_range all c; Ok (c, r)) cs = Ok crs -> map fst crs = cs.
  Proof.
    intros H. rewrite <- (map_id cs). eapply mapM_map; [|exact H].
    intros c y F. cbn beta in F. binv F. now injection F as <-.
  Qed.

  Theorem fatigue_inv e cur p st rep :
    inv cur = true -> apply_fatigue e cur p = Ok (st, rep) -> inv st = true.
  Proof.
    intros I H. apply inv_iff in I as (A & P & D).
    apply fatigue_shape in H as (f & crs & gv & gs & gv1 & gs1 & gv2 & gs2 & R & B1 & B2 & C & Q).
    apply range_items_fst in R.
    assert (K : forall l g1 g2 res g3 g4, blur_alts crs l p f g1 g2 [] = Ok (res, g3, g4) ->
                alts_cover res (st_crits cur)).
    { intros l g1 g2 res g3 g4 B a' Ha' c Hc. apply blur_alts_spec in B as [_ B].
      destruct (B a' Ha') as [[]|B']. rewrite <- R in Hc. apply in_map_iff in Hc as (cr & <- & Hcr).
      now apply B'. }
    apply inv_iff. rewrite C, Q. repeat split; [|assumption|assumption].
    unfold all_alts. apply alts_cover_app. split; eapply K; eassumption.
  Qed.

  Lemma fatigue_sync e cur p st rep : sync cur -> apply_fatigue e cur p = Ok (st, rep) -> sync st.
  Proof.
    intros S H. apply fatigue_shape in H as (? & ? & ? & ? & ? & ? & ? & ? & _ & _ & _ & C & Q).
    unfold sync. now rewrite C, Q.
  Qed.
End BiasInv.

(** ** 5. The biases that add a criterion: concealment, mixing, anchoring *)
Section Additions.
  Context {N : Num}.

  Lemma with_value_spec a id v a' : with_value a id v = Ok a' ->
    mhas id (a_vals a) = false /\ a' = {| a_id := a_id a; a_vals := mset id v (a_vals a) |}.
  Proof.
    unfold with_value. destruct (mhas id (a_vals a)); [discriminate|]. intros H. injection H as <-. auto.
  Qed.

  Lemma add_criterion_spec cs c cs' : add_criterion cs c = Ok cs' ->
    cs' = cs ++ [c] /\ ~ In (c_id c) (map c_id cs).
  Proof.
    unfold add_criterion. destruct (mem_str (c_id c) (map c_id cs)) eqn:E; [discriminate|].
    intros H. injection H as <-. split; [reflexivity|now apply mem_str_false].
  Qed.

  (* [a'] is [a] with a value for the so far unknown criterion [id] *)
  Definition ext_rel (id : string) (a a' : alt) : Prop :=
    exists v, mhas id (a_vals a) = false /\ a' = {| a_id := a_id a; a_vals := mset id v (a_vals a) |}.

  Definition added_shape (cur st : state) : Prop :=
    exists newc ref g ag base new_all,
      Permutation base (all_alts cur) /\ Forall2 (ext_rel (c_id newc)) base new_all /\
      update_alts (st_cons cur) new_all = Ok (st_cons st) /\
      update_alts (st_notcons cur) new_all = Ok (st_notcons st) /\
      on_criterion_added newc ref (st_params cur) g = Ok ag /\
      merge (st_params cur) (fst ag) = Ok (st_params st) /\
      add_criterion (st_crits cur) newc = Ok (st_crits st).

  Lemma Forall2_In_r {A B} (R : A -> B -> Prop) l l' : Forall2 R l l' ->
    forall y, In y l' -> exists x, In x l /\ R x y.
  Proof.
    induction 1 as [|a b l l' H1 _ IH]; intros y Hy; [contradiction|].
    destruct Hy as [<-|Hy]; [exists a; split; [now left|exact H1]|].
    destruct (IH y Hy) as (x & Hx & R1). exists x. split; [now right|exact R1].
  Qed.

  Lemma Forall2_In_l {A B} (R : A -> B -> Prop) l l' : Forall2 R l l' ->
    forall x, In x l -> exists y, In y l' /\ R x y.
  Proof.
    induction 1 as [|a b l l' H1 _ IH]; intros x Hx; [contradiction|].
    destruct Hx as [<-|Hx]; [exists b; split; [now left|exact H1]|].
    destruct (IH x Hx) as (y & Hy & R1). exists y. split; [now right|exact R1].
  Qed.

  Theorem added_shape_inv cur st :
    inv cur = true -> sync cur -> added_shape cur st -> inv st = true /\ sync st.
  Proof.
    intros I S (newc & ref & g & ag & base & new_all & Pb & F & U1 & U2 & OA & MG & AC).
    apply inv_iff in I as (A & P & D). apply add_criterion_spec in AC as [AC NI].
    destruct ag as [a g']. cbn [fst] in MG.
    destruct (added_cover _ _ _ _ _ _ _ _ P S D NI OA MG) as [PC PS].
    assert (NA : alts_cover new_all (st_crits st)).
    { intros a' Ha' c Hc. destruct (Forall2_In_r _ _ _ F _ Ha') as (a0 & Ha0 & v & _ & ->). cbn [a_vals].
      rewrite AC in Hc. apply in_app_or in Hc as [Hc|[<-|[]]]; [|apply mhas_mset_same].
      apply mhas_mset_mono. apply A; [|exact Hc]. eapply Permutation_in; eassumption. }
    split.
    - apply inv_iff. split; [|split].
      + unfold all_alts. apply alts_cover_app. split.
        * eapply alts_cover_incl; [eapply update_alts_incl; exact U1|exact NA].
        * eapply alts_cover_incl; [eapply update_alts_incl; exact U2|exact NA].
      + rewrite AC. exact PC.
      + rewrite AC, map_app. cbn [map]. now apply NoDup_snoc.
    - unfold sync. rewrite AC. exact PS.
  Qed.

  (** *** concealment *)
  Lemma conceal_fold_spec (id : string) (p : bprops) (rng_ : num * num) (dif : num) : forall sorted acc0 fin,
    fold_left (fun acc a =>
                 do st <- acc;
                 let '(alts, vals, g1) := st in
                 do dg <- draw g1;
                 do a' <- with_value a id (bound_value p rng_ (nadd (nmul (fst dg) dif) (fst rng_)));
                 Ok (alts ++ [a'], mset (a_id a) (bound_value p rng_ (nadd (nmul (fst dg) dif) (fst rng_))) vals, snd dg))
              sorted (Ok acc0) = Ok fin ->
    exists l, fst (fst fin) = fst (fst acc0) ++ l /\ Forall2 (ext_rel id) sorted l.
  Proof.
    induction sorted as [|a r IH]; intros acc0 fin H; cbn [fold_left bind] in H.
    - injection H as <-. exists []. rewrite app_nil_r. split; [reflexivity|constructor].
    - destruct acc0 as [[alts vals] g1].
      destruct (draw g1) as [dg|] eqn:Dg; cbn [bind] in H; [|rewrite fold_res_err in H; discriminate].
      destruct (with_value a id _) as [a'|] eqn:W; cbn [bind] in H; [|rewrite fold_res_err in H; discriminate].
      apply IH in H as (l & E1 & F). cbn [fst] in *. exists (a' :: l). split.
      + rewrite E1, <- app_assoc. reflexivity.
      + constructor; [|exact F]. apply with_value_spec in W as [W1 W2]. eexists. split; eassumption.
  Qed.

  Lemma concealment_shape e cur p st rep : apply_concealment e cur p = Ok (st, rep) -> added_shape cur st.
  Proof.
    unfold apply_concealment. intros H.
    destruct (neqb (bp_new_scaling p) nzero); [discriminate|].
    destruct (negb (valid_bounding p)); [discriminate|].
    cbv zeta in H. binv H. binv H. binv H. binv H. destruct x2 as [[new_all values] g2].
    binv H. binv H. binv H. binv H. binv H. injection H as <- _.
    cbn [st_crits st_params st_cons st_notcons].
    apply conceal_fold_spec in E2 as (l & E2 & F). cbn [fst app] in E2. subst l.
    do 6 eexists. split; [apply (isort_perm alt_lt)|]. repeat split; eassumption.
  Qed.

  Theorem concealment_inv e cur p st rep :
    inv cur = true -> sync cur -> apply_concealment e cur p = Ok (st, rep) -> inv st = true.
  Proof. intros I S H. apply concealment_shape in H. now apply added_shape_inv in H. Qed.

  Lemma concealment_sync e cur p st rep :
    inv cur = true -> sync cur -> apply_concealment e cur p = Ok (st, rep) -> sync st.
  Proof. intros I S H. apply concealment_shape in H. now apply added_shape_inv in H. Qed.

  (** *** mixing *)
  Lemma mixing_shape e cur p st rep : apply_mixing e cur p = Ok (st, rep) ->
    (st = cur /\ rep = RNone /\ Nat.ltb (List.length (st_crits cur)) 2 = true) \/
    (added_shape cur st /\ Nat.ltb (List.length (st_crits cur)) 2 = false).
  Proof.
    unfold apply_mixing. intros H.
    destruct (Nat.ltb (List.length (st_crits cur)) 2) eqn:L2.
    { injection H as <- <-. now left. }
    right. split; [|reflexivity].
    destruct (negb (is_probability (bp_mix_ratio p))); [discriminate|].
    cbv zeta in H. repeat binv H. injection H as <- _.
    cbn [st_crits st_params st_cons st_notcons].
    match goal with EM : mapM _ (all_alts cur) = Ok _ |- _ => apply mapM_Forall2 in EM; rename EM into FM end.
    do 6 eexists. split; [reflexivity|]. split; [|repeat split; eassumption].
    eapply Forall2_imp; [|exact FM].
    intros a a' W. cbn beta in W. binv W. apply with_value_spec in W as [W1 W2]. eexists. split; eassumption.
  Qed.

  Theorem mixing_inv e cur p st rep :
    inv cur = true -> sync cur -> apply_mixing e cur p = Ok (st, rep) -> inv st = true.
  Proof.
    intros I S H. apply mixing_shape in H as [(-> & _)|[H _]]; [exact I|]. now apply added_shape_inv in H.
  Qed.

  Lemma mixing_sync e cur p st rep :
    inv cur = true -> sync cur -> apply_mixing e cur p = Ok (st, rep) -> sync st.
  Proof.
    intros I S H. apply mixing_shape in H as [(-> & _)|[H _]]; [exact S|]. now apply added_shape_inv in H.
  Qed.
End Additions.

(** ** 6. Anchoring *)
Ltac fstep H :=
  match type of H with
  | fold_left _ _ (bind ?r _) = Ok _ =>
      let x := fresh "x" in let E := fresh "E" in
      destruct r as [x|] eqn:E; cbn [bind] in H; [|rewrite fold_res_err in H; discriminate H]
  end.

Section Anch.
  Context {N : Num}.

  Lemma criteria_scaling_fst cs all sc : criteria_scaling cs all = Ok sc -> map fst sc = cs.
  Proof.
    unfold criteria_scaling. intros H. rewrite <- (map_id cs). eapply mapM_map; [|exact H].
    intros c y F. cbn beta in F. binv F. now injection F as <-.
  Qed.

  Lemma inline_fold_keys (p : bprops) (a : alt) : forall (sc : list (crit * (num * (num * num)))) st0 nd,
    fold_left (fun acc cs =>
                 do st <- acc;
                 let c := fst cs in
                 do d <- of_option (mget (c_id c) (fst st)) EMissing;
                 do v <- of_option (mget (c_id c) (a_vals a)) EMissing;
                 let nv := bound_value p (snd (snd cs)) (nadd v (nmul (range_diff (snd (snd cs))) d)) in
                 Ok (mset (c_id c) nv (fst st), mset (c_id c) (nsub nv v) (snd st)))
              sc (Ok st0) = Ok nd ->
    (forall k, mhas k (fst st0) = true -> mhas k (fst nd) = true) /\
    (forall cs, In cs sc -> mhas (c_id (fst cs)) (fst nd) = true).
  Proof.
    induction sc as [|cs r IH]; intros st0 nd H; cbn [fold_left bind] in H.
    - injection H as <-. split; [auto|intros cs []].
    - fstep H. fstep H. apply IH in H as [M K]. cbn [fst] in M. split.
      + intros k Hk. apply M. now apply mhas_mset_mono.
      + intros cs' [<-|Hcs]; [|now apply K]. apply M, mhas_mset_same.
  Qed.

  Lemma inline_shape cur p sc diffs st ar : apply_inline cur p sc diffs = Ok (st, ar) ->
    exists new_alts,
      (forall a', In a' new_alts -> forall cs, In cs sc -> mhas (c_id (fst cs)) (a_vals a') = true) /\
      update_alts (st_cons cur) new_alts = Ok (st_cons st) /\
      (if bp_anch_not_considered p then update_alts (st_notcons cur) new_alts = Ok (st_notcons st)
       else st_notcons st = st_notcons cur) /\
      st_crits st = st_crits cur /\ st_params st = st_params cur.
  Proof.
    unfold apply_inline. intros H. binv H. cbv zeta in H. binv H.
    exists (map fst x). split.
    { intros a' Ha' cs Hcs. apply in_map_iff in Ha' as (y & <- & Hy).
      destruct (mapM_In_inv _ _ _ E _ Hy) as (ad & _ & F). cbn beta zeta in F. binv F. binv F.
      injection F as <-. cbn [fst a_vals]. apply inline_fold_keys in E2. now apply (proj2 E2). }
    destruct (bp_anch_not_considered p).
    - binv H. injection H as <- _. cbn [st_crits st_params st_cons st_notcons]. now repeat split.
    - cbn [bind] in H. binv H. injection H as <- _. cbn [st_crits st_params st_cons st_notcons]. now repeat split.
  Qed.

  Lemma inline_inv cur p sc diffs st ar :
    inv cur = true -> map fst sc = st_crits cur -> apply_inline cur p sc diffs = Ok (st, ar) ->
    inv st = true /\ (sync cur -> sync st).
  Proof.
    intros I SC H. apply inv_iff in I as (A & P & D).
    apply inline_shape in H as (new_alts & K & U1 & U2 & C & Q).
    assert (NA : alts_cover new_alts (st_crits cur)).
    { intros a' Ha' c Hc. rewrite <- SC in Hc. apply in_map_iff in Hc as (cs & <- & Hcs). now apply K. }
    split; [|unfold sync; now rewrite C, Q].
    apply inv_iff. rewrite C, Q. repeat split; [|assumption|assumption].
    unfold all_alts in *. apply alts_cover_app in A as [A1 A2]. apply alts_cover_app. split.
    - eapply alts_cover_incl; [eapply update_alts_incl; exact U1|exact NA].
    - destruct (bp_anch_not_considered p).
      + eapply alts_cover_incl; [eapply update_alts_incl; exact U2|exact NA].
      + now rewrite U2.
  Qed.

  (* the value of the one new criterion for one alternative *)
  Lemma anch_value_single (p : bprops) (weights : list wcrit) (rr : num * num) (half : num)
        (newc : crit) (ag : addition) (a : alt) (x : string * smap num) y :
    fold_left (fun acc rc =>
                 do a <- acc;
                 let '(rdiff, (newc, _)) := rc in
                 do cv <- fold_left (fun accv c => do s <- accv;
                                                   do v <- of_option (mget (c_id (fst c)) (snd rdiff)) EMissing;
                                                   Ok (nadd s (nmul v (snd c))))
                                    weights (Ok nzero);
                 with_value a (c_id newc) (bound_value p rr (nadd (nadd (fst rr) half) (nmul half cv))))
              (zip (snd (a, [x])) [(newc, ag)]) (Ok (fst (a, [x]))) = Ok y ->
    ext_rel (c_id newc) a y.
  Proof.
    cbn [snd fst zip fold_left bind]. intros H. binv H. apply with_value_spec in H as [W1 W2].
    eexists. split; eassumption.
  Qed.

  Lemma Forall2_comp {A B C} (R : A -> B -> Prop) (S : B -> C -> Prop) l1 l2 : Forall2 R l1 l2 ->
    forall l3, Forall2 S l2 l3 -> Forall2 (fun x z => exists y, R x y /\ S y z) l1 l3.
  Proof.
    induction 1 as [|a b l1 l2 H1 _ IH]; intros l3 H3; inversion H3; subst; constructor; eauto.
  Qed.

  Lemma new_criterion_shape e cur p sc diffs st ar :
    Forall2 (fun a ad => exists x, ad = (a, [x])) (all_alts cur) diffs ->
    apply_new_criterion e cur p sc diffs = Ok (st, ar) ->
    (all_alts cur = [] /\ all_alts st = [] /\ st_crits st = st_crits cur /\ st_params st = st_params cur)
    \/ added_shape cur st.
  Proof.
    unfold apply_new_criterion. intros FD H. binv H. binv H. cbv zeta in H. binv H.
    destruct diffs as [|d0 rest].
    - left. inversion FD as [EA|]. unfold all_alts in EA. symmetry in EA. apply app_eq_nil in EA as [EC EN].
      cbn [List.length seq zip fold_left map bind mapM] in H. rewrite EC, EN in H.
      cbn [update_alts mapM bind] in H. injection H as <- _.
      unfold all_alts. cbn [st_cons st_notcons st_crits st_params app]. now repeat split.
    - right. inversion FD as [|a0 d0' all' rest' (xr & Ed0) FR EA]; subst d0' rest' d0.
      cbn [snd map List.length seq zip fold_left bind] in H.
      binv H. destruct x2 as [[crits params] added]. binv E2. binv E2. binv E2.
      injection E2 as <- <- <-. cbn [app] in H. binv H. binv H. binv H. injection H as <- _.
      cbn [st_crits st_params st_cons st_notcons].
      match goal with EM : mapM _ _ = Ok _ |- _ => apply mapM_Forall2 in EM; rename EM into FM end.
      do 6 eexists. split; [reflexivity|]. split; [|repeat split; eassumption].
      pose proof (Forall2_comp _ _ _ _ FD _ FM) as FC. eapply Forall2_imp; [|exact FC].
      intros a y (ad & (xa & ->) & F). cbn beta in F. eapply anch_value_single. exact F.
  Qed.

  Lemma anchoring_cases e cur p st rep : apply_anchoring e cur p = Ok (st, rep) ->
    exists sc diffs ar,
      criteria_scaling (st_crits cur) (all_alts cur) = Ok sc /\
      Forall2 (fun a ad => exists x, ad = (a, [x])) (all_alts cur) diffs /\
      ((String.eqb (bp_anch_applier p) ap_inline = true /\ apply_inline cur p sc diffs = Ok (st, ar)) \/
       (String.eqb (bp_anch_applier p) ap_inline = false /\ apply_new_criterion e cur p sc diffs = Ok (st, ar))).
  Proof.
    unfold apply_anchoring. intros H.
    destruct (bp_anch_alts p) as [|aa0 aas]; [discriminate|].
    destruct (negb (known_fun (bp_anch_loss p)) || negb (known_fun (bp_anch_gain p))); [discriminate|].
    destruct (negb (String.eqb (bp_anch_applier p) ap_inline || String.eqb (bp_anch_applier p) ap_new)); [discriminate|].
    cbv zeta in H. binv H.
    destruct (negb (String.eqb (bp_anch_ref p) rp_ideal || String.eqb (bp_anch_ref p) rp_nadir)); [discriminate|].
    binv H. destruct (negb (valid_bounding p)); [discriminate|]. binv H. binv H.
    destruct (String.eqb (bp_anch_applier p) ap_inline) eqn:AP; binv H; destruct x3 as [st' ar]; cbn [fst snd] in H; injection H as <- _;
      exists x1, x2, ar; (split; [first [exact E1|reflexivity]|]); (split; [|cbn [fst]; auto]).
    all: apply mapM_Forall2 in E2; eapply Forall2_imp; [|exact E2].
    all: intros a ad F; cbn beta in F; binv F; injection F as <-;
      cbn [mapM bind] in E4; binv E4; injection E4 as <-; eauto.
  Qed.

  Theorem anchoring_inv e cur p st rep :
    inv cur = true -> sync cur -> apply_anchoring e cur p = Ok (st, rep) -> inv st = true.
  Proof.
    intros I S H. apply anchoring_cases in H as (sc & diffs & ar & SC & FD & [[_ H]|[_ H]]).
    - apply criteria_scaling_fst in SC. now apply (inline_inv _ _ _ _ _ _ I SC) in H.
    - apply (new_criterion_shape _ _ _ _ _ _ _ FD) in H as [(EA & ES & C & Q)|H].
      + apply inv_iff in I as (A & P & D). apply inv_iff. rewrite ES, C, Q. repeat split; [|assumption|assumption].
        intros a [].
      + now apply added_shape_inv in H.
  Qed.

  Lemma anchoring_sync e cur p st rep :
    inv cur = true -> sync cur -> apply_anchoring e cur p = Ok (st, rep) -> sync st.
  Proof.
    intros I S H. apply anchoring_cases in H as (sc & diffs & ar & SC & FD & [[_ H]|[_ H]]).
    - apply criteria_scaling_fst in SC. apply (inline_inv _ _ _ _ _ _ I SC) in H. now apply H.
    - apply (new_criterion_shape _ _ _ _ _ _ _ FD) in H as [(EA & ES & C & Q)|H].
      + unfold sync. now rewrite C, Q.
      + now apply added_shape_inv in H.
  Qed.

  (** *** one bias *)
  Theorem apply_bias_inv e name cur p st rep :
    inv cur = true -> sync cur -> apply_bias e name cur p = Ok (st, rep) -> inv st = true /\ sync st.
  Proof.
    unfold apply_bias. intros I S H.
    destruct (String.eqb name b_omission); [split; [eapply omission_inv|eapply omission_sync]; eassumption|].
    destruct (String.eqb name b_reversal); [split; [eapply reversal_inv|eapply reversal_sync]; eassumption|].
    destruct (String.eqb name b_fatigue); [split; [eapply fatigue_inv|eapply fatigue_sync]; eassumption|].
    destruct (String.eqb name b_concealment); [split; [eapply concealment_inv|eapply concealment_sync]; eassumption|].
    destruct (String.eqb name b_mixing); [split; [eapply mixing_inv|eapply mixing_sync]; eassumption|].
    destruct (String.eqb name b_anchoring); [split; [eapply anchoring_inv|eapply anchoring_sync]; eassumption|].
    discriminate.
  Qed.

  Lemma apply_bias_omission e cur p : apply_bias e b_omission cur p = apply_omission e cur p.
  Proof. reflexivity. Qed.
  Lemma apply_bias_reversal e cur p : apply_bias e b_reversal cur p = apply_reversal e cur p.
  Proof. reflexivity. Qed.
  Lemma apply_bias_fatigue e cur p : apply_bias e b_fatigue cur p = apply_fatigue e cur p.
  Proof. reflexivity. Qed.
  Lemma apply_bias_concealment e cur p : apply_bias e b_concealment cur p = apply_concealment e cur p.
  Proof. reflexivity. Qed.
  Lemma apply_bias_mixing e cur p : apply_bias e b_mixing cur p = apply_mixing e cur p.
  Proof. reflexivity. Qed.
  Lemma apply_bias_anchoring e cur p : apply_bias e b_anchoring cur p = apply_anchoring e cur p.
  Proof. reflexivity. Qed.

  (** the three biases that do not add a criterion need no [sync] *)
  Theorem apply_bias_inv_nosync e name cur p st rep :
    name = b_omission \/ name = b_reversal \/ name = b_fatigue ->
    inv cur = true -> apply_bias e name cur p = Ok (st, rep) -> inv st = true.
  Proof.
    intros [ -> | [ -> | -> ] ] I H.
    - rewrite apply_bias_omission in H. eapply omission_inv; eassumption.
    - rewrite apply_bias_reversal in H. eapply reversal_inv; eassumption.
    - rewrite apply_bias_fatigue in H. eapply fatigue_inv; eassumption.
  Qed.

  (** *** sequences *)
  Theorem process_biases_inv e : forall bs cur g st echoes,
    inv cur = true -> sync cur -> process_biases e bs cur g = Ok (st, echoes) -> inv st = true /\ sync st.
  Proof.
    induction bs as [|b rest IH]; intros cur g st echoes I S H; cbn [process_biases] in H.
    - injection H as <- _. now split.
    - binv H. destruct (nltb (fst x) (b_prob b)).
      + binv H. binv H. injection H as <- _. destruct x0 as [st1 rep1]. destruct x1 as [st2 ech2]. cbn [fst] in *.
        destruct (apply_bias_inv _ _ _ _ _ _ I S E0) as [I1 S1]. eapply IH; eassumption.
      + binv H. injection H as <- _. destruct x0 as [st2 ech2]. cbn [fst]. eapply IH; eassumption.
  Qed.
End Anch.

(** ** 7. [prepare] establishes the invariant for the methods whose parser validates its parameters *)
Section KeyNorm.
  (* normal form of a Choquet key *)
  Definition norm_key (k : string) : string := criterion_key (contained_criteria k).

  Fixpoint nocomma (s : string) : bool :=
    match s with EmptyString => true | String a r => negb (Ascii.eqb a comma) && nocomma r end.

  Lemma sapp_nil_r s : (s ++ "")%string = s.
  Proof. induction s as [|a s IH]; cbn; [reflexivity|now rewrite IH]. Qed.

  Lemma sapp_assoc a b c : ((a ++ b) ++ c)%string = (a ++ (b ++ c))%string.
  Proof. induction a as [|x a IH]; cbn; [reflexivity|now rewrite IH]. Qed.

  Lemma nocomma_app a b : nocomma (a ++ b)%string = nocomma a && nocomma b.
  Proof. induction a as [|x a IH]; cbn [String.append nocomma]; [reflexivity|]. now rewrite IH, andb_assoc. Qed.

  Lemma split_aux_nocomma : forall s cur, nocomma cur = true ->
    forall x, In x (split_on_aux comma s cur) -> nocomma x = true.
  Proof.
    induction s as [|a s IH]; intros cur Hc x Hx; cbn [split_on_aux] in Hx.
    - destruct Hx as [<-|[]]. exact Hc.
    - destruct (Ascii.eqb a comma) eqn:E.
      + destruct Hx as [<-|Hx]; [exact Hc|]. eapply IH; [|exact Hx]. reflexivity.
      + eapply IH; [|exact Hx]. rewrite nocomma_app, Hc. cbn [nocomma]. now rewrite E.
  Qed.

  Lemma split_aux_app : forall x s cur, nocomma x = true ->
    split_on_aux comma (x ++ s)%string cur = split_on_aux comma s (cur ++ x)%string.
  Proof.
    induction x as [|a x IH]; intros s cur H.
    - cbn [String.append]. now rewrite sapp_nil_r.
    - cbn [nocomma] in H. apply andb_true_iff in H as [H1 H2]. apply negb_true_iff in H1.
      cbn [String.append split_on_aux]. rewrite H1, IH by exact H2. f_equal.
      rewrite sapp_assoc. reflexivity.
  Qed.

  Lemma split_join : forall r x cur, nocomma x = true -> (forall y, In y r -> nocomma y = true) ->
    split_on_aux comma (join_with "," (x :: r)) cur = (cur ++ x)%string :: r.
  Proof.
    induction r as [|y r IH]; intros x cur Hx Hr.
    - cbn [join_with]. rewrite <- (sapp_nil_r x) at 1. rewrite split_aux_app by exact Hx. reflexivity.
    - change (join_with "," (x :: y :: r)) with (x ++ String comma (join_with "," (y :: r)))%string.
      rewrite split_aux_app by exact Hx. cbn [split_on_aux]. rewrite Ascii.eqb_refl. f_equal.
      rewrite IH; [reflexivity|apply Hr; now left|intros z Hz; apply Hr; now right].
  Qed.

  Lemma str_sort_idem l : str_sort (str_sort l) = str_sort l.
  Proof.
    unfold str_sort. apply isort_perm_invariant.
    - intros a b c. unfold le. apply RankFacts.snlt_trans.
    - intros a b. unfold le. apply RankFacts.sltb_asym.
    - intros a b _ _. unfold le. intros H1 H2.
      destruct (RankFacts.sltb_tricho a b) as [H|[H|H]]; congruence.
    - apply isort_perm.
  Qed.

  Lemma norm_key_idem k : norm_key (norm_key k) = norm_key k.
  Proof.
    unfold norm_key at 1 3. unfold criterion_key, contained_criteria, split_on.
    set (l := str_sort (split_on_aux comma k "")).
    assert (NC : forall x, In x l -> nocomma x = true).
    { intros x Hx. unfold l, str_sort in Hx. apply isort_in in Hx.
      eapply split_aux_nocomma; [|exact Hx]. reflexivity. }
    assert (NE : l <> []).
    { unfold l, str_sort. intros E. apply (f_equal (@List.length string)) in E. rewrite isort_length in E.
      destruct k as [|a k]; cbn [split_on_aux] in E; [discriminate|].
      destruct (Ascii.eqb a comma); [discriminate|].
      clear -E. revert E. generalize ("" ++ String a "")%string. induction k as [|b k IH]; intros cur E; cbn [split_on_aux] in E; [discriminate|].
      destruct (Ascii.eqb b comma); [discriminate|]. eapply IH. exact E. }
    destruct l as [|x r] eqn:El; [congruence|].
    unfold norm_key, criterion_key, contained_criteria, split_on. fold l. rewrite El.
    rewrite split_join; [|apply NC; now left|intros y Hy; apply NC; now right].
    cbn [String.append]. rewrite <- El. unfold l. now rewrite str_sort_idem.
  Qed.
End KeyNorm.

Section Prepare.
  Context {N : Num}.

  Lemma validate_criteria_nodup : forall cs seen, validate_criteria cs seen = Ok tt ->
    NoDup (map c_id cs) /\ forall c, In c cs -> ~ In (c_id c) seen.
  Proof.
    induction cs as [|c r IH]; intros seen H; cbn [validate_criteria] in H.
    - split; [constructor|intros c []].
    - destruct (mem_str (c_id c) seen) eqn:M; [discriminate|]. apply mem_str_false in M.
      assert (H' : validate_criteria r (c_id c :: seen) = Ok tt).
      { destruct (c_range c) as [[mn mx]|]; [destruct (nleb mx mn); [discriminate|exact H]|exact H]. }
      destruct (IH _ H') as [D NI]. split.
      + cbn [map]. constructor; [|exact D]. intros Hin. apply in_map_iff in Hin as (c' & Ec & Hc').
        apply (NI c' Hc'). left. congruence.
      + intros c' [<-|Hc']; [exact M|]. intros Hs. apply (NI c' Hc'). now right.
  Qed.

  Lemma fetch_alt_In l id a : fetch_alt l id = Ok a -> In a l.
  Proof.
    induction l as [|b r IH]; cbn [fetch_alt]; [discriminate|].
    destruct (String.eqb (a_id b) id); [|intros H; right; now apply IH].
    intros H. injection H as <-. now left.
  Qed.

  Lemma prepare_shape req st : prepare req = Ok st ->
    st_crits st = r_crits req /\ parse_params req = Ok (st_params st) /\
    NoDup (map c_id (r_crits req)) /\ alts_cover (all_alts st) (r_crits req).
  Proof.
    unfold prepare. intros H.
    destruct (is_blank (r_method req)); [discriminate|].
    binv H. destruct x. binv H. destruct (negb (mem_str (r_method req) method_names)); [discriminate|].
    binv H. binv H. injection H as <-. cbn [st_crits st_params all_alts st_cons st_notcons].
    split; [reflexivity|]. split; [reflexivity|]. split; [now apply validate_criteria_nodup in E|].
    unfold validate_alternatives in E0.
    destruct (forallb _ (r_known req)) eqn:F; [|discriminate]. rewrite forallb_forall in F.
    assert (K : alts_cover (r_known req) (r_crits req)).
    { intros a Ha. specialize (F a Ha). now rewrite forallb_forall in F. }
    apply alts_cover_app. split; (eapply alts_cover_incl; [|exact K]).
    - intros a Ha. unfold considered in E1. destruct (mapM_In_inv _ _ _ E1 _ Ha) as (id & _ & Fa).
      eapply fetch_alt_In. exact Fa.
    - intros a Ha. unfold not_considered in Ha. now apply filter_In in Ha.
  Qed.

  Lemma wc_cover (wc : list wcrit) cs : Permutation (map fst wc) cs ->
    Nat.eqb (List.length wc) (List.length cs)
    && forallb (fun c => existsb (fun x : wcrit => String.eqb (c_id (fst x)) (c_id c)) wc) cs = true.
  Proof.
    intros P. apply andb_true_iff. split.
    - apply Nat.eqb_eq. rewrite <- (Permutation_length P). now rewrite map_length.
    - apply forallb_forall. intros c Hc. apply (Permutation_in _ (Permutation_sym P)) in Hc.
      apply in_map_iff in Hc as (x & <- & Hx). apply existsb_exists. exists x. split; [exact Hx|apply String.eqb_refl].
  Qed.

  Lemma remap_weights_keys : forall (w : list (string * num)) acc nw, remap_weights w acc = Ok nw ->
    forall k, mhas k nw = true -> mhas k acc = true \/ exists k0, k = norm_key k0.
  Proof.
    induction w as [|[k0 v] r IH]; intros acc nw H k Hk; cbn [remap_weights] in H.
    - injection H as <-. now left.
    - destruct (mhas (criterion_key (contained_criteria k0)) acc); [discriminate|].
      destruct (IH _ _ H k Hk) as [Q|Q]; [|now right].
      apply mhas_mset_iff in Q as [->|Q]; [right; now exists k0|now left].
  Qed.

  Lemma prepare_weights_keys names : forall (w : list (string * num)) acc pw, prepare_weights w names acc = Ok pw ->
    (forall k, mhas k acc = true -> mhas k pw = true) /\
    (forall k v, In (k, v) w -> mhas (norm_key k) pw = true).
  Proof.
    induction w as [|[k0 v0] r IH]; intros acc pw H; cbn [prepare_weights] in H.
    - injection H as <-. split; [auto|intros k v []].
    - destruct (negb (forallb _ (contained_criteria k0))); [discriminate|].
      destruct (nltb v0 nzero || nltb none v0); [discriminate|].
      destruct (IH _ _ H) as [M K]. split.
      + intros k Hk. apply M. now apply mhas_mset_mono.
      + intros k v [E|Hin]; [|now apply (K k v)]. injection E as <- <-. apply M, mhas_mset_same.
  Qed.

  Lemma choquet_parse_cover cs w pw : choquet_parse_weights cs w = Ok pw ->
    forallb (fun s => mhas (criterion_key s) pw) (power_set (map c_id cs)) = true.
  Proof.
    unfold choquet_parse_weights. intros H.
    destruct (negb (all_gain cs)); [discriminate|]. binv H. binv H.
    apply forallb_forall. intros s Hs.
    destruct (mapM_In _ _ _ E0 _ Hs) as (y & _ & U). unfold union_weight in U.
    assert (Hk : mhas (criterion_key s) x = true).
    { unfold mhas. destruct (mget (criterion_key s) x); [reflexivity|discriminate]. }
    destruct (remap_weights_keys _ _ _ E _ Hk) as [Q|(k0 & Q)]; [discriminate|].
    apply mhas_In_key in Hk as (v & Hin).
    apply (prepare_weights_keys _ _ _ _ H) in Hin. rewrite Q in Hin |- *. now rewrite norm_key_idem in Hin.
  Qed.

  Definition validating_method (m : string) : Prop :=
    m = m_ws \/ m = m_owa \/ m = m_choquet \/ m = m_electre.

  Lemma parse_params_cover req p : validating_method (r_method req) ->
    parse_params req = Ok p -> params_cover p (r_crits req) = true.
  Proof.
    unfold parse_params. intros [E|[E|[E|E]]] H; rewrite E in H; cbn in H.
    - unfold ws_parse in H. binv H. binv H. injection H as <-. cbn [params_cover].
      apply wc_cover. apply zip_with_weights_fst in E1. now rewrite E1.
    - unfold owa_parse in H. binv H. destruct (negb _); [discriminate|]. binv H. injection H as <-.
      cbn [params_cover]. apply wc_cover. apply zip_with_weights_fst in E1. rewrite <- E1.
      apply Permutation_map, isort_perm.
    - unfold choquet_parse in H. binv H. binv H. injection H as <-. cbn [params_cover].
      eapply choquet_parse_cover. exact E1.
    - unfold electre_parse in H. binv H. binv H.
      assert (exists f, p = PElectre x f) as [f ->].
      { destruct (rp_dist (r_mp req)) as [d|].
        - destruct (nltb (lf_b d) nzero || nltb (nadd (lf_a d) (lf_b d)) nzero); [discriminate|].
          injection H as <-. eauto.
        - injection H as <-. eauto. }
      cbn [params_cover].
      apply forallb_forall. intros c Hc. destruct (mapM_In _ _ _ E1 _ Hc) as (y & _ & F). cbn beta in F.
      binv F. unfold mhas. destruct (mget (c_id c) x); [reflexivity|discriminate].
  Qed.

  (** [prepare] establishes [inv] as soon as the parsed parameters cover the criteria ... *)
  Theorem prepare_inv_if_cover req st :
    prepare req = Ok st -> params_cover (st_params st) (r_crits req) = true -> inv st = true.
  Proof.
    intros H C. apply prepare_shape in H as (EC & _ & D & A). apply inv_iff. rewrite EC. now repeat split.
  Qed.

  (** ... which the parsers of weightedSum, owa, choquetIntegral and electreIII guarantee *)
  Theorem prepare_inv_holds req st :
    validating_method (r_method req) -> prepare req = Ok st -> inv st = true.
  Proof.
    intros V H. apply (prepare_inv_if_cover _ _ H).
    apply prepare_shape in H as (_ & P & _). now apply parse_params_cover.
  Qed.

  (** [sync] after [prepare]: the only requests excluded are those of the two level-based heuristics
      that carry thresholds together with an ideal-coefficient source *)
  Theorem prepare_sync req st :
    prepare req = Ok st ->
    (r_method req = m_aspect \/ r_method req = m_satisfaction ->
     rp_function (r_mp req) = lv_thresholds \/ lp_ths (rp_lparams (r_mp req)) = []) ->
    sync st.
  Proof.
    intros H L. apply prepare_shape in H as (EC & P & _). unfold sync. rewrite EC.
    unfold parse_params in P.
    destruct (String.eqb (r_method req) m_ws). { unfold ws_parse in P. binv P. binv P. now injection P as <-. }
    destruct (String.eqb (r_method req) m_owa).
    { unfold owa_parse in P. binv P. destruct (negb _); [discriminate|]. binv P. now injection P as <-. }
    destruct (String.eqb (r_method req) m_choquet).
    { unfold choquet_parse in P. binv P. binv P. now injection P as <-. }
    destruct (String.eqb (r_method req) m_electre).
    { unfold electre_parse in P. binv P. binv P. destruct (rp_dist (r_mp req)) as [d|].
      - destruct (nltb (lf_b d) nzero || nltb (nadd (lf_a d) (lf_b d)) nzero); [discriminate|]. now injection P as <-.
      - now injection P as <-. }
    destruct (String.eqb (r_method req) m_majority). { unfold majority_parse in P. now injection P as <-. }
    destruct (String.eqb (r_method req) m_aspect) eqn:EA.
    { apply String.eqb_eq in EA. unfold aspect_parse in P. injection P as <-. cbn [params_sync]. auto. }
    destruct (String.eqb (r_method req) m_satisfaction) eqn:ES; [|discriminate].
    apply String.eqb_eq in ES. unfold satisfaction_parse in P. injection P as <-. cbn [params_sync]. auto.
  Qed.
End Prepare.

(** ** 8. Frame conditions: what one bias may change *)
Section Frame.
  Context {N : Num} {L : OrdLaws N}.

  Lemma list_eqb_refl_in {A} (f : A -> A -> bool) l : (forall x, In x l -> f x x = true) -> list_eqb f l l = true.
  Proof.
    induction l as [|x r IH]; intros H; cbn [list_eqb]; [reflexivity|].
    rewrite H by now left. apply IH. intros y Hy. apply H. now right.
  Qed.

  Lemma list_eqb_refl {A} (f : A -> A -> bool) l : (forall x, f x x = true) -> list_eqb f l l = true.
  Proof. intros H. apply list_eqb_refl_in. auto. Qed.

  Lemma list_eqb_Forall2 {A B} (f : A -> B -> bool) l1 l2 :
    Forall2 (fun x y => f x y = true) l1 l2 -> list_eqb f l1 l2 = true.
  Proof. induction 1 as [|x y l1 l2 H1 _ IH]; cbn [list_eqb]; [reflexivity|]. now rewrite H1. Qed.

  Lemma str_list_eqb_eq l l' : l = l' -> list_eqb String.eqb l l' = true.
  Proof. intros <-. apply list_eqb_refl, String.eqb_refl. Qed.

  Lemma option_eqb_refl {A} (f : A -> A -> bool) o : (forall x, f x x = true) -> option_eqb f o o = true.
  Proof. intros H. destruct o; cbn; auto. Qed.

  Lemma smap_same_refl m : smap_same m m = true.
  Proof.
    unfold smap_same. apply list_eqb_refl. intros [k v]. cbn [fst snd].
    now rewrite String.eqb_refl, same_refl.
  Qed.
  Lemma alt_same_refl a : alt_same a a = true.
  Proof. unfold alt_same. now rewrite String.eqb_refl, smap_same_refl. Qed.
  Lemma ctype_eqb_refl t : ctype_eqb t t = true.
  Proof. now destruct t. Qed.
  Lemma crit_same_refl c : crit_same c c = true.
  Proof.
    unfold crit_same, range_same. rewrite String.eqb_refl, ctype_eqb_refl. cbn [andb].
    apply option_eqb_refl. intros [a b]. cbn [fst snd]. now rewrite !same_refl.
  Qed.
  Lemma wcrit_same_refl x : wcrit_same x x = true.
  Proof. unfold wcrit_same. now rewrite crit_same_refl, same_refl. Qed.
  Lemma linfun_same_refl f : linfun_same f f = true.
  Proof. unfold linfun_same. now rewrite !same_refl. Qed.
  Lemma ecrit_same_refl x : ecrit_same x x = true.
  Proof. unfold ecrit_same. now rewrite same_refl, !linfun_same_refl. Qed.
  Lemma lparams_same_refl x : lparams_same x x = true.
  Proof.
    unfold lparams_same. rewrite !same_refl. cbn [andb]. apply list_eqb_refl, smap_same_refl.
  Qed.
  Lemma bool_eqb_refl b : Bool.eqb b b = true.
  Proof. now destruct b. Qed.
  Lemma params_same_refl p : params_same p p = true.
  Proof.
    destruct p; cbn [params_same].
    - apply list_eqb_refl, wcrit_same_refl.
    - apply list_eqb_refl, wcrit_same_refl.
    - rewrite smap_same_refl. cbn [andb]. apply list_eqb_refl, crit_same_refl.
    - rewrite linfun_same_refl, andb_true_r. apply list_eqb_refl. intros [k v]. cbn [fst snd].
      now rewrite String.eqb_refl, ecrit_same_refl.
    - now rewrite smap_same_refl, !String.eqb_refl, Z.eqb_refl, bool_eqb_refl.
    - now rewrite smap_same_refl, String.eqb_refl, Z.eqb_refl, bool_eqb_refl, lparams_same_refl.
    - now rewrite !String.eqb_refl, Z.eqb_refl, bool_eqb_refl, lparams_same_refl.
  Qed.
  Lemma crits_same_refl (cs : list crit) : list_eqb crit_same cs cs = true.
  Proof. apply list_eqb_refl, crit_same_refl. Qed.
  Lemma alts_same_refl (l : list alt) : list_eqb alt_same l l = true.
  Proof. apply list_eqb_refl, alt_same_refl. Qed.
  Lemma state_same_refl s : state_same s s = true.
  Proof. unfold state_same. now rewrite !alts_same_refl, crits_same_refl, params_same_refl. Qed.

  Lemma same_split_ids a b :
    map a_id (st_cons b) = map a_id (st_cons a) -> map a_id (st_notcons b) = map a_id (st_notcons a) ->
    same_split a b = true.
  Proof. intros H1 H2. unfold same_split. now rewrite !str_list_eqb_eq by (symmetry; assumption). Qed.

  Lemma is_prefix_refl (cs : list crit) : is_prefix_crits cs cs = true.
  Proof. unfold is_prefix_crits. rewrite firstn_all. apply crits_same_refl. Qed.

  Lemma is_prefix_snoc (cs : list crit) c : is_prefix_crits cs (cs ++ [c]) = true.
  Proof.
    unfold is_prefix_crits. rewrite firstn_app, firstn_all, Nat.sub_diag. cbn [firstn].
    rewrite app_nil_r. apply crits_same_refl.
  Qed.

  (* the values of [cs] agree *)
  Definition vals_agree (cs : list crit) (x y : alt) : Prop :=
    forall c, In c cs -> mget (c_id c) (a_vals y) = mget (c_id c) (a_vals x).

  Lemma values_kept_of cs a b :
    Forall2 (vals_agree cs) (st_cons a) (st_cons b) -> Forall2 (vals_agree cs) (st_notcons a) (st_notcons b) ->
    values_kept cs a b = true.
  Proof.
    intros F1 F2. unfold values_kept, all_alts. apply list_eqb_Forall2.
    apply Forall2_app; (eapply Forall2_imp; [|eassumption]).
    all: intros x y V; apply forallb_forall; intros c Hc; rewrite (V c Hc);
      apply option_eqb_refl, same_refl.
  Qed.

  (** *** the ids of the alternatives never change *)
  Lemma added_shape_ids cur st : added_shape cur st ->
    map a_id (st_cons st) = map a_id (st_cons cur) /\ map a_id (st_notcons st) = map a_id (st_notcons cur).
  Proof.
    intros (newc & ref & g & ag & base & new_all & _ & _ & U1 & U2 & _).
    split; eapply update_alts_ids; eassumption.
  Qed.

  Lemma with_criteria_only_id a cs a' : with_criteria_only a cs = Ok a' -> a_id a' = a_id a.
  Proof. unfold with_criteria_only. intros H. binv H. now injection H as <-. Qed.

  Theorem apply_bias_ids e name cur p st rep : apply_bias e name cur p = Ok (st, rep) ->
    map a_id (st_cons st) = map a_id (st_cons cur) /\ map a_id (st_notcons st) = map a_id (st_notcons cur).
  Proof.
    unfold apply_bias. intros H.
    destruct (String.eqb name b_omission).
    { apply omission_shape in H as (sorted & k & _ & _ & _ & _ & M1 & M2).
      split; (eapply mapM_map; [|eassumption]); intros x y W; eapply with_criteria_only_id; exact W. }
    destruct (String.eqb name b_reversal).
    { apply reversal_shape in H as (items & new_all & _ & U1 & U2 & _).
      split; eapply update_alts_ids; eassumption. }
    destruct (String.eqb name b_fatigue).
    { apply fatigue_shape in H as (f & crs & gv & gs & gv1 & gs1 & gv2 & gs2 & _ & B1 & B2 & _).
      apply blur_alts_spec in B1 as [B1 _]. apply blur_alts_spec in B2 as [B2 _]. now split. }
    destruct (String.eqb name b_concealment).
    { apply concealment_shape in H. now apply added_shape_ids. }
    destruct (String.eqb name b_mixing).
    { apply mixing_shape in H as [(-> & _)|[H _]]; [now split|now apply added_shape_ids]. }
    destruct (String.eqb name b_anchoring); [|discriminate].
    apply anchoring_cases in H as (sc & diffs & ar & SC & FD & [[_ H]|[_ H]]).
    - apply inline_shape in H as (new_alts & _ & U1 & U2 & _). split; [eapply update_alts_ids; exact U1|].
      destruct (bp_anch_not_considered p); [eapply update_alts_ids; exact U2|now rewrite U2].
    - apply (new_criterion_shape _ _ _ _ _ _ _ FD) in H as [(EA & ES & _)|H]; [|now apply added_shape_ids].
      unfold all_alts in *. apply app_eq_nil in EA as [-> ->]. apply app_eq_nil in ES as [-> ->]. now split.
  Qed.

  Lemma apply_bias_same_split e name cur p st rep :
    apply_bias e name cur p = Ok (st, rep) -> same_split cur st = true.
  Proof. intros H. apply apply_bias_ids in H as [H1 H2]. now apply same_split_ids. Qed.

  Lemma apply_bias_all_ids e name cur p st rep :
    apply_bias e name cur p = Ok (st, rep) -> map a_id (all_alts st) = map a_id (all_alts cur).
  Proof. intros H. apply apply_bias_ids in H as [H1 H2]. unfold all_alts. now rewrite !map_app, H1, H2. Qed.

  (** *** omission *)
  Lemma with_criteria_only_vals a cs a' : with_criteria_only a cs = Ok a' -> vals_agree cs a a'.
  Proof.
    unfold with_criteria_only. intros H. binv H. injection H as <-. cbn [a_vals]. intros c Hc.
    pose proof E as K.
    eapply (fold_keys (fun c : crit => c_id c)) in K.
    2:{ intros m0 c0 m' F. cbn beta in F. binv F. injection F as <-. split.
        - intros k. apply mhas_mset_mono.
        - apply mhas_mset_same. }
    assert (Iv : forall k, mget k x = None \/ mget k x = mget k (a_vals a)).
    { refine (fold_res_ind _ (fun (m : smap num) (_ : list crit) =>
                                forall k, mget k m = None \/ mget k m = mget k (a_vals a)) _ _ _ [] _ _ E).
      - intros m c0 m' done I F. cbn beta in F. binv F. injection F as <-. intros k.
        destruct (string_dec k (c_id c0)) as [->|NE].
        + right. rewrite mget_mset_same. unfold raw_value in E0.
          destruct (mget (c_id c0) (a_vals a)); [now injection E0 as ->|discriminate].
        + rewrite mget_mset_other by exact NE. apply I.
      - intros k. now left. }
    specialize (proj2 K c Hc) as Hk. unfold mhas in Hk. destruct (Iv (c_id c)) as [Q|Q]; [|exact Q].
    rewrite Q in Hk. discriminate.
  Qed.

  Theorem omission_frame e cur p st rep :
    apply_omission e cur p = Ok (st, rep) -> frame_ok b_omission p cur st = true.
  Proof.
    intros H. unfold frame_ok.
    assert (SS : same_split cur st = true) by (apply (apply_bias_same_split e b_omission _ p _ rep); exact H).
    rewrite SS. cbn [andb]. change (String.eqb b_omission b_omission) with true. cbv iota.
    destruct (omission_crits _ _ _ _ _ H) as [Inc _].
    apply omission_shape in H as (sorted & k & _ & _ & _ & _ & M1 & M2).
    apply andb_true_iff. split.
    - apply forallb_forall. intros c Hc. apply existsb_exists. exists c. split; [now apply Inc|apply crit_same_refl].
    - apply values_kept_of; (eapply Forall2_imp; [|eapply mapM_Forall2; eassumption]);
        intros x y W; eapply with_criteria_only_vals; exact W.
  Qed.

  (** *** reversal, fatigue *)
  Lemma unchanged_frame (cur st : state) :
    st_crits st = st_crits cur -> st_params st = st_params cur ->
    list_eqb crit_same (st_crits cur) (st_crits st) && params_same (st_params cur) (st_params st) = true.
  Proof. intros -> ->. now rewrite crits_same_refl, params_same_refl. Qed.

  Theorem reversal_frame e cur p st rep :
    apply_reversal e cur p = Ok (st, rep) -> frame_ok b_reversal p cur st = true.
  Proof.
    intros H. unfold frame_ok.
    assert (SS : same_split cur st = true) by (apply (apply_bias_same_split e b_reversal _ p _ rep); exact H).
    rewrite SS. cbn [andb]. change (String.eqb b_reversal b_omission) with false.
    change (String.eqb b_reversal b_reversal) with true. cbv iota.
    apply reversal_shape in H as (items & new_all & _ & _ & _ & C & Q). now apply unchanged_frame.
  Qed.

  Theorem fatigue_frame e cur p st rep :
    apply_fatigue e cur p = Ok (st, rep) -> frame_ok b_fatigue p cur st = true.
  Proof.
    intros H. unfold frame_ok.
    assert (SS : same_split cur st = true) by (apply (apply_bias_same_split e b_fatigue _ p _ rep); exact H).
    rewrite SS. cbn [andb]. change (String.eqb b_fatigue b_omission) with false.
    change (String.eqb b_fatigue b_reversal) with false. change (String.eqb b_fatigue b_fatigue) with true. cbv iota.
    apply fatigue_shape in H as (f & crs & gv & gs & gv1 & gs1 & gv2 & gs2 & _ & _ & _ & C & Q).
    now apply unchanged_frame.
  Qed.

  (** *** an added criterion *)
  Lemma NoDup_map_eq {A B} (f : A -> B) l x y : NoDup (map f l) -> In x l -> In y l -> f x = f y -> x = y.
  Proof.
    induction l as [|z r IH]; intros D Hx Hy E; [contradiction|]. cbn [map] in D.
    inversion D as [|? ? Hn Hr]; subst.
    destruct Hx as [->|Hx], Hy as [->|Hy]; auto.
    - exfalso. apply Hn. rewrite E. now apply in_map.
    - exfalso. apply Hn. rewrite <- E. now apply in_map.
  Qed.

  Lemma update_alts_ext id old base new_all all l cs :
    NoDup (map a_id all) -> Permutation base all -> incl old all ->
    Forall2 (ext_rel id) base new_all -> ~ In id (map c_id cs) ->
    update_alts old new_all = Ok l -> Forall2 (vals_agree cs) old l.
  Proof.
    intros D Pb Io F NI U. unfold update_alts in U. apply mapM_Forall2 in U.
    assert (G : forall a a', In a old -> fetch_alt' new_all (a_id a) = Ok a' -> vals_agree cs a a').
    { intros a a' Ha Fa. pose proof (fetch_alt'_id _ _ _ Fa) as Eid. apply fetch_alt'_In in Fa.
      destruct (Forall2_In_r _ _ _ F _ Fa) as (b & Hb & v & _ & ->). cbn [a_id] in Eid.
      assert (b = a) as ->.
      { eapply (NoDup_map_eq a_id); [exact D| |now apply Io|exact Eid]. eapply Permutation_in; eassumption. }
      intros c Hc. cbn [a_vals]. apply mget_mset_other. intros Ec. apply NI. rewrite <- Ec. now apply in_map. }
    clear F. induction U as [|a a' old l H1 _ IH]; constructor.
    - apply G; [now left|exact H1].
    - apply IH; [intros x Hx; apply Io; now right|]. intros x x' Hx. apply G. now right.
  Qed.

  Lemma added_shape_frame cur st :
    NoDup (map a_id (all_alts cur)) -> added_shape cur st ->
    Nat.eqb (List.length (st_crits st)) (S (List.length (st_crits cur)))
    && is_prefix_crits (st_crits cur) (st_crits st)
    && values_kept (st_crits cur) cur st = true.
  Proof.
    intros D (newc & ref & g & ag & base & new_all & Pb & F & U1 & U2 & _ & _ & AC).
    apply add_criterion_spec in AC as [AC NI]. rewrite AC.
    rewrite app_length, Nat.add_comm. cbn [List.length Nat.add]. rewrite Nat.eqb_refl, is_prefix_snoc. cbn [andb].
    apply values_kept_of.
    - eapply update_alts_ext; try eassumption. intros x Hx. unfold all_alts. apply in_or_app. now left.
    - eapply update_alts_ext; try eassumption. intros x Hx. unfold all_alts. apply in_or_app. now right.
  Qed.

  Theorem concealment_frame e cur p st rep :
    NoDup (map a_id (all_alts cur)) ->
    apply_concealment e cur p = Ok (st, rep) -> frame_ok b_concealment p cur st = true.
  Proof.
    intros D H. unfold frame_ok.
    assert (SS : same_split cur st = true) by (apply (apply_bias_same_split e b_concealment _ p _ rep); exact H).
    rewrite SS. cbn [andb]. change (String.eqb b_concealment b_omission) with false.
    change (String.eqb b_concealment b_reversal) with false. change (String.eqb b_concealment b_fatigue) with false.
    change (String.eqb b_concealment b_concealment) with true. cbv iota. cbn [orb].
    apply concealment_shape in H. rewrite (added_shape_frame _ _ D H). apply orb_true_r.
  Qed.

  Theorem mixing_frame e cur p st rep :
    NoDup (map a_id (all_alts cur)) ->
    apply_mixing e cur p = Ok (st, rep) -> frame_ok b_mixing p cur st = true.
  Proof.
    intros D H. unfold frame_ok.
    assert (SS : same_split cur st = true) by (apply (apply_bias_same_split e b_mixing _ p _ rep); exact H).
    rewrite SS. cbn [andb]. change (String.eqb b_mixing b_omission) with false.
    change (String.eqb b_mixing b_reversal) with false. change (String.eqb b_mixing b_fatigue) with false.
    change (String.eqb b_mixing b_concealment) with false. change (String.eqb b_mixing b_mixing) with true.
    cbv iota. cbn [orb].
    apply mixing_shape in H as [(-> & _)|[H _]]; [now rewrite state_same_refl|].
    rewrite (added_shape_frame _ _ D H). apply orb_true_r.
  Qed.

  (** *** anchoring *)
  Theorem anchoring_frame e cur p st rep :
    (String.eqb (bp_anch_applier p) ap_inline = false -> NoDup (map a_id (all_alts cur))) ->
    apply_anchoring e cur p = Ok (st, rep) -> frame_ok b_anchoring p cur st = true.
  Proof.
    intros D H. unfold frame_ok.
    assert (SS : same_split cur st = true) by (apply (apply_bias_same_split e b_anchoring _ p _ rep); exact H).
    rewrite SS. cbn [andb]. change (String.eqb b_anchoring b_omission) with false.
    change (String.eqb b_anchoring b_reversal) with false. change (String.eqb b_anchoring b_fatigue) with false.
    change (String.eqb b_anchoring b_concealment) with false. change (String.eqb b_anchoring b_mixing) with false.
    change (String.eqb b_anchoring b_anchoring) with true. cbv iota. cbn [orb].
    apply anchoring_cases in H as (sc & diffs & ar & SC & FD & [[AP H]|[AP H]]); rewrite AP.
    - apply inline_shape in H as (new_alts & _ & U1 & U2 & C & Q).
      rewrite C, Q, is_prefix_refl, crits_same_refl, params_same_refl. cbn [andb].
      destruct (bp_anch_not_considered p); [reflexivity|]. rewrite U2. apply alts_same_refl.
    - apply (new_criterion_shape _ _ _ _ _ _ _ FD) in H as [(EA & ES & C & Q)|H].
      + rewrite C, is_prefix_refl. cbn [andb]. unfold values_kept. now rewrite EA, ES.
      + pose proof (added_shape_frame _ _ (D AP) H) as K.
        apply andb_true_iff in K as [K K3]. apply andb_true_iff in K as [_ K2]. now rewrite K2, K3.
  Qed.

  (** *** one bias *)
  Theorem apply_bias_frame e name cur p st rep :
    NoDup (map a_id (all_alts cur)) ->
    apply_bias e name cur p = Ok (st, rep) -> frame_ok name p cur st = true.
  Proof.
    intros D H. pose proof H as H0. unfold apply_bias in H.
    destruct (String.eqb name b_omission) eqn:E1. { apply String.eqb_eq in E1 as ->. eapply omission_frame; eassumption. }
    destruct (String.eqb name b_reversal) eqn:E2. { apply String.eqb_eq in E2 as ->. eapply reversal_frame; eassumption. }
    destruct (String.eqb name b_fatigue) eqn:E3. { apply String.eqb_eq in E3 as ->. eapply fatigue_frame; eassumption. }
    destruct (String.eqb name b_concealment) eqn:E4. { apply String.eqb_eq in E4 as ->. eapply concealment_frame; eassumption. }
    destruct (String.eqb name b_mixing) eqn:E5. { apply String.eqb_eq in E5 as ->. eapply mixing_frame; eassumption. }
    destruct (String.eqb name b_anchoring) eqn:E6; [|discriminate].
    apply String.eqb_eq in E6 as ->. apply (anchoring_frame e cur p st rep); [auto|exact H].
  Qed.

  (** omission, reversal, fatigue (and anchoring with the inline applier) need no hypothesis at all *)
  Theorem apply_bias_frame_basic e name cur p st rep :
    name = b_omission \/ name = b_reversal \/ name = b_fatigue
    \/ (name = b_anchoring /\ String.eqb (bp_anch_applier p) ap_inline = true) ->
    apply_bias e name cur p = Ok (st, rep) -> frame_ok name p cur st = true.
  Proof.
    intros [ -> | [ -> | [ -> | [ -> AP ] ] ] ] H.
    - rewrite apply_bias_omission in H. eapply omission_frame; eassumption.
    - rewrite apply_bias_reversal in H. eapply reversal_frame; eassumption.
    - rewrite apply_bias_fatigue in H. eapply fatigue_frame; eassumption.
    - rewrite apply_bias_anchoring in H.
      apply (anchoring_frame e cur p st rep); [intros Q; rewrite AP in Q; discriminate Q|exact H].
  Qed.

  (** the distinctness of the alternatives' ids is itself preserved, so the frame conditions hold
      at every stage of a sequence *)
  Theorem process_biases_ids e : forall bs cur g st echoes,
    process_biases e bs cur g = Ok (st, echoes) -> map a_id (all_alts st) = map a_id (all_alts cur).
  Proof.
    induction bs as [|b rest IH]; intros cur g st echoes H; cbn [process_biases] in H.
    - now injection H as <- _.
    - binv H. destruct (nltb (fst x) (b_prob b)).
      + binv H. binv H. injection H as <- _. destruct x0 as [st1 rep1]. destruct x1 as [st2 ech2]. cbn [fst] in *.
        apply apply_bias_all_ids in E0. apply IH in E1. congruence.
      + binv H. injection H as <- _. destruct x0 as [st2 ech2]. cbn [fst]. eapply IH; eassumption.
  Qed.
End Frame.

(** ** 9. The whole bias pipeline *)
Section Whole.
  Context {N : Num}.

  Theorem biased_state_inv_gen e req st echoes :
    biased_state e req = Ok (st, echoes) ->
    (forall st0, prepare req = Ok st0 -> inv st0 = true /\ sync st0) ->
    inv st = true /\ sync st.
  Proof.
    unfold biased_state. intros H P. binv H. destruct (P x eq_refl) as [I S].
    destruct (negb _); [discriminate|].
    destruct (enabled_biases req) as [|b bs] eqn:EB.
    - injection H as <- _. now split.
    - eapply process_biases_inv; eassumption.
  Qed.

  Theorem biased_state_inv e req st echoes :
    validating_method (r_method req) -> biased_state e req = Ok (st, echoes) -> inv st = true.
  Proof.
    intros V H. apply (biased_state_inv_gen _ _ _ _ H). intros st0 P. split.
    - now apply (prepare_inv_holds req).
    - apply (prepare_sync req _ P). intros [E|E]; exfalso; destruct V as [V|[V|[V|V]]]; rewrite V in E; discriminate E.
  Qed.
End Whole.

(** ** 10. Counterexamples on [NumQc] (why [sync], the validating methods and the distinct ids are needed) *)
Module Counterexamples.
  Import QArith Qcanon NumQc.
  Local Open Scope string_scope.
  Local Open Scope list_scope.

  Definition q (a : Z) (b : positive) : @Num.num NumQc := Q2Qc (a # b).
  Definition fp0 : @fparams NumQc :=
    {| fp_name := "linear"; fp_a := q 1 1; fp_b := q 0 1; fp_alpha := q 0 1; fp_mult := q 0 1 |}.
  Definition bp0 : @bprops NumQc := {|
    bp_ordering := ""; bp_ratio := q 1 2; bp_min := 0; bp_max := 10; bp_seed := 0;
    bp_scaling := q 1 1; bp_nonneg := false; bp_ref_type := ""; bp_ref_importance := q 1 2; bp_ref_seed := 0;
    bp_new_scaling := q 1 1; bp_mix_ratio := q 1 2;
    bp_fat_function := "const"; bp_fat_value := q 1 10; bp_fat_alpha := q 0 1; bp_fat_mult := q 0 1; bp_fat_query := 0;
    bp_anch_alts := []; bp_anch_loss := fp0; bp_anch_gain := fp0; bp_anch_ref := "ideal"; bp_anch_applier := "inline";
    bp_anch_not_considered := false |}.
  Definition env0 : @env NumQc :=
    {| env_streams := [(0%Z, [q 1 2; q 1 3; q 1 4; q 1 5; q 1 6; q 1 7; q 1 8])]; env_exp := [] |}.
  Definition cr (id : string) : @crit NumQc := {| c_id := id; c_type := TGain; c_range := None |}.
  Definition A1 : @alt NumQc := {| a_id := "x"; a_vals := [("a", q 1 1); ("b", q 2 1)] |}.
  Definition A2 : @alt NumQc := {| a_id := "y"; a_vals := [("a", q 3 1); ("b", q 1 1)] |}.
  Definition inv_after (r : res (@state NumQc * @report NumQc)) : option bool :=
    match r with Ok (st, _) => Some (inv st) | Err _ => None end.

  (** (a) aspect elimination with an ideal-coefficient level source whose parameters also carry
      thresholds: [inv] holds, concealment succeeds, [inv] is lost (the thresholds are not extended).
      The same for a state produced by [prepare], and the decision is still delivered. *)
  Definition lp1 : @lparams NumQc :=
    {| lp_coef := q 1 2; lp_max := q 1 1; lp_min := q 0 1; lp_ths := [[("a", q 1 1); ("b", q 1 1)]] |}.
  Definition s1 : @state NumQc :=
    {| st_notcons := [A2]; st_cons := [A1]; st_crits := [cr "a"; cr "b"];
       st_params := PAspect "idealMultipliedCoefficient" lp1 0 [("a", q 1 2); ("b", q 1 2)] false |}.
  Example cex_concealment_aspect :
    inv s1 = true /\ inv_after (apply_concealment env0 s1 bp0) = Some false.
  Proof. vm_compute. split; reflexivity. Qed.

  Definition rp1 : @rawparams NumQc :=
    {| rp_weights := Some [("a", q 1 2); ("b", q 1 2)]; rp_electre := None; rp_dist := None;
       rp_current := ""; rp_seed := 0; rp_random_order := false; rp_draw := "";
       rp_function := "idealMultipliedCoefficient"; rp_lparams := lp1 |}.
  Definition req1 : @request NumQc :=
    {| r_method := "aspectEliminationHeuristic";
       r_biases := [{| b_name := "criteriaConcealment"; b_disabled := false; b_prob := q 1 1; b_props := bp0 |}];
       r_seed := 0; r_known := [A1; A2]; r_chose := ["x"]; r_crits := [cr "a"; cr "b"]; r_mp := rp1 |}.
  Example cex_pipeline_aspect :
    match prepare req1 with Ok st => Some (inv st) | Err _ => None end = Some true /\
    match biased_state env0 req1 with Ok (st, _) => Some (inv st) | Err _ => None end = Some false /\
    is_ok (decide env0 req1) = true.
  Proof. vm_compute. repeat split; reflexivity. Qed.

  (** (b) Choquet parameters whose own criteria list does not follow the criteria of the state
      (not reachable from [prepare], but allowed by [inv]) *)
  Definition s2 : @state NumQc :=
    {| st_notcons := []; st_cons := [A1]; st_crits := [cr "a"; cr "b"];
       st_params := PChoquet [("a", q 1 2); ("a,b", q 1 1); ("b", q 1 2)] [cr "a"] |}.
  Example cex_concealment_choquet :
    inv s2 = true /\ inv_after (apply_concealment env0 s2 bp0) = Some false.
  Proof. vm_compute. split; reflexivity. Qed.

  (** (c) the heuristics decode their parameters without looking at the criteria: [prepare]
      succeeds and [inv] fails (no weights given) *)
  Definition rp3 : @rawparams NumQc :=
    {| rp_weights := None; rp_electre := None; rp_dist := None; rp_current := ""; rp_seed := 0;
       rp_random_order := false; rp_draw := ""; rp_function := "thresholds";
       rp_lparams := {| lp_coef := q 0 1; lp_max := q 0 1; lp_min := q 0 1; lp_ths := [[("a", q 1 1)]] |} |}.
  Definition req3 (m : string) : @request NumQc :=
    {| r_method := m; r_biases := []; r_seed := 0; r_known := [A1; A2]; r_chose := ["x"];
       r_crits := [cr "a"; cr "b"]; r_mp := rp3 |}.
  Example cex_prepare_heuristics :
    map (fun m => match prepare (req3 m) with Ok st => Some (inv st) | Err _ => None end)
        ["majorityHeuristic"; "aspectEliminationHeuristic"; "satisfactionHeuristic"]
    = [Some false; Some false; Some false].
  Proof. vm_compute. reflexivity. Qed.

  (** (d) two known alternatives with the same id: the values of the old criteria are not kept *)
  Definition A1' : @alt NumQc := {| a_id := "x"; a_vals := [("a", q 3 1); ("b", q 1 1)] |}.
  Definition s4 : @state NumQc :=
    {| st_notcons := [A1; A1']; st_cons := []; st_crits := [cr "a"; cr "b"];
       st_params := PWs [(cr "a", q 1 2); (cr "b", q 1 2)] |}.
  Example cex_frame_duplicate_ids :
    inv s4 = true /\
    match apply_concealment env0 s4 bp0 with
    | Ok (st, _) => Some (inv st, frame_ok b_concealment bp0 s4 st) | Err _ => None end = Some (true, false).
  Proof. vm_compute. split; reflexivity. Qed.
End Counterexamples.
