(** * C13: the satisfaction heuristic ranks by the first aspiration level an alternative satisfies.
    Main result: [satisfaction_passes_checker] -- every ranking returned by the model's
    [satisfaction_evaluate] is accepted by the checker [C13_ok] (under two explicit, necessary
    side conditions; see the counterexamples at the end of the file). *)
From Coq Require Import ZArith Bool List String Lia Permutation.
From RDM Require Import Base.Num Base.Util Model.Data Model.Rank Model.Utility Model.Levels
     Model.Heuristics Check.C13.
Import ListNotations.
Local Open Scope string_scope.
Local Open Scope list_scope.

Section SatisfFacts.
  Context {N : Num} {L : OrdLaws N}.

  (** ** 0. small facts *)
  Lemma smap_same_refl (t : smap num) : smap_same t t = true.
  Proof.
    unfold smap_same. induction t as [|[k v] r IH]; cbn [list_eqb fst snd]; [reflexivity|].
    rewrite String.eqb_refl, same_refl, IH. reflexivity.
  Qed.

  Lemma nth_opt_Some_lt {A} (l : list A) : forall k x, nth_opt k l = Some x -> (k < List.length l)%nat.
  Proof.
    induction l as [|y r IH]; intros k x H; [destruct k; discriminate|].
    destruct k as [|k]; cbn [nth_opt List.length] in *; [lia|]. apply IH in H. lia.
  Qed.

  Lemma nth_opt_app_len {A} (pre : list A) t r : nth_opt (List.length pre) (pre ++ t :: r) = Some t.
  Proof. induction pre as [|y p IH]; cbn [List.length app nth_opt]; [reflexivity|exact IH]. Qed.

  Lemma firstn_app_len {A} (pre : list A) r : firstn (List.length pre) (pre ++ r) = pre.
  Proof.
    induction pre as [|y p IH]; cbn [List.length app firstn]; [destruct r; reflexivity|].
    now rewrite IH.
  Qed.

  (** [nondecreasing] *)
  Lemma nondec_cons x l :
    nondecreasing (x :: l) = true <-> (match l with [] => True | y :: _ => (x <= y)%Z end) /\ nondecreasing l = true.
  Proof.
    destruct l as [|y r].
    - cbn. tauto.
    - change (nondecreasing (x :: y :: r)) with ((x <=? y)%Z && nondecreasing (y :: r)).
      rewrite andb_true_iff, Z.leb_le. tauto.
  Qed.

  Lemma nondec_app l1 : forall l2,
    nondecreasing l1 = true -> nondecreasing l2 = true ->
    (forall x y, In x l1 -> In y l2 -> (x <= y)%Z) ->
    nondecreasing (l1 ++ l2) = true.
  Proof.
    induction l1 as [|x r IH]; intros l2 H1 H2 Hc; [exact H2|].
    cbn [app]. apply nondec_cons in H1 as [Hh Ht]. apply nondec_cons. split.
    - destruct r as [|y r']; cbn [app].
      + destruct l2 as [|z l2']; [exact I|]. apply Hc; now left.
      + exact Hh.
    - apply IH; [exact Ht|exact H2|]. intros a b Ha Hb. apply Hc; [now right|exact Hb].
  Qed.

  Lemma nondec_const {A} (k : Z) (l : list A) : nondecreasing (map (fun _ => k) l) = true.
  Proof.
    induction l as [|x r IH]; [reflexivity|]. cbn [map]. apply nondec_cons. split; [|exact IH].
    destruct r; cbn [map]; [exact I|lia].
  Qed.

  (** ** 1. [good_enough] versus [meets] *)
  Definition ge_step (a : alt) (acc : res bool) (c : wcrit) : res bool :=
    do b <- acc; do v <- crit_value a (fst c); Ok (b && negb (nltb v (sgn (fst c) (snd c)))).

  Lemma good_enough_fold a ths : good_enough a ths = fold_left (ge_step a) ths (Ok true).
  Proof. reflexivity. Qed.

  Lemma ge_fold_err a ths e : fold_left (ge_step a) ths (Err e) = Err e.
  Proof. induction ths as [|c r IH]; cbn [fold_left]; [reflexivity|]. exact IH. Qed.

  Lemma ge_step_ok a b0 c th :
    ge_step a (Ok b0) (c, th) =
    match mget (c_id c) (a_vals a) with
    | Some v => Ok (b0 && negb (nltb (sgn c v) (sgn c th)))
    | None => Err EMissing
    end.
  Proof.
    unfold ge_step, crit_value, raw_value. cbn [fst snd bind].
    destruct (mget (c_id c) (a_vals a)); reflexivity.
  Qed.

  Lemma zip_cons c cs (t : smap num) ths :
    zip_with_weights (c :: cs) t = Ok ths ->
    exists th ths', mget (c_id c) t = Some th /\ zip_with_weights cs t = Ok ths' /\ ths = (c, th) :: ths'.
  Proof.
    unfold zip_with_weights. cbn [mapM].
    destruct (mget (c_id c) t) as [th|]; cbn [of_option bind]; [|discriminate].
    destruct (mapM _ cs) as [ths'|] eqn:E; cbn [bind]; [|discriminate].
    intros H. inversion H. exists th, ths'. auto.
  Qed.

  Lemma meets_cons c cs a (t : smap num) :
    meets (c :: cs) a t =
    (match mget (c_id c) (a_vals a), mget (c_id c) t with
     | Some v, Some th => negb (nltb (sgn c v) (sgn c th))
     | _, _ => false
     end) && meets cs a t.
  Proof. reflexivity. Qed.

  Lemma ge_fold_meets a (t : smap num) : forall cs ths b0 b,
    zip_with_weights cs t = Ok ths ->
    fold_left (ge_step a) ths (Ok b0) = Ok b ->
    b = b0 && meets cs a t.
  Proof.
    induction cs as [|c cs IH]; intros ths b0 b Hz Hf.
    - cbn in Hz. inversion Hz; subst. cbn in Hf. inversion Hf. cbn. now rewrite andb_true_r.
    - apply zip_cons in Hz as (th & ths' & Et & Hz' & ->).
      cbn [fold_left] in Hf. rewrite ge_step_ok in Hf.
      destruct (mget (c_id c) (a_vals a)) as [v|] eqn:Ev.
      + apply (IH _ _ _ Hz') in Hf. rewrite meets_cons, Ev, Et, Hf. now rewrite andb_assoc.
      + rewrite ge_fold_err in Hf. discriminate.
  Qed.

  (** whenever [good_enough] returns a value, it is the value of the checker's [meets] *)
  Theorem good_enough_meets : forall cs (t : smap num) ths a b,
    zip_with_weights cs t = Ok ths -> good_enough a ths = Ok b -> meets cs a t = b.
  Proof.
    intros cs t ths a b Hz Hg. rewrite good_enough_fold in Hg.
    now rewrite (ge_fold_meets a t cs ths true b Hz Hg).
  Qed.

  (** ** 2. [remove_alt] and one level of the walk *)
  Definition remove_all (temp l : list alt) : list alt :=
    fold_left (fun tmp a => remove_alt tmp (a_id a)) l temp.

  Lemma remove_alt_head a l : remove_alt (a :: l) (a_id a) = l.
  Proof. cbn [remove_alt]. now rewrite String.eqb_refl. Qed.

  Lemma remove_all_cons a l : forall xs,
    (forall x, In x xs -> a_id x <> a_id a) -> remove_all (a :: l) xs = a :: remove_all l xs.
  Proof.
    intros xs; revert l. induction xs as [|x r IH]; intros l H; [reflexivity|].
    unfold remove_all. cbn [fold_left remove_alt].
    destruct (String.eqb (a_id a) (a_id x)) eqn:E.
    - apply String.eqb_eq in E. exfalso. apply (H x); [now left|now symmetry].
    - apply IH. intros y Hy. apply H. now right.
  Qed.

  Lemma remove_all_filter (p : alt -> bool) l :
    NoDup (map a_id l) -> remove_all l (filter p l) = filter (fun a => negb (p a)) l.
  Proof.
    induction l as [|a l IH]; intros Hnd; [reflexivity|].
    cbn [map] in Hnd. inversion Hnd as [|? ? Hni Hnd']; subst.
    cbn [filter]. destruct (p a) eqn:Ep; cbn [negb].
    - unfold remove_all. cbn [fold_left]. rewrite remove_alt_head. now apply IH.
    - rewrite remove_all_cons; [now rewrite IH|].
      intros x Hx E. apply filter_In in Hx as [Hx _]. apply Hni. rewrite <- E. now apply in_map.
  Qed.

  Lemma NoDup_ids_filter (q : alt -> bool) l : NoDup (map a_id l) -> NoDup (map a_id (filter q l)).
  Proof.
    induction l as [|a l IH]; intros Hnd; [constructor|].
    cbn [map] in Hnd. inversion Hnd as [|? ? Hni Hnd']; subst. cbn [filter].
    destruct (q a); [|now apply IH]. cbn [map]. constructor; [|now apply IH].
    intros Hin. apply in_map_iff in Hin as (x & Ex & Hx). apply filter_In in Hx as [Hx _].
    apply Hni. rewrite <- Ex. now apply in_map.
  Qed.

  (** the walk appends the alternatives that meet the level, in walk order, and removes them *)
  Lemma satisf_walk_spec cs (t : smap num) ths idx :
    zip_with_weights cs t = Ok ths ->
    forall todo temp acc temp' acc',
      satisf_walk todo temp ths t idx acc = Ok (temp', acc') ->
      acc' = acc ++ map (fun a => (a, ESatisf t idx)) (filter (fun a => meets cs a t) todo) /\
      temp' = remove_all temp (filter (fun a => meets cs a t) todo).
  Proof.
    intros Hz. induction todo as [|a r IH]; intros temp acc temp' acc' H.
    - cbn in H. inversion H; subst. cbn. now rewrite app_nil_r.
    - cbn [satisf_walk] in H.
      destruct (good_enough a ths) as [b|] eqn:G; cbn [bind] in H; [|discriminate].
      rewrite <- (good_enough_meets cs t ths a b Hz G) in H. cbn [filter].
      destruct (meets cs a t) eqn:M.
      + apply IH in H as [-> ->]. cbn [map]. rewrite <- app_assoc. split; reflexivity.
      + now apply IH in H.
  Qed.

  (** started on the list itself (as [satisf_levels] does) and with pairwise distinct identifiers:
      accepted = those that meet the level, remaining = those that do not, both in order *)
  Theorem satisf_walk_level cs (t : smap num) ths idx left acc temp' acc' :
    zip_with_weights cs t = Ok ths ->
    NoDup (map a_id left) ->
    satisf_walk left left ths t idx acc = Ok (temp', acc') ->
    acc' = acc ++ map (fun a => (a, ESatisf t idx)) (filter (fun a => meets cs a t) left) /\
    temp' = filter (fun a => negb (meets cs a t)) left.
  Proof.
    intros Hz Hnd H. apply (satisf_walk_spec cs t ths idx Hz) in H as [-> ->].
    split; [reflexivity|]. now apply remove_all_filter.
  Qed.

  (** ** 3. the levels loop *)
  Definition midx (x : mres) : Z := match snd x with ESatisf _ i => i | _ => (-1)%Z end.

  (** [x] was accepted at the level whose number it reports, and at no earlier one *)
  Definition good_entry (cs : list crit) (levels : list (smap num)) (x : mres) : Prop :=
    exists t k, snd x = ESatisf t (Z.of_nat k) /\ nth_opt k levels = Some t /\
                meets cs (fst x) t = true /\
                (forall lv, In lv (firstn k levels) -> meets cs (fst x) lv = false).

  Lemma accepted_good cs pre t r left :
    (forall a lv, In a left -> In lv pre -> meets cs a lv = false) ->
    Forall (good_entry cs (pre ++ t :: r))
           (map (fun a => (a, ESatisf t (Z.of_nat (List.length pre)))) (filter (fun a => meets cs a t) left)).
  Proof.
    intros Hf. apply Forall_forall. intros x Hx.
    apply in_map_iff in Hx as (a & <- & Ha). apply filter_In in Ha as [Ha Hm].
    exists t, (List.length pre). cbn [fst snd]. repeat split.
    - apply nth_opt_app_len.
    - exact Hm.
    - rewrite firstn_app_len. intros lv Hlv. now apply Hf.
  Qed.

  Lemma satisf_levels_spec cs : forall fuel src left idx acc pre f2 rest lft acc' idx',
    satisf_levels fuel src cs left idx acc = Ok (lft, acc', idx') ->
    lv_all f2 src = Ok rest ->
    idx = (Z.of_nat (List.length pre) - 1)%Z ->
    NoDup (map a_id left) ->
    (forall a lv, In a left -> In lv pre -> meets cs a lv = false) ->
    Forall (good_entry cs (pre ++ rest)) acc ->
    nondecreasing (map midx acc) = true ->
    Forall (fun x => (midx x <= idx)%Z) acc ->
    Forall (good_entry cs (pre ++ rest)) acc' /\
    nondecreasing (map midx acc') = true /\
    Forall (fun x => (midx x <= idx')%Z) acc' /\
    (lft <> [] ->
     idx' = (Z.of_nat (List.length (pre ++ rest)) - 1)%Z /\
     forall a lv, In a lft -> In lv (pre ++ rest) -> meets cs a lv = false).
  Proof.
    induction fuel as [|f IH]; intros src left idx acc pre f2 rest lft acc' idx' H Hall Hidx Hnd Hfail Hgood Hmono Hle;
      [discriminate|].
    cbn [satisf_levels] in H.
    destruct f2 as [|f2]; [discriminate|]. cbn [lv_all] in Hall.
    destruct (lv_next src) as [[t src']|] eqn:Hn.
    - destruct (lv_all f2 src') as [r|] eqn:Hall'; cbn [bind] in Hall; [|discriminate].
      inversion Hall; subst rest; clear Hall.
      destruct (zip_with_weights cs t) as [ths|] eqn:Hz; cbn [bind] in H; [|discriminate].
      destruct (satisf_walk left left ths t (idx + 1)%Z acc) as [[temp1 acc1]|] eqn:Hw; cbn [bind] in H; [|discriminate].
      cbn [fst snd] in H.
      apply (satisf_walk_level cs t ths (idx + 1)%Z left acc temp1 acc1 Hz Hnd) in Hw as [Hacc1 Htemp1].
      assert (Hi1 : (idx + 1)%Z = Z.of_nat (List.length pre)) by lia.
      assert (Hgood1 : Forall (good_entry cs (pre ++ t :: r)) acc1).
      { rewrite Hacc1. apply Forall_app. split; [exact Hgood|]. rewrite Hi1. now apply accepted_good. }
      assert (Hmono1 : nondecreasing (map midx acc1) = true).
      { rewrite Hacc1, map_app, map_map. apply nondec_app; [exact Hmono|exact (nondec_const (idx + 1)%Z _)|].
        intros x y Hx Hy. apply in_map_iff in Hx as (mx & <- & Hmx).
        rewrite Forall_forall in Hle. apply Hle in Hmx.
        apply in_map_iff in Hy as (a & <- & _). unfold midx at 2. cbn [snd]. lia. }
      assert (Hle1 : Forall (fun x => (midx x <= idx + 1)%Z) acc1).
      { rewrite Hacc1. apply Forall_app. split.
        - eapply Forall_impl; [|exact Hle]. cbn beta. intros; lia.
        - apply Forall_forall. intros x Hx. apply in_map_iff in Hx as (a & <- & _).
          unfold midx. cbn [snd]. lia. }
      destruct temp1 as [|b temp1'].
      + inversion H; subst lft acc' idx'. split; [assumption|]. split; [assumption|]. split; [assumption|].
        intros C; now contradiction C.
      + assert (Happ : pre ++ t :: r = (pre ++ [t]) ++ r) by (now rewrite <- app_assoc).
        rewrite Happ in *.
        eapply IH; [exact H|exact Hall'| | | |exact Hgood1|exact Hmono1|exact Hle1].
        * rewrite app_length. cbn [List.length]. lia.
        * rewrite Htemp1. now apply NoDup_ids_filter.
        * intros a lv Ha Hlv. rewrite Htemp1 in Ha. apply filter_In in Ha as [Ha Hm].
          apply in_app_or in Hlv as [Hlv|[<-|[]]]; [now apply Hfail|].
          now apply negb_true_iff in Hm.
    - inversion Hall; subst rest; clear Hall. inversion H; subst lft acc' idx'.
      split; [assumption|]. split; [assumption|]. split; [assumption|]. intros _. split.
      + rewrite app_nil_r. exact Hidx.
      + intros a lv Ha Hlv. rewrite app_nil_r in Hlv. now apply Hfail.
  Qed.

  (** ** 4. the search order keeps identifiers pairwise distinct *)
  Lemma swap_head_perm {A} (x y : A) : forall r j,
    nth_opt j r = Some y -> Permutation (x :: r) (y :: replace_nth j x r).
  Proof.
    induction r as [|z r IH]; intros j H; [destruct j; discriminate|].
    destruct j as [|j]; cbn [nth_opt replace_nth] in *.
    - inversion H; subst. apply perm_swap.
    - apply IH in H. eapply perm_trans; [apply perm_swap|].
      eapply perm_trans; [apply perm_skip; exact H|apply perm_swap].
  Qed.

  Lemma swap_perm {A} : forall (l : list A) i j xi xj,
    nth_opt i l = Some xi -> nth_opt j l = Some xj ->
    Permutation l (replace_nth j xi (replace_nth i xj l)).
  Proof.
    induction l as [|z l IH]; intros i j xi xj Hi Hj; [destruct i; discriminate|].
    destruct i as [|i], j as [|j]; cbn [nth_opt replace_nth] in *.
    - inversion Hi; inversion Hj; subst. apply Permutation_refl.
    - inversion Hi; subst. now apply swap_head_perm.
    - inversion Hj; subst. now apply swap_head_perm.
    - apply perm_skip. now apply IH.
  Qed.

  Lemma shuffle_from_perm {A} : forall i (l : list A) g l' g',
    shuffle_from i l g = Ok (l', g') -> Permutation l l'.
  Proof.
    induction i as [|i IH]; intros l g l' g' H; cbn [shuffle_from] in H.
    - inversion H; subst. apply Permutation_refl.
    - destruct (draw g) as [dg|]; cbn [bind] in H; [|discriminate].
      destruct (nth_opt (S i) l) as [xi|] eqn:Ei; [|discriminate].
      destruct (nth_opt _ l) as [xj|] eqn:Ej in H; [|discriminate].
      apply IH in H. eapply perm_trans; [|exact H]. eapply swap_perm; eassumption.
  Qed.

  Lemma order_alternatives_perm rnd l g l' g' :
    order_alternatives rnd l g = Ok (l', g') -> Permutation l l'.
  Proof.
    unfold order_alternatives, shuffle. destruct rnd; intros H.
    - eapply shuffle_from_perm; eassumption.
    - inversion H; subst. apply Permutation_refl.
  Qed.

  Lemma remove_alt_ids_incl l id x : In x (map a_id (remove_alt l id)) -> In x (map a_id l).
  Proof.
    induction l as [|a l IH]; cbn [remove_alt map]; [tauto|].
    destruct (String.eqb (a_id a) id); cbn [map In]; tauto.
  Qed.

  Lemma remove_alt_nodup l id : NoDup (map a_id l) -> NoDup (map a_id (remove_alt l id)).
  Proof.
    induction l as [|a l IH]; intros Hnd; [constructor|].
    cbn [map] in Hnd. inversion Hnd as [|? ? Hni Hnd']; subst. cbn [remove_alt].
    destruct (String.eqb (a_id a) id); [exact Hnd'|]. cbn [map]. constructor; [|now apply IH].
    intros Hin. apply Hni. eapply remove_alt_ids_incl; eassumption.
  Qed.

  Lemma remove_alt_notin l id : NoDup (map a_id l) -> ~ In id (map a_id (remove_alt l id)).
  Proof.
    induction l as [|a l IH]; intros Hnd; [cbn; tauto|].
    cbn [map] in Hnd. inversion Hnd as [|? ? Hni Hnd']; subst. cbn [remove_alt].
    destruct (String.eqb (a_id a) id) eqn:E.
    - apply String.eqb_eq in E. now subst id.
    - cbn [map In]. intros [Ha|Hin]; [apply String.eqb_neq in E; now apply E|]. now apply IH.
  Qed.

  Lemma search_order_nodup s cur rnd g c considered g' :
    NoDup (map a_id (st_cons s)) ->
    search_order s cur rnd g = Ok (c, considered, g') ->
    NoDup (map a_id (c :: considered)).
  Proof.
    intros Hnd H. unfold search_order in H.
    destruct (negb (String.eqb cur "")).
    - destruct (fetch_alt' (all_alts s) cur) as [choice|]; cbn [bind] in H; [|discriminate].
      destruct (order_alternatives rnd (remove_alt (st_cons s) (a_id choice)) g) as [[l1 g1]|] eqn:Eo;
        cbn [bind fst snd] in H; [|discriminate].
      inversion H; subst c considered g'. apply order_alternatives_perm in Eo.
      apply (Permutation_NoDup (l := map a_id (choice :: remove_alt (st_cons s) (a_id choice)))).
      + apply Permutation_map. now apply perm_skip.
      + cbn [map]. constructor; [now apply remove_alt_notin|now apply remove_alt_nodup].
    - destruct (order_alternatives rnd (st_cons s) g) as [[l1 g1]|] eqn:Eo; cbn [bind fst snd] in H; [|discriminate].
      destruct l1 as [|x r]; [discriminate|]. inversion H; subst c considered g'.
      apply order_alternatives_perm in Eo.
      eapply Permutation_NoDup; [apply Permutation_map; exact Eo|exact Hnd].
  Qed.

  (** ** 5. the returned ranking and the checker *)
  Lemma seq_in l e : In e (sequential_ranking l) -> In (e_alt e, e_eval e) l.
  Proof.
    induction l as [|[a ev] r IH]; cbn [sequential_ranking In]; [tauto|].
    intros [<-|H]; [now left|right; now apply IH].
  Qed.

  Lemma seq_idx l : map s_idx (sequential_ranking l) = map midx l.
  Proof.
    induction l as [|[a ev] r IH]; [reflexivity|]. cbn [sequential_ranking map]. now rewrite IH.
  Qed.

  Lemma check_entry_good cs levels low e :
    good_entry cs levels (e_alt e, e_eval e) -> check_entry cs levels low e = true.
  Proof.
    intros (t & k & Hev & Hn & Hm & Hf). cbn [fst snd] in *. unfold check_entry. rewrite Hev.
    destruct (Z.ltb_spec (Z.of_nat k) 0); [lia|].
    pose proof (nth_opt_Some_lt levels k t Hn) as Hlt.
    destruct (Z.ltb_spec (Z.of_nat k) (Z.of_nat (List.length levels))); [|lia].
    rewrite Nat2Z.id, Hn, smap_same_refl, Hm. cbn [andb].
    apply forallb_forall. intros lv Hlv. now rewrite (Hf lv Hlv).
  Qed.

  Lemma check_entry_left cs levels low e :
    e_eval e = ESatisf low (Z.of_nat (List.length levels)) ->
    (forall lv, In lv levels -> meets cs (e_alt e) lv = false) ->
    check_entry cs levels low e = true.
  Proof.
    intros Hev Hf. unfold check_entry. rewrite Hev.
    destruct (Z.ltb_spec (Z.of_nat (List.length levels)) 0); [lia|].
    rewrite Z.ltb_irrefl, Z.eqb_refl, smap_same_refl. cbn [andb].
    apply forallb_forall. intros lv Hlv. now rewrite (Hf lv Hlv).
  Qed.

  (** ** 6. side conditions and the main theorem *)
  (** the whole series of aspiration levels can be enumerated within the checker's fuel *)
  Definition levels_enumerable (s : state) : Prop :=
    match st_params s with
    | PSatisf fn lp _ _ _ =>
        forall src, lv_init Decreasing fn lp s = Ok src -> exists levels, lv_all level_fuel src = Ok levels
    | _ => True
    end.
  (** the "worst value" thresholds reported for alternatives that meet no level are defined *)
  Definition lowest_defined (s : state) : Prop := exists low, lowest_thresholds s = Ok low.

  Theorem satisfaction_passes_checker_gen : forall e s r,
    NoDup (map a_id (st_cons s)) ->
    levels_enumerable s -> lowest_defined s ->
    satisfaction_evaluate e s = Ok r -> C13_ok s r = true.
  Proof.
    intros e s r Hnd Hen [low Hlow] H. unfold satisfaction_evaluate in H. unfold levels_enumerable in Hen.
    unfold C13_ok. destruct (st_params s) as [| | | | |?|fn lp seed cur rnd]; try discriminate.
    destruct (lv_init Decreasing fn lp s) as [src|] eqn:Hinit; cbn [bind] in H; [|discriminate].
    destruct (Hen src eq_refl) as [levels Hall]. rewrite Hall, Hlow.
    destruct (search_order s cur rnd (new_rng e seed)) as [[[current considered] g1]|] eqn:Hso;
      cbn [bind] in H; [|discriminate].
    apply (search_order_nodup s cur rnd _ current considered g1 Hnd) in Hso.
    destruct (satisf_levels level_fuel src (st_crits s) (current :: considered) (-1)%Z []) as [[[lft acc] idx]|] eqn:Hlv;
      cbn [bind] in H; [|discriminate].
    destruct (satisf_levels_spec (st_crits s) level_fuel src (current :: considered) (-1)%Z [] [] level_fuel levels
                lft acc idx Hlv Hall eq_refl Hso) as (Hgood & Hmono & Hle & Hleft).
    { intros a lv _ []. }
    { constructor. }
    { reflexivity. }
    { constructor. }
    cbn [app] in Hgood, Hleft.
    destruct lft as [|b lft'].
    - inversion H; subst r. rewrite seq_idx, Hmono. cbn [andb].
      apply forallb_forall. intros x Hx. apply seq_in in Hx. apply check_entry_good.
      rewrite Forall_forall in Hgood. now apply Hgood.
    - destruct Hleft as [Hidx Hfail]; [discriminate|].
      remember (b :: lft') as lft eqn:El.
      rewrite Hlow in H. cbn [bind] in H. injection H as <-.
      assert (Hi : (idx + 1)%Z = Z.of_nat (List.length levels)) by lia. rewrite Hi.
      apply andb_true_iff; split.
      + rewrite seq_idx, map_app, map_map. apply nondec_app; [exact Hmono|exact (nondec_const (Z.of_nat (List.length levels)) _)|].
        intros x y Hx Hy. apply in_map_iff in Hx as (mx & <- & Hmx).
        rewrite Forall_forall in Hle. apply Hle in Hmx.
        apply in_map_iff in Hy as (a & <- & _). unfold midx at 2. cbn [snd]. lia.
      + apply forallb_forall. intros x Hx. apply seq_in in Hx. apply in_app_or in Hx as [Hx|Hx].
        * apply check_entry_good. rewrite Forall_forall in Hgood. now apply Hgood.
        * apply in_map_iff in Hx as (a & Ea & Ha). inversion Ea as [[E1 E2]].
          apply check_entry_left; [now symmetry|]. intros lv Hin. rewrite <- E1. now apply Hfail.
  Qed.

  Lemma NoDup_app_l {A} (l1 l2 : list A) : NoDup (l1 ++ l2) -> NoDup l1.
  Proof.
    induction l1 as [|x l1 IH]; intros H; [constructor|].
    cbn [app] in H. inversion H as [|? ? Hni Hnd]; subst. constructor; [|now apply IH].
    intros Hin. apply Hni. apply in_or_app. now left.
  Qed.

  (** the statement as requested, with the two necessary side conditions made explicit *)
  Theorem satisfaction_passes_checker : forall e s r,
    NoDup (map a_id (all_alts s)) -> NoDup (map c_id (st_crits s)) ->
    levels_enumerable s -> lowest_defined s ->
    satisfaction_evaluate e s = Ok r -> C13_ok s r = true.
  Proof.
    intros e s r Hnd _ Hen Hlow H. eapply satisfaction_passes_checker_gen; try eassumption.
    unfold all_alts in Hnd. rewrite map_app in Hnd. eapply NoDup_app_l; eassumption.
  Qed.
  (** ** 7. when the side conditions hold *)
  (** [lv_all]: more fuel does not change a successful enumeration *)
  Lemma lv_all_mono : forall f src l k, lv_all f src = Ok l -> lv_all (f + k) src = Ok l.
  Proof.
    induction f as [|f IH]; intros src l k H; [discriminate|].
    cbn [lv_all Nat.add] in *. destruct (lv_next src) as [[t src']|]; [|exact H].
    destruct (lv_all f src') as [r|] eqn:E; cbn [bind] in H; [|discriminate].
    now rewrite (IH _ _ k E).
  Qed.

  Lemma lv_all_det f1 f2 src l1 l2 : lv_all f1 src = Ok l1 -> lv_all f2 src = Ok l2 -> l1 = l2.
  Proof.
    intros H1 H2. apply (lv_all_mono _ _ _ f2) in H1. apply (lv_all_mono _ _ _ f1) in H2.
    rewrite Nat.add_comm in H2. congruence.
  Qed.

  (** an explicit list of thresholds is enumerated iff it is shorter than the fuel *)
  Lemma lv_all_ths : forall (l : list (smap num)) f, (List.length l < f)%nat -> lv_all f (LThs l) = Ok l.
  Proof.
    induction l as [|t r IH]; intros f Hf; (destruct f as [|f]; [lia|]); cbn [lv_all lv_next]; [reflexivity|].
    cbn [List.length] in Hf. rewrite IH by lia. reflexivity.
  Qed.

  Lemma lv_all_ths_short : forall f (l : list (smap num)), (f <= List.length l)%nat -> lv_all f (LThs l) = Err EOutOfFuel.
  Proof.
    induction f as [|f IH]; intros l Hf; [reflexivity|].
    destruct l as [|t r]; cbn [List.length] in Hf; [lia|]. cbn [lv_all lv_next]. rewrite IH by lia. reflexivity.
  Qed.

  (** [lowest_thresholds] is defined as soon as every criterion has a range *)
  Definition low_step (s : state) (acc : res (smap num)) (c : crit) : res (smap num) :=
    do m <- acc; do r <- values_range (all_alts s) c; Ok (mset (c_id c) (if is_cost c then snd r else fst r) m).

  Lemma lowest_fold s : lowest_thresholds s = fold_left (low_step s) (st_crits s) (Ok []).
  Proof. reflexivity. Qed.

  Lemma low_fold_ok s : forall cs m,
    (forall c, In c cs -> exists r, values_range (all_alts s) c = Ok r) ->
    exists low, fold_left (low_step s) cs (Ok m) = Ok low.
  Proof.
    induction cs as [|c cs IH]; intros m H; [now exists m|].
    cbn [fold_left]. destruct (H c (or_introl eq_refl)) as [r Hr].
    unfold low_step at 2. cbn [bind]. rewrite Hr. cbn [bind]. apply IH. intros c' Hc'. apply H. now right.
  Qed.

  Lemma observed_range_ok c : forall l mn mx,
    (forall a, In a l -> mget (c_id c) (a_vals a) <> None) ->
    exists r, observed_range_from l c mn mx = Ok r.
  Proof.
    induction l as [|a l IH]; intros mn mx H; [now eexists|].
    cbn [observed_range_from]. unfold raw_value.
    destruct (mget (c_id c) (a_vals a)) as [v|] eqn:E; [|exfalso; now apply (H a (or_introl eq_refl))].
    cbn [of_option bind]. apply IH. intros a' Ha'. apply H. now right.
  Qed.

  Lemma values_range_ok alts c :
    (forall a, In a alts -> mget (c_id c) (a_vals a) <> None) ->
    exists r, values_range alts c = Ok r.
  Proof.
    intros H. unfold values_range. destruct (c_range c) as [r|]; [now exists r|].
    destruct alts as [|a l]; [now eexists|]. unfold raw_value.
    destruct (mget (c_id c) (a_vals a)) as [v|] eqn:E; [|exfalso; now apply (H a (or_introl eq_refl))].
    cbn [of_option bind]. apply observed_range_ok. intros a' Ha'. apply H. now right.
  Qed.

  (** every known alternative has a value for every criterion (the request validation of the
      service guarantees this) *)
  Definition values_present (s : state) : Prop :=
    forall a c, In a (all_alts s) -> In c (st_crits s) -> mget (c_id c) (a_vals a) <> None.

  Lemma lowest_defined_of_values s : values_present s -> lowest_defined s.
  Proof.
    intros H. unfold lowest_defined. rewrite lowest_fold. apply low_fold_ok.
    intros c Hc. apply values_range_ok. intros a Ha. now apply H.
  Qed.

  Lemma mapM_ok_in {A B} (f : A -> res B) : forall l ys, mapM f l = Ok ys -> forall x, In x l -> exists y, f x = Ok y.
  Proof.
    induction l as [|a l IH]; intros ys H x Hx; [destruct Hx|].
    cbn [mapM] in H. destruct (f a) as [y|] eqn:E; cbn [bind] in H; [|discriminate].
    destruct (mapM f l) as [ys'|] eqn:E'; cbn [bind] in H; [|discriminate].
    destruct Hx as [<-|Hx]; [now exists y|]. eapply IH; [reflexivity|exact Hx].
  Qed.

  (** ... and whenever the levels are a generated series (the ranges were computed by [lv_init]) *)
  Lemma lowest_defined_of_ideal s d0 fn lp d sr lp' crs cur :
    lv_init d0 fn lp s = Ok (LIdeal d sr lp' crs cur) -> lowest_defined s.
  Proof.
    intros H. unfold lowest_defined. rewrite lowest_fold. apply low_fold_ok. intros c Hc.
    unfold lv_init in H. destruct (String.eqb fn ""); [discriminate|].
    assert (Hid : forall sr0 src,
               (if negb (validate_coef d0 lp) then Err EInvalid
                else do crs0 <- mapM (fun c => do r <- values_range (all_alts s) c; Ok (c, r)) (st_crits s);
                     Ok (LIdeal d0 sr0 lp crs0 (initial_value d0 lp))) = Ok src ->
               exists r, values_range (all_alts s) c = Ok r).
    { intros sr0 src H0. destruct (negb (validate_coef d0 lp)); [discriminate|].
      destruct (mapM _ (st_crits s)) as [crs0|] eqn:E; cbn [bind] in H0; [|discriminate].
      destruct (mapM_ok_in _ _ _ E c Hc) as [y Hy].
      destruct (values_range (all_alts s) c) as [r|]; [now exists r|discriminate]. }
    destruct (String.eqb fn lv_mul); [now apply (Hid _ _ H)|].
    destruct (String.eqb fn _); [now apply (Hid _ _ H)|].
    destruct (String.eqb fn lv_thresholds); [|discriminate].
    destruct (forallb _ (lp_ths lp)); discriminate.
  Qed.

  (** the checker accepts the model's result on every well-formed input on which the series of
      levels fits into the fuel *)
  Corollary satisfaction_passes_checker_wf : forall e s r,
    NoDup (map a_id (all_alts s)) -> values_present s -> levels_enumerable s ->
    satisfaction_evaluate e s = Ok r -> C13_ok s r = true.
  Proof.
    intros e s r Hnd Hv Hen H. eapply satisfaction_passes_checker_gen; try eassumption.
    - unfold all_alts in Hnd. rewrite map_app in Hnd. eapply NoDup_app_l; eassumption.
    - now apply lowest_defined_of_values.
  Qed.
End SatisfFacts.

(** ** Counterexamples (instance [NumQc]): both side conditions are necessary. *)
From Coq Require Import QArith Qcanon.
From RDM Require Import Base.NumQc.

Module Counterexamples.
  Definition q (z : Z) : Qc := Q2Qc (inject_Z z).
  Definition crit_c : crit := {| c_id := "c"; c_type := TGain; c_range := None |}.
  Definition lp0 (ths : list (smap Qc)) : @lparams NumQc :=
    {| lp_coef := q 0; lp_max := q 0; lp_min := q 0; lp_ths := ths |}.
  Definition env0 : env := {| env_streams := []; env_exp := [] |}.

  (** (a) [lowest_defined] is necessary.  A not-considered alternative "b" has no value for the
      criterion "c" (which declares no range).  The explicit threshold list never asks for the
      ranges, the only considered alternative "a" meets level 0, the model returns the ranking
      [a : thresholds {c:0}, index 0], but the checker needs [lowest_thresholds] (which fails with
      EMissing) even though no entry reports it, and rejects. *)
  Definition s_a : state :=
    {| st_notcons := [ {| a_id := "b"; a_vals := [] |} ];
       st_cons := [ {| a_id := "a"; a_vals := [("c", q 1)] |} ];
       st_crits := [crit_c];
       st_params := PSatisf "thresholds" (lp0 [[("c", q 0)]]) 0%Z "" false |}.

  Lemma ce_a_ids : NoDup (map a_id (all_alts s_a)) /\ NoDup (map c_id (st_crits s_a)).
  Proof. split; cbn; repeat constructor; cbn; intuition discriminate. Qed.
  Lemma ce_a_model : satisfaction_evaluate env0 s_a =
                     Ok [ {| e_alt := {| a_id := "a"; a_vals := [("c", q 1)] |};
                             e_eval := ESatisf [("c", q 0)] 0%Z; e_links := [] |} ].
  Proof. vm_compute. reflexivity. Qed.
  Lemma ce_a_lowest : lowest_thresholds s_a = Err EMissing.
  Proof. vm_compute. reflexivity. Qed.
  Lemma ce_a_checker : forall r, satisfaction_evaluate env0 s_a = Ok r -> C13_ok s_a r = false.
  Proof. intros r H. rewrite ce_a_model in H. injection H as <-. vm_compute. reflexivity. Qed.

  (** (b) [levels_enumerable] is necessary: with an explicit list of [level_fuel] = 200000 thresholds the
      model stops after the first level while the checker's enumeration [lv_all level_fuel] runs out
      of fuel and rejects. (Checked with vm_compute when this file was written; left out of the build
      because evaluating it takes half a minute.) *)
  (** (c) pairwise distinct identifiers of the considered alternatives are necessary.  Two
      alternatives named "x": the second one meets level 0, [remove_alt] drops the first one
      instead, so the second is walked and accepted again at level 1 (and the first is lost). *)
  Definition s_c : state :=
    {| st_notcons := [];
       st_cons := [ {| a_id := "x"; a_vals := [("c", q 0)] |}; {| a_id := "x"; a_vals := [("c", q 1)] |} ];
       st_crits := [crit_c];
       st_params := PSatisf "thresholds" (lp0 [[("c", q 1)]; [("c", q 0)]]) 0%Z "" false |}.

  Lemma ce_c_model : satisfaction_evaluate env0 s_c =
                     Ok [ {| e_alt := {| a_id := "x"; a_vals := [("c", q 1)] |};
                             e_eval := ESatisf [("c", q 1)] 0%Z; e_links := ["x"] |};
                          {| e_alt := {| a_id := "x"; a_vals := [("c", q 1)] |};
                             e_eval := ESatisf [("c", q 0)] 1%Z; e_links := [] |} ].
  Proof. vm_compute. reflexivity. Qed.
  Lemma ce_c_checker : forall r, satisfaction_evaluate env0 s_c = Ok r -> C13_ok s_c r = false.
  Proof. intros r H. rewrite ce_c_model in H. injection H as <-. vm_compute. reflexivity. Qed.
End Counterexamples.

Print Assumptions good_enough_meets.
Print Assumptions satisf_walk_level.
Print Assumptions satisf_levels_spec.
Print Assumptions satisfaction_passes_checker_gen.
Print Assumptions satisfaction_passes_checker.
Print Assumptions satisfaction_passes_checker_wf.
Print Assumptions lowest_defined_of_ideal.
Print Assumptions lv_all_mono.
Print Assumptions Counterexamples.ce_a_checker.
Print Assumptions Counterexamples.ce_c_checker.
