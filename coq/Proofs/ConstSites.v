(** * The constants of the Go source that the model has to agree with (inventory regenerated on every run in Gen/Consts.v
    by tools/gen_consts.py): the names the request decoder and the model dispatch on, and every non-zero floating-point literal
    of the non-test code. A numeric constant of the source is tied to the *definition* the model uses, in both instances
    (NumQc here: the exact decimal value; NumF in Proofs/ConstSitesF.v: the binary64 the Go compiler rounds the literal to,
    compared bit by bit - kept apart so that Properties/*.v do not load the floating-point library).
    Matching is by package directory and value, so renaming an identifier or a function, or moving code between the files
    of a package, changes nothing; changing a value, or writing a new non-zero literal the model does not know, breaks
    [consts_agree] (Properties/C03 C04 C05 C11 C19 import it). *)
From Coq Require Import List String Bool ZArith QArith Qcanon.
From RDM Require Import Base.Num Base.NumQc Gen.Consts.
Import ListNotations.
Local Open Scope string_scope.

(* package directory, value: names of methods, biases, strategies, parameter keys, generated-id prefixes, separators *)
Definition expected_names : list (string * string) := [
  ("logic/biases/anchoring", "anchoring");
  ("logic/biases/anchoring", "expFromZero");
  ("logic/biases/anchoring", "ideal");
  ("logic/biases/anchoring", "inline");
  ("logic/biases/anchoring", "linear");
  ("logic/biases/anchoring", "nadir");
  ("logic/biases/anchoring", "newCriterion");
  ("logic/biases/criteria-concealment", "__concealedCriterion__");
  ("logic/biases/criteria-concealment", "criteriaConcealment");
  ("logic/biases/criteria-mixing", "criteriaMixing");
  ("logic/biases/criteria-omission", "criteriaOmission");
  ("logic/biases/fatigue", "const");
  ("logic/biases/fatigue", "expFromZero");
  ("logic/biases/fatigue", "fatigue");
  ("logic/biases/preference-reversal", "preferenceReversal");
  ("logic/limited-rationality/aspect-elimination", "aspectEliminationHeuristic");
  ("logic/limited-rationality/majority", "allow");
  ("logic/limited-rationality/majority", "current");
  ("logic/limited-rationality/majority", "majorityHeuristic");
  ("logic/limited-rationality/majority", "newer");
  ("logic/limited-rationality/majority", "random");
  ("logic/limited-rationality/satisfaction", "satisfactionHeuristic");
  ("logic/limited-rationality/satisfaction-levels", "idealAdditiveCoefficient");
  ("logic/limited-rationality/satisfaction-levels", "idealMultipliedCoefficient");
  ("logic/limited-rationality/satisfaction-levels", "idealSubtractiveCoefficient");
  ("logic/limited-rationality/satisfaction-levels", "thresholds");
  ("logic/preference-func/choquet", ",");
  ("logic/preference-func/choquet", "choquetIntegral");
  ("logic/preference-func/electreIII", "electreCriteria");
  ("logic/preference-func/electreIII", "electreDistillation");
  ("logic/preference-func/electreIII", "electreIII");
  ("logic/preference-func/owa", "owa");
  ("logic/preference-func/weighted-sum", "weightedSum");
  ("model", "cost");
  ("model", "gain");
  ("model", "weights");
  ("model/criteria-ordering", "random");
  ("model/criteria-ordering", "strongest");
  ("model/criteria-ordering", "strongestByProbability");
  ("model/criteria-ordering", "weakest");
  ("model/criteria-ordering", "weakestByProbability");
  ("model/reference-criterion", "importanceRatio");
  ("model/reference-criterion", "randomUniform");
  ("model/reference-criterion", "randomWeighted");
  ("utils", "expFromZero");
  ("utils", "linear")
].

Inductive role :=
| RModel (what : string) (q : Qc)    (* a constant of class Num: its value in NumQc *)
| RDecoder (what : string) (q : Qc)  (* a default the decoder of the requests fills in (vlib/emit.py), not a constant of the model *)
| RUnit                                          (* 1.0 / -1.0 used as a sign: [none], [nopp none] in the model *)
| RNotReached.                                   (* test helpers, not reachable from MakeDecision *)

Definition qc_of (n d : Z) : Qc := Q2Qc (Qmake n (Z.to_pos d)).

(* package directory, role *)
Definition classified_floats : list (string * role) := [
  ("logic/biases/anchoring", RModel "_minAllowedWeight = c_001" (c_001 (Num := NumQc)));
  ("logic/biases/criteria-mixing", RDecoder "default mixingRatio" (qc_of 1 2));
  ("logic/biases/fatigue", RModel "sign draw >= 0.5 = c_half" (c_half (Num := NumQc)));
  ("logic/biases/fatigue", RUnit);
  ("logic/limited-rationality/aspect-elimination", RModel "random criteria order draw < 0.5 = c_half" (c_half (Num := NumQc)));
  ("logic/limited-rationality/majority", RModel "random winner draw < 0.5 = c_half" (c_half (Num := NumQc)));
  ("logic/limited-rationality/majority", RModel "eps = c_eps6" (c_eps6 (Num := NumQc)));
  ("logic/preference-func/choquet", RModel "tie of criteria values = c_eps5" (c_eps5 (Num := NumQc)));
  ("logic/preference-func/electreIII", RModel "DefaultDistillationFunc.A = c_dist_a" (c_dist_a (Num := NumQc)));
  ("logic/preference-func/electreIII", RModel "DefaultDistillationFunc.B = c_dist_b" (c_dist_b (Num := NumQc)));
  ("model", RModel "roundPrecision (inside nround8)" (qc_of 100000000 1));
  ("model/criteria-bounding", RDecoder "default allowedValuesRangeScaling" (qc_of (-1) 1));
  ("testUtils", RNotReached);
  ("utils", RNotReached)
].

Definition value_matches (q : Qc) (site : string * string * string * (Z * Z)) : bool :=
  let '(_, _, _, (n, d)) := site in (0 <? d)%Z && Qc_eq_bool (qc_of n d) q.

Definition explains (r : role) (site : string * string * string * (Z * Z)) : bool :=
  match r with
  | RModel _ q | RDecoder _ q => value_matches q site
  | RUnit => value_matches (qc_of 1 1) site || value_matches (qc_of (-1) 1) site
  | RNotReached => true
  end.

Definition dir_of (site : string * string * string * (Z * Z)) : string := let '(d, _, _, _) := site in d.

(* every literal of the source is one the classification explains ... *)
Definition unexplained_literals : list (string * string * string * (Z * Z)) :=
  filter (fun s => negb (existsb (fun c => String.eqb (fst c) (dir_of s) && explains (snd c) s) classified_floats)) go_float_literals.

(* ... and every constant the model relies on is still written in the source, in its package, with the model's value *)
Definition needs_site (r : role) : bool := match r with RModel _ _ | RDecoder _ _ => true | _ => false end.
Definition what_of (r : role) : string := match r with RModel w _ | RDecoder w _ => w | RUnit => "unit" | RNotReached => "not reached" end.
Definition lost_constants : list (string * string) :=
  map (fun c => (fst c, what_of (snd c)))
      (filter (fun c => needs_site (snd c) && negb (existsb (fun s => String.eqb (fst c) (dir_of s) && explains (snd c) s) go_float_literals))
              classified_floats).

Definition lost_names : list (string * string) :=
  filter (fun e => negb (existsb (fun s => let '(d, _, v) := s in String.eqb d (fst e) && String.eqb v (snd e)) go_string_consts)) expected_names.

Definition consts_agree : bool :=
  match unexplained_literals, lost_constants, lost_names with [], [], [] => true | _, _, _ => false end.

(* what a broken obligation prints *)
Definition consts_disagreement := (unexplained_literals, lost_constants, lost_names).

(* the obligation [consts_agree = true] over the regenerated inventory is Proofs/ConstAgree.v, kept apart so that these
   definitions still compile - and [consts_disagreement] can be printed - when it fails *)

(** the rounding helper of the model multiplies and divides by the classified roundPrecision (binary64: Proofs/ConstSitesF.v) *)
Lemma round8_uses_precision_Qc (x : Qc) :
  nround8 (Num := NumQc) x = Q2Qc (inject_Z (q_round_half_away (this x * inject_Z 100000000)) / inject_Z 100000000).
Proof. reflexivity. Qed.
