(** * C03: the utility methods of the model compute their defining aggregate (instance [NumQc]) *)
From Coq Require Import ZArith QArith Qcanon Qabs Bool List String Ascii Lia Lqa Permutation Sorted.
From RDM Require Import Base.Num Base.NumQc Base.Util Model.Data Model.Rank Model.Utility
  Spec.Aggregates Check.C03 Proofs.SortFacts Proofs.RankFacts.
Import ListNotations.
Local Open Scope string_scope.
Local Open Scope list_scope.

(** ** Generic facts on results *)
Lemma bind_ok {A B} (r : res A) (f : A -> res B) b :
  bind r f = Ok b -> exists a, r = Ok a /\ f a = Ok b.
Proof. destruct r as [a|e]; cbn [bind]; [eauto|discriminate]. Qed.

Lemma mapM_ok_in {A B} (f : A -> res B) l ys x :
  mapM f l = Ok ys -> In x l -> exists y, f x = Ok y /\ In y ys.
Proof.
  revert ys. induction l as [|a r IH]; intros ys H Hin; [destruct Hin|].
  cbn [mapM] in H. apply bind_ok in H as (y & Hy & H). apply bind_ok in H as (ys' & Hys & H).
  injection H as <-. destruct Hin as [<-|Hin].
  - exists y. split; [exact Hy|now left].
  - destruct (IH _ Hys Hin) as (y' & A1 & A2). exists y'. split; [exact A1|now right].
Qed.

Lemma mapM_ok_in_inv {A B} (f : A -> res B) l ys y :
  mapM f l = Ok ys -> In y ys -> exists x, In x l /\ f x = Ok y.
Proof.
  revert ys. induction l as [|a r IH]; intros ys H Hin.
  - cbn [mapM] in H. injection H as <-. destruct Hin.
  - cbn [mapM] in H. apply bind_ok in H as (y0 & Hy & H). apply bind_ok in H as (ys' & Hys & H).
    injection H as <-. destruct Hin as [<-|Hin].
    + exists a. split; [now left|exact Hy].
    + destruct (IH _ Hys Hin) as (x & A1 & A2). exists x. split; [now right|exact A2].
Qed.

Lemma mapM_ext_in {A B} (f g : A -> res B) l :
  (forall x, In x l -> f x = g x) -> mapM f l = mapM g l.
Proof.
  induction l as [|a r IH]; intros H; [reflexivity|].
  cbn [mapM]. rewrite (H a) by now left. rewrite IH; [reflexivity|].
  intros x Hx. apply H. now right.
Qed.

Lemma mapM_length {A B} (f : A -> res B) l ys : mapM f l = Ok ys -> List.length ys = List.length l.
Proof.
  revert ys. induction l as [|a r IH]; intros ys H; cbn [mapM] in H.
  - now injection H as <-.
  - apply bind_ok in H as (y0 & Hy & H). apply bind_ok in H as (ys' & Hys & H).
    injection H as <-. cbn [List.length]. f_equal. now apply IH.
Qed.

Definition get_ok {A} (d : A) (r : res A) : A := match r with Ok a => a | Err _ => d end.
Lemma get_ok_eq {A} (d : A) r : is_ok r = true -> r = Ok (get_ok d r).
Proof. destruct r; [reflexivity|discriminate]. Qed.

(** ** 1. Left folds are the recursive sums on exact rationals *)
Ltac qcn := cbn [num nadd nsub nmul ndiv nopp nzero none NumQc] in *.
(* close an equation of exact rationals by [ring] *)
Ltac qcr := qcn; match goal with |- @eq _ ?a ?b => change (@eq Qc a b) end; ring.

Lemma fold_add_acc (l : list Qc) (acc : Qc) : fold_left Qcplus l acc = (acc + nsum l)%Qc.
Proof.
  revert acc. induction l as [|x r IH]; intros acc; cbn [fold_left nsum]; qcn.
  - ring.
  - rewrite IH. ring.
Qed.

Theorem nsum_left_eq : forall l : list (@num NumQc), nsum_left l = nsum l.
Proof.
  intros l. unfold nsum_left. qcn. rewrite fold_add_acc. ring.
Qed.

Lemma dot_left_acc (vs ws : list Qc) (acc : Qc) :
  fold_left (fun a p => (a + fst p * snd p)%Qc) (zip vs ws) acc = (acc + dot vs ws)%Qc.
Proof.
  revert ws acc. induction vs as [|x r IH]; intros ws acc.
  - cbn [zip fold_left dot]. qcn. ring.
  - destruct ws as [|y s]; cbn [zip fold_left dot fst snd]; qcn; [ring|].
    rewrite IH. ring.
Qed.

(* holds for lists of any lengths: [zip] and [dot] both truncate *)
Lemma dot_left_eq_gen : forall vs ws : list (@num NumQc), dot_left vs ws = dot vs ws.
Proof. intros vs ws. unfold dot_left. qcn. rewrite dot_left_acc. ring. Qed.

Theorem dot_left_eq : forall vs ws : list (@num NumQc),
  List.length vs = List.length ws -> dot_left vs ws = dot vs ws.
Proof. intros vs ws _. apply dot_left_eq_gen. Qed.

(** ** 2. OWA *)
Lemma qc_ltb_false_iff (a b : Qc) : qc_ltb b a = false <-> (a <= b)%Qc.
Proof.
  unfold qc_ltb. rewrite negb_false_iff. apply qc_leb_iff.
Qed.

Lemma qc_ltb_true_iff (a b : Qc) : qc_ltb a b = true <-> (a < b)%Qc.
Proof.
  unfold qc_ltb. rewrite negb_true_iff. split.
  - intros H. apply Qcnot_le_lt. intros C. apply qc_leb_iff in C. unfold qc_leb in C. congruence.
  - intros H. destruct (Qle_bool b a) eqn:E; [|reflexivity].
    apply (proj1 (qc_leb_iff b a)) in E. exfalso. exact (Qclt_not_le _ _ H E).
Qed.

Lemma qle_trans_b (a b c : Qc) : SortFacts.le qc_ltb a b -> SortFacts.le qc_ltb b c -> SortFacts.le qc_ltb a c.
Proof. unfold SortFacts.le. rewrite !qc_ltb_false_iff. apply Qcle_trans. Qed.

Lemma qlt_le_b (a b : Qc) : qc_ltb a b = true -> SortFacts.le qc_ltb a b.
Proof.
  unfold SortFacts.le. rewrite qc_ltb_true_iff, qc_ltb_false_iff. apply Qclt_le_weak.
Qed.

Lemma qle_antisym_b (a b : Qc) : SortFacts.le qc_ltb a b -> SortFacts.le qc_ltb b a -> a = b.
Proof. unfold SortFacts.le. rewrite !qc_ltb_false_iff. apply Qcle_antisym. Qed.

(* the ascending sort of a list of rationals depends only on the multiset *)
Lemma qsort_perm (l1 l2 : list Qc) : Permutation l1 l2 -> isort qc_ltb l1 = isort qc_ltb l2.
Proof.
  intros P. apply isort_perm_invariant; [exact qle_trans_b|exact qlt_le_b| |exact P].
  intros a b _ _. apply qle_antisym_b.
Qed.

Lemma qsort_sorted (l : list Qc) : StronglySorted (fun a b => (a <= b)%Qc) (isort qc_ltb l).
Proof.
  assert (S := isort_sorted qc_ltb l qle_trans_b qlt_le_b).
  induction S as [|x r Sr IH Hall]; constructor; [exact IH|].
  rewrite Forall_forall in *. intros y Hy. apply qc_ltb_false_iff. now apply Hall.
Qed.

(* sorting commutes with a projection that reflects the comparison *)
Lemma insert_map {A B} (f : A -> B) (ltA : A -> A -> bool) (ltB : B -> B -> bool) :
  (forall x y, ltA x y = ltB (f x) (f y)) ->
  forall x l, map f (insert ltA x l) = insert ltB (f x) (map f l).
Proof.
  intros H x l. induction l as [|y r IH]; cbn [insert map]; [reflexivity|].
  rewrite <- H. destruct (ltA y x); cbn [map]; [now rewrite IH|reflexivity].
Qed.

Lemma isort_map {A B} (f : A -> B) (ltA : A -> A -> bool) (ltB : B -> B -> bool) :
  (forall x y, ltA x y = ltB (f x) (f y)) ->
  forall l, map f (isort ltA l) = isort ltB (map f l).
Proof.
  intros H l. induction l as [|x r IH]; cbn [isort map]; [reflexivity|].
  rewrite (insert_map f ltA ltB H). now rewrite IH.
Qed.

Lemma sorted_weights_snd (wc : list (@wcrit NumQc)) :
  map snd (isort wc_lt wc) = isort nltb (map snd wc).
Proof. apply isort_map. intros x y. reflexivity. Qed.

Theorem owa_value_spec : forall (wc : list (@wcrit NumQc)) (a : @alt NumQc) v,
  owa_value wc a = Ok v -> v = owa_spec (map snd wc) (mvals (a_vals a)).
Proof.
  intros wc a v H. unfold owa_value in H.
  destruct (negb (Nat.eqb (List.length (a_vals a)) (List.length (isort wc_lt wc)))) eqn:E; [discriminate|].
  injection H as <-. unfold owa_spec. rewrite dot_left_eq_gen. now rewrite sorted_weights_snd.
Qed.

(* the length test of [owa_value] *)
Lemma owa_value_length (wc : list (@wcrit NumQc)) (a : @alt NumQc) v :
  owa_value wc a = Ok v -> List.length (a_vals a) = List.length wc.
Proof.
  intros H. unfold owa_value in H.
  destruct (negb (Nat.eqb (List.length (a_vals a)) (List.length (isort wc_lt wc)))) eqn:E; [discriminate|].
  apply negb_false_iff, Nat.eqb_eq in E. now rewrite isort_length in E.
Qed.

Theorem owa_spec_perm : forall ws ws' vs vs' : list (@num NumQc),
  Permutation ws ws' -> Permutation vs vs' -> owa_spec ws vs = owa_spec ws' vs'.
Proof.
  intros ws ws' vs vs' Pw Pv. unfold owa_spec. qcn.
  change (@nltb NumQc) with qc_ltb.
  now rewrite (qsort_perm ws ws' Pw), (qsort_perm vs vs' Pv).
Qed.

(** ** 3. Weighted sum *)
Theorem ws_value_is_unweighted : forall (wc : list (@wcrit NumQc)) (a : @alt NumQc) v,
  ws_value wc a = Ok v ->
  exists vs, mapM (fun x => crit_value a (fst x)) wc = Ok vs /\ v = nsum vs.
Proof.
  intros wc a v H. unfold ws_value in H. apply bind_ok in H as (vs & Hvs & H).
  injection H as <-. exists vs. split; [exact Hvs|apply nsum_left_eq].
Qed.

Lemma mapM_scaled (a : @alt NumQc) (wc : list (@wcrit NumQc)) :
  (forall x, In x wc -> snd x = none) ->
  mapM (fun x => do v <- crit_value a (fst x); Ok (nmul (snd x) v)) wc
  = mapM (fun x => crit_value a (fst x)) wc.
Proof.
  intros H. apply mapM_ext_in. intros x Hx. rewrite (H x Hx).
  destruct (crit_value a (fst x)) as [v|e]; cbn [bind]; [|reflexivity].
  f_equal. qcn. ring.
Qed.

Theorem ws_value_unit_weights : forall (wc : list (@wcrit NumQc)) (a : @alt NumQc),
  (forall x, In x wc -> snd x = none) -> ws_value wc a = ws_spec wc a.
Proof.
  intros wc a H. unfold ws_value, ws_spec. rewrite (mapM_scaled a wc H).
  destruct (mapM (fun x => crit_value a (fst x)) wc) as [vs|e]; cbn [bind]; [|reflexivity].
  f_equal. apply nsum_left_eq.
Qed.

(* ws_spec is defined whenever ws_value is *)
Lemma ws_spec_defined (wc : list (@wcrit NumQc)) (a : @alt NumQc) v :
  ws_value wc a = Ok v -> exists s, ws_spec wc a = Ok s.
Proof.
  intros H. unfold ws_value in H. apply bind_ok in H as (vs & Hvs & _).
  unfold ws_spec.
  assert (exists ys, mapM (fun x => do v <- crit_value a (fst x); Ok (nmul (snd x) v)) wc = Ok ys) as (ys & ->).
  { revert vs Hvs. induction wc as [|x r IH]; intros vs Hvs; cbn [mapM] in *; [eauto|].
    apply bind_ok in Hvs as (y & Hy & Hvs). apply bind_ok in Hvs as (ys & Hys & _).
    rewrite Hy. cbn [bind]. destruct (IH _ Hys) as (zs & ->). cbn [bind]. eauto. }
  cbn [bind]. eauto.
Qed.

(** The full statement "weighted sum computes the weighted sum" is false in the model (defect D2). *)
Definition cx_crit_cost : @crit NumQc := {| c_id := "Cost"; c_type := TCost; c_range := None |}.
Definition cx_crit_color : @crit NumQc := {| c_id := "Color"; c_type := TGain; c_range := None |}.
Definition cx_wc : list (@wcrit NumQc) := [(cx_crit_cost, Q2Qc 1); (cx_crit_color, Q2Qc 2)].
Definition cx_alt : @alt NumQc := {| a_id := "x"; a_vals := [("Color", Q2Qc 10); ("Cost", Q2Qc 200)] |}.

Definition res_this (r : res Qc) : res Q := match r with Ok v => Ok (this v) | Err e => Err e end.

Example ws_value_cx : res_this (ws_value cx_wc cx_alt) = Ok (-190 # 1)%Q.
Proof. vm_compute. reflexivity. Qed.
Example ws_spec_cx : res_this (ws_spec cx_wc cx_alt) = Ok (-180 # 1)%Q.
Proof. vm_compute. reflexivity. Qed.

Theorem ws_value_refuted : exists (wc : list (@wcrit NumQc)) (a : @alt NumQc) v v',
  ws_value wc a = Ok v /\ ws_spec wc a = Ok v' /\ v <> v'.
Proof.
  exists cx_wc, cx_alt, (get_ok nzero (ws_value cx_wc cx_alt)), (get_ok nzero (ws_spec cx_wc cx_alt)).
  split; [|split].
  - apply get_ok_eq. vm_compute. reflexivity.
  - apply get_ok_eq. vm_compute. reflexivity.
  - intros H. apply (f_equal this) in H. vm_compute in H. discriminate H.
Qed.

(** ** 4a. Choquet: the grouped computation is the textbook integral when no two consecutive
    sorted values are distinct and within 1e-5 *)
Fixpoint gapped_from (x : Qc) (l : list Qc) : Prop :=
  match l with
  | [] => True
  | y :: r => (x = y \/ @floats_are_equal NumQc x y c_eps5 = false) /\ gapped_from y r
  end.
(* every two consecutive values are equal or differ by more than 1e-5 *)
Definition gapped (l : list Qc) : Prop :=
  match l with [] => True | x :: r => gapped_from x r end.

(* the boolean test of the definition, read on the rationals: |x - y| > 1e-5 *)
Lemma fae_false_iff (x y : Qc) :
  @floats_are_equal NumQc x y c_eps5 = false <-> (Q2Qc (1 # 100000) < qc_abs (x - y))%Qc.
Proof.
  unfold floats_are_equal. qcn. change (@nleb NumQc) with qc_leb.
  change (@c_eps5 NumQc) with (Q2Qc (1 # 100000)).
  rewrite <- qc_ltb_true_iff. unfold qc_ltb, qc_leb. now rewrite negb_true_iff.
Qed.

Lemma gapped_from_gapped x l : gapped_from x l -> gapped l.
Proof. destruct l as [|y r]; cbn [gapped_from gapped]; [trivial|now intros [_ H]]. Qed.

Lemma fae_refl (v : Qc) : @floats_are_equal NumQc v v c_eps5 = true.
Proof.
  unfold floats_are_equal. qcn. replace (v - v)%Qc with (Q2Qc 0) by ring. reflexivity.
Qed.

Lemma textbook_skip_group (mu : list string -> res Qc) : forall rest v r,
  gapped_from v (map snd rest) ->
  choquet_textbook_from rest v mu = Ok r ->
  choquet_textbook_from (skipn (group_len v rest) rest) v mu = Ok r
  /\ gapped_from v (map snd (skipn (group_len v rest) rest)).
Proof.
  induction rest as [|[c' v'] rest' IH]; intros v r G H.
  - cbn [group_len skipn]. now split.
  - cbn [group_len]. cbn [map snd gapped_from] in G. destruct G as [G1 G2].
    destruct (@floats_are_equal NumQc v v' c_eps5) eqn:E.
    + assert (v = v') as <- by (destruct G1 as [G1|G1]; [exact G1|congruence]).
      cbn [skipn]. cbn [choquet_textbook_from] in H.
      apply bind_ok in H as (m & Hm & H). apply bind_ok in H as (r' & Hr' & H).
      injection H as <-. destruct (IH v r' G2 Hr') as [A B]. split; [|exact B].
      rewrite A. f_equal. qcr.
    + cbn [skipn]. split; [exact H|]. cbn [map snd gapped_from]. split; [right; exact E|exact G2].
Qed.

Lemma skipn_length_le {A} n (l : list A) : (List.length (skipn n l) <= List.length l)%nat.
Proof. rewrite skipn_length. lia. Qed.

Lemma choquet_total_textbook (w : smap Qc) : forall fuel sorted prev acc comps t,
  (List.length sorted < fuel)%nat ->
  gapped (map snd sorted) ->
  choquet_textbook_from sorted prev (fun names => union_weight names w) = Ok t ->
  exists cs, choquet_total fuel sorted w prev acc comps = Ok ((acc + t)%Qc, cs).
Proof.
  induction fuel as [|f IH]; intros sorted prev acc comps t Hlen G H; [lia|].
  destruct sorted as [|[c v] rest].
  - cbn [choquet_textbook_from] in H. injection H as <-. cbn [choquet_total].
    eexists. f_equal. f_equal. qcr.
  - cbn [choquet_textbook_from] in H.
    apply bind_ok in H as (m & Hm & H). apply bind_ok in H as (r & Hr & H). injection H as <-.
    cbn [choquet_total]. rewrite Hm. cbn [bind].
    cbn [map snd gapped] in G.
    destruct (textbook_skip_group _ rest v r G Hr) as [A B].
    cbn [List.length] in Hlen.
    destruct (IH (skipn (@group_len NumQc v rest) rest) v (Qcplus acc (Qcmult m (Qcminus v prev)))
                 ((map fst ((c, v) :: rest), Qcmult m (Qcminus v prev)) :: comps) r) as (cs & Hcs).
    + pose proof (skipn_length_le (@group_len NumQc v rest) rest). lia.
    + now apply gapped_from_gapped in B.
    + exact A.
    + exists cs. qcn. rewrite Hcs. f_equal. f_equal. qcr.
Qed.

Theorem choquet_value_textbook : forall (w : smap (@num NumQc)) (a : @alt NumQc) t,
  gapped (map snd (isort cw_lt (a_vals a))) ->
  choquet_textbook w a = Ok t -> choquet_value w a = Ok t.
Proof.
  intros w a t G H. unfold choquet_textbook in H. unfold choquet_value, choquet_components.
  destruct (choquet_total_textbook w (S (List.length (isort cw_lt (a_vals a)))) _ nzero nzero [] t
              (Nat.lt_succ_diag_r _) G H) as (cs & ->).
  cbn [bind fst]. f_equal. qcr.
Qed.

(** ** 4c. After successful parsing every non-empty subset of the criteria has a capacity in [0,1] *)

(** *** canonical maps *)
Lemma mget_mset {A} (k2 k : string) (v : A) (m : smap A) :
  mget k2 (mset k v m) = if String.eqb k2 k then Some v else mget k2 m.
Proof.
  induction m as [|[k' v'] r IH]; cbn [mset mget]; [reflexivity|].
  destruct (String.eqb k k') eqn:E1.
  - apply String.eqb_eq in E1. subst k'. cbn [mget]. destruct (String.eqb k2 k); reflexivity.
  - destruct (String.ltb k k'); cbn [mget]; [reflexivity|].
    rewrite IH. destruct (String.eqb k2 k') eqn:E2; [|reflexivity].
    destruct (String.eqb k2 k) eqn:E3; [|reflexivity].
    apply String.eqb_eq in E2, E3. subst. rewrite String.eqb_refl in E1. discriminate.
Qed.

Lemma mset_in {A} (k2 k : string) (v2 v : A) (m : smap A) :
  In (k2, v2) (mset k v m) -> (k2 = k /\ v2 = v) \/ In (k2, v2) m.
Proof.
  induction m as [|[k' v'] r IH]; cbn [mset]; intros H.
  - destruct H as [H|[]]. injection H as <- <-. now left.
  - destruct (String.eqb k k') eqn:E1; [|destruct (String.ltb k k')].
    + destruct H as [H|H]; [injection H as <- <-; now left|right; now right].
    + destruct H as [H|H]; [injection H as <- <-; now left|now right].
    + destruct H as [H|H]; [right; now left|]. destruct (IH H) as [A1|A1]; [now left|right; now right].
Qed.

Lemma mget_in {A} (k : string) (v : A) (m : smap A) : mget k m = Some v -> In (k, v) m.
Proof.
  induction m as [|[k' v'] r IH]; cbn [mget]; [discriminate|].
  destruct (String.eqb k k') eqn:E.
  - apply String.eqb_eq in E. subst. intros H. injection H as <-. now left.
  - intros H. right. now apply IH.
Qed.

(** *** strings: split inverts join on comma-free parts *)
Lemma sapp_nil_r (s : string) : (s ++ "")%string = s.
Proof. induction s as [|a r IH]; cbn [append]; [reflexivity|now rewrite IH]. Qed.

Lemma sapp_assoc (a b c : string) : ((a ++ b) ++ c)%string = (a ++ (b ++ c))%string.
Proof. induction a as [|x r IH]; cbn [append]; [reflexivity|now rewrite IH]. Qed.

Fixpoint nocomma (s : string) : Prop :=
  match s with
  | EmptyString => True
  | String a r => Ascii.eqb a comma = false /\ nocomma r
  end.

Lemma nocomma_app (s t : string) : nocomma s -> nocomma t -> nocomma (s ++ t)%string.
Proof. induction s as [|a r IH]; cbn [append nocomma]; [auto|]. intros [A B] C. split; auto. Qed.

Lemma split_aux_nocomma (s cur : string) : nocomma cur -> Forall nocomma (split_on_aux comma s cur).
Proof.
  revert cur. induction s as [|a r IH]; intros cur Hc; cbn [split_on_aux].
  - now constructor.
  - destruct (Ascii.eqb a comma) eqn:E.
    + constructor; [exact Hc|]. apply IH. exact I.
    + apply IH. apply nocomma_app; [exact Hc|]. cbn [nocomma]. now split.
Qed.

Lemma split_aux_nonempty (s cur : string) : split_on_aux comma s cur <> [].
Proof.
  revert cur. induction s as [|a r IH]; intros cur; cbn [split_on_aux]; [discriminate|].
  destruct (Ascii.eqb a comma); [discriminate|apply IH].
Qed.

Lemma split_aux_app (x s cur : string) : nocomma x ->
  split_on_aux comma (x ++ s) cur = split_on_aux comma s (cur ++ x).
Proof.
  revert cur. induction x as [|a r IH]; intros cur Hx; cbn [append].
  - now rewrite sapp_nil_r.
  - cbn [nocomma] in Hx. destruct Hx as [A B]. cbn [split_on_aux]. rewrite A.
    rewrite IH by exact B. rewrite sapp_assoc. reflexivity.
Qed.

Lemma split_join (l : list string) : l <> [] -> Forall nocomma l ->
  split_on comma (join_with "," l) = l.
Proof.
  unfold split_on. induction l as [|x r IH]; intros Hne Hall; [congruence|].
  inversion Hall as [|? ? Hx Hr]; subst. destruct r as [|y r'].
  - cbn [join_with]. rewrite <- (sapp_nil_r x) at 1. rewrite split_aux_app by exact Hx.
    reflexivity.
  - change (join_with "," (x :: y :: r')) with (x ++ String comma (join_with "," (y :: r')))%string.
    rewrite split_aux_app by exact Hx. cbn [split_on_aux].
    replace (Ascii.eqb comma comma) with true by reflexivity.
    cbn [append]. f_equal. apply IH; [discriminate|exact Hr].
Qed.

(** *** the key of a set of criteria *)
Lemma str_sort_idem (l : list string) : str_sort (str_sort l) = str_sort l.
Proof.
  unfold str_sort. apply isort_perm_invariant.
  - intros a b c. unfold SortFacts.le. apply snlt_trans.
  - intros a b. unfold SortFacts.le. apply sltb_asym.
  - intros a b _ _. unfold SortFacts.le. intros A B.
    destruct (sltb_tricho a b) as [T|[T|T]]; [congruence|exact T|congruence].
  - apply isort_perm.
Qed.

(* [k] is its own normal form under remapWeights' normalisation *)
Definition normal_key (k : string) : Prop := criterion_key (contained_criteria k) = k.

Lemma criterion_key_normal (l : list string) : l <> [] -> Forall nocomma l ->
  normal_key (criterion_key l).
Proof.
  intros Hne Hall. unfold normal_key, criterion_key, contained_criteria.
  rewrite split_join.
  - now rewrite str_sort_idem.
  - intros C. apply (f_equal (@List.length string)) in C. unfold str_sort in C.
    rewrite isort_length in C. destruct l; [congruence|discriminate].
  - unfold str_sort. rewrite Forall_forall in *. intros x Hx. apply Hall.
    now apply isort_in in Hx.
Qed.

Lemma normalised_is_normal (k : string) : normal_key (criterion_key (contained_criteria k)).
Proof.
  apply criterion_key_normal; unfold contained_criteria, split_on.
  - apply split_aux_nonempty.
  - apply split_aux_nocomma. exact I.
Qed.

(** *** remapWeights produces normal keys *)
Lemma remap_normal : forall (w : list (string * Qc)) acc nw,
  @remap_weights NumQc w acc = Ok nw ->
  (forall k v, In (k, v) acc -> normal_key k) ->
  forall k v, In (k, v) nw -> normal_key k.
Proof.
  induction w as [|[k0 v0] r IH]; intros acc nw H Hacc k v Hin; cbn [remap_weights] in H.
  - injection H as <-. eapply Hacc; exact Hin.
  - destruct (mhas (criterion_key (contained_criteria k0)) acc); [discriminate|].
    eapply IH; [exact H| |exact Hin].
    intros k1 v1 H1. apply mset_in in H1 as [[-> _]|H1].
    + apply normalised_is_normal.
    + eapply Hacc; exact H1.
Qed.

(** *** prepareWeights keeps every key and checks the range *)
Definition in01 (v : Qc) : Prop := (0 <= v)%Qc /\ (v <= 1)%Qc.

Lemma range_check (v : Qc) : @nltb NumQc v nzero || @nltb NumQc none v = false -> in01 v.
Proof.
  intros H. apply orb_false_elim in H as [A B]. split.
  - now apply qc_ltb_false_iff in A.
  - now apply qc_ltb_false_iff in B.
Qed.

Lemma prepare_inv (names : list string) : forall (l : list (string * Qc)) acc mu,
  @prepare_weights NumQc l names acc = Ok mu ->
  (forall k v, In (k, v) l -> normal_key k) ->
  (forall k v, mget k acc = Some v -> in01 v) ->
  forall k, In k (map fst l) \/ mhas k acc = true -> exists v, mget k mu = Some v /\ in01 v.
Proof.
  induction l as [|[k0 v0] r IH]; intros acc mu H Hn Hacc k Hk; cbn [prepare_weights] in H.
  - injection H as <-. destruct Hk as [[]|Hk]. unfold mhas in Hk.
    destruct (mget k acc) as [v|] eqn:E; [|discriminate]. exists v. split; [reflexivity|]. eapply Hacc; exact E.
  - destruct (negb (forallb (fun p => mem_str p names) (contained_criteria k0))); [discriminate|].
    destruct (@nltb NumQc v0 nzero || @nltb NumQc none v0) eqn:Er; [discriminate|].
    assert (Hk0 : criterion_key (contained_criteria k0) = k0) by (apply (Hn k0 v0); now left).
    rewrite Hk0 in H.
    apply (IH (mset k0 v0 acc) mu H).
    + intros k1 v1 H1. apply (Hn k1 v1). now right.
    + intros k1 v1. rewrite mget_mset. destruct (String.eqb k1 k0).
      * intros E. injection E as <-. now apply range_check.
      * apply Hacc.
    + unfold mhas. rewrite mget_mset. destruct (String.eqb k k0) eqn:E; [now right|].
      destruct Hk as [[Hk|Hk]|Hk].
      * cbn [fst] in Hk. subst k0. rewrite String.eqb_refl in E. discriminate.
      * now left.
      * right. exact Hk.
Qed.

(** *** subsets *)
Inductive sublist {A : Type} : list A -> list A -> Prop :=
| sl_nil : sublist [] []
| sl_skip x s l : sublist s l -> sublist s (x :: l)
| sl_keep x s l : sublist s l -> sublist (x :: s) (x :: l).

Lemma sublist_power_set_all (S l : list string) : sublist S l -> In S (power_set_all l).
Proof.
  induction 1 as [|x s l _ IH|x s l _ IH]; cbn [power_set_all].
  - now left.
  - apply in_flat_map. exists s. split; [exact IH|now left].
  - apply in_flat_map. exists s. split; [exact IH|right; now left].
Qed.

Lemma sublist_power_set (S l : list string) : S <> [] -> sublist S l -> In S (power_set l).
Proof.
  intros Hne H. unfold power_set. apply filter_In. split; [now apply sublist_power_set_all|].
  destruct S; [congruence|reflexivity].
Qed.

(* neither distinctness of the ids nor comma-freeness is needed: the keys of the remapped map
   are normal forms by construction, and the power-set test finds the key of S among them *)
Theorem choquet_parse_total_gen : forall (cs : list (@crit NumQc)) (w mu : smap (@num NumQc)),
  choquet_parse_weights cs w = Ok mu ->
  forall S, S <> [] -> sublist S (map c_id cs) ->
  exists v, union_weight S mu = Ok v /\ (0 <= v)%Qc /\ (v <= 1)%Qc.
Proof.
  intros cs w mu H S Hne Hsub. unfold choquet_parse_weights in H.
  destruct (negb (all_gain cs)); [discriminate|].
  apply bind_ok in H as (nw & Hnw & H). apply bind_ok in H as (ys & Hys & H).
  destruct (mapM_ok_in _ _ _ S Hys (sublist_power_set S _ Hne Hsub)) as (y & Hy & _).
  unfold union_weight in Hy. destruct (mget (criterion_key S) nw) as [y'|] eqn:E; [|discriminate].
  apply mget_in in E.
  destruct (prepare_inv (map c_id cs) nw [] mu H) with (k := criterion_key S) as (v & Hv & Hr).
  - intros k v. apply (remap_normal w [] nw Hnw). intros ? ? [].
  - intros k v. cbn [mget]. discriminate.
  - left. apply in_map_iff. exists (criterion_key S, y'). split; [reflexivity|exact E].
  - exists v. unfold union_weight. rewrite Hv. cbn [of_option]. split; [reflexivity|exact Hr].
Qed.

Theorem choquet_parse_total : forall (cs : list (@crit NumQc)) (w mu : smap (@num NumQc)),
  NoDup (map c_id cs) ->
  choquet_parse_weights cs w = Ok mu ->
  forall S, S <> [] -> sublist S (map c_id cs) ->
  exists v, union_weight S mu = Ok v /\ (0 <= v)%Qc /\ (v <= 1)%Qc.
Proof. intros cs w mu _. apply choquet_parse_total_gen. Qed.

(** ** 4b. Without the gap hypothesis: the grouped computation is within n * 1e-5 of the textbook
    integral when every capacity of the map lies in [0,1] *)
Lemma this_plus (x y : Qc) : (this (x + y)%Qc == this x + this y)%Q.
Proof. unfold Qcplus, Q2Qc. cbn [this]. apply Qred_correct. Qed.
Lemma this_mult (x y : Qc) : (this (x * y)%Qc == this x * this y)%Q.
Proof. unfold Qcmult, Q2Qc. cbn [this]. apply Qred_correct. Qed.
Lemma this_abs (x : Qc) : (this (qc_abs x) == Qabs (this x))%Q.
Proof. unfold qc_abs, Q2Qc. cbn [this]. apply Qred_correct. Qed.

Lemma this_opp (x : Qc) : (this (- x)%Qc == - this x)%Q.
Proof. unfold Qcopp, Q2Qc. cbn [this]. apply Qred_correct. Qed.
Lemma this_minus (x y : Qc) : (this (x - y)%Qc == this x - this y)%Q.
Proof. unfold Qcminus. rewrite this_plus, this_opp. reflexivity. Qed.
Lemma this_ofnat (n : nat) : (this (Q2Qc (inject_Z (Z.of_nat n))) == inject_Z (Z.of_nat n))%Q.
Proof. unfold Q2Qc. cbn [this]. apply Qred_correct. Qed.
Lemma this_eps5 : this (@c_eps5 NumQc) = (1 # 100000)%Q.
Proof. reflexivity. Qed.

Ltac qzero := change (this (@nzero NumQc)) with 0%Q in *; change (this (Q2Qc 0)) with 0%Q in *.

Definition cap01 (w : smap Qc) : Prop := forall k v, mget k w = Some v -> in01 v.

Lemma cap01_union (w : smap Qc) names m : cap01 w -> @union_weight NumQc names w = Ok m -> in01 m.
Proof.
  intros Hc H. unfold union_weight in H.
  destruct (@mget (@num NumQc) (criterion_key names) w) as [v|] eqn:E; cbn [of_option] in H; [|discriminate].
  injection H as <-. eapply Hc; exact E.
Qed.

Fixpoint asc_from (p : Qc) (l : list Qc) : Prop :=
  match l with [] => True | y :: r => (p <= y)%Qc /\ asc_from y r end.
Definition asc (l : list Qc) : Prop := match l with [] => True | x :: r => asc_from x r end.

Lemma asc_from_asc p l : asc_from p l -> asc l.
Proof. destruct l; cbn [asc_from asc]; [trivial|now intros [_ H]]. Qed.

Lemma asc_skipn n : forall l, asc l -> asc (skipn n l).
Proof.
  induction n as [|n IH]; intros l H; [exact H|].
  destruct l as [|x r]; [exact H|]. cbn [skipn]. apply IH. now apply asc_from_asc in H.
Qed.

Lemma fae_bound (cur v : Qc) : @floats_are_equal NumQc cur v c_eps5 = true ->
  (this v - this cur <= 1 # 100000)%Q.
Proof.
  unfold floats_are_equal. qcn. intros H. apply qc_leb_iff in H. unfold Qcle in H.
  rewrite this_abs, this_minus, this_eps5 in H. apply Qabs_Qle_condition in H. lra.
Qed.

(* 0 <= d*m <= d for d >= 0 and 0 <= m <= 1 *)
Lemma prod01 (d m : Q) : (0 <= d)%Q -> (0 <= m)%Q -> (m <= 1)%Q -> (0 <= d * m /\ d * m <= d)%Q.
Proof. intros. split; nra. Qed.

Section Bound.
  Variable w : smap Qc.
  Hypothesis Hcap : cap01 w.
  Let mu := fun names : list string => @union_weight NumQc names w.

  Lemma textbook_skip_bound : forall rest cur p t,
    (cur <= p)%Qc -> (this p <= this cur + (1 # 100000))%Q ->
    asc_from p (map snd rest) ->
    choquet_textbook_from rest p mu = Ok t ->
    exists t', choquet_textbook_from (skipn (@group_len NumQc cur rest) rest) cur mu = Ok t'
      /\ (- (1 # 100000) <= this t - this t')%Q
      /\ (this t - this t' <= this cur + (1 # 100000) - this p)%Q.
  Proof.
    induction rest as [|[c' v'] rest' IH]; intros cur p t Hcp Hpe Hasc H.
    - cbn [group_len skipn choquet_textbook_from] in *. injection H as <-.
      exists (@nzero NumQc). split; [reflexivity|]. unfold Qcle in Hcp. qzero. split; lra.
    - cbn [choquet_textbook_from] in H.
      apply bind_ok in H as (m & Hm & H). apply bind_ok in H as (r & Hr & H). injection H as <-.
      cbn [map snd asc_from] in Hasc. destruct Hasc as [Hpv Hasc].
      destruct (cap01_union _ _ _ Hcap Hm) as [Hm0 Hm1].
      unfold Qcle in Hcp, Hpv, Hm0, Hm1.
      change (this 0%Qc) with 0%Q in Hm0. change (this 1%Qc) with 1%Q in Hm1.
      cbn [group_len]. destruct (@floats_are_equal NumQc cur v' c_eps5) eqn:E.
      + cbn [skipn]. apply fae_bound in E.
        destruct (IH cur v' r) as (t' & Ht' & B1 & B2); [unfold Qcle; lra|lra|exact Hasc|exact Hr|].
        exists t'. split; [exact Ht'|]. qcn. rewrite this_plus, this_mult, this_minus.
        destruct (prod01 (this v' - this p) (this m)) as [P1 P2]; [lra|lra|lra|]. split; lra.
      + cbn [skipn choquet_textbook_from]. rewrite Hm, Hr. cbn [bind].
        eexists. split; [reflexivity|]. qcn. rewrite !this_plus, !this_mult, !this_minus.
        destruct (prod01 (this p - this cur) (this m)) as [P1 P2]; [lra|lra|lra|].
        split; nra.
  Qed.

  Lemma choquet_total_bound : forall fuel sorted prev acc comps t,
    (List.length sorted < fuel)%nat ->
    asc (map snd sorted) ->
    choquet_textbook_from sorted prev mu = Ok t ->
    exists u cs, choquet_total fuel sorted w prev acc comps = Ok ((acc + u)%Qc, cs)
      /\ (this u - this t <= (1 # 100000) * inject_Z (Z.of_nat (List.length sorted)))%Q
      /\ (this t - this u <= (1 # 100000) * inject_Z (Z.of_nat (List.length sorted)))%Q.
  Proof.
    induction fuel as [|f IH]; intros sorted prev acc comps t Hlen Hasc H; [lia|].
    destruct sorted as [|[c v] rest].
    - cbn [choquet_textbook_from] in H. injection H as <-. cbn [choquet_total].
      exists (@nzero NumQc). eexists. split; [f_equal; f_equal; qcr|]. qzero. cbn [List.length Z.of_nat]. change (inject_Z 0) with 0%Q. split; lra.
    - cbn [choquet_textbook_from] in H.
      apply bind_ok in H as (m & Hm & H). apply bind_ok in H as (r & Hr & H). injection H as <-.
      cbn [map snd asc] in Hasc.
      destruct (textbook_skip_bound rest v v r) as (t' & Ht' & B1 & B2);
        [apply Qcle_refl|lra|exact Hasc|exact Hr|].
      cbn [List.length] in Hlen.
      pose proof (skipn_length_le (@group_len NumQc v rest) rest) as Hsk.
      destruct (IH (skipn (@group_len NumQc v rest) rest) v (Qcplus acc (Qcmult m (Qcminus v prev)))
                   ((map fst ((c, v) :: rest), Qcmult m (Qcminus v prev)) :: comps) t')
        as (u' & cs & Hu' & C1 & C2).
      + lia.
      + rewrite <- skipn_map. apply asc_skipn. now apply asc_from_asc in Hasc.
      + exact Ht'.
      + exists (Qcplus (Qcmult m (Qcminus v prev)) u'), cs. split.
        * cbn [choquet_total]. unfold mu in Hm. rewrite Hm. cbn [bind]. qcn. rewrite Hu'.
          f_equal. f_equal. ring.
        * cbn [List.length]. rewrite Nat2Z.inj_succ, <- Z.add_1_r, inject_Z_plus.
          assert (inject_Z (Z.of_nat (List.length (skipn (@group_len NumQc v rest) rest)))
                  <= inject_Z (Z.of_nat (List.length rest)))%Q as Hle
            by (rewrite <- Zle_Qle; lia).
          qcn. rewrite !this_plus, !this_mult, !this_minus.
          change (inject_Z 1) with 1%Q. split; nra.
  Qed.
End Bound.

Lemma cw_sorted (l : list (string * Qc)) : asc (map snd (isort (@cw_lt NumQc) l)).
Proof.
  assert (S : StronglySorted (SortFacts.le (@cw_lt NumQc)) (isort (@cw_lt NumQc) l)).
  { apply isort_sorted.
    - intros a b c. unfold SortFacts.le, cw_lt. apply qle_trans_b.
    - intros a b. unfold SortFacts.le, cw_lt. apply qlt_le_b. }
  induction S as [|x r Sr IH Hall]; [exact I|].
  cbn [map asc]. destruct r as [|y r']; [exact I|].
  cbn [map asc_from asc] in *. split; [|exact IH].
  inversion Hall as [|? ? Hxy _]; subst. unfold SortFacts.le, cw_lt in Hxy.
  now apply qc_ltb_false_iff in Hxy.
Qed.

(* |choquet_value - choquet_textbook| <= n * 1e-5, n the number of criteria values of [a] *)
Theorem choquet_group_bound : forall (w : smap (@num NumQc)) (a : @alt NumQc) t,
  cap01 w -> choquet_textbook w a = Ok t ->
  exists u, choquet_value w a = Ok u
    /\ (u - t <= nofZ (Z.of_nat (List.length (a_vals a))) * c_eps5)%Qc
    /\ (t - u <= nofZ (Z.of_nat (List.length (a_vals a))) * c_eps5)%Qc.
Proof.
  intros w a t Hcap H. unfold choquet_textbook in H. unfold choquet_value, choquet_components.
  destruct (choquet_total_bound w Hcap (S (List.length (isort cw_lt (a_vals a)))) _ nzero nzero [] t
              (Nat.lt_succ_diag_r _) (cw_sorted _) H) as (u & cs & Hu & B1 & B2).
  exists u. rewrite Hu. cbn [bind fst]. split; [f_equal; qcr|].
  rewrite isort_length in B1, B2.
  unfold Qcle. cbn [nofZ NumQc]. unfold qc_ofZ.
  rewrite !this_mult, !this_minus, this_ofnat, this_eps5. split; (eapply Qle_trans; [eassumption|]); rewrite Qmult_comm; apply Qle_refl.
Qed.

(* every capacity of a successfully parsed map lies in [0,1] *)
Lemma prepare_cap01 (names : list string) : forall (l : list (string * Qc)) acc mu,
  @prepare_weights NumQc l names acc = Ok mu -> cap01 acc -> cap01 mu.
Proof.
  induction l as [|[k0 v0] r IH]; intros acc mu H Hacc; cbn [prepare_weights] in H.
  - now injection H as <-.
  - destruct (negb (forallb (fun p => mem_str p names) (contained_criteria k0))); [discriminate|].
    destruct (@nltb NumQc v0 nzero || @nltb NumQc none v0) eqn:Er; [discriminate|].
    apply (IH _ _ H). intros k v. rewrite mget_mset. destruct (String.eqb k _).
    + intros E. injection E as <-. now apply range_check.
    + apply Hacc.
Qed.

Theorem choquet_parse_cap01 : forall (cs : list (@crit NumQc)) (w mu : smap (@num NumQc)),
  choquet_parse_weights cs w = Ok mu -> cap01 mu.
Proof.
  intros cs w mu H. unfold choquet_parse_weights in H.
  destruct (negb (all_gain cs)); [discriminate|].
  apply bind_ok in H as (nw & _ & H). apply bind_ok in H as (ys & _ & H).
  apply (prepare_cap01 _ _ _ _ H). intros k v. cbn [mget]. discriminate.
Qed.

(** ** 5. The model passes the C03 checker (up to the recorded weighted-sum finding) *)
Theorem approx8_refl : forall x : @num NumQc, approx8 x x = true.
Proof.
  intros x. unfold approx8. qcn. replace (x - x)%Qc with (Q2Qc 0) by ring.
  apply qc_leb_iff. unfold Qcle.
  rewrite this_plus, this_mult, !this_abs.
  assert (Hx := Qabs_nonneg (this x)).
  set (y := Qabs (this x)) in *.
  change (this (Q2Qc 0)) with 0%Q. change (Qabs 0) with 0%Q.
  change (this (@c_tol_abs NumQc)) with (3 # 200000000)%Q.
  change (this (@c_tol_rel NumQc)) with (1 # 1000000000)%Q.
  lra.
Qed.

Lemma ranking_entry (l : list (@scored NumQc)) e :
  In e (ranking l) -> exists a v, In (a, v) l /\ e_alt e = a /\ e_eval e = EValue (nround8 v).
Proof.
  unfold ranking. intros H. apply in_map_iff in H as (x & <- & Hx).
  apply isort_in in Hx. unfold rounded in Hx. apply in_map_iff in Hx as ([a v] & <- & Hy).
  exists a, v. cbn [fst snd e_alt e_eval]. now split.
Qed.

Lemma rank_with_entries (f : @alt NumQc -> res (@num NumQc)) cons r e :
  rank_with f cons = Ok r -> In e r ->
  exists v, f (e_alt e) = Ok v /\ e_eval e = EValue (nround8 v).
Proof.
  intros H Hin. unfold rank_with in H. apply bind_ok in H as (vs & Hvs & H). injection H as <-.
  apply ranking_entry in Hin as (a & v & Hav & Ha & Hv).
  destruct (mapM_ok_in_inv _ _ _ _ Hvs Hav) as (a0 & _ & Hf).
  apply bind_ok in Hf as (v0 & Hv0 & Hf). injection Hf as <- <-.
  exists v0. rewrite Ha. now split.
Qed.

Lemma code_fold (c : @entry NumQc -> nat) : forall obs acc,
  (forall e, In e obs -> c e = 0%nat \/ c e = 2%nat) -> acc = 0%nat \/ acc = 2%nat ->
  let r := fold_left (fun acc e => if Nat.eqb acc 1 then 1%nat else if Nat.eqb (c e) 0 then acc else c e) obs acc in
  (r = 0%nat \/ r = 2%nat) /\ ((forall e, In e obs -> c e = 0%nat) -> acc = 0%nat -> r = 0%nat).
Proof.
  induction obs as [|e t IH]; intros acc Hc Hacc; cbn [fold_left].
  - split; [exact Hacc|auto].
  - assert (He : c e = 0%nat \/ c e = 2%nat) by (apply Hc; now left).
    assert (Ht : forall e', In e' t -> c e' = 0%nat \/ c e' = 2%nat) by (intros; apply Hc; now right).
    set (acc' := if Nat.eqb acc 1 then 1%nat else if Nat.eqb (c e) 0 then acc else c e).
    assert (Hacc' : acc' = 0%nat \/ acc' = 2%nat).
    { unfold acc'. destruct Hacc as [->| ->]; destruct He as [->| ->]; cbn; auto. }
    destruct (IH acc' Ht Hacc') as [A B]. split; [exact A|].
    intros H0 Ha. apply B; [intros; apply H0; now right|].
    unfold acc'. rewrite Ha, (H0 e) by now left. reflexivity.
Qed.

Lemma check_value_ws (wc : list (@wcrit NumQc)) e v :
  ws_value wc (e_alt e) = Ok v -> e_eval e = EValue (nround8 v) ->
  check_value (PWs wc) e = 0%nat \/ check_value (PWs wc) e = 2%nat.
Proof.
  intros Hv He. unfold check_value. rewrite He.
  destruct (ws_spec_defined wc (e_alt e) v Hv) as (s & ->).
  destruct (approx8 (nround8 v) (nround8 s)); [now left|].
  unfold ws_unweighted. rewrite Hv. rewrite approx8_refl. now right.
Qed.

Lemma check_value_owa (wc : list (@wcrit NumQc)) e v :
  owa_value wc (e_alt e) = Ok v -> e_eval e = EValue (nround8 v) ->
  check_value (POwa wc) e = 0%nat.
Proof.
  intros Hv He. unfold check_value. rewrite He. unfold owa_spec_alt.
  rewrite (owa_value_length _ _ _ Hv), Nat.eqb_refl.
  rewrite <- (owa_value_spec _ _ _ Hv). now rewrite approx8_refl.
Qed.

Lemma check_value_choquet (w : smap (@num NumQc)) cs e v :
  choquet_value w (e_alt e) = Ok v -> e_eval e = EValue (nround8 v) ->
  check_value (PChoquet w cs) e = 0%nat.
Proof.
  intros Hv He. unfold check_value. rewrite He. unfold choquet_spec. rewrite Hv.
  now rewrite approx8_refl.
Qed.

Theorem utility_passes_checker : forall (s : @state NumQc) r,
  utility_evaluate s = Ok r ->
  C03_code s r = 0%nat \/ ((exists wc, st_params s = PWs wc) /\ C03_code s r = 2%nat).
Proof.
  intros s r H. unfold utility_evaluate in H. unfold C03_code.
  destruct (st_params s) as [wc|wc|w cs| | | | ] eqn:Ep; try discriminate.
  - assert (Hc : forall e, In e r -> check_value (PWs wc) e = 0%nat \/ check_value (PWs wc) e = 2%nat).
    { intros e He. destruct (rank_with_entries _ _ _ e H He) as (v & A & B). eapply check_value_ws; eassumption. }
    destruct (code_fold (check_value (PWs wc)) r 0%nat Hc (or_introl eq_refl)) as [[A|A] _].
    + now left.
    + right. split; [now exists wc|exact A].
  - left.
    assert (Hc : forall e, In e r -> check_value (POwa wc) e = 0%nat).
    { intros e He. destruct (rank_with_entries _ _ _ e H He) as (v & A & B). eapply check_value_owa; eassumption. }
    refine (proj2 (code_fold (check_value (POwa wc)) r 0%nat _ (or_introl eq_refl)) Hc eq_refl).
    intros e He. left. now apply Hc.
  - left.
    assert (Hc : forall e, In e r -> check_value (PChoquet w cs) e = 0%nat).
    { intros e He. destruct (rank_with_entries _ _ _ e H He) as (v & A & B). eapply check_value_choquet; eassumption. }
    refine (proj2 (code_fold (check_value (PChoquet w cs)) r 0%nat _ (or_introl eq_refl)) Hc eq_refl).
    intros e He. left. now apply Hc.
Qed.

(** ** 6. Non-vacuity: concrete evaluations *)
Definition mkc (id : string) (t : ctype) : @crit NumQc := {| c_id := id; c_type := t; c_range := None |}.

(* OWA: weights 0.4, 0.2, 0.35 (given unsorted) against values 3, 4, 2:
   0.2*2 + 0.35*3 + 0.4*4 = 3.05 *)
Definition ex_owa_wc : list (@wcrit NumQc) :=
  [(mkc "c1" TGain, Q2Qc (4 # 10)); (mkc "c2" TCost, Q2Qc (2 # 10)); (mkc "c3" TGain, Q2Qc (35 # 100))].
Definition ex_owa_alt : @alt NumQc :=
  {| a_id := "x"; a_vals := [("c1", Q2Qc 3); ("c2", Q2Qc 4); ("c3", Q2Qc 2)] |}.

Example owa_example : res_this (owa_value ex_owa_wc ex_owa_alt) = Ok (61 # 20)%Q.
Proof. vm_compute. reflexivity. Qed.
Example owa_example_spec :
  this (owa_spec (map snd ex_owa_wc) (mvals (a_vals ex_owa_alt))) = (61 # 20)%Q.
Proof. vm_compute. reflexivity. Qed.

(* Choquet: a non-additive capacity on {a,b,c} (mu(a)+mu(b) = 0.5 <> 0.9 = mu(a,b)) *)
Definition ex_cs : list (@crit NumQc) := [mkc "a" TGain; mkc "b" TGain; mkc "c" TGain].
Definition ex_raw : smap (@num NumQc) :=
  [("a", Q2Qc (2 # 10)); ("b,a", Q2Qc (9 # 10)); ("c,a,b", Q2Qc 1); ("c,a", Q2Qc (4 # 10));
   ("b", Q2Qc (3 # 10)); ("b,c", Q2Qc (5 # 10)); ("c", Q2Qc (1 # 10))].
Definition ex_mu : smap (@num NumQc) := get_ok [] (choquet_parse_weights ex_cs ex_raw).

Example choquet_parse_example :
  is_ok (choquet_parse_weights ex_cs ex_raw) = true
  /\ map fst ex_mu = ["a"; "a,b"; "a,b,c"; "a,c"; "b"; "b,c"; "c"].
Proof. vm_compute. split; reflexivity. Qed.

(* an exact tie a = b = 5, c = 2:  1*(2-0) + 0.9*(5-2) = 4.7, same as the textbook form *)
Definition ex_tie : @alt NumQc := {| a_id := "t"; a_vals := [("a", Q2Qc 5); ("b", Q2Qc 5); ("c", Q2Qc 2)] |}.
Example choquet_tie_value : res_this (choquet_value ex_mu ex_tie) = Ok (47 # 10)%Q.
Proof. vm_compute. reflexivity. Qed.
Example choquet_tie_textbook : res_this (choquet_textbook ex_mu ex_tie) = Ok (47 # 10)%Q.
Proof. vm_compute. reflexivity. Qed.
Example choquet_tie_gapped : gapped (map snd (isort cw_lt (a_vals ex_tie))).
Proof. vm_compute. auto. Qed.

(* the gap hypothesis of [choquet_value_textbook] is necessary: b = a + 1e-6 is grouped with a,
   the model reports 4.7 where the textbook integral is 4.7 + 0.3e-6 *)
Definition ex_near : @alt NumQc :=
  {| a_id := "n"; a_vals := [("a", Q2Qc 5); ("b", Q2Qc (5000001 # 1000000)); ("c", Q2Qc 2)] |}.
Example choquet_near_value : res_this (choquet_value ex_mu ex_near) = Ok (47 # 10)%Q.
Proof. vm_compute. reflexivity. Qed.
Example choquet_near_textbook : res_this (choquet_textbook ex_mu ex_near) = Ok (47000003 # 10000000)%Q.
Proof. vm_compute. reflexivity. Qed.

(* the converse direction fails: the grouped computation never looks up the capacity of a tied
   non-leading criterion, the textbook form does *)
Definition ex_mu_partial : smap (@num NumQc) := mremove "b" ex_mu.
Example choquet_partial_value : res_this (choquet_value ex_mu_partial ex_tie) = Ok (47 # 10)%Q.
Proof. vm_compute. reflexivity. Qed.
Example choquet_partial_textbook : choquet_textbook ex_mu_partial ex_tie = Err EMissing.
Proof. vm_compute. reflexivity. Qed.

(* whole evaluations through the checker *)
Definition ex_state (p : @mparams NumQc) (alts : list (@alt NumQc)) : @state NumQc :=
  {| st_notcons := []; st_cons := alts; st_crits := []; st_params := p |}.

Example checker_choquet :
  match utility_evaluate (ex_state (PChoquet ex_mu ex_cs) [ex_tie; ex_near]) with
  | Ok r => C03_code (ex_state (PChoquet ex_mu ex_cs) [ex_tie; ex_near]) r = 0%nat /\ List.length r = 2%nat
  | Err _ => False
  end.
Proof. vm_compute. split; reflexivity. Qed.

Example checker_owa :
  match utility_evaluate (ex_state (POwa ex_owa_wc) [ex_owa_alt]) with
  | Ok r => C03_code (ex_state (POwa ex_owa_wc) [ex_owa_alt]) r = 0%nat /\ List.length r = 1%nat
  | Err _ => False
  end.
Proof. vm_compute. split; reflexivity. Qed.

(* the weighted-sum witness falls under the recorded finding: code 2 *)
Example checker_ws :
  match utility_evaluate (ex_state (PWs cx_wc) [cx_alt]) with
  | Ok r => C03_code (ex_state (PWs cx_wc) [cx_alt]) r = 2%nat
  | Err _ => False
  end.
Proof. vm_compute. reflexivity. Qed.

(* the second disjunct of [utility_passes_checker] is inhabited, the first one too *)
Example checker_ws_unit :
  match utility_evaluate (ex_state (PWs [(cx_crit_cost, Q2Qc 1); (cx_crit_color, Q2Qc 1)]) [cx_alt]) with
  | Ok r => C03_code (ex_state (PWs [(cx_crit_cost, Q2Qc 1); (cx_crit_color, Q2Qc 1)]) [cx_alt]) r = 0%nat
  | Err _ => False
  end.
Proof. vm_compute. reflexivity. Qed.

(** ** Assumptions *)
Print Assumptions nsum_left_eq.
Print Assumptions dot_left_eq.
Print Assumptions owa_value_spec.
Print Assumptions owa_spec_perm.
Print Assumptions ws_value_is_unweighted.
Print Assumptions ws_value_unit_weights.
Print Assumptions ws_value_refuted.
Print Assumptions choquet_value_textbook.
Print Assumptions choquet_group_bound.
Print Assumptions choquet_parse_total_gen.
Print Assumptions choquet_parse_total.
Print Assumptions choquet_parse_cap01.
Print Assumptions approx8_refl.
Print Assumptions utility_passes_checker.
Print Assumptions checker_choquet.
Print Assumptions choquet_near_textbook.
