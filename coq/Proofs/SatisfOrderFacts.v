(** * C13, second part: alternatives accepted at the same aspiration level are ranked in search order.

    [satisfaction_order_passes]: the ranking returned by [satisfaction_evaluate] passes [C13_order_ok]. *)
From Coq Require Import ZArith Bool List String Lia Permutation Sorted.
From RDM Require Import Base.Num Base.Util Model.Data Model.Rank Model.Utility Model.Levels
  Model.Heuristics Check.C04 Check.C13 Check.C13b Proofs.SatisfFacts.
Import ListNotations.
Local Open Scope string_scope.
Local Open Scope list_scope.

Section SatisfOrderFacts.
  Context {N : Num} {L : OrdLaws N}.

  (** ** 1. positions ([pos_of]) along a duplicate-free list *)
  Lemma pos_of_head x r i : pos_of x (x :: r) i = i.
  Proof. cbn [pos_of]. now rewrite String.eqb_refl. Qed.

  Lemma pos_of_tail x y r i : x <> y -> pos_of y (x :: r) i = pos_of y r (S i).
  Proof. intros H. cbn [pos_of]. apply String.eqb_neq in H. now rewrite H. Qed.

  (** the positions of the elements of a duplicate-free list in itself are [i, i+1, ...] *)
  Lemma pos_of_self_seq : forall (ids : list string) i,
    NoDup ids -> map (fun x => pos_of x ids i) ids = seq i (List.length ids).
  Proof.
    induction ids as [|x r IH]; intros i Hnd; [reflexivity|].
    inversion Hnd as [|? ? Hni Hnd']; subst.
    cbn [map List.length seq]. rewrite pos_of_head. f_equal.
    rewrite <- (IH (S i) Hnd'). apply map_ext_in. intros y Hy.
    apply pos_of_tail. intros ->. now apply Hni.
  Qed.

  Lemma seq_ssorted : forall n i, StronglySorted lt (seq i n).
  Proof.
    induction n as [|n IH]; intros i; cbn [seq]; constructor; [apply IH|].
    apply Forall_forall. intros x Hx. apply in_seq in Hx. lia.
  Qed.

  (** position of an alternative in the list of identifiers [ids] *)
  Definition posa (ids : list string) (a : alt) : nat := pos_of (a_id a) ids 0.

  (** [l] is listed by strictly increasing position in [ids] *)
  Definition in_order (ids : list string) (l : list alt) : Prop :=
    StronglySorted lt (map (posa ids) l).

  (** fact (4): a duplicate-free list is in its own order *)
  Lemma in_order_self (l : list alt) : NoDup (map a_id l) -> in_order (map a_id l) l.
  Proof.
    intros Hnd. unfold in_order.
    replace (map (posa (map a_id l)) l) with (map (fun x => pos_of x (map a_id l) 0) (map a_id l))
      by (rewrite map_map; reflexivity).
    rewrite (pos_of_self_seq _ 0%nat Hnd). apply seq_ssorted.
  Qed.

  (** ... and so is every filter (sublist) of a list that is in order *)
  Lemma in_order_filter ids (p : alt -> bool) : forall l, in_order ids l -> in_order ids (filter p l).
  Proof.
    unfold in_order. induction l as [|a l IH]; intros H; [exact H|].
    cbn [map] in H. inversion H as [|? ? Hs Hf]; subst. cbn [filter].
    destruct (p a); [|now apply IH]. cbn [map]. constructor; [now apply IH|].
    apply Forall_forall. intros x Hx. apply in_map_iff in Hx as (b & <- & Hb).
    apply filter_In in Hb as [Hb _]. rewrite Forall_forall in Hf. apply Hf. now apply in_map.
  Qed.

  (** ** 2. the order condition on the model's intermediate results *)
  Fixpoint ordm (ids : list string) (l : list mres) : bool :=
    match l with
    | [] => true
    | x :: r => match r with
                | [] => true
                | y :: _ => (negb (Z.eqb (midx x) (midx y)) || Nat.ltb (posa ids (fst x)) (posa ids (fst y)))
                            && ordm ids r
                end
    end.

  Lemma order_ok_seq ids : forall l, order_ok ids (sequential_ranking l) = ordm ids l.
  Proof.
    induction l as [|[a ev] r IH]; [reflexivity|].
    cbn [sequential_ranking]. destruct r as [|[b ev'] r'].
    - reflexivity.
    - cbn [sequential_ranking] in *. cbn [order_ok ordm]. cbn [order_ok ordm] in IH. rewrite IH. reflexivity.
  Qed.

  (** two groups whose level indices differ can be concatenated *)
  Lemma ordm_app ids : forall l1 l2,
    ordm ids l1 = true -> ordm ids l2 = true ->
    (forall x y, In x l1 -> In y l2 -> midx x <> midx y) ->
    ordm ids (l1 ++ l2) = true.
  Proof.
    induction l1 as [|x r IH]; intros l2 H1 H2 Hd; [exact H2|].
    destruct r as [|x' r'].
    - cbn [app]. destruct l2 as [|y l2']; [reflexivity|].
      cbn [ordm]. cbn [ordm] in H2. apply andb_true_iff. split; [|exact H2].
      apply orb_true_iff. left. apply negb_true_iff. apply Z.eqb_neq.
      apply Hd; now left.
    - cbn [ordm] in H1. apply andb_true_iff in H1 as [Hh Ht].
      change ((x :: x' :: r') ++ l2) with (x :: (x' :: r') ++ l2).
      change ((x' :: r') ++ l2) with (x' :: r' ++ l2) at 1.
      cbn [ordm]. apply andb_true_iff. split; [exact Hh|].
      change (x' :: r' ++ l2) with ((x' :: r') ++ l2).
      apply IH; [exact Ht|exact H2|]. intros a b Ha Hb. apply Hd; [now right|exact Hb].
  Qed.

  (** facts (1)/(2): a group built from a list that is in order satisfies the condition *)
  Lemma ordm_group ids (ev : evaluation) : forall l,
    in_order ids l -> ordm ids (map (fun a => (a, ev)) l) = true.
  Proof.
    unfold in_order. induction l as [|a l IH]; intros H; [reflexivity|].
    cbn [map] in H. inversion H as [|? ? Hs Hf]; subst.
    destruct l as [|b l']; [reflexivity|].
    cbn [map] in *. cbn [ordm]. apply andb_true_iff. split; [|now apply IH].
    apply orb_true_iff. right. cbn [fst]. apply Nat.ltb_lt.
    inversion Hf; subst. assumption.
  Qed.

  (** ** 3. the levels loop keeps the invariant *)
  Lemma satisf_levels_order ids cs : forall fuel src left idx acc lft acc' idx',
    satisf_levels fuel src cs left idx acc = Ok (lft, acc', idx') ->
    NoDup (map a_id left) ->
    in_order ids left ->
    ordm ids acc = true ->
    Forall (fun x => (midx x <= idx)%Z) acc ->
    in_order ids lft /\ ordm ids acc' = true /\ Forall (fun x => (midx x <= idx')%Z) acc'.
  Proof.
    induction fuel as [|f IH]; intros src left idx acc lft acc' idx' H Hnd Hin Hord Hle; [discriminate|].
    cbn [satisf_levels] in H.
    destruct (lv_next src) as [[t src']|] eqn:Hn.
    - destruct (zip_with_weights cs t) as [ths|] eqn:Hz; cbn [bind] in H; [|discriminate].
      destruct (satisf_walk left left ths t (idx + 1)%Z acc) as [[temp1 acc1]|] eqn:Hw; cbn [bind] in H; [|discriminate].
      cbn [fst snd] in H.
      apply (satisf_walk_level cs t ths (idx + 1)%Z left acc temp1 acc1 Hz Hnd) in Hw as [Hacc1 Htemp1].
      assert (Hin1 : in_order ids temp1) by (rewrite Htemp1; now apply in_order_filter).
      assert (Hord1 : ordm ids acc1 = true).
      { rewrite Hacc1. apply ordm_app; [exact Hord|apply ordm_group; now apply in_order_filter|].
        intros x y Hx Hy. rewrite Forall_forall in Hle. apply Hle in Hx.
        apply in_map_iff in Hy as (a & <- & _). unfold midx at 2. cbn [snd]. lia. }
      assert (Hle1 : Forall (fun x => (midx x <= idx + 1)%Z) acc1).
      { rewrite Hacc1. apply Forall_app. split.
        - eapply Forall_impl; [|exact Hle]. cbn beta. intros; lia.
        - apply Forall_forall. intros x Hx. apply in_map_iff in Hx as (a & <- & _).
          unfold midx. cbn [snd]. lia. }
      destruct temp1 as [|b temp1'].
      + inversion H; subst lft acc' idx'. repeat split; assumption.
      + eapply IH; [exact H| |exact Hin1|exact Hord1|exact Hle1].
        rewrite Htemp1. now apply NoDup_ids_filter.
    - inversion H; subst lft acc' idx'. repeat split; assumption.
  Qed.

  (** ** 4. the main theorem *)
  Theorem satisfaction_order_passes_gen : forall e s r,
    NoDup (map a_id (st_cons s)) ->
    satisfaction_evaluate e s = Ok r -> C13_order_ok e s r = true.
  Proof.
    intros e s r Hnd H. unfold satisfaction_evaluate in H. unfold C13_order_ok.
    destruct (st_params s) as [| | | | |?|fn lp seed cur rnd]; try discriminate.
    destruct (lv_init Decreasing fn lp s) as [src|] eqn:Hinit; cbn [bind] in H; [|discriminate].
    destruct (search_order s cur rnd (new_rng e seed)) as [[[current considered] g1]|] eqn:Hso;
      cbn [bind] in H; [|discriminate].
    apply (search_order_nodup s cur rnd _ current considered g1 Hnd) in Hso.
    destruct (satisf_levels level_fuel src (st_crits s) (current :: considered) (-1)%Z []) as [[[lft acc] idx]|] eqn:Hlv;
      cbn [bind] in H; [|discriminate].
    destruct (satisf_levels_order (map a_id (current :: considered)) (st_crits s) level_fuel src
                (current :: considered) (-1)%Z [] lft acc idx Hlv Hso (in_order_self _ Hso) eq_refl (Forall_nil _))
      as (Hin & Hord & Hle).
    destruct lft as [|b lft'].
    - inversion H; subst r. now rewrite order_ok_seq.
    - remember (b :: lft') as lft eqn:El.
      destruct (lowest_thresholds s) as [low|]; cbn [bind] in H; [|discriminate].
      injection H as <-. rewrite order_ok_seq.
      apply ordm_app; [exact Hord|now apply ordm_group|].
      intros x y Hx Hy. rewrite Forall_forall in Hle. apply Hle in Hx.
      apply in_map_iff in Hy as (a & <- & _). unfold midx at 2. cbn [snd]. lia.
  Qed.

  (** the statement as requested *)
  Theorem satisfaction_order_passes : forall e s r,
    NoDup (map a_id (all_alts s)) ->
    satisfaction_evaluate e s = Ok r -> C13_order_ok e s r = true.
  Proof.
    intros e s r Hnd H. eapply satisfaction_order_passes_gen; [|exact H].
    unfold all_alts in Hnd. rewrite map_app in Hnd. eapply NoDup_app_l; eassumption.
  Qed.
End SatisfOrderFacts.

Print Assumptions satisfaction_order_passes_gen.
Print Assumptions satisfaction_order_passes.
