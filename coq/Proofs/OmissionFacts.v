(** * C15: criteria omission removes exactly the requested share, weakest first.
    Structural facts hold for every carrier; arithmetic ones are on the exact-rational instance [NumQc]. *)
From Coq Require Import ZArith QArith Qcanon Qround Bool List String Lia Lqa Permutation Sorted.
From RDM Require Import Base.Num Base.NumQc Base.Util Model.Data Model.Rank Model.Utility Model.Levels Model.Heuristics
     Model.Electre Model.Listeners Model.Biases Check.Stage Check.BiasCheckers
     Proofs.SortFacts Proofs.RankFacts Proofs.LevelFacts Proofs.WfFacts.
Import ListNotations.
Local Open Scope string_scope.
Local Open Scope list_scope.

(** ** 0. Small generic list facts *)
Lemma bind_ok {A B} (r : res A) (f : A -> res B) b :
  bind r f = Ok b -> exists a, r = Ok a /\ f a = Ok b.
Proof. destruct r as [a|e]; cbn [bind]; [eauto|discriminate]. Qed.

Lemma nth_opt_split {A} : forall i (l : list A) c,
  nth_opt i l = Some c -> Permutation l (c :: remove_nth i l) /\ List.length l = S (List.length (remove_nth i l)).
Proof.
  induction i as [|i IH]; intros [|x r] c H; cbn [nth_opt] in H; try discriminate.
  - injection H as ->. cbn [remove_nth]. split; reflexivity.
  - cbn [remove_nth]. destruct (IH r c H) as [P Len]. split.
    + rewrite perm_swap. now constructor.
    + cbn [List.length]. now rewrite Len.
Qed.

Lemma nth_opt_last {A} : forall (l : list A) c,
  nth_opt (List.length l - 1) l = Some c -> l = removelast l ++ [c].
Proof.
  induction l as [|x r IH]; intros c H; [discriminate|].
  destruct r as [|y r'].
  - cbn in H. injection H as ->. reflexivity.
  - replace (List.length (x :: y :: r') - 1)%nat with (S (List.length (y :: r') - 1)) in H
      by (cbn [List.length]; lia).
    cbn [nth_opt] in H. apply IH in H.
    change (removelast (x :: y :: r')) with (x :: removelast (y :: r')).
    cbn [app]. now rewrite <- H.
Qed.

Lemma removelast_length {A} (l : list A) c : l = removelast l ++ [c] -> List.length l = S (List.length (removelast l)).
Proof. intros H. rewrite H at 1. rewrite app_length. cbn [List.length]. lia. Qed.

Lemma sorted_app_rel {A} (R : A -> A -> Prop) : forall l1 l2,
  StronglySorted R (l1 ++ l2) -> forall x y, In x l1 -> In y l2 -> R x y.
Proof.
  induction l1 as [|a r IH]; intros l2 S x y Ix Iy; [destruct Ix|].
  cbn [app] in S. inversion S as [|? ? Sr Ha]; subst.
  destruct Ix as [<-|Ix].
  - rewrite Forall_forall in Ha. apply Ha. apply in_or_app. now right.
  - now apply (IH l2).
Qed.

Lemma list_eqb_Forall2 {A B} (f : A -> B -> bool) : forall l1 l2,
  Forall2 (fun x y => f x y = true) l1 l2 -> list_eqb f l1 l2 = true.
Proof. induction 1; cbn [list_eqb]; [reflexivity|]. now rewrite H, IHForall2. Qed.

Lemma list_eqb_refl_gen {A} (f : A -> A -> bool) : (forall x, f x x = true) -> forall l, list_eqb f l l = true.
Proof. intros H. induction l as [|x r IH]; cbn [list_eqb]; [reflexivity|]. now rewrite H, IH. Qed.

Lemma NoDup_app_disj {A} : forall (l1 l2 : list A), NoDup (l1 ++ l2) -> forall x, In x l1 -> ~ In x l2.
Proof.
  induction l1 as [|a r IH]; intros l2 ND x Ix; [destruct Ix|].
  cbn [app] in ND. inversion ND as [|? ? Na Nr]; subst.
  destruct Ix as [<-|Ix].
  - intros I2. apply Na. apply in_or_app. now right.
  - now apply IH.
Qed.

Section Structural.
  Context {N : Num}.

  (** ** 1. The split *)
  Definition clampZ (k lo hi : Z) : Z := if (k <? lo)%Z then lo else if (hi <? k)%Z then hi else k.

  Lemma split_pivot_clamp n p :
    split_pivot n p = clampZ (nfloorZ (nmul (nofZ (Z.of_nat n)) (bp_ratio p))) (bp_min p) (bp_max p).
  Proof. reflexivity. Qed.

  Lemma clampZ_minmax k lo hi : (lo <= hi)%Z -> clampZ k lo hi = Z.min (Z.max k lo) hi.
  Proof. unfold clampZ. intros H. destruct (Z.ltb_spec k lo), (Z.ltb_spec hi k); lia. Qed.

  Lemma clampZ_range k lo hi : (lo <= hi)%Z -> (lo <= clampZ k lo hi <= hi)%Z.
  Proof. unfold clampZ. intros H. destruct (Z.ltb_spec k lo), (Z.ltb_spec hi k); lia. Qed.

  Theorem split_criteria_spec (sorted : list crit) p l r :
    split_criteria sorted p = Ok (l, r) ->
    let k := Z.to_nat (split_pivot (List.length sorted) p) in
    l = firstn k sorted /\ r = skipn k sorted /\ l ++ r = sorted /\ (0 <= k <= List.length sorted)%nat
    /\ (0 <= split_pivot (List.length sorted) p <= Z.of_nat (List.length sorted))%Z
    /\ List.length l = k /\ (List.length r + List.length l = List.length sorted)%nat
    /\ is_probability (bp_ratio p) = true /\ (bp_min p <= bp_max p)%Z.
  Proof.
    intros H k. unfold split_criteria in H.
    destruct (is_probability (bp_ratio p)) eqn:E1; cbn [negb] in H; [|discriminate].
    destruct (Z.ltb_spec (bp_max p) (bp_min p)) as [E2|E2]; [discriminate|].
    destruct (Z.ltb_spec (split_pivot (List.length sorted) p) 0) as [E3|E3]; cbn [orb] in H; [discriminate|].
    destruct (Z.ltb_spec (Z.of_nat (List.length sorted)) (split_pivot (List.length sorted) p)) as [E4|E4]; [discriminate|].
    injection H as <- <-. fold k.
    assert (Hk : (k <= List.length sorted)%nat) by (unfold k; lia).
    repeat split; try lia.
    - apply firstn_skipn.
    - rewrite firstn_length. lia.
    - rewrite firstn_length, skipn_length. lia.
  Qed.

  (** ** 2. Orderings are permutations *)
  Lemma zip_with_weights_fst (cs : list crit) w wc : zip_with_weights cs w = Ok wc -> map fst wc = cs.
  Proof.
    unfold zip_with_weights. revert wc. induction cs as [|c r IH]; intros wc H; cbn [mapM] in H.
    - injection H as <-. reflexivity.
    - apply bind_ok in H as (y & Hy & H). apply bind_ok in Hy as (v & _ & Hy). injection Hy as <-.
      apply bind_ok in H as (ys & Hys & H). injection H as <-. cbn [map fst]. f_equal. now apply IH.
  Qed.

  Lemma sort_by_weights_inv (cs : list crit) w r :
    sort_by_weights cs w = Ok r -> exists wc, map fst wc = cs /\ r = isort wc_lt wc.
  Proof.
    unfold sort_by_weights. intros H. apply bind_ok in H as (wc & Hz & H). injection H as <-.
    exists wc. split; [now apply zip_with_weights_fst in Hz|reflexivity].
  Qed.

  Lemma rank_criteria_inv s r :
    rank_criteria s = Ok r -> exists wc, map fst wc = st_crits s /\ r = isort wc_lt wc.
  Proof.
    unfold rank_criteria. intros H.
    destruct (st_params s);
      first [now apply sort_by_weights_inv in H
            | apply bind_ok in H as (w0 & _ & H); now apply sort_by_weights_inv in H].
  Qed.

  Lemma rank_criteria_perm s r : rank_criteria s = Ok r -> Permutation (map fst r) (st_crits s).
  Proof.
    intros H. apply rank_criteria_inv in H as (wc & <- & ->). apply Permutation_map. apply isort_perm.
  Qed.

  Lemma rank_criteria_length s r : rank_criteria s = Ok r -> List.length r = List.length (st_crits s).
  Proof. intros H. apply rank_criteria_perm, Permutation_length in H. now rewrite map_length in H. Qed.

  (** every round of [wbp_loop] moves exactly one element of the remaining list to the end of the result *)
  Lemma wbp_loop_perm : forall fuel n pos (sorted : list wcrit) total g acc l,
    fuel = List.length sorted -> (n = pos + List.length sorted)%nat ->
    wbp_loop fuel n pos sorted total g acc = Ok l -> Permutation l (acc ++ map fst sorted).
  Proof.
    induction fuel as [|f IH]; intros n pos sorted total g acc l Hf Hn H; cbn [wbp_loop] in H.
    - injection H as <-. destruct sorted; [|discriminate]. cbn [map]. now rewrite app_nil_r.
    - apply bind_ok in H as (dg & _ & H).
      destruct (pick_weighted sorted nzero (nmul (fst dg) total) 0) as [i|].
      + destruct (nth_opt i sorted) as [c|] eqn:E; [|discriminate].
        destruct (nth_opt_split _ _ _ E) as [P Len].
        apply IH in H; [|lia|lia]. rewrite H, <- app_assoc. apply Permutation_app_head.
        cbn [app]. change (fst c :: map fst (remove_nth i sorted)) with (map fst (c :: remove_nth i sorted)).
        apply Permutation_map. now symmetry.
      + replace (n - pos - 1)%nat with (List.length sorted - 1)%nat in H by lia.
        destruct (nth_opt (List.length sorted - 1) sorted) as [c|] eqn:E; [|discriminate].
        apply nth_opt_last in E. pose proof (removelast_length _ _ E) as Len.
        apply IH in H; [|lia|lia]. rewrite H, <- app_assoc. apply Permutation_app_head.
        rewrite E at 2. rewrite map_app. cbn [map]. apply Permutation_app_comm.
  Qed.

  Lemma wbp_loop_prefix : forall fuel n pos (sorted : list wcrit) total g acc l,
    wbp_loop fuel n pos sorted total g acc = Ok l -> exists t, l = acc ++ t.
  Proof.
    induction fuel as [|f IH]; intros n pos sorted total g acc l H; cbn [wbp_loop] in H.
    - injection H as <-. exists []. now rewrite app_nil_r.
    - apply bind_ok in H as (dg & _ & H).
      destruct (pick_weighted sorted nzero (nmul (fst dg) total) 0) as [i|].
      + destruct (nth_opt i sorted) as [c|]; [|discriminate].
        apply IH in H as (t & ->). rewrite <- app_assoc. eauto.
      + destruct (nth_opt (n - pos - 1) sorted) as [c|]; [|discriminate].
        apply IH in H as (t & ->). rewrite <- app_assoc. eauto.
  Qed.

  (** the weights handed to the weighted draw, and their total *)
  Definition wbp_minw (sorted : list wcrit) : num := match sorted with [] => nzero | first :: _ => snd first end.
  Definition wbp_dif (sorted : list wcrit) : num :=
    if nleb (wbp_minw sorted) none then nsub none (wbp_minw sorted) else nzero.
  Definition wbp_num (sorted : list wcrit) : num :=
    if nleb (wbp_minw sorted) none then none else wbp_minw sorted.
  Definition wbp_weight (sorted : list wcrit) (w : num) : num := ndiv (wbp_num sorted) (nadd w (wbp_dif sorted)).
  Definition wbp_mapped (sorted : list wcrit) : list wcrit := map (fun c => (fst c, wbp_weight sorted (snd c))) sorted.
  Definition wbp_total (sorted : list wcrit) : num := fold_left (fun t c => nadd t (snd c)) (wbp_mapped sorted) nzero.

  Lemma weakest_by_probability_unfold e s seed :
    weakest_by_probability e s seed =
    (do sorted <- rank_criteria s;
     match sorted with
     | [] => Ok []
     | _ :: _ => wbp_loop (List.length sorted) (List.length sorted) 0 (wbp_mapped sorted) (wbp_total sorted)
                          (new_rng e seed) []
     end).
  Proof. unfold weakest_by_probability. destruct (rank_criteria s) as [[|first r]|]; reflexivity. Qed.

  Lemma wbp_mapped_fst sorted : map fst (wbp_mapped sorted) = map fst sorted.
  Proof. unfold wbp_mapped. rewrite map_map. reflexivity. Qed.

  Lemma weakest_by_probability_perm e s seed l :
    weakest_by_probability e s seed = Ok l -> Permutation l (st_crits s).
  Proof.
    rewrite weakest_by_probability_unfold. intros H. apply bind_ok in H as (sorted & Hr & H).
    apply rank_criteria_perm in Hr. rewrite <- Hr.
    destruct sorted as [|first r]; [injection H as <-; reflexivity|].
    apply wbp_loop_perm in H.
    - cbn [app] in H. now rewrite wbp_mapped_fst in H.
    - unfold wbp_mapped. now rewrite map_length.
    - unfold wbp_mapped. now rewrite map_length.
  Qed.

  Theorem order_criteria_perm e s p l : order_criteria e s p = Ok l -> Permutation l (st_crits s).
  Proof.
    unfold order_criteria. intros H.
    destruct (String.eqb (bp_ordering p) "" || String.eqb (bp_ordering p) o_weakest).
    { apply bind_ok in H as (r & Hr & H). injection H as <-. now apply rank_criteria_perm. }
    destruct (String.eqb (bp_ordering p) o_strongest).
    { apply bind_ok in H as (r & Hr & H). injection H as <-.
      rewrite <- Permutation_rev. now apply rank_criteria_perm. }
    destruct (String.eqb (bp_ordering p) o_random).
    { apply bind_ok in H as (r & Hr & H). injection H as <-. destruct r as [l' g'].
      now apply shuffle_perm in Hr. }
    destruct (String.eqb (bp_ordering p) o_weakest_prob).
    { now apply weakest_by_probability_perm in H. }
    destruct (String.eqb (bp_ordering p) o_strongest_prob); [|discriminate].
    apply bind_ok in H as (r & Hr & H). injection H as <-.
    rewrite <- Permutation_rev. now apply weakest_by_probability_perm in Hr.
  Qed.

  Corollary order_criteria_length e s p l : order_criteria e s p = Ok l -> List.length l = List.length (st_crits s).
  Proof. intros H. now apply order_criteria_perm, Permutation_length in H. Qed.

  (** the five orderings, one by one *)
  Lemma order_weakest e s p : bp_ordering p = "" \/ bp_ordering p = o_weakest ->
    order_criteria e s p = (do r <- rank_criteria s; Ok (map fst r)).
  Proof. unfold order_criteria. intros [-> | ->]; reflexivity. Qed.

  Lemma order_strongest e s p : bp_ordering p = o_strongest ->
    order_criteria e s p = (do r <- rank_criteria s; Ok (rev (map fst r))).
  Proof. unfold order_criteria. intros ->. reflexivity. Qed.

  Lemma order_random e s p : bp_ordering p = o_random ->
    order_criteria e s p = (do r <- shuffle (st_crits s) (new_rng e (bp_seed p)); Ok (fst r)).
  Proof. unfold order_criteria. intros ->. reflexivity. Qed.

  Lemma order_weakest_prob e s p : bp_ordering p = o_weakest_prob ->
    order_criteria e s p = weakest_by_probability e s (bp_seed p).
  Proof. unfold order_criteria. intros ->. reflexivity. Qed.

  Lemma order_strongest_prob e s p : bp_ordering p = o_strongest_prob ->
    order_criteria e s p = (do r <- weakest_by_probability e s (bp_seed p); Ok (rev r)).
  Proof. unfold order_criteria. intros ->. reflexivity. Qed.

  Theorem strongest_is_rev_weakest e s ps pw :
    bp_ordering ps = o_strongest -> (bp_ordering pw = "" \/ bp_ordering pw = o_weakest) ->
    order_criteria e s ps = (do l <- order_criteria e s pw; Ok (rev l)).
  Proof.
    intros Hs Hw. rewrite (order_strongest _ _ _ Hs), (order_weakest _ _ _ Hw).
    destruct (rank_criteria s); reflexivity.
  Qed.

  Theorem strongest_prob_is_rev e s ps pw :
    bp_ordering ps = o_strongest_prob -> bp_ordering pw = o_weakest_prob -> bp_seed ps = bp_seed pw ->
    order_criteria e s ps = (do l <- order_criteria e s pw; Ok (rev l)).
  Proof.
    intros Hs Hw Hseed. rewrite (order_strongest_prob _ _ _ Hs), (order_weakest_prob _ _ _ Hw), Hseed. reflexivity.
  Qed.
End Structural.

(** the pivot on [NumQc], readably: floor (n * ratio) clamped to [min, max] *)
Lemma this_ofZ (z : Z) : (this (@nofZ NumQc z) == inject_Z z)%Q.
Proof. cbn [nofZ NumQc]. unfold qc_ofZ, Q2Qc. cbn [this]. apply Qred_correct. Qed.

Theorem split_pivot_spec (n : nat) (p : @bprops NumQc) :
  @split_pivot NumQc n p =
  let k := Qfloor (inject_Z (Z.of_nat n) * this (bp_ratio p)) in
  if (k <? bp_min p)%Z then bp_min p else if (bp_max p <? k)%Z then bp_max p else k.
Proof.
  cbv zeta. rewrite split_pivot_clamp. unfold clampZ.
  assert (E : @nfloorZ NumQc (@nmul NumQc (@nofZ NumQc (Z.of_nat n)) (bp_ratio p))
              = Qfloor (inject_Z (Z.of_nat n) * this (bp_ratio p))).
  { cbn [nfloorZ nmul NumQc]. unfold qc_floorZ. apply Qfloor_comp. rewrite this_mult, this_ofZ. reflexivity. }
  rewrite E. reflexivity.
Qed.

Corollary split_pivot_minmax (n : nat) (p : @bprops NumQc) : (bp_min p <= bp_max p)%Z ->
  @split_pivot NumQc n p = Z.min (Z.max (Qfloor (inject_Z (Z.of_nat n) * this (bp_ratio p))) (bp_min p)) (bp_max p)
  /\ (bp_min p <= @split_pivot NumQc n p <= bp_max p)%Z.
Proof.
  intros H. rewrite split_pivot_spec. cbv zeta.
  set (k := Qfloor (inject_Z (Z.of_nat n) * this (bp_ratio p))).
  change (if (k <? bp_min p)%Z then bp_min p else if (bp_max p <? k)%Z then bp_max p else k)
    with (clampZ k (bp_min p) (bp_max p)).
  split; [now apply clampZ_minmax|now apply clampZ_range].
Qed.

(** ** 3. Reflexivity of the observational equalities (needs only [same_refl]) *)
Lemma Forall2_weaken {A B} (R R' : A -> B -> Prop) : (forall a b, R a b -> R' a b) ->
  forall l1 l2, Forall2 R l1 l2 -> Forall2 R' l1 l2.
Proof. intros H l1 l2. induction 1; constructor; auto. Qed.

Lemma Forall2_in_r {A B} (R : A -> B -> Prop) : forall l1 l2, Forall2 R l1 l2 ->
  forall y, In y l2 -> exists x, In x l1 /\ R x y.
Proof.
  induction 1 as [|a b l1 l2 Hab HF IH]; intros y Iy; [destruct Iy|].
  destruct Iy as [<-|Iy]; [exists a; split; [now left|exact Hab]|].
  destruct (IH y Iy) as (x & Ix & Hx). exists x. split; [now right|exact Hx].
Qed.

Section Refl.
  Context {N : Num} {L : OrdLaws N}.

  Lemma option_same_refl (o : option num) : option_eqb nsame o o = true.
  Proof. destruct o; cbn [option_eqb]; [apply same_refl|reflexivity]. Qed.

  Lemma smap_same_refl (m : smap num) : smap_same m m = true.
  Proof. apply list_eqb_refl_gen. intros x. now rewrite String.eqb_refl, same_refl. Qed.

  Lemma crit_same_refl (c : crit) : crit_same c c = true.
  Proof.
    unfold crit_same, range_same. rewrite String.eqb_refl.
    replace (ctype_eqb (c_type c) (c_type c)) with true by (destruct (c_type c); reflexivity).
    destruct (c_range c) as [[a b]|]; cbn [option_eqb fst snd andb]; [now rewrite !same_refl|reflexivity].
  Qed.

  Lemma wcrit_same_refl (x : wcrit) : wcrit_same x x = true.
  Proof. unfold wcrit_same. now rewrite crit_same_refl, same_refl. Qed.

  Lemma linfun_same_refl (f : linfun) : linfun_same f f = true.
  Proof. unfold linfun_same. now rewrite !same_refl. Qed.

  Lemma ecrit_same_refl (x : ecrit) : ecrit_same x x = true.
  Proof. unfold ecrit_same. now rewrite same_refl, !linfun_same_refl. Qed.

  Lemma lparams_same_refl (x : lparams) : lparams_same x x = true.
  Proof.
    unfold lparams_same. rewrite !same_refl. cbn [andb].
    apply list_eqb_refl_gen. exact smap_same_refl.
  Qed.

  Theorem params_same_refl (p : mparams) : params_same p p = true.
  Proof.
    destruct p; cbn [params_same];
      rewrite ?smap_same_refl, ?String.eqb_refl, ?Z.eqb_refl, ?Bool.eqb_reflx, ?lparams_same_refl, ?linfun_same_refl;
      cbn [andb]; try reflexivity.
    - apply list_eqb_refl_gen. exact wcrit_same_refl.
    - apply list_eqb_refl_gen. exact wcrit_same_refl.
    - apply list_eqb_refl_gen. exact crit_same_refl.
    - rewrite andb_true_r. apply list_eqb_refl_gen. intros x. now rewrite String.eqb_refl, ecrit_same_refl.
  Qed.
End Refl.

(** ** 4. [with_criteria_only]: keys and values *)
Lemma mkeys_nil_inv {A} (m : smap A) : mkeys m = [] -> m = [].
Proof. destruct m; [reflexivity|discriminate]. Qed.

Lemma mkeys_mset_congr {A B} k (v1 : A) (v2 : B) : forall (m1 : smap A) (m2 : smap B),
  mkeys m1 = mkeys m2 -> mkeys (mset k v1 m1) = mkeys (mset k v2 m2).
Proof.
  induction m1 as [|[k1 x1] r1 IH]; intros m2 H.
  - symmetry in H. apply mkeys_nil_inv in H. subst. reflexivity.
  - destruct m2 as [|[k2 x2] r2]; [discriminate|].
    cbn [mkeys map fst] in H. injection H as <- H.
    cbn [mset]. destruct (String.eqb k k1); [cbn [mkeys map fst]; now f_equal|].
    destruct (String.ltb k k1); cbn [mkeys map fst]; f_equal; [now f_equal|].
    now apply IH.
Qed.

Section WithCriteriaOnly.
  Context {N : Num}.

  Definition key_fold (cs : list crit) : smap num := fold_left (fun m c => mset (c_id c) nzero m) cs [].

  Definition woc_step (a : alt) (m : smap num) (c : crit) : res (smap num) :=
    do v <- raw_value a c; Ok (mset (c_id c) v m).

  Lemma with_criteria_only_inv a cs a' :
    with_criteria_only a cs = Ok a' ->
    exists vals, fold_left (fun acc c => do m <- acc; woc_step a m c) cs (Ok []) = Ok vals
                 /\ a' = {| a_id := a_id a; a_vals := vals |}.
  Proof.
    unfold with_criteria_only. intros H. apply bind_ok in H as (vals & Hv & H). injection H as <-.
    exists vals. split; [exact Hv|reflexivity].
  Qed.

  Definition woc_inv (a : alt) (m : smap num) (done : list crit) : Prop :=
    mkeys m = mkeys (key_fold done)
    /\ forall c, In c done -> mget (c_id c) m = mget (c_id c) (a_vals a) /\ mhas (c_id c) (a_vals a) = true.

  Lemma woc_step_inv a m x m' done : woc_inv a m done -> woc_step a m x = Ok m' -> woc_inv a m' (done ++ [x]).
  Proof.
    intros [Hk Hv] H. unfold woc_step in H. apply bind_ok in H as (v & Hr & H). injection H as <-.
    unfold raw_value in Hr. destruct (mget (c_id x) (a_vals a)) as [v0|] eqn:E; cbn [of_option] in Hr; [|discriminate].
    injection Hr as ->. split.
    - unfold key_fold. rewrite fold_left_app. cbn [fold_left]. now apply mkeys_mset_congr.
    - intros c Ic. destruct (string_dec (c_id c) (c_id x)) as [Eq|Ne].
      + rewrite Eq, mget_mset_same, E. unfold mhas. rewrite E. split; reflexivity.
      + rewrite mget_mset_other by exact Ne. apply in_app_or in Ic as [Ic|[<-|[]]]; [now apply Hv|congruence].
  Qed.

  Theorem with_criteria_only_spec a cs a' :
    with_criteria_only a cs = Ok a' ->
    a_id a' = a_id a
    /\ mkeys (a_vals a') = mkeys (key_fold cs)
    /\ forall c, In c cs -> mget (c_id c) (a_vals a') = mget (c_id c) (a_vals a) /\ mhas (c_id c) (a_vals a) = true.
  Proof.
    intros H. apply with_criteria_only_inv in H as (vals & Hf & ->). cbn [a_id a_vals].
    split; [reflexivity|].
    apply (fold_res_ind (woc_step a) (woc_inv a) (woc_step_inv a) cs [] [] vals) in Hf.
    - exact Hf.
    - split; [reflexivity|]. intros c [].
  Qed.
End WithCriteriaOnly.

(** ** 5. Weakest first (on [NumQc]) *)
Section Weakest.
  Local Open Scope Qc_scope.
  Notation crit := (@crit NumQc).
  Notation wcrit := (@wcrit NumQc).
  Notation state := (@state NumQc).
  Notation bprops := (@bprops NumQc).

  Lemma wc_le_iff (a b : wcrit) : SortFacts.le wc_lt a b <-> snd a <= snd b.
  Proof. unfold SortFacts.le, wc_lt. apply nltb_false_iff. Qed.

  Lemma isort_wc_sorted (wc : list wcrit) : StronglySorted (fun a b => snd a <= snd b) (isort wc_lt wc).
  Proof.
    apply (StronglySorted_weaken (SortFacts.le (@wc_lt NumQc))); [intros a b _ _; apply wc_le_iff|].
    apply isort_sorted.
    - intros a b c. rewrite !wc_le_iff. apply Qcle_trans.
    - intros a b H. apply wc_le_iff. unfold wc_lt in H. apply nltb_iff in H. now apply Qclt_le_weak.
  Qed.

  Theorem weakest_sorted (s : state) ranked :
    rank_criteria s = Ok ranked -> StronglySorted (fun a b => snd a <= snd b) ranked.
  Proof. intros H. apply rank_criteria_inv in H as (wc & _ & ->). apply isort_wc_sorted. Qed.

  Definition wid (x : wcrit) : string := c_id (fst x).

  Lemma importance_of_in (ranked : list wcrit) x :
    NoDup (map wid ranked) -> In x ranked -> importance_of ranked (wid x) = Some (snd x).
  Proof.
    unfold importance_of. induction ranked as [|y r IH]; intros ND Ix; [destruct Ix|].
    cbn [map] in ND. inversion ND as [|? ? Ny Nr]; subst. cbn [find].
    destruct Ix as [->|Ix].
    - unfold wid. now rewrite String.eqb_refl.
    - destruct (String.eqb (c_id (fst y)) (wid x)) eqn:E; [|now apply IH].
      apply String.eqb_eq in E. exfalso. apply Ny. change (c_id (fst y)) with (wid y) in E. rewrite E.
      now apply in_map.
  Qed.

  Lemma rank_criteria_nodup (s : state) ranked :
    NoDup (map c_id (st_crits s)) -> rank_criteria s = Ok ranked -> NoDup (map wid ranked).
  Proof.
    intros ND H. apply rank_criteria_perm in H.
    replace (map wid ranked) with (map c_id (map fst ranked)) by (rewrite map_map; reflexivity).
    apply (Permutation_NoDup (l := map c_id (st_crits s))); [|exact ND].
    apply Permutation_map. now symmetry.
  Qed.

  (** the split of a ranked list *)
  Theorem weakest_split (s : state) ranked p omitted kept :
    rank_criteria s = Ok ranked -> split_criteria (map fst ranked) p = Ok (omitted, kept) ->
    exists ro rk, ranked = ro ++ rk /\ omitted = map fst ro /\ kept = map fst rk
                  /\ List.length ro = Z.to_nat (split_pivot (List.length (st_crits s)) p)
                  /\ forall x y, In x ro -> In y rk -> snd x <= snd y.
  Proof.
    intros Hr Hs. pose proof (weakest_sorted _ _ Hr) as S.
    apply split_criteria_spec in Hs. cbv zeta in Hs. destruct Hs as (Hl & Hk & _ & _ & _ & Len & _).
    rewrite <- (rank_criteria_length _ _ Hr).
    set (k := Z.to_nat (split_pivot (List.length (map fst ranked)) p)) in *.
    exists (firstn k ranked), (skipn k ranked).
    rewrite firstn_map in Hl. rewrite skipn_map in Hk.
    split; [symmetry; apply firstn_skipn|]. split; [exact Hl|]. split; [exact Hk|].
    split; [rewrite Hl, map_length in Len; unfold k in Len |- *; rewrite map_length in Len |- *; exact Len|].
    apply sorted_app_rel. now rewrite firstn_skipn.
  Qed.

  (** with ordering weakest no omitted criterion is more important than a kept one *)
  Theorem weakest_sound (s : state) ranked p omitted kept :
    NoDup (map c_id (st_crits s)) ->
    rank_criteria s = Ok ranked -> split_criteria (map fst ranked) p = Ok (omitted, kept) ->
    forall oc kc, In oc omitted -> In kc kept ->
      exists io ik, importance_of ranked (c_id oc) = Some io /\ importance_of ranked (c_id kc) = Some ik /\ io <= ik.
  Proof.
    intros ND Hr Hs oc kc Io Ik.
    pose proof (rank_criteria_nodup _ _ ND Hr) as NDr.
    destruct (weakest_split _ _ _ _ _ Hr Hs) as (ro & rk & -> & -> & -> & _ & Hle).
    apply in_map_iff in Io as (x & <- & Ix). apply in_map_iff in Ik as (y & <- & Iy).
    exists (snd x), (snd y).
    split; [apply (importance_of_in _ x NDr); apply in_or_app; now left|].
    split; [apply (importance_of_in _ y NDr); apply in_or_app; now right|].
    now apply Hle.
  Qed.

  (** ... and with ordering strongest no omitted criterion is less important than a kept one *)
  Theorem strongest_split (s : state) ranked p omitted kept :
    rank_criteria s = Ok ranked -> split_criteria (rev (map fst ranked)) p = Ok (omitted, kept) ->
    exists ro rk, rev ranked = ro ++ rk /\ omitted = map fst ro /\ kept = map fst rk
                  /\ List.length ro = Z.to_nat (split_pivot (List.length (st_crits s)) p)
                  /\ forall x y, In x ro -> In y rk -> snd y <= snd x.
  Proof.
    intros Hr Hs. pose proof (weakest_sorted _ _ Hr) as S.
    rewrite <- map_rev in Hs.
    apply split_criteria_spec in Hs. cbv zeta in Hs. destruct Hs as (Hl & Hk & _ & _ & _ & Len & _).
    rewrite <- (rank_criteria_length _ _ Hr).
    set (k := Z.to_nat (split_pivot (List.length (map fst (rev ranked))) p)) in *.
    exists (firstn k (rev ranked)), (skipn k (rev ranked)).
    rewrite firstn_map in Hl. rewrite skipn_map in Hk.
    split; [symmetry; apply firstn_skipn|]. split; [exact Hl|]. split; [exact Hk|].
    split; [rewrite Hl, map_length in Len; unfold k in Len |- *; rewrite map_length, rev_length in Len |- *; exact Len|].
    intros x y Ix Iy.
    apply (sorted_app_rel (fun a b : wcrit => snd a <= snd b) (rev (skipn k (rev ranked))) (rev (firstn k (rev ranked)))).
    - rewrite <- rev_app_distr, firstn_skipn, rev_involutive. exact S.
    - now apply in_rev in Iy.
    - now apply in_rev in Ix.
  Qed.

  Theorem strongest_sound (s : state) ranked p omitted kept :
    NoDup (map c_id (st_crits s)) ->
    rank_criteria s = Ok ranked -> split_criteria (rev (map fst ranked)) p = Ok (omitted, kept) ->
    forall oc kc, In oc omitted -> In kc kept ->
      exists io ik, importance_of ranked (c_id oc) = Some io /\ importance_of ranked (c_id kc) = Some ik /\ ik <= io.
  Proof.
    intros ND Hr Hs oc kc Io Ik.
    pose proof (rank_criteria_nodup _ _ ND Hr) as NDr.
    destruct (strongest_split _ _ _ _ _ Hr Hs) as (ro & rk & Hrev & -> & -> & _ & Hle).
    apply in_map_iff in Io as (x & <- & Ix). apply in_map_iff in Ik as (y & <- & Iy).
    exists (snd x), (snd y).
    assert (Hin : forall z, In z (ro ++ rk) -> In z ranked) by (intros z Hz; rewrite <- Hrev in Hz; now apply in_rev in Hz).
    split; [apply (importance_of_in _ x NDr), Hin, in_or_app; now left|].
    split; [apply (importance_of_in _ y NDr), Hin, in_or_app; now right|].
    now apply Hle.
  Qed.
End Weakest.

(** ** 6. The model passes the checker *)
Section Checker.
  Local Open Scope Qc_scope.
  Notation crit := (@crit NumQc).
  Notation wcrit := (@wcrit NumQc).
  Notation alt := (@alt NumQc).
  Notation state := (@state NumQc).
  Notation bprops := (@bprops NumQc).

  Lemma has_crit_in (c : crit) cs : In c cs -> has_crit (c_id c) cs = true.
  Proof.
    intros I. unfold has_crit. apply existsb_exists. exists c. split; [exact I|apply String.eqb_refl].
  Qed.

  Lemma has_crit_false (id : string) (cs : list crit) : ~ In id (map c_id cs) -> has_crit id cs = false.
  Proof.
    intros H. unfold has_crit. destruct (existsb _ cs) eqn:E; [|reflexivity].
    apply existsb_exists in E as (c & Ic & Ec). apply String.eqb_eq in Ec. exfalso. apply H. rewrite <- Ec.
    now apply in_map.
  Qed.

  Lemma and10 (b1 b2 b3 b4 b5 b6 b7 b8 b9 b10 : bool) :
    b1 = true -> b2 = true -> b3 = true -> b4 = true -> b5 = true -> b6 = true -> b7 = true -> b8 = true ->
    b9 = true -> b10 = true -> b1 && b2 && b3 && b4 && b5 && b6 && b7 && b8 && b9 && b10 = true.
  Proof. intros -> -> -> -> -> -> -> -> -> ->. reflexivity. Qed.

  Lemma importance_clause (ranked ro rk : list wcrit) (cmp : Qc -> Qc -> bool) :
    NoDup (map wid ranked) ->
    (forall x, In x ro -> In x ranked) -> (forall y, In y rk -> In y ranked) ->
    (forall x y, In x ro -> In y rk -> cmp (snd x) (snd y) = true) ->
    forallb (fun oc : crit => forallb (fun kc : crit =>
                                  match importance_of ranked (c_id oc), importance_of ranked (c_id kc) with
                                  | Some io, Some ik => cmp io ik
                                  | _, _ => false
                                  end) (map fst rk)) (map fst ro) = true.
  Proof.
    intros ND Ho Hk Hc. apply forallb_forall. intros oc Io. apply forallb_forall. intros kc Ik.
    apply in_map_iff in Io as (x & <- & Ix). apply in_map_iff in Ik as (y & <- & Iy).
    change (c_id (fst x)) with (wid x). change (c_id (fst y)) with (wid y).
    rewrite (importance_of_in ranked x ND (Ho x Ix)), (importance_of_in ranked y ND (Hk y Iy)).
    now apply Hc.
  Qed.

  Section Clauses.
    Variables (e : @env NumQc) (cur : state) (p : bprops) (sorted lft rgt : list crit) (params : @mparams NumQc)
              (consd nconsd : list alt).
    Hypothesis ND : NoDup (map c_id (st_crits cur)).
    Hypothesis Hord : order_criteria e cur p = Ok sorted.
    Hypothesis Hsplit : split_criteria sorted p = Ok (lft, rgt).
    Hypothesis Hpar : on_criteria_removed rgt (st_params cur) = Ok params.
    Hypothesis Hc : mapM (fun a => with_criteria_only a rgt) (st_cons cur) = Ok consd.
    Hypothesis Hn : mapM (fun a => with_criteria_only a rgt) (st_notcons cur) = Ok nconsd.

    Let st : state := {| st_notcons := nconsd; st_cons := consd; st_crits := rgt; st_params := params |}.

    Lemma oc_app : lft ++ rgt = sorted.
    Proof. apply split_criteria_spec in Hsplit. cbv zeta in Hsplit. tauto. Qed.

    Lemma oc_perm : Permutation (lft ++ rgt) (st_crits cur).
    Proof. rewrite oc_app. exact (order_criteria_perm _ _ _ _ Hord). Qed.

    Lemma oc_in_l c : In c lft -> In c (st_crits cur).
    Proof. intros I. apply (Permutation_in _ oc_perm). apply in_or_app. now left. Qed.

    Lemma oc_in_r c : In c rgt -> In c (st_crits cur).
    Proof. intros I. apply (Permutation_in _ oc_perm). apply in_or_app. now right. Qed.

    Lemma oc_nodup : NoDup (map c_id lft ++ map c_id rgt).
    Proof.
      rewrite <- map_app. apply (Permutation_NoDup (l := map c_id (st_crits cur))); [|exact ND].
      apply Permutation_map. symmetry. exact oc_perm.
    Qed.

    Lemma clause_count : Z.eqb (Z.of_nat (List.length lft)) (split_pivot (List.length (st_crits cur)) p) = true.
    Proof.
      pose proof Hsplit as H. apply split_criteria_spec in H. cbv zeta in H.
      destruct H as (_ & _ & _ & _ & Hr & Len & _).
      rewrite (order_criteria_length _ _ _ _ Hord) in Hr, Len.
      apply Z.eqb_eq. rewrite Len. lia.
    Qed.

    Lemma clause_total : Nat.eqb (List.length rgt + List.length lft) (List.length (st_crits cur)) = true.
    Proof.
      apply Nat.eqb_eq. rewrite <- (Permutation_length oc_perm), app_length. lia.
    Qed.

    Lemma clause_omitted_declared : forallb (fun c : crit => has_crit (c_id c) (st_crits cur)) lft = true.
    Proof. apply forallb_forall. intros c I. apply has_crit_in. now apply oc_in_l. Qed.

    Lemma clause_omitted_gone : forallb (fun c : crit => negb (has_crit (c_id c) rgt)) lft = true.
    Proof.
      apply forallb_forall. intros c I. rewrite has_crit_false; [reflexivity|].
      apply (NoDup_app_disj _ _ oc_nodup). now apply in_map.
    Qed.

    Lemma clause_kept_declared : forallb (fun c : crit => has_crit (c_id c) (st_crits cur)) rgt = true.
    Proof. apply forallb_forall. intros c I. apply has_crit_in. now apply oc_in_r. Qed.

    Lemma clause_omitted_nodup : nodup_str (map c_id lft) = true.
    Proof. apply nodup_str_NoDup. exact (NoDup_app_l _ _ oc_nodup). Qed.

    Lemma all_alts_F2 :
      Forall2 (fun a a' : alt => with_criteria_only a rgt = Ok a') (all_alts cur) (all_alts st).
    Proof.
      unfold all_alts. cbn [st st_cons st_notcons]. apply Forall2_app; now apply mapM_Forall2.
    Qed.

    Lemma clause_keys :
      forallb (fun a : alt => list_eqb String.eqb (mkeys (a_vals a))
                                       (mkeys (fold_left (fun m (c : crit) => mset (c_id c) (@nzero NumQc) m) rgt ([] : smap Qc))))
              (all_alts st) = true.
    Proof.
      apply forallb_forall. intros a' I.
      destruct (Forall2_in_r _ _ _ all_alts_F2 a' I) as (a & _ & Ha).
      apply with_criteria_only_spec in Ha as (_ & Hk & _). rewrite Hk. apply list_eqb_refl.
    Qed.

    Lemma clause_values : values_kept rgt cur st = true.
    Proof.
      unfold values_kept. apply list_eqb_Forall2.
      refine (Forall2_weaken _ _ _ _ _ all_alts_F2).
      intros a a' Ha. cbv beta in Ha |- *. apply with_criteria_only_spec in Ha as (_ & _ & Hv).
      apply forallb_forall. intros c Ic. destruct (Hv c Ic) as [-> _]. apply option_same_refl.
    Qed.

    Lemma clause_params :
      match on_criteria_removed rgt (st_params cur) with
      | Ok pr => params_same pr (st_params st)
      | Err _ => false
      end = true.
    Proof. rewrite Hpar. cbn [st st_params]. apply params_same_refl. Qed.

    Lemma clause_importance :
      (let o := bp_ordering p in
       if String.eqb o "" || String.eqb o o_weakest || String.eqb o o_strongest then
         match rank_criteria cur with
         | Ok ranked =>
             forallb (fun oc : crit => forallb (fun kc : crit =>
                                           match importance_of ranked (c_id oc), importance_of ranked (c_id kc) with
                                           | Some io, Some ik => if String.eqb o o_strongest then nleb ik io else nleb io ik
                                           | _, _ => false
                                           end) rgt) lft
         | Err _ => false
         end
       else true) = true.
    Proof.
      cbv zeta. destruct (String.eqb (bp_ordering p) "" || String.eqb (bp_ordering p) o_weakest) eqn:Ew.
      - cbn [orb].
        assert (Hw : bp_ordering p = "" \/ bp_ordering p = o_weakest).
        { apply orb_true_iff in Ew as [E|E]; apply String.eqb_eq in E; auto. }
        assert (Es : String.eqb (bp_ordering p) o_strongest = false) by (destruct Hw as [-> | ->]; reflexivity).
        rewrite Es. pose proof Hord as H. rewrite (order_weakest _ _ _ Hw) in H.
        apply bind_ok in H as (ranked & Hr & H). injection H as <-. rewrite Hr.
        destruct (weakest_split _ _ _ _ _ Hr Hsplit) as (ro & rk & -> & -> & -> & _ & Hle).
        apply importance_clause.
        + exact (rank_criteria_nodup _ _ ND Hr).
        + intros x Ix. apply in_or_app. now left.
        + intros y Iy. apply in_or_app. now right.
        + intros x y Ix Iy. apply nleb_iff. now apply Hle.
      - cbn [orb]. destruct (String.eqb (bp_ordering p) o_strongest) eqn:Es; [|reflexivity].
        apply String.eqb_eq in Es. pose proof Hord as H. rewrite (order_strongest _ _ _ Es) in H.
        apply bind_ok in H as (ranked & Hr & H). injection H as <-. rewrite Hr.
        destruct (strongest_split _ _ _ _ _ Hr Hsplit) as (ro & rk & Hrev & -> & -> & _ & Hle).
        assert (Hin : forall z, In z (ro ++ rk) -> In z ranked)
          by (intros z Hz; rewrite <- Hrev in Hz; now apply in_rev in Hz).
        apply (importance_clause ranked ro rk (fun io ik => @nleb NumQc ik io)).
        + exact (rank_criteria_nodup _ _ ND Hr).
        + intros x Ix. apply Hin, in_or_app. now left.
        + intros y Iy. apply Hin, in_or_app. now right.
        + intros x y Ix Iy. apply nleb_iff. now apply Hle.
    Qed.

    Lemma clauses_all : C15_ok p cur st (ROmission lft) = true.
    Proof.
      unfold C15_ok. apply and10.
      - exact clause_count.
      - exact clause_total.
      - exact clause_omitted_declared.
      - exact clause_omitted_gone.
      - exact clause_kept_declared.
      - exact clause_omitted_nodup.
      - exact clause_keys.
      - exact clause_values.
      - exact clause_params.
      - exact clause_importance.
    Qed.
  End Clauses.

  Theorem omission_passes_checker e (cur : state) (p : bprops) st rep :
    NoDup (map c_id (st_crits cur)) ->
    apply_omission e cur p = Ok (st, rep) -> C15_ok p cur st rep = true.
  Proof.
    intros ND H. unfold apply_omission in H.
    destruct (negb (is_probability (bp_ratio p)) || (bp_max p <? bp_min p)%Z); [discriminate|].
    apply bind_ok in H as (sorted & Hord & H). apply bind_ok in H as ([lft rgt] & Hsplit & H).
    apply bind_ok in H as (params & Hpar & H). apply bind_ok in H as (consd & Hc & H).
    apply bind_ok in H as (nconsd & Hn & H). injection H as <- <-.
    exact (clauses_all e cur p sorted lft rgt params consd nconsd ND Hord Hsplit Hpar Hc Hn).
  Qed.
End Checker.

(** ** 7. weakestByProbability: the first pick *)
Section NthMap.
  Context {A B : Type}.
  Lemma nth_opt_map (f : A -> B) : forall i (l : list A),
    nth_opt i (map f l) = match nth_opt i l with Some x => Some (f x) | None => None end.
  Proof.
    induction i as [|i IH]; intros [|x r]; cbn [map nth_opt]; try reflexivity. apply IH.
  Qed.
End NthMap.

Section FirstPickModel.
  Context {N : Num}.

  (** the first draw [u] decides the first criterion of the result *)
  Theorem wbp_first_pick e (s : state) seed ranked u g' l i :
    rank_criteria s = Ok ranked -> new_rng e seed = u :: g' ->
    weakest_by_probability e s seed = Ok l ->
    pick_weighted (wbp_mapped ranked) nzero (nmul u (wbp_total ranked)) 0 = Some i ->
    exists c, nth_opt i ranked = Some c /\ nth_opt 0 l = Some (fst c).
  Proof.
    intros Hr Hg H Hp. rewrite weakest_by_probability_unfold, Hr in H. cbn [bind] in H.
    destruct ranked as [|first r]; [discriminate Hp|].
    change (wbp_loop (S (List.length r)) (List.length (first :: r)) 0 (wbp_mapped (first :: r))
                     (wbp_total (first :: r)) (new_rng e seed) [] = Ok l) in H.
    remember (first :: r) as ranked eqn:Er.
    rewrite Hg in H. cbn [wbp_loop draw bind fst snd] in H. rewrite Hp in H.
    unfold wbp_mapped in H at 1. rewrite nth_opt_map in H.
    match type of H with context [@nth_opt ?T i ranked] => destruct (@nth_opt T i ranked) as [c|] eqn:E end;
      [|discriminate H].
    exists c. split; [exact E|]. cbn [fst snd app] in H.
    apply wbp_loop_prefix in H as (t & ->). reflexivity.
  Qed.
End FirstPickModel.

Section FirstPick.
  Local Open Scope Qc_scope.
  Notation wcrit := (@wcrit NumQc).
  Notation state := (@state NumQc).

  Fixpoint wsum (l : list wcrit) : Qc := match l with [] => 0 | c :: r => snd c + wsum r end.
  (** [cum l j]: the sum of the first [j] weights *)
  Definition cum (l : list wcrit) (j : nat) : Qc := wsum (firstn j l).

  Lemma fold_wsum (l : list wcrit) : forall a : Qc,
    @eq Qc (fold_left (fun t (c : wcrit) => @nadd NumQc t (snd c)) l a) (a + wsum l).
  Proof.
    induction l as [|c r IH]; intros a; cbn [fold_left wsum]; [ring|].
    rewrite IH. change (@nadd NumQc a (snd c)) with (a + snd c). ring.
  Qed.

  Lemma wbp_total_wsum (sorted : list wcrit) : wbp_total sorted = wsum (wbp_mapped sorted).
  Proof. unfold wbp_total. rewrite fold_wsum. change (@nzero NumQc) with 0. apply Qcplus_0_l. Qed.

  Lemma cum_all (l : list wcrit) : cum l (List.length l) = wsum l.
  Proof. unfold cum. now rewrite firstn_all. Qed.

  Lemma cum_0 (l : list wcrit) : cum l 0 = 0.
  Proof. reflexivity. Qed.

  Lemma cum_S c (r : list wcrit) j : cum (c :: r) (S j) = snd c + cum r j.
  Proof. reflexivity. Qed.

  (** [pick_weighted] returns the first position whose cumulated weight reaches [rw] *)
  Lemma pick_weighted_spec : forall (l : list wcrit) cur rw i0 i,
    @pick_weighted NumQc l cur rw i0 = Some i <->
    exists j, i = (i0 + j)%nat /\ (j < List.length l)%nat /\ rw <= cur + cum l (S j)
              /\ forall j', (j' < j)%nat -> cur + cum l (S j') < rw.
  Proof.
    induction l as [|c r IH]; intros cur rw i0 i; cbn [pick_weighted].
    - split; [discriminate|]. intros (j & _ & Hj & _). cbn [List.length] in Hj. lia.
    - change (@nadd NumQc cur (snd c)) with (cur + snd c).
      assert (Hcum : forall j, cur + cum (c :: r) (S j) = (cur + snd c) + cum r j)
        by (intros j; rewrite cum_S; ring).
      destruct (@nleb NumQc rw (Qcplus cur (snd c))) eqn:E.
      + apply nleb_iff in E. split.
        * intros H. injection H as <-. exists 0%nat. split; [lia|]. split; [cbn [List.length]; lia|]. split.
          -- rewrite Hcum, cum_0, Qcplus_0_r. exact E.
          -- intros j' Hj'. lia.
        * intros (j & -> & Hj & Hle & Hlt). destruct j as [|j]; [f_equal; lia|].
          exfalso. assert (H0 : (0 < S j)%nat) by lia. apply Hlt in H0.
          rewrite Hcum, cum_0, Qcplus_0_r in H0. apply Qclt_not_le in H0. contradiction.
      + apply nleb_false_iff in E. rewrite IH. split.
        * intros (j & -> & Hj & Hle & Hlt). exists (S j). split; [lia|]. split; [cbn [List.length]; lia|]. split.
          -- rewrite Hcum. exact Hle.
          -- intros [|j'] Hj'; rewrite Hcum.
             ++ rewrite cum_0, Qcplus_0_r. exact E.
             ++ apply Hlt. lia.
        * intros (j & -> & Hj & Hle & Hlt). destruct j as [|j].
          -- exfalso. rewrite Hcum, cum_0, Qcplus_0_r in Hle. apply Qclt_not_le in E. contradiction.
          -- exists j. split; [lia|]. split; [cbn [List.length] in Hj; lia|]. split.
             ++ rewrite <- Hcum. exact Hle.
             ++ intros j' Hj'. rewrite <- Hcum. apply Hlt. lia.
  Qed.

  Lemma pick_weighted_none : forall (l : list wcrit) cur rw i0,
    @pick_weighted NumQc l cur rw i0 = None <-> forall j, (j < List.length l)%nat -> cur + cum l (S j) < rw.
  Proof.
    intros l cur rw i0. split.
    - intros H j Hj. apply Qcnot_le_lt. intros Hle.
      (* take the first position reaching rw: strong induction on j *)
      revert Hj Hle. induction j as [j IHj] using lt_wf_ind. intros Hj Hle.
      destruct (pick_weighted l cur rw i0) as [i|] eqn:E; [discriminate|].
      assert (Hall : forall j', (j' < j)%nat -> cur + cum l (S j') < rw).
      { intros j' Hj'. apply Qcnot_le_lt. intros Hle'. apply (IHj j' Hj'); [lia|exact Hle']. }
      assert (Hs : @pick_weighted NumQc l cur rw i0 = Some (i0 + j)%nat).
      { apply pick_weighted_spec. exists j. auto. }
      congruence.
    - intros H. destruct (pick_weighted l cur rw i0) as [i|] eqn:E; [|reflexivity].
      apply pick_weighted_spec in E as (j & _ & Hj & Hle & _). apply H in Hj. apply Qclt_not_le in Hj. contradiction.
  Qed.

  Lemma cum_nonneg : forall (l : list wcrit), (forall c, In c l -> 0 <= snd c) -> forall j, 0 <= cum l j.
  Proof.
    induction l as [|c r IH]; intros Hpos j.
    - unfold cum. rewrite firstn_nil. apply Qcle_refl.
    - destruct j as [|j]; [apply Qcle_refl|]. rewrite cum_S.
      replace 0 with (0 + 0) by ring. apply Qcplus_le_compat; [apply Hpos; now left|].
      apply IH. intros c' I. apply Hpos. now right.
  Qed.

  Lemma cum_mono : forall (l : list wcrit), (forall c, In c l -> 0 <= snd c) ->
    forall j1 j2, (j1 <= j2)%nat -> cum l j1 <= cum l j2.
  Proof.
    induction l as [|c r IH]; intros Hpos j1 j2 Hj.
    - unfold cum. rewrite !firstn_nil. apply Qcle_refl.
    - destruct j1 as [|j1]; [rewrite cum_0; now apply cum_nonneg|].
      destruct j2 as [|j2]; [lia|]. rewrite !cum_S.
      apply Qcplus_le_compat; [apply Qcle_refl|]. apply IH; [|lia]. intros c' I. apply Hpos. now right.
  Qed.

  (** the draws selecting position [i] form the interval (cum_i, cum_{i+1}] (closed at 0 for the first position) *)
  Theorem first_pick_interval (l : list wcrit) rw i :
    (forall c, In c l -> 0 <= snd c) ->
    (@pick_weighted NumQc l (@nzero NumQc) rw 0 = Some i <->
     (i < List.length l)%nat /\ (i = 0%nat \/ cum l i < rw) /\ rw <= cum l (S i)).
  Proof.
    intros Hpos. change (@nzero NumQc) with 0. rewrite pick_weighted_spec. split.
    - intros (j & -> & Hj & Hle & Hlt). cbn [Nat.add]. split; [exact Hj|]. split.
      + destruct j as [|j]; [now left|right]. assert (H0 : (j < S j)%nat) by lia. apply Hlt in H0.
        now rewrite Qcplus_0_l in H0.
      + now rewrite Qcplus_0_l in Hle.
    - intros (Hi & Hlo & Hhi). exists i. split; [reflexivity|]. split; [exact Hi|]. split.
      + now rewrite Qcplus_0_l.
      + intros j' Hj'. rewrite Qcplus_0_l. destruct Hlo as [->|Hlo]; [lia|].
        apply (Qcle_lt_trans _ (cum l i)); [|exact Hlo]. apply cum_mono; [exact Hpos|lia].
  Qed.

  (** a draw below the total always selects a position: the fallback branch of [wbp_loop] is dead in exact arithmetic *)
  Theorem pick_weighted_total (l : list wcrit) rw :
    l <> [] -> rw <= wsum l -> exists i, @pick_weighted NumQc l (@nzero NumQc) rw 0 = Some i.
  Proof.
    intros Hne Hrw. destruct (pick_weighted l nzero rw 0) as [i|] eqn:E; [eauto|].
    exfalso. change (@nzero NumQc) with 0 in E.
    destruct l as [|c0 r0]; [congruence|].
    pose proof (proj1 (pick_weighted_none (c0 :: r0) 0 rw 0) E (List.length r0) (Nat.lt_succ_diag_r _)) as Hj.
    change (S (List.length r0)) with (List.length (c0 :: r0)) in Hj.
    rewrite cum_all, Qcplus_0_l in Hj. apply Qclt_not_le in Hj. contradiction.
  Qed.

  (** the weights of the draw decrease with the importance *)
  Lemma Q_div_antitone (a x y : Q) : (0 <= a -> 0 < x -> x <= y -> a / y <= a / x)%Q.
  Proof.
    intros Ha Hx Hy. apply Qle_shift_div_l; [exact Hx|].
    assert (Hy0 : (0 < y)%Q) by lra.
    assert (Hq : (0 <= a / y)%Q) by (apply Qle_shift_div_l; [exact Hy0|lra]).
    assert (Ea : (a == (a / y) * y)%Q) by (field; lra).
    rewrite Ea at 2. nra.
  Qed.

  Lemma this_div (x y : Qc) : (this (x / y) == this x / this y)%Q.
  Proof. unfold Qcdiv. rewrite this_mult, this_inv. reflexivity. Qed.

  Lemma Qc_div_antitone (a x y : Qc) : 0 <= a -> 0 < x -> x <= y -> a / y <= a / x.
  Proof.
    intros Ha Hx Hy. unfold Qcle, Qclt in *. rewrite !this_div. rewrite this_0 in *.
    now apply Q_div_antitone.
  Qed.

  Lemma Qc_div_pos (a x : Qc) : 0 < a -> 0 < x -> 0 < a / x.
  Proof.
    intros Ha Hx. unfold Qcle, Qclt in *. rewrite this_div. rewrite this_0 in *.
    apply Qlt_shift_div_l; [exact Hx|lra].
  Qed.

  Lemma wbp_num_ge1 (sorted : list wcrit) : 1 <= wbp_num sorted.
  Proof.
    unfold wbp_num. change (@none NumQc) with 1.
    destruct (@nleb NumQc (wbp_minw sorted) 1) eqn:E; [apply Qcle_refl|].
    apply nleb_false_iff in E. now apply Qclt_le_weak.
  Qed.

  Lemma wbp_shift_ge (sorted : list wcrit) c :
    StronglySorted (fun a b : wcrit => snd a <= snd b) sorted -> In c sorted ->
    wbp_num sorted <= snd c + wbp_dif sorted.
  Proof.
    intros S I.
    assert (Hmin : wbp_minw sorted <= snd c).
    { destruct sorted as [|first r]; [destruct I|]. cbn [wbp_minw].
      inversion S as [|? ? _ Hall]; subst. destruct I as [<-|I]; [apply Qcle_refl|].
      rewrite Forall_forall in Hall. now apply Hall. }
    unfold wbp_num, wbp_dif. change (@none NumQc) with 1. change (@nzero NumQc) with 0.
    change (@nsub NumQc) with Qcminus.
    destruct (@nleb NumQc (wbp_minw sorted) 1) eqn:E.
    - unfold Qcle in *. rewrite this_plus, this_minus, this_1. lra.
    - rewrite Qcplus_0_r. exact Hmin.
  Qed.

  Lemma wbp_shift_pos (sorted : list wcrit) c :
    StronglySorted (fun a b : wcrit => snd a <= snd b) sorted -> In c sorted -> 0 < snd c + wbp_dif sorted.
  Proof.
    intros S I. apply (Qclt_le_trans _ 1); [reflexivity|].
    apply (Qcle_trans _ (wbp_num sorted)); [apply wbp_num_ge1|now apply wbp_shift_ge].
  Qed.

  Theorem wbp_weight_antitone (sorted : list wcrit) (wa wb : Qc) :
    0 < wa + wbp_dif sorted -> wa <= wb -> wbp_weight sorted wb <= wbp_weight sorted wa.
  Proof.
    intros Hpos Hab. unfold wbp_weight. change (@ndiv NumQc) with Qcdiv. change (@nadd NumQc) with Qcplus.
    apply Qc_div_antitone.
    - apply (Qcle_trans _ 1); [discriminate|apply wbp_num_ge1].
    - exact Hpos.
    - apply Qcplus_le_compat; [exact Hab|apply Qcle_refl].
  Qed.

  Lemma wbp_weight_range (sorted : list wcrit) c :
    StronglySorted (fun a b : wcrit => snd a <= snd b) sorted -> In c sorted ->
    0 < wbp_weight sorted (snd c) /\ wbp_weight sorted (snd c) <= 1.
  Proof.
    intros S I. pose proof (wbp_shift_pos _ _ S I) as Hp. pose proof (wbp_shift_ge _ _ S I) as Hg.
    pose proof (wbp_num_ge1 sorted) as H1.
    unfold wbp_weight. change (@ndiv NumQc) with Qcdiv. change (@nadd NumQc) with Qcplus. split.
    - apply Qc_div_pos; [|exact Hp]. apply (Qclt_le_trans _ 1); [reflexivity|exact H1].
    - unfold Qcle, Qclt in *. rewrite this_div, this_1. rewrite this_0 in Hp.
      apply Qle_shift_div_r; [exact Hp|]. lra.
  Qed.

  (** in the model: a less important criterion gets the larger weight in the first draw *)
  Theorem wbp_less_important_more_likely (s : state) ranked a b :
    rank_criteria s = Ok ranked -> In a ranked -> In b ranked -> snd a <= snd b ->
    wbp_weight ranked (snd b) <= wbp_weight ranked (snd a).
  Proof.
    intros Hr Ia Ib Hab. apply wbp_weight_antitone; [|exact Hab].
    apply wbp_shift_pos; [exact (weakest_sorted _ _ Hr)|exact Ia].
  Qed.

  Lemma wbp_mapped_nonneg (s : state) ranked :
    rank_criteria s = Ok ranked -> forall c, In c (wbp_mapped ranked) -> 0 <= snd c.
  Proof.
    intros Hr c I. unfold wbp_mapped in I. apply in_map_iff in I as (x & <- & Ix). cbn [snd].
    apply Qclt_le_weak. apply (wbp_weight_range ranked x); [exact (weakest_sorted _ _ Hr)|exact Ix].
  Qed.

  (** the first position of weakestByProbability: with the first draw [u], the [i]-th criterion of the
      ranking comes first exactly when [u * total] lies in (cum_i, cum_{i+1}], and then it is the first
      criterion of the produced ordering *)
  Theorem first_pick_probability e (s : state) seed ranked u g' l i :
    rank_criteria s = Ok ranked -> new_rng e seed = u :: g' -> weakest_by_probability e s seed = Ok l ->
    let mapped := wbp_mapped ranked in
    let total := wsum mapped in
    (@pick_weighted NumQc mapped (@nzero NumQc) (u * total) 0 = Some i <->
     (i < List.length ranked)%nat /\ (i = 0%nat \/ cum mapped i < u * total) /\ u * total <= cum mapped (S i))
    /\ (@pick_weighted NumQc mapped (@nzero NumQc) (u * total) 0 = Some i ->
        exists c, nth_opt i ranked = Some c /\ nth_opt 0 l = Some (fst c))
    /\ (u <= 1 -> ranked <> [] -> exists i', @pick_weighted NumQc mapped (@nzero NumQc) (u * total) 0 = Some i').
  Proof.
    intros Hr Hg H mapped total. split; [|split].
    - rewrite (first_pick_interval mapped (u * total) i (wbp_mapped_nonneg _ _ Hr)).
      unfold mapped at 1, wbp_mapped at 1. rewrite map_length. reflexivity.
    - intros Hp. apply (wbp_first_pick e s seed ranked u g' l i Hr Hg H).
      rewrite wbp_total_wsum. exact Hp.
    - intros Hu Hne. apply pick_weighted_total.
      + unfold mapped, wbp_mapped. destruct ranked; [congruence|discriminate].
      + assert (Ht : 0 <= total).
        { unfold total. rewrite <- cum_all. apply cum_nonneg. exact (wbp_mapped_nonneg _ _ Hr). }
        fold total. clearbody total. clear - Ht Hu.
        unfold Qcle in *. rewrite this_mult. rewrite this_0 in Ht. rewrite this_1 in Hu.
        set (a := this u) in *. set (b := this total) in *. nra.
  Qed.
End FirstPick.

(** ** Axiom audit *)
Print Assumptions split_pivot_spec.
Print Assumptions split_criteria_spec.
Print Assumptions order_criteria_perm.
Print Assumptions strongest_is_rev_weakest.
Print Assumptions strongest_prob_is_rev.
Print Assumptions weakest_sorted.
Print Assumptions weakest_sound.
Print Assumptions strongest_sound.
Print Assumptions omission_passes_checker.
Print Assumptions first_pick_interval.
Print Assumptions first_pick_probability.
Print Assumptions wbp_weight_antitone.
Print Assumptions wbp_less_important_more_likely.
Print Assumptions pick_weighted_total.
