(** * C16: what the boolean checker [C16_ok] guarantees (soundness).

    Property text (C16): "Preference reversal selects criteria with the same count/ordering rule as omission and
    replaces, for every known alternative, the value v of each selected criterion by max + min - v, where
    [min, max] is the criterion's declared range or else the range currently observed over all known alternatives;
    the report lists these criteria, ranges and new values. All other values, the criteria list and the method
    parameters are unchanged, each criterion's range is preserved, and reversing the same criteria a second time
    restores the data."

    [C16_ok p before after rep] is evaluated on OBSERVED data, so nothing is assumed about its arguments.
    Contents
    - 1. the comparison functions of the checkers ([crit_same], [params_same], ...) imply Leibniz equality
         on every carrier with [OrdLaws] ([same_eq]);
    - 2. the declarative specification [C16_spec] (records [item_spec], [C16_items_spec]);
    - 3. [C16_ok_sound : C16_ok p before after rep = true -> C16_spec p before after rep] and corollaries;
    - 4. the reading of the tolerance on [NumQc];
    - 5. executed examples: the hypothesis is satisfiable; what the checker does NOT test. *)
From Coq Require Import ZArith Bool List String Lia.
From RDM Require Import Base.Num Base.Util Model.Data Model.Utility Model.Levels Model.Heuristics
     Model.Listeners Model.Biases Model.Anchoring Check.Stage Check.BiasCheckers
     Proofs.WfFacts Proofs.ReversalFacts.
Import ListNotations.
Local Open Scope string_scope.
Local Open Scope list_scope.

(** ** 0. Lists *)
Lemma list_eqb_eq {A} (f : A -> A -> bool) : (forall x y, f x y = true -> x = y) ->
  forall l1 l2, list_eqb f l1 l2 = true -> l1 = l2.
Proof.
  intros Hf. induction l1 as [|x r IH]; intros [|y s] H; cbn [list_eqb] in H; try discriminate; [reflexivity|].
  apply andb_true_iff in H as [H1 H2]. f_equal; auto.
Qed.

Lemma option_eqb_eq {A} (f : A -> A -> bool) : (forall x y, f x y = true -> x = y) ->
  forall a b, option_eqb f a b = true -> a = b.
Proof. intros Hf [x|] [y|] H; cbn [option_eqb] in H; try discriminate; [f_equal; auto|reflexivity]. Qed.

Lemma str_list_eqb_eq (l1 l2 : list string) : list_eqb String.eqb l1 l2 = true -> l1 = l2.
Proof. apply list_eqb_eq. intros x y. apply String.eqb_eq. Qed.

Lemma Forall2_app_split {A B} (R : A -> B -> Prop) : forall l1 l1' l2 l2',
  List.length l1 = List.length l1' -> Forall2 R (l1 ++ l2) (l1' ++ l2') -> Forall2 R l1 l1' /\ Forall2 R l2 l2'.
Proof.
  induction l1 as [|x l1 IH]; intros [|y l1'] l2 l2' Hl H; cbn [List.length] in Hl; try discriminate.
  - cbn [app] in H. split; [constructor|exact H].
  - cbn [app] in H. inversion H as [|? ? ? ? Hxy Hr]; subst. injection Hl as Hl.
    destruct (IH _ _ _ Hl Hr) as [A1 A2]. split; [constructor; assumption|assumption].
Qed.

Lemma Forall2_impl {A B} (R S : A -> B -> Prop) :
  (forall x y, R x y -> S x y) -> forall l l', Forall2 R l l' -> Forall2 S l l'.
Proof. intros H l l'. induction 1; constructor; auto. Qed.

Lemma Forall2_with_key {A B K} (R : A -> B -> Prop) (f : A -> K) (g : B -> K) : forall l l',
  map f l = map g l' -> Forall2 R l l' -> Forall2 (fun a b => f a = g b /\ R a b) l l'.
Proof.
  intros l l' E H. induction H as [|a b l l' Hab H IH]; [constructor|].
  cbn [map] in E. injection E as E1 E2. constructor; [split; assumption|now apply IH].
Qed.

(** ** 1. "same" is equality on a carrier with order laws *)
Section Equalities.
  Context {N : Num} {L : OrdLaws N}.

  Lemma pair_nsame_eq (x y : num * num) : nsame (fst x) (fst y) && nsame (snd x) (snd y) = true -> x = y.
  Proof.
    destruct x as [x1 x2], y as [y1 y2]. cbn [fst snd]. intros H. apply andb_true_iff in H as [A B].
    apply same_eq in A. apply same_eq in B. now subst.
  Qed.

  Lemma option_nsame_eq (a b : option num) : option_eqb nsame a b = true -> a = b.
  Proof. apply option_eqb_eq. intros x y. apply same_eq. Qed.

  Lemma smap_same_eq (a b : smap num) : smap_same a b = true -> a = b.
  Proof.
    unfold smap_same. apply list_eqb_eq. intros [k v] [k' v']. cbn [fst snd]. intros H.
    apply andb_true_iff in H as [Hk Hv]. apply String.eqb_eq in Hk. apply same_eq in Hv. now subst.
  Qed.

  Lemma ctype_eqb_eq (a b : ctype) : ctype_eqb a b = true -> a = b.
  Proof. destruct a, b; cbn [ctype_eqb]; intros H; try discriminate; reflexivity. Qed.

  Lemma crit_same_eq (a b : crit) : crit_same a b = true -> a = b.
  Proof.
    destruct a as [i t r], b as [i' t' r']. unfold crit_same, range_same. cbn [c_id c_type c_range]. intros H.
    apply andb_true_iff in H as [H H3]. apply andb_true_iff in H as [H1 H2].
    apply String.eqb_eq in H1. apply ctype_eqb_eq in H2.
    apply (option_eqb_eq _ pair_nsame_eq) in H3. now subst.
  Qed.

  Lemma crits_same_eq (a b : list crit) : list_eqb crit_same a b = true -> a = b.
  Proof. apply list_eqb_eq. exact crit_same_eq. Qed.

  Lemma wcrit_same_eq (a b : wcrit) : wcrit_same a b = true -> a = b.
  Proof.
    destruct a as [c w], b as [c' w']. unfold wcrit_same. cbn [fst snd]. intros H.
    apply andb_true_iff in H as [H1 H2]. apply crit_same_eq in H1. apply same_eq in H2. now subst.
  Qed.

  Lemma linfun_same_eq (a b : linfun) : linfun_same a b = true -> a = b.
  Proof.
    destruct a as [x y], b as [x' y']. unfold linfun_same. cbn [lf_a lf_b]. intros H.
    apply andb_true_iff in H as [H1 H2]. apply same_eq in H1. apply same_eq in H2. now subst.
  Qed.

  Lemma ecrit_same_eq (a b : ecrit) : ecrit_same a b = true -> a = b.
  Proof.
    destruct a as [k q p v], b as [k' q' p' v']. unfold ecrit_same. cbn [ec_k ec_q ec_p ec_v]. intros H.
    apply andb_true_iff in H as [H H4]. apply andb_true_iff in H as [H H3]. apply andb_true_iff in H as [H1 H2].
    apply same_eq in H1. apply linfun_same_eq in H2. apply linfun_same_eq in H3. apply linfun_same_eq in H4. now subst.
  Qed.

  Lemma lparams_same_eq (a b : lparams) : lparams_same a b = true -> a = b.
  Proof.
    destruct a as [c mx mn t], b as [c' mx' mn' t']. unfold lparams_same. cbn [lp_coef lp_max lp_min lp_ths]. intros H.
    apply andb_true_iff in H as [H H4]. apply andb_true_iff in H as [H H3]. apply andb_true_iff in H as [H1 H2].
    apply same_eq in H1. apply same_eq in H2. apply same_eq in H3.
    apply (list_eqb_eq _ smap_same_eq) in H4. now subst.
  Qed.

  Lemma params_same_eq (a b : mparams) : params_same a b = true -> a = b.
  Proof.
    destruct a, b; cbn [params_same]; intros H; try discriminate.
    - apply (list_eqb_eq _ wcrit_same_eq) in H. now subst.
    - apply (list_eqb_eq _ wcrit_same_eq) in H. now subst.
    - apply andb_true_iff in H as [H1 H2]. apply smap_same_eq in H1. apply crits_same_eq in H2. now subst.
    - apply andb_true_iff in H as [H1 H2]. apply linfun_same_eq in H2. subst. f_equal.
      revert H1. apply list_eqb_eq. intros [k x] [k' x']. cbn [fst snd]. intros H.
      apply andb_true_iff in H as [Hk Hx]. apply String.eqb_eq in Hk. apply ecrit_same_eq in Hx. now subst.
    - apply andb_true_iff in H as [H H5]. apply andb_true_iff in H as [H H4]. apply andb_true_iff in H as [H H3].
      apply andb_true_iff in H as [H1 H2].
      apply smap_same_eq in H1. apply String.eqb_eq in H2. apply Z.eqb_eq in H3. apply eqb_prop in H4.
      apply String.eqb_eq in H5. now subst.
    - apply andb_true_iff in H as [H H5]. apply andb_true_iff in H as [H H4]. apply andb_true_iff in H as [H H3].
      apply andb_true_iff in H as [H1 H2].
      apply String.eqb_eq in H1. apply lparams_same_eq in H2. apply Z.eqb_eq in H3. apply smap_same_eq in H4.
      apply eqb_prop in H5. now subst.
    - apply andb_true_iff in H as [H H5]. apply andb_true_iff in H as [H H4]. apply andb_true_iff in H as [H H3].
      apply andb_true_iff in H as [H1 H2].
      apply String.eqb_eq in H1. apply lparams_same_eq in H2. apply Z.eqb_eq in H3. apply String.eqb_eq in H4.
      apply eqb_prop in H5. now subst.
  Qed.
End Equalities.

(** ** 2. The declarative specification *)
Section Spec.
  Context {N : Num}.

  (** one entry of the report: the criterion, its range (min, max), the new values keyed by alternative id *)
  Definition ritem : Type := (crit * (num * num) * smap num)%type.
  Definition ri_id (it : ritem) : string := c_id (fst (fst it)).
  Definition ri_min (it : ritem) : num := fst (snd (fst it)).
  Definition ri_max (it : ritem) : num := snd (snd (fst it)).
  Definition ri_vals (it : ritem) : smap num := snd it.
  Definition reported_ids (items : list ritem) : list string := map ri_id items.

  (** [c0] is the first criterion of [cs] whose id is [id] (the only one when the ids of [cs] are pairwise
      distinct, see [first_with_id_unique]) *)
  Definition first_with_id (id : string) (cs : list crit) (c0 : crit) : Prop :=
    exists l1 l2, cs = l1 ++ c0 :: l2 /\ c_id c0 = id /\ ~ In id (map c_id l1).

  (** |a - b| <= 1.5e-8 + 1e-9 * |b| : the only sense in which the checker compares a value with the formula *)
  Definition close8 (a b : num) : Prop :=
    nleb (nabs (nsub a b)) (nadd c_tol_abs (nmul c_tol_rel (nabs b))) = true.

  (** the value of [b] on [cid] is (up to [close8]) [mx + mn - v], [v] the value of [a];
      [val_of] reads a MISSING value as zero *)
  Definition mirrored (cid : string) (mn mx : num) (a b : alt) : Prop :=
    close8 (val_of b cid) (nsub (nadd mx mn) (val_of a cid)).

  (** the alternatives of the two states correspond position by position inside the considered and inside the
      not-considered list, carry the same id, and are related by [R] *)
  Definition paired (R : alt -> alt -> Prop) (before after : state) : Prop :=
    Forall2 (fun a b => a_id a = a_id b /\ R a b) (st_cons before) (st_cons after) /\
    Forall2 (fun a b => a_id a = a_id b /\ R a b) (st_notcons before) (st_notcons after).

  Record item_spec (before after : state) (it : ritem) : Prop := {
    (* the reported criterion is (by id) a criterion of the state *)
    it_is_criterion_of_state : In (ri_id it) (map c_id (st_crits before));
    (* the reported range is the declared-else-observed range, over all known alternatives, of that criterion *)
    it_range_is_values_range :
      exists c0, first_with_id (ri_id it) (st_crits before) c0 /\
                 values_range (all_alts before) c0 = Ok (ri_min it, ri_max it);
    (* every known alternative: v -> max + min - v *)
    it_values_mirrored : paired (mirrored (ri_id it) (ri_min it) (ri_max it)) before after;
    (* the report lists the new values: what it lists for an alternative is what the new state holds *)
    it_new_values_listed :
      forall b, In b (all_alts after) -> mget (a_id b) (ri_vals it) = mget (ri_id it) (a_vals b);
    it_one_value_per_alternative : List.length (ri_vals it) = List.length (all_alts before)
  }.

  Record C16_items_spec (p : bprops) (before after : state) (items : list ritem) : Prop := {
    (* as many criteria are reported as the split rule of omission selects *)
    c16_count_is_split_count : Z.of_nat (List.length items) = split_pivot (List.length (st_crits before)) p;
    c16_split_count_in_bounds :
      (0 <= split_pivot (List.length (st_crits before)) p <= Z.of_nat (List.length (st_crits before)))%Z;
    c16_reported_distinct : NoDup (reported_ids items);
    c16_reported_items : forall it, In it items -> item_spec before after it;
    (* all other values unchanged: every criterion of the state that is not reported *)
    c16_other_values_unchanged :
      paired (fun a b => forall c, In c (st_crits before) -> ~ In (c_id c) (reported_ids items) ->
                                   mget (c_id c) (a_vals a) = mget (c_id c) (a_vals b)) before after;
    (* the criteria list (ids, types, declared ranges, order) and the method parameters are unchanged *)
    c16_criteria_unchanged : st_crits after = st_crits before;
    c16_parameters_unchanged : st_params after = st_params before;
    (* the split into considered / not considered alternatives is unchanged *)
    c16_split_unchanged : map a_id (st_cons after) = map a_id (st_cons before) /\
                          map a_id (st_notcons after) = map a_id (st_notcons before)
  }.

  Definition C16_spec (p : bprops) (before after : state) (rep : report) : Prop :=
    match rep with
    | RReversal items => C16_items_spec p before after items
    | _ => False
    end.
End Spec.

(** ** 3. Soundness *)
Section Sound.
  Context {N : Num} {L : OrdLaws N}.

  Lemma has_crit_In id (cs : list crit) : has_crit id cs = true -> In id (map c_id cs).
  Proof.
    unfold has_crit. rewrite existsb_exists, in_map_iff.
    intros (c & Hc & E). apply String.eqb_eq in E. now exists c.
  Qed.

  Lemma find_first_with_id id : forall (cs : list crit) c0,
    find (fun x => String.eqb (c_id x) id) cs = Some c0 -> first_with_id id cs c0.
  Proof.
    induction cs as [|x cs IH]; intros c0 H; cbn [find] in H; [discriminate|].
    destruct (String.eqb (c_id x) id) eqn:E.
    - injection H as <-. apply String.eqb_eq in E. exists [], cs. cbn [app map In]. repeat split; auto.
    - destruct (IH _ H) as (l1 & l2 & -> & Hid & Hn). exists (x :: l1), l2. cbn [app map In].
      repeat split; auto. intros [A|A]; [|contradiction]. apply String.eqb_neq in E. contradiction.
  Qed.

  Lemma first_with_id_In id (cs : list crit) c0 : first_with_id id cs c0 -> In c0 cs /\ c_id c0 = id.
  Proof. intros (l1 & l2 & -> & Hid & _). split; [apply in_elt|exact Hid]. Qed.

  (** with pairwise distinct criterion ids "the first criterion with that id" is "the criterion with that id" *)
  Lemma first_with_id_unique id (cs : list crit) c0 c1 :
    NoDup (map c_id cs) -> first_with_id id cs c0 -> In c1 cs -> c_id c1 = id -> c1 = c0.
  Proof.
    intros ND (l1 & l2 & -> & Hid & Hn) I E. rewrite map_app in ND. cbn [map] in ND.
    apply NoDup_remove_2 in ND. apply in_app_or in I as [I|[I|I]].
    - exfalso. apply Hn. rewrite <- E. now apply in_map.
    - now symmetry.
    - exfalso. apply ND. apply in_or_app. right. rewrite Hid, <- E. now apply in_map.
  Qed.

  Lemma paired_intro (R : alt -> alt -> Prop) (before after : state) :
    map a_id (st_cons before) = map a_id (st_cons after) ->
    map a_id (st_notcons before) = map a_id (st_notcons after) ->
    Forall2 R (all_alts before) (all_alts after) -> paired R before after.
  Proof.
    intros E1 E2 H. unfold all_alts in H. apply Forall2_app_split in H.
    - destruct H as [H1 H2]. split; now apply Forall2_with_key.
    - rewrite <- (map_length a_id (st_cons before)), E1. apply map_length.
  Qed.

  Lemma paired_impl (R S : alt -> alt -> Prop) (before after : state) :
    (forall a b, R a b -> S a b) -> paired R before after -> paired S before after.
  Proof.
    intros HI [H1 H2]. split; (eapply Forall2_impl; [|eassumption]); intros a b [E HR]; split; auto.
  Qed.

  Lemma paired_all (R : alt -> alt -> Prop) (before after : state) :
    paired R before after -> Forall2 (fun a b => a_id a = a_id b /\ R a b) (all_alts before) (all_alts after).
  Proof. intros [H1 H2]. unfold all_alts. now apply Forall2_app. Qed.

  Lemma reported_In (items : list ritem) id :
    existsb (fun it : ritem => String.eqb (c_id (fst (fst it))) id) items = true -> In id (reported_ids items).
  Proof.
    rewrite existsb_exists. intros (it & I & E). apply String.eqb_eq in E. unfold reported_ids.
    apply in_map_iff. exists it. split; [exact E|exact I].
  Qed.

  (** *** [C16_ok_sound].
      Clauses of the property text that [C16_ok] does NOT test, or tests in a weaker form (see also the examples
      of section 5):
      - "the same ordering rule as omission": only the NUMBER of reported criteria is tested (it is the split
        count); WHICH criteria are selected (weakest, strongest, random ...) is not tested at all; neither is the
        validity of the ratio / bounds of the split condition (only the consequence [c16_split_count_in_bounds]);
      - "v is replaced by max + min - v": tested up to [close8] (absolute 1.5e-8 plus relative 1e-9), not as an
        equation; a missing value is read as 0 ([val_of]), before and after;
      - "the report lists these criteria": the reported criterion is compared BY ID only (its type and range
        fields are not compared with the state's criterion); with duplicated criterion ids in the state the range is
        that of the first criterion with the id;
      - "all other values unchanged": tested for the keys that are criteria of the state; values stored under other
        keys, and the key sets themselves, are not compared;
      - alternatives are matched by position (ids agree position by position); that the ids are pairwise distinct
        is not tested, and the reported value of an alternative is looked up by id (first match);
      - "each criterion's range is preserved": declared ranges are part of [c16_criteria_unchanged]; the range
        OBSERVED after the reversal is not tested (it follows only up to the tolerance);
      - "reversing a second time restores the data": not tested (it is a theorem about the model,
        [ReversalFacts.reversal_involutive]). *)
  Theorem C16_ok_sound : forall p before after rep,
    C16_ok p before after rep = true -> C16_spec p before after rep.
  Proof.
    intros p before after rep H. unfold C16_ok in H. destruct rep as [| |items| | | |]; try discriminate.
    cbv zeta in H.
    apply andb_true_iff in H as [H Hsplit]. apply andb_true_iff in H as [H Hkept].
    apply andb_true_iff in H as [H Hitems]. apply andb_true_iff in H as [H Hnd].
    apply andb_true_iff in H as [H Hpar]. apply andb_true_iff in H as [Hcount Hcrits].
    apply Z.eqb_eq in Hcount. apply crits_same_eq in Hcrits. apply params_same_eq in Hpar.
    apply nodup_str_NoDup in Hnd.
    unfold same_split in Hsplit. apply andb_true_iff in Hsplit as [Hs1 Hs2].
    apply str_list_eqb_eq in Hs1. apply str_list_eqb_eq in Hs2.
    rewrite forallb_forall in Hitems.
    assert (Hin : forall it, In it items -> In (ri_id it) (map c_id (st_crits before))).
    { intros [[c [mn mx]] vals] I. specialize (Hitems _ I). cbn beta iota in Hitems.
      apply andb_true_iff in Hitems as [Hi _]. apply andb_true_iff in Hi as [Hi _].
      apply andb_true_iff in Hi as [Hi _]. now apply has_crit_In. }
    cbn [C16_spec]. constructor.
    - exact Hcount.
    - rewrite <- Hcount. split; [lia|]. apply inj_le.
      assert (Hle : (List.length (reported_ids items) <= List.length (map c_id (st_crits before)))%nat).
      { apply NoDup_incl_length; [exact Hnd|]. intros id I. apply in_map_iff in I as (it & <- & I). now apply Hin. }
      unfold reported_ids in Hle. rewrite !map_length in Hle. exact Hle.
    - exact Hnd.
    - intros [[c [mn mx]] vals] I. pose proof (Hin _ I) as Hc. specialize (Hitems _ I). cbn beta iota in Hitems.
      apply andb_true_iff in Hitems as [Hi Hlen]. apply andb_true_iff in Hi as [Hi Hvals].
      apply andb_true_iff in Hi as [_ Hrange]. apply Nat.eqb_eq in Hlen.
      apply list_eqb_Forall2 in Hvals.
      constructor; unfold ri_id, ri_min, ri_max, ri_vals; cbn [fst snd].
      + exact Hc.
      + destruct (find (fun x => String.eqb (c_id x) (c_id c)) (st_crits before)) as [c0|] eqn:Ef; [|discriminate].
        destruct (values_range (all_alts before) c0) as [[r1 r2]|] eqn:Er; [|discriminate].
        cbn [fst snd] in Hrange. apply andb_true_iff in Hrange as [R1 R2].
        apply same_eq in R1. apply same_eq in R2. subst r1 r2.
        exists c0. split; [now apply find_first_with_id|exact Er].
      + apply (paired_intro _ _ _ Hs1 Hs2) in Hvals. eapply paired_impl; [|exact Hvals].
        intros a b Hab. cbv beta in Hab. apply andb_true_iff in Hab as [Hab _]. exact Hab.
      + intros b Ib. destruct (Forall2_in_r _ _ _ _ Hvals Ib) as (a & _ & Hab). cbv beta in Hab.
        apply andb_true_iff in Hab as [_ Hab]. now apply option_nsame_eq.
      + exact Hlen.
    - unfold values_kept in Hkept. apply list_eqb_Forall2 in Hkept.
      apply (paired_intro _ _ _ Hs1 Hs2) in Hkept. eapply paired_impl; [|exact Hkept].
      intros a b Hab c Ic Hn. cbv beta in Hab. rewrite forallb_forall in Hab.
      apply option_nsame_eq. apply Hab. apply filter_In. split; [exact Ic|].
      apply negb_true_iff. apply not_true_is_false. intros E. apply Hn. now apply reported_In.
    - now symmetry.
    - now symmetry.
    - split; now symmetry.
  Qed.

  Lemma Forall2_all {A B I} (P : I -> Prop) (R : I -> A -> B -> Prop) (S : A -> B -> Prop) : forall l l',
    Forall2 S l l' -> (forall i, P i -> Forall2 (R i) l l') ->
    Forall2 (fun a b => S a b /\ forall i, P i -> R i a b) l l'.
  Proof.
    intros l l' H. induction H as [|a b l l' Hab H IH]; intros HR; [constructor|]. constructor.
    - split; [exact Hab|]. intros i Pi. specialize (HR i Pi). now inversion HR.
    - apply IH. intros i Pi. specialize (HR i Pi). now inversion HR.
  Qed.

  (** one alternative before / after the reversal, all clauses together *)
  Definition reversed_alt (before : state) (items : list ritem) (a b : alt) : Prop :=
    (forall c, In c (st_crits before) -> ~ In (c_id c) (reported_ids items) ->
               mget (c_id c) (a_vals b) = mget (c_id c) (a_vals a)) /\
    (forall it, In it items ->
       mirrored (ri_id it) (ri_min it) (ri_max it) a b /\
       mget (a_id b) (ri_vals it) = mget (ri_id it) (a_vals b)).

  Lemma paired_all_items (before after : state) (items : list ritem) (S : alt -> alt -> Prop) (R : ritem -> alt -> alt -> Prop) :
    paired S before after -> (forall it, In it items -> paired (R it) before after) ->
    paired (fun a b => S a b /\ forall it, In it items -> R it a b) before after.
  Proof.
    intros [S1 S2] HR. split.
    - eapply Forall2_impl; [|apply (Forall2_all (fun it => In it items) (fun it a b => a_id a = a_id b /\ R it a b) _ _ _ S1)].
      + intros a b [[E Hs] Hr]. split; [exact E|]. split; [exact Hs|]. intros it I. now apply Hr.
      + intros it I. now destruct (HR it I).
    - eapply Forall2_impl; [|apply (Forall2_all (fun it => In it items) (fun it a b => a_id a = a_id b /\ R it a b) _ _ _ S2)].
      + intros a b [[E Hs] Hr]. split; [exact E|]. split; [exact Hs|]. intros it I. now apply Hr.
      + intros it I. now destruct (HR it I).
  Qed.

  (** the clauses about values, alternative by alternative (same position, same id, same part of the split) *)
  Theorem C16_ok_alternatives p before after items :
    C16_ok p before after (RReversal items) = true -> paired (reversed_alt before items) before after.
  Proof.
    intros H. apply C16_ok_sound in H. cbn [C16_spec] in H. destruct H as [_ _ _ Hit Hother _ _ _].
    pose proof (paired_all_items before after items _ (fun it => mirrored (ri_id it) (ri_min it) (ri_max it)) Hother
                  (fun it I => it_values_mirrored _ _ _ (Hit it I))) as H.
    destruct H as [H1 H2].
    assert (Hl : forall b it, In it items -> In b (all_alts after) -> mget (a_id b) (ri_vals it) = mget (ri_id it) (a_vals b)).
    { intros b it I Ib. now apply (it_new_values_listed _ _ _ (Hit it I)). }
    split.
    - eapply Forall2_impl_in; [|exact H1]. intros a b Ia Ib [E [Ho Hm]]. split; [exact E|]. split.
      + intros c Ic Hn. symmetry. now apply Ho.
      + intros it I. split; [now apply Hm|]. apply Hl; [exact I|]. unfold all_alts. apply in_or_app. now left.
    - eapply Forall2_impl_in; [|exact H2]. intros a b Ia Ib [E [Ho Hm]]. split; [exact E|]. split.
      + intros c Ic Hn. symmetry. now apply Ho.
      + intros it I. split; [now apply Hm|]. apply Hl; [exact I|]. unfold all_alts. apply in_or_app. now right.
  Qed.

  (** the wording of the property text, "for every known alternative": each known alternative of the state before
      has a partner in the state after with the same id, mirrored on every reported criterion, unchanged on the
      unreported criteria *)
  Corollary C16_every_known_alternative p before after items :
    C16_ok p before after (RReversal items) = true ->
    forall a, In a (all_alts before) ->
      exists b, In b (all_alts after) /\ a_id b = a_id a /\ reversed_alt before items a b.
  Proof.
    intros H a Ia. apply C16_ok_alternatives in H. apply paired_all in H.
    destruct (Forall2_in_l _ _ _ _ H Ia) as (b & Ib & E & Hb). exists b. split; [exact Ib|]. split; [now symmetry|exact Hb].
  Qed.

  (** with pairwise distinct criterion ids (NOT tested by the checker: explicit hypothesis [NDcrits]) the reported
      range is the [values_range] of THE criterion of the state with the reported id *)
  Corollary C16_range_of_the_criterion p before after items :
    forall (NDcrits : NoDup (map c_id (st_crits before))),
    C16_ok p before after (RReversal items) = true ->
    forall it c0, In it items -> In c0 (st_crits before) -> c_id c0 = ri_id it ->
      values_range (all_alts before) c0 = Ok (ri_min it, ri_max it).
  Proof.
    intros ND H it c0 I Ic E. apply C16_ok_sound in H. cbn [C16_spec] in H.
    destruct (it_range_is_values_range _ _ _ (c16_reported_items _ _ _ _ H it I)) as (c1 & F & Hr).
    now rewrite (first_with_id_unique _ _ _ _ ND F Ic E).
  Qed.
End Sound.

(** ** 4. The exact-rational instance: the tolerance in terms of [<=] *)
From Coq Require Import QArith Qcanon Qabs Lqa.
From RDM Require Import Base.NumQc Proofs.AggregateFacts.

Definition tol8 (t : Qc) : Qc := (Q2Qc (15 # 1000000000) + Q2Qc (1 # 1000000000) * qc_abs t)%Qc.

Lemma close8_Qc (a b : Qc) : @close8 NumQc a b <-> (qc_abs (a - b) <= tol8 b)%Qc.
Proof. unfold close8, tol8. apply qc_leb_iff. Qed.

Lemma qc_abs_le (x t : Qc) : (qc_abs x <= t)%Qc <-> (- t <= x /\ x <= t)%Qc.
Proof. unfold Qcle. rewrite this_abs, this_opp. apply Qabs_Qle_condition. Qed.

(** [a] is within [tol8 b] of [b] *)
Lemma close8_Qc_bounds (a b : Qc) : @close8 NumQc a b <-> (b - tol8 b <= a /\ a <= b + tol8 b)%Qc.
Proof.
  rewrite close8_Qc, qc_abs_le. generalize (tol8 b). intros t. unfold Qcle.
  rewrite !this_minus, !this_plus, !this_opp. split; intros [A B]; split; lra.
Qed.

(** on [NumQc] the "mirrored" clause reads: the new value is within [tol8] of [max + min - v] *)
Corollary mirrored_Qc cid (mn mx : Qc) (a b : @alt NumQc) :
  mirrored cid mn mx a b <->
  let t := (mx + mn - val_of a cid)%Qc in (t - tol8 t <= val_of b cid /\ val_of b cid <= t + tol8 t)%Qc.
Proof. unfold mirrored. apply close8_Qc_bounds. Qed.

Corollary C16_ok_sound_Qc p (before after : @state NumQc) rep :
  C16_ok p before after rep = true -> C16_spec p before after rep.
Proof. apply (C16_ok_sound (L := OrdQc)). Qed.

(** ** 5. Executed examples on [NumQc] *)
Module Examples.
  Local Open Scope string_scope.
  Local Open Scope list_scope.

  (* the state [xs1] of ReversalFacts: criteria g (no declared range, weight 1/4) and k (cost, declared [0,400],
     weight 3/4); considered a (g 10, k 100), b (g 20, k 300); not considered c (g 14, k 150) *)
  Definition p_half := xprops "weakest" (xq 1 2) (xq 0 1) false (xq 0 1).
  (* hand-written observed data: g (the weakest; observed range [10,20]) mirrored *)
  Definition after1 : @state NumQc := xstate [xalt "a" 20 100; xalt "b" 10 300] [xalt "c" 16 150] [xg; xk].
  Definition rep1 : @report NumQc :=
    RReversal [(xg, (xq 10 1, xq 20 1), [("a", xq 20 1); ("b", xq 10 1); ("c", xq 16 1)])].

  (** non-vacuity: the hypothesis of [C16_ok_sound] is satisfiable ... *)
  Example C16_ok_satisfiable : C16_ok p_half xs1 after1 rep1 = true.
  Proof. vm_compute. reflexivity. Qed.

  (** ... and these data are what the model computes (compared with the checkers' own [state_same]/[report_same]) *)
  Example C16_ok_satisfiable_by_model :
    match apply_reversal (xenv []) xs1 p_half with
    | Ok (st, rep) => state_same st after1 && report_same rep rep1 && C16_ok p_half xs1 st rep
    | Err _ => false
    end = true.
  Proof. vm_compute. reflexivity. Qed.

  Example C16_spec_instance : C16_spec p_half xs1 after1 rep1.
  Proof. apply C16_ok_sound_Qc. exact C16_ok_satisfiable. Qed.

  (** What the checker does not test. *)

  (* (a) the ordering rule: the properties say "weakest" (g), the data mirror the strongest criterion (k, inside its
     declared range [0,400]); same count, accepted *)
  Example not_tested_which_criteria :
    match apply_reversal (xenv []) xs1 (xprops "strongest" (xq 1 2) (xq 0 1) false (xq 0 1)) with
    | Ok (st, rep) =>
        C16_ok p_half xs1 st rep
        && match rep with RReversal [(c, _, _)] => String.eqb (c_id c) "k" | _ => false end
    | Err _ => false
    end = true.
  Proof. vm_compute. reflexivity. Qed.

  (* (b) the formula is tested up to the tolerance: b gets 10 + 1e-9 instead of 10 (so the observed range of g is
     not exactly preserved either); accepted *)
  Definition alt_gk (id : string) (g k : Qc) : @alt NumQc := {| a_id := id; a_vals := [("g", g); ("k", k)] |}.
  Example not_tested_exact_equation :
    let g' := (xq 10 1 + xq 1 1000000000)%Qc in
    C16_ok p_half xs1
      (xstate [xalt "a" 20 100; alt_gk "b" g' (xq 300 1)] [xalt "c" 16 150] [xg; xk])
      (RReversal [(xg, (xq 10 1, xq 20 1), [("a", xq 20 1); ("b", g'); ("c", xq 16 1)])]) = true.
  Proof. vm_compute. reflexivity. Qed.

  (* (c) the reported criterion is compared by id only: type and range fields of the reported criterion are free *)
  Example not_tested_reported_criterion_fields :
    C16_ok p_half xs1 after1
      (RReversal [({| c_id := "g"; c_type := TCost; c_range := Some (xq 0 1, xq 1 1) |}, (xq 10 1, xq 20 1),
                   [("a", xq 20 1); ("b", xq 10 1); ("c", xq 16 1)])]) = true.
  Proof. vm_compute. reflexivity. Qed.

  (* (d) values under keys that are not criteria of the state may change: only g is a criterion, the k values change *)
  Example not_tested_values_outside_criteria :
    let p := xprops "weakest" (xq 1 1) (xq 0 1) false (xq 0 1) in
    C16_ok p (xstate [xalt "a" 10 100; xalt "b" 20 300] [] [xg])
      (xstate [xalt "a" 20 555; xalt "b" 10 777] [] [xg])
      (RReversal [(xg, (xq 10 1, xq 20 1), [("a", xq 20 1); ("b", xq 10 1)])]) = true.
  Proof. vm_compute. reflexivity. Qed.

  (* (e) a missing value is read as 0: alternative a has no value for k (declared range [0,400]) and gets 400 *)
  Example missing_value_read_as_zero :
    let p := xprops "weakest" (xq 1 1) (xq 0 1) false (xq 0 1) in
    let a0 : @alt NumQc := {| a_id := "a"; a_vals := [] |} in
    let a1 : @alt NumQc := {| a_id := "a"; a_vals := [("k", xq 400 1)] |} in
    C16_ok p (xstate [a0] [] [xk]) (xstate [a1] [] [xk])
      (RReversal [(xk, (xq 0 1, xq 400 1), [("a", xq 400 1)])]) = true.
  Proof. vm_compute. reflexivity. Qed.

  (* the checker is not trivially true: an unmirrored value, a changed unreported value, a wrong range, a wrong
     count are all rejected *)
  Example rejected :
    (C16_ok p_half xs1 (xstate [xalt "a" 10 100; xalt "b" 10 300] [xalt "c" 16 150] [xg; xk]) rep1,
     C16_ok p_half xs1 (xstate [xalt "a" 20 101; xalt "b" 10 300] [xalt "c" 16 150] [xg; xk]) rep1,
     C16_ok p_half xs1 after1 (RReversal [(xg, (xq 10 1, xq 21 1), [("a", xq 20 1); ("b", xq 10 1); ("c", xq 16 1)])]),
     C16_ok p_half xs1 xs1 (RReversal []))
    = (false, false, false, false).
  Proof. vm_compute. reflexivity. Qed.
End Examples.

Print Assumptions params_same_eq.
Print Assumptions C16_ok_sound.
Print Assumptions C16_ok_alternatives.
Print Assumptions C16_every_known_alternative.
Print Assumptions C16_range_of_the_criterion.
Print Assumptions close8_Qc_bounds.
Print Assumptions mirrored_Qc.
Print Assumptions C16_ok_sound_Qc.
Print Assumptions Examples.C16_ok_satisfiable.
Print Assumptions Examples.C16_spec_instance.
